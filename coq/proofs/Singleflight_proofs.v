(* Singleflight_proofs.v — invariants of the singleflight LTS over ALL accepted event lists
   (any number of threads and keys), and the wrapper-key lemmas. *)
From V Require Import Base Base_proofs GoQuote GoQuote_proofs Singleflight.
From Coq Require Import Lia Permutation.

(* ---------- association lists ---------- *)
Lemma nat_look_eq {B} t (x : B) l : alookup Nat.eqb t ((t, x) :: l) = Some x.
Proof. simpl. rewrite Nat.eqb_refl. reflexivity. Qed.
Lemma nat_look_neq {B} t t' (x : B) l : t <> t' -> alookup Nat.eqb t ((t', x) :: l) = alookup Nat.eqb t l.
Proof. intros H. simpl. destruct (Nat.eqb t t') eqn:E; [apply Nat.eqb_eq in E; contradiction | reflexivity]. Qed.
Lemma str_look_eq {B} k (x : B) l : alookup str_eqb k ((k, x) :: l) = Some x.
Proof. simpl. rewrite str_eqb_refl. reflexivity. Qed.
Lemma str_look_neq {B} k k' (x : B) l : k <> k' -> alookup str_eqb k ((k', x) :: l) = alookup str_eqb k l.
Proof. intros H. simpl. destruct (str_eqb k k') eqn:E; [apply str_eqb_eq in E; contradiction | reflexivity]. Qed.
Lemma str_remove_eq {B} k (l : list (str * B)) : alookup str_eqb k (aremove str_eqb k l) = None.
Proof.
  induction l as [|[a b] l IH]; simpl; [reflexivity|].
  destruct (str_eqb k a) eqn:E; [exact IH | simpl; rewrite E; exact IH].
Qed.
Lemma str_remove_neq {B} k k' (l : list (str * B)) :
  k' <> k -> alookup str_eqb k' (aremove str_eqb k l) = alookup str_eqb k' l.
Proof.
  intros H. induction l as [|[a b] l IH]; simpl; [reflexivity|].
  destruct (str_eqb k a) eqn:E.
  - apply str_eqb_eq in E; subst. destruct (str_eqb k' a) eqn:E2; [apply str_eqb_eq in E2; contradiction | exact IH].
  - simpl. destruct (str_eqb k' a); [reflexivity | exact IH].
Qed.

Ltac nateq a b := let E := fresh "E" in
  destruct (Nat.eqb a b) eqn:E; [apply Nat.eqb_eq in E; try subst | apply Nat.eqb_neq in E].
Ltac streq a b := let E := fresh "E" in
  destruct (str_eqb a b) eqn:E; [apply str_eqb_eq in E; try subst | apply str_eqb_neq in E].

(* ---------- runs ---------- *)
Lemma run_app {R} (s : state R) a b :
  run s (a ++ b) = match run s a with Some s' => run s' b | None => None end.
Proof. revert s; induction a as [|e a IH]; intros s; simpl; [reflexivity|]. destruct (step s e); [apply IH | reflexivity]. Qed.

Lemma reach_snoc {R} (tr : list (event R)) e s :
  reach (tr ++ [e]) s <-> exists s0, reach tr s0 /\ step s0 e = Some s.
Proof.
  unfold reach. rewrite run_app. split.
  - destruct (run init tr) as [s0|]; [|discriminate]. simpl. destruct (step s0 e) as [s1|] eqn:E; [|discriminate].
    intros H; inversion H; subst. exists s0; auto.
  - intros [s0 [H1 H2]]. rewrite H1. simpl. rewrite H2. reflexivity.
Qed.

Lemma reach_ind {R} (P : list (event R) -> state R -> Prop) :
  P [] init ->
  (forall tr s e s', reach tr s -> P tr s -> step s e = Some s' -> P (tr ++ [e]) s') ->
  forall tr s, reach tr s -> P tr s.
Proof.
  intros H0 HS tr. induction tr as [|e tr IH] using rev_ind; intros s H.
  - unfold reach in H. simpl in H. inversion H; subst. exact H0.
  - apply reach_snoc in H as [s0 [H1 H2]]. eapply HS; eauto.
Qed.

(* ---------- state invariant ---------- *)
Definition leads {R} (s : state R) (t : tid) : Prop :=
  thread s t = Some Leading \/ thread s t = Some LedDone.

Record Inv {R} (s : state R) : Prop := mkInv {
  inv_map : forall k c, inflight s k = Some c ->
      exists cl, callof s c = Some cl /\ c_key cl = k /\ leads s c;
  inv_leading : forall t, thread s t = Some Leading ->
      exists cl, callof s t = Some cl /\ c_result cl = None /\ inflight s (c_key cl) = Some t;
  inv_leddone : forall t, thread s t = Some LedDone ->
      exists cl r, callof s t = Some cl /\ c_result cl = Some r /\ inflight s (c_key cl) = Some t;
  inv_following : forall t c, thread s t = Some (Following c) ->
      c <> t /\ exists cl, callof s c = Some cl /\ In t (c_joined cl);
  inv_returned : forall t c r n, thread s t = Some (Returned c r n) ->
      exists cl, callof s c = Some cl /\ c_result cl = Some r /\
                 (c = t -> n = c_dups cl) /\ (c <> t -> n = 0%nat /\ In t (c_joined cl));
  inv_call : forall c cl, callof s c = Some cl ->
      in_call s c c /\ c_dups cl = length (c_joined cl) /\ NoDup (c_joined cl) /\
      (forall t, In t (c_joined cl) ->
          t <> c /\ (thread s t = Some (Following c) \/ exists r n, thread s t = Some (Returned c r n)))
}.

Lemma in_call_some {R} (s : state R) t c : in_call s t c -> thread s t <> None.
Proof. unfold in_call. destruct (thread s t); [discriminate | tauto]. Qed.

Lemma leads_some {R} (s : state R) t : leads s t -> thread s t <> None.
Proof. intros [H|H]; rewrite H; discriminate. Qed.

Lemma inv_init {R} : Inv (@init R).
Proof. constructor; unfold inflight, thread, callof; simpl; intros; discriminate. Qed.

(* accessors of an updated state *)
Lemma thread_upd {R} cs g (th : list (tid * tstate R)) t x t0 :
  thread (mkState cs g ((t, x) :: th)) t0 = if Nat.eqb t0 t then Some x else alookup Nat.eqb t0 th.
Proof. reflexivity. Qed.
Lemma callof_upd {R} (cs : list (tid * call R)) g th c x c0 :
  callof (mkState ((c, x) :: cs) g th) c0 = if Nat.eqb c0 c then Some x else alookup Nat.eqb c0 cs.
Proof. reflexivity. Qed.

Ltac inv_unfold := unfold leads, in_call, thread, callof, inflight in *; cbn [threads calls gmap] in *.

Lemma inv_enter_lead {R} (s : state R) t k :
  Inv s -> thread s t = None -> inflight s k = None ->
  Inv (mkState ((t, new_call k) :: calls s) ((k, t) :: gmap s) ((t, Leading) :: threads s)).
Proof.
  intros I Ht Hk.
  assert (Hc : forall c cl, callof s c = Some cl -> c <> t).
  { intros c cl H E; subst. apply (inv_call s I) in H as [H _]. apply in_call_some in H. contradiction. }
  destruct I as [IM IL ID IF IR IC]. constructor.
  - intros k0 c H. inv_unfold. cbn [alookup] in H. streq k0 k.
    + inversion H; subst c. exists (new_call k). cbn [alookup]. rewrite Nat.eqb_refl. auto.
    + destruct (IM _ _ H) as [cl [H1 [H2 H3]]]. exists cl. pose proof (Hc _ _ H1) as Hne.
      cbn [alookup]. apply Nat.eqb_neq in Hne. rewrite Hne. auto.
  - intros t0 H. inv_unfold. cbn [alookup] in *. nateq t0 t.
    + exists (new_call k). cbn. rewrite str_eqb_refl. auto.
    + destruct (IL _ H) as [cl [H1 [H2 H3]]]. exists cl. repeat split; auto.
      streq (c_key cl) k; [|exact H3]. rewrite Hk in H3. discriminate.
  - intros t0 H. inv_unfold. cbn [alookup] in *. nateq t0 t; [discriminate|].
    destruct (ID _ H) as [cl [r [H1 [H2 H3]]]]. exists cl, r. repeat split; auto.
    streq (c_key cl) k; [|exact H3]. rewrite Hk in H3. discriminate.
  - intros t0 c H. inv_unfold. cbn [alookup] in *. nateq t0 t; [discriminate|].
    destruct (IF _ _ H) as [H0 [cl [H1 H2]]]. split; [exact H0|]. exists cl.
    pose proof (Hc _ _ H1) as Hne. apply Nat.eqb_neq in Hne. rewrite Hne. auto.
  - intros t0 c r n H. inv_unfold. cbn [alookup] in *. nateq t0 t; [discriminate|].
    destruct (IR _ _ _ _ H) as [cl [H1 H2]]. exists cl.
    pose proof (Hc _ _ H1) as Hne. apply Nat.eqb_neq in Hne. rewrite Hne. auto.
  - intros c cl H. inv_unfold. cbn [alookup] in *. nateq c t.
    + inversion H; subst cl. cbn. split; [reflexivity|]. split; [reflexivity|]. split; [constructor|]. intros t0 [].
    + destruct (IC _ _ H) as [H1 [H2 [H3 H4]]]. split; [exact H1|]. split; [exact H2|]. split; [exact H3|].
      intros t0 Hin. destruct (H4 _ Hin) as [Hne Hd]. split; [exact Hne|].
      nateq t0 t; [|exact Hd]. rewrite Ht in Hd. destruct Hd as [Hd|[r [n Hd]]]; discriminate.
Qed.

Lemma inv_enter_join {R} (s : state R) t k c cl :
  Inv s -> thread s t = None -> inflight s k = Some c -> callof s c = Some cl ->
  Inv (mkState ((c, mkCall (c_key cl) (c_result cl) (S (c_dups cl)) (t :: c_joined cl)) :: calls s)
               (gmap s) ((t, Following c) :: threads s)).
Proof.
  intros I Ht Hk Hcl.
  assert (Hct : c <> t).
  { intros E; subst. apply (inv_call s I) in Hcl as [H _]. apply in_call_some in H. contradiction. }
  assert (Hlc : leads s c).
  { destruct (inv_map s I _ _ Hk) as [cl' [_ [_ H]]]. exact H. }
  destruct I as [IM IL ID IF IR IC]. constructor.
  - intros k0 c0 H. inv_unfold. destruct (IM _ _ H) as [cl0 [H1 [H2 H3]]].
    assert (c0 <> t) as Hne by (intros E; subst; rewrite Ht in H3; destruct H3; discriminate).
    cbn [alookup]. apply Nat.eqb_neq in Hne. rewrite Hne.
    nateq c0 c.
    + rewrite Hcl in H1. inversion H1; subst cl0. eexists. split; [reflexivity|]. cbn. auto.
    + exists cl0. auto.
  - intros t0 H. inv_unfold. cbn [alookup] in *. nateq t0 t; [discriminate|].
    destruct (IL _ H) as [cl0 [H1 [H2 H3]]]. nateq t0 c.
    + rewrite Hcl in H1. inversion H1; subst cl0. eexists. split; [reflexivity|]. cbn. auto.
    + exists cl0. auto.
  - intros t0 H. inv_unfold. cbn [alookup] in *. nateq t0 t; [discriminate|].
    destruct (ID _ H) as [cl0 [r [H1 [H2 H3]]]]. nateq t0 c.
    + rewrite Hcl in H1. inversion H1; subst cl0. eexists. exists r. split; [reflexivity|]. cbn. auto.
    + exists cl0, r. auto.
  - intros t0 c0 H. inv_unfold. cbn [alookup] in *. nateq t0 t.
    + inversion H; subst c0. split; [exact Hct|]. rewrite Nat.eqb_refl. eexists. split; [reflexivity|]. cbn. auto.
    + destruct (IF _ _ H) as [H0 [cl0 [H1 H2]]]. split; [exact H0|]. nateq c0 c.
      * rewrite Hcl in H1. inversion H1; subst cl0. eexists. split; [reflexivity|]. cbn. auto.
      * exists cl0. auto.
  - intros t0 c0 r n H. inv_unfold. cbn [alookup] in *. nateq t0 t; [discriminate|].
    destruct (IR _ _ _ _ H) as [cl0 [H1 [H2 [H3 H4]]]]. nateq c0 c.
    + rewrite Hcl in H1. inversion H1; subst cl0. eexists. split; [reflexivity|]. cbn.
      split; [exact H2|]. split.
      * intros E'; subst. rewrite H in Hlc. destruct Hlc; discriminate.
      * intros E'. destruct (H4 E') as [H5 H6]. auto.
    + exists cl0. auto.
  - intros c0 cl0 H. inv_unfold. cbn [alookup] in *. nateq c0 c.
    + inversion H; subst cl0. cbn. destruct (IC _ _ Hcl) as [H1 [H2 [H3 H4]]].
      apply Nat.eqb_neq in Hct. rewrite Hct. split; [exact H1|]. split; [congruence|].
      split.
      * constructor; [|exact H3]. intros Hin. destruct (H4 _ Hin) as [_ Hd].
        rewrite Ht in Hd. destruct Hd as [Hd|[r [n Hd]]]; discriminate.
      * intros t0 [<-|Hin].
        -- split; [apply Nat.eqb_neq in Hct; auto|]. rewrite Nat.eqb_refl. auto.
        -- destruct (H4 _ Hin) as [Hne Hd]. split; [exact Hne|]. nateq t0 t; [|exact Hd].
           rewrite Ht in Hd. destruct Hd as [Hd|[r [n Hd]]]; discriminate.
    + destruct (IC _ _ H) as [H1 [H2 [H3 H4]]].
      assert (c0 <> t) as Hne0 by (intros E'; subst; rewrite Ht in H1; exact H1).
      apply Nat.eqb_neq in Hne0. rewrite Hne0.
      split; [exact H1|]. split; [exact H2|]. split; [exact H3|].
      intros t0 Hin. destruct (H4 _ Hin) as [Hne Hd]. split; [exact Hne|]. nateq t0 t; [|exact Hd].
      rewrite Ht in Hd. destruct Hd as [Hd|[r [n Hd]]]; discriminate.
Qed.

Lemma inv_fnreturn {R} (s : state R) t (r : R) cl :
  Inv s -> thread s t = Some Leading -> callof s t = Some cl ->
  Inv (mkState ((t, mkCall (c_key cl) (Some r) (c_dups cl) (c_joined cl)) :: calls s)
               (gmap s) ((t, LedDone) :: threads s)).
Proof.
  intros I Ht Hcl.
  destruct (inv_leading s I _ Ht) as [cl' [Hcl' [Hres Hmap]]].
  rewrite Hcl in Hcl'. inversion Hcl'; subst cl'. clear Hcl'.
  destruct I as [IM IL ID IF IR IC]. constructor.
  - intros k0 c0 H. inv_unfold. destruct (IM _ _ H) as [cl0 [H1 [H2 H3]]].
    cbn [alookup]. nateq c0 t.
    + rewrite Hcl in H1. inversion H1; subst cl0. eexists. split; [reflexivity|]. cbn. auto.
    + exists cl0. auto.
  - intros t0 H. inv_unfold. cbn [alookup] in *. nateq t0 t; [discriminate|]. apply IL. exact H.
  - intros t0 H. inv_unfold. cbn [alookup] in *. nateq t0 t.
    + eexists. exists r. split; [reflexivity|]. cbn. auto.
    + apply ID. exact H.
  - intros t0 c0 H. inv_unfold. cbn [alookup] in *. nateq t0 t; [discriminate|].
    destruct (IF _ _ H) as [H0 [cl0 [H1 H2]]]. split; [exact H0|]. nateq c0 t.
    + rewrite Hcl in H1. inversion H1; subst cl0. eexists. split; [reflexivity|]. cbn. auto.
    + exists cl0. auto.
  - intros t0 c0 r0 n H. inv_unfold. cbn [alookup] in *. nateq t0 t; [discriminate|].
    destruct (IR _ _ _ _ H) as [cl0 [H1 [H2 H3]]]. nateq c0 t.
    + rewrite Hcl in H1. inversion H1; subst cl0. congruence.
    + exists cl0. auto.
  - intros c0 cl0 H. inv_unfold. cbn [alookup] in *.
    assert (Hmem : forall c1 cl1, alookup Nat.eqb c1 (calls s) = Some cl1 -> forall t0, In t0 (c_joined cl1) ->
              t0 <> c1 /\ ((if Nat.eqb t0 t then Some LedDone else alookup Nat.eqb t0 (threads s)) = Some (Following c1) \/
                           exists r1 n, (if Nat.eqb t0 t then Some LedDone else alookup Nat.eqb t0 (threads s)) = Some (Returned c1 r1 n))).
    { intros c1 cl1 H1 t0 Hin. destruct (IC _ _ H1) as [_ [_ [_ H4]]]. destruct (H4 _ Hin) as [Hne Hd].
      split; [exact Hne|]. nateq t0 t; [|exact Hd]. rewrite Ht in Hd. destruct Hd as [Hd|[r1 [n Hd]]]; discriminate. }
    nateq c0 t.
    + inversion H; subst cl0. cbn. destruct (IC _ _ Hcl) as [H1 [H2 [H3 H4]]].
      split; [reflexivity|]. split; [exact H2|]. split; [exact H3|]. apply (Hmem _ _ Hcl).
    + destruct (IC _ _ H) as [H1 [H2 [H3 H4]]].
      split; [exact H1|]. split; [exact H2|]. split; [exact H3|]. apply (Hmem _ _ H).
Qed.

Lemma inv_cleanup {R} (s : state R) t (r : R) cl :
  Inv s -> thread s t = Some LedDone -> callof s t = Some cl -> c_result cl = Some r ->
  Inv (mkState (calls s) (aremove str_eqb (c_key cl) (gmap s)) ((t, Returned t r (c_dups cl)) :: threads s)).
Proof.
  intros I Ht Hcl Hr.
  destruct (inv_leddone s I _ Ht) as [cl' [r' [Hcl' [Hres Hmap]]]].
  rewrite Hcl in Hcl'. inversion Hcl'; subst cl'. clear Hcl'.
  destruct I as [IM IL ID IF IR IC]. constructor.
  - intros k0 c0 H. inv_unfold. streq k0 (c_key cl); [rewrite str_remove_eq in H; discriminate|].
    rewrite str_remove_neq in H by assumption. destruct (IM _ _ H) as [cl0 [H1 [H2 H3]]].
    exists cl0. split; [exact H1|]. split; [exact H2|]. cbn [alookup]. nateq c0 t; [|exact H3].
    rewrite Hcl in H1. inversion H1; subst cl0. contradiction.
  - intros t0 H. inv_unfold. cbn [alookup] in *. nateq t0 t; [discriminate|].
    destruct (IL _ H) as [cl0 [H1 [H2 H3]]]. exists cl0. split; [exact H1|]. split; [exact H2|].
    rewrite str_remove_neq; [exact H3|]. intros E'. rewrite E' in H3. congruence.
  - intros t0 H. inv_unfold. cbn [alookup] in *. nateq t0 t; [discriminate|].
    destruct (ID _ H) as [cl0 [r0 [H1 [H2 H3]]]]. exists cl0, r0. split; [exact H1|]. split; [exact H2|].
    rewrite str_remove_neq; [exact H3|]. intros E'. rewrite E' in H3. congruence.
  - intros t0 c0 H. inv_unfold. cbn [alookup] in *. nateq t0 t; [discriminate|]. apply IF. exact H.
  - intros t0 c0 r0 n H. inv_unfold. cbn [alookup] in *. nateq t0 t.
    + inversion H; subst. exists cl. split; [exact Hcl|]. split; [exact Hr|]. split; [reflexivity|]. intros Hne; contradiction.
    + apply IR. exact H.
  - intros c0 cl0 H. inv_unfold. cbn [alookup] in *. destruct (IC _ _ H) as [H1 [H2 [H3 H4]]].
    split.
    + nateq c0 t; [reflexivity | exact H1].
    + split; [exact H2|]. split; [exact H3|]. intros t0 Hin. destruct (H4 _ Hin) as [Hne Hd].
      split; [exact Hne|]. nateq t0 t; [|exact Hd]. rewrite Ht in Hd. destruct Hd as [Hd|[r1 [n Hd]]]; discriminate.
Qed.

Lemma inv_wake {R} (s : state R) t c (r : R) cl :
  Inv s -> thread s t = Some (Following c) -> callof s c = Some cl -> c_result cl = Some r ->
  Inv (mkState (calls s) (gmap s) ((t, Returned c r 0%nat) :: threads s)).
Proof.
  intros I Ht Hcl Hr.
  destruct (inv_following s I _ _ Ht) as [Hct [cl' [Hcl' Hin]]].
  rewrite Hcl in Hcl'. inversion Hcl'; subst cl'. clear Hcl'.
  destruct I as [IM IL ID IF IR IC]. constructor.
  - intros k0 c0 H. inv_unfold. destruct (IM _ _ H) as [cl0 [H1 [H2 H3]]].
    exists cl0. split; [exact H1|]. split; [exact H2|]. cbn [alookup]. nateq c0 t; [|exact H3].
    rewrite Ht in H3. destruct H3; discriminate.
  - intros t0 H. inv_unfold. cbn [alookup] in *. nateq t0 t; [discriminate|]. apply IL. exact H.
  - intros t0 H. inv_unfold. cbn [alookup] in *. nateq t0 t; [discriminate|]. apply ID. exact H.
  - intros t0 c0 H. inv_unfold. cbn [alookup] in *. nateq t0 t; [discriminate|]. apply IF. exact H.
  - intros t0 c0 r0 n H. inv_unfold. cbn [alookup] in *. nateq t0 t.
    + inversion H; subst. exists cl. split; [exact Hcl|]. split; [exact Hr|]. split; [intros; contradiction|]. auto.
    + apply IR. exact H.
  - intros c0 cl0 H. inv_unfold. cbn [alookup] in *. destruct (IC _ _ H) as [H1 [H2 [H3 H4]]].
    split.
    + nateq c0 t; [|exact H1]. rewrite Ht in H1. symmetry in H1. contradiction.
    + split; [exact H2|]. split; [exact H3|]. intros t0 Hin0. destruct (H4 _ Hin0) as [Hne Hd].
      split; [exact Hne|]. nateq t0 t; [|exact Hd]. rewrite Ht in Hd. destruct Hd as [Hd|[r1 [n Hd]]]; [|discriminate].
      inversion Hd; subst. right. eauto.
Qed.

Lemma inv_step {R} (s s' : state R) e : Inv s -> step s e = Some s' -> Inv s'.
Proof.
  intros I H. destruct e as [t k|t r|t|t]; unfold step in H.
  - destruct (thread s t) eqn:Ht; [discriminate|]. destruct (inflight s k) as [c|] eqn:Hk.
    + destruct (callof s c) as [cl|] eqn:Hc; [|discriminate]. inversion H; subst. eapply inv_enter_join; eassumption.
    + inversion H; subst. apply inv_enter_lead; assumption.
  - destruct (thread s t) as [[| |c|c r0 n]|] eqn:Ht; try discriminate.
    destruct (callof s t) as [cl|] eqn:Hc; [|discriminate]. inversion H; subst. apply inv_fnreturn; assumption.
  - destruct (thread s t) as [[| |c|c r0 n]|] eqn:Ht; try discriminate.
    destruct (callof s t) as [cl|] eqn:Hc; [|discriminate]. destruct (c_result cl) as [r|] eqn:Hr; [|discriminate].
    inversion H; subst. apply inv_cleanup; assumption.
  - destruct (thread s t) as [[| |c|c r0 n]|] eqn:Ht; try discriminate.
    destruct (callof s c) as [cl|] eqn:Hc; [|discriminate]. destruct (c_result cl) as [r|] eqn:Hr; [|discriminate].
    inversion H; subst. eapply inv_wake; eassumption.
Qed.

Lemma reach_inv {R} (tr : list (event R)) s : reach tr s -> Inv s.
Proof.
  intros H. apply (reach_ind (fun _ s => Inv s)) with (tr := tr); [apply inv_init | | exact H].
  intros tr0 s0 e s' _ I Hs. eapply inv_step; eauto.
Qed.

(* the five shapes of an enabled step *)
Inductive step_shape {R} (s : state R) : event R -> state R -> Prop :=
| sh_lead t k : thread s t = None -> inflight s k = None ->
    step_shape s (Enter t k) (mkState ((t, new_call k) :: calls s) ((k, t) :: gmap s) ((t, Leading) :: threads s))
| sh_join t k c cl : thread s t = None -> inflight s k = Some c -> callof s c = Some cl ->
    step_shape s (Enter t k)
      (mkState ((c, mkCall (c_key cl) (c_result cl) (S (c_dups cl)) (t :: c_joined cl)) :: calls s)
               (gmap s) ((t, Following c) :: threads s))
| sh_fn t r cl : thread s t = Some Leading -> callof s t = Some cl ->
    step_shape s (FnReturn t r)
      (mkState ((t, mkCall (c_key cl) (Some r) (c_dups cl) (c_joined cl)) :: calls s) (gmap s) ((t, LedDone) :: threads s))
| sh_cleanup t r cl : thread s t = Some LedDone -> callof s t = Some cl -> c_result cl = Some r ->
    step_shape s (Cleanup t)
      (mkState (calls s) (aremove str_eqb (c_key cl) (gmap s)) ((t, Returned t r (c_dups cl)) :: threads s))
| sh_wake t c r cl : thread s t = Some (Following c) -> callof s c = Some cl -> c_result cl = Some r ->
    step_shape s (Wake t) (mkState (calls s) (gmap s) ((t, Returned c r 0%nat) :: threads s)).

Lemma step_cases {R} (s s' : state R) e : step s e = Some s' -> step_shape s e s'.
Proof.
  intros H. destruct e as [t k|t r|t|t]; unfold step in H.
  - destruct (thread s t) eqn:Ht; [discriminate|]. destruct (inflight s k) as [c|] eqn:Hk.
    + destruct (callof s c) as [cl|] eqn:Hc; [|discriminate]. inversion H; subst. eapply sh_join; eassumption.
    + inversion H; subst. apply sh_lead; assumption.
  - destruct (thread s t) as [[| |c|c r0 n]|] eqn:Ht; try discriminate.
    destruct (callof s t) as [cl|] eqn:Hc; [|discriminate]. inversion H; subst. apply sh_fn; assumption.
  - destruct (thread s t) as [[| |c|c r0 n]|] eqn:Ht; try discriminate.
    destruct (callof s t) as [cl|] eqn:Hc; [|discriminate]. destruct (c_result cl) as [r|] eqn:Hr; [|discriminate].
    inversion H; subst. apply sh_cleanup; assumption.
  - destruct (thread s t) as [[| |c|c r0 n]|] eqn:Ht; try discriminate.
    destruct (callof s c) as [cl|] eqn:Hc; [|discriminate]. destruct (c_result cl) as [r|] eqn:Hr; [|discriminate].
    inversion H; subst. eapply sh_wake; eassumption.
Qed.

Lemma step_shape_step {R} (s s' : state R) e : step_shape s e s' -> step s e = Some s'.
Proof.
  intros H. destruct H; unfold step.
  - rewrite H, H0. reflexivity.
  - rewrite H, H0, H1. reflexivity.
  - rewrite H, H0. reflexivity.
  - rewrite H, H0, H1. reflexivity.
  - rewrite H, H0, H1. reflexivity.
Qed.

(* membership in a call and the calls' keys / stored results never change once established *)
Lemma step_mono {R} (s s' : state R) e : Inv s -> step s e = Some s' ->
  (forall t c, in_call s t c -> in_call s' t c) /\
  (forall c cl, callof s c = Some cl ->
     exists cl', callof s' c = Some cl' /\ c_key cl' = c_key cl /\ forall r, c_result cl = Some r -> c_result cl' = Some r).
Proof.
  intros I H. apply step_cases in H. destruct H.
  - split.
    + intros t0 c0 Hi. inv_unfold. cbn [alookup]. nateq t0 t; [rewrite H in Hi; contradiction | exact Hi].
    + intros c0 cl0 Hc. inv_unfold. cbn [alookup]. nateq c0 t.
      * apply (inv_call s I) in Hc as [Hc _]. apply in_call_some in Hc. contradiction.
      * exists cl0. auto.
  - split.
    + intros t0 c0 Hi. inv_unfold. cbn [alookup]. nateq t0 t; [rewrite H in Hi; contradiction | exact Hi].
    + intros c0 cl0 Hc. inv_unfold. cbn [alookup]. nateq c0 c.
      * rewrite H1 in Hc. inversion Hc; subst. eexists. split; [reflexivity|]. cbn. auto.
      * exists cl0. auto.
  - split.
    + intros t0 c0 Hi. inv_unfold. cbn [alookup]. nateq t0 t; [rewrite H in Hi; exact Hi | exact Hi].
    + intros c0 cl0 Hc. inv_unfold. cbn [alookup]. nateq c0 t.
      * rewrite H0 in Hc. inversion Hc; subst. eexists. split; [reflexivity|]. cbn. split; [reflexivity|].
        intros r0 Hr. destruct (inv_leading s I _ H) as [cl' [H1 [H2 _]]]. unfold callof in H1. rewrite H0 in H1.
        inversion H1; subst. congruence.
      * exists cl0. auto.
  - split.
    + intros t0 c0 Hi. inv_unfold. cbn [alookup]. nateq t0 t; [rewrite H in Hi; exact Hi | exact Hi].
    + intros c0 cl0 Hc. exists cl0. auto.
  - split.
    + intros t0 c0 Hi. inv_unfold. cbn [alookup]. nateq t0 t; [rewrite H in Hi; exact Hi | exact Hi].
    + intros c0 cl0 Hc. exists cl0. auto.
Qed.

(* ---------- trace invariant: what the state says is what the events said ---------- *)
Record TInv {R} (tr : list (event R)) (s : state R) : Prop := mkTInv {
  ti_enter : forall t k, In (Enter t k) tr ->
      exists c cl, in_call s t c /\ callof s c = Some cl /\ c_key cl = k;
  ti_entered : forall t, thread s t <> None -> exists k, In (Enter t k) tr;
  ti_result : forall c cl r, callof s c = Some cl -> c_result cl = Some r -> In (FnReturn c r) tr;
  ti_fnreturn : forall c r, In (FnReturn c r) tr -> exists cl, callof s c = Some cl /\ c_result cl = Some r
}.

Lemma tinv_step {R} (tr : list (event R)) s e s' :
  Inv s -> TInv tr s -> step s e = Some s' -> TInv (tr ++ [e]) s'.
Proof.
  intros I T H. destruct (step_mono s s' e I H) as [Mi Mc]. destruct T as [TE TD TR TF].
  assert (Old_enter : forall t k, In (Enter t k) tr -> exists c cl, in_call s' t c /\ callof s' c = Some cl /\ c_key cl = k).
  { intros t k Hin. destruct (TE _ _ Hin) as [c [cl [H1 [H2 H3]]]]. destruct (Mc _ _ H2) as [cl' [H4 [H5 _]]].
    exists c, cl'. split; [apply Mi; exact H1|]. split; [exact H4 | congruence]. }
  assert (Old_fn : forall c r, In (FnReturn c r) tr -> exists cl, callof s' c = Some cl /\ c_result cl = Some r).
  { intros c r Hin. destruct (TF _ _ Hin) as [cl [H1 H2]]. destruct (Mc _ _ H1) as [cl' [H4 [_ H5]]].
    exists cl'. split; [exact H4 | apply H5; exact H2]. }
  apply step_cases in H. destruct H.
  - constructor.
    + intros t0 k0 Hin. apply in_app_iff in Hin as [Hin|[Hin|[]]]; [apply Old_enter; exact Hin|].
      inversion Hin; subst. exists t0, (new_call k0). inv_unfold. cbn [alookup]. rewrite Nat.eqb_refl. auto.
    + intros t0 Hn. inv_unfold. cbn [alookup] in Hn. nateq t0 t.
      * exists k. apply in_app_iff. right. left. reflexivity.
      * destruct (TD _ Hn) as [k0 Hk0]. exists k0. apply in_app_iff. left. exact Hk0.
    + intros c0 cl0 r0 Hc Hr. apply in_app_iff. left. inv_unfold. cbn [alookup] in Hc. nateq c0 t.
      * inversion Hc; subst. discriminate.
      * eapply TR; eauto.
    + intros c0 r0 Hin. apply in_app_iff in Hin as [Hin|[Hin|[]]]; [apply Old_fn; exact Hin | discriminate].
  - constructor.
    + intros t0 k0 Hin. apply in_app_iff in Hin as [Hin|[Hin|[]]]; [apply Old_enter; exact Hin|].
      inversion Hin; subst. destruct (inv_map s I _ _ H0) as [cl' [H2 [H3 _]]]. rewrite H1 in H2. inversion H2; subst cl'.
      exists c. eexists. inv_unfold. cbn [alookup]. rewrite !Nat.eqb_refl. split; [reflexivity|]. split; [reflexivity|]. cbn. exact H3.
    + intros t0 Hn. inv_unfold. cbn [alookup] in Hn. nateq t0 t.
      * exists k. apply in_app_iff. right. left. reflexivity.
      * destruct (TD _ Hn) as [k0 Hk0]. exists k0. apply in_app_iff. left. exact Hk0.
    + intros c0 cl0 r0 Hc Hr. apply in_app_iff. left. inv_unfold. cbn [alookup] in Hc. nateq c0 c.
      * inversion Hc; subst. cbn in Hr. eapply TR; eauto.
      * eapply TR; eauto.
    + intros c0 r0 Hin. apply in_app_iff in Hin as [Hin|[Hin|[]]]; [apply Old_fn; exact Hin | discriminate].
  - constructor.
    + intros t0 k0 Hin. apply in_app_iff in Hin as [Hin|[Hin|[]]]; [apply Old_enter; exact Hin | discriminate].
    + intros t0 Hn. inv_unfold. cbn [alookup] in Hn. nateq t0 t.
      * destruct (TD t) as [k0 Hk0]; [rewrite H; discriminate|]. exists k0. apply in_app_iff. left. exact Hk0.
      * destruct (TD _ Hn) as [k0 Hk0]. exists k0. apply in_app_iff. left. exact Hk0.
    + intros c0 cl0 r0 Hc Hr. apply in_app_iff. inv_unfold. cbn [alookup] in Hc. nateq c0 t.
      * inversion Hc; subst. cbn in Hr. inversion Hr; subst. right. left. reflexivity.
      * left. eapply TR; eauto.
    + intros c0 r0 Hin. apply in_app_iff in Hin as [Hin|[Hin|[]]]; [apply Old_fn; exact Hin|].
      inversion Hin; subst. eexists. inv_unfold. cbn [alookup]. rewrite Nat.eqb_refl. split; reflexivity.
  - constructor.
    + intros t0 k0 Hin. apply in_app_iff in Hin as [Hin|[Hin|[]]]; [apply Old_enter; exact Hin | discriminate].
    + intros t0 Hn. inv_unfold. cbn [alookup] in Hn. nateq t0 t.
      * destruct (TD t) as [k0 Hk0]; [rewrite H; discriminate|]. exists k0. apply in_app_iff. left. exact Hk0.
      * destruct (TD _ Hn) as [k0 Hk0]. exists k0. apply in_app_iff. left. exact Hk0.
    + intros c0 cl0 r0 Hc Hr. apply in_app_iff. left. eapply TR; eauto.
    + intros c0 r0 Hin. apply in_app_iff in Hin as [Hin|[Hin|[]]]; [apply Old_fn; exact Hin | discriminate].
  - constructor.
    + intros t0 k0 Hin. apply in_app_iff in Hin as [Hin|[Hin|[]]]; [apply Old_enter; exact Hin | discriminate].
    + intros t0 Hn. inv_unfold. cbn [alookup] in Hn. nateq t0 t.
      * destruct (TD t) as [k0 Hk0]; [rewrite H; discriminate|]. exists k0. apply in_app_iff. left. exact Hk0.
      * destruct (TD _ Hn) as [k0 Hk0]. exists k0. apply in_app_iff. left. exact Hk0.
    + intros c0 cl0 r0 Hc Hr. apply in_app_iff. left. eapply TR; eauto.
    + intros c0 r0 Hin. apply in_app_iff in Hin as [Hin|[Hin|[]]]; [apply Old_fn; exact Hin | discriminate].
Qed.

Lemma reach_tinv {R} (tr : list (event R)) s : reach tr s -> TInv tr s.
Proof.
  intros H. apply (reach_ind (fun tr s => TInv tr s)); [ | | exact H].
  - constructor; unfold thread, callof; simpl; intros; try contradiction; try discriminate.
  - intros tr0 s0 e s' Hr T Hs. eapply tinv_step; eauto. eapply reach_inv; eauto.
Qed.

(* ================= theorems of the generic layer ================= *)

(* at most one execution per key is in flight (fn running or finished-but-not-cleaned-up) *)
Theorem one_at_a_time {R} (tr : list (event R)) s t1 t2 cl1 cl2 :
  reach tr s -> leads s t1 -> leads s t2 ->
  callof s t1 = Some cl1 -> callof s t2 = Some cl2 -> c_key cl1 = c_key cl2 -> t1 = t2.
Proof.
  intros Hr L1 L2 C1 C2 K. pose proof (reach_inv _ _ Hr) as I.
  assert (forall t cl, leads s t -> callof s t = Some cl -> inflight s (c_key cl) = Some t) as HL.
  { intros t cl [L|L] C.
    - destruct (inv_leading s I _ L) as [cl' [H1 [_ H2]]]. congruence.
    - destruct (inv_leddone s I _ L) as [cl' [r [H1 [_ H2]]]]. congruence. }
  pose proof (HL _ _ L1 C1) as A. pose proof (HL _ _ L2 C2) as B. rewrite K in A. congruence.
Qed.

(* a fresh invocation can always enter (no dangling map entries) ... *)
Theorem enter_enabled {R} (tr : list (event R)) s t k :
  reach tr s -> thread s t = None -> exists s', step s (Enter t k) = Some s'.
Proof.
  intros Hr Ht. pose proof (reach_inv _ _ Hr) as I. unfold step. rewrite Ht.
  destruct (inflight s k) as [c|] eqn:Hk; [|eauto].
  destruct (inv_map s I _ _ Hk) as [cl [H1 _]]. rewrite H1. eauto.
Qed.

(* ... and while an execution of its key is in flight it joins that execution instead of running *)
Theorem enter_joins_inflight {R} (tr : list (event R)) s t1 cl1 t s' :
  reach tr s -> leads s t1 -> callof s t1 = Some cl1 ->
  step s (Enter t (c_key cl1)) = Some s' ->
  thread s' t = Some (Following t1) /\
  exists cl', callof s' t1 = Some cl' /\ c_dups cl' = S (c_dups cl1) /\ c_result cl' = c_result cl1.
Proof.
  intros Hr L C Hs. pose proof (reach_inv _ _ Hr) as I.
  assert (inflight s (c_key cl1) = Some t1) as HL.
  { destruct L as [L|L].
    - destruct (inv_leading s I _ L) as [cl' [H1 [_ H2]]]. congruence.
    - destruct (inv_leddone s I _ L) as [cl' [r [H1 [_ H2]]]]. congruence. }
  unfold step in Hs. destruct (thread s t) eqn:Ht; [discriminate|]. rewrite HL, C in Hs. inversion Hs; subst.
  inv_unfold. cbn [alookup]. rewrite !Nat.eqb_refl. split; [reflexivity|]. eexists. split; [reflexivity|]. cbn. auto.
Qed.

Lemma fnreturn_unique {R} (tr : list (event R)) s c r r' :
  reach tr s -> In (FnReturn c r) tr -> In (FnReturn c r') tr -> r = r'.
Proof.
  intros Hr H1 H2. pose proof (reach_tinv _ _ Hr) as T.
  destruct (ti_fnreturn _ _ T _ _ H1) as [cl [A B]]. destruct (ti_fnreturn _ _ T _ _ H2) as [cl' [A' B']]. congruence.
Qed.

(* a thread that joined call c returns exactly the result stored by c's leader, count 0 *)
Theorem joined_get_leader_result {R} (tr : list (event R)) s t c r n :
  reach tr s -> thread s t = Some (Returned c r n) -> c <> t ->
  n = 0%nat /\ In (FnReturn c r) tr /\ (forall r', In (FnReturn c r') tr -> r' = r) /\
  (forall c' r' n', thread s c = Some (Returned c' r' n') -> c' = c /\ r' = r).
Proof.
  intros Hr Ht Hne. pose proof (reach_inv _ _ Hr) as I. pose proof (reach_tinv _ _ Hr) as T.
  destruct (inv_returned s I _ _ _ _ Ht) as [cl [H1 [H2 [_ H4]]]]. destruct (H4 Hne) as [H5 _].
  pose proof (ti_result _ _ T _ _ _ H1 H2) as Hin.
  split; [exact H5|]. split; [exact Hin|]. split.
  - intros r' Hin'. eapply fnreturn_unique; eauto.
  - intros c' r' n' Hc. destruct (inv_call s I _ _ H1) as [Hi _]. unfold in_call in Hi. rewrite Hc in Hi. subst c'.
    split; [reflexivity|]. destruct (inv_returned s I _ _ _ _ Hc) as [cl' [G1 [G2 _]]]. congruence.
Qed.

(* the leader returns the result of its own fn *)
Theorem leader_gets_own_result {R} (tr : list (event R)) s t r n :
  reach tr s -> thread s t = Some (Returned t r n) ->
  In (FnReturn t r) tr /\ forall r', In (FnReturn t r') tr -> r' = r.
Proof.
  intros Hr Ht. pose proof (reach_inv _ _ Hr) as I. pose proof (reach_tinv _ _ Hr) as T.
  destruct (inv_returned s I _ _ _ _ Ht) as [cl [H1 [H2 _]]].
  pose proof (ti_result _ _ T _ _ _ H1 H2) as Hin. split; [exact Hin|].
  intros r' Hin'. eapply fnreturn_unique; eauto.
Qed.

(* t joined call c (as a follower) *)
Definition joined {R} (s : state R) (t c : tid) : Prop :=
  t <> c /\ (thread s t = Some (Following c) \/ exists r n, thread s t = Some (Returned c r n)).

(* the count returned to the leader is the number of threads that joined its call *)
Theorem leader_count {R} (tr : list (event R)) s t r n :
  reach tr s -> thread s t = Some (Returned t r n) ->
  exists js, n = length js /\ NoDup js /\ forall t', In t' js <-> joined s t' t.
Proof.
  intros Hr Ht. pose proof (reach_inv _ _ Hr) as I.
  destruct (inv_returned s I _ _ _ _ Ht) as [cl [H1 [_ [H3 _]]]].
  destruct (inv_call s I _ _ H1) as [_ [H5 [H6 H7]]].
  exists (c_joined cl). split; [rewrite (H3 eq_refl); exact H5|]. split; [exact H6|].
  intros t'. split; [apply H7|]. intros [Hne [Hf|[r' [n' Hf]]]].
  - destruct (inv_following s I _ _ Hf) as [_ [cl' [G1 G2]]]. congruence.
  - destruct (inv_returned s I _ _ _ _ Hf) as [cl' [G1 [_ [_ G4]]]].
    destruct (G4 (fun E => Hne (eq_sym E))) as [_ G5]. congruence.
Qed.

(* when no execution of k is in flight, the next caller runs afresh *)
Theorem fresh_when_not_inflight {R} (tr : list (event R)) s k t :
  reach tr s -> (forall t1 cl1, leads s t1 -> callof s t1 = Some cl1 -> c_key cl1 <> k) ->
  thread s t = None ->
  exists s', step s (Enter t k) = Some s' /\ thread s' t = Some Leading /\ callof s' t = Some (new_call k).
Proof.
  intros Hr Hno Ht. pose proof (reach_inv _ _ Hr) as I.
  assert (inflight s k = None) as Hk.
  { destruct (inflight s k) as [c|] eqn:E; [|reflexivity].
    destruct (inv_map s I _ _ E) as [cl [H1 [H2 H3]]]. exfalso. eapply Hno; eauto. }
  eexists. unfold step. rewrite Ht, Hk. split; [reflexivity|]. inv_unfold. cbn [alookup]. rewrite !Nat.eqb_refl. auto.
Qed.

Theorem cleanup_closes {R} (tr : list (event R)) t s :
  reach (tr ++ [Cleanup t]) s ->
  exists cl r, callof s t = Some cl /\ thread s t = Some (Returned t r (c_dups cl)) /\ inflight s (c_key cl) = None.
Proof.
  intros Hr. apply reach_snoc in Hr as [s0 [Hr Hs]]. apply step_cases in Hs. inversion Hs; subst.
  exists cl, r. inv_unfold. cbn [alookup]. rewrite Nat.eqb_refl. split; [assumption|]. split; [reflexivity|].
  apply str_remove_eq.
Qed.

(* a thread that enters after Cleanup of c leads a new call: fresh result slot, zero count *)
Theorem fresh_after_cleanup {R} (tr : list (event R)) t s cl t' :
  reach (tr ++ [Cleanup t]) s -> callof s t = Some cl -> thread s t' = None ->
  exists s', step s (Enter t' (c_key cl)) = Some s' /\ thread s' t' = Some Leading /\
             callof s' t' = Some (new_call (c_key cl)) /\ t' <> t.
Proof.
  intros Hr Hc Ht'. destruct (cleanup_closes _ _ _ Hr) as [cl0 [r [H1 [H2 H3]]]].
  rewrite Hc in H1. inversion H1; subst cl0.
  eexists. unfold step. rewrite Ht', H3. split; [reflexivity|]. inv_unfold. cbn [alookup]. rewrite !Nat.eqb_refl.
  split; [reflexivity|]. split; [reflexivity|]. intros E; subst. rewrite H2 in Ht'. discriminate.
Qed.

(* callers share a call only if they entered with equal keys *)
Theorem distinct_keys_never_merge {R} (tr : list (event R)) s t1 t2 c k1 k2 :
  reach tr s -> in_call s t1 c -> in_call s t2 c ->
  In (Enter t1 k1) tr -> In (Enter t2 k2) tr -> k1 = k2.
Proof.
  intros Hr I1 I2 E1 E2. pose proof (reach_tinv _ _ Hr) as T.
  destruct (ti_enter _ _ T _ _ E1) as [c1 [cl1 [A1 [B1 C1]]]].
  destruct (ti_enter _ _ T _ _ E2) as [c2 [cl2 [A2 [B2 C2]]]].
  assert (forall t a b, in_call s t a -> in_call s t b -> a = b) as F.
  { intros t a b. unfold in_call. destruct (thread s t) as [[| |x|x y z]|]; try congruence. tauto. }
  assert (c1 = c) by (eapply F; eauto). assert (c2 = c) by (eapply F; eauto). subst. congruence.
Qed.

(* every invocation that has entered did so with exactly one key *)
Theorem entered_once {R} (tr : list (event R)) s t k1 k2 :
  reach tr s -> In (Enter t k1) tr -> In (Enter t k2) tr -> k1 = k2.
Proof.
  intros Hr E1 E2. pose proof (reach_tinv _ _ Hr) as T.
  destruct (ti_enter _ _ T _ _ E1) as [c1 [cl1 [A1 _]]].
  eapply distinct_keys_never_merge; eauto.
Qed.

(* ================= wrapper layer: composite keys ================= *)

Lemma no_byte_spec c s : no_byte c s = true <-> ~ In c s.
Proof.
  unfold no_byte. rewrite negb_true_iff. split.
  - intros H Hin. assert (existsb (N.eqb c) s = true); [|congruence].
    apply existsb_exists. exists c. split; [exact Hin | apply N.eqb_refl].
  - intros H. destruct (existsb (N.eqb c) s) eqn:E; [|reflexivity].
    apply existsb_exists in E as [x [Hx Hc]]. apply N.eqb_eq in Hc. subst. contradiction.
Qed.

(* cutting at the first separator is unambiguous *)
Lemma cut_first_sep (c : N) a b x y :
  ~ In c a -> ~ In c b -> a ++ c :: x = b ++ c :: y -> a = b /\ x = y.
Proof.
  revert b. induction a as [|p a IH]; intros [|q b] Ha Hb H; simpl in *.
  - inversion H. auto.
  - inversion H; subst. exfalso. apply Hb. left. reflexivity.
  - inversion H; subst. exfalso. apply Ha. left. reflexivity.
  - inversion H; subst. destruct (IH b) as [E1 E2]; auto. subst. auto.
Qed.

(* sort.Strings permutes *)
Lemma insert_perm x l : Permutation (insert_str x l) (x :: l).
Proof.
  induction l as [|y l IH]; simpl; [reflexivity|].
  destruct (str_leb x y); [reflexivity|]. rewrite IH. apply perm_swap.
Qed.
Lemma sort_perm l : Permutation (sort_strs l) l.
Proof. induction l as [|x l IH]; simpl; [reflexivity|]. rewrite insert_perm. constructor. exact IH. Qed.

(* which argument shape an endpoint is used with *)
Inductive qkind := KSession | KGroups | KToken.
Definition endpoint_kind (e : endpoint) : qkind :=
  match e with
  | PUserGroups | AGroupMembership => KGroups
  | ARefreshAccessToken => KToken
  | _ => KSession
  end.
Definition wf_question (q : question) : bool :=
  match q, endpoint_kind (q_endpoint q) with
  | QSession _ _ _, KSession | QGroups _ _ _, KGroups | QToken _ _, KToken => true
  | _, _ => false
  end.

Lemma endpoint_name_no_slash e : ~ In slash (endpoint_name e).
Proof. apply no_byte_spec. destruct e; vm_compute; reflexivity. Qed.

Lemma endpoint_name_kind e1 e2 : endpoint_name e1 = endpoint_name e2 -> endpoint_kind e1 = endpoint_kind e2.
Proof. destruct e1, e2; intros H; try reflexivity; vm_compute in H; discriminate. Qed.

(* within one service the endpoint names are pairwise different, so "same name" = "same method" *)
Lemma endpoint_name_injective_per_service e1 e2 :
  service_of e1 = service_of e2 -> endpoint_name e1 = endpoint_name e2 -> e1 = e2.
Proof. destruct e1, e2; intros S H; try reflexivity; try (simpl in S; discriminate); vm_compute in H; discriminate. Qed.

Lemma wrapper_key_split q1 q2 :
  wrapper_key q1 = wrapper_key q2 ->
  endpoint_name (q_endpoint q1) = endpoint_name (q_endpoint q2) /\ sub_key q1 = sub_key q2.
Proof. unfold wrapper_key. simpl app. apply cut_first_sep; apply endpoint_name_no_slash. Qed.

(* the strings of a question are byte strings (a typing condition, not a guard) *)
Definition q_bytes (q : question) : Prop :=
  match q with
  | QSession _ s al => bytes (s_access s) /\ bytes (s_refresh_token s) /\ all_bytes al
  | QGroups _ email groups => bytes email /\ all_bytes groups
  | QToken _ tok => bytes tok
  end.

Lemma all_bytes_sort l : all_bytes l -> all_bytes (sort_strs l).
Proof.
  unfold all_bytes. rewrite !Forall_forall. intros H x Hx. apply H.
  eapply Permutation_in; [apply sort_perm | exact Hx].
Qed.

Lemma list_key_injective a1 l1 a2 l2 :
  bytes a1 -> all_bytes l1 -> bytes a2 -> all_bytes l2 ->
  list_key a1 l1 = list_key a2 l2 -> a1 = a2 /\ sort_strs l1 = sort_strs l2.
Proof.
  intros A1 L1 A2 L2 H. unfold list_key, qq, ql in H. simpl app in H.
  apply key_list_injective in H; auto using all_bytes_sort.
Qed.

Lemma pair_key_injective a1 b1 a2 b2 :
  bytes a1 -> bytes b1 -> bytes a2 -> bytes b2 -> pair_key a1 b1 = pair_key a2 b2 -> a1 = a2 /\ b1 = b2.
Proof.
  intros A1 B1 A2 B2 H. unfold pair_key, qq in H. simpl app in H. apply key_pair_injective in H; auto.
Qed.

(* KEYS ARE INJECTIVE — no guard. For well-formed questions of one service (a group belongs to one
   wrapper object of one service): equal composite keys => same method, same subject (the token;
   the access AND refresh token for Revoke; the e-mail and the SORTED group list — i.e. the same
   groups in any order, with multiplicity), and the same (sorted) allowed groups. *)
Theorem keys_injective q1 q2 :
  wf_question q1 = true -> wf_question q2 = true -> q_bytes q1 -> q_bytes q2 ->
  service_of (q_endpoint q1) = service_of (q_endpoint q2) ->
  wrapper_key q1 = wrapper_key q2 ->
  q_endpoint q1 = q_endpoint q2 /\ subject_of q1 = subject_of q2 /\ allowed_of q1 = allowed_of q2.
Proof.
  intros W1 W2 B1 B2 Sv H. apply wrapper_key_split in H as [Hn Hk].
  pose proof (endpoint_name_injective_per_service _ _ Sv Hn) as He.
  destruct q1 as [e1 s1 a1|e1 m1 g1|e1 t1], q2 as [e2 s2 a2|e2 m2 g2|e2 t2];
    cbn [q_endpoint] in *; subst e2; unfold wf_question in W1, W2; cbn [q_endpoint] in W1, W2;
    destruct (endpoint_kind e1) eqn:K; try discriminate; (split; [reflexivity|]).
  - destruct B1 as [B1a [B1r B1l]], B2 as [B2a [B2r B2l]].
    destruct e1; try discriminate K; cbn [sub_key subject_of allowed_of session_token] in *.
    + apply list_key_injective in Hk as [-> ->]; auto.
    + apply list_key_injective in Hk as [-> ->]; auto.
    + rewrite Hk. auto.
    + rewrite Hk. auto.
    + apply pair_key_injective in Hk as [-> ->]; auto.
  - destruct B1 as [B1e B1g], B2 as [B2e B2g]. cbn [sub_key subject_of] in *.
    apply list_key_injective in Hk as [-> ->]; auto.
  - cbn [sub_key subject_of] in *. rewrite Hk. split; [reflexivity|]. destruct e1; reflexivity.
Qed.

(* ... and conversely: exactly these questions share a key *)
Theorem keys_complete q1 q2 :
  wf_question q1 = true -> wf_question q2 = true ->
  q_endpoint q1 = q_endpoint q2 -> subject_of q1 = subject_of q2 -> allowed_of q1 = allowed_of q2 ->
  wrapper_key q1 = wrapper_key q2.
Proof.
  intros W1 W2 He Hs Ha. unfold wrapper_key. rewrite He. f_equal. f_equal.
  destruct q1 as [e1 s1 a1|e1 m1 g1|e1 t1], q2 as [e2 s2 a2|e2 m2 g2|e2 t2];
    cbn [q_endpoint] in *; subst e2; unfold wf_question in W1, W2; cbn [q_endpoint] in W1, W2;
    destruct (endpoint_kind e1) eqn:K; try discriminate.
  - destruct e1; try discriminate K; cbn [sub_key subject_of allowed_of session_token] in *;
      inversion Hs; unfold list_key, pair_key; congruence.
  - cbn [sub_key subject_of] in *. inversion Hs. unfold list_key. congruence.
  - cbn [sub_key subject_of] in *. inversion Hs. reflexivity.
Qed.

(* the pairs that used to collide (C16-K2, fixed by 4af0640) and the allowed groups that used to be
   ignored (C16-K3, fixed by 8276927) now have different keys *)
Definition bA : N := 97. Definition bB : N := 98. Definition bC : N := 99.
Example old_collisions_now_distinct :
  wrapper_key (QGroups AGroupMembership [bA] [[bB; colon; bC]]) <> wrapper_key (QGroups AGroupMembership [bA; colon; bB] [[bC]]) /\
  wrapper_key (QGroups PUserGroups [bA] [[bB; comma; bC]]) <> wrapper_key (QGroups PUserGroups [bA] [[bB]; [bC]]) /\
  wrapper_key (QGroups AGroupMembership [bA] []) <> wrapper_key (QGroups AGroupMembership [bA] [[]]).
Proof. repeat split; vm_compute; discriminate. Qed.

(* ================= wrapper layer: the LTS with sessions ================= *)
Lemma wrun_app w a b : wrun w (a ++ b) = match wrun w a with Some w' => wrun w' b | None => None end.
Proof. revert w; induction a as [|e a IH]; intros w; simpl; [reflexivity|]. destruct (wstep w e); [apply IH | reflexivity]. Qed.

Lemma wreach_snoc tr e w : wreach (tr ++ [e]) w <-> exists w0, wreach tr w0 /\ wstep w0 e = Some w.
Proof.
  unfold wreach. rewrite wrun_app. split.
  - destruct (wrun winit tr) as [w0|]; [|discriminate]. simpl. destruct (wstep w0 e) as [w1|] eqn:E; [|discriminate].
    intros H; inversion H; subst. exists w0; auto.
  - intros [w0 [H1 H2]]. rewrite H1. simpl. rewrite H2. reflexivity.
Qed.

Lemma wreach_ind (P : list wevent -> wstate -> Prop) :
  P [] winit ->
  (forall tr w e w', wreach tr w -> P tr w -> wstep w e = Some w' -> P (tr ++ [e]) w') ->
  forall tr w, wreach tr w -> P tr w.
Proof.
  intros H0 HS tr. induction tr as [|e tr IH] using rev_ind; intros w H.
  - unfold wreach in H. simpl in H. inversion H; subst. exact H0.
  - apply wreach_snoc in H as [w0 [H1 H2]]. eapply HS; eauto.
Qed.

Lemma wstep_erase w e w' : wstep w e = Some w' -> step (w_g w) (erase e) = Some (w_g w').
Proof.
  destruct e; unfold wstep, erase; intros H.
  - destruct (step (w_g w) (Enter t (wrapper_key q))); [inversion H; reflexivity | discriminate].
  - destruct (step (w_g w) (FnReturn t r)); [inversion H; reflexivity | discriminate].
  - destruct (step (w_g w) (Cleanup t)); [inversion H; reflexivity | discriminate].
  - destruct (step (w_g w) (Wake t)); [inversion H; reflexivity | discriminate].
Qed.

(* the wrapper adds bookkeeping only: its runs are runs of the generic LTS on composite keys *)
Theorem wreach_erase tr w : wreach tr w -> reach (map erase tr) (w_g w).
Proof.
  intros H. apply (wreach_ind (fun tr w => reach (map erase tr) (w_g w))); [reflexivity | | exact H].
  intros tr0 w0 e w' _ IH Hs. rewrite map_app. simpl. apply reach_snoc. exists (w_g w0). split; [exact IH|].
  apply wstep_erase. exact Hs.
Qed.

Definition untouched (g : state result) (t : tid) : Prop :=
  thread g t = Some Leading \/
  exists c, c <> t /\ (thread g t = Some (Following c) \/ exists r n, thread g t = Some (Returned c r n)).
Definition ran_fn (g : state result) (t : tid) : Prop :=
  thread g t = Some LedDone \/ exists r n, thread g t = Some (Returned t r n).

Record WInv (tr : list wevent) (w : wstate) : Prop := mkWInv {
  wi_question : forall t q, In (WEnter t q) tr -> wquestion w t = Some q;
  wi_dom : forall t, wquestion w t <> None -> thread (w_g w) t <> None;
  wi_untouched : forall t q s0, wquestion w t = Some q -> q_session q = Some s0 ->
      untouched (w_g w) t -> wsession w t = Some s0;
  wi_updated : forall t r u, In (WFnReturn t r u) tr ->
      ran_fn (w_g w) t /\
      forall q s0, wquestion w t = Some q -> q_session q = Some s0 -> wsession w t = Some (apply_update u s0)
}.

Lemma winv_step tr w e w' : wreach tr w -> WInv tr w -> wstep w e = Some w' -> WInv (tr ++ [e]) w'.
Proof.
  intros Hr [WQ WD WU WF] Hs.
  pose proof (reach_inv _ _ (wreach_erase _ _ Hr)) as I.
  pose proof (wstep_erase _ _ _ Hs) as Hg. apply step_cases in Hg.
  destruct e as [t q|t r u|t|t]; unfold wstep in Hs; unfold erase in Hg.
  - (* WEnter *)
    destruct (step (w_g w) (Enter t (wrapper_key q))) as [g'|] eqn:Eg; [|discriminate]. inversion Hs; subst w'. clear Hs.
    cbn [w_g] in Hg.
    assert (Ht : thread (w_g w) t = None) by (inversion Hg; assumption).
    assert (Hth : forall t0, t0 <> t -> thread g' t0 = thread (w_g w) t0).
    { intros t0 Hne. inversion Hg; subst; unfold thread; cbn [threads alookup];
        apply Nat.eqb_neq in Hne; rewrite Hne; reflexivity. }
    assert (Hfresh : forall t0, wquestion w t0 <> None -> t0 <> t).
    { intros t0 H0 E. subst. apply WD in H0. contradiction. }
    constructor; unfold wquestion, wsession in *; cbn [w_q w_sess w_g] in *.
    + intros t0 q0 Hin. apply in_app_iff in Hin as [Hin|[Hin|[]]].
      * pose proof (WQ _ _ Hin) as Hq. assert (t0 <> t) as Hne by (apply Hfresh; congruence).
        rewrite nat_look_neq by exact Hne. exact Hq.
      * inversion Hin; subst. apply nat_look_eq.
    + intros t0 H0. cbn [alookup] in H0. nateq t0 t.
      * inversion Hg; subst; unfold thread; cbn [threads alookup]; rewrite Nat.eqb_refl; discriminate.
      * rewrite Hth by assumption. apply WD. exact H0.
    + intros t0 q0 s0 Hq Hs0 Hu. cbn [alookup] in Hq. nateq t0 t.
      * inversion Hq; subst q0. rewrite Hs0. apply nat_look_eq.
      * assert (untouched (w_g w) t0) as Hu'.
        { unfold untouched in *. rewrite Hth in Hu by assumption. exact Hu. }
        pose proof (WU _ _ _ Hq Hs0 Hu') as Hold.
        destruct (q_session q); [rewrite nat_look_neq by assumption|]; exact Hold.
    + intros t0 r0 u0 Hin. apply in_app_iff in Hin as [Hin|[Hin|[]]]; [|discriminate].
      destruct (WF _ _ _ Hin) as [Hran Hupd].
      assert (t0 <> t) as Hne.
      { intros E; subst. destruct Hran as [Hx|[rx [nx Hx]]]; rewrite Ht in Hx; discriminate. }
      split.
      * unfold ran_fn in *. rewrite Hth by assumption. exact Hran.
      * intros q0 s0 Hq Hs0. rewrite nat_look_neq in Hq by assumption. pose proof (Hupd _ _ Hq Hs0) as Hold.
        destruct (q_session q); [rewrite nat_look_neq by assumption|]; exact Hold.
  - (* WFnReturn *)
    destruct (step (w_g w) (FnReturn t r)) as [g'|] eqn:Eg; [|discriminate]. inversion Hs; subst w'. clear Hs.
    cbn [w_g] in Hg.
    assert (Ht : thread (w_g w) t = Some Leading) by (inversion Hg; assumption).
    assert (Ht' : thread g' t = Some LedDone).
    { inversion Hg; subst; unfold thread; cbn [threads alookup]; rewrite Nat.eqb_refl; reflexivity. }
    assert (Hth : forall t0, t0 <> t -> thread g' t0 = thread (w_g w) t0).
    { intros t0 Hne. inversion Hg; subst; unfold thread; cbn [threads alookup];
        apply Nat.eqb_neq in Hne; rewrite Hne; reflexivity. }
    assert (Hsess : forall t0, t0 <> t ->
              alookup Nat.eqb t0 (match alookup Nat.eqb t (w_sess w) with
                                  | Some s => (t, apply_update u s) :: w_sess w | None => w_sess w end)
              = alookup Nat.eqb t0 (w_sess w)).
    { intros t0 Hne. destruct (alookup Nat.eqb t (w_sess w)); [apply nat_look_neq; exact Hne | reflexivity]. }
    constructor; unfold wquestion, wsession in *; cbn [w_q w_sess w_g] in *.
    + intros t0 q0 Hin. apply in_app_iff in Hin as [Hin|[Hin|[]]]; [apply WQ; exact Hin | discriminate].
    + intros t0 H0. nateq t0 t; [rewrite Ht'; discriminate|]. rewrite Hth by assumption. apply WD. exact H0.
    + intros t0 q0 s0 Hq Hs0 Hu. nateq t0 t.
      * exfalso. unfold untouched in Hu. rewrite Ht' in Hu.
        destruct Hu as [Hu|[c [_ [Hu|[rx [nx Hu]]]]]]; discriminate.
      * rewrite Hsess by assumption. apply (WU _ _ _ Hq Hs0). unfold untouched in *. rewrite Hth in Hu by assumption. exact Hu.
    + intros t0 r0 u0 Hin. apply in_app_iff in Hin as [Hin|[Hin|[]]].
      * destruct (WF _ _ _ Hin) as [Hran Hupd].
        assert (t0 <> t) as Hne.
        { intros E; subst. destruct Hran as [Hx|[rx [nx Hx]]]; rewrite Ht in Hx; discriminate. }
        split; [unfold ran_fn in *; rewrite Hth by assumption; exact Hran|].
        intros q0 s0 Hq Hs0. rewrite Hsess by assumption. eapply Hupd; eauto.
      * inversion Hin; subst t0 r0 u0. split; [left; exact Ht'|].
        intros q0 s0 Hq Hs0. rewrite (WU _ _ _ Hq Hs0 (or_introl Ht)). apply nat_look_eq.
  - (* WCleanup *)
    destruct (step (w_g w) (Cleanup t)) as [g'|] eqn:Eg; [|discriminate]. inversion Hs; subst w'. clear Hs.
    cbn [w_g] in Hg.
    assert (Ht : thread (w_g w) t = Some LedDone) by (inversion Hg; assumption).
    assert (Ht' : exists r n, thread g' t = Some (Returned t r n)).
    { inversion Hg; subst; unfold thread; cbn [threads alookup]; rewrite Nat.eqb_refl; eauto. }
    assert (Hth : forall t0, t0 <> t -> thread g' t0 = thread (w_g w) t0).
    { intros t0 Hne. inversion Hg; subst; unfold thread; cbn [threads alookup];
        apply Nat.eqb_neq in Hne; rewrite Hne; reflexivity. }
    constructor; unfold wquestion, wsession in *; cbn [w_q w_sess w_g] in *.
    + intros t0 q0 Hin. apply in_app_iff in Hin as [Hin|[Hin|[]]]; [apply WQ; exact Hin | discriminate].
    + intros t0 H0. nateq t0 t; [destruct Ht' as [rx [nx Hx]]; rewrite Hx; discriminate|].
      rewrite Hth by assumption. apply WD. exact H0.
    + intros t0 q0 s0 Hq Hs0 Hu. nateq t0 t.
      * exfalso. destruct Ht' as [rx [nx Hx]]. unfold untouched in Hu. rewrite Hx in Hu.
        destruct Hu as [Hu|[c [Hc [Hu|[ry [ny Hu]]]]]]; try discriminate. inversion Hu; subst. contradiction.
      * apply (WU _ _ _ Hq Hs0). unfold untouched in *. rewrite Hth in Hu by assumption. exact Hu.
    + intros t0 r0 u0 Hin. apply in_app_iff in Hin as [Hin|[Hin|[]]]; [|discriminate].
      destruct (WF _ _ _ Hin) as [Hran Hupd]. split; [|exact Hupd].
      nateq t0 t; [right; exact Ht'|]. unfold ran_fn in *. rewrite Hth by assumption. exact Hran.
  - (* WWake *)
    destruct (step (w_g w) (Wake t)) as [g'|] eqn:Eg; [|discriminate]. inversion Hs; subst w'. clear Hs.
    cbn [w_g] in Hg.
    assert (Ht : exists c, c <> t /\ thread (w_g w) t = Some (Following c) /\ exists r, thread g' t = Some (Returned c r 0%nat)).
    { inversion Hg; subst. exists c. split; [apply (inv_following _ I _ _ H0)|]. split; [assumption|].
      unfold thread; cbn [threads alookup]; rewrite Nat.eqb_refl; eauto. }
    destruct Ht as [c [Hct [Ht [rw Ht']]]].
    assert (Hth : forall t0, t0 <> t -> thread g' t0 = thread (w_g w) t0).
    { intros t0 Hne. inversion Hg; subst; unfold thread; cbn [threads alookup];
        apply Nat.eqb_neq in Hne; rewrite Hne; reflexivity. }
    constructor; unfold wquestion, wsession in *; cbn [w_q w_sess w_g] in *.
    + intros t0 q0 Hin. apply in_app_iff in Hin as [Hin|[Hin|[]]]; [apply WQ; exact Hin | discriminate].
    + intros t0 H0. nateq t0 t; [rewrite Ht'; discriminate|]. rewrite Hth by assumption. apply WD. exact H0.
    + intros t0 q0 s0 Hq Hs0 Hu. nateq t0 t.
      * apply (WU _ _ _ Hq Hs0). right. exists c. split; [exact Hct|]. left. exact Ht.
      * apply (WU _ _ _ Hq Hs0). unfold untouched in *. rewrite Hth in Hu by assumption. exact Hu.
    + intros t0 r0 u0 Hin. apply in_app_iff in Hin as [Hin|[Hin|[]]]; [|discriminate].
      destruct (WF _ _ _ Hin) as [Hran Hupd]. split; [|exact Hupd].
      nateq t0 t.
      * exfalso. destruct Hran as [Hx|[rx [nx Hx]]]; rewrite Ht in Hx; discriminate.
      * unfold ran_fn in *. rewrite Hth by assumption. exact Hran.
Qed.

Lemma wreach_winv tr w : wreach tr w -> WInv tr w.
Proof.
  intros H. apply (wreach_ind WInv); [ | | exact H].
  - constructor; unfold wquestion, wsession; simpl; intros; try contradiction; try congruence.
  - intros. eapply winv_step; eauto.
Qed.

Lemma in_erase_fn tr c r : In (FnReturn c r) (map erase tr) <-> exists u, In (WFnReturn c r u) tr.
Proof.
  rewrite in_map_iff. split.
  - intros [e [He Hin]]. destruct e; simpl in He; try discriminate. inversion He; subst. eauto.
  - intros [u Hin]. exists (WFnReturn c r u). auto.
Qed.
Lemma in_erase_enter tr t k : In (Enter t k) (map erase tr) <-> exists q, In (WEnter t q) tr /\ wrapper_key q = k.
Proof.
  rewrite in_map_iff. split.
  - intros [e [He Hin]]. destruct e; simpl in He; try discriminate. inversion He; subst. eauto.
  - intros [q [Hin <-]]. exists (WEnter t q). auto.
Qed.

(* a merged caller gets the leader's (value, error) — this much of "same answer" is true *)
Theorem follower_verdict tr w t c r n :
  wreach tr w -> thread (w_g w) t = Some (Returned c r n) -> c <> t ->
  n = 0%nat /\ (exists u, In (WFnReturn c r u) tr) /\
  (forall r' u', In (WFnReturn c r' u') tr -> r' = r) /\
  (forall c' r' n', thread (w_g w) c = Some (Returned c' r' n') -> c' = c /\ r' = r) /\
  (forall q q', In (WEnter t q) tr -> In (WEnter c q') tr -> wrapper_key q = wrapper_key q').
Proof.
  intros Hr Ht Hne. pose proof (wreach_erase _ _ Hr) as Hg.
  destruct (joined_get_leader_result _ _ _ _ _ _ Hg Ht Hne) as [H1 [H2 [H3 H4]]].
  split; [exact H1|]. split; [apply in_erase_fn; exact H2|]. split.
  - intros r' u' Hin. apply H3. apply in_erase_fn. eauto.
  - split; [exact H4|]. intros q q' Hq Hq'.
    apply (distinct_keys_never_merge _ _ t c c _ _ Hg).
    + unfold in_call. rewrite Ht. reflexivity.
    + pose proof (reach_inv _ _ Hg) as I. destruct (inv_returned _ I _ _ _ _ Ht) as [cl [Hc _]].
      apply (inv_call _ I _ _ Hc).
    + apply in_erase_enter. eauto.
    + apply in_erase_enter. eauto.
Qed.

(* callers that share an execution asked the same method about the same subject and the same
   allowed groups — no guard *)
Theorem merged_same_subject tr w t1 t2 c q1 q2 :
  wreach tr w -> in_call (w_g w) t1 c -> in_call (w_g w) t2 c ->
  In (WEnter t1 q1) tr -> In (WEnter t2 q2) tr ->
  wf_question q1 = true -> wf_question q2 = true -> q_bytes q1 -> q_bytes q2 ->
  service_of (q_endpoint q1) = service_of (q_endpoint q2) ->
  q_endpoint q1 = q_endpoint q2 /\ subject_of q1 = subject_of q2 /\ allowed_of q1 = allowed_of q2.
Proof.
  intros Hr I1 I2 E1 E2 W1 W2 B1 B2 Sv. apply keys_injective; auto.
  apply (distinct_keys_never_merge _ _ t1 t2 c _ _ (wreach_erase _ _ Hr)); auto; apply in_erase_enter; eauto.
Qed.

(* what happens to the session objects: the leader's is updated, a merged caller's is left as it was *)
Theorem leader_session_updated tr w t q s0 r u :
  wreach tr w -> In (WEnter t q) tr -> q_session q = Some s0 -> In (WFnReturn t r u) tr ->
  wsession w t = Some (apply_update u s0).
Proof.
  intros Hr Hq Hs Hf. pose proof (wreach_winv _ _ Hr) as W.
  destruct (wi_updated _ _ W _ _ _ Hf) as [_ H]. eapply H; eauto. apply (wi_question _ _ W). exact Hq.
Qed.

Theorem follower_session_unchanged tr w t q s0 c r n :
  wreach tr w -> In (WEnter t q) tr -> q_session q = Some s0 ->
  thread (w_g w) t = Some (Returned c r n) -> c <> t -> wsession w t = Some s0.
Proof.
  intros Hr Hq Hs Ht Hne. pose proof (wreach_winv _ _ Hr) as W.
  apply (wi_untouched _ _ W t q s0); [apply (wi_question _ _ W); exact Hq | exact Hs|].
  right. exists c. split; [exact Hne|]. right. eauto.
Qed.

(* "A merged caller ends up with the same session updates as the caller whose call ran": FALSE.
   Witness (both services): two requests carrying the same session overlap at refresh time; the
   leader's record gets the new access token, the extended refresh deadline, the fresh groups and
   a reset grace start; the merged caller is told `true` and keeps every stale field. *)
Definition tokA : str := [116;49].   (* "t1" *)
Definition tokB : str := [116;50].   (* "t2" *)
Definition rtok : str := [114].      (* "r" *)
Definition w_session : session := mkSession tokA rtok 100%Z 200%Z 100000%Z 50%Z [[bA]] [bA; 64; bB].
Definition w_update : update := mkUpdate (Some tokB) (Some 3700%Z) None (Some [[bA]; [bB]]) (Some 0%Z).
Definition w_trace (e : endpoint) : list wevent :=
  [WEnter 1%nat (QSession e w_session []); WEnter 2%nat (QSession e w_session []);
   WFnReturn 1%nat (VBool true, 0) w_update; WWake 2%nat; WCleanup 1%nat].

Definition same_updates_claim : Prop :=
  forall tr w t c q qc s0 r n u,
    wreach tr w -> In (WEnter t q) tr -> In (WEnter c qc) tr ->
    q_session q = Some s0 -> q_session qc = Some s0 ->
    thread (w_g w) t = Some (Returned c r n) -> c <> t -> In (WFnReturn c r u) tr ->
    wsession w t = wsession w c.

Theorem follower_session_refuted_at (e : endpoint) :
  endpoint_kind e = KSession ->
  exists w, wreach (w_trace e) w /\
    thread (w_g w) 1%nat = Some (Returned 1%nat (VBool true, 0) 1%nat) /\
    thread (w_g w) 2%nat = Some (Returned 1%nat (VBool true, 0) 0%nat) /\
    wsession w 1%nat = Some (apply_update w_update w_session) /\
    wsession w 2%nat = Some w_session /\
    apply_update w_update w_session <> w_session.
Proof.
  intros K. destruct e; try discriminate K;
  (eexists; split; [vm_compute; reflexivity|]; repeat split; try (vm_compute; reflexivity); vm_compute; discriminate).
Qed.

Theorem follower_session_refuted : ~ same_updates_claim.
Proof.
  intros C. destruct (follower_session_refuted_at PRefresh eq_refl) as [w [Hr [H1 [H2 [H3 [H4 H5]]]]]].
  specialize (C (w_trace PRefresh) w 2%nat 1%nat (QSession PRefresh w_session []) (QSession PRefresh w_session [])
                w_session (VBool true, 0) 0%nat w_update Hr).
  rewrite H3, H4 in C. apply H5. symmetry.
  assert (Some w_session = Some (apply_update w_update w_session)) as E.
  { apply C; simpl; auto 10. }
  congruence.
Qed.

(* the claim fails exactly by the leader's update: the merged caller's record differs from the
   leader's whenever the update changes the (common) starting record *)
Theorem follower_session_gap tr w t c q qc s0 r n u :
  wreach tr w -> In (WEnter t q) tr -> In (WEnter c qc) tr ->
  q_session q = Some s0 -> q_session qc = Some s0 ->
  thread (w_g w) t = Some (Returned c r n) -> c <> t -> In (WFnReturn c r u) tr ->
  wsession w t = Some s0 /\ wsession w c = Some (apply_update u s0).
Proof.
  intros Hr Hq Hqc Hs Hsc Ht Hne Hf. split.
  - eapply follower_session_unchanged; eauto.
  - eapply leader_session_updated; eauto.
Qed.

(* non-vacuity of keys_injective: two differently ordered group lists are one subject and one key *)
Example keys_injective_nv :
  let q1 := QGroups AGroupMembership [bA; 64; bB] [[bB]; [bA]] in
  let q2 := QGroups AGroupMembership [bA; 64; bB] [[bA]; [bB]] in
  q1 <> q2 /\ wf_question q1 = true /\ wf_question q2 = true /\
  wrapper_key q1 = wrapper_key q2 /\ subject_of q1 = subject_of q2.
Proof. repeat split; try reflexivity. discriminate. Qed.

(* ================= several wrapper objects ================= *)
Lemma mrun_app m a b : mrun m (a ++ b) = match mrun m a with Some m' => mrun m' b | None => None end.
Proof. revert m; induction a as [|e a IH]; intros m; simpl; [reflexivity|]. destruct (mstep m e); [apply IH | reflexivity]. Qed.

Lemma project_app a tr1 tr2 : project a (tr1 ++ tr2) = project a tr1 ++ project a tr2.
Proof.
  induction tr1 as [|[b e] tr1 IH]; simpl; [reflexivity|].
  destruct (Nat.eqb b a); simpl; rewrite IH; reflexivity.
Qed.

(* Each wrapper object's state is a run of the single-wrapper LTS on exactly the events that
   happened at that object: wrapper objects are independent, nothing one does reaches another. *)
Theorem mreach_project tr m : mreach tr m -> forall a, wrun winit (project a tr) = Some (component m a).
Proof.
  revert m. induction tr as [|[b e] tr IH] using rev_ind; intros m H a.
  - unfold mreach in H. simpl in H. inversion H; subst. reflexivity.
  - unfold mreach in H. rewrite mrun_app in H. destruct (mrun [] tr) as [m0|] eqn:E0; [|discriminate].
    simpl in H. unfold mstep in H. cbn [fst snd] in H.
    destruct (wstep (component m0 b) e) as [w'|] eqn:Ew; [|discriminate]. inversion H; subst m. clear H.
    rewrite project_app, wrun_app, (IH m0 E0 a). simpl. unfold component at 2. cbn [alookup].
    nateq a b.
    + rewrite Nat.eqb_refl. simpl. rewrite Ew. reflexivity.
    + apply not_eq_sym in E. apply Nat.eqb_neq in E. rewrite E. simpl. reflexivity.
Qed.

Lemma in_project a tr e : In e (project a tr) <-> In (a, e) tr.
Proof.
  induction tr as [|[b e'] tr IH]; simpl; [tauto|]. nateq b a.
  - simpl. rewrite IH. split; intros [H|H]; auto; [left; congruence | inversion H; auto].
  - rewrite IH. split; [auto|]. intros [H|H]; [inversion H; contradiction | exact H].
Qed.

(* a wrapper object knows only the callers that called IT: callers of distinct wrapper objects
   never share a call *)
Theorem wrapper_knows_only_its_callers tr m a t :
  mreach tr m -> thread (w_g (component m a)) t <> None -> exists q, In (a, WEnter t q) tr.
Proof.
  intros H Ht. pose proof (mreach_project _ _ H a) as Hw.
  pose proof (reach_tinv _ _ (wreach_erase _ _ Hw)) as T.
  destruct (ti_entered _ _ T _ Ht) as [k Hk]. apply in_erase_enter in Hk as [q [Hin _]].
  exists q. apply in_project. exact Hin.
Qed.

(* ================= the key and the allowed groups ================= *)
(* since 8276927 the composite key of the proxy's ValidateSessionState / RefreshSession contains the
   (sorted) allowed groups: questions that differ in them never share a key *)
Theorem allowed_groups_in_key e s1 s2 al1 al2 :
  e = PValidate \/ e = PRefresh ->
  q_bytes (QSession e s1 al1) -> q_bytes (QSession e s2 al2) ->
  wrapper_key (QSession e s1 al1) = wrapper_key (QSession e s2 al2) -> sort_strs al1 = sort_strs al2.
Proof.
  intros He B1 B2 H.
  assert (wf_question (QSession e s1 al1) = true /\ wf_question (QSession e s2 al2) = true) as [W1 W2]
    by (destruct He; subst; split; reflexivity).
  destruct (keys_injective _ _ W1 W2 B1 B2 eq_refl H) as [_ [_ Ha]].
  destruct He; subst; exact Ha.
Qed.

(* several wrapper objects: sharers (necessarily of one object) asked about the same full subject *)
Theorem merged_same_full_subject tr m a t1 t2 c q1 q2 :
  mreach tr m ->
  in_call (w_g (component m a)) t1 c -> in_call (w_g (component m a)) t2 c ->
  In (a, WEnter t1 q1) tr -> In (a, WEnter t2 q2) tr ->
  wf_question q1 = true -> wf_question q2 = true -> q_bytes q1 -> q_bytes q2 ->
  service_of (q_endpoint q1) = service_of (q_endpoint q2) ->
  q_endpoint q1 = q_endpoint q2 /\ subject_of q1 = subject_of q2 /\ allowed_of q1 = allowed_of q2.
Proof.
  intros H I1 I2 E1 E2 W1 W2 B1 B2 Sv. pose proof (mreach_project _ _ H a) as Hw.
  apply (merged_same_subject (project a tr) (component m a) t1 t2 c q1 q2); auto; apply in_project; assumption.
Qed.

(* ================= the execution log ================= *)
Lemma run_log_snoc {R} (s : state R) acc tr e :
  run_log s acc (tr ++ [e]) =
  match run_log s acc tr with
  | Some (s1, l) => match step s1 e with Some s' => Some (s', l ++ log_of s' e) | None => None end
  | None => None
  end.
Proof.
  revert s acc. induction tr as [|e0 tr IH]; intros s acc; simpl.
  - destruct (step s e); reflexivity.
  - destruct (step s e0); [apply IH | reflexivity].
Qed.

Lemma run_log_run {R} (s : state R) acc tr s' l : run_log s acc tr = Some (s', l) -> run s tr = Some s'.
Proof.
  revert s acc. induction tr as [|e tr IH]; intros s acc H; simpl in *.
  - inversion H; reflexivity.
  - destruct (step s e); [eapply IH; eauto | discriminate].
Qed.

Lemma run_run_log {R} (s : state R) acc tr s' : run s tr = Some s' -> exists l, run_log s acc tr = Some (s', l).
Proof.
  revert s acc. induction tr as [|e tr IH]; intros s acc H; simpl in *.
  - inversion H; eauto.
  - destruct (step s e); [apply IH; exact H | discriminate].
Qed.
