(* Breaker_proofs.v — C15: invariants of the circuit-breaker LTS over arbitrary event lists. *)
From V Require Import Base Breaker.
From Coq Require Import ZifyBool ZifyNat Lia.
Open Scope Z_scope.

(* ---------- lists ---------- *)
Lemma remove_nth_length {A} (l : list A) i x :
  nth_error l i = Some x -> length l = S (length (remove_nth i l)).
Proof.
  revert i; induction l as [|a l IH]; intros [|i] H; simpl in *; try discriminate; [reflexivity|].
  rewrite (IH i H). reflexivity.
Qed.

Lemma remove_nth_Forall {A} (P : A -> Prop) (l : list A) i :
  Forall P l -> Forall P (remove_nth i l).
Proof.
  revert i; induction l as [|a l IH]; intros i H; [destruct i; exact H|].
  inversion H; subst. destruct i; simpl; [assumption | constructor; auto].
Qed.

Lemma nth_error_Forall {A} (P : A -> Prop) (l : list A) i x :
  Forall P l -> nth_error l i = Some x -> P x.
Proof. intros H E. rewrite Forall_forall in H. apply H. eapply nth_error_In; eauto. Qed.

Lemma count_gen_remove g l i : (count_gen g (remove_nth i l) <= count_gen g l)%nat.
Proof.
  unfold count_gen. revert i; induction l as [|a l IH]; intros i; [destruct i; simpl; lia|].
  destruct i; simpl.
  - destruct (Nat.eqb g a); simpl; lia.
  - specialize (IH i). destruct (Nat.eqb g a); simpl; lia.
Qed.

Lemma count_gen_remove_hit g l i :
  nth_error l i = Some g -> count_gen g l = S (count_gen g (remove_nth i l)).
Proof.
  unfold count_gen. revert i; induction l as [|a l IH]; intros [|i] H; simpl in *; try discriminate.
  - injection H as ->. rewrite Nat.eqb_refl. reflexivity.
  - specialize (IH i H). destruct (Nat.eqb g a); simpl; lia.
Qed.

Lemma count_gen_app g l l' : count_gen g (l ++ l') = (count_gen g l + count_gen g l')%nat.
Proof. unfold count_gen. rewrite filter_app, app_length. reflexivity. Qed.

Lemma count_gen_le_length g l : (count_gen g l <= length l)%nat.
Proof. unfold count_gen. induction l as [|a l IH]; simpl; [lia|]. destruct (Nat.eqb g a); simpl; lia. Qed.

Lemma count_gen_zero g l : Forall (fun x => (x < g)%nat) l -> count_gen g l = O.
Proof.
  unfold count_gen. induction 1 as [|a l Ha _ IH]; simpl; [reflexivity|].
  destruct (Nat.eqb_spec g a); [lia | exact IH].
Qed.

Lemma Forall_lt_S g (l : list nat) : Forall (fun x => (x <= g)%nat) l -> Forall (fun x => (x < S g)%nat) l.
Proof. apply Forall_impl. intros; lia. Qed.
Lemma Forall_le_S g (l : list nat) : Forall (fun x => (x <= g)%nat) l -> Forall (fun x => (x <= S g)%nat) l.
Proof. apply Forall_impl. intros; lia. Qed.
Lemma Forall_lt_le g (l : list nat) : Forall (fun x => (x < g)%nat) l -> Forall (fun x => (x <= g)%nat) l.
Proof. apply Forall_impl. intros; lia. Qed.

Lemma bstate_eqb_eq a b : bstate_eqb a b = true <-> a = b.
Proof. destruct a, b; simpl; split; congruence. Qed.

Ltac simp :=
  cbn [st gen cnt cur succ fail expires now inflight o_adm o_ran o_hooks
       c_on_request c_after_request c_on_success c_on_failure c_clear with_cnt with_inflight
       fst snd bstate_eqb negb] in *.

Ltac unf :=
  unfold clock_step in *;
  unfold Breaker.step_st, Breaker.step, Breaker.before_request, Breaker.after_request, current_state,
    on_success, on_failure, set_state, set_backoff, let_through in *;
  unfold c_on_request, c_after_request, c_on_success, c_on_failure, c_clear, with_cnt, with_inflight in *.

Section Breaker.
Variable trip reset : counts -> bool.
Variable backoff : counts -> Z.
Variable opt_half_open : Z.

Notation half_open_max := (half_open_max opt_half_open).
Notation step := (step trip reset backoff opt_half_open).
Notation step_st := (step_st trip reset backoff opt_half_open).
Notation exec := (exec trip reset backoff opt_half_open).
Notation exec_from := (exec_from trip reset backoff opt_half_open).
Notation trace := (trace trip reset backoff opt_half_open).
Notation trace_from := (trace_from trip reset backoff opt_half_open).
Notation before_request := (before_request opt_half_open).
Notation after_request := (after_request trip reset backoff).

Lemma half_open_max_pos : 1 <= half_open_max.
Proof. unfold Breaker.half_open_max. destruct (0 <? opt_half_open) eqn:E; lia. Qed.

Lemma half_open_max_opt : 0 < opt_half_open -> half_open_max = opt_half_open.
Proof. unfold Breaker.half_open_max. intros H. destruct (0 <? opt_half_open) eqn:E; lia. Qed.

(* ---------- the invariant ---------- *)
Record Inv (b : breaker) : Prop := mkInv {
  inv_cur : cur (cnt b) = Z.of_nat (length (inflight b));
  inv_le : Forall (fun g => (g <= gen b)%nat) (inflight b);
  inv_open : st b = Open -> Forall (fun g => (g < gen b)%nat) (inflight b);
  inv_half : st b = HalfOpen -> Z.of_nat (count_gen (gen b) (inflight b)) <= half_open_max;
  inv_succ : st b = Open -> succ (cnt b) = 0;
  inv_nonneg : 0 <= succ (cnt b) /\ 0 <= fail (cnt b)
}.

Lemma Inv_init : Inv init.
Proof.
  constructor; simpl; try discriminate; try lia; try constructor.
Qed.

Ltac inv_open_tac :=
  repeat match goal with
  | H : ?a = ?a -> _ |- _ => specialize (H eq_refl)
  | H : Closed = Open -> _ |- _ => clear H
  | H : Closed = HalfOpen -> _ |- _ => clear H
  | H : HalfOpen = Open -> _ |- _ => clear H
  | H : Open = HalfOpen -> _ |- _ => clear H
  end.

Lemma step_Inv b e : Inv b -> Inv (step_st b e).
Proof.
  intros [Hc Hle Ho Hh Hs Hn]. pose proof half_open_max_pos as Hm.
  destruct b as [s g [c su fa] ex nw infl]. simp.
  destruct e as [|i ok|dt]; unfold Breaker.step_st, Breaker.step.
  - (* Start *)
    unfold Breaker.before_request, current_state, set_state, let_through.
    destruct s; simp; inv_open_tac.
    + constructor; simp; try discriminate; try lia.
      * rewrite app_length; simpl; lia.
      * apply Forall_app; split; [assumption | constructor; [lia | constructor]].
    + destruct (half_open_max <=? c) eqn:E; simp.
      * constructor; simp; try discriminate; auto.
      * constructor; simp; try discriminate; try lia.
        -- rewrite app_length; simpl; lia.
        -- apply Forall_app; split; [assumption | constructor; [lia | constructor]].
        -- intros _. rewrite count_gen_app. unfold count_gen at 2. simpl. rewrite Nat.eqb_refl. simpl.
           pose proof (count_gen_le_length g infl). lia.
    + destruct (ex <? nw) eqn:E; simp.
      * destruct (half_open_max <=? c) eqn:E2; simp.
        -- constructor; simp; try discriminate; try lia.
           ++ apply Forall_le_S; assumption.
           ++ intros _. rewrite count_gen_zero; [lia | apply Forall_lt_S; assumption].
        -- constructor; simp; try discriminate; try lia.
           ++ rewrite app_length; simpl; lia.
           ++ apply Forall_app; split; [apply Forall_le_S; assumption | constructor; [lia | constructor]].
           ++ intros _. rewrite count_gen_app, count_gen_zero; [|apply Forall_lt_S; assumption].
              unfold count_gen. simpl. rewrite Nat.eqb_refl. simpl. lia.
      * constructor; simp; try discriminate; auto.
  - (* Finish *)
    simp. destruct (nth_error infl i) as [g0|] eqn:En; simp.
    2:{ constructor; simp; auto. }
    pose proof (remove_nth_length infl i g0 En) as Hlen.
    pose proof (remove_nth_Forall _ infl i Hle) as Hle'.
    pose proof (count_gen_remove g infl i) as Hcnt.
    pose proof (nth_error_Forall _ _ _ _ Hle En) as Hg0. cbn beta in Hg0.
    unfold Breaker.after_request, with_inflight, with_cnt, current_state, set_state, c_after_request.
    simp.
    destruct s; simp; inv_open_tac.
    + (* closed *)
      destruct (Nat.eqb g0 g) eqn:Eg; simp.
      2:{ constructor; simp; try discriminate; auto; lia. }
      destruct ok.
      * unfold on_success, with_cnt, c_on_success; simp.
        constructor; simp; try discriminate; auto; lia.
      * unfold on_failure, with_cnt, c_on_failure, set_state, set_backoff, c_clear;
          simp.
        destruct (trip _); simp.
        -- constructor; simp; try discriminate; try lia.
           ++ apply Forall_le_S; assumption.
           ++ intros _. apply Forall_lt_S; assumption.
        -- constructor; simp; try discriminate; auto; lia.
    + (* half-open *)
      destruct (Nat.eqb g0 g) eqn:Eg; simp.
      2:{ constructor; simp; try discriminate; auto; lia. }
      destruct ok.
      * unfold on_success, with_cnt, c_on_success, set_state, c_clear;
          simp.
        destruct (reset _); simp.
        -- constructor; simp; try discriminate; try lia.
           apply Forall_le_S; assumption.
        -- constructor; simp; try discriminate; auto; lia.
      * unfold on_failure, with_cnt, c_on_failure, set_state, set_backoff;
          simp.
        constructor; simp; try discriminate; try lia.
        -- apply Forall_le_S; assumption.
        -- intros _. apply Forall_lt_S; assumption.
    + (* open *)
      pose proof (remove_nth_Forall _ infl i Ho) as Ho'.
      pose proof (nth_error_Forall _ _ _ _ Ho En) as Hg0'. cbn beta in Hg0'.
      destruct (ex <? nw) eqn:E; simp.
      * destruct (Nat.eqb_spec g0 (S g)); [lia|]. simp.
        constructor; simp; try discriminate; try lia.
        -- apply Forall_le_S; assumption.
        -- intros _. rewrite count_gen_zero; [lia | apply Forall_lt_S; assumption].
      * destruct (Nat.eqb_spec g0 g); [lia|]. simp.
        constructor; simp; try discriminate; auto; lia.
  - (* Tick *)
    simp. constructor; simp; auto.
Qed.

Lemma exec_from_Inv evs : forall b, Inv b -> Inv (exec_from b evs).
Proof.
  unfold Breaker.exec_from. induction evs as [|e evs IH]; intros b H; simpl; [exact H|].
  apply IH, step_Inv, H.
Qed.

Theorem exec_Inv evs : Inv (exec evs).
Proof. apply exec_from_Inv, Inv_init. Qed.


(* ---------- closed: every call is let through ---------- *)
Lemma closed_admits b : st b = Closed ->
  step b Start = (let_through b, mkobs (Some true) true []).
Proof.
  intros H. destruct b as [s g c ex nw infl]. simp. subst s.
  reflexivity.
Qed.


(* ---------- closed -> open exactly at a current-generation failure on which the trip rule holds ---------- *)
Lemma closed_step b e : st b = Closed ->
  let b' := step_st b e in
  let c1 := mkcounts (cur (cnt b) - 1) 0 (fail (cnt b) + 1) in
  let c0 := mkcounts (cur (cnt b) - 1) 0 0 in
  (st b' = Open <->
     exists i, e = Finish i false /\ nth_error (inflight b) i = Some (gen b) /\ trip c1 = true) /\
  (st b' = Open ->
     gen b' = S (gen b) /\ cnt b' = c0 /\ expires b' = now b + backoff c0 /\ now b' = now b /\
     o_hooks (snd (step b e)) =
       [HRule RTrip c1; HState Closed Open; HRule RBackoff c0; HBackoff (backoff c0) (now b + backoff c0)]) /\
  (st b' <> Open -> st b' = Closed /\ gen b' = gen b /\ expires b' = expires b /\
     ~ In (HState Closed Open) (o_hooks (snd (step b e)))).
Proof.
  intros H. destruct b as [s g [c su fa] ex nw infl]. simp. subst s.
  destruct e as [|i ok|dt]; unf; simp.
  - split; [split; [discriminate | intros [i [E _]]; discriminate]|]. split; [discriminate|].
    intros _. repeat split; auto.
  - destruct (nth_error infl i) as [g0|] eqn:En; simp.
    2:{ split; [split; [discriminate | intros [j [E [E2 _]]]; injection E as <- _; congruence]|].
        split; [discriminate|]. intros _; repeat split; auto. }
    destruct (Nat.eqb_spec g0 g) as [->|Hne]; simp.
    2:{ split; [split; [discriminate | intros [j [E [E2 _]]]; injection E as <- _; congruence]|].
        split; [discriminate|]. intros _; repeat split; auto. }
    destruct ok; simp.
    + split; [split; [discriminate | intros [j [E _]]; discriminate]|]. split; [discriminate|].
      intros _; repeat split; auto.
    + destruct (trip _) eqn:Et; simp.
      * split; [split; [intros _; exists i; auto | reflexivity]|]. split; [|congruence].
        intros _. repeat split; reflexivity.
      * split; [split; [discriminate | intros [j [E [_ E3]]]; injection E as <-; congruence]|].
        split; [discriminate|]. intros _; repeat split; auto.
        simpl. intros [F|[]]; discriminate.
  - split; [split; [discriminate | intros [i [E _]]; discriminate]|]. split; [discriminate|].
    intros _; repeat split; auto.
Qed.

(* ---------- open: reject, run nothing, change nothing, until the deadline has strictly passed ---------- *)
Lemma open_rejects b : st b = Open -> now b <= expires b ->
  step b Start = (b, mkobs (Some false) false []).
Proof.
  intros H Hle. destruct b as [s g c ex nw infl]. simp. subst s. unf; simp.
  destruct (ex <? nw) eqn:E; [lia|]. reflexivity.
Qed.

Lemma open_expired_start b : st b = Open -> expires b < now b ->
  let '(b', o) := step b Start in
  st b' = HalfOpen /\ gen b' = S (gen b) /\ o_hooks o = [HState Open HalfOpen] /\
  (o_adm o = Some true <-> cur (cnt b) < half_open_max) /\ o_ran o = match o_adm o with Some a => a | None => false end.
Proof.
  intros H Hlt. destruct b as [s g [c su fa] ex nw infl]. simp. subst s. unf; simp.
  destruct (ex <? nw) eqn:E; [|lia]. simp.
  destruct (half_open_max <=? c) eqn:E2; simp; repeat split; auto; try discriminate; try lia.
Qed.

Lemma ticks_nonneg evs : Forall tick_nonneg evs -> 0 <= ticks evs.
Proof. induction 1 as [|e evs He _ IH]; simpl; [lia|]. destruct e; simpl in *; lia. Qed.


Lemma open_step_before_deadline b e : Inv b -> st b = Open -> tick_nonneg e ->
  now b + ticks [e] <= expires b ->
  let '(b', o) := step b e in
  st b' = Open /\ gen b' = gen b /\ expires b' = expires b /\ succ (cnt b') = succ (cnt b) /\
  fail (cnt b') = fail (cnt b) /\ now b' = now b + ticks [e] /\ quiet_reject o.
Proof.
  intros [Hc Hle Ho Hh Hs Hn] H Ht Hd. destruct b as [s g [c su fa] ex nw infl]. simp. subst s.
  specialize (Ho eq_refl). unfold quiet_reject.
  destruct e as [|i ok|dt]; cbn [ticks tick_nonneg] in *; unf; simp.
  - destruct (ex <? nw) eqn:E; [lia|]. simp. repeat split; auto; lia.
  - destruct (nth_error infl i) as [g0|] eqn:En; simp; [|repeat split; auto; lia].
    pose proof (nth_error_Forall _ _ _ _ Ho En) as Hg0. cbn beta in Hg0.
    destruct (ex <? nw) eqn:E; [lia|]. simp.
    destruct (Nat.eqb_spec g0 g); [lia|]. simp. repeat split; auto; lia.
  - repeat split; auto; lia.
Qed.

Lemma open_until evs : forall b, Inv b -> st b = Open -> Forall tick_nonneg evs ->
  now b + ticks evs <= expires b ->
  let b' := exec_from b evs in
  st b' = Open /\ gen b' = gen b /\ expires b' = expires b /\ succ (cnt b') = succ (cnt b) /\
  fail (cnt b') = fail (cnt b) /\ Forall quiet_reject (trace_from b evs).
Proof.
  induction evs as [|e evs IH]; intros b HI Ho Ht Hd.
  - simpl. repeat split; auto.
  - inversion Ht as [|? ? Hte Htr]; subst.
    pose proof (ticks_nonneg evs Htr) as Hnn.
    assert (Hd1 : now b + ticks [e] <= expires b).
    { destruct e; simpl in *; lia. }
    pose proof (open_step_before_deadline b e HI Ho Hte Hd1) as Hs.
    pose proof (step_Inv b e HI) as HI'. unfold Breaker.step_st in HI'.
    destruct (step b e) as [b1 o] eqn:Es. simp.
    assert (Eb : step_st b e = b1) by (unfold Breaker.step_st; rewrite Es; reflexivity).
    unfold Breaker.exec_from. simpl. rewrite Eb, Es.
    destruct Hs as (S1 & S2 & S3 & S4 & S5 & S6 & S7).
    assert (Hd2 : now b1 + ticks evs <= expires b1).
    { rewrite S6, S3. destruct e; simpl in *; lia. }
    specialize (IH b1 HI' S1 Htr Hd2). cbv zeta in IH. unfold Breaker.exec_from in IH.
    destruct IH as (I1 & I2 & I3 & I4 & I5 & I6).
    repeat split; try congruence. constructor; assumption.
Qed.

(* ---------- half-open ---------- *)
Lemma halfopen_start b : st b = HalfOpen ->
  let '(b', o) := step b Start in
  o_hooks o = [] /\ st b' = HalfOpen /\ gen b' = gen b /\
  (o_adm o = Some true <-> cur (cnt b) < half_open_max) /\
  (o_adm o = Some false <-> half_open_max <= cur (cnt b)) /\
  (o_adm o = Some true -> o_ran o = true /\ b' = let_through b) /\
  (o_adm o = Some false -> o_ran o = false /\ b' = b).
Proof.
  intros H. destruct b as [s g [c su fa] ex nw infl]. simp. subst s. unf; simp.
  destruct (half_open_max <=? c) eqn:E; simp; repeat split; auto; try discriminate; try lia.
Qed.

Lemma halfopen_step b e : st b = HalfOpen ->
  let b' := step_st b e in
  let cs := mkcounts (cur (cnt b) - 1) (succ (cnt b) + 1) 0 in
  let cf := mkcounts (cur (cnt b) - 1) 0 (fail (cnt b) + 1) in
  (* closes exactly at a current-generation success on which the reset rule holds *)
  (st b' = Closed <->
     exists i, e = Finish i true /\ nth_error (inflight b) i = Some (gen b) /\ reset cs = true) /\
  (st b' = Closed -> gen b' = S (gen b) /\ cnt b' = mkcounts (cur (cnt b) - 1) 0 0 /\
     o_hooks (snd (step b e)) = [HRule RReset cs; HState HalfOpen Closed]) /\
  (* re-opens exactly at a current-generation failure, with a new back-off *)
  (st b' = Open <-> exists i, e = Finish i false /\ nth_error (inflight b) i = Some (gen b)) /\
  (st b' = Open -> gen b' = S (gen b) /\ cnt b' = cf /\ expires b' = now b + backoff cf /\ now b' = now b /\
     o_hooks (snd (step b e)) = [HState HalfOpen Open; HRule RBackoff cf; HBackoff (backoff cf) (now b + backoff cf)]) /\
  (* anything else leaves it half-open in the same generation *)
  (st b' = HalfOpen -> gen b' = gen b /\ expires b' = expires b /\
     forall p t, ~ In (HState p t) (o_hooks (snd (step b e)))).
Proof.
  intros H. destruct b as [s g [c su fa] ex nw infl]. simp. subst s.
  destruct e as [|i ok|dt]; unf; simp.
  - destruct (half_open_max <=? c); simp;
    (split; [split; [discriminate | intros [i [E _]]; discriminate]|]); (split; [discriminate|]);
    (split; [split; [discriminate | intros [i [E _]]; discriminate]|]); (split; [discriminate|]);
    intros _; repeat split; auto.
  - destruct (nth_error infl i) as [g0|] eqn:En; simp.
    2:{ split; [split; [discriminate | intros [j [E [E2 _]]]; injection E as <-; congruence]|].
        split; [discriminate|].
        split; [split; [discriminate | intros [j [E E2]]; injection E as <-; congruence]|].
        split; [discriminate|]. intros _; repeat split; auto. }
    destruct (Nat.eqb_spec g0 g) as [->|Hne]; simp.
    2:{ split; [split; [discriminate | intros [j [E [E2 _]]]; injection E as <-; congruence]|].
        split; [discriminate|].
        split; [split; [discriminate | intros [j [E E2]]; injection E as <-; congruence]|].
        split; [discriminate|]. intros _; repeat split; auto. }
    destruct ok; simp.
    + destruct (reset _) eqn:Er; simp.
      * split; [split; [intros _; exists i; auto | reflexivity]|]. split; [intros _; repeat split; reflexivity|].
        split; [split; [discriminate | intros [j [E _]]; discriminate]|]. split; discriminate.
      * split; [split; [discriminate | intros [j [E [_ E3]]]; injection E as <-; congruence]|].
        split; [discriminate|].
        split; [split; [discriminate | intros [j [E _]]; discriminate]|]. split; [discriminate|].
        intros _; repeat split; auto. simpl. intros p t [F|[]]; discriminate.
    + split; [split; [discriminate | intros [j [E _]]; discriminate]|]. split; [discriminate|].
      split; [split; [intros _; exists i; auto | reflexivity]|]. split; [intros _; repeat split; reflexivity|].
      discriminate.
  - split; [split; [discriminate | intros [i [E _]]; discriminate]|]. split; [discriminate|].
    split; [split; [discriminate | intros [i [E _]]; discriminate]|]. split; [discriminate|].
    intros _; repeat split; auto.
Qed.

(* ---------- stale completions ---------- *)

Lemma stale_ignored b i ok g :
  nth_error (inflight b) i = Some g -> g <> gen (clock_step b) ->
  step b (Finish i ok) = (after_stale b i, mkobs None false (snd (current_state b))).
Proof.
  intros En Hne. destruct b as [s g1 [c su fa] ex nw infl]. unfold after_stale. simp.
  unf; simp. rewrite En.
  destruct s; simp.
  - destruct (Nat.eqb_spec g g1); [congruence|]. reflexivity.
  - destruct (Nat.eqb_spec g g1); [congruence|]. reflexivity.
  - destruct (ex <? nw); simp.
    + destruct (Nat.eqb_spec g (S g1)); [congruence|]. reflexivity.
    + destruct (Nat.eqb_spec g g1); [congruence|]. reflexivity.
Qed.

Lemma gen_clock_step_ge b : (gen b <= gen (clock_step b))%nat.
Proof.
  destruct b as [s g c ex nw infl]. unf; simp. destruct s; simp; try lia.
  destruct (ex <? nw); simp; lia.
Qed.

(* a call admitted before the most recent state change is stale, whatever happens next *)
Lemma old_is_stale b i g : nth_error (inflight b) i = Some g -> (g < gen b)%nat -> g <> gen (clock_step b).
Proof. intros _ H. pose proof (gen_clock_step_ge b). lia. Qed.

(* and conversely, in a reachable state a call is stale only if it was admitted before a state change *)
Lemma inflight_le_gen b i g : Inv b -> nth_error (inflight b) i = Some g -> (g <= gen b)%nat.
Proof. intros HI En. exact (nth_error_Forall _ _ _ _ (inv_le b HI) En). Qed.

(* the StateOpen arm of onFailure (breaker.go:285-286) is dead code: a breaker that is still open
   after the clock step has no in-flight call of its own generation *)
Lemma open_arm_dead b i g : Inv b -> st (clock_step b) = Open ->
  nth_error (inflight b) i = Some g -> g <> gen (clock_step b).
Proof.
  intros HI Ho En. destruct b as [s g1 c ex nw infl]. unf; simp. destruct s; simp; try discriminate.
  destruct (ex <? nw); simp; try discriminate.
  pose proof (nth_error_Forall _ _ _ _ (inv_open _ HI eq_refl) En) as H. simp. lia.
Qed.

(* ---------- generation = number of state changes; hook log = path of the diagram ---------- *)
Lemma walk_app s a b : walk s (a ++ b) = match walk s a with Some t => walk t b | None => None end.
Proof.
  revert s; induction a as [|h a IH]; intros s; simpl; [reflexivity|].
  destruct h; auto. destruct (bstate_eqb prev s && edge_ok prev to); auto.
Qed.

Lemma filter_state_app a b : filter is_state_hook (a ++ b) = filter is_state_hook a ++ filter is_state_hook b.
Proof. apply filter_app. Qed.

Lemma step_walk b e :
  let '(b', o) := step b e in
  walk (st b) (o_hooks o) = Some (st b') /\
  gen b' = (gen b + length (filter is_state_hook (o_hooks o)))%nat.
Proof.
  destruct b as [s g [c su fa] ex nw infl].
  destruct e as [|i ok|dt]; unf; simp.
  - destruct s; simp; try (split; [reflexivity | simpl; lia]).
    + destruct (half_open_max <=? c); simp; split; try reflexivity; simpl; lia.
    + destruct (ex <? nw); simp; [|split; [reflexivity | simpl; lia]].
      destruct (half_open_max <=? c); simp; split; try reflexivity; simpl; lia.
  - destruct (nth_error infl i) as [g0|]; simp; [|split; [reflexivity | simpl; lia]].
    destruct s; simp.
    + destruct (Nat.eqb g0 g); simp; [|split; [reflexivity | simpl; lia]].
      destruct ok; simp; [split; [reflexivity | simpl; lia]|].
      destruct (trip _); simp; split; try reflexivity; simpl; lia.
    + destruct (Nat.eqb g0 g); simp; [|split; [reflexivity | simpl; lia]].
      destruct ok; simp; [|split; [reflexivity | simpl; lia]].
      destruct (reset _); simp; split; try reflexivity; simpl; lia.
    + destruct (ex <? nw); simp.
      * destruct (Nat.eqb g0 (S g)); simp; [|split; [reflexivity | simpl; lia]].
        destruct ok; simp; [|split; [reflexivity | simpl; lia]].
        destruct (reset _); simp; split; try reflexivity; simpl; lia.
      * destruct (Nat.eqb g0 g); simp; [|split; [reflexivity | simpl; lia]].
        destruct ok; simp; split; try reflexivity; simpl; lia.
  - split; [reflexivity | simpl; lia].
Qed.

Lemma trace_walk evs : forall b,
  walk (st b) (all_hooks (trace_from b evs)) = Some (st (exec_from b evs)) /\
  gen (exec_from b evs) = (gen b + length (filter is_state_hook (all_hooks (trace_from b evs))))%nat.
Proof.
  unfold all_hooks, Breaker.exec_from. induction evs as [|e evs IH]; intros b; simpl.
  - split; [reflexivity | lia].
  - pose proof (step_walk b e) as Hs.
    destruct (step b e) as [b1 o] eqn:Es. simp.
    assert (Eb : step_st b e = b1) by (unfold Breaker.step_st; rewrite Es; reflexivity).
    rewrite Eb. destruct Hs as [W G]. simpl.
    rewrite walk_app, W, filter_app, app_length. destruct (IH b1) as [W1 G1]. split; [exact W1 | lia].
Qed.

(* exec / trace composition *)
Lemma exec_from_app b evs evs' : exec_from b (evs ++ evs') = exec_from (exec_from b evs) evs'.
Proof. unfold Breaker.exec_from. apply fold_left_app. Qed.

Lemma trace_from_app evs evs' : forall b,
  trace_from b (evs ++ evs') = trace_from b evs ++ trace_from (exec_from b evs) evs'.
Proof.
  unfold Breaker.exec_from. induction evs as [|e evs IH]; intros b; simpl; [reflexivity|].
  destruct (step b e) as [b1 o] eqn:Es.
  assert (Eb : step_st b e = b1) by (unfold Breaker.step_st; rewrite Es; reflexivity).
  rewrite Eb, IH. reflexivity.
Qed.

End Breaker.

(* ====================================================================================== *)
(* The property clauses, stated about the state reached by an ARBITRARY interleaving.      *)
(* ====================================================================================== *)
Section Clauses.
Variable trip reset : counts -> bool.
Variable backoff : counts -> Z.
Variable hom : Z.
Notation step := (step trip reset backoff hom).
Notation step_st := (step_st trip reset backoff hom).
Notation exec := (exec trip reset backoff hom).
Notation exec_from := (exec_from trip reset backoff hom).
Notation trace := (trace trip reset backoff hom).
Notation trace_from := (trace_from trip reset backoff hom).

Lemma closed_admits_exec evs : let b := exec evs in
  st b = Closed -> step b Start = (let_through b, mkobs (Some true) true []).
Proof. intros b. apply closed_admits. Qed.

Lemma trip_iff_exec evs e : let b := exec evs in let b' := step_st b e in
  let c1 := mkcounts (cur (cnt b) - 1) 0 (fail (cnt b) + 1) in
  let c0 := mkcounts (cur (cnt b) - 1) 0 0 in
  st b = Closed ->
  (st b' = Open <->
     exists i, e = Finish i false /\ nth_error (inflight b) i = Some (gen b) /\ trip c1 = true) /\
  (st b' = Open ->
     gen b' = S (gen b) /\ cnt b' = c0 /\ expires b' = now b + backoff c0 /\ now b' = now b /\
     o_hooks (snd (step b e)) =
       [HRule RTrip c1; HState Closed Open; HRule RBackoff c0; HBackoff (backoff c0) (now b + backoff c0)]) /\
  (st b' <> Open -> st b' = Closed /\ gen b' = gen b /\ expires b' = expires b /\
     ~ In (HState Closed Open) (o_hooks (snd (step b e)))).
Proof. intros b b' c1 c0 H. exact (closed_step trip reset backoff hom b e H). Qed.

Lemma open_rejects_until_exec evs evs' : let b := exec evs in let b' := exec (evs ++ evs') in
  st b = Open -> Forall tick_nonneg evs' -> now b + ticks evs' <= expires b ->
  st b' = Open /\ gen b' = gen b /\ expires b' = expires b /\ succ (cnt b') = succ (cnt b) /\
  fail (cnt b') = fail (cnt b) /\ Forall quiet_reject (trace_from b evs') /\
  step b' Start = (b', mkobs (Some false) false []).
Proof.
  intros b b' Ho Ht Hd.
  pose proof (open_until trip reset backoff hom evs' b (exec_Inv trip reset backoff hom evs) Ho Ht Hd) as H.
  cbv zeta in H. unfold b', Breaker.exec. rewrite exec_from_app. fold b.
  destruct H as (H1 & H2 & H3 & H4 & H5 & H6). repeat split; auto.
  apply open_rejects; [exact H1|].
  (* the clock of b' is now b + ticks evs' *)
  assert (Hnow : forall l b0, now (exec_from b0 l) = now b0 + ticks l).
  { clear. unfold Breaker.exec_from. induction l as [|e l IH]; intros b0; simpl; [lia|].
    rewrite IH. destruct b0 as [s g [c su fa] ex nw infl]. destruct e as [|i ok|dt]; unf; simp.
    - destruct s; simp; try lia. + destruct (_ <=? c); simp; lia.
      + destruct (ex <? nw); simp; [destruct (_ <=? c); simp; lia | lia].
    - destruct (nth_error infl i) as [g0|]; simp; [|lia].
      destruct s; simp.
      + destruct (Nat.eqb g0 g); simp; [|lia]. destruct ok; simp; [lia|]. destruct (trip _); simp; lia.
      + destruct (Nat.eqb g0 g); simp; [|lia]. destruct ok; simp; [|lia]. destruct (reset _); simp; lia.
      + destruct (ex <? nw); simp.
        * destruct (Nat.eqb g0 (S g)); simp; [|lia]. destruct ok; simp; [|lia]. destruct (reset _); simp; lia.
        * destruct (Nat.eqb g0 g); simp; [|lia]. destruct ok; simp; lia.
    - lia. }
  change (exec_from init evs) with b. rewrite Hnow, H3. exact Hd.
Qed.

Lemma open_expired_exec evs : let b := exec evs in
  st b = Open -> expires b < now b ->
  let '(b', o) := step b Start in
  st b' = HalfOpen /\ gen b' = S (gen b) /\ o_hooks o = [HState Open HalfOpen] /\
  (o_adm o = Some true <-> cur (cnt b) < half_open_max hom) /\
  o_ran o = match o_adm o with Some a => a | None => false end.
Proof. intros b. apply open_expired_start. Qed.

Lemma halfopen_cap_exec evs : let b := exec evs in
  st b = HalfOpen ->
  Z.of_nat (count_gen (gen b) (inflight b)) <= half_open_max hom /\
  1 <= half_open_max hom /\ (0 < hom -> half_open_max hom = hom) /\
  let '(b', o) := step b Start in
  o_hooks o = [] /\ st b' = HalfOpen /\ gen b' = gen b /\
  (o_adm o = Some true <-> cur (cnt b) < half_open_max hom) /\
  (o_adm o = Some false <-> half_open_max hom <= cur (cnt b)) /\
  (o_adm o = Some true -> o_ran o = true /\ b' = let_through b) /\
  (o_adm o = Some false -> o_ran o = false /\ b' = b).
Proof.
  intros b H. split; [exact (inv_half _ _ (exec_Inv trip reset backoff hom evs) H)|].
  split; [apply half_open_max_pos|]. split; [apply half_open_max_opt|].
  exact (halfopen_start trip reset backoff hom b H).
Qed.

Lemma reset_iff_exec evs e : let b := exec evs in let b' := step_st b e in
  let cs := mkcounts (cur (cnt b) - 1) (succ (cnt b) + 1) 0 in
  st b = HalfOpen ->
  (st b' = Closed <->
     exists i, e = Finish i true /\ nth_error (inflight b) i = Some (gen b) /\ reset cs = true) /\
  (st b' = Closed -> gen b' = S (gen b) /\ cnt b' = mkcounts (cur (cnt b) - 1) 0 0 /\
     o_hooks (snd (step b e)) = [HRule RReset cs; HState HalfOpen Closed]).
Proof.
  intros b b' cs H. destruct (halfopen_step trip reset backoff hom b e H) as (A & B & _). split; assumption.
Qed.

Lemma reopen_exec evs e : let b := exec evs in let b' := step_st b e in
  let cf := mkcounts (cur (cnt b) - 1) 0 (fail (cnt b) + 1) in
  st b = HalfOpen ->
  (st b' = Open <-> exists i, e = Finish i false /\ nth_error (inflight b) i = Some (gen b)) /\
  (st b' = Open -> gen b' = S (gen b) /\ cnt b' = cf /\ expires b' = now b + backoff cf /\ now b' = now b /\
     o_hooks (snd (step b e)) = [HState HalfOpen Open; HRule RBackoff cf; HBackoff (backoff cf) (now b + backoff cf)]) /\
  (st b' = HalfOpen -> gen b' = gen b /\ expires b' = expires b /\
     forall p t, ~ In (HState p t) (o_hooks (snd (step b e)))).
Proof.
  intros b b' cf H. destruct (halfopen_step trip reset backoff hom b e H) as (_ & _ & A & B & C).
  split; [exact A|]. split; [exact B | exact C].
Qed.

Lemma stale_ignored_exec evs i g : let b := exec evs in
  nth_error (inflight b) i = Some g ->
  (* stale = admitted under a generation other than the one in force after the clock step;
     in a reachable state that is: admitted before the most recent state change *)
  (g <> gen (clock_step b) <-> (g < gen (clock_step b))%nat) /\
  ((g < gen b)%nat -> g <> gen (clock_step b)) /\
  (g <> gen (clock_step b) -> forall ok,
     step b (Finish i ok) = (after_stale b i, mkobs None false (snd (current_state b)))).
Proof.
  intros b En. pose proof (exec_Inv trip reset backoff hom evs) as HI. fold b in HI.
  pose proof (inflight_le_gen hom b i g HI En) as Hle. pose proof (gen_clock_step_ge trip reset backoff b) as Hge.
  split; [lia|]. split; [lia|]. intros Hne ok. apply stale_ignored with (g := g); assumption.
Qed.

Lemma cur_nonneg_exec evs : let b := exec evs in
  cur (cnt b) = Z.of_nat (length (inflight b)) /\ 0 <= cur (cnt b) /\
  0 <= succ (cnt b) /\ 0 <= fail (cnt b).
Proof.
  intros b. destruct (exec_Inv trip reset backoff hom evs) as [Hc _ _ _ _ [Hs Hf]]. fold b in Hc, Hs, Hf.
  repeat split; auto. lia.
Qed.

Lemma gen_counts_changes_exec evs : let b := exec evs in
  gen b = length (filter is_state_hook (all_hooks (trace evs))) /\
  walk Closed (all_hooks (trace evs)) = Some (st b) /\
  Forall (fun g => (g <= gen b)%nat) (inflight b) /\
  (st b = Open -> Forall (fun g => (g < gen b)%nat) (inflight b)) /\
  (* the StateOpen arm of onFailure is dead code *)
  (forall i g, st (clock_step b) = Open -> nth_error (inflight b) i = Some g -> g <> gen (clock_step b)).
Proof.
  intros b. destruct (trace_walk trip reset backoff hom evs init) as [W G]. simpl in W, G.
  pose proof (exec_Inv trip reset backoff hom evs) as HI. fold b in HI.
  split; [exact G|]. split; [exact W|]. split; [exact (inv_le _ _ HI)|]. split; [exact (inv_open _ _ HI)|].
  intros i g Ho En. exact (open_arm_dead trip reset backoff hom b i g HI Ho En).
Qed.

End Clauses.

(* ====================================================================================== *)
(* Non-vacuity: a concrete interleaving that visits closed -> open -> half-open -> open ->   *)
(* half-open -> closed with a completion crossing two generation changes, under the rules    *)
(* fail >= 2, succ >= 2, back-off 5 + 3*fail + succ + cur, cap 2.                             *)
(* ====================================================================================== *)
Definition nv_trip (c : counts) := 2 <=? fail c.
Definition nv_reset (c : counts) := 2 <=? succ c.
Definition nv_backoff (c : counts) := 5 + 3 * fail c + succ c + cur c.
Definition nv_evs : list event :=
  [Start; Start; Finish 1 false; Start; Finish 1 false;   (* 0-4: two consecutive failures: trip, call 0 still in flight *)
   Start; Tick 5; Start; Tick 1; Start; Tick 1; Start;     (* 5-11: rejected before and AT the deadline 6; half-open after *)
   Finish 1 false; Tick 10; Start;                         (* 12-14: failure in half-open: re-open, back-off 5+3*1+0+1; half-open again *)
   Finish 0 true;                                          (* 15: call 0, admitted four state changes ago: stale *)
   Start; Start; Finish 1 true; Finish 0 true; Start].     (* 16-20: cap 2 reached; two successes: closed again *)
Definition nv_exec := exec nv_trip nv_reset nv_backoff 2.
Definition nv_prefix (n : nat) := nv_exec (firstn n nv_evs).

Example nv_states :
  map (fun n => st (nv_prefix n)) (seq 0 22) =
  [Closed; Closed; Closed; Closed; Closed; Open; Open; Open; Open; Open; Open; Open; HalfOpen; Open; Open;
   HalfOpen; HalfOpen; HalfOpen; HalfOpen; HalfOpen; Closed; Closed].
Proof. vm_compute. reflexivity. Qed.

Example nv_generations :
  map (fun n => gen (nv_prefix n)) (seq 0 22) = [0;0;0;0;0;1;1;1;1;1;1;1;2;3;3;4;4;4;4;4;5;5]%nat.
Proof. vm_compute. reflexivity. Qed.

(* the hypotheses of the clauses are satisfiable *)
Example nv_closed : st (nv_prefix 4) = Closed /\ inflight (nv_prefix 4) = [0; 0]%nat.
Proof. vm_compute. auto. Qed.
Example nv_trip_now : st (step_st nv_trip nv_reset nv_backoff 2 (nv_prefix 4) (Finish 1 false)) = Open.
Proof. vm_compute. reflexivity. Qed.
Example nv_open_before_deadline :
  let b := nv_prefix 5 in st b = Open /\ expires b = 6 /\
  Forall tick_nonneg [Start; Tick 5; Start; Tick 1; Start] /\
  now b + ticks [Start; Tick 5; Start; Tick 1; Start] <= expires b.
Proof.
  vm_compute. split; [reflexivity|]. split; [reflexivity|]. split; [|discriminate].
  repeat constructor; discriminate.
Qed.
Example nv_open_expired : let b := nv_prefix 11 in st b = Open /\ expires b < now b.
Proof. vm_compute. auto. Qed.
Example nv_halfopen_full :
  let b := nv_prefix 17 in st b = HalfOpen /\ inflight b = [4; 4]%nat /\ gen b = 4%nat /\
  o_adm (snd (step nv_trip nv_reset nv_backoff 2 b Start)) = Some false.
Proof. vm_compute. auto. Qed.
Example nv_reset_now :
  let b := nv_prefix 19 in st b = HalfOpen /\
  st (step_st nv_trip nv_reset nv_backoff 2 b (Finish 0 true)) = Closed.
Proof. vm_compute. auto. Qed.
Example nv_reopen_now :
  let b := nv_prefix 12 in st b = HalfOpen /\
  st (step_st nv_trip nv_reset nv_backoff 2 b (Finish 1 false)) = Open /\
  expires (step_st nv_trip nv_reset nv_backoff 2 b (Finish 1 false)) = 7 + (5 + 3 * 1 + 0 + 1).
Proof. vm_compute. auto. Qed.
Example nv_stale_four_generations :
  let b := nv_prefix 15 in nth_error (inflight b) 0 = Some 0%nat /\ gen (clock_step b) = 4%nat /\
  step nv_trip nv_reset nv_backoff 2 b (Finish 0 true) = step nv_trip nv_reset nv_backoff 2 b (Finish 0 false).
Proof. vm_compute. auto. Qed.
Example nv_stale_completion_does_clock_step :
  let b := nv_prefix 14 in st b = Open /\ nth_error (inflight b) 0 = Some 0%nat /\
  o_hooks (snd (step nv_trip nv_reset nv_backoff 2 b (Finish 0 false))) = [HState Open HalfOpen].
Proof. vm_compute. auto. Qed.
