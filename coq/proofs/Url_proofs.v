(* Url_proofs.v — lemmas about the net/url slice and the independent RFC 3986 reading.
   Main results:
     rfc_read_complete / rfc_read_sound : rfc_read computes exactly the relation rfc_split
     rfc_split_unique                   : conforming readers agree on every component
     go_rfc_agree                       : whenever Go's Parse accepts a string with a non-empty
                                          Host and an RFC reading of it exists, Go's Hostname()
                                          is that reading's host (brackets off, percent-decoded) *)
From V Require Import Base Base_proofs Url.
From Coq Require Import ZifyN ZifyBool.

(* ------------------------------------------------------------------ cut *)
Lemma cut_some sep s a b : cut sep s = (a, Some b) -> s = a ++ sep :: b /\ ~ In sep a.
Proof.
  revert a b; induction s as [|c s IH]; intros a b H; simpl in H; [discriminate|].
  destruct (N.eqb_spec c sep) as [->|Hne].
  - inversion H; subst. split; [reflexivity | intros []].
  - destruct (cut sep s) as [a' b'] eqn:E. inversion H; subst.
    destruct (IH a' b eq_refl) as [-> Hn]. split; [reflexivity|].
    intros [Hc|Hc]; [congruence | contradiction].
Qed.

Lemma cut_none sep s a : cut sep s = (a, None) -> a = s /\ ~ In sep s.
Proof.
  revert a; induction s as [|c s IH]; intros a H; simpl in H.
  - inversion H. split; [reflexivity | intros []].
  - destruct (N.eqb_spec c sep) as [->|Hne]; [discriminate|].
    destruct (cut sep s) as [a' b'] eqn:E. inversion H; subst.
    destruct (IH a' eq_refl) as [-> Hn]. split; [reflexivity|].
    intros [Hc|Hc]; [congruence | contradiction].
Qed.

Lemma cut_app sep a b : ~ In sep a -> cut sep (a ++ sep :: b) = (a, Some b).
Proof.
  induction a as [|c a IH]; intros H; simpl.
  - rewrite N.eqb_refl. reflexivity.
  - destruct (N.eqb_spec c sep) as [->|Hne]; [exfalso; apply H; left; reflexivity|].
    rewrite IH; [reflexivity | intros Hc; apply H; right; exact Hc].
Qed.

Lemma cut_notin sep s : ~ In sep s -> cut sep s = (s, None).
Proof.
  induction s as [|c s IH]; intros H; simpl; [reflexivity|].
  destruct (N.eqb_spec c sep) as [->|Hne]; [exfalso; apply H; left; reflexivity|].
  rewrite IH; [reflexivity | intros Hc; apply H; right; exact Hc].
Qed.

(* cutting at the first [sep] of a ++ r when a has none: the cut happens inside r *)
Lemma cut_app_left sep a r : ~ In sep a ->
  cut sep (a ++ r) = (a ++ fst (cut sep r), snd (cut sep r)).
Proof.
  induction a as [|c a IH]; intros H; simpl.
  - destruct (cut sep r); reflexivity.
  - destruct (N.eqb_spec c sep) as [->|Hne]; [exfalso; apply H; left; reflexivity|].
    rewrite IH; [reflexivity | intros Hc; apply H; right; exact Hc].
Qed.

(* ------------------------------------------------------------------ cut_last *)
Lemma cut_last_notin sep s : ~ In sep s -> cut_last sep s = None.
Proof.
  induction s as [|c s IH]; intros H; simpl; [reflexivity|].
  rewrite IH; [|intros Hc; apply H; right; exact Hc].
  destruct (N.eqb_spec c sep) as [->|Hne]; [exfalso; apply H; left; reflexivity | reflexivity].
Qed.

Lemma cut_last_app sep a b : ~ In sep b -> cut_last sep (a ++ sep :: b) = Some (a, b).
Proof.
  intros H. induction a as [|c a IH]; simpl.
  - rewrite (cut_last_notin sep b H), N.eqb_refl. reflexivity.
  - rewrite IH. reflexivity.
Qed.

Lemma cut_last_some sep s a b : cut_last sep s = Some (a, b) -> s = a ++ sep :: b /\ ~ In sep b.
Proof.
  revert a b; induction s as [|c s IH]; intros a b H; simpl in H; [discriminate|].
  destruct (cut_last sep s) as [[a' b']|] eqn:E.
  - inversion H; subst. destruct (IH a' b eq_refl) as [-> Hn]. split; [reflexivity | exact Hn].
  - destruct (N.eqb_spec c sep) as [->|Hne]; [|discriminate]. inversion H; subst.
    split; [reflexivity|]. clear -E. induction b as [|d b IHb]; [intros []|].
    simpl in E. destruct (cut_last sep b) as [[? ?]|]; [discriminate|].
    destruct (N.eqb_spec d sep); [discriminate|]. intros [Hc|Hc]; [congruence | exact (IHb eq_refl Hc)].
Qed.

Lemma cut_last_none sep s : cut_last sep s = None -> ~ In sep s.
Proof.
  induction s as [|c s IH]; intros H; [intros []|]. simpl in H.
  destruct (cut_last sep s) as [[? ?]|]; [discriminate|].
  destruct (N.eqb_spec c sep); [discriminate|]. intros [Hc|Hc]; [congruence | exact (IH eq_refl Hc)].
Qed.

(* ------------------------------------------------------------------ small list facts *)
Lemma forallb_app' {A} (f : A -> bool) a b : forallb f (a ++ b) = forallb f a && forallb f b.
Proof. induction a; simpl; [reflexivity | rewrite IHa, andb_assoc; reflexivity]. Qed.

Lemma forallb_notin (f : N -> bool) (c : N) s : forallb f s = true -> f c = false -> ~ In c s.
Proof.
  intros H Hc Hin. rewrite forallb_forall in H. specialize (H c Hin). congruence.
Qed.

Lemma has_prefix_app s p : has_prefix (p ++ s) p = true.
Proof. apply has_prefix_spec. exists s. reflexivity. Qed.

Lemma skipn_app_len {A} (p s : list A) : skipn (length p) (p ++ s) = s.
Proof. induction p; simpl; auto. Qed.

Lemma has_suffix_snoc s c : has_suffix (s ++ [c]) [c] = true.
Proof. apply has_suffix_spec. exists s. reflexivity. Qed.

Lemma removelast_snoc {A} (s : list A) c : removelast (s ++ [c]) = s.
Proof. rewrite removelast_app; [simpl; apply app_nil_r | discriminate]. Qed.

(* ------------------------------------------------------------------ byte classes *)
Ltac bytes :=
  unfold regname_char, literal_char, is_auth_end, is_scheme_char, is_alnum, is_alpha, is_upper, is_lower,
         is_digit, c_slash, c_qmark, c_hash, c_at, c_colon, c_lbr, c_rbr, c_pct in *; lia.

Lemma regname_not_end c : regname_char c = true -> is_auth_end c = false.
Proof. bytes. Qed.
Lemma literal_not_end c : literal_char c = true -> is_auth_end c = false.
Proof. bytes. Qed.
Lemma digit_not_end c : is_digit c = true -> is_auth_end c = false.
Proof. bytes. Qed.
Lemma regname_is_literal c : regname_char c = true -> literal_char c = true.
Proof. bytes. Qed.

Lemma forallb_impl {A} (f g : A -> bool) s :
  (forall c, f c = true -> g c = true) -> forallb f s = true -> forallb g s = true.
Proof. intros H. induction s; simpl; [auto|]. rewrite !andb_true_iff. intros [? ?]; auto. Qed.

Definition not_end (c : N) : bool := negb (is_auth_end c).

(* ------------------------------------------------------------------ scheme *)
Lemma span_scheme_app s r :
  forallb is_scheme_char s = true ->
  match r with [] => True | c :: _ => is_scheme_char c = false end ->
  span_scheme (s ++ r) = (s, r).
Proof.
  induction s as [|c s IH]; simpl; intros Hs Hr.
  - destruct r as [|d r]; [reflexivity|]. simpl. rewrite Hr. reflexivity.
  - apply andb_true_iff in Hs as [Hc Hs]. rewrite Hc, (IH Hs Hr). reflexivity.
Qed.

Lemma span_scheme_spec u : forall s r, span_scheme u = (s, r) ->
  u = s ++ r /\ forallb is_scheme_char s = true.
Proof.
  induction u as [|c u IH]; simpl; intros s r H.
  - inversion H. split; reflexivity.
  - destruct (is_scheme_char c) eqn:E.
    + destruct (span_scheme u) as [a b]. inversion H; subst.
      destruct (IH a r eq_refl) as [-> Ha]. split; [reflexivity | simpl; rewrite E, Ha; reflexivity].
    + inversion H; subst. split; reflexivity.
Qed.

Lemma split_scheme_complete s r : scheme_ok s -> split_scheme (s ++ c_colon :: r) = (Some s, r).
Proof.
  destruct s as [|c s]; [intros []|]. intros [Hc Hs]. unfold split_scheme. simpl app. cbv iota. rewrite Hc.
  change (c :: s ++ c_colon :: r) with ((c :: s) ++ c_colon :: r).
  rewrite span_scheme_app; [rewrite N.eqb_refl; reflexivity | | reflexivity].
  simpl. rewrite Hs, andb_true_r. bytes.
Qed.

Lemma split_scheme_slash r : split_scheme (c_slash :: r) = (None, c_slash :: r).
Proof. reflexivity. Qed.

Lemma split_scheme_some u s r : split_scheme u = (Some s, r) -> u = s ++ c_colon :: r /\ scheme_ok s.
Proof.
  unfold split_scheme. destruct u as [|c u]; [discriminate|].
  destruct (is_alpha c) eqn:Hc; [|discriminate].
  destruct (span_scheme (c :: u)) as [a b] eqn:E. destruct b as [|d b]; [discriminate|].
  destruct (N.eqb_spec d c_colon) as [->|]; [|discriminate]. intros H; inversion H; subst.
  destruct (span_scheme_spec _ _ _ E) as [Hu Ha]. split; [exact Hu|].
  destruct s as [|c' s]; [simpl in Hu; inversion Hu; subst; discriminate|].
  simpl in Hu. inversion Hu; subst. simpl in Ha. apply andb_true_iff in Ha as [_ Ha]. split; assumption.
Qed.

Lemma split_scheme_none u r : split_scheme u = (None, r) -> r = u.
Proof.
  unfold split_scheme. destruct u as [|c u]; [intros H; inversion H; reflexivity|].
  destruct (is_alpha c); [|intros H; inversion H; reflexivity].
  destruct (span_scheme (c :: u)) as [a [|d b]]; [intros H; inversion H; reflexivity|].
  destruct (N.eqb d c_colon); intros H; inversion H; reflexivity.
Qed.

(* ------------------------------------------------------------------ authority span *)
Lemma span_authority_app a rest :
  forallb not_end a = true -> rest_ok rest -> span_authority (a ++ rest) = (a, rest).
Proof.
  induction a as [|c a IH]; simpl; intros Ha Hr.
  - destruct rest as [|d rest]; [reflexivity|]. simpl in *. rewrite Hr. reflexivity.
  - apply andb_true_iff in Ha as [Hc Ha]. unfold not_end in Hc. apply negb_true_iff in Hc.
    rewrite Hc, (IH Ha Hr). reflexivity.
Qed.

Lemma span_authority_spec s : forall a r, span_authority s = (a, r) ->
  s = a ++ r /\ forallb not_end a = true /\ rest_ok r.
Proof.
  induction s as [|c s IH]; simpl; intros a r H.
  - inversion H. repeat split.
  - destruct (is_auth_end c) eqn:E.
    + inversion H; subst. repeat split. simpl. exact E.
    + destruct (span_authority s) as [a' r']. inversion H; subst.
      destruct (IH a' r eq_refl) as [-> [Ha Hr]]. repeat split; [|exact Hr].
      simpl. unfold not_end at 1. rewrite E. exact Ha.
Qed.

(* ------------------------------------------------------------------ host[:port] *)
Lemma digits_no (c : N) p : forallb is_digit p = true -> is_digit c = false -> ~ In c p.
Proof. apply forallb_notin. Qed.

Lemma read_hostport_complete h port :
  host_ok h -> (forall p, port = Some p -> port_ok p) -> read_hostport (h ++ opt_port port) = Some (h, port).
Proof.
  intros [Hreg | [b [-> Hb]]] Hp.
  - (* reg-name *)
    assert (Hnc : ~ In c_colon h) by (apply (forallb_notin _ _ _ Hreg); reflexivity).
    assert (E : read_regname (h ++ opt_port port) = Some (h, port)).
    { unfold read_regname. destruct port as [p|]; simpl opt_port.
      - rewrite cut_app by exact Hnc. rewrite Hreg. simpl. rewrite (Hp p eq_refl). reflexivity.
      - rewrite app_nil_r, cut_notin by exact Hnc. rewrite Hreg. reflexivity. }
    unfold read_hostport. destruct (h ++ opt_port port) as [|c r] eqn:E2; [exact E|].
    destruct (N.eqb_spec c c_lbr) as [->|]; [|exact E].
    exfalso. destruct h as [|c h].
    + destruct port; simpl in E2; inversion E2.
    + simpl in E2. inversion E2; subst. simpl in Hreg. discriminate Hreg.
  - (* IP-literal *)
    assert (Hnb : ~ In c_rbr b) by (apply (forallb_notin _ _ _ Hb); reflexivity).
    change ((c_lbr :: b ++ [c_rbr]) ++ opt_port port) with (c_lbr :: (b ++ [c_rbr]) ++ opt_port port).
    unfold read_hostport. rewrite N.eqb_refl. unfold read_bracketed. rewrite <- app_assoc. cbn [app].
    rewrite cut_app by exact Hnb. rewrite Hb. cbn [negb].
    destruct port as [p|]; cbn [opt_port]; [|reflexivity].
    rewrite N.eqb_refl, (Hp p eq_refl). reflexivity.
Qed.

Lemma read_hostport_sound hp h port :
  read_hostport hp = Some (h, port) ->
  hp = h ++ opt_port port /\ host_ok h /\ (forall p, port = Some p -> port_ok p).
Proof.
  assert (Hreg : read_regname hp = Some (h, port) ->
                 hp = h ++ opt_port port /\ host_ok h /\ (forall p, port = Some p -> port_ok p)).
  { unfold read_regname. destruct (cut c_colon hp) as [a po] eqn:E.
    destruct (forallb regname_char a) eqn:Ha; [|discriminate]. simpl.
    destruct po as [p|].
    - destruct (forallb is_digit p) eqn:Hd; [|discriminate]. intros H; inversion H; subst.
      destruct (cut_some _ _ _ _ E) as [-> _]. repeat split; [left; exact Ha|].
      intros p0 Hp0; inversion Hp0; subst. exact Hd.
    - intros H; inversion H; subst. destruct (cut_none _ _ _ E) as [-> _].
      simpl. rewrite app_nil_r. repeat split; [left; exact Ha | discriminate]. }
  unfold read_hostport. destruct hp as [|c r]; [exact Hreg|].
  destruct (N.eqb_spec c c_lbr) as [->|]; [|exact Hreg].
  unfold read_bracketed. destruct (cut c_rbr r) as [content [after|]] eqn:E; [|discriminate].
  destruct (forallb literal_char content) eqn:Hc; [|discriminate]. simpl.
  destruct (cut_some _ _ _ _ E) as [-> _].
  destruct after as [|d p].
  - intros H; inversion H; subst. simpl. rewrite app_nil_r. repeat split; [|discriminate].
    right. exists content. split; [reflexivity | exact Hc].
  - destruct (N.eqb_spec d c_colon) as [->|]; [|discriminate]. simpl.
    destruct (forallb is_digit p) eqn:Hd; [|discriminate]. intros H; inversion H; subst.
    repeat split.
    + simpl. rewrite <- app_assoc. reflexivity.
    + right. exists content. split; [reflexivity | exact Hc].
    + intros p0 Hp0; inversion Hp0; subst. exact Hd.
Qed.

(* characters of host[:port] *)
Lemma host_no_at h : host_ok h -> ~ In c_at h.
Proof.
  intros [Hreg | [b [-> Hb]]].
  - apply (forallb_notin _ _ _ Hreg). reflexivity.
  - intros [Hc|Hc]; [discriminate|]. apply in_app_or in Hc as [Hc|[Hc|[]]]; [|discriminate].
    revert Hc. apply (forallb_notin _ _ _ Hb). reflexivity.
Qed.

Lemma host_not_end h : host_ok h -> forallb not_end h = true.
Proof.
  intros [Hreg | [b [-> Hb]]].
  - revert Hreg. apply forallb_impl. intros c Hc. unfold not_end. rewrite (regname_not_end c Hc). reflexivity.
  - simpl. rewrite forallb_app'. simpl. rewrite andb_true_r.
    revert Hb. apply forallb_impl. intros c Hc. unfold not_end. rewrite (literal_not_end c Hc). reflexivity.
Qed.

Lemma port_no_at port : (forall p, port = Some p -> port_ok p) -> ~ In c_at (opt_port port).
Proof.
  destruct port as [p|]; simpl; [|intros _ []]. intros H [Hc|Hc]; [discriminate|].
  revert Hc. apply (forallb_notin _ _ _ (H p eq_refl)). reflexivity.
Qed.

Lemma port_not_end port : (forall p, port = Some p -> port_ok p) -> forallb not_end (opt_port port) = true.
Proof.
  destruct port as [p|]; simpl; [|reflexivity]. intros H. generalize (H p eq_refl). unfold port_ok.
  apply forallb_impl. intros c Hc. unfold not_end. rewrite (digit_not_end c Hc). reflexivity.
Qed.

(* ------------------------------------------------------------------ rfc_read = rfc_split *)
Theorem rfc_read_complete u sch ui h port rest :
  rfc_split u sch ui h port rest ->
  rfc_read u = Some {| r_scheme := sch; r_userinfo := ui; r_host := h; r_port := port; r_rest := rest |}.
Proof.
  intros H. destruct H as [sch ui h port rest Hs Hu Hh Hp Hr].
  unfold rfc_read.
  assert (E1 : split_scheme (opt_scheme sch ++ [c_slash; c_slash] ++ opt_userinfo ui ++ h ++ opt_port port ++ rest)
               = (sch, [c_slash; c_slash] ++ opt_userinfo ui ++ h ++ opt_port port ++ rest)).
  { destruct sch as [s|]; simpl opt_scheme.
    - rewrite <- app_assoc. simpl. apply split_scheme_complete. exact (Hs s eq_refl).
    - simpl. reflexivity. }
  rewrite E1. rewrite has_prefix_app.
  change (skipn 2 ([c_slash; c_slash] ++ opt_userinfo ui ++ h ++ opt_port port ++ rest))
    with (opt_userinfo ui ++ h ++ opt_port port ++ rest).
  replace (opt_userinfo ui ++ h ++ opt_port port ++ rest)
    with ((opt_userinfo ui ++ h ++ opt_port port) ++ rest) by (rewrite <- !app_assoc; reflexivity).
  rewrite span_authority_app; [| |exact Hr].
  2:{ rewrite !forallb_app'. rewrite (host_not_end h Hh), (port_not_end port Hp), andb_true_r.
      destruct ui as [s|]; simpl; [|reflexivity]. rewrite forallb_app'. simpl. rewrite andb_true_r.
      exact (Hu s eq_refl). }
  assert (Hna : ~ In c_at (h ++ opt_port port)).
  { intros Hc. apply in_app_or in Hc as [Hc|Hc]; [exact (host_no_at h Hh Hc) | exact (port_no_at port Hp Hc)]. }
  destruct ui as [s|]; simpl opt_userinfo.
  - rewrite <- app_assoc. simpl. rewrite cut_last_app by exact Hna.
    rewrite (read_hostport_complete h port Hh Hp). reflexivity.
  - simpl. rewrite cut_last_notin by exact Hna.
    rewrite (read_hostport_complete h port Hh Hp). reflexivity.
Qed.

Theorem rfc_read_sound u p :
  rfc_read u = Some p -> rfc_split u (r_scheme p) (r_userinfo p) (r_host p) (r_port p) (r_rest p).
Proof.
  unfold rfc_read. destruct (split_scheme u) as [sch r] eqn:E1.
  destruct (has_prefix r [c_slash; c_slash]) eqn:E2; [|discriminate].
  apply has_prefix_spec in E2 as [r2 ->]. change (skipn 2 ([c_slash; c_slash] ++ r2)) with r2.
  destruct (span_authority r2) as [auth rest] eqn:E3.
  destruct (span_authority_spec _ _ _ E3) as [-> [Hauth Hrest]].
  set (x := match cut_last c_at auth with Some (a, b) => (Some a, b) | None => (None, auth) end).
  destruct x as [ui hp] eqn:E4. subst x.
  destruct (read_hostport hp) as [[h port]|] eqn:E5; [|discriminate].
  intros H; inversion H; subst; clear H. simpl.
  destruct (read_hostport_sound _ _ _ E5) as [-> [Hh Hp]].
  assert (Hu : u = opt_scheme sch ++ [c_slash; c_slash] ++ opt_userinfo ui ++ h ++ opt_port port ++ rest /\
               (forall s, sch = Some s -> scheme_ok s) /\ (forall s, ui = Some s -> userinfo_ok s)).
  { assert (Hui : auth = opt_userinfo ui ++ h ++ opt_port port /\ (forall s, ui = Some s -> userinfo_ok s)).
    { destruct (cut_last c_at auth) as [[a b]|] eqn:E6.
      - inversion E4; subst. destruct (cut_last_some _ _ _ _ E6) as [-> _]. split.
        + simpl. rewrite <- app_assoc. reflexivity.
        + intros s Hs; inversion Hs; subst. rewrite forallb_app' in Hauth.
          apply andb_true_iff in Hauth as [Ha _]. exact Ha.
      - inversion E4; subst. split; [reflexivity | discriminate]. }
    destruct Hui as [-> Hui]. destruct sch as [s|].
    - destruct (split_scheme_some _ _ _ E1) as [-> Hs]. repeat split.
      + simpl. rewrite <- !app_assoc. reflexivity.
      + intros s0 Hs0; inversion Hs0; subst; exact Hs.
      + exact Hui.
    - rewrite <- (split_scheme_none _ _ E1). repeat split.
      + simpl. rewrite <- !app_assoc. reflexivity.
      + discriminate.
      + exact Hui. }
  destruct Hu as [-> [Hs Hu]]. constructor; assumption.
Qed.

Theorem rfc_split_unique u s1 ui1 h1 p1 r1 s2 ui2 h2 p2 r2 :
  rfc_split u s1 ui1 h1 p1 r1 -> rfc_split u s2 ui2 h2 p2 r2 ->
  s1 = s2 /\ ui1 = ui2 /\ h1 = h2 /\ p1 = p2 /\ r1 = r2.
Proof.
  intros A B. apply rfc_read_complete in A. apply rfc_read_complete in B.
  rewrite A in B. inversion B; subst. repeat split.
Qed.

(* ================================================================== unescape *)
Lemma str_strong_ind (P : list N -> Prop) :
  (forall s : list N, (forall t : list N, (length t < length s)%nat -> P t) -> P s) -> forall s : list N, P s.
Proof.
  intros H s. assert (G : forall n t, (length t < n)%nat -> P t).
  { induction n as [|n IH]; intros t Ht; [inversion Ht|]. apply H. intros t' Ht'. apply IH. lia. }
  apply (G (S (length s))). lia.
Qed.

Definition unescape_pct_body (m : mode) (h1 h2 : N) (r : option str) : option str :=
  if is_hex h1 && is_hex h2 then
    let v := unhex h1 * 16 + unhex h2 in
    let is25 := N.eqb h1 50 && N.eqb h2 53 in
    if (match m with MHost => true | _ => false end) && (unhex h1 <? 8) && negb is25 then None
    else if (match m with MZone => true | _ => false end) && negb is25 && negb (N.eqb v 32)
            && should_escape v MHost then None
    else option_map (cons v) r
  else None.

Lemma unescape_pct m h1 h2 s :
  unescape m (c_pct :: h1 :: h2 :: s) = unescape_pct_body m h1 h2 (unescape m s).
Proof. reflexivity. Qed.

Lemma unescape_pct_short1 m : unescape m [c_pct] = None.
Proof. reflexivity. Qed.
Lemma unescape_pct_short2 m h1 : unescape m [c_pct; h1] = None.
Proof. reflexivity. Qed.

Lemma unescape_other m c s : c <> c_pct ->
  unescape m (c :: s) =
  if is_hostish m && (c <? 128) && should_escape c m then None else option_map (cons c) (unescape m s).
Proof.
  intros H. simpl. destruct (N.eqb_spec c c_pct); [contradiction | reflexivity].
Qed.

Lemma pct_decode_pct h1 h2 s : is_hex h1 && is_hex h2 = true ->
  pct_decode (c_pct :: h1 :: h2 :: s) = (unhex h1 * 16 + unhex h2) :: pct_decode s.
Proof. intros H. simpl. rewrite H. reflexivity. Qed.

Lemma pct_decode_other c s : c <> c_pct -> pct_decode (c :: s) = c :: pct_decode s.
Proof. intros H. simpl. destruct (N.eqb_spec c c_pct); [contradiction | reflexivity]. Qed.

Lemma unescape_pct_body_some m h1 h2 r t :
  unescape_pct_body m h1 h2 r = Some t ->
  is_hex h1 && is_hex h2 = true /\ exists t', r = Some t' /\ t = (unhex h1 * 16 + unhex h2) :: t'.
Proof.
  unfold unescape_pct_body. destruct (is_hex h1 && is_hex h2); [|discriminate].
  repeat match goal with |- context [if ?b then None else _] => destruct b; [discriminate|] end.
  destruct r as [t'|]; [|discriminate]. simpl. intros H; inversion H. split; [reflexivity|]. exists t'. auto.
Qed.

(* a successful unescape decodes every %XX: it is the RFC percent-decoding *)
Lemma unescape_decode_app m x : forall tx y, unescape m x = Some tx -> pct_decode (x ++ y) = tx ++ pct_decode y.
Proof.
  induction x as [x IH] using str_strong_ind. intros tx y H.
  destruct x as [|c x]; [inversion H; reflexivity|].
  destruct (N.eq_dec c c_pct) as [->|Hne].
  - destruct x as [|h1 [|h2 x]]; [discriminate | discriminate|].
    rewrite unescape_pct in H. apply unescape_pct_body_some in H as [Hh [t' [Ht ->]]].
    simpl app. rewrite pct_decode_pct by exact Hh. rewrite (IH x) with (tx := t'); [reflexivity | simpl; lia | exact Ht].
  - rewrite unescape_other in H by exact Hne.
    destruct (is_hostish m && (c <? 128) && should_escape c m); [discriminate|].
    destruct (unescape m x) as [t'|] eqn:E; [|discriminate]. inversion H; subst.
    simpl app. rewrite pct_decode_other by exact Hne. rewrite (IH x) with (tx := t'); [reflexivity | simpl; lia | exact E].
Qed.

Lemma unescape_decode m x tx : unescape m x = Some tx -> tx = pct_decode x.
Proof.
  intros H. pose proof (unescape_decode_app m x tx [] H) as G. rewrite app_nil_r in G.
  simpl in G. rewrite app_nil_r in G. auto.
Qed.

(* splitting a successful unescape at a byte that cannot be part of an escape *)
Lemma unescape_split m x : forall c y t,
  unescape m (x ++ c :: y) = Some t -> is_hex c = false -> c <> c_pct ->
  exists tx ty, unescape m x = Some tx /\ unescape m (c :: y) = Some ty /\ t = tx ++ ty.
Proof.
  induction x as [x IH] using str_strong_ind. intros c y t H Hc Hp.
  destruct x as [|c0 x].
  - exists [], t. simpl in *. auto.
  - destruct (N.eq_dec c0 c_pct) as [->|Hne].
    + destruct x as [|h1 [|h2 x]].
      * exfalso. simpl app in H. destruct y as [|h2 y]; [discriminate H|].
        rewrite unescape_pct in H. apply unescape_pct_body_some in H as [Hh _]. rewrite Hc in Hh. discriminate.
      * exfalso. simpl app in H. rewrite unescape_pct in H. apply unescape_pct_body_some in H as [Hh _].
        rewrite Hc, andb_false_r in Hh. discriminate.
      * simpl app in H. rewrite unescape_pct in H.
        destruct (unescape m (x ++ c :: y)) as [t'|] eqn:E.
        2:{ apply unescape_pct_body_some in H as [_ [t' [Ht _]]]. discriminate. }
        destruct (IH x) with (c := c) (y := y) (t := t') as [tx [ty [Hx [Hy ->]]]]; [simpl; lia | exact E | exact Hc | exact Hp|].
        pose proof H as H'. apply unescape_pct_body_some in H' as [Hh [t'' [Ht'' ->]]]. inversion Ht''; subst.
        exists ((unhex h1 * 16 + unhex h2) :: tx), ty. split; [|split; [exact Hy | reflexivity]].
        rewrite unescape_pct, Hx. unfold unescape_pct_body in *.
        destruct (is_hex h1 && is_hex h2); [|discriminate].
        repeat match goal with |- context [if ?b then None else _] => destruct b; [discriminate|] end.
        reflexivity.
    + simpl app in H. rewrite unescape_other in H by exact Hne. rewrite unescape_other by exact Hne.
      destruct (is_hostish m && (c0 <? 128) && should_escape c0 m); [discriminate|].
      destruct (unescape m (x ++ c :: y)) as [t'|] eqn:E; [|discriminate]. inversion H; subst.
      destruct (IH x) with (c := c) (y := y) (t := t') as [tx [ty [Hx [Hy ->]]]]; [simpl; lia | exact E | exact Hc | exact Hp|].
      exists (c0 :: tx), ty. rewrite Hx. auto.
Qed.

(* bytes that pass through unescape unchanged *)
Definition plain_in (m : mode) (c : N) : bool :=
  negb (N.eqb c c_pct) && negb (is_hostish m && (c <? 128) && should_escape c m).

Lemma unescape_plain m s : forallb (plain_in m) s = true -> unescape m s = Some s.
Proof.
  induction s as [|c s IH]; [reflexivity|]. simpl forallb. rewrite andb_true_iff. intros [Hc Hs].
  unfold plain_in in Hc. apply andb_true_iff in Hc as [H1 H2].
  apply negb_true_iff in H1, H2. apply N.eqb_neq in H1.
  rewrite unescape_other by exact H1. rewrite H2, (IH Hs). reflexivity.
Qed.

Lemma unescape_cons_plain m c s t : plain_in m c = true -> unescape m (c :: s) = Some t ->
  exists t', unescape m s = Some t' /\ t = c :: t'.
Proof.
  unfold plain_in. rewrite andb_true_iff, !negb_true_iff, N.eqb_neq. intros [H1 H2] H.
  rewrite unescape_other in H by exact H1. rewrite H2 in H.
  destruct (unescape m s) as [t'|]; [|discriminate]. inversion H. exists t'. auto.
Qed.

(* in host mode, decoding creates only '%' and bytes >= 0x80 *)
Lemma unescape_host_chars s : forall t, unescape MHost s = Some t ->
  forall c, In c t -> In c s \/ c = c_pct \/ 128 <= c.
Proof.
  induction s as [s IH] using str_strong_ind. intros t H c Hin.
  destruct s as [|c0 s]; [inversion H; subst; destruct Hin|].
  destruct (N.eq_dec c0 c_pct) as [->|Hne].
  - destruct s as [|h1 [|h2 s]]; [discriminate | discriminate|].
    rewrite unescape_pct in H. pose proof H as H'.
    apply unescape_pct_body_some in H' as [Hh [t' [Ht ->]]].
    destruct Hin as [<-|Hin].
    + right. unfold unescape_pct_body in H. rewrite Hh in H. cbv zeta in H.
      destruct (N.eqb h1 50 && N.eqb h2 53) eqn:E25.
      * apply andb_true_iff in E25 as [E1 E2]. apply N.eqb_eq in E1, E2. subst. left. reflexivity.
      * simpl in H. destruct (unhex h1 <? 8) eqn:E8; [discriminate|]. right.
        apply N.ltb_ge in E8. apply andb_true_iff in Hh as [_ Hh2].
        assert (unhex h2 < 16) by (revert Hh2; unfold is_hex, unhex, is_digit; intros;
          destruct ((48 <=? h2) && (h2 <=? 57)) eqn:A1; [lia|]; destruct ((97 <=? h2) && (h2 <=? 102)) eqn:A2; [lia|];
          destruct ((65 <=? h2) && (h2 <=? 70)) eqn:A3; lia).
        lia.
    + destruct (IH s) with (t := t') (c := c) as [G|G]; [simpl; lia | exact Ht | exact Hin | |auto].
      left. right. right. right. exact G.
  - rewrite unescape_other in H by exact Hne.
    destruct (is_hostish MHost && (c0 <? 128) && should_escape c0 MHost); [discriminate|].
    destruct (unescape MHost s) as [t'|] eqn:E; [|discriminate]. inversion H; subst.
    destruct Hin as [<-|Hin]; [left; left; reflexivity|].
    destruct (IH s) with (t := t') (c := c) as [G|G]; [simpl; lia | exact E | exact Hin | |auto].
    left. right. exact G.
Qed.

(* ================================================================== Hostname() *)
Lemma cut_last_snoc_tail sep s c a b :
  cut_last sep (s ++ [c]) = Some (a, b) -> c <> sep -> exists b', b = b' ++ [c].
Proof.
  intros H Hc. apply cut_last_some in H as [H _].
  destruct (exists_last (l := b)) as [b' [x Hb]].
  - intros ->. change (a ++ [sep]) with (a ++ [sep]) in H. apply app_inj_tail in H as [_ H]. congruence.
  - subst b. exists b'. replace (a ++ sep :: b' ++ [x]) with ((a ++ sep :: b') ++ [x]) in H
      by (rewrite <- app_assoc; reflexivity).
    apply app_inj_tail in H as [_ H]. subst. reflexivity.
Qed.

Lemma strip_brackets_bracketed tb : strip_brackets (c_lbr :: tb ++ [c_rbr]) = tb.
Proof.
  unfold strip_brackets. change (c_lbr :: tb ++ [c_rbr]) with ((c_lbr :: tb) ++ [c_rbr]) at 2.
  rewrite has_suffix_snoc. simpl. apply removelast_snoc.
Qed.

Lemma strip_brackets_no_lbr th : ~ In c_lbr th -> strip_brackets th = th.
Proof.
  intros H. unfold strip_brackets. destruct th as [|c th]; [reflexivity|].
  cbn [has_prefix]. destruct (N.eqb_spec c_lbr c) as [<-|]; [exfalso; apply H; left; reflexivity | reflexivity].
Qed.

Lemma hostname_bracket tb pp : valid_optional_port pp = true ->
  fst (split_host_port (c_lbr :: tb ++ c_rbr :: pp)) = tb.
Proof.
  intros Hpp. unfold split_host_port. destruct pp as [|d p].
  - destruct (cut_last c_colon (c_lbr :: tb ++ [c_rbr])) as [[a b]|] eqn:E.
    + change (c_lbr :: tb ++ [c_rbr]) with ((c_lbr :: tb) ++ [c_rbr]) in E.
      destruct (cut_last_snoc_tail _ _ _ _ _ E) as [b' ->]; [discriminate|].
      rewrite forallb_app'. simpl forallb at 2. rewrite andb_false_r. simpl. apply strip_brackets_bracketed.
    + simpl. apply strip_brackets_bracketed.
  - simpl in Hpp. apply andb_true_iff in Hpp as [Hd Hp]. apply N.eqb_eq in Hd. subst d.
    replace (c_lbr :: tb ++ c_rbr :: c_colon :: p) with ((c_lbr :: tb ++ [c_rbr]) ++ c_colon :: p)
      by (simpl; rewrite <- app_assoc; reflexivity).
    rewrite cut_last_app by (apply (forallb_notin _ _ _ Hp); reflexivity).
    rewrite Hp. simpl. apply strip_brackets_bracketed.
Qed.

Lemma hostname_regname th port :
  ~ In c_colon th -> ~ In c_lbr th -> (forall p, port = Some p -> port_ok p) ->
  fst (split_host_port (th ++ opt_port port)) = th.
Proof.
  intros Hc Hb Hp. unfold split_host_port. destruct port as [p|]; simpl opt_port.
  - pose proof (Hp p eq_refl) as Hd. rewrite cut_last_app by (apply (forallb_notin _ _ _ Hd); reflexivity).
    rewrite Hd. simpl. apply strip_brackets_no_lbr. exact Hb.
  - rewrite app_nil_r, cut_last_notin by exact Hc. simpl. apply strip_brackets_no_lbr. exact Hb.
Qed.

(* ================================================================== parseHost *)
Lemma index_pct25_spec s : forall a b, index_pct25 s = Some (a, b) -> s = a ++ b.
Proof.
  induction s as [|c s IH]; intros a b H; [discriminate|].
  unfold index_pct25 in H; fold index_pct25 in H.
  destruct (has_prefix (c :: s) pct25); [inversion H; reflexivity|].
  destruct (index_pct25 s) as [[a' b']|]; [|discriminate]. inversion H; subst.
  rewrite (IH a' b eq_refl). reflexivity.
Qed.

Lemma plain_port pp : valid_optional_port pp = true -> forallb (plain_in MHost) pp = true.
Proof.
  destruct pp as [|d p]; [reflexivity|]. simpl. rewrite !andb_true_iff, N.eqb_eq. intros [-> Hp].
  split; [reflexivity|]. revert Hp. apply forallb_impl. intros c Hc.
  unfold plain_in, is_hostish, should_escape, is_alnum. unfold is_digit in Hc.
  assert (E : is_alpha c || is_digit c = true) by (unfold is_digit; lia). rewrite E.
  rewrite andb_false_r. simpl. rewrite andb_true_r. apply negb_true_iff. apply N.eqb_neq. unfold c_pct. lia.
Qed.

Lemma opt_port_valid port : (forall p, port = Some p -> port_ok p) -> valid_optional_port (opt_port port) = true.
Proof.
  destruct port as [p|]; [|reflexivity]. intros H. simpl. exact (H p eq_refl).
Qed.

Lemma parse_host_regname h port host :
  forallb regname_char h = true -> (forall p, port = Some p -> port_ok p) ->
  parse_host (h ++ opt_port port) = Some host ->
  fst (split_host_port host) = pct_decode h.
Proof.
  intros Hreg Hp H.
  assert (Hu : unescape MHost (h ++ opt_port port) = Some host).
  { unfold parse_host in H.
    assert (Hpre : has_prefix (h ++ opt_port port) [c_lbr] = false).
    { destruct h as [|c h].
      - destruct port; reflexivity.
      - simpl in Hreg. apply andb_true_iff in Hreg as [Hc _]. cbn [app has_prefix].
        destruct (N.eqb_spec c_lbr c) as [<-|]; [discriminate Hc | reflexivity]. }
    rewrite Hpre in H. destruct (cut_last c_colon (h ++ opt_port port)) as [[a b]|]; [|exact H].
    destruct (forallb is_digit b); [exact H | discriminate]. }
  assert (Hchars : forall tx, unescape MHost h = Some tx -> ~ In c_colon tx /\ ~ In c_lbr tx).
  { intros tx Htx. split; intros Hin; destruct (unescape_host_chars _ _ Htx _ Hin) as [G|[G|G]];
      try discriminate G; try (unfold c_colon, c_lbr in G; lia);
      revert G; apply (forallb_notin _ _ _ Hreg); reflexivity. }
  destruct port as [p|]; simpl opt_port in *.
  - destruct (unescape_split MHost h c_colon p host Hu) as [tx [ty [Hx [Hy ->]]]]; [reflexivity | discriminate|].
    assert (Hpl : forallb (plain_in MHost) (c_colon :: p) = true).
    { apply plain_port. simpl. exact (Hp p eq_refl). }
    rewrite (unescape_plain _ _ Hpl) in Hy. inversion Hy; subst.
    destruct (Hchars tx Hx) as [H1 H2].
    rewrite <- (unescape_decode _ _ _ Hx).
    apply (hostname_regname tx (Some p)); assumption.
  - rewrite app_nil_r in Hu. destruct (Hchars host Hu) as [H1 H2].
    rewrite <- (unescape_decode _ _ _ Hu).
    pose proof (hostname_regname host None H1 H2) as G. simpl in G. rewrite app_nil_r in G. apply G. discriminate.
Qed.

Lemma parse_host_bracket b port host :
  forallb literal_char b = true -> (forall p, port = Some p -> port_ok p) ->
  parse_host ((c_lbr :: b ++ [c_rbr]) ++ opt_port port) = Some host ->
  fst (split_host_port host) = pct_decode b.
Proof.
  intros Hb Hp H.
  assert (Hnb : ~ In c_rbr (opt_port port)).
  { destruct port as [p|]; simpl; [|intros []]. intros [Hc|Hc]; [discriminate|].
    revert Hc. apply (forallb_notin _ _ _ (Hp p eq_refl)). reflexivity. }
  pose proof (opt_port_valid port Hp) as Hv.
  assert (Hshape : (c_lbr :: b ++ [c_rbr]) ++ opt_port port = (c_lbr :: b) ++ c_rbr :: opt_port port).
  { simpl. rewrite <- app_assoc. reflexivity. }
  rewrite Hshape in H. unfold parse_host in H.
  change (has_prefix ((c_lbr :: b) ++ c_rbr :: opt_port port) [c_lbr]) with true in H. cbv iota in H.
  rewrite cut_last_app in H by exact Hnb. rewrite Hv in H. cbn [negb] in H.
  assert (Hrb : forall t3, unescape MHost (c_rbr :: opt_port port) = Some t3 -> t3 = c_rbr :: opt_port port).
  { intros t3 H3. rewrite unescape_plain in H3; [inversion H3; reflexivity|].
    simpl. rewrite (plain_port _ Hv). reflexivity. }
  assert (Hfin : forall tb, host = c_lbr :: tb ++ c_rbr :: opt_port port -> fst (split_host_port host) = tb).
  { intros tb ->. apply hostname_bracket. exact Hv. }
  destruct (index_pct25 (c_lbr :: b)) as [[h1 h2]|] eqn:Ez.
  - destruct (unescape MHost h1) as [a|] eqn:E1; [|discriminate].
    destruct (unescape MZone h2) as [z|] eqn:E2; [|discriminate].
    destruct (unescape MHost (c_rbr :: opt_port port)) as [t3|] eqn:E3; [|discriminate].
    inversion H; subst host. assert (Ht3 := Hrb t3 eq_refl). subst t3.
    apply Hfin. apply index_pct25_spec in Ez.
    pose proof (unescape_decode_app MHost h1 a h2 E1) as G. rewrite <- Ez in G.
    rewrite <- (unescape_decode _ _ _ E2) in G.
    rewrite pct_decode_other in G by discriminate.
    rewrite app_assoc, <- G. reflexivity.
  - destruct (unescape_split MHost (c_lbr :: b) c_rbr (opt_port port) host H) as [tx [ty [Hx [Hy ->]]]];
      [reflexivity | discriminate|].
    assert (Hty := Hrb ty Hy). subst ty.
    destruct (unescape_cons_plain MHost c_lbr b tx) as [tb [Htb ->]]; [reflexivity | exact Hx|].
    rewrite <- (unescape_decode _ _ _ Htb). apply Hfin. reflexivity.
Qed.

Lemma parse_authority_host ui h port user host :
  (forall s, ui = Some s -> userinfo_ok s) -> host_ok h -> (forall p, port = Some p -> port_ok p) ->
  parse_authority (opt_userinfo ui ++ h ++ opt_port port) = Some (user, host) ->
  parse_host (h ++ opt_port port) = Some host.
Proof.
  intros Hu Hh Hp H.
  assert (Hna : ~ In c_at (h ++ opt_port port)).
  { intros Hc. apply in_app_or in Hc as [Hc|Hc]; [exact (host_no_at h Hh Hc) | exact (port_no_at port Hp Hc)]. }
  unfold parse_authority in H.
  destruct ui as [s|]; cbn [opt_userinfo] in H.
  - rewrite <- app_assoc in H. cbn [app] in H. rewrite cut_last_app in H by exact Hna.
    cbv beta iota zeta in H.
    destruct (parse_host (h ++ opt_port port)) as [host'|]; [|discriminate].
    destruct (valid_userinfo s); [|discriminate]. cbn [negb] in H. cbv iota in H.
    destruct (cut c_colon s) as [n [p|]].
    + destruct (unescape MUser n); [|discriminate]. destruct (unescape MUser p); [|discriminate].
      inversion H; reflexivity.
    + destruct (unescape MUser s); [|discriminate]. inversion H; reflexivity.
  - cbn [app] in H. rewrite cut_last_notin in H by exact Hna. cbv beta iota zeta in H.
    destruct (parse_host (h ++ opt_port port)) as [host'|]; [|discriminate].
    inversion H; reflexivity.
Qed.

(* ================================================================== getScheme *)
Lemma get_scheme_from_false s r :
  forallb is_scheme_char s = true -> get_scheme_from false (s ++ c_colon :: r) = SSome s r.
Proof.
  induction s as [|c s IH]; intros H.
  - reflexivity.
  - simpl in H. apply andb_true_iff in H as [Hc Hs]. simpl app.
    unfold get_scheme_from; fold get_scheme_from. rewrite (IH Hs).
    destruct (is_alpha c) eqn:Ea; [reflexivity|].
    assert (E : is_digit c || N.eqb c 43 || N.eqb c 45 || N.eqb c 46 = true).
    { unfold is_scheme_char in Hc. rewrite Ea in Hc. simpl in Hc. rewrite <- !orb_assoc in *. exact Hc. }
    rewrite E. reflexivity.
Qed.

Lemma get_scheme_complete s r : scheme_ok s -> get_scheme (s ++ c_colon :: r) = SSome s r.
Proof.
  destruct s as [|c s]; [intros []|]. intros [Hc Hs]. unfold get_scheme. simpl app.
  unfold get_scheme_from; fold get_scheme_from. rewrite Hc, (get_scheme_from_false s r Hs). reflexivity.
Qed.

(* ================================================================== Parse vs the RFC reading *)
Definition starts_in (l : list N) (r : str) : Prop :=
  match r with [] => True | c :: _ => In c l end.

Lemma rest_ok_starts r : rest_ok r -> starts_in [c_slash; c_qmark; c_hash] r.
Proof.
  destruct r as [|c r]; simpl; [auto|]. unfold is_auth_end. rewrite !orb_true_iff, !N.eqb_eq.
  intros [[->| ->]| ->]; auto.
Qed.

Lemma cut_starts sep l r : starts_in (l ++ [sep]) r -> starts_in l (fst (cut sep r)).
Proof.
  destruct r as [|c r]; simpl; [auto|]. intros H.
  destruct (N.eqb_spec c sep) as [->|Hne]; simpl; [auto|].
  destruct (cut sep r). simpl. apply in_app_or in H as [H|[H|[]]]; [exact H | congruence].
Qed.

Lemma not_end_no (c : N) a : forallb not_end a = true -> is_auth_end c = true -> ~ In c a.
Proof. intros Ha Hc. apply (forallb_notin _ _ _ Ha). unfold not_end. rewrite Hc. reflexivity. Qed.

Lemma parse_after_scheme_authority s0 A rest0 url :
  forallb not_end A = true -> starts_in [c_slash; c_qmark] rest0 ->
  parse_after_scheme s0 ([c_slash; c_slash] ++ A ++ rest0) = Some url -> u_host url <> [] ->
  exists user, parse_authority A = Some (user, u_host url).
Proof.
  intros HA Hr H Hhost. unfold parse_after_scheme in H.
  assert (Hq : ~ In c_qmark ([c_slash; c_slash] ++ A)).
  { intros [Hc|[Hc|Hc]]; try discriminate. revert Hc. apply not_end_no; [exact HA | reflexivity]. }
  rewrite app_assoc in H. rewrite (cut_app_left c_qmark _ rest0 Hq) in H. cbn [fst] in H.
  pose proof (cut_starts c_qmark [c_slash] rest0 Hr) as Hr1.
  set (rest1 := fst (cut c_qmark rest0)) in *. clearbody rest1.
  rewrite <- app_assoc in H.
  change (has_prefix ([c_slash; c_slash] ++ A ++ rest1) [c_slash]) with true in H.
  change (has_prefix ([c_slash; c_slash] ++ A ++ rest1) [c_slash; c_slash]) with true in H.
  cbn [negb andb] in H. rewrite andb_true_r in H.
  destruct (negb (is_nil (lower_ascii s0)) || negb (has_prefix ([c_slash; c_slash] ++ A ++ rest1) [c_slash; c_slash; c_slash])).
  - unfold parse_with_authority in H. change (skipn 2 ([c_slash; c_slash] ++ A ++ rest1)) with (A ++ rest1) in H.
    assert (Hs : ~ In c_slash A) by (apply not_end_no; [exact HA | reflexivity]).
    rewrite (cut_app_left c_slash A rest1 Hs) in H.
    assert (E : fst (cut c_slash rest1) = []).
    { destruct rest1 as [|c r]; [reflexivity|]. simpl in Hr1. destruct Hr1 as [<-|[]]. reflexivity. }
    rewrite E, app_nil_r in H.
    destruct (parse_authority A) as [[user host]|]; [|discriminate].
    destruct (unescape MPath _); [|discriminate]. inversion H; subst. simpl. exists user. reflexivity.
  - destruct (unescape MPath _); [|discriminate]. inversion H; subst. simpl in Hhost. congruence.
Qed.

Lemma scheme_no (c : N) s : scheme_ok s -> is_scheme_char c = false -> c <> c_colon -> ~ In c (s ++ [c_colon]).
Proof.
  destruct s as [|d s]; [intros []|]. intros [Hd Hs] Hc Hne Hin.
  apply in_app_or in Hin as [Hin|[Hin|[]]]; [|congruence].
  destruct Hin as [<-|Hin].
  - unfold is_scheme_char in Hc. rewrite Hd in Hc. discriminate.
  - revert Hin. apply (forallb_notin _ _ _ Hs). exact Hc.
Qed.

Theorem go_rfc_agree u url sch ui h port rest :
  go_parse u = Some url -> u_host url <> [] -> rfc_split u sch ui h port rest ->
  hostname url = rfc_hostname h.
Proof.
  intros Hgo Hhost Hsplit. destruct Hsplit as [sch ui h port rest Hs Hu Hh Hp Hr].
  set (A := opt_userinfo ui ++ h ++ opt_port port).
  assert (HA : forallb not_end A = true).
  { unfold A. rewrite !forallb_app'. rewrite (host_not_end h Hh), (port_not_end port Hp), andb_true_r.
    destruct ui as [s|]; simpl; [|reflexivity]. rewrite forallb_app'. simpl. rewrite andb_true_r.
    exact (Hu s eq_refl). }
  replace (opt_scheme sch ++ [c_slash; c_slash] ++ opt_userinfo ui ++ h ++ opt_port port ++ rest)
    with ((opt_scheme sch ++ [c_slash; c_slash] ++ A) ++ rest) in Hgo
    by (unfold A; rewrite <- !app_assoc; reflexivity).
  assert (Hnh : ~ In c_hash (opt_scheme sch ++ [c_slash; c_slash] ++ A)).
  { intros Hin. apply in_app_or in Hin as [Hin|Hin].
    - destruct sch as [s|]; [|destruct Hin]. revert Hin. apply scheme_no; [exact (Hs s eq_refl) | reflexivity | discriminate].
    - destruct Hin as [Hc|[Hc|Hc]]; try discriminate. revert Hc. apply not_end_no; [exact HA | reflexivity]. }
  unfold go_parse in Hgo. rewrite (cut_app_left c_hash _ rest Hnh) in Hgo.
  pose proof (cut_starts c_hash [c_slash; c_qmark] rest (rest_ok_starts rest Hr)) as Hr0.
  set (rest0 := fst (cut c_hash rest)) in *. clearbody rest0.
  destruct (parse_nofrag ((opt_scheme sch ++ [c_slash; c_slash] ++ A) ++ rest0)) as [u'|] eqn:Epn; [|discriminate].
  assert (u' = url).
  { destruct (snd (cut c_hash rest)) as [[|f0 f]|]; try (inversion Hgo; reflexivity).
    destruct (unescape MFragment (f0 :: f)); [inversion Hgo; reflexivity | discriminate]. }
  subst u'. clear Hgo.
  unfold parse_nofrag in Epn. destruct (has_ctl _); [discriminate|].
  destruct (str_eqb _ [42]) eqn:Estar.
  { apply str_eqb_eq in Estar. apply (f_equal (@length N)) in Estar. rewrite !app_length in Estar. simpl in Estar. lia. }
  assert (Hpa : exists s0, parse_after_scheme s0 ([c_slash; c_slash] ++ A ++ rest0) = Some url).
  { destruct sch as [s|]; cbn [opt_scheme] in Epn.
    - replace ((((s ++ [c_colon]) ++ [c_slash; c_slash] ++ A) ++ rest0))
        with (s ++ c_colon :: ([c_slash; c_slash] ++ A ++ rest0)) in Epn
        by (rewrite <- !app_assoc; reflexivity).
      rewrite (get_scheme_complete s _ (Hs s eq_refl)) in Epn. exists s. exact Epn.
    - cbn [app] in Epn. change (get_scheme (c_slash :: c_slash :: A ++ rest0)) with SNone in Epn.
      exists []. exact Epn. }
  destruct Hpa as [s0 Hpa].
  destruct (parse_after_scheme_authority s0 A rest0 url HA Hr0 Hpa Hhost) as [user Hauth].
  pose proof (parse_authority_host ui h port user (u_host url) Hu Hh Hp Hauth) as Hph.
  unfold hostname, rfc_hostname.
  destruct Hh as [Hreg | [b [-> Hb]]].
  - rewrite (parse_host_regname h port _ Hreg Hp Hph).
    rewrite strip_brackets_no_lbr; [reflexivity|]. apply (forallb_notin _ _ _ Hreg). reflexivity.
  - rewrite (parse_host_bracket b port _ Hb Hp Hph). rewrite strip_brackets_bracketed. reflexivity.
Qed.

(* ================================================================== no backslash in an accepted authority *)
(* WHATWG readers treat a backslash like a slash in http(s) URLs. Go rejects every authority
   that contains one, so that difference cannot move the authority boundary of an accepted URI. *)

Lemma unescape_hostish_no_bslash m s : is_hostish m = true -> In c_bslash s -> unescape m s = None.
Proof.
  intros Hm. induction s as [s IH] using str_strong_ind. intros Hin.
  destruct s as [|c s]; [destruct Hin|].
  destruct (N.eq_dec c c_pct) as [->|Hne].
  - destruct Hin as [Hc|Hin]; [discriminate Hc|].
    destruct s as [|h1 [|h2 s]]; [reflexivity | reflexivity|].
    rewrite unescape_pct. unfold unescape_pct_body.
    destruct (is_hex h1 && is_hex h2) eqn:Hh; [|reflexivity].
    destruct Hin as [->|[->|Hin]]; [discriminate Hh | rewrite andb_comm in Hh; discriminate Hh|].
    rewrite (IH s); [|simpl; lia | exact Hin]. cbv zeta.
    repeat match goal with |- context [if ?b then None else _] => destruct b; [reflexivity|] end. reflexivity.
  - rewrite unescape_other by exact Hne. destruct Hin as [->|Hin].
    + destruct m; try discriminate Hm; reflexivity.
    + rewrite (IH s); [|simpl; lia | exact Hin].
      destruct (is_hostish m && (c <? 128) && should_escape c m); reflexivity.
Qed.

Lemma parse_host_no_bslash hp host : parse_host hp = Some host -> ~ In c_bslash hp.
Proof.
  intros H Hin. unfold parse_host in H.
  assert (Hall : unescape MHost hp = None) by (apply unescape_hostish_no_bslash; [reflexivity | exact Hin]).
  destruct (has_prefix hp [c_lbr]).
  - destruct (cut_last c_rbr hp) as [[before cp]|] eqn:E; [|discriminate].
    destruct (negb (valid_optional_port cp)); [discriminate|].
    apply cut_last_some in E as [E _].
    destruct (index_pct25 before) as [[h1 h2]|] eqn:Ez; [|congruence].
    apply index_pct25_spec in Ez. subst before. subst hp.
    apply in_app_or in Hin as [Hin|Hin].
    + apply in_app_or in Hin as [Hin|Hin].
      * rewrite (unescape_hostish_no_bslash MHost h1 eq_refl Hin) in H. discriminate.
      * rewrite (unescape_hostish_no_bslash MZone h2 eq_refl Hin) in H. destruct (unescape MHost h1); discriminate.
    + rewrite (unescape_hostish_no_bslash MHost (c_rbr :: cp) eq_refl Hin) in H.
      destruct (unescape MHost h1); [|discriminate]. destruct (unescape MZone h2); discriminate.
  - destruct (cut_last c_colon hp) as [[a b]|]; [|congruence].
    destruct (forallb is_digit b); [congruence | discriminate].
Qed.

Theorem accepted_authority_no_backslash u url sch ui h port rest :
  go_parse u = Some url -> u_host url <> [] -> rfc_split u sch ui h port rest ->
  ~ In c_bslash (opt_userinfo ui ++ h ++ opt_port port).
Proof.
  intros Hgo Hhost Hsplit. destruct Hsplit as [sch ui h port rest Hs Hu Hh Hp Hr].
  set (A := opt_userinfo ui ++ h ++ opt_port port).
  assert (HA : forallb not_end A = true).
  { unfold A. rewrite !forallb_app'. rewrite (host_not_end h Hh), (port_not_end port Hp), andb_true_r.
    destruct ui as [s|]; simpl; [|reflexivity]. rewrite forallb_app'. simpl. rewrite andb_true_r.
    exact (Hu s eq_refl). }
  replace (opt_scheme sch ++ [c_slash; c_slash] ++ opt_userinfo ui ++ h ++ opt_port port ++ rest)
    with ((opt_scheme sch ++ [c_slash; c_slash] ++ A) ++ rest) in Hgo
    by (unfold A; rewrite <- !app_assoc; reflexivity).
  assert (Hnh : ~ In c_hash (opt_scheme sch ++ [c_slash; c_slash] ++ A)).
  { intros Hin. apply in_app_or in Hin as [Hin|Hin].
    - destruct sch as [s|]; [|destruct Hin]. revert Hin. apply scheme_no; [exact (Hs s eq_refl) | reflexivity | discriminate].
    - destruct Hin as [Hc|[Hc|Hc]]; try discriminate. revert Hc. apply not_end_no; [exact HA | reflexivity]. }
  unfold go_parse in Hgo. rewrite (cut_app_left c_hash _ rest Hnh) in Hgo.
  pose proof (cut_starts c_hash [c_slash; c_qmark] rest (rest_ok_starts rest Hr)) as Hr0.
  set (rest0 := fst (cut c_hash rest)) in *. clearbody rest0.
  destruct (parse_nofrag ((opt_scheme sch ++ [c_slash; c_slash] ++ A) ++ rest0)) as [u'|] eqn:Epn; [|discriminate].
  assert (u' = url).
  { destruct (snd (cut c_hash rest)) as [[|f0 f]|]; try (inversion Hgo; reflexivity).
    destruct (unescape MFragment (f0 :: f)); [inversion Hgo; reflexivity | discriminate]. }
  subst u'. clear Hgo.
  unfold parse_nofrag in Epn. destruct (has_ctl _); [discriminate|].
  destruct (str_eqb _ [42]) eqn:Estar.
  { apply str_eqb_eq in Estar. apply (f_equal (@length N)) in Estar. rewrite !app_length in Estar. simpl in Estar. lia. }
  assert (Hpa : exists s0, parse_after_scheme s0 ([c_slash; c_slash] ++ A ++ rest0) = Some url).
  { destruct sch as [s|]; cbn [opt_scheme] in Epn.
    - replace ((((s ++ [c_colon]) ++ [c_slash; c_slash] ++ A) ++ rest0))
        with (s ++ c_colon :: ([c_slash; c_slash] ++ A ++ rest0)) in Epn
        by (rewrite <- !app_assoc; reflexivity).
      rewrite (get_scheme_complete s _ (Hs s eq_refl)) in Epn. exists s. exact Epn.
    - cbn [app] in Epn. change (get_scheme (c_slash :: c_slash :: A ++ rest0)) with SNone in Epn.
      exists []. exact Epn. }
  destruct Hpa as [s0 Hpa].
  destruct (parse_after_scheme_authority s0 A rest0 url HA Hr0 Hpa Hhost) as [user Hauth].
  pose proof (parse_authority_host ui h port user (u_host url) Hu Hh Hp Hauth) as Hph.
  pose proof (parse_host_no_bslash _ _ Hph) as Hhp.
  unfold A. intros Hin. apply in_app_or in Hin as [Hin|Hin]; [|exact (Hhp Hin)].
  (* the userinfo part: validUserinfo admits no backslash *)
  destruct ui as [s|]; [|destruct Hin]. cbn [opt_userinfo] in Hin, Hauth.
  apply in_app_or in Hin as [Hin|[Hin|[]]]; [|discriminate Hin].
  unfold A in Hauth. cbn [opt_userinfo] in Hauth.
  unfold parse_authority in Hauth. rewrite <- app_assoc in Hauth. cbn [app] in Hauth.
  assert (Hna : ~ In c_at (h ++ opt_port port)).
  { intros Hc. apply in_app_or in Hc as [Hc|Hc]; [exact (host_no_at h Hh Hc) | exact (port_no_at port Hp Hc)]. }
  rewrite cut_last_app in Hauth by exact Hna. cbv beta iota zeta in Hauth.
  destruct (parse_host (h ++ opt_port port)); [|discriminate].
  destruct (valid_userinfo s) eqn:Ev; [|discriminate].
  unfold valid_userinfo in Ev. rewrite forallb_forall in Ev. specialize (Ev _ Hin). discriminate Ev.
Qed.

(* ================================================================== URL.String() of the authority *)
(* The code redirect is written with URL.String(): scheme "://" [Userinfo.String() "@"] escape(Host).
   Every RFC reading of that text (followed by a path/query/fragment) has Go's Hostname() as host. *)

Lemma hex_digit_ok n : n < 16 -> is_hex (hex_digit n) = true /\ unhex (hex_digit n) = n.
Proof.
  intros H. unfold hex_digit. destruct (N.ltb_spec n 10).
  - unfold is_hex, unhex, is_digit. split; [lia|]. assert (E : (48 <=? 48 + n) && (48 + n <=? 57) = true) by lia.
    rewrite E. lia.
  - unfold is_hex, unhex, is_digit. split; [lia|].
    assert (E1 : (48 <=? 55 + n) && (55 + n <=? 57) = false) by lia.
    assert (E2 : (97 <=? 55 + n) && (55 + n <=? 102) = false) by lia.
    assert (E3 : (65 <=? 55 + n) && (55 + n <=? 70) = true) by lia.
    rewrite E1, E2, E3. lia.
Qed.

Lemma should_escape_pct m : should_escape c_pct m = true.
Proof. destruct m; reflexivity. Qed.

(* unescaping (path mode: no restrictions) an escape output gives the original back *)
Lemma unescape_escape m s : forallb byte_ok s = true -> unescape MPath (escape m s) = Some s.
Proof.
  induction s as [|c s IH]; intros H; [reflexivity|]. cbn [forallb] in H. apply andb_true_iff in H as [Hc Hs].
  unfold escape. cbn [flat_map]. fold (escape m s). unfold escape_byte.
  destruct (should_escape c m) eqn:E.
  - cbn [app]. rewrite unescape_pct, (IH Hs). unfold unescape_pct_body.
    unfold byte_ok in Hc. apply N.ltb_lt in Hc.
    assert (H1 : c / 16 < 16) by (apply N.div_lt_upper_bound; lia).
    assert (H2 : c mod 16 < 16) by (apply N.mod_lt; lia).
    destruct (hex_digit_ok _ H1) as [A1 B1]. destruct (hex_digit_ok _ H2) as [A2 B2].
    rewrite A1, A2, B1, B2. cbn [andb]. cbv zeta.
    replace (c / 16 * 16 + c mod 16) with c by (rewrite (N.div_mod c 16) at 1 by lia; lia).
    reflexivity.
  - cbn [app]. assert (Hne : c <> c_pct) by (intros ->; rewrite should_escape_pct in E; discriminate).
    rewrite unescape_other by exact Hne. cbn [is_hostish andb]. rewrite (IH Hs). reflexivity.
Qed.

Lemma escape_app m a b : escape m (a ++ b) = escape m a ++ escape m b.
Proof. unfold escape. apply flat_map_app. Qed.

Lemma escape_plain m s : forallb (fun c => negb (should_escape c m)) s = true -> escape m s = s.
Proof.
  induction s as [|c s IH]; [reflexivity|]. cbn [forallb]. rewrite andb_true_iff, negb_true_iff. intros [Hc Hs].
  unfold escape. cbn [flat_map]. fold (escape m s). unfold escape_byte. rewrite Hc, (IH Hs). reflexivity.
Qed.

(* a byte that needs no escaping survives literally *)
Lemma escape_raw_in m c s : In c s -> should_escape c m = false -> In c (escape m s).
Proof.
  intros Hin Hc. induction s as [|d s IH]; [destruct Hin|].
  unfold escape. cbn [flat_map]. fold (escape m s). apply in_or_app. destruct Hin as [->|Hin].
  - left. unfold escape_byte. rewrite Hc. left. reflexivity.
  - right. exact (IH Hin).
Qed.

(* the bytes of an escape output: '%', upper-case hex digits, or raw bytes that need no escaping *)
Lemma escape_chars m s c : forallb byte_ok s = true -> In c (escape m s) ->
  c = c_pct \/ is_hex c = true \/ (In c s /\ should_escape c m = false).
Proof.
  induction s as [|d s IH]; intros Hs Hin; [destruct Hin|].
  cbn [forallb] in Hs. apply andb_true_iff in Hs as [Hd Hs].
  unfold escape in Hin. cbn [flat_map] in Hin. fold (escape m s) in Hin.
  apply in_app_or in Hin as [Hin|Hin].
  - unfold escape_byte in Hin. destruct (should_escape d m) eqn:E.
    + unfold byte_ok in Hd. apply N.ltb_lt in Hd.
      assert (H1 : d / 16 < 16) by (apply N.div_lt_upper_bound; lia).
      assert (H2 : d mod 16 < 16) by (apply N.mod_lt; lia).
      destruct Hin as [<-|[<-|[<-|[]]]]; [left; reflexivity | right; left; apply hex_digit_ok; exact H1
                                          | right; left; apply hex_digit_ok; exact H2].
    + destruct Hin as [<-|[]]. right. right. split; [left; reflexivity | exact E].
  - destruct (IH Hs Hin) as [G|[G|[G1 G2]]]; auto. right. right. split; [right; exact G1 | exact G2].
Qed.

Definition auth_delim (c : N) : bool := is_auth_end c || N.eqb c c_at.

Lemma escape_no_delim m s : (m = MHost \/ m = MUser) -> forallb byte_ok s = true ->
  forallb (fun c => negb (auth_delim c)) (escape m s) = true.
Proof.
  intros Hm Hs. apply forallb_forall. intros c Hin. apply negb_true_iff.
  destruct (auth_delim c) eqn:E; [|reflexivity]. exfalso.
  assert (Hc : c = c_slash \/ c = c_qmark \/ c = c_hash \/ c = c_at).
  { unfold auth_delim, is_auth_end in E. rewrite !orb_true_iff, !N.eqb_eq in E. tauto. }
  destruct (escape_chars m s c Hs Hin) as [G|[G|[_ G]]].
  - destruct Hc as [->|[->|[->| ->]]]; discriminate G.
  - destruct Hc as [->|[->|[->| ->]]]; discriminate G.
  - destruct Hm as [->| ->]; destruct Hc as [->|[->|[->| ->]]]; discriminate G.
Qed.

(* core: an RFC host[:port] reading of escape(Host) names Go's Hostname() *)
Lemma escaped_host_name H h p :
  forallb byte_ok H = true -> escape MHost H = h ++ opt_port p ->
  host_ok h -> (forall x, p = Some x -> port_ok x) ->
  fst (split_host_port H) = rfc_hostname h.
Proof.
  intros Hb E Hh Hp. pose proof (unescape_escape MHost H Hb) as U. rewrite E in U.
  assert (Hpl : forall x, forallb is_digit x = true -> forallb (plain_in MPath) x = true).
  { intros x. apply forallb_impl. intros c Hc. unfold plain_in. cbn [is_hostish andb negb]. rewrite andb_true_r.
    apply negb_true_iff, N.eqb_neq. unfold is_digit in Hc. unfold c_pct. lia. }
  unfold rfc_hostname. destruct Hh as [Hreg | [b [-> Hbk]]].
  - (* reg-name *)
    assert (Hnl : ~ In c_lbr h) by (apply (forallb_notin _ _ _ Hreg); reflexivity).
    assert (Hnc : ~ In c_colon h) by (apply (forallb_notin _ _ _ Hreg); reflexivity).
    rewrite (strip_brackets_no_lbr h Hnl).
    destruct p as [x|]; cbn [opt_port] in *.
    + destruct (unescape_split MPath h c_colon x H U) as [tx [ty [Hx [Hy ->]]]]; [reflexivity | discriminate|].
      rewrite unescape_plain in Hy by (cbn [forallb]; rewrite (Hpl x (Hp x eq_refl)); reflexivity).
      inversion Hy; subst ty. rewrite <- (unescape_decode _ _ _ Hx).
      (* h is the escape of tx, so tx has no raw colon or bracket *)
      rewrite escape_app in E.
      assert (Ex : escape MHost (c_colon :: x) = c_colon :: x).
      { apply escape_plain. cbn [forallb]. apply andb_true_iff. split; [reflexivity|].
        generalize (Hp x eq_refl). apply forallb_impl. intros c Hc. apply negb_true_iff.
        unfold should_escape, is_alnum. assert (Ed : is_alpha c || is_digit c = true) by (rewrite Hc; apply orb_true_r).
        rewrite Ed. reflexivity. }
      rewrite Ex in E. apply app_inv_tail in E.
      apply (hostname_regname tx (Some x)); [| |exact Hp].
      * intros Hin. apply Hnc. rewrite <- E. apply escape_raw_in; [exact Hin | reflexivity].
      * intros Hin. apply Hnl. rewrite <- E. apply escape_raw_in; [exact Hin | reflexivity].
    + rewrite app_nil_r in U, E. rewrite <- (unescape_decode _ _ _ U).
      pose proof (hostname_regname H None) as G. cbn [opt_port] in G. rewrite app_nil_r in G. apply G; [| |discriminate].
      * intros Hin. apply Hnc. rewrite <- E. apply escape_raw_in; [exact Hin | reflexivity].
      * intros Hin. apply Hnl. rewrite <- E. apply escape_raw_in; [exact Hin | reflexivity].
  - (* IP-literal *)
    rewrite strip_brackets_bracketed.
    replace ((c_lbr :: b ++ [c_rbr]) ++ opt_port p) with ((c_lbr :: b) ++ c_rbr :: opt_port p) in U
      by (simpl; rewrite <- app_assoc; reflexivity).
    destruct (unescape_split MPath (c_lbr :: b) c_rbr (opt_port p) H U) as [tx [ty [Hx [Hy ->]]]]; [reflexivity | discriminate|].
    assert (Hv := opt_port_valid p Hp).
    assert (Hty : ty = c_rbr :: opt_port p).
    { rewrite unescape_plain in Hy; [inversion Hy; reflexivity|]. cbn [forallb]. apply andb_true_iff. split; [reflexivity|].
      destruct p as [x|]; [|reflexivity]. cbn [opt_port forallb]. apply andb_true_iff. split; [reflexivity|].
      apply Hpl. exact (Hp x eq_refl). }
    subst ty. destruct (unescape_cons_plain MPath c_lbr b tx) as [tb [Htb ->]]; [reflexivity | exact Hx|].
    rewrite <- (unescape_decode _ _ _ Htb). apply hostname_bracket. exact Hv.
Qed.

Lemma userinfo_string_no_delim ui :
  forallb byte_ok (ui_name ui) = true ->
  (forall p, ui_pass ui = Some p -> forallb byte_ok p = true) ->
  forallb (fun c => negb (auth_delim c)) (userinfo_string ui) = true.
Proof.
  intros Hn Hp. unfold userinfo_string. rewrite forallb_app'.
  rewrite (escape_no_delim MUser _ (or_intror eq_refl) Hn). cbn [andb].
  destruct (ui_pass ui) as [p|]; [|reflexivity]. cbn [forallb].
  rewrite (escape_no_delim MUser _ (or_intror eq_refl) (Hp p eq_refl)). reflexivity.
Qed.

Lemma no_delim_not_end s : forallb (fun c => negb (auth_delim c)) s = true -> forallb not_end s = true.
Proof.
  apply forallb_impl. intros c. unfold auth_delim, not_end. rewrite !negb_true_iff, orb_false_iff. tauto.
Qed.

Lemma no_delim_no_at s : forallb (fun c => negb (auth_delim c)) s = true -> ~ In c_at s.
Proof. intros H. apply (forallb_notin _ _ _ H). reflexivity. Qed.

Theorem string_authority_host sch u tail s' ui' h' p' r' :
  (sch = [] \/ scheme_ok sch) ->
  forallb byte_ok (u_host u) = true ->
  (forall ui, u_user u = Some ui ->
     forallb byte_ok (ui_name ui) = true /\ (forall p, ui_pass ui = Some p -> forallb byte_ok p = true)) ->
  rest_ok tail ->
  rfc_split (authority_string sch u ++ tail) s' ui' h' p' r' ->
  rfc_hostname h' = hostname u.
Proof.
  intros Hsch Hb Hub Htail Hsplit. apply rfc_read_complete in Hsplit.
  set (UI := match u_user u with Some ui => userinfo_string ui ++ [c_at] | None => [] end).
  set (E := escape MHost (u_host u)).
  assert (HE : forallb (fun c => negb (auth_delim c)) E = true)
    by (apply escape_no_delim; [left; reflexivity | exact Hb]).
  assert (Hloc : authority_string sch u ++ tail =
                 (if is_nil sch then [] else sch ++ [c_colon]) ++ [c_slash; c_slash] ++ (UI ++ E) ++ tail).
  { unfold authority_string. fold UI. fold E. rewrite <- !app_assoc. reflexivity. }
  rewrite Hloc in Hsplit. unfold rfc_read in Hsplit.
  assert (E1 : split_scheme ((if is_nil sch then [] else sch ++ [c_colon]) ++ [c_slash; c_slash] ++ (UI ++ E) ++ tail)
               = (if is_nil sch then None else Some sch, [c_slash; c_slash] ++ (UI ++ E) ++ tail)).
  { destruct Hsch as [->|Hok].
    - reflexivity.
    - destruct sch as [|c sch]; [destruct Hok|]. cbn [is_nil]. rewrite <- app_assoc. cbn [app].
      exact (split_scheme_complete (c :: sch) _ Hok). }
  rewrite E1 in Hsplit. rewrite has_prefix_app in Hsplit.
  change (skipn 2 ([c_slash; c_slash] ++ (UI ++ E) ++ tail)) with ((UI ++ E) ++ tail) in Hsplit.
  assert (HUI : forallb not_end UI = true /\
                match cut_last c_at (UI ++ E) with Some (a, b) => b = E | None => UI = [] end).
  { unfold UI. destruct (u_user u) as [ui|] eqn:Eu.
    - destruct (Hub ui eq_refl) as [Hn Hp]. pose proof (userinfo_string_no_delim ui Hn Hp) as Hd. split.
      + rewrite forallb_app'. rewrite (no_delim_not_end _ Hd). reflexivity.
      + rewrite <- app_assoc. cbn [app]. rewrite cut_last_app by (apply no_delim_no_at; exact HE). reflexivity.
    - split; [reflexivity|]. cbn [app]. rewrite cut_last_notin by (apply no_delim_no_at; exact HE). reflexivity. }
  destruct HUI as [HUI1 HUI2].
  rewrite span_authority_app in Hsplit; [| |exact Htail].
  2:{ rewrite forallb_app', HUI1, (no_delim_not_end _ HE). reflexivity. }
  assert (Hhp : read_hostport E = Some (h', p')).
  { destruct (cut_last c_at (UI ++ E)) as [[a b]|].
    - subst b. destruct (read_hostport E) as [[hh pp]|]; [|discriminate]. inversion Hsplit; reflexivity.
    - subst UI. rewrite HUI2 in Hsplit. cbn [app] in Hsplit.
      destruct (read_hostport E) as [[hh pp]|]; [|discriminate]. inversion Hsplit; reflexivity. }
  destruct (read_hostport_sound _ _ _ Hhp) as [HEq [Hh Hp]].
  unfold hostname. symmetry. exact (escaped_host_name (u_host u) h' p' Hb HEq Hh Hp).
Qed.

(* ================================================================== bytes stay bytes *)
Lemma unhex_lt c : is_hex c = true -> unhex c < 16.
Proof.
  unfold is_hex, unhex, is_digit. intros H.
  destruct ((48 <=? c) && (c <=? 57)) eqn:A1; [lia|]. destruct ((97 <=? c) && (c <=? 102)) eqn:A2; [lia|].
  destruct ((65 <=? c) && (c <=? 70)) eqn:A3; lia.
Qed.

Lemma unescape_bytes m s : forall t, unescape m s = Some t -> forallb byte_ok s = true -> forallb byte_ok t = true.
Proof.
  induction s as [s IH] using str_strong_ind. intros t H Hb.
  destruct s as [|c s]; [inversion H; reflexivity|].
  cbn [forallb] in Hb. apply andb_true_iff in Hb as [Hc Hs].
  destruct (N.eq_dec c c_pct) as [->|Hne].
  - destruct s as [|h1 [|h2 s]]; [discriminate | discriminate|].
    rewrite unescape_pct in H. apply unescape_pct_body_some in H as [Hh [t' [Ht ->]]].
    cbn [forallb] in Hs. apply andb_true_iff in Hs as [_ Hs]. apply andb_true_iff in Hs as [_ Hs].
    cbn [forallb]. rewrite (IH s) with (t := t'); [|simpl; lia | exact Ht | exact Hs].
    apply andb_true_iff in Hh as [H1 H2]. apply unhex_lt in H1, H2. unfold byte_ok. rewrite andb_true_r. lia.
  - rewrite unescape_other in H by exact Hne.
    destruct (is_hostish m && (c <? 128) && should_escape c m); [discriminate|].
    destruct (unescape m s) as [t'|] eqn:E; [|discriminate]. inversion H; subst.
    cbn [forallb]. rewrite Hc, (IH s) with (t := t'); [reflexivity | simpl; lia | exact E | exact Hs].
Qed.

Lemma bytes_app_l a b : forallb byte_ok (a ++ b) = true -> forallb byte_ok a = true.
Proof. rewrite forallb_app', andb_true_iff. tauto. Qed.
Lemma bytes_app_r a b : forallb byte_ok (a ++ b) = true -> forallb byte_ok b = true.
Proof. rewrite forallb_app', andb_true_iff. tauto. Qed.
Lemma bytes_cons_r c b : forallb byte_ok (c :: b) = true -> forallb byte_ok b = true.
Proof. cbn [forallb]. rewrite andb_true_iff. tauto. Qed.

Lemma parse_host_bytes hp host : parse_host hp = Some host -> forallb byte_ok hp = true -> forallb byte_ok host = true.
Proof.
  intros H Hb. unfold parse_host in H. destruct (has_prefix hp [c_lbr]).
  - destruct (cut_last c_rbr hp) as [[before cp]|] eqn:E; [|discriminate].
    destruct (negb (valid_optional_port cp)); [discriminate|].
    apply cut_last_some in E as [E _].
    destruct (index_pct25 before) as [[h1 h2]|] eqn:Ez; [|exact (unescape_bytes _ _ _ H Hb)].
    apply index_pct25_spec in Ez. subst before. subst hp.
    destruct (unescape MHost h1) as [a|] eqn:E1; [|discriminate].
    destruct (unescape MZone h2) as [b|] eqn:E2; [|discriminate].
    destruct (unescape MHost (c_rbr :: cp)) as [c|] eqn:E3; [|discriminate]. inversion H; subst host.
    rewrite !forallb_app'.
    rewrite (unescape_bytes _ _ _ E1 (bytes_app_l _ _ (bytes_app_l _ _ Hb))).
    rewrite (unescape_bytes _ _ _ E2 (bytes_app_r _ _ (bytes_app_l _ _ Hb))).
    rewrite (unescape_bytes _ _ _ E3 (bytes_app_r _ _ Hb)). reflexivity.
  - destruct (cut_last c_colon hp) as [[a b]|]; [|exact (unescape_bytes _ _ _ H Hb)].
    destruct (forallb is_digit b); [exact (unescape_bytes _ _ _ H Hb) | discriminate].
Qed.

Definition user_bytes (o : option userinfo) : Prop :=
  forall ui, o = Some ui ->
    forallb byte_ok (ui_name ui) = true /\ (forall p, ui_pass ui = Some p -> forallb byte_ok p = true).

Lemma parse_authority_bytes a user host :
  parse_authority a = Some (user, host) -> forallb byte_ok a = true ->
  forallb byte_ok host = true /\ user_bytes user.
Proof.
  intros H Hb. unfold parse_authority in H.
  destruct (cut_last c_at a) as [[x y]|] eqn:E.
  - apply cut_last_some in E as [-> _]. cbv beta iota zeta in H.
    destruct (parse_host y) as [host'|] eqn:Eh; [|discriminate].
    pose proof (parse_host_bytes _ _ Eh (bytes_cons_r _ _ (bytes_app_r _ _ Hb))) as Hh.
    pose proof (bytes_app_l _ _ Hb) as Hx.
    destruct (negb (valid_userinfo x)); [discriminate|].
    destruct (cut c_colon x) as [n [p|]] eqn:Ec.
    + apply cut_some in Ec as [-> _].
      destruct (unescape MUser n) as [n'|] eqn:En; [|discriminate].
      destruct (unescape MUser p) as [p'|] eqn:Ep; [|discriminate]. inversion H; subst.
      split; [exact Hh|]. intros ui Hui. inversion Hui; subst. cbn [ui_name ui_pass]. split.
      * exact (unescape_bytes _ _ _ En (bytes_app_l _ _ Hx)).
      * intros p0 Hp0. inversion Hp0; subst. exact (unescape_bytes _ _ _ Ep (bytes_cons_r _ _ (bytes_app_r _ _ Hx))).
    + destruct (unescape MUser x) as [n'|] eqn:En; [|discriminate]. inversion H; subst.
      split; [exact Hh|]. intros ui Hui. inversion Hui; subst. cbn [ui_name ui_pass]. split.
      * exact (unescape_bytes _ _ _ En Hx).
      * discriminate.
  - cbv beta iota zeta in H. destruct (parse_host a) as [host'|] eqn:Eh; [|discriminate]. inversion H; subst.
    split; [exact (parse_host_bytes _ _ Eh Hb) | intros ui Hui; discriminate Hui].
Qed.

Lemma cut_fst_bytes sep s : forallb byte_ok s = true -> forallb byte_ok (fst (cut sep s)) = true.
Proof.
  intros Hb. destruct (cut sep s) as [a [b|]] eqn:E.
  - apply cut_some in E as [-> _]. exact (bytes_app_l _ _ Hb).
  - apply cut_none in E as [-> _]. exact Hb.
Qed.

Lemma skipn_bytes n s : forallb byte_ok s = true -> forallb byte_ok (skipn n s) = true.
Proof.
  intros Hb. rewrite <- (firstn_skipn n s) in Hb. exact (bytes_app_r _ _ Hb).
Qed.

Lemma no_host_bytes sch o : forallb byte_ok (u_host (no_host sch o)) = true /\ user_bytes (u_user (no_host sch o)).
Proof. split; [reflexivity | intros ui H; discriminate H]. Qed.

Lemma parse_after_scheme_bytes s0 r u :
  parse_after_scheme s0 r = Some u -> forallb byte_ok r = true ->
  forallb byte_ok (u_host u) = true /\ user_bytes (u_user u).
Proof.
  intros H Hb. unfold parse_after_scheme in H.
  pose proof (cut_fst_bytes c_qmark r Hb) as Hr. set (rest := fst (cut c_qmark r)) in *. clearbody rest.
  destruct (negb (has_prefix rest [c_slash]) && negb (is_nil (lower_ascii s0))); [inversion H; apply no_host_bytes|].
  destruct (negb (has_prefix rest [c_slash]) && mem_byte c_colon (fst (cut c_slash rest))); [discriminate|].
  destruct ((negb (is_nil (lower_ascii s0)) || negb (has_prefix rest [c_slash; c_slash; c_slash])) && has_prefix rest [c_slash; c_slash]).
  - unfold parse_with_authority in H.
    pose proof (cut_fst_bytes c_slash _ (skipn_bytes 2 rest Hr)) as Ha.
    destruct (cut c_slash (skipn 2 rest)) as [authority after]. cbn [fst] in Ha.
    destruct (parse_authority authority) as [[user host]|] eqn:Ep; [|discriminate].
    destruct (unescape MPath _); [|discriminate]. inversion H; subst. cbn [u_host u_user].
    exact (parse_authority_bytes _ _ _ Ep Ha).
  - destruct (unescape MPath rest); [|discriminate]. inversion H. apply no_host_bytes.
Qed.

Lemma get_scheme_from_rest b s sch r : get_scheme_from b s = SSome sch r -> exists pre, s = pre ++ r.
Proof.
  revert b sch. induction s as [|c s IH]; intros b sch H; [discriminate|].
  unfold get_scheme_from in H; fold get_scheme_from in H.
  destruct (is_alpha c).
  - destruct (get_scheme_from false s) as [| |sch' r'] eqn:E; try discriminate. inversion H; subst.
    destruct (IH _ _ E) as [pre ->]. exists (c :: pre). reflexivity.
  - destruct (is_digit c || N.eqb c 43 || N.eqb c 45 || N.eqb c 46).
    + destruct b; [discriminate|].
      destruct (get_scheme_from false s) as [| |sch' r'] eqn:E; try discriminate. inversion H; subst.
      destruct (IH _ _ E) as [pre ->]. exists (c :: pre). reflexivity.
    + destruct (N.eqb c c_colon); [|discriminate]. destruct b; [discriminate|]. inversion H; subst.
      exists [c]. reflexivity.
Qed.

Theorem go_parse_bytes src u :
  go_parse src = Some u -> forallb byte_ok src = true ->
  forallb byte_ok (u_host u) = true /\ user_bytes (u_user u).
Proof.
  intros H Hb. unfold go_parse in H.
  pose proof (cut_fst_bytes c_hash src Hb) as H0. destruct (cut c_hash src) as [u0 frag]. cbn [fst] in H0.
  destruct (parse_nofrag u0) as [u'|] eqn:Ep; [|discriminate].
  assert (u' = u).
  { destruct frag as [[|f0 f]|]; try (inversion H; reflexivity).
    destruct (unescape MFragment (f0 :: f)); [inversion H; reflexivity | discriminate]. }
  subst u'. clear H. unfold parse_nofrag in Ep. destruct (has_ctl u0); [discriminate|].
  destruct (str_eqb u0 [42]); [inversion Ep; apply no_host_bytes|].
  destruct (get_scheme u0) as [| |sch r] eqn:Eg; [discriminate | exact (parse_after_scheme_bytes _ _ _ Ep H0)|].
  destruct (get_scheme_from_rest _ _ _ _ Eg) as [pre ->].
  exact (parse_after_scheme_bytes _ _ _ Ep (bytes_app_r _ _ H0)).
Qed.

(* ================================================================== String() output is ASCII *)
Lemma should_escape_high c m : 128 <= c -> should_escape c m = true.
Proof.
  intros H. unfold should_escape.
  assert (E1 : is_alnum c = false) by (unfold is_alnum, is_alpha, is_upper, is_lower, is_digit; lia). rewrite E1.
  assert (E2 : forall l, forallb (fun x => x <? 128) l = true -> mem_byte c l = false).
  { intros l Hl. unfold mem_byte. destruct (existsb (N.eqb c) l) eqn:E; [|reflexivity].
    apply existsb_exists in E as [x [Hx Hc]]. apply N.eqb_eq in Hc. subst x.
    rewrite forallb_forall in Hl. specialize (Hl c Hx). lia. }
  rewrite !E2 by reflexivity. rewrite andb_false_r. destruct m; reflexivity.
Qed.


Lemma escape_ascii m s : forallb byte_ok s = true -> forallb ascii (escape m s) = true.
Proof.
  intros Hs. apply forallb_forall. intros c Hin. unfold ascii.
  destruct (escape_chars m s c Hs Hin) as [->|[G|[_ G]]].
  - reflexivity.
  - unfold is_hex, is_digit in G. lia.
  - destruct (N.ltb_spec c 128) as [|Hge]; [reflexivity|]. rewrite (should_escape_high c m Hge) in G. discriminate.
Qed.

Lemma hex_escape_id s : forallb ascii s = true -> hex_escape_non_ascii s = s.
Proof.
  induction s as [|c s IH]; [reflexivity|]. cbn [forallb]. rewrite andb_true_iff. intros [Hc Hs].
  unfold hex_escape_non_ascii in *. cbn [flat_map]. unfold ascii in Hc. rewrite Hc, (IH Hs). reflexivity.
Qed.

Lemma authority_string_ascii sch u :
  forallb ascii sch = true -> forallb byte_ok (u_host u) = true -> user_bytes (u_user u) ->
  forallb ascii (authority_string sch u) = true.
Proof.
  intros Hs Hh Hu. unfold authority_string. rewrite !forallb_app'.
  rewrite (escape_ascii MHost _ Hh), andb_true_r. cbn [forallb]. cbn [andb].
  assert (A : forallb ascii (if is_nil sch then [] else sch ++ [c_colon]) = true).
  { destruct sch; [reflexivity|]. cbn [is_nil]. rewrite forallb_app', Hs. reflexivity. }
  rewrite A. cbn [andb]. change (ascii c_slash) with true. cbn [andb].
  destruct (u_user u) as [ui|] eqn:E; [|reflexivity].
  destruct (Hu ui eq_refl) as [Hn Hp]. rewrite forallb_app'. cbn [forallb]. rewrite andb_true_r.
  unfold userinfo_string. rewrite forallb_app', (escape_ascii MUser _ Hn). cbn [andb].
  destruct (ui_pass ui) as [p|]; [|reflexivity]. cbn [forallb]. rewrite (escape_ascii MUser _ (Hp p eq_refl)). reflexivity.
Qed.
