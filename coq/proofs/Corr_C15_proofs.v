(* The monitor of Corr_C15 (the property written as a checker of observed traces) accepts the
   trace of the model for EVERY event list and every parameter choice. Because the monitor
   re-derives state, epoch, in-flight calls, consecutive counters and deadline from observations
   alone, this is the statement that the model's traces satisfy the property as the check applies
   it to the implementation. *)
From V Require Import Base CorrBase Breaker Breaker_proofs Corr_C15.
From Coq Require Import ZifyBool ZifyNat Lia.
Open Scope Z_scope.

Lemma cap_of_half_open_max p : cap_of p = half_open_max (p_hom p).
Proof. unfold cap_of, half_open_max. destruct (0 <? p_hom p) eqn:E; lia. Qed.

(* what the monitor knows is what the model holds (its failure counter only while closed) *)
Record Sim (m : mon) (b : breaker) : Prop := mkSim {
  sim_st : m_st m = st b;
  sim_epoch : m_epoch m = gen b;
  sim_infl : m_infl m = inflight b;
  sim_succ : m_succ m = succ (cnt b);
  sim_fail : st b = Closed -> m_fail m = fail (cnt b);
  sim_deadline : m_deadline m = expires b;
  sim_now : m_now m = now b
}.

Lemma Sim_init hom : Sim mon_init (init) /\ Inv hom init.
Proof. split; [constructor; reflexivity | apply Inv_init]. Qed.

Ltac msimp :=
  cbn [m_st m_epoch m_infl m_succ m_fail m_deadline m_now mon_admit
       st gen cnt cur succ fail expires now inflight o_adm o_ran o_hooks
       c_on_request c_after_request c_on_success c_on_failure c_clear with_cnt with_inflight
       fst snd bstate_eqb negb bool_eqb Bool.eqb is_nil vis filter is_rule app] in *.

Section P.
Variable p : params.
Notation mstep := (step (trip_of p) (reset_of p) (backoff_of p) (p_hom p)).

(* the completion of a call in flight, with whatever hooks [tl] follow it *)
Lemma mon_finish_k_accepts m b i ok g0 tl :
  Sim m b -> Inv (p_hom p) b -> nth_error (inflight b) i = Some g0 ->
  exists m', mon_finish_k p m i ok (vis (o_hooks (snd (mstep b (Finish i ok)))) ++ tl) = Some (m', tl) /\
             Sim m' (fst (mstep b (Finish i ok))).
Proof.
  intros [S1 S2 S3 S4 S5 S6 S7] [Hc Hle Ho Hh Hs Hn] En.
  destruct m as [ms me mi msu mfa md mn]. destruct b as [s g [c su fa] ex nw infl].
  msimp. subst ms me mi msu md mn.
  unfold mon_finish_k, mon_clock. unf. msimp. rewrite En. msimp.
  pose proof (remove_nth_length infl i g0 En) as Hlen.
  assert (Hc1 : c - 1 = Z.of_nat (length (remove_nth i infl))) by lia.
  destruct s; msimp.
  + (* closed *)
    destruct (Nat.eqb g0 g) eqn:Eg; msimp.
    2:{ eexists; split; [reflexivity|]. constructor; msimp; auto. }
    destruct ok; msimp.
    * eexists; split; [reflexivity|]. constructor; msimp; auto.
    * rewrite <- Hc1, (S5 eq_refl).
      destruct (trip_of p {| cur := c - 1; succ := 0; fail := fa + 1 |}) eqn:Et; msimp.
      -- rewrite Z.eqb_refl. eexists; split; [reflexivity|]. constructor; msimp; auto; discriminate.
      -- eexists; split; [reflexivity|]. constructor; msimp; auto.
  + (* half-open *)
    destruct (Nat.eqb g0 g) eqn:Eg; msimp.
    2:{ eexists; split; [reflexivity|]. constructor; msimp; auto; discriminate. }
    destruct ok; msimp.
    * rewrite <- Hc1.
      destruct (reset_of p {| cur := c - 1; succ := su + 1; fail := 0 |}) eqn:Er; msimp.
      -- eexists; split; [reflexivity|]. constructor; msimp; auto.
      -- eexists; split; [reflexivity|]. constructor; msimp; auto; discriminate.
    * rewrite Z.eqb_refl. eexists; split; [reflexivity|]. constructor; msimp; auto; discriminate.
  + (* open: every call in flight is older than the current generation *)
    pose proof (nth_error_Forall _ _ _ _ (Ho eq_refl) En) as Hg0. cbn beta in Hg0.
    destruct (ex <? nw) eqn:E; msimp.
    * assert (Eg : Nat.eqb g0 (S g) = false) by (apply Nat.eqb_neq; lia).
      rewrite ?Eg. msimp. rewrite ?Eg. msimp.
      eexists; split; [reflexivity|]. constructor; msimp; auto; discriminate.
    * assert (Eg : Nat.eqb g0 g = false) by (apply Nat.eqb_neq; lia).
      rewrite ?Eg. msimp. rewrite ?Eg. msimp.
      eexists; split; [reflexivity|]. constructor; msimp; auto.
Qed.

(* a start, with its verdict and hooks *)
Lemma mon_start_accepts m b :
  Sim m b -> Inv (p_hom p) b ->
  exists m', mon_start p m (snd (mstep b Start)) = Some m' /\ Sim m' (fst (mstep b Start)).
Proof.
  intros [S1 S2 S3 S4 S5 S6 S7] [Hc Hle Ho Hh Hs Hn].
  pose proof (cap_of_half_open_max p) as Hcap.
  destruct m as [ms me mi msu mfa md mn]. destruct b as [s g [c su fa] ex nw infl].
  msimp. subst ms me mi msu md mn.
  unfold mon_start, mon_clock. unf. msimp.
  destruct s; msimp.
  + eexists; split; [reflexivity|]. constructor; msimp; auto.
  + destruct (half_open_max (p_hom p) <=? c) eqn:E; msimp.
    * rewrite Hcap. destruct (half_open_max (p_hom p) <=? Z.of_nat (length infl)) eqn:E2; [|lia].
      eexists; split; [reflexivity|]. constructor; msimp; auto.
    * rewrite Hcap. pose proof (count_gen_le_length g infl).
      destruct (Z.of_nat (count_gen g infl) + 1 <=? half_open_max (p_hom p)) eqn:E2; [|lia].
      eexists; split; [reflexivity|]. constructor; msimp; auto.
  + destruct (ex <? nw) eqn:E; msimp.
    * destruct (half_open_max (p_hom p) <=? c) eqn:E1; msimp.
      -- rewrite Hcap. destruct (half_open_max (p_hom p) <=? Z.of_nat (length infl)) eqn:E2; [|lia].
         eexists; split; [reflexivity|]. constructor; msimp; auto; discriminate.
      -- rewrite Hcap. pose proof (count_gen_le_length (S g) infl).
         destruct (Z.of_nat (count_gen (S g) infl) + 1 <=? half_open_max (p_hom p)) eqn:E2; [|lia].
         eexists; split; [reflexivity|]. constructor; msimp; auto; discriminate.
    * eexists; split; [reflexivity|]. constructor; msimp; auto.
Qed.

Lemma mon_step_accepts m b e :
  Sim m b -> Inv (p_hom p) b ->
  exists m', mon_step p m e (snd (mstep b e)) = Some m' /\ Sim m' (fst (mstep b e)).
Proof.
  intros HS HI. destruct e as [|i ok|dt]; unfold mon_step.
  - apply mon_start_accepts; assumption.
  - destruct (nth_error (inflight b) i) as [g0|] eqn:En.
    + destruct (mon_finish_k_accepts m b i ok g0 [] HS HI En) as [m' [E S']].
      rewrite app_nil_r in E. exists m'. split; [|exact S'].
      unfold mon_finish. rewrite (sim_infl _ _ HS), En.
      assert (Ho : o_adm (snd (mstep b (Finish i ok))) = None /\ o_ran (snd (mstep b (Finish i ok))) = false).
      { unfold step. rewrite En. destruct (after_request _ _ _ _ _ _); simpl; auto. }
      destruct Ho as [-> ->]. rewrite E. reflexivity.
    + exists m. unfold mon_finish, step. rewrite (sim_infl _ _ HS), En. simpl. split; [reflexivity | exact HS].
  - destruct HS as [S1 S2 S3 S4 S5 S6 S7].
    destruct m as [ms me mi msu mfa md mn]. destruct b as [s g [c su fa] ex nw infl].
    msimp. subst ms me mi msu md mn.
    unfold mon_tick. unf. msimp.
    eexists; split; [reflexivity|]. constructor; msimp; auto.
Qed.

Lemma mon_run_accepts evs : forall m b, Sim m b -> Inv (p_hom p) b ->
  exists m', mon_run p m evs (trace_from (trip_of p) (reset_of p) (backoff_of p) (p_hom p) b evs) = Some m' /\
             Sim m' (exec_from (trip_of p) (reset_of p) (backoff_of p) (p_hom p) b evs).
Proof.
  induction evs as [|e evs IH]; intros m b HS HI.
  - exists m. split; [reflexivity | exact HS].
  - destruct (mon_step_accepts m b e HS HI) as [m1 [E1 S1]].
    pose proof (step_Inv (trip_of p) (reset_of p) (backoff_of p) (p_hom p) b e HI) as HI1. unfold step_st in HI1.
    unfold exec_from. simpl. unfold step_st at 2.
    destruct (mstep b e) as [b1 o] eqn:Es. msimp. rewrite E1.
    exact (IH m1 b1 S1 HI1).
Qed.

(* the theorem: the property monitor accepts the model's trace of every interleaving *)
Theorem monitor_accepts_model evs :
  holds p evs (model_trace p evs) (length (inflight (model_final p evs))) = true.
Proof.
  unfold holds, model_trace, model_final, trace, exec.
  destruct (Sim_init (p_hom p)) as [HS HI].
  destruct (mon_run_accepts evs mon_init init HS HI) as [m [E S]].
  rewrite E. rewrite (sim_infl _ _ S). apply Nat.eqb_refl.
Qed.

End P.

(* consequently a case on which model and implementation agree is judged 0 *)
Lemma list_eqb_obs_eq a b : list_eqb obs_eqb a b = true -> a = b.
Proof.
  assert (Hb : forall x y, bstate_eqb x y = true -> x = y) by (intros [] []; simpl; congruence).
  assert (Hk : forall x y, rule_kind_eqb x y = true -> x = y) by (intros [] []; simpl; congruence).
  assert (Hc : forall x y, counts_eqb x y = true -> x = y).
  { intros [a1 a2 a3] [b1 b2 b3]; unfold counts_eqb; simpl. intros H.
    apply andb_true_iff in H as [H H3]. apply andb_true_iff in H as [H1 H2].
    apply Z.eqb_eq in H1, H2, H3. congruence. }
  assert (Hh : forall x y, hook_eqb x y = true -> x = y).
  { intros [k c|p1 t1|d r] [k' c'|p2 t2|d' r']; simpl; try discriminate; intros H;
      apply andb_true_iff in H as [H1 H2].
    - apply Hk in H1. apply Hc in H2. congruence.
    - apply Hb in H1, H2. congruence.
    - apply Z.eqb_eq in H1, H2. congruence. }
  assert (Hl : forall x y, list_eqb hook_eqb x y = true -> x = y).
  { induction x as [|h x IH]; intros [|h' y]; simpl; try discriminate; [reflexivity|].
    intros H. apply andb_true_iff in H as [H1 H2]. apply Hh in H1. apply IH in H2. congruence. }
  assert (Ho : forall x y, obs_eqb x y = true -> x = y).
  { intros [a1 r1 h1] [a2 r2 h2]. unfold obs_eqb; simpl. intros H.
    apply andb_true_iff in H as [H H3]. apply andb_true_iff in H as [H1 H2].
    apply Hl in H3. unfold bool_eqb in H2. apply Bool.eqb_prop in H2.
    destruct a1 as [[]|], a2 as [[]|]; simpl in H1; try discriminate; congruence. }
  revert b; induction a as [|x a IH]; intros [|y b]; simpl; try discriminate; [reflexivity|].
  intros H. apply andb_true_iff in H as [H1 H2]. apply Ho in H1. apply IH in H2. congruence.
Qed.

Theorem judge_agree_is_fine c :
  list_eqb obs_eqb (model_trace (c_par c) (c_evs c)) (c_obs c) = true ->
  Nat.eqb (length (inflight (model_final (c_par c) (c_evs c)))) (c_blocked c) = true ->
  judge c = 0%N.
Proof.
  intros H1 H2. unfold judge. rewrite H1, H2. simpl.
  apply list_eqb_obs_eq in H1. apply Nat.eqb_eq in H2. rewrite <- H1, <- H2.
  rewrite monitor_accepts_model. reflexivity.
Qed.

(* ---------- the monitor is not vacuous: it rejects traces that break a clause ---------- *)
Definition ex_p : params := mkpar 2 2 5 3 1 1 2.   (* fail >= 2, succ >= 2, back-off 5+3f+s+c, cap 2 *)
Definition ex_trip_evs (dt : Z) : list event := [Start; Finish 0 false; Start; Finish 0 false; Tick dt; Start].

(* half-open announced AT the deadline (model trace of "one unit later" presented for "at") *)
Example monitor_rejects_early_half_open :
  holds ex_p (ex_trip_evs 5) (model_trace ex_p (ex_trip_evs 6)) 1 = false /\
  holds ex_p (ex_trip_evs 6) (model_trace ex_p (ex_trip_evs 6)) 1 = true.
Proof. vm_compute. auto. Qed.

(* an open breaker that lets a call through *)
Example monitor_rejects_admission_while_open :
  holds ex_p [Start; Finish 0 false; Start; Finish 0 false; Start]
    (model_trace ex_p [Start; Finish 0 false; Start; Finish 0 false] ++ [mkobs (Some true) true []]) 1 = false.
Proof. vm_compute. reflexivity. Qed.

(* a failure admitted before the trip re-opens the half-open breaker *)
Definition ex_stale_evs : list event :=
  [Start; Start; Start; Finish 0 false; Finish 0 false; Tick 8; Start; Finish 0 false].
Example monitor_rejects_stale_outcome_counted :
  holds ex_p ex_stale_evs
    (firstn 7 (model_trace ex_p ex_stale_evs) ++ [mkobs None false [HState HalfOpen Open; HBackoff 9 17]]) 1 = false /\
  holds ex_p ex_stale_evs (model_trace ex_p ex_stale_evs) 1 = true.
Proof. vm_compute. auto. Qed.

(* three concurrent admissions in half-open with cap 2 *)
Definition ex_cap_evs : list event :=
  [Start; Finish 0 false; Start; Finish 0 false; Tick 6; Start; Start; Start].
Example monitor_rejects_cap_exceeded :
  holds ex_p ex_cap_evs (firstn 7 (model_trace ex_p ex_cap_evs) ++ [mkobs (Some true) true []]) 3 = false /\
  holds ex_p ex_cap_evs (model_trace ex_p ex_cap_evs) 2 = true.
Proof. vm_compute. auto. Qed.

(* a trip one failure early, a rejection while closed, a blocked count that does not add up *)
Example monitor_rejects_early_trip :
  holds ex_p [Start; Finish 0 false]
    [mkobs (Some true) true []; mkobs None false [HState Closed Open; HBackoff 5 5]] 0 = false.
Proof. vm_compute. reflexivity. Qed.
Example monitor_rejects_closed_rejection :
  holds ex_p [Start] [mkobs (Some false) false []] 0 = false.
Proof. vm_compute. reflexivity. Qed.
Example monitor_rejects_wrong_blocked_count :
  holds ex_p [Start; Start; Finish 0 true] (model_trace ex_p [Start; Start; Finish 0 true]) 2 = false.
Proof. vm_compute. reflexivity. Qed.
