(* The C04 monitor accepts the model's own observation at every step of every history: for any
   reachable world and any issued cookie presented on any host with any answers, [c04_step] holds
   of the predicted observation (with the harness ghosts t0 = login time, o_issued_at = sealing time). *)
From V Require Import Base Base_proofs Validators ProxyCore ProxyCore_proofs ProxyComplete_proofs
                      ProxyWorld ProxyWorld_proofs CorrProxy Corr_C01 Corr_C01_proofs Corr_C04.
From Coq Require Import ZifyBool.
Open Scope Z_scope.

Section M.
Variable lower : str -> str.
Variable c : cfg.
Variable pol_of : str -> upolicy.

Definition with_issued (o : ostep) (t : option Z) : ostep :=
  {| o_now := o_now o; o_req := o_req o; o_ans := o_ans o; o_served := o_served o; o_status := o_status o;
     o_signin := o_signin o; o_cookie := o_cookie o; o_calls := o_calls o; o_issued_at := t |}.

Theorem c04_monitor_accepts_model evs host x k i a :
  let w := run lower c pol_of evs in
  nth_error (w_issued w) k = Some i ->
  c04_step lower c (pol_of host) (i_login i)
    (with_issued (model_obs lower (w_now w) c (pol_of host) (mk_request w host false false x EProxy (CkIssued k)) a)
                 (Some (i_at i))) = true.
Proof.
  intros w Hn.
  assert (Hg: good lower c pol_of (w_now w) i).
  { pose proof (inv_run lower c pol_of evs) as HI. unfold Inv in HI. rewrite Forall_forall in HI. apply HI. eapply nth_error_In; eauto. }
  destruct Hg as [G1 [G2 [G3 [G4 [G5 [G6 [G7 G8]]]]]]].
  set (now := w_now w). set (u := pol_of host). set (s := i_s i).
  set (r := {| r_host := host; r_is_options := false; r_skip_hit := false; r_xhr := x; r_endpoint := EProxy; r_cookie := Sealed s |}).
  assert (Hr: mk_request w host false false x EProxy (CkIssued k) = r).
  { unfold mk_request, cookie_of. rewrite Hn. reflexivity. }
  unfold c04_step, c04_step_gen, presented, with_issued, model_obs. cbn [orb].
  cbn [o_req o_now o_ans o_served o_cookie o_calls o_issued_at]. rewrite Hr.
  change (handle lower now c u r a) with (proxy_handle lower now c u r a).
  cbn [r_cookie r_host r is_sealed].
  assert (Hnw: whitelisted u r = false) by (unfold whitelisted; cbn; rewrite andb_false_r; reflexivity).
  unfold proxy_handle. rewrite Hnw. cbn [r_host r_cookie r].
  destruct (ao_err (authenticate lower now c u host (Sealed s) a)) as [e|] eqn:Ee.
  - (* refused *)
    assert (Hnok: session_ok_b lower now c u host s a = false).
    { destruct (session_ok_b lower now c u host s a) eqn:E; [|reflexivity].
      apply session_ok_reflect, authenticate_complete in E. congruence. }
    rewrite Hnok. pose proof (authenticate_error_clears lower _ _ _ _ _ _ _ Ee) as [Hc _].
    unfold served. cbn [rs_cookie rs_out rs_calls]. rewrite Hc. unfold close, s. destruct e; cbn; lia.
  - (* served *)
    assert (Hok: session_ok_b lower now c u host s a = true).
    { apply session_ok_reflect. apply authenticate_iff. exact Ee. }
    rewrite Hok. unfold served. cbn [rs_out rs_cookie rs_calls negb orb andb].
    pose proof (authenticate_calls lower _ _ _ _ _ _ Ee) as [Hdue Hfresh].
    apply session_ok_reflect in Hok. destruct Hok as [_ [_ [Hl _]]].
    repeat (apply andb_true_iff; split).
    + unfold s in Hl. lia.
    + reflexivity.
    + destruct (ao_calls (authenticate lower now c u host (Sealed s) a)) eqn:Ec; [|reflexivity].
      cbn. unfold due. destruct (Z_lt_dec (s_refresh_dl s) now); [exfalso; apply Hdue; auto|].
      destruct (Z_lt_dec (s_valid_dl s) now); [exfalso; apply Hdue; auto|]. lia.
    + destruct (ao_calls (authenticate lower now c u host (Sealed s) a)) eqn:Ec; [|reflexivity].
      cbn. destruct (Z_lt_dec (s_valid_dl s) now); [exfalso; apply Hdue; auto|]. unfold s in *. lia.
    + reflexivity.
    + destruct (ao_cookie (authenticate lower now c u host (Sealed s) a)) as [| |s'] eqn:Eck; try reflexivity.
      apply authenticate_saved_preserves in Eck as [H1 _]. lia.
    + destruct (ao_cookie (authenticate lower now c u host (Sealed s) a)) as [| |s'] eqn:Eck; try reflexivity.
      apply authenticate_saved_preserves in Eck as [_ [_ [_ [_ [_ [_ [Hv _]]]]]]]. unfold s, now in *. destruct Hv; lia.
    + unfold close, s. lia.
Qed.

End M.
