(* Signer_gen_proofs.v — the theorems of Signer_proofs.v instantiated with the covered-header lists
   re-extracted from the Go source (gen/Gen_Signer.v). Every side condition on the lists is
   discharged here by computation, so an edit of the lists in /repo that breaks one of them
   (a covered header that the chain itself rewrites, a duplicate, a non-canonical spelling, a
   list that differs from the documented one) makes this file fail to compile. *)
From V Require Import Base Base_proofs Signer Signer_proofs Gen_Signer.

Definition g_cov : list str := signedHeaders.
Definition g_covh : list str := hmac_names SignatureHeaders.
Definition g_protected : list str := g_cov ++ g_covh ++ sig_headers.

Lemma g_cov_ok : cov_ok g_cov = true. Proof. vm_compute. reflexivity. Qed.
Lemma g_covh_ok : cov_ok g_covh = true. Proof. vm_compute. reflexivity. Qed.
Lemma g_sub1 : forall k, In k g_cov -> In k g_protected.
Proof. intros k H. unfold g_protected. apply in_or_app. left; exact H. Qed.
Lemma g_sub2 : forall k, In k g_covh -> In k g_protected.
Proof. intros k H. unfold g_protected. apply in_or_app. right. apply in_or_app. left; exact H. Qed.
Lemma g_sub3 : forall k, In k sig_headers -> In k g_protected.
Proof. intros k H. unfold g_protected. apply in_or_app. right. apply in_or_app. right; exact H. Qed.
Lemma g_cov_nodup : NoDup g_cov. Proof. apply nodupb_NoDup. vm_compute. reflexivity. Qed.
Lemma g_covh_nodup : NoDup g_covh. Proof. apply nodupb_NoDup. vm_compute. reflexivity. Qed.

Theorem covered_list :
  signedHeaders = documented_covered /\ SignatureHeaders = documented_covered /\
  hmac_names SignatureHeaders = documented_covered /\
  (forall k, In k signedHeaders -> canonical_key k = k) /\
  NoDup documented_covered /\ length documented_covered = 10%nat /\
  cov_ok documented_covered = true /\
  signatureHeader = sso_signature /\ canonical_key signingKeyHeader = kid_h /\
  HMACSignatureHeader = gap_signature.
Proof.
  repeat split; try reflexivity.
  - intros k Hk. assert (E : forallb (fun k => str_eqb (canonical_key k) k) signedHeaders = true) by (vm_compute; reflexivity).
    rewrite forallb_forall in E. apply str_eqb_eq. apply E. exact Hk.
  - apply nodupb_NoDup. vm_compute. reflexivity.
Qed.

Section Gen.
  Variables (c : cfg) (parsed : list (str * str)) (ident : option identity) (ip : str) (r0 : request) (b : str).
  Hypothesis Hbare : bare_target c = true.
  Hypothesis Hpath : has_prefix (r_path r0) [47] = true.
  Hypothesis Hfrag : r_fragment r0 = [].
  Hypothesis Hbody : r_body r0 = Some b.
  Hypothesis Hconn : conn_safe g_protected (r_headers (at_sign_time c parsed ident r0)) = true.
  Hypothesis Hcl : cl_canonical (at_sign_time c parsed ident r0) = true.

  Theorem g_signed_is_received :
    let rs := at_sign_time c parsed ident r0 in
    let rr := received g_cov g_covh c parsed ident ip r0 in
    canon_rsa g_cov rr = canon_rsa g_cov rs /\
    canon_hmac g_covh rr = canon_hmac g_covh rs /\
    r_body rr = r_body rs /\
    (c_skip c = false -> forall sk, c_signer c = Some sk ->
       verify_rsa g_cov (published_certs c) rr = Some true) /\
    (c_skip c = false -> forall key, c_hmac c = Some key -> verify_hmac g_covh key rr = 3).
  Proof.
    intros rs rr.
    destruct (signed_is_received g_cov g_covh g_protected g_cov_ok g_covh_ok g_sub1 g_sub2
                c parsed ident ip r0 b Hbare Hpath Hfrag Hbody Hconn Hcl) as (E1&E2&E3).
    repeat split; try assumption.
    - intros Hs sk Hk.
      exact (proj1 (rsa_signature_verifies g_cov g_covh g_protected g_cov_ok g_covh_ok g_sub1 g_sub2 g_sub3
                      c parsed ident ip r0 b Hbare Hpath Hfrag Hbody Hconn Hcl sk Hs Hk)).
    - intros Hs key Hk.
      exact (hmac_signature_verifies g_cov g_covh g_protected g_covh_ok g_sub2 g_sub3
               c parsed ident ip r0 b Hbare Hpath Hfrag Hbody Hconn Hcl key Hs Hk).
  Qed.

  (* every attempt that reaches the upstream (after an upstream fault there may be several) verifies
     and carries the whole body *)
  Theorem g_every_attempt_verifies n :
    Forall (fun rr =>
              r_body rr = Some (body_bytes r0) /\
              (c_skip c = false -> forall sk, c_signer c = Some sk -> verify_rsa g_cov (published_certs c) rr = Some true) /\
              (c_skip c = false -> forall key, c_hmac c = Some key -> verify_hmac g_covh key rr = 3))
           (attempts n g_cov g_covh c parsed ident ip r0).
  Proof.
    apply Forall_forall. intros rr Hin. unfold attempts in Hin. apply repeat_spec in Hin. subst rr.
    destruct g_signed_is_received as (_&_&_&V1&V2).
    split; [apply body_intact | split; assumption].
  Qed.

  Theorem g_kid_names_key sk :
    c_skip c = false -> c_signer c = Some sk ->
    let rr := received g_cov g_covh c parsed ident ip r0 in
    r_kid rr = Some (KeyId (pub sk)) /\
    published_certs c = [(KeyId (pub sk), pub sk)] /\
    cert_lookup (KeyId (pub sk)) (published_certs c) = Some (pub sk).
  Proof.
    intros Hs Hk rr.
    destruct (rsa_signature_verifies g_cov g_covh g_protected g_cov_ok g_covh_ok g_sub1 g_sub2 g_sub3
                c parsed ident ip r0 b Hbare Hpath Hfrag Hbody Hconn Hcl sk Hs Hk) as (_&V2&V3).
    repeat split; try assumption. unfold published_certs. rewrite Hk. reflexivity.
  Qed.
End Gen.

(* the key id a signer puts on a request is the one it publishes, whatever the request *)
Lemma kid_is_published cov sk r :
  r_kid (rsa_sign cov sk r) = Some (KeyId (pub sk)).
Proof. reflexivity. Qed.

(* refutations and examples, restated for the generated lists *)
Lemma g_is_dc : g_cov = dc /\ g_covh = dc /\ g_protected = all_protected.
Proof. repeat split; reflexivity. Qed.

Theorem g_hop_by_hop_refuted :
  exists c parsed ident ip r0 b,
    bare_target c = true /\ has_prefix (r_path r0) [47] = true /\ r_fragment r0 = [] /\ r_body r0 = Some b /\
    cl_canonical (at_sign_time c parsed ident r0) = true /\
    conn_safe g_protected (r_headers (at_sign_time c parsed ident r0)) = false /\
    (* a covered header is signed ... *)
    hvals authorization (r_headers (at_sign_time c parsed ident r0)) <> [] /\
    (* ... then stripped *)
    hvals authorization (r_headers (received g_cov g_covh c parsed ident ip r0)) = [] /\
    canon_rsa g_cov (received g_cov g_covh c parsed ident ip r0) <> canon_rsa g_cov (at_sign_time c parsed ident r0) /\
    verify_rsa g_cov (published_certs c) (received g_cov g_covh c parsed ident ip r0) = Some false /\
    (exists key, c_hmac c = Some key /\ verify_hmac g_covh key (received g_cov g_covh c parsed ident ip r0) = 4).
Proof.
  exists ex_cfg, [], ex_ident, s_ip, ex_hop, [].
  destruct g_is_dc as (E1&E2&E3). rewrite E1, E2, E3.
  destruct hop_by_hop_witness as (H1&H2&H3&H4&H5&H6&H7&H8&H9&H10&H11).
  repeat split; try assumption.
  - rewrite H7. discriminate.
  - exists [107;101;121]. split; [reflexivity | exact H11].
Qed.

Theorem g_hop_by_hop_signature_stripped :
  exists c parsed ident ip r0,
    r_sso_sig (sign g_cov g_covh c (at_sign_time c parsed ident r0)) <> None /\
    verify_rsa g_cov (published_certs c) (received g_cov g_covh c parsed ident ip r0) = None.
Proof.
  exists ex_cfg, [], ex_ident, s_ip, ex_hop_sig.
  destruct g_is_dc as (E1&E2&_). rewrite E1, E2.
  destruct hop_by_hop_sig_witness as (H1&H2). split; assumption.
Qed.

Theorem g_content_length_refuted :
  exists c parsed ident ip r0 b,
    bare_target c = true /\ has_prefix (r_path r0) [47] = true /\ r_fragment r0 = [] /\ r_body r0 = Some b /\
    conn_safe g_protected (r_headers (at_sign_time c parsed ident r0)) = true /\
    cl_canonical (at_sign_time c parsed ident r0) = false /\
    hvals content_length (r_headers (at_sign_time c parsed ident r0)) <> [] /\
    hvals content_length (r_headers (received g_cov g_covh c parsed ident ip r0)) = [] /\
    canon_rsa g_cov (received g_cov g_covh c parsed ident ip r0) <> canon_rsa g_cov (at_sign_time c parsed ident r0) /\
    verify_rsa g_cov (published_certs c) (received g_cov g_covh c parsed ident ip r0) = Some false /\
    (exists key, c_hmac c = Some key /\ verify_hmac g_covh key (received g_cov g_covh c parsed ident ip r0) = 4).
Proof.
  exists ex_cfg, [], ex_ident, s_ip, ex_cl0, [].
  destruct g_is_dc as (E1&E2&E3). rewrite E1, E2, E3.
  destruct content_length_witness as (H1&H2&H3&H4&H5&H6&H7&H8&H9&H10).
  repeat split; try assumption.
  - vm_compute. discriminate.
  - exists [107;101;121]. split; [reflexivity | exact H10].
Qed.

(* non-vacuity of g_signed_is_received: a POST with a body, three covered headers and the session cookie *)
Theorem g_nonvacuous :
  bare_target ex_cfg = true /\ has_prefix (r_path ex_post) [47] = true /\ r_fragment ex_post = [] /\
  r_body ex_post = Some s_body /\
  conn_safe g_protected (r_headers (at_sign_time ex_cfg ex_parsed ex_ident ex_post)) = true /\
  cl_canonical (at_sign_time ex_cfg ex_parsed ex_ident ex_post) = true /\
  verify_rsa g_cov (published_certs ex_cfg) (received g_cov g_covh ex_cfg ex_parsed ex_ident s_ip ex_post) = Some true /\
  verify_hmac g_covh [107;101;121] (received g_cov g_covh ex_cfg ex_parsed ex_ident s_ip ex_post) = 3 /\
  hvals cookie_h (r_headers (received g_cov g_covh ex_cfg ex_parsed ex_ident s_ip ex_post)) = [].
Proof.
  destruct g_is_dc as (E1&E2&E3). rewrite E1, E2, E3. exact ex_post_guards.
Qed.

Theorem g_tamper_header r1 r2 h :
  (forall k, k <> h -> hvals k (r_headers r1) = hvals k (r_headers r2)) ->
  r_method r1 = r_method r2 -> r_path r1 = r_path r2 -> r_rawquery r1 = r_rawquery r2 ->
  r_fragment r1 = r_fragment r2 -> r_body r1 = r_body r2 ->
  (In h g_cov -> rsa_entry r1 h <> rsa_entry r2 h -> canon_rsa g_cov r1 <> canon_rsa g_cov r2) /\
  (In h g_covh -> hmac_line r1 h <> hmac_line r2 h -> mac_input g_covh r1 <> mac_input g_covh r2).
Proof. exact (tamper_header g_cov g_covh r1 r2 h g_cov_nodup g_covh_nodup). Qed.
