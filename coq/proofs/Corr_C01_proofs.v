(* The boolean clauses used by the C01/C04/C05 monitors are exactly the propositions of the
   theorems (reflection), and the C01 monitor accepts the model's own prediction for every input:
   the monitor demands no more than what is proved. *)
From V Require Import Base Base_proofs Validators ProxyCore ProxyCore_proofs ProxyWorld CorrProxy Corr_C01.
From Coq Require Import ZifyBool.
Open Scope Z_scope.

Lemma matched_any_spec allowed ug :
  matched_any allowed ug = true <-> exists g, In g ug /\ In g allowed.
Proof.
  unfold matched_any. rewrite existsb_exists. split; intros [g [H1 H2]]; exists g; split; auto; apply mem_str_In; auto.
Qed.

Lemma groups_confirmed_reflect allowed a : groups_confirmed_b allowed a = true <-> groups_confirmed allowed a.
Proof.
  unfold groups_confirmed_b, groups_confirmed. rewrite orb_true_iff. split; intros [H|H]; auto; right.
  - destruct (user_groups a) as [ug| |] eqn:E; try discriminate. apply matched_any_spec in H as [g [H1 H2]]. eauto.
  - destruct H as [ug [g [E [H1 H2]]]]. rewrite E. apply matched_any_spec. eauto.
Qed.

Lemma groups_unavailable_reflect allowed a : groups_unavailable_b allowed a = true <-> groups_unavailable allowed a.
Proof.
  unfold groups_unavailable_b, groups_unavailable. rewrite andb_true_iff, negb_true_iff.
  split; intros [H1 H2]; split; auto; destruct (user_groups a); try discriminate; auto.
Qed.

Lemma outage_grace_reflect now c s : outage_grace_b now c s = true <-> outage_grace now c s.
Proof. unfold outage_grace_b, outage_grace. lia. Qed.

Lemma refresh_confirmed_reflect allowed a : refresh_confirmed_b allowed a = true <-> refresh_confirmed allowed a.
Proof.
  unfold refresh_confirmed_b, refresh_confirmed, refresh_is_ok. rewrite andb_true_iff, groups_confirmed_reflect. split.
  - intros [H1 H2]. destruct (redeem_refresh a) as [t d| | |]; try discriminate. eauto.
  - intros [t [d [H1 H2]]]. rewrite H1. auto.
Qed.

Lemma refresh_outage_reflect allowed a : refresh_outage_b allowed a = true <-> refresh_outage allowed a.
Proof.
  unfold refresh_outage_b, refresh_outage. split.
  - destruct (redeem_refresh a) as [t d| | |] eqn:E; intros H; try discriminate; [right | left; reflexivity].
    exists t, d. split; [reflexivity | apply groups_unavailable_reflect; exact H].
  - intros [H|[t [d [H1 H2]]]]; [rewrite H; reflexivity | rewrite H1; apply groups_unavailable_reflect; exact H2].
Qed.

Lemma validate_confirmed_reflect allowed a : validate_confirmed_b allowed a = true <-> validate_confirmed allowed a.
Proof.
  unfold validate_confirmed_b, validate_confirmed, validate_is_200. rewrite andb_true_iff, groups_confirmed_reflect. split.
  - intros [H1 H2]. destruct (a_validate a) as [code|]; [|discriminate]. assert (code = 200) by lia. subst. auto.
  - intros [H1 H2]. rewrite H1. auto.
Qed.

Lemma validate_outage_reflect allowed a : validate_outage_b allowed a = true <-> validate_outage allowed a.
Proof.
  unfold validate_outage_b, validate_outage. split.
  - destruct (a_validate a) as [code|] eqn:E; [|discriminate]. rewrite orb_true_iff, andb_true_iff. intros [H|[H1 H2]].
    + left. eauto.
    + right. assert (code = 200) by lia. subst. split; [reflexivity | apply groups_unavailable_reflect; exact H2].
  - intros [[code [H1 H2]]|[H1 H2]]; rewrite H1.
    + rewrite H2. reflexivity.
    + apply groups_unavailable_reflect in H2. rewrite H2. reflexivity.
Qed.

Section R.
Variable lower : str -> str.

Lemma session_ok_reflect now c u host s a :
  session_ok_b lower now c u host s a = true <-> session_ok lower now c u host s a.
Proof.
  unfold session_ok_b, session_ok. rewrite !andb_true_iff, !str_eqb_eq.
  assert (Hd: (if s_refresh_dl s <? now
       then negb match s_refresh_tok s with [] => true | _ :: _ => false end &&
            (refresh_confirmed_b (p_groups (u_rules u)) a || refresh_outage_b (p_groups (u_rules u)) a && outage_grace_b now c s)
       else if s_valid_dl s <? now
            then validate_confirmed_b (p_groups (u_rules u)) a || validate_outage_b (p_groups (u_rules u)) a && outage_grace_b now c s
            else true) = true <->
     (s_refresh_dl s < now -> s_refresh_tok s <> [] /\
        (refresh_confirmed (p_groups (u_rules u)) a \/ refresh_outage (p_groups (u_rules u)) a /\ outage_grace now c s)) /\
     (now <= s_refresh_dl s -> s_valid_dl s < now ->
        validate_confirmed (p_groups (u_rules u)) a \/ validate_outage (p_groups (u_rules u)) a /\ outage_grace now c s)).
  { destruct (s_refresh_dl s <? now) eqn:Er.
    - rewrite andb_true_iff, orb_true_iff, andb_true_iff, refresh_confirmed_reflect, refresh_outage_reflect, outage_grace_reflect, negb_true_iff.
      split.
      + intros [Ht Hc]. split; [|lia]. intros _. split; [|exact Hc]. destruct (s_refresh_tok s); [discriminate | discriminate].
      + intros [H _]. destruct H as [Ht Hc]; [lia|]. split; [|exact Hc]. destruct (s_refresh_tok s); [congruence | reflexivity].
    - destruct (s_valid_dl s <? now) eqn:Ev.
      + rewrite orb_true_iff, andb_true_iff, validate_confirmed_reflect, validate_outage_reflect, outage_grace_reflect.
        split; [intros H; split; [lia | auto] | intros [_ H]; apply H; lia].
      + split; [intros _; split; lia | reflexivity]. }
  rewrite Hd. intuition lia.
Qed.

(* ---- the observation the model predicts for a step ---- *)
Definition model_obs (now : Z) (c : cfg) (u : upolicy) (r : request) (a : answers) : ostep :=
  let rs := handle lower now c u r a in
  {| o_now := now; o_req := r; o_ans := a;
     o_served := served rs;
     o_status := match rs_out rs with Forward _ => 200 | SignIn => if r_xhr r then 401 else 302 | Status n => n end;
     o_signin := match rs_out rs with SignIn => negb (r_xhr r) | _ => false end;
     o_cookie := rs_cookie rs; o_calls := rs_calls rs; o_issued_at := None |}.

Lemma proxy_ok_serves now c u r a :
  ao_err (authenticate lower now c u (r_host r) (r_cookie r) a) = None ->
  served (proxy_handle lower now c u r a) = true.
Proof. unfold served, proxy_handle. intros H. destruct (whitelisted u r); [reflexivity|]. rewrite H. reflexivity. Qed.

(* The C01 monitor accepts the model's own prediction, for EVERY time, configuration, policy,
   request and answers: it demands nothing beyond the proved mediation theorems. *)
Theorem monitor_accepts_model now c u r a :
  mediation_holds lower c u (model_obs now c u r a) = true.
Proof.
  unfold mediation_holds, model_obs. cbn [o_req o_served o_status o_now o_ans o_signin].
  unfold handle. destruct (r_endpoint r) eqn:Eep.
  - (* Proxy *)
    destruct (rs_out (proxy_handle lower now c u r a)) as [id| |n] eqn:Eo.
    + unfold served. rewrite Eo. cbn [negb orb andb].
      apply proxy_forward_sound in Eo as [[Hw _]|[_ [s [Hs [Hok _]]]]].
      * rewrite Hw. reflexivity.
      * rewrite Hs. cbn [is_sealed]. apply session_ok_reflect in Hok. rewrite Hok. rewrite orb_true_r. reflexivity.
    + unfold served. rewrite Eo. cbn [negb orb andb]. destruct (r_xhr r); reflexivity.
    + unfold served. rewrite Eo. cbn [negb orb andb].
      assert (Hn: forall id, rs_out (proxy_handle lower now c u r a) <> Forward id) by (intros id; rewrite Eo; discriminate).
      apply proxy_otherwise in Hn as [[H|[H|[H|H]]] _]; rewrite Eo in H; inversion H; reflexivity.
  - (* AuthOnly *)
    cbn [rs_out]. unfold served. cbn [rs_out].
    destruct (ao_err (authenticate lower now c u (r_host r) (r_cookie r) a)) as [e|] eqn:Ee; [reflexivity|].
    destruct (authenticate_sound lower _ _ _ _ _ _ Ee) as [s [Hs Hok]]. rewrite Hs. cbn [is_sealed].
    apply session_ok_reflect in Hok. rewrite Hok. reflexivity.
  - (* Favicon *)
    destruct (ao_err (authenticate lower now c u (r_host r) (r_cookie r) a)) as [e|] eqn:Ee.
    + reflexivity.
    + pose proof (proxy_ok_serves _ _ _ _ _ Ee) as Hsv. unfold served in Hsv |- *. cbn [rs_out].
      destruct (rs_out (proxy_handle lower now c u r a)) eqn:Eo; try discriminate. cbn [negb orb andb].
      destruct (authenticate_sound lower _ _ _ _ _ _ Ee) as [s [Hs Hok]]. rewrite Hs. cbn [is_sealed].
      apply session_ok_reflect in Hok. rewrite Hok. reflexivity.
Qed.

End R.
