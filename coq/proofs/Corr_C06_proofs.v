(* The monitor of Corr_C06 accepts the model's own predictions: every observation that agrees with
   the model (mismatch = false) is judged 0, or — exactly on the two recorded signatures — 101/102.
   This ties the boolean specification applied to the implementation's observations to the theorems
   of ReqUri_proofs / Callback_proofs. *)
From Coq Require Import ZifyN ZifyBool.
From V Require Import Base Base_proofs CorrBase ReqUri ReqUri_proofs Callback Callback_proofs Corr_C06.

(* ------------------------------------------------------------------ request targets *)
Lemma drop_slashes_host (rest : str) c :
  c <> 47 -> c <> 92 -> drop_slashes (47 :: 47 :: c :: rest) = c :: rest.
Proof.
  intros H1 H2. cbn [drop_slashes]. change (N.eqb 47 47) with true. cbn [orb].
  apply N.eqb_neq in H1, H2. rewrite H1, H2. reflexivity.
Qed.

Lemma take_authority_host h r :
  (forall c, In c h -> c <> 47 /\ c <> 92 /\ c <> 63 /\ c <> 35 /\ c <> 64) ->
  take_authority (h ++ 47 :: r) = h.
Proof.
  induction h as [|c h IH]; intros H; cbn [app take_authority].
  - change (N.eqb 47 47) with true. reflexivity.
  - destruct (H c (or_introl eq_refl)) as [H1 [H2 [H3 [H4 _]]]].
    apply N.eqb_neq in H1, H2, H3, H4. rewrite H1, H2, H3, H4. cbn [orb]. f_equal. apply IH.
    intros x Hx. apply H. right. exact Hx.
Qed.

Lemma after_last_at_none h : ~ In 64 h -> after_last_at h = h.
Proof.
  destruct h as [|c h]; [reflexivity|]. intros H. cbn [after_last_at].
  assert (existsb (N.eqb 64) h = false) as ->.
  { apply existsb_false_iff. intros x Hx. apply N.eqb_neq. intros <-. apply H. right. exact Hx. }
  assert (N.eqb c 64 = false) as -> by (apply N.eqb_neq; intros ->; apply H; left; reflexivity).
  reflexivity.
Qed.

Lemma browser_host_abs sch h r :
  ~ In 58 sch -> simple_authority h = true ->
  browser_host (sch ++ [58; 47; 47] ++ h ++ 47 :: r) = Some h.
Proof.
  intros Hs Hh. unfold browser_host. cbn [app]. rewrite (cut_at_app_nosep 58 sch _ Hs).
  pose proof (simple_authority_bytes h) as Hb. pose proof (simple_authority_nonempty h Hh) as Hne.
  destruct h as [|c h']; [congruence|].
  destruct (Hb c Hh (or_introl eq_refl)) as [H1 [H2 _]].
  change ((c :: h') ++ 47 :: r) with (c :: (h' ++ 47 :: r)).
  rewrite drop_slashes_host by assumption.
  change (c :: h' ++ 47 :: r) with ((c :: h') ++ 47 :: r).
  rewrite take_authority_host by (intros x Hx; apply Hb; assumption).
  rewrite after_last_at_none; [reflexivity|]. intros Hin. destruct (Hb 64 Hh Hin) as [_ [_ [_ [_ H]]]]. congruence.
Qed.

Lemma simple_authority_no_ctl a : simple_authority a = true -> existsb is_ctl a = false.
Proof.
  unfold simple_authority. destruct (cut_at 58 a) as [h port] eqn:E. intros H.
  destruct (cut_at_spec _ _ _ _ E) as [_ Hs].
  apply andb_true_iff in H as [H Hp]. apply andb_true_iff in H as [_ Hh]. rewrite forallb_forall in Hh.
  assert (Hhb : forall x, host_byte x = true -> is_ctl x = false).
  { intros x. unfold host_byte, is_alnum, is_alpha, is_lower, is_upper, is_digit, in_range, is_ctl. lia. }
  assert (Hdb : forall x, is_digit x = true -> is_ctl x = false).
  { intros x. unfold is_digit, in_range, is_ctl. lia. }
  apply existsb_false_iff. intros x Hx. destruct port as [p|].
  - subst a. rewrite forallb_forall in Hp. apply in_app_or in Hx as [Hx|[Hx|Hx]].
    + apply Hhb, Hh, Hx.
    + subst x. reflexivity.
    + apply Hdb, Hp, Hx.
  - subst a. apply Hhb, Hh, Hx.
Qed.

Lemma same_site_rel_shape tail : same_site_rel tail = true -> (exists r, tail = 47 :: r) /\ existsb is_ctl tail = false.
Proof.
  unfold same_site_rel. destruct tail as [|c rest]; [discriminate|]. intros H.
  apply andb_true_iff in H as [H Hc]. apply andb_true_iff in H as [H _]. apply N.eqb_eq in H. subst c.
  split; [eauto|]. apply negb_true_iff in Hc. exact Hc.
Qed.

Lemma route_proxy_parse hosts hh t h rec :
  route hosts hh t = RProxy h rec -> exists u, parse_request_uri t = PUrl u.
Proof.
  unfold route. destruct (memb 32 t); [discriminate|].
  destruct (parse_request_uri t) as [| |u]; try discriminate. eauto.
Qed.

Lemma opt_pair_eqb_some a b o : opt_pair_eqb (Some (a, b)) o = true -> o = Some (a, b).
Proof.
  destruct o as [[x y]|]; cbn [opt_pair_eqb]; [|discriminate]. rewrite andb_true_iff, !str_eqb_eq.
  intros [-> ->]. reflexivity.
Qed.

(* any observation the model predicts for a modelled target satisfies the same-site monitor *)
Lemma target_model_holds hosts hh t o :
  target_mismatch hosts hh t o = false -> route hosts hh t <> RUnmodelled ->
  target_holds hosts hh t o = true.
Proof.
  unfold target_mismatch, target_holds, no_start. intros Hm Hu.
  destruct (route hosts hh t) as [| | | |loc| |h rec] eqn:Er; try congruence.
  1-5: destruct (to_started o) as [[a b]|];
       [exfalso; rewrite ?andb_false_r in Hm; cbn in Hm; discriminate | reflexivity].
  apply negb_false_iff in Hm. apply andb_true_iff in Hm as [_ Hm]. apply opt_pair_eqb_some in Hm. rewrite Hm.
  destruct (has_prefix t [47]) eqn:Hp.
  - destruct (route_same_site _ _ _ _ _ Hp Er) as [-> [Hmem Hss]].
    rewrite Hmem, Hss, str_eqb_refl. apply orb_true_r.
  - destruct (route_proxy_parse _ _ _ _ _ Er) as [u Epar].
      destruct (parse_scheme _ _ Epar) as [Hsch Hnone].
      assert (Hne : u_scheme u <> []) by (intros E; rewrite (Hnone E) in Hp; discriminate).
      destruct (route_same_site_absolute _ _ _ _ _ _ Epar Hne Er) as [Hh [Hmem [Hsimple [tail [Hrec Hss]]]]].
      destruct (same_site_rel_shape _ Hss) as [[r Hr] Hctl]. subst tail.
      assert (Hno58 : ~ In 58 (u_scheme u)).
      { intros Hin. rewrite Forall_forall in Hsch. destruct (Hsch _ Hin) as [_ [H _]]. congruence. }
      rewrite Hrec, (browser_host_abs _ _ _ Hno58 Hsimple), str_eqb_refl, Hmem. cbn [andb].
      assert (existsb is_ctl (u_scheme u ++ [58; 47; 47] ++ h ++ 47 :: r) = false) as ->.
      { rewrite !existsb_app. rewrite (simple_authority_no_ctl _ Hsimple), Hctl.
        assert (existsb is_ctl (u_scheme u) = false) as ->.
        { apply existsb_false_iff. intros x Hx. rewrite Forall_forall in Hsch. apply Hsch in Hx. tauto. }
        reflexivity. }
      apply orb_true_r.
Qed.

(* ------------------------------------------------------------------ flows *)
Lemma flow_in_In f l : flow_in f l = true <-> In f l.
Proof.
  unfold flow_in. rewrite existsb_exists. split.
  - intros [x [Hx E]]. apply flow_eqb_eq in E. subst. exact Hx.
  - intros H. exists f. split; [exact H | apply flow_eqb_eq; reflexivity].
Qed.
Lemma sealed_eqb_neq a b : sealed_eqb a b = false <-> a <> b.
Proof.
  split; intros H.
  - intros E. apply sealed_eqb_eq in E. congruence.
  - destruct (sealed_eqb a b) eqn:E; [apply sealed_eqb_eq in E; contradiction | reflexivity].
Qed.
Lemma session_opt_eqb_some s o : session_opt_eqb (Some s) o = true -> o = Some s.
Proof.
  destruct o as [x|]; cbn; [|discriminate]. intros H. apply session_eqb_eq in H. congruence.
Qed.

(* the inputs of a case are well-formed when the flow values listed as issued belong to started
   flows, started flows have real (non-empty) ids, and every recorded URI (and the empty string)
   comes out of http.Redirect on the request's host: the last is C06_same_site plus the oracle *)
Definition wf_inputs (starts : list started) (issued : list sealed) (redir : list (str * str)) (host : str) : Prop :=
  (* every flow value listed as issued was produced by one of the listed OAuthStart runs *)
  (forall k n f, In (Seal k n (PFlow f)) issued ->
     exists e, In e starts /\ st_flow e = f /\ produced_by e (Seal k n (PFlow f)) = true) /\
  (forall e, In e starts -> f_sid (st_flow e) <> 0) /\
  (forall e, In e starts -> on_host host (redir_tab redir (f_redirect (st_flow e))) = true) /\
  on_host host (redir_tab redir []) = true /\
  (* freshness: different OAuthStart runs drew different flow ids (Callback_proofs.started_flows_distinct) *)
  (forall e e', In e starts -> In e' starts -> f_sid (st_flow e) = f_sid (st_flow e') -> e = e').

Lemma flow_model_judged canon strict starts issued r redir o :
  wf_inputs starts issued redir (cb_host r) ->
  flow_mismatch canon strict r redir o = false ->
  let j := judge (CFlow canon strict starts issued r redir o) in
  j = 0 \/ (j = 101 /\ canon = false) \/ (j = 102 /\ strict = false).
Proof.
  intros [W1 [W2 [W3 [W4 W5]]]] Hm. cbn [judge]. rewrite Hm. unfold code.
  unfold flow_mismatch in Hm. apply orb_false_iff in Hm as [Hrc Hm]. apply negb_false_iff in Hrc.
  apply eqb_prop in Hrc.
  destruct (flow_holds starts issued r redir o) eqn:Hh; [left; reflexivity|]. right.
  unfold flow_holds in Hh. apply orb_false_iff in Hh as [Hd Hh]. apply negb_false_iff in Hd.
  unfold flow_known. destruct (fo_session o) as [s|] eqn:Es; [|discriminate].
  destruct (oauth_callback canon strict PROXY_KEY r) as [st|s' loc] eqn:Ecb.
  { apply negb_false_iff in Hm. apply andb_true_iff in Hm as [Hm _]. apply andb_true_iff in Hm as [_ Hm]. discriminate. }
  apply negb_false_iff in Hm. apply andb_true_iff in Hm as [Hm Hloc]. apply andb_true_iff in Hm as [Hm Hcsrf].
  apply andb_true_iff in Hm as [_ Hsess]. apply session_opt_eqb_some in Hsess. inversion Hsess; subst s'. clear Hsess.
  apply str_eqb_eq in Hloc.
  apply callback_ok_iff in Ecb.
  destruct Ecb as (v1 & n1 & p1 & v2 & n2 & p2 & email & Hs & Hc & Hcan & Hne & Hj & Hstr & Hf & He & Hcode & Hr & Hem & Hv & Hsv & Hl).
  unfold req_derivable in Hd. rewrite Hs, Hc in Hd. apply andb_true_iff in Hd as [Hd1 Hd2].
  pose proof (wire_derivable_In _ _ _ _ _ Hd1) as Hi1. pose proof (wire_derivable_In _ _ _ _ _ Hd2) as Hi2.
  (* the clauses that hold whatever the payloads are *)
  assert (Kseal : N.eqb PROXY_KEY PROXY_KEY && N.eqb PROXY_KEY PROXY_KEY &&
                  sealed_in (Seal PROXY_KEY n1 p1) issued && sealed_in (Seal PROXY_KEY n2 p2) issued = true).
  { rewrite N.eqb_refl. cbn [andb]. apply andb_true_iff. split; apply sealed_in_In; assumption. }
  assert (Kred : fo_redeem_called o && negb (nil_str (cb_code r)) &&
                 match cb_redeem r with RedeemOk e => negb (nil_str e) | RedeemErr => false end = true).
  { rewrite <- Hrc. unfold redeem_called. rewrite Hf, He, Hr. apply nil_str_false in Hcode, Hem. rewrite Hcode, Hem. reflexivity. }
  assert (Kbound : str_eqb (s_upstream s) (cb_host r) &&
                   match cb_redeem r with RedeemOk e => str_eqb (s_email s) e | RedeemErr => false end = true).
  { rewrite Hr, Hsv. cbn [s_upstream s_email]. rewrite !str_eqb_refl. reflexivity. }
  unfold sig_noncanonical, sig_type_confusion, clauses, all_clauses in *. rewrite Hs, Hc in *. cbn [spelled] in *.
  cbn [k_sealed_by_proxy k_distinct_cipher k_same_record k_started_flow k_own_start k_redeemed k_validated k_bound_to_host
       k_location_recorded k_location_same_site] in *.
  rewrite Kseal, Kred, Kbound, Hv in *. cbn [andb] in *.
  destruct p1 as [f1|s1], p2 as [f2|s2]; cbn [json_into_state payload_flow] in *.
  - (* two flow values of the same record *)
    subst f2.
    destruct (W1 _ _ _ Hi1) as [e1 [Hin1 [Hfe1 Hp1]]]. destruct (W1 _ _ _ Hi2) as [e2 [Hin2 [Hfe2 Hp2]]].
    assert (e2 = e1) by (apply W5; [assumption | assumption | congruence]). subst e2.
    assert (Hin : In f1 (started_flows starts)) by (unfold started_flows; rewrite <- Hfe1; apply in_map; exact Hin1).
    assert (flow_eqb f1 f1 = true) as Hff by (apply flow_eqb_eq; reflexivity).
    assert (flow_in f1 (started_flows starts) = true) as Hfi by (apply flow_in_In; exact Hin).
    assert (Hown : existsb (fun e => produced_by e (Seal PROXY_KEY n1 (PFlow f1)) && produced_by e (Seal PROXY_KEY n2 (PFlow f1))) starts = true).
    { apply existsb_exists. exists e1. split; [exact Hin1 | rewrite Hp1, Hp2; reflexivity]. }
    assert (Hon : on_host (cb_host r) (redir_tab redir (f_redirect f1)) = true) by (rewrite <- Hfe1; apply W3; exact Hin1).
    rewrite Hff, Hfi, Hown in *. rewrite <- Hloc, Hl in *. rewrite str_eqb_refl in *. rewrite Hon in *.
    cbn [andb] in *. rewrite !andb_true_r in *.
    (* only "different ciphertexts" can have failed *)
    apply negb_false_iff in Hh. rewrite Hh. cbn [negb andb].
    destruct canon.
    + exfalso. destruct (Hcan eq_refl) as [-> ->]. apply sealed_eqb_eq in Hh. apply Hne. rewrite Hh. reflexivity.
    + cbn [negb andb]. assert (N.eqb v1 v2 = false) as ->.
      { apply N.eqb_neq. intros ->. apply sealed_eqb_eq in Hh. apply Hne. rewrite Hh. reflexivity. }
      left. split; reflexivity.
  - exfalso. subst f1. destruct (W1 _ _ _ Hi1) as [e [Hin [Hfe _]]]. apply (W2 e Hin). rewrite Hfe. reflexivity.
  - exfalso. subst f2. destruct (W1 _ _ _ Hi2) as [e [Hin [Hfe _]]]. apply (W2 e Hin). rewrite Hfe. reflexivity.
  - (* two sealed sessions: the type confusion *)
    rewrite !andb_false_r. cbn [negb andb]. rewrite <- Hloc, Hl. cbn [empty_flow f_redirect].
    rewrite str_eqb_refl, W4. right. split; [reflexivity|].
    destruct strict; [|reflexivity]. exfalso. apply Hstr; reflexivity.
Qed.
