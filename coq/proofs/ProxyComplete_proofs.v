(* Completeness of Authenticate w.r.t. [session_ok] (the converse of authenticate_sound): a session
   that is in order is served. Together they make [session_ok] the exact admission condition, which
   is what lets the C04 monitor demand "refused => not in order" without false alarms. *)
From V Require Import Base Base_proofs Validators ProxyCore ProxyCore_proofs.
From Coq Require Import ZifyBool.
Open Scope Z_scope.

Lemma matched_nonempty_b allowed ug g :
  In g ug -> In g allowed ->
  negb (match flat_map (fun u => filter (str_eqb u) allowed) ug with [] => true | _ => false end) = true.
Proof.
  intros H1 H2. destruct (flat_map _ ug) eqn:E; [|reflexivity].
  assert (flat_map (fun u => filter (str_eqb u) allowed) ug <> []) by (apply matched_nonempty; eauto). congruence.
Qed.

Lemma validate_group_confirmed allowed a :
  groups_confirmed allowed a -> exists m calls, validate_group_p allowed a = (VgOk m true, calls).
Proof.
  unfold groups_confirmed, validate_group_p. intros [H|[ug [g [Hu [H1 H2]]]]].
  - rewrite H. eauto.
  - destruct (no_group_check allowed); [eauto|]. rewrite Hu. rewrite (matched_nonempty_b _ _ _ H1 H2). eauto.
Qed.

Lemma validate_group_unavail_c allowed a :
  groups_unavailable allowed a -> exists calls, validate_group_p allowed a = (VgUnavail, calls).
Proof. unfold groups_unavailable, validate_group_p. intros [H1 H2]. rewrite H1, H2. eauto. Qed.

Lemma within_grace_ok now c s : outage_grace now c s -> fst (within_grace now (c_G c) s) = true.
Proof. unfold outage_grace, within_grace. cbn. lia. Qed.

Section C.
Variable lower : str -> str.

Lemma authenticate_complete now c u host s a :
  session_ok lower now c u host s a -> ao_err (authenticate lower now c u host (Sealed s) a) = None.
Proof.
  intros [Hs [Hu [Hl [Hr [Hv Hg]]]]]. unfold authenticate, expired.
  rewrite Hs, str_eqb_refl. rewrite <- Hu, str_eqb_refl. cbn [negb].
  assert ((s_lifetime_dl s <? now) = false) as -> by lia.
  destruct (s_refresh_dl s <? now) eqn:Er.
  - assert (Hr': s_refresh_dl s < now) by lia. destruct (Hr Hr') as [Ht Hc].
    destruct (refresh_session now c (p_groups (u_rules u)) s a) as [[r s'] calls] eqn:Erf.
    assert (r = RfOk /\ s_email s' = s_email s) as [-> He].
    { pose proof (refresh_preserves _ _ _ _ _ _ _ _ Erf) as [_ [_ [_ [He _]]]]. split; [|exact He].
      unfold refresh_session in Erf. destruct (s_refresh_tok s) eqn:Et; [congruence|].
      destruct Hc as [[tok [dur [Hrr Hgc]]]|[[Hrr|[tok [dur [Hrr Hgu]]]] Hog]]; rewrite Hrr in Erf.
      - destruct (validate_group_confirmed _ _ Hgc) as [m [cl Hvg]]. rewrite Hvg in Erf. inversion Erf; reflexivity.
      - pose proof (within_grace_ok _ _ _ Hog) as Hw. destruct (within_grace now (c_G c) s) as [ok s1]. cbn in Hw. subst ok.
        inversion Erf; reflexivity.
      - destruct (validate_group_unavail_c _ _ Hgu) as [cl Hvg]. rewrite Hvg in Erf.
        pose proof (within_grace_ok _ _ _ Hog) as Hw. destruct (within_grace now (c_G c) s) as [ok s1]. cbn in Hw. subst ok.
        inversion Erf; reflexivity. }
    rewrite He, Hg. reflexivity.
  - destruct (s_valid_dl s <? now) eqn:Ev.
    + assert (Hc: validate_confirmed (p_groups (u_rules u)) a \/ validate_outage (p_groups (u_rules u)) a /\ outage_grace now c s) by (apply Hv; lia).
      destruct (validate_session now c (p_groups (u_rules u)) s a) as [[ok s'] calls] eqn:Evs.
      assert (ok = true /\ s_email s' = s_email s) as [-> He].
      { pose proof (validate_preserves _ _ _ _ _ _ _ _ Evs) as [_ [_ [_ [He _]]]]. split; [|exact He].
        unfold validate_session in Evs.
        destruct Hc as [[Hva Hgc]|[[[code [Hva Hun]]|[Hva Hgu]] Hog]]; rewrite Hva in Evs.
        - cbn [Z.eqb Pos.eqb] in Evs. destruct (validate_group_confirmed _ _ Hgc) as [m [cl Hvg]]. rewrite Hvg in Evs. inversion Evs; reflexivity.
        - assert ((code =? 200) = false) as E200 by (unfold unavailable in Hun; lia). rewrite E200, Hun in Evs.
          pose proof (within_grace_ok _ _ _ Hog) as Hw. destruct (within_grace now (c_G c) s) as [ok' s1]. cbn in Hw. subst ok'.
          inversion Evs; reflexivity.
        - cbn [Z.eqb Pos.eqb] in Evs. destruct (validate_group_unavail_c _ _ Hgu) as [cl Hvg]. rewrite Hvg in Evs.
          pose proof (within_grace_ok _ _ _ Hog) as Hw. destruct (within_grace now (c_G c) s) as [ok' s1]. cbn in Hw. subst ok'.
          inversion Evs; reflexivity. }
      rewrite He, Hg. reflexivity.
    + rewrite Hg. reflexivity.
Qed.

(* session_ok is EXACTLY the admission condition of Authenticate *)
Theorem authenticate_iff now c u host s a :
  ao_err (authenticate lower now c u host (Sealed s) a) = None <-> session_ok lower now c u host s a.
Proof.
  split; [|apply authenticate_complete]. intros H.
  destruct (authenticate_sound lower _ _ _ _ _ _ H) as [s0 [E Hok]]. inversion E; subst. exact Hok.
Qed.

End C.
