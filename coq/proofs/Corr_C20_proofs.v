(* The monitors of Corr_C20 accept the model's own predictions for every input: this ties the
   boolean specifications evaluated on the implementation's observations to the theorems of
   Html_proofs / Json_proofs. *)
From V Require Import Base Base_proofs CorrBase Html Html_proofs Html_pages_proofs Json Json_proofs Corr_C20.
Open Scope N_scope.

(* what the model writes for a placeholder passes the placeholder monitor, for every payload *)
Lemma hole_monitor_accepts_model : forall payload,
  hole_inert payload (html_escape payload) = true /\ hole_inert payload (attr_escape payload) = true /\
  hole_inert payload (rcdata_escape payload) = true.
Proof.
  intros p. unfold hole_inert, html_escape, attr_escape, rcdata_escape.
  rewrite html_replace_no_specials, html_replace_amp_ok, html_unescape_replace, str_eqb_refl.
  repeat split.
Qed.

(* the placeholder monitor really excludes markup: anything it accepts is free of the five
   delimiters (so a raw payload with markup can never pass) *)
Lemma hole_monitor_excludes_markup payload rendered c :
  hole_inert payload rendered = true -> In c rendered -> c <> 0 /\ c <> 34 /\ c <> 39 /\ c <> 60 /\ c <> 62.
Proof.
  unfold hole_inert. intros H Hin. apply andb_true_iff in H as [H _]. apply andb_true_iff in H as [H _].
  apply is_special_false. eapply no_specials_forall; eauto.
Qed.

(* the page monitor accepts the model's rendering of any data against the model's rendering of
   any other data that differs only in request-controlled (output-only) fields *)
Lemma page_monitor_accepts_model tpls name F :
  page_safe tpls name = true -> output_only tpls name F = true ->
  forall d d0 real benign, rec_agree F d d0 ->
    render_page tpls name d = Some real -> render_page tpls name d0 = Some benign ->
    page_inert real benign = true.
Proof.
  intros Hs Ho d d0 real benign Hr R1 R2.
  pose proof (request_fields_inert tpls name F Hs Ho d d0 Hr) as H. rewrite R1, R2 in H.
  destruct H as [A [B _]]. unfold page_inert. rewrite A, B, evs_eqb_refl. reflexivity.
Qed.

Lemma ct_html_markup : is_markup_type ct_html = true.
Proof. reflexivity. Qed.
Lemma ct_json_json : is_json_type ct_json = true /\ is_markup_type ct_json = false.
Proof. split; reflexivity. Qed.

Lemma resp_inert_markup ct body benign :
  is_markup_type ct = true -> page_inert body benign = true -> resp_inert ct body benign = true.
Proof. intros M H. unfold resp_inert. destruct body; [reflexivity|]. rewrite M. exact H. Qed.

Lemma resp_inert_json ct body benign :
  is_markup_type ct = false -> is_json_type ct = true -> json_doc_ok body = true -> resp_inert ct body benign = true.
Proof. intros M J H. unfold resp_inert. destruct body; [reflexivity|]. rewrite M, J. exact H. Qed.

(* a further (Accept, XHR) combination on which the handler does what the model says: the same
   page under an HTML type, or the JSON body under the JSON type *)
Lemma var_same_page_ok real benign :
  page_inert real benign = true ->
  var_mismatch real [] (Var 0 ct_html None None) = false /\ var_holds real benign (Var 0 ct_html None None) = true.
Proof.
  intros H. split.
  - cbn. rewrite str_eqb_refl. reflexivity.
  - unfold var_holds, var_body, var_benign. apply resp_inert_markup; [exact ct_html_markup | exact H].
Qed.

Lemma var_json_ok svc data real benign :
  let jm := model_json svc data in
  var_mismatch real jm (Var 1 ct_json (Some [SLit jm]) None) = false /\
  var_holds real benign (Var 1 ct_json (Some [SLit jm]) None) = true.
Proof.
  cbn zeta. unfold var_mismatch, var_holds, var_body, var_benign.
  cbn [rebuild N.eqb]. rewrite app_nil_r, str_eqb_refl.
  destruct ct_json_json as [J M]. rewrite J. split; [reflexivity|].
  apply resp_inert_json; [exact M | exact J|].
  unfold model_json. destruct (svc =? 0); [apply json_doc_ok_proxy | apply json_doc_ok_auth].
Qed.

Lemma judge_page_model svc name F d d0 real segs via :
  page_safe (tpls_of svc) name = true -> output_only (tpls_of svc) name F = true ->
  rec_agree F d d0 ->
  render_page (tpls_of svc) name d = Some real -> render_page (tpls_of svc) name d0 = Some (rebuild real segs) ->
  judge (CPage svc name d ct_html real segs via []) = 0.
Proof.
  intros Hs Ho Hr R1 R2. cbn [judge]. rewrite R1.
  rewrite (resp_inert_markup _ _ _ ct_html_markup (page_monitor_accepts_model _ _ _ Hs Ho d d0 real _ Hr R1 R2)).
  rewrite ct_html_markup.
  cbn [option_eqb existsb forallb]. rewrite str_eqb_refl. reflexivity.
Qed.

Lemma judge_hole_model svc page field ctx payload :
  judge (CHole svc page field ctx payload (html_replace payload)) = 0.
Proof.
  cbn [judge]. destruct (hole_monitor_accepts_model payload) as [H _].
  unfold html_escape, attr_escape in *. rewrite H.
  destruct (ctx =? 0); rewrite str_eqb_refl; reflexivity.
Qed.

Lemma judge_json_model svc msg :
  judge (CJson svc msg ct_json (if svc =? 0 then proxy_xhr_json msg else auth_error_json msg) []) = 0.
Proof.
  destruct ct_json_json as [J M].
  assert (E : forall body, json_doc_ok body = true ->
              code (negb (str_eqb body body) || negb (is_json_type ct_json)) (resp_inert ct_json body (rebuild body [])) 0 = 0).
  { intros body H. rewrite str_eqb_refl, J, (resp_inert_json _ _ _ M J H). reflexivity. }
  cbn [judge]. destruct (svc =? 0); apply E; [apply json_doc_ok_proxy | apply json_doc_ok_auth].
Qed.

(* a call site whose page is independent of the hostile inputs: same bytes as the benign run, and
   (being a rendering of a safe template) ending in the data state *)
Lemma judge_same_model svc site real segs :
  rebuild real segs = real -> final_state real = SData -> judge (CSame svc site ct_html real segs []) = 0.
Proof.
  intros R F. cbn [judge]. rewrite R, str_eqb_refl.
  rewrite resp_inert_markup; [reflexivity | exact ct_html_markup|].
  unfold page_inert. rewrite evs_eqb_refl, F. reflexivity.
Qed.

(* the response monitor really constrains markup types: a body served as HTML whose structure
   differs from the benign body is rejected, whatever the handler meant it to be *)
Lemma resp_inert_html_needs_skeleton body benign :
  body <> [] -> resp_inert ct_html body benign = true -> skeleton body = skeleton benign.
Proof.
  intros NE H. assert (P : page_inert body benign = true) by (unfold resp_inert in H; destruct body; [congruence|]; rewrite ct_html_markup in H; exact H). clear H. unfold page_inert in P. rename P into H.
  apply andb_true_iff in H as [H _]. unfold evs_eqb in H.
  revert H. generalize (skeleton body) (skeleton benign).
  induction l as [|x l IH]; intros [|y l']; cbn [list_eqb]; try discriminate; [reflexivity|].
  intros H. apply andb_true_iff in H as [E H]. f_equal; [|apply IH; exact H].
  destruct x, y; cbn in E; try discriminate; try reflexivity;
    try (apply Bool.eqb_prop in E; subst; reflexivity); apply N.eqb_eq in E; subst; reflexivity.
Qed.

(* a 30x whose body is net/http's note for ANY url, judged against the note for any other url, is
   accepted; so is a redirect without body *)
Lemma judge_note_model svc site text url url0 segs :
  ~ In 60 text -> rebuild (redirect_note url text) segs = redirect_note url0 text ->
  judge (CNote svc site text ct_html (redirect_note url text) segs) = 0.
Proof.
  intros Ht R. cbn [judge]. rewrite note_url_of_note, html_unescape_net_escape, str_eqb_refl, ct_html_markup.
  rewrite resp_inert_markup; [unfold redirect_note, note_pre; cbn [app]; reflexivity | exact ct_html_markup|].
  unfold page_inert. rewrite R.
  destruct (redirect_note_inert text Ht url url0) as [A B]. rewrite A, B, evs_eqb_refl. reflexivity.
Qed.

Lemma judge_note_empty svc site text ct : judge (CNote svc site text ct [] []) = 0.
Proof.
  cbn [judge rebuild]. reflexivity.
Qed.
