(* AuthAll_proofs.v — lemmas about the integration model of sso-auth (theories/AuthAll.v):
   routing, the gate chains of the real route table in flattened form, the adapters to the
   per-property models (proved faithful), and the end-to-end theorems obtained by composing
   the per-property theorems (C07, C08, C09, C10, C18, C19, C20). *)
From V Require Import Base Base_proofs AuthAll Gen_AuthBackRoutes.
From V Require Url Url_proofs AuthGates_proofs AuthBack_proofs AuthFlow_proofs IdToken_proofs
               SignOut_proofs RespHeaders_gen_proofs Html Html_pages_proofs Json Json_proofs Gen_Templates.
From Coq Require Import ZifyBool ZifyN.

Module GP := V.AuthGates_proofs.
Module BP := V.AuthBack_proofs.
Module FP := V.AuthFlow_proofs.
Module TP := V.IdToken_proofs.
Module SP := V.SignOut_proofs.
Module HP := V.RespHeaders_gen_proofs.

Local Open Scope N_scope.

(* ------------------------------------------------------------------------------------------ *)
(* the route table *)

(* the route table of the integration model IS the table in the Go source of newMux: paths,
   methods, middleware chain in order, handler — all eight routes, nothing else *)
Theorem source_table_is_all_routes : translate_all auth_routes_src = Some all_routes.
Proof. vm_compute. reflexivity. Qed.

Definition rt_start := nth 0 all_routes (Build_route [] [] [] HStart).
Definition rt_sign_in := nth 1 all_routes (Build_route [] [] [] HStart).
Definition rt_sign_out := nth 2 all_routes (Build_route [] [] [] HStart).
Definition rt_callback := nth 3 all_routes (Build_route [] [] [] HStart).
Definition rt_back (h : B.handler) : route :=
  {| rt_path := match h with B.HProfile => B.p_profile | B.HValidate => B.p_validate
                           | B.HRedeem => B.p_redeem | B.HRefresh => B.p_refresh end;
     rt_methods := match h with B.HProfile | B.HValidate => [B.m_get] | _ => [B.m_post] end;
     rt_gates := [GClientID; GClientSecret]; rt_handler := HBack h |}.

Lemma find_route_cases p rt : find_route p all_routes = Some rt ->
  (p = p_start /\ rt = rt_start) \/ (p = p_sign_in /\ rt = rt_sign_in) \/
  (p = p_sign_out /\ rt = rt_sign_out) \/ (p = p_callback /\ rt = rt_callback) \/
  (exists h, p = rt_path (rt_back h) /\ rt = rt_back h).
Proof.
  unfold all_routes, find_route. cbn [rt_path].
  repeat match goal with
  | |- context [str_eqb p ?c] =>
      let E := fresh "E" in destruct (str_eqb p c) eqn:E;
      [apply str_eqb_eq in E; intros H; inversion H; subst; clear H|]
  end; try discriminate.
  - left. split; reflexivity.
  - right; left. split; reflexivity.
  - right; right; left. split; reflexivity.
  - right; right; right; left. split; reflexivity.
  - right; right; right; right. exists B.HProfile. split; reflexivity.
  - right; right; right; right. exists B.HValidate. split; reflexivity.
  - right; right; right; right. exists B.HRedeem. split; reflexivity.
  - right; right; right; right. exists B.HRefresh. split; reflexivity.
Qed.

Lemma find_route_start : find_route p_start all_routes = Some rt_start. Proof. reflexivity. Qed.
Lemma find_route_sign_in : find_route p_sign_in all_routes = Some rt_sign_in. Proof. reflexivity. Qed.
Lemma find_route_sign_out : find_route p_sign_out all_routes = Some rt_sign_out. Proof. reflexivity. Qed.
Lemma find_route_callback : find_route p_callback all_routes = Some rt_callback. Proof. reflexivity. Qed.
Lemma find_route_back h : find_route (rt_path (rt_back h)) all_routes = Some (rt_back h).
Proof. destruct h; reflexivity. Qed.

(* route paths are pairwise distinct: "first match" is "the match" *)
Lemma route_paths_distinct : NoDup (map rt_path all_routes).
Proof.
  assert (H : forall l, (fix nd (l : list str) := match l with [] => true | x :: l' => negb (mem_str x l') && nd l' end) l = true -> NoDup l).
  { induction l as [|x l IH]; [constructor|]. intros H. apply andb_true_iff in H as [H1 H2].
    constructor; [|apply IH; exact H2]. intros Hin. apply mem_str_In in Hin. rewrite Hin in H1. discriminate. }
  apply H. vm_compute. reflexivity.
Qed.

(* ------------------------------------------------------------------------------------------ *)
(* gates: one step, on the form state invariant of AuthBack_proofs *)

Definition the_form := BP.the_form.
Definition fs_ok := BP.fs_ok.
Definition pending_err := BP.pending_err.

Section Gates.
Variable lower : str -> str.
Variables (d : deployment) (o : oracles) (now_ns : Z).

Definition redirect_value (r : B.request) : str := B.form_get k_redirect_uri (the_form r).
Definition sig_value (r : B.request) : str := B.form_get k_sig (the_form r).
Definition ts_value (r : B.request) : str := B.form_get k_ts (the_form r).

(* the verdict of each gate as a function of the request alone *)
Definition gate_passes_b (g : gate) (r : B.request) : bool :=
  match g with
  | GClientID => str_eqb (B.presented_id r) (d_client_id d)
  | GClientSecret => str_eqb (B.presented_secret r) (d_client_secret d)
  | GRedirectURI => G.valid_redirect_uri (redirect_value r) (root_domains d)
  | GSignature => G.valid_signature now_ns (redirect_value r) (sigval_of o (sig_value r)) (ts_value r) (d_client_secret d)
  end.
(* status on a ParseForm error / on refusal *)
Definition gate_codes (g : gate) : N * N :=
  match g with GClientID | GClientSecret => (500, 401) | GRedirectURI | GSignature => (400, 400) end.

Lemma gate_step g (f : hfun) r fs : fs_ok r fs ->
  apply_gate d o now_ns g f r fs =
    if pending_err r fs then gate_err r (fst (gate_codes g))
    else if gate_passes_b g r then f r (Some (the_form r)) else gate_err r (snd (gate_codes g)).
Proof.
  intros Hok. destruct g; cbn [apply_gate gate_codes fst snd gate_passes_b];
    unfold gate_client_id, gate_client_secret, gate_redirect_uri, gate_signature;
    rewrite (BP.parse_form_ok r fs Hok); fold (pending_err r fs); destruct (pending_err r fs); try reflexivity;
    unfold B.presented_id, B.presented_secret, B.form_of, redirect_value, sig_value, ts_value, the_form, BP.the_form; reflexivity.
Qed.

Lemma fs_ok_some r : fs_ok r (Some (the_form r)). Proof. right. reflexivity. Qed.
Lemma pending_some r f : pending_err r (Some f) = false. Proof. reflexivity. Qed.

Definition init_err (r : B.request) : bool := negb (d_pre d) && snd (B.compute_form r).
Lemma init_pending r : pending_err r (B.init_state (d_pre d) r) = init_err r.
Proof. unfold pending_err, init_err. rewrite BP.init_state_err. destruct (d_pre d); reflexivity. Qed.

(* ---- the chains of the real table, flattened ---- *)
Variables (slug : str) (p : F.pkind) (q : request) (an : answers).
Let now_s := (now_ns / ns)%Z.

Definition method_ok (ms : list str) (r : B.request) : bool := mem_str (B.rq_method r) ms.

(* /sign_in: withMethods(GET) > validateClientID > validateRedirectURI > validateSignature > SignIn *)
Lemma sign_in_flat r :
  serve_route lower d slug p q o an now_ns rt_sign_in r (B.init_state (d_pre d) r) =
  if negb (method_ok [B.m_get] r) then gate_err r 405
  else if init_err r then gate_err r 500
  else if negb (gate_passes_b GClientID r) then gate_err r 401
  else if negb (gate_passes_b GRedirectURI r) then gate_err r 400
  else if negb (gate_passes_b GSignature r) then gate_err r 400
  else h_sign_in lower d slug p q o an now_s r (Some (the_form r)).
Proof.
  unfold serve_route, with_methods, method_ok. cbn [rt_sign_in nth all_routes rt_methods rt_gates rt_handler wrap fold_right run_handler].
  destruct (mem_str (B.rq_method r) [B.m_get]); [|reflexivity]. cbn [negb].
  rewrite gate_step by apply BP.init_state_ok. rewrite init_pending. destruct (init_err r); [reflexivity|].
  cbn [gate_codes fst snd]. destruct (gate_passes_b GClientID r); [|reflexivity]. cbn [negb].
  rewrite gate_step by apply fs_ok_some. rewrite pending_some. destruct (gate_passes_b GRedirectURI r); [|reflexivity]. cbn [negb].
  rewrite gate_step by apply fs_ok_some. rewrite pending_some. destruct (gate_passes_b GSignature r); reflexivity.
Qed.

(* /sign_out: withMethods(GET, POST) > validateRedirectURI > validateSignature > SignOut *)
Lemma sign_out_flat r :
  serve_route lower d slug p q o an now_ns rt_sign_out r (B.init_state (d_pre d) r) =
  if negb (method_ok [B.m_get; B.m_post] r) then gate_err r 405
  else if init_err r then gate_err r 400
  else if negb (gate_passes_b GRedirectURI r) then gate_err r 400
  else if negb (gate_passes_b GSignature r) then gate_err r 400
  else h_sign_out d slug p q o an r (Some (the_form r)).
Proof.
  unfold serve_route, with_methods, method_ok. cbn [rt_sign_out nth all_routes rt_methods rt_gates rt_handler wrap fold_right run_handler].
  destruct (mem_str (B.rq_method r) [B.m_get; B.m_post]); [|reflexivity]. cbn [negb].
  rewrite gate_step by apply BP.init_state_ok. rewrite init_pending. destruct (init_err r); [reflexivity|].
  cbn [gate_codes fst snd]. destruct (gate_passes_b GRedirectURI r); [|reflexivity]. cbn [negb].
  rewrite gate_step by apply fs_ok_some. rewrite pending_some. destruct (gate_passes_b GSignature r); reflexivity.
Qed.

(* /start, /callback: withMethods(GET) only *)
Lemma start_flat r :
  serve_route lower d slug p q o an now_ns rt_start r (B.init_state (d_pre d) r) =
  if negb (method_ok [B.m_get] r) then gate_err r 405
  else h_start d o an now_ns r (B.init_state (d_pre d) r).
Proof.
  unfold serve_route, with_methods, method_ok. cbn [rt_start nth all_routes rt_methods rt_gates rt_handler wrap fold_right run_handler].
  destruct (mem_str (B.rq_method r) [B.m_get]); reflexivity.
Qed.

Lemma callback_flat r :
  serve_route lower d slug p q o an now_ns rt_callback r (B.init_state (d_pre d) r) =
  if negb (method_ok [B.m_get] r) then gate_err r 405
  else h_callback lower d slug p q an now_s r (B.init_state (d_pre d) r).
Proof.
  unfold serve_route, with_methods, method_ok. cbn [rt_callback nth all_routes rt_methods rt_gates rt_handler wrap fold_right run_handler].
  destruct (mem_str (B.rq_method r) [B.m_get]); reflexivity.
Qed.

(* the four back-channel routes: withMethods > validateClientID > validateClientSecret > handler *)
Lemma back_flat h r :
  serve_route lower d slug p q o an now_ns (rt_back h) r (B.init_state (d_pre d) r) =
  if negb (method_ok (rt_methods (rt_back h)) r) then gate_err r 405
  else if init_err r then gate_err r 500
  else if negb (gate_passes_b GClientID r) then gate_err r 401
  else if negb (gate_passes_b GClientSecret r) then gate_err r 401
  else h_back d p o an now_s h r (Some (the_form r)).
Proof.
  unfold serve_route, with_methods, method_ok. cbn [rt_back rt_methods rt_gates rt_handler wrap fold_right run_handler].
  destruct (mem_str (B.rq_method r) _); [|reflexivity]. cbn [negb].
  rewrite gate_step by apply BP.init_state_ok. rewrite init_pending. destruct (init_err r); [reflexivity|].
  cbn [gate_codes fst snd]. destruct (gate_passes_b GClientID r); [|reflexivity]. cbn [negb].
  rewrite gate_step by apply fs_ok_some. rewrite pending_some. destruct (gate_passes_b GClientSecret r); reflexivity.
Qed.

End Gates.

(* ------------------------------------------------------------------------------------------ *)
(* ADAPTERS: the integration model seen through each per-property model, proved faithful       *)

Section Adapters.
Variable lower : str -> str.
Variables (d : deployment) (o : oracles) (now_ns : Z) (slug : str) (p : F.pkind) (q : request) (an : answers).
Let now_s := (now_ns / ns)%Z.
Let e := benv d p o an now_s.
Let ck := cookie_of d o (lookup slug (q_sess q)).
Let pre := d_pre d.
Notation route_resp rt r := (serve_route lower d slug p q o an now_ns rt r (B.init_state pre r)).

(* ---- C08: AuthBack's route table view ---- *)
Definition b_route (h : B.handler) : B.route :=
  {| B.r_path := rt_path (rt_back h); B.r_methods := rt_methods (rt_back h);
     B.r_gates := [B.GClientID; B.GClientSecret]; B.r_handler := h |}.

Lemma b_route_found h : B.find_route (rt_path (rt_back h)) B.routes = Some (b_route h).
Proof. destruct h; reflexivity. Qed.

(* an AuthBack response as an integrated response: a refusal by the route (no handler ran) is the
   error page / JSON of ErrorResponse; a handler's answer keeps status, calls and JSON fields *)
Definition of_back (r : B.request) (rs : B.response) : response :=
  match B.rs_ran rs with
  | None => gate_err r (B.rs_status rs)
  | Some h => of_back_handler r h (match h with B.HRedeem => redeem_clears d e r (Some (the_form r)) | _ => false end) rs
  end.

Theorem back_adapter h r :
  route_resp (rt_back h) r = of_back r (B.serve_route (bcfg d) e (b_route h) r (B.init_state pre r)).
Proof.
  rewrite back_flat. unfold B.serve_route, B.with_methods, method_ok.
  change (B.r_methods (b_route h)) with (rt_methods (rt_back h)).
  destruct (mem_str (B.rq_method r) (rt_methods (rt_back h))); [|reflexivity]. cbn [negb].
  change (B.r_gates (b_route h)) with [B.GClientID; B.GClientSecret]. cbn [B.wrap fold_right].
  rewrite BP.gate_step by apply BP.init_state_ok.
  change (BP.pending_err r (B.init_state pre r)) with (pending_err r (B.init_state (d_pre d) r)).
  rewrite init_pending. destruct (init_err d r); [reflexivity|].
  change (BP.gate_passes_b (bcfg d) B.GClientID r) with (gate_passes_b d o now_ns GClientID r).
  destruct (gate_passes_b d o now_ns GClientID r); [|reflexivity]. cbn [negb].
  rewrite BP.gate_step by (right; reflexivity). cbn [BP.pending_err].
  change (BP.gate_passes_b (bcfg d) B.GClientSecret r) with (gate_passes_b d o now_ns GClientSecret r).
  destruct (gate_passes_b d o now_ns GClientSecret r); [|reflexivity]. cbn [negb].
  unfold of_back. change (B.r_handler (b_route h)) with h. rewrite BP.run_handler_ran. reflexivity.
Qed.

(* ... and at the level of AuthBack.serve (its whole table) *)
Theorem back_adapter_serve h :
  serve_auth lower d slug p q (rt_path (rt_back h)) o an now_ns =
  of_back (inner q (rt_path (rt_back h))) (B.serve (bcfg d) e pre (inner q (rt_path (rt_back h)))).
Proof.
  unfold serve_auth.
  assert (Hc : ReqUri.clean_path (rt_path (rt_back h)) = rt_path (rt_back h)) by (destruct h; vm_compute; reflexivity).
  rewrite Hc, str_eqb_refl. cbn [negb]. rewrite find_route_back.
  unfold B.serve, B.serve_table. change (B.rq_path (inner q (rt_path (rt_back h)))) with (rt_path (rt_back h)).
  rewrite b_route_found. apply back_adapter.
Qed.

(* ---- C09: AuthFlow's /sign_in with its oracle booleans REPLACED by the concrete gates ---- *)
Definition si_request_of (r : B.request) : F.si_request :=
  F.mkSI (method_ok [B.m_get] r) (gate_passes_b d o now_ns GClientID r) (gate_passes_b d o now_ns GRedirectURI r)
         (gate_passes_b d o now_ns GSignature r) (B.form_get k_state (the_form r)).

Definition gates_all (r : B.request) : bool :=
  method_ok [B.m_get] r && gate_passes_b d o now_ns GClientID r && gate_passes_b d o now_ns GRedirectURI r &&
  gate_passes_b d o now_ns GSignature r.

Lemma sign_in_only_state cfg pk now rq c rr vr :
  F.sign_in lower cfg pk now rq c rr vr =
  F.sign_in lower cfg pk now (F.mkSI true true true true (F.si_state rq)) c rr vr.
Proof. reflexivity. Qed.

Theorem sign_in_adapter r :
  route_resp rt_sign_in r =
  if method_ok [B.m_get] r && init_err d r then gate_err r 500
  else of_flow_sign_in r (o_query_ok o (redirect_value r)) (redirect_value r)
         (if gates_all r then Some HSignIn else None)
         (F.sign_in_route lower (fcfg d) p now_s (si_request_of r) ck (an_refresh an) (an_validate an)).
Proof.
  rewrite sign_in_flat. unfold F.sign_in_route, gates_all, si_request_of.
  cbn [F.si_get F.si_client_ok F.si_redirect_ok F.si_sig_ok].
  destruct (method_ok [B.m_get] r); cbn [negb andb]; [|reflexivity].
  destruct (init_err d r); [reflexivity|].
  destruct (gate_passes_b d o now_ns GClientID r); cbn [negb andb]; [|reflexivity].
  destruct (gate_passes_b d o now_ns GRedirectURI r); cbn [negb andb]; [|reflexivity].
  destruct (gate_passes_b d o now_ns GSignature r); cbn [negb andb]; [|reflexivity].
  rewrite sign_in_only_state. reflexivity.
Qed.

(* ---- C09: /start and /callback ---- *)
Theorem start_adapter r :
  route_resp rt_start r =
  of_flow_start r (if method_ok [B.m_get] r then Some HStart else None)
    (F.oauth_start (an_nonce an)
       (let sr := start_request_of d o now_ns r in
        F.mkST (method_ok [B.m_get] r) (F.st_outer_ok sr) (F.st_inner_ok sr) (F.st_sig_ok sr) (F.st_redirect sr))).
Proof.
  rewrite start_flat. unfold F.oauth_start. cbn [F.st_get F.st_outer_ok F.st_inner_ok F.st_sig_ok F.st_redirect].
  destruct (method_ok [B.m_get] r); cbn [negb]; [|reflexivity].
  unfold h_start, F.oauth_start.
  assert (Hg : F.st_get (start_request_of d o now_ns r) = true).
  { unfold start_request_of. destruct (o_parse_string o _); [|reflexivity].
    destruct (o_nested o _) as [[? ?] ?]. destruct (o_parse_string o _); reflexivity. }
  rewrite Hg. reflexivity.
Qed.

Definition cb_request_full (r : B.request) : F.cb_request :=
  let rq := cb_request_of d slug q (the_form r) in
  F.mkCB (method_ok [B.m_get] r) (F.cb_error rq) (F.cb_code rq) (F.cb_state rq) (F.cb_csrf rq) (F.cb_redirect_ok rq).

Theorem callback_adapter r :
  route_resp rt_callback r =
  if method_ok [B.m_get] r && init_err d r then err_with r 500 [] [] [] (Some HCallback)
  else of_flow_callback r (if method_ok [B.m_get] r then Some HCallback else None)
         (F.oauth_callback lower (fcfg d) now_s (cb_request_full r)
            (rd_of p an (B.form_get B.k_code (the_form r)))).
Proof.
  rewrite callback_flat. unfold cb_request_full.
  destruct (method_ok [B.m_get] r) eqn:Em; cbn [negb andb]; [|reflexivity].
  unfold h_callback. rewrite (BP.parse_form_ok r _ (BP.init_state_ok (d_pre d) r)).
  change (BP.pending_err r (B.init_state (d_pre d) r)) with (pending_err r (B.init_state (d_pre d) r)).
  rewrite init_pending. destruct (init_err d r); [reflexivity|].
  reflexivity.
Qed.

End Adapters.

(* ------------------------------------------------------------------------------------------ *)
(* routing *)

Lemma strip_prefix_spec p : forall s r, strip_prefix p s = Some r <-> s = p ++ r.
Proof.
  induction p as [|c p IH]; intros s r; cbn [strip_prefix app].
  - split; [intros H; inversion H; reflexivity | intros ->; reflexivity].
  - destruct s as [|c' s]; [split; [discriminate | intros H; discriminate]|].
    destruct (N.eqb c c') eqn:E.
    + apply N.eqb_eq in E. subst c'. rewrite IH. split; [intros ->; reflexivity | intros H; inversion H; reflexivity].
    + apply N.eqb_neq in E. split; [discriminate | intros H; inversion H; congruence].
Qed.

Lemma find_slug_spec path l slug k rest : find_slug path l = Some (slug, k, rest) ->
  In (slug, k) l /\ path = c_slash :: slug ++ rest.
Proof.
  induction l as [|[s0 k0] l IH]; cbn [find_slug]; [discriminate|].
  destruct (strip_prefix (c_slash :: s0) path) as [r0|] eqn:E.
  - intros H. inversion H; subst. apply strip_prefix_spec in E. split; [left; reflexivity | exact E].
  - intros H. destruct (IH H) as [Hin Hp]. split; [right; exact Hin | exact Hp].
Qed.

(* the request is handed to the service mux of the authenticator registered under [slug] *)
Definition routed (d : deployment) (q : request) (slug : str) (k : F.pkind) (rest : str) : Prop :=
  q_path q <> p_ping /\ q_host q = d_host d /\ ReqUri.clean_path (q_path q) = q_path q /\
  find_slug (q_path q) (d_slugs d) = Some (slug, k, rest).

Definition no_effect (r : response) : Prop :=
  r_ran r = None /\ r_sess_ops r = [] /\ r_csrf_ops r = [] /\ r_calls r = [] /\
  (r_loc r = LNone \/ exists p, r_loc r = LClean p) /\
  match r_body r with BJson _ | BSignInPage | BSignOutPage _ _ _ _ _ | BRedirect => False | _ => True end.

Section EndToEnd.
Variable lower : str -> str.

Lemma outside_no_effect st l b : (l = LNone \/ exists p, l = LClean p) ->
  match b with BJson _ | BSignInPage | BSignOutPage _ _ _ _ _ | BRedirect => False | _ => True end ->
  no_effect (outside st l b).
Proof. intros Hl Hb. unfold no_effect, outside. cbn. auto 10. Qed.

Lemma serve_inv d q o an now_ns :
  (r_secured (serve lower d q o an now_ns) = false /\ no_effect (serve lower d q o an now_ns) /\
   (q_host q <> d_host d -> q_path q <> p_ping -> r_status (serve lower d q o an now_ns) = 421)) \/
  exists slug k rest, routed d q slug k rest /\
    serve lower d q o an now_ns = serve_auth lower d slug k q rest o an now_ns.
Proof.
  unfold serve.
  destruct (str_eqb (q_path q) p_ping) eqn:Ep.
  { left. split; [reflexivity|]. split; [apply outside_no_effect; auto; exact I|].
    apply str_eqb_eq in Ep. intros _ H. congruence. }
  apply str_eqb_neq in Ep.
  destruct (str_eqb (q_host q) (d_host d)) eqn:Eh; cbn [negb].
  2:{ left. split; [reflexivity|]. split; [apply outside_no_effect; auto; exact I | reflexivity]. }
  apply str_eqb_eq in Eh.
  destruct (str_eqb (ReqUri.clean_path (q_path q)) (q_path q)) eqn:Ec; cbn [negb].
  2:{ left. split; [reflexivity|]. split; [apply outside_no_effect; [right; eexists; reflexivity | exact I]|]. congruence. }
  apply str_eqb_eq in Ec.
  destruct (find_slug (q_path q) (d_slugs d)) as [[[slug k] rest]|] eqn:Ef.
  - right. exists slug, k, rest. split; [repeat split; assumption | reflexivity].
  - left. destruct (has_prefix (q_path q) p_static); [|destruct (str_eqb (q_path q) p_robots)];
      (split; [reflexivity|]; split; [apply outside_no_effect; auto; exact I | congruence]).
Qed.

(* ---- every response from inside an authenticator went through setHeaders ---- *)
Lemma wrap_secured d o now_ns (h : hfun) : (forall r fs, r_secured (h r fs) = true) ->
  forall gs r fs, r_secured (wrap d o now_ns gs h r fs) = true.
Proof.
  intros Hh. induction gs as [|g gs IH]; intros r fs; cbn [wrap fold_right]; [apply Hh|].
  fold (wrap d o now_ns gs h).
  destruct g; cbn [apply_gate]; unfold gate_client_id, gate_client_secret, gate_redirect_uri, gate_signature;
    destruct (B.parse_form r fs) as [fs' e]; destruct e; try reflexivity;
    match goal with |- context [if ?b then _ else _] => destruct b end; try reflexivity; apply IH.
Qed.

Lemma handler_secured d slug p q o an now_ns h r fs :
  r_secured (run_handler lower d slug p q o an now_ns h r fs) = true.
Proof.
  destruct h; cbn [run_handler].
  - unfold h_start, of_flow_start. destruct (F.sr_state _); reflexivity.
  - unfold h_sign_in, of_flow_sign_in. destruct (F.r_code _); [destruct (o_query_ok _ _); reflexivity|].
    destruct (F.r_body _); reflexivity.
  - unfold h_sign_out. destruct (str_eqb _ _); destruct (acookie_of _); try reflexivity.
    destruct (S.revoke_ok _ _); reflexivity.
  - unfold h_callback. destruct (B.parse_form r fs) as [fs' e]. destruct e; [reflexivity|].
    unfold of_flow_callback. destruct (F.cr_saved _); [destruct (F.cr_location _)|]; reflexivity.
  - reflexivity.
Qed.

Lemma serve_auth_secured d slug p q rest o an now_ns :
  r_secured (serve_auth lower d slug p q rest o an now_ns) = true.
Proof.
  unfold serve_auth. destruct (negb _); [reflexivity|]. destruct (find_route rest all_routes) as [rt|]; [|reflexivity].
  unfold serve_route, with_methods. destruct (mem_str _ _); [|reflexivity].
  apply wrap_secured. intros. apply handler_secured.
Qed.

Theorem secured_iff_routed d q o an now_ns :
  r_secured (serve lower d q o an now_ns) = true <-> exists slug k rest, routed d q slug k rest.
Proof.
  split.
  - intros H. destruct (serve_inv d q o an now_ns) as [[Hf _]|[slug [k [rest [Hr _]]]]]; [congruence|].
    exists slug, k, rest. exact Hr.
  - intros [slug [k [rest Hr]]]. destruct (serve_inv d q o an now_ns) as [[Hf _]|[slug' [k' [rest' [Hr' He]]]]].
    + exfalso. destruct Hr as [Hp [Hh [Hc Hf']]]. unfold serve in Hf.
      apply str_eqb_neq in Hp. rewrite Hp in Hf. apply str_eqb_eq in Hh. rewrite Hh in Hf. cbn [negb] in Hf.
      rewrite Hc, str_eqb_refl in Hf. cbn [negb] in Hf. rewrite Hf' in Hf. rewrite serve_auth_secured in Hf. discriminate.
    + rewrite He. apply serve_auth_secured.
Qed.

(* ---- inside one authenticator: which route ---- *)
Lemma serve_auth_cases d slug p q rest o an now_ns :
  let resp := serve_auth lower d slug p q rest o an now_ns in
  let rr rt := serve_route lower d slug p q o an now_ns rt (inner q rest) (B.init_state (d_pre d) (inner q rest)) in
  (no_effect resp /\ (r_status resp = 301 \/ r_status resp = 404)) \/
  (rest = p_start /\ resp = rr rt_start) \/ (rest = p_sign_in /\ resp = rr rt_sign_in) \/
  (rest = p_sign_out /\ resp = rr rt_sign_out) \/ (rest = p_callback /\ resp = rr rt_callback) \/
  (exists h, rest = rt_path (rt_back h) /\ resp = rr (rt_back h)).
Proof.
  cbv zeta. unfold serve_auth. destruct (negb _).
  { left. split; [|left; reflexivity]. unfold no_effect, mk. cbn. repeat split; auto. right. eexists. reflexivity. }
  destruct (find_route rest all_routes) as [rt|] eqn:Ef.
  2:{ left. split; [|right; reflexivity]. unfold no_effect, mk. cbn. repeat split; auto. }
  right. destruct (find_route_cases rest rt Ef) as [[-> ->]|[[-> ->]|[[-> ->]|[[-> ->]|[h [-> ->]]]]]]; auto 10.
  right; right; right; right. exists h. split; reflexivity.
Qed.

End EndToEnd.

(* ------------------------------------------------------------------------------------------ *)
(* /sign_in end to end: C08's client-id gate, C07's concrete redirect and signature gates, C09's
   authenticate ladder, C08's redeem *)

Lemma key_of_cookie d k : key_of d k = F.KCookie -> k = d_cookie_key d.
Proof.
  unfold key_of. destruct (N.eqb k (d_cookie_key d)) eqn:E; [intros _; apply N.eqb_eq; exact E|].
  destruct (N.eqb k (d_code_key d)); discriminate.
Qed.

Lemma to_flow_back s : to_flow (to_back s) = s. Proof. destruct s; reflexivity. Qed.
Lemma to_back_flow s : to_back (to_flow s) = s. Proof. destruct s; reflexivity. Qed.

Lemma cookie_of_sealed d o v s0 : cookie_of d o v = F.CkSealed F.KCookie s0 ->
  exists c, v = Some c /\ o_open o c = Some (d_cookie_key d, to_back s0).
Proof.
  unfold cookie_of. destruct v as [c|]; [|discriminate].
  destruct (o_open o c) as [[k bs]|] eqn:E; [|discriminate].
  intros H. inversion H as [[Hk Hs]]. apply key_of_cookie in Hk. subst k.
  exists c. split; [reflexivity|]. rewrite to_back_flow. exact E.
Qed.

Section SignIn.
Variable lower : str -> str.
Variables (d : deployment) (o : oracles) (now_ns : Z) (slug : str) (p : F.pkind) (q : request) (an : answers).
Let now_s := (now_ns / ns)%Z.
Let ck := cookie_of d o (lookup slug (q_sess q)).
Let r := inner q p_sign_in.
Let resp := serve_route lower d slug p q o an now_ns rt_sign_in r (B.init_state (d_pre d) r).
Let fr := F.sign_in lower (fcfg d) p now_s (F.mkSI true true true true (B.form_get k_state (the_form r))) ck
                    (an_refresh an) (an_validate an).

Definition sign_in_gates_pass : Prop :=
  B.rq_method r = B.m_get /\ init_err d r = false /\
  B.presented_id r = d_client_id d /\
  G.valid_redirect_uri (redirect_value r) (root_domains d) = true /\
  G.valid_signature now_ns (redirect_value r) (sigval_of o (sig_value r)) (ts_value r) (d_client_secret d) = true.

Lemma method_get_only m : mem_str m [B.m_get] = true -> m = B.m_get.
Proof. intros H. apply mem_str_In in H. destruct H as [H|[]]. symmetry. exact H. Qed.

(* the handler is entered exactly behind the whole chain, in its real order *)
Lemma sign_in_entered :
  r_ran resp = Some HSignIn ->
  sign_in_gates_pass /\
  resp = of_flow_sign_in r (o_query_ok o (redirect_value r)) (redirect_value r) (Some HSignIn) fr.
Proof.
  unfold resp. rewrite sign_in_flat. unfold method_ok.
  destruct (mem_str (B.rq_method r) [B.m_get]) eqn:Em; cbn [negb]; [|discriminate].
  destruct (init_err d r) eqn:Ei; [discriminate|].
  destruct (gate_passes_b d o now_ns GClientID r) eqn:E1; cbn [negb]; [|discriminate].
  destruct (gate_passes_b d o now_ns GRedirectURI r) eqn:E2; cbn [negb]; [|discriminate].
  destruct (gate_passes_b d o now_ns GSignature r) eqn:E3; cbn [negb]; [|discriminate].
  intros _. split; [|reflexivity].
  cbn [gate_passes_b] in E1, E2, E3. apply str_eqb_eq in E1.
  repeat split; try assumption. apply method_get_only. exact Em.
Qed.

Lemma sign_in_refused :
  r_ran resp = None ->
  exists code, resp = gate_err r code /\ (code = 405 \/ code = 500 \/ code = 401 \/ code = 400).
Proof.
  unfold resp. rewrite sign_in_flat.
  destruct (negb (method_ok [B.m_get] r)); [intros _; eexists; split; [reflexivity | auto]|].
  destruct (init_err d r); [intros _; eexists; split; [reflexivity | auto]|].
  destruct (negb (gate_passes_b d o now_ns GClientID r)); [intros _; eexists; split; [reflexivity | auto]|].
  destruct (negb (gate_passes_b d o now_ns GRedirectURI r)); [intros _; eexists; split; [reflexivity | auto 6]|].
  destruct (negb (gate_passes_b d o now_ns GSignature r)); [intros _; eexists; split; [reflexivity | auto 6]|].
  unfold h_sign_in, of_flow_sign_in. destruct (F.r_code _); [destruct (o_query_ok _ _); discriminate|].
  destruct (F.r_body _); discriminate.
Qed.

Lemma sign_in_ran_cases : r_ran resp = Some HSignIn \/ r_ran resp = None.
Proof.
  unfold resp. rewrite sign_in_flat.
  repeat match goal with |- context [if ?b then gate_err _ _ else _] => destruct b; [right; reflexivity|] end.
  left. unfold h_sign_in, of_flow_sign_in. destruct (F.r_code _); [destruct (o_query_ok _ _); reflexivity|].
  destruct (F.r_body _); reflexivity.
Qed.

Lemma sign_in_loc_code src s : r_loc resp = LCode src s ->
  sign_in_gates_pass /\ src = redirect_value r /\ o_query_ok o src = true /\ F.r_code fr = Some s /\
  resp = mk 302 (LCode src s) (F.r_ops fr) [] (calls_of_flow (F.r_calls fr)) BRedirect (Some HSignIn).
Proof.
  intros Hl. destruct sign_in_ran_cases as [Hr|Hr].
  - destruct (sign_in_entered Hr) as [Hg He]. rewrite He in Hl |- *. unfold of_flow_sign_in in *.
    destruct (F.r_code fr) as [s'|] eqn:Ec.
    + destruct (o_query_ok o (redirect_value r)) eqn:Eq; [|discriminate Hl].
      cbn in Hl. inversion Hl; subst. split; [exact Hg|]. split; [reflexivity|]. split; [exact Eq|]. split; reflexivity.
    + destruct (F.r_body fr); discriminate Hl.
  - destruct (sign_in_refused Hr) as [code [He _]]. rewrite He in Hl. discriminate Hl.
Qed.

(* INT_code_end_to_end, first half: everything that must have been true of THIS request *)
Theorem code_sound_int src s : r_loc resp = LCode src s ->
  (* route and gates, in the order of newMux *)
  sign_in_gates_pass /\ src = redirect_value r /\ B.form_get k_state (the_form r) <> [] /\
  (* C07: the redirect host, under every RFC 3986 reading, is in a configured root domain *)
  (forall sch ui h port rest, Url.rfc_split src sch ui h port rest ->
     G.in_domain (Url.rfc_hostname h) (d_proxy_domains d)) /\
  (* C07: signed by the holder of the client secret over src ++ decimal(t), fresh *)
  (exists t, G.parse_int (ts_value r) = Some t /\
             sigval_of o (sig_value r) = G.SigTag (G.Mac (d_client_secret d) (src ++ G.dec t)) /\
             (now_ns - t * ns <= G.ttl_ns)%Z) /\
  (* C09: the cookie opens under the COOKIE key, within lifetime, IdP confirmed now, rule passes *)
  (exists c s0, lookup slug (q_sess q) = Some c /\ o_open o c = Some (d_cookie_key d, to_back s0) /\
     (now_s <= F.s_lifetime s0)%Z /\ F.rule_passes lower (fcfg d) (F.s_email s0) = true /\
     F.s_email s = F.s_email s0 /\ F.s_lifetime s = F.s_lifetime s0 /\ F.s_rtok s = F.s_rtok s0 /\
     r_sess_ops resp = [F.OpSet s] /\
     (FP.refreshed_ok now_s s0 (an_refresh an) s (F.r_calls fr) \/
      FP.validated_ok p now_s s0 (an_validate an) s (F.r_calls fr)) /\
     r_calls resp = map CIdp (F.r_calls fr)) /\
  r_status resp = 302 /\ r_ran resp = Some HSignIn.
Proof.
  intros Hl. destruct (sign_in_loc_code src s Hl) as [Hg [Hs [Hq [Hc He]]]].
  pose proof (FP.code_sound lower (fcfg d) p now_s (F.mkSI true true true true (B.form_get k_state (the_form r))) ck
                (an_refresh an) (an_validate an) s Hc) as [[_ [_ [_ [_ Hst]]]] [s0 [Hck [Hlt [Hru [Hem [Hli [Hrt [Hops Hor]]]]]]]]].
  destruct Hg as [Hm [Hi [Hid [Hru' Hsg]]]].
  split; [repeat split; assumption|]. split; [exact Hs|]. split; [exact Hst|].
  split. { intros sch ui h port rest Hsp. rewrite Hs in Hsp. exact (GP.host_in_domain _ _ _ _ _ _ _ Hru' Hsp). }
  split. { destruct (GP.valid_signature_sound _ _ _ _ _ Hsg) as [_ [_ [_ [_ [t [Ht [Hm' Ha]]]]]]].
           exists t. rewrite Hs. repeat split; assumption. }
  split. { destruct (cookie_of_sealed d o _ s0 Hck) as [c [Hlk Hop]].
           exists c, s0. rewrite He. cbn [r_sess_ops r_calls mk].
           repeat split; try assumption. }
  rewrite He. split; reflexivity.
Qed.

End SignIn.

(* ------------------------------------------------------------------------------------------ *)
(* back channel: C08 through the adapter *)

Section Back.
Variable lower : str -> str.
Variables (d : deployment) (o : oracles) (now_ns : Z) (slug : str) (p : F.pkind) (q : request) (an : answers).
Let now_s := (now_ns / ns)%Z.
Let e := benv d p o an now_s.
Variable h : B.handler.
Let r := inner q (rt_path (rt_back h)).
Let resp := serve_route lower d slug p q o an now_ns (rt_back h) r (B.init_state (d_pre d) r).
Let rs := B.serve_route (bcfg d) e (b_route h) r (B.init_state (d_pre d) r).

Lemma b_route_both : BP.both_gates (b_route h).
Proof. split; cbn; auto. Qed.

Lemma resp_of_back : resp = of_back d o now_ns p an r rs.
Proof. apply back_adapter. Qed.

Lemma of_back_ran rq rs0 : r_ran (of_back d o now_ns p an rq rs0) = option_map HBack (B.rs_ran rs0).
Proof. unfold of_back. destruct (B.rs_ran rs0); reflexivity. Qed.
Lemma of_back_status rq rs0 : r_status (of_back d o now_ns p an rq rs0) = B.rs_status rs0.
Proof. unfold of_back. destruct (B.rs_ran rs0); reflexivity. Qed.

(* C08_gate_sound for the integrated response: a back-channel handler runs only for a caller who
   presented the configured client id AND secret (as the gates read them) with the allowed method;
   otherwise 405 / 500 (bare mux only) / 401, no IdP call, no cookie effect, an error body *)
Theorem back_gate_sound_int :
  (forall h', r_ran resp = Some h' ->
     h' = HBack h /\ mem_str (B.rq_method r) (rt_methods (rt_back h)) = true /\
     B.presented_id r = d_client_id d /\ B.presented_secret r = d_client_secret d) /\
  (r_ran resp = None ->
     r_calls resp = [] /\ r_sess_ops resp = [] /\ r_csrf_ops resp = [] /\ r_loc resp = LNone /\
     r_body resp = err_body r (r_status resp) /\
     ((r_status resp = 405 /\ mem_str (B.rq_method r) (rt_methods (rt_back h)) = false) \/
      (r_status resp = 500 /\ d_pre d = false /\ snd (B.compute_form r) = true) \/
      (r_status resp = 401 /\ (B.presented_id r <> d_client_id d \/ B.presented_secret r <> d_client_secret d)))).
Proof.
  destruct (BP.gate_sound (bcfg d) e (b_route h) r (d_pre d) b_route_both) as [H1 H2].
  fold rs in H1, H2. rewrite resp_of_back. rewrite of_back_ran. split.
  - intros h' Hr. destruct (B.rs_ran rs) as [h0|] eqn:Er; [|discriminate]. cbn in Hr. inversion Hr; subst.
    destruct (H1 h0 eq_refl) as [-> [Hm [Hi Hs]]]. auto.
  - intros Hr. destruct (B.rs_ran rs) as [h0|] eqn:Er; [discriminate|].
    destruct (H2 eq_refl) as [_ [_ Hst]]. unfold of_back. rewrite Er. cbn.
    repeat split; try reflexivity. exact Hst.
Qed.

(* ... hence the configured values occur among what the caller sent, wherever it put them *)
Theorem back_knowledge_int h' :
  d_client_id d <> [] -> d_client_secret d <> [] -> r_ran resp = Some h' ->
  In (d_client_id d) (B.id_values r) /\ In (d_client_secret d) (B.secret_values r).
Proof.
  intros Hi Hs Hr. rewrite resp_of_back, of_back_ran in Hr.
  destruct (B.rs_ran rs) as [h0|] eqn:Er; [|discriminate].
  exact (BP.gate_sound_knowledge (bcfg d) e (b_route h) r (d_pre d) h0 b_route_both Hi Hs Er).
Qed.

(* effects need the handler *)
Lemma back_effects_need_handler :
  r_ran resp = None -> r_calls resp = [] /\ (forall b, r_body resp <> BJson b).
Proof.
  intros Hr. destruct back_gate_sound_int as [_ H2]. destruct (H2 Hr) as [Hc [_ [_ [_ [Hb _]]]]].
  split; [exact Hc|]. intros b. rewrite Hb. unfold err_body. destruct (accept_json r); discriminate.
Qed.

End Back.

(* ---- /redeem: only genuine codes redeem (C08_redeem_genuine), and an issued code does redeem ---- *)
Section Redeem.
Variable lower : str -> str.
Variables (d : deployment) (o : oracles) (now_ns : Z) (slug : str) (p : F.pkind) (q : request) (an : answers).
Let now_s := (now_ns / ns)%Z.
Let e := benv d p o an now_s.
Let r := inner q B.p_redeem.
Let resp := serve_route lower d slug p q o an now_ns (rt_back B.HRedeem) r (B.init_state (d_pre d) r).

Definition session_json (s : B.session) (now : Z) : B.body :=
  {| B.b_access := Some (B.s_access s); B.b_refresh := Some (B.s_refresh_tok s);
     B.b_email := Some (B.s_email s); B.b_expires := Some (B.s_refresh_dl s - now)%Z; B.b_groups := None |}.

Theorem redeem_genuine_int :
  r_status resp = 200 ->
  exists s, o_open o (B.presented_code r) = Some (d_code_key d, s) /\
    (now_s <= B.s_refresh_dl s)%Z /\ (now_s <= B.s_lifetime_dl s)%Z /\
    r_body resp = BJson (session_json s now_s) /\ r_calls resp = [] /\ r_sess_ops resp = [] /\
    B.presented_id r = d_client_id d /\ B.presented_secret r = d_client_secret d /\ B.rq_method r = B.m_post.
Proof.
  intros Hst.
  pose (rs := B.serve_route (bcfg d) e (b_route B.HRedeem) r (B.init_state (d_pre d) r)).
  assert (Ha : resp = of_back d o now_ns p an r rs) by apply back_adapter.
  assert (Hs : B.serve (bcfg d) e (d_pre d) r = rs) by reflexivity.
  rewrite Ha, of_back_status in Hst.
  destruct (BP.redeem_genuine (bcfg d) e (d_pre d) r eq_refl) as [s [Ho [Hr [Hl [Hb [Hc [Hi [Hsec Hm]]]]]]]].
  { rewrite Hs. exact Hst. }
  rewrite Hs in Hb, Hc. exists s. split; [exact Ho|]. split; [exact Hr|]. split; [exact Hl|].
  destruct (BP.gate_sound (bcfg d) e (b_route B.HRedeem) r (d_pre d) (b_route_both B.HRedeem)) as [G1 G2].
  change (B.serve_route (bcfg d) e (b_route B.HRedeem) r (B.init_state (d_pre d) r)) with rs in G1, G2.
  destruct (B.rs_ran rs) as [h0|] eqn:Er.
  2:{ exfalso. destruct (G2 eq_refl) as [_ [_ [[X _]|[[X _]|[X _]]]]]; rewrite Hst in X; discriminate. }
  destruct (G1 h0 eq_refl) as [-> _]. rewrite Ha. unfold of_back. rewrite Er. unfold of_back_handler, mk. cbn [r_body r_calls r_sess_ops].
  unfold back_body. rewrite Hb, Hc. cbn [has_field B.b_access]. cbn [flat_map].
  split; [reflexivity|]. split; [reflexivity|].
  split; [|auto].
  (* not expired, so nothing is cleared *)
  unfold redeem_clears. cbn [B.parse_form]. cbn [negb andb B.form_of].
  change (B.form_get B.k_code (the_form r)) with (B.presented_code r).
  change (AuthBack.r_handler (b_route B.HRedeem)) with B.HRedeem. cbv iota.
  change (benv d p o an (now_ns / ns)) with e.
  unfold B.unseal. rewrite Ho. change (AuthBack.cfg_code_key (bcfg d)) with (d_code_key d). rewrite N.eqb_refl.
  assert (X1 : (B.s_refresh_dl s <? B.e_now e)%Z = false) by (apply Z.ltb_ge; exact Hr).
  assert (X2 : (B.s_lifetime_dl s <? B.e_now e)%Z = false) by (apply Z.ltb_ge; exact Hl).
  rewrite X1, X2. reflexivity.
Qed.

(* the converse, which closes the loop with /sign_in: a string that opens under the auth-code key
   to a live session, presented by a caller with the client credentials, redeems to exactly that
   session's e-mail and tokens *)
Theorem code_redeems_int s :
  B.rq_method r = B.m_post -> init_err d r = false ->
  B.presented_id r = d_client_id d -> B.presented_secret r = d_client_secret d ->
  o_open o (B.presented_code r) = Some (d_code_key d, s) ->
  (now_s <= B.s_refresh_dl s)%Z -> (now_s <= B.s_lifetime_dl s)%Z ->
  r_status resp = 200 /\ r_body resp = BJson (session_json s now_s) /\ r_calls resp = [] /\
  r_sess_ops resp = [] /\ r_ran resp = Some (HBack B.HRedeem).
Proof.
  intros Hm Hi Hid Hsec Ho Hr Hl. unfold resp. rewrite back_flat. unfold method_ok.
  cbn [rt_back rt_methods]. rewrite Hm. cbn [mem_str]. rewrite str_eqb_refl. cbn [orb negb].
  rewrite Hi. cbn [gate_passes_b]. rewrite Hid, Hsec, !str_eqb_refl. cbn [negb].
  unfold h_back, of_back_handler, redeem_clears. cbn [B.run_handler B.redeem B.parse_form B.form_of negb andb].
  change (B.form_get B.k_code (the_form r)) with (B.presented_code r).
  unfold B.unseal. cbn [B.e_open benv B.cfg_code_key bcfg]. rewrite Ho, N.eqb_refl.
  change (B.e_now (benv d p o an (now_ns / ns))) with now_s.
  assert (X1 : (B.s_refresh_dl s <? now_s)%Z = false) by (apply Z.ltb_ge; exact Hr).
  assert (X2 : (B.s_lifetime_dl s <? now_s)%Z = false) by (apply Z.ltb_ge; exact Hl).
  rewrite X1, X2. cbn. repeat split; reflexivity.
Qed.

End Redeem.
