(* AuthAll_proofs.v — lemmas about the integration model of sso-auth (theories/AuthAll.v):
   routing, the gate chains of the real route table in flattened form, the adapters to the
   per-property models (proved faithful), and the end-to-end theorems obtained by composing
   the per-property theorems (C07, C08, C09, C10, C18, C19, C20). *)
From V Require Import Base Base_proofs AuthAll Gen_AuthBackRoutes.
From V Require Url Url_proofs AuthGates_proofs AuthBack_proofs AuthFlow_proofs IdToken_proofs
               SignOut_proofs RespHeaders_gen_proofs Html Html_pages_proofs Json Json_proofs Gen_Templates.
From Coq Require Import ZifyBool ZifyN.

Module GP := V.AuthGates_proofs.
Module BP := V.AuthBack_proofs.
Module FP := V.AuthFlow_proofs.
Module TP := V.IdToken_proofs.
Module SP := V.SignOut_proofs.
Module HP := V.RespHeaders_gen_proofs.

Local Open Scope N_scope.

(* ------------------------------------------------------------------------------------------ *)
(* the route table *)

(* the route table of the integration model IS the table in the Go source of newMux: paths,
   methods, middleware chain in order, handler — all eight routes, nothing else *)
Theorem source_table_is_all_routes : translate_all auth_routes_src = Some all_routes.
Proof. vm_compute. reflexivity. Qed.

Definition rt_start := nth 0 all_routes (Build_route [] [] [] HStart).
Definition rt_sign_in := nth 1 all_routes (Build_route [] [] [] HStart).
Definition rt_sign_out := nth 2 all_routes (Build_route [] [] [] HStart).
Definition rt_callback := nth 3 all_routes (Build_route [] [] [] HStart).
Definition rt_back (h : B.handler) : route :=
  {| rt_path := match h with B.HProfile => B.p_profile | B.HValidate => B.p_validate
                           | B.HRedeem => B.p_redeem | B.HRefresh => B.p_refresh end;
     rt_methods := match h with B.HProfile | B.HValidate => [B.m_get] | _ => [B.m_post] end;
     rt_gates := [GClientID; GClientSecret]; rt_handler := HBack h |}.

Lemma find_route_cases p rt : find_route p all_routes = Some rt ->
  (p = p_start /\ rt = rt_start) \/ (p = p_sign_in /\ rt = rt_sign_in) \/
  (p = p_sign_out /\ rt = rt_sign_out) \/ (p = p_callback /\ rt = rt_callback) \/
  (exists h, p = rt_path (rt_back h) /\ rt = rt_back h).
Proof.
  unfold all_routes, find_route. cbn [rt_path].
  repeat match goal with
  | |- context [str_eqb p ?c] =>
      let E := fresh "E" in destruct (str_eqb p c) eqn:E;
      [apply str_eqb_eq in E; intros H; inversion H; subst; clear H|]
  end; try discriminate.
  - left. split; reflexivity.
  - right; left. split; reflexivity.
  - right; right; left. split; reflexivity.
  - right; right; right; left. split; reflexivity.
  - right; right; right; right. exists B.HProfile. split; reflexivity.
  - right; right; right; right. exists B.HValidate. split; reflexivity.
  - right; right; right; right. exists B.HRedeem. split; reflexivity.
  - right; right; right; right. exists B.HRefresh. split; reflexivity.
Qed.

Lemma find_route_start : find_route p_start all_routes = Some rt_start. Proof. reflexivity. Qed.
Lemma find_route_sign_in : find_route p_sign_in all_routes = Some rt_sign_in. Proof. reflexivity. Qed.
Lemma find_route_sign_out : find_route p_sign_out all_routes = Some rt_sign_out. Proof. reflexivity. Qed.
Lemma find_route_callback : find_route p_callback all_routes = Some rt_callback. Proof. reflexivity. Qed.
Lemma find_route_back h : find_route (rt_path (rt_back h)) all_routes = Some (rt_back h).
Proof. destruct h; reflexivity. Qed.

(* route paths are pairwise distinct: "first match" is "the match" *)
Lemma route_paths_distinct : NoDup (map rt_path all_routes).
Proof.
  assert (H : forall l, (fix nd (l : list str) := match l with [] => true | x :: l' => negb (mem_str x l') && nd l' end) l = true -> NoDup l).
  { induction l as [|x l IH]; [constructor|]. intros H. apply andb_true_iff in H as [H1 H2].
    constructor; [|apply IH; exact H2]. intros Hin. apply mem_str_In in Hin. rewrite Hin in H1. discriminate. }
  apply H. vm_compute. reflexivity.
Qed.

(* ------------------------------------------------------------------------------------------ *)
(* gates: one step, on the form state invariant of AuthBack_proofs *)

Definition the_form := BP.the_form.
Definition fs_ok := BP.fs_ok.
Definition pending_err := BP.pending_err.

Section Gates.
Variable lower : str -> str.
Variables (d : deployment) (o : oracles) (now_ns : Z).

Definition redirect_value (r : B.request) : str := B.form_get k_redirect_uri (the_form r).
Definition sig_value (r : B.request) : str := B.form_get k_sig (the_form r).
Definition ts_value (r : B.request) : str := B.form_get k_ts (the_form r).

(* the verdict of each gate as a function of the request alone *)
Definition gate_passes_b (g : gate) (r : B.request) : bool :=
  match g with
  | GClientID => str_eqb (B.presented_id r) (d_client_id d)
  | GClientSecret => str_eqb (B.presented_secret r) (d_client_secret d)
  | GRedirectURI => G.valid_redirect_uri (redirect_value r) (root_domains d)
  | GSignature => G.valid_signature now_ns (redirect_value r) (sigval_of o (sig_value r)) (ts_value r) (d_client_secret d)
  end.
(* status on a ParseForm error / on refusal *)
Definition gate_codes (g : gate) : N * N :=
  match g with GClientID | GClientSecret => (500, 401) | GRedirectURI | GSignature => (400, 400) end.

Lemma gate_step g (f : hfun) r fs : fs_ok r fs ->
  apply_gate d o now_ns g f r fs =
    if pending_err r fs then gate_err r (fst (gate_codes g))
    else if gate_passes_b g r then f r (Some (the_form r)) else gate_err r (snd (gate_codes g)).
Proof.
  intros Hok. destruct g; cbn [apply_gate gate_codes fst snd gate_passes_b];
    unfold gate_client_id, gate_client_secret, gate_redirect_uri, gate_signature;
    rewrite (BP.parse_form_ok r fs Hok); fold (pending_err r fs); destruct (pending_err r fs); try reflexivity;
    unfold B.presented_id, B.presented_secret, B.form_of, redirect_value, sig_value, ts_value, the_form, BP.the_form; reflexivity.
Qed.

Lemma fs_ok_some r : fs_ok r (Some (the_form r)). Proof. right. reflexivity. Qed.
Lemma pending_some r f : pending_err r (Some f) = false. Proof. reflexivity. Qed.

Definition init_err (r : B.request) : bool := negb (d_pre d) && snd (B.compute_form r).
Lemma init_pending r : pending_err r (B.init_state (d_pre d) r) = init_err r.
Proof. unfold pending_err, init_err. rewrite BP.init_state_err. destruct (d_pre d); reflexivity. Qed.

(* ---- the chains of the real table, flattened ---- *)
Variables (slug : str) (p : akind) (q : request) (an : answers).
Let now_s := (now_ns / ns)%Z.

Definition method_ok (ms : list str) (r : B.request) : bool := mem_str (B.rq_method r) ms.

(* /sign_in: withMethods(GET) > validateClientID > validateRedirectURI > validateSignature > SignIn *)
Lemma sign_in_flat r :
  serve_route lower d slug p q o an now_ns rt_sign_in r (B.init_state (d_pre d) r) =
  if negb (method_ok [B.m_get] r) then gate_err r 405
  else if init_err r then gate_err r 500
  else if negb (gate_passes_b GClientID r) then gate_err r 401
  else if negb (gate_passes_b GRedirectURI r) then gate_err r 400
  else if negb (gate_passes_b GSignature r) then gate_err r 400
  else h_sign_in lower d slug p q o an now_s r (Some (the_form r)).
Proof.
  unfold serve_route, with_methods, method_ok. cbn [rt_sign_in nth all_routes rt_methods rt_gates rt_handler wrap fold_right run_handler].
  destruct (mem_str (B.rq_method r) [B.m_get]); [|reflexivity]. cbn [negb].
  rewrite gate_step by apply BP.init_state_ok. rewrite init_pending. destruct (init_err r); [reflexivity|].
  cbn [gate_codes fst snd]. destruct (gate_passes_b GClientID r); [|reflexivity]. cbn [negb].
  rewrite gate_step by apply fs_ok_some. rewrite pending_some. destruct (gate_passes_b GRedirectURI r); [|reflexivity]. cbn [negb].
  rewrite gate_step by apply fs_ok_some. rewrite pending_some. destruct (gate_passes_b GSignature r); reflexivity.
Qed.

(* /sign_out: withMethods(GET, POST) > validateRedirectURI > validateSignature > SignOut *)
Lemma sign_out_flat r :
  serve_route lower d slug p q o an now_ns rt_sign_out r (B.init_state (d_pre d) r) =
  if negb (method_ok [B.m_get; B.m_post] r) then gate_err r 405
  else if init_err r then gate_err r 400
  else if negb (gate_passes_b GRedirectURI r) then gate_err r 400
  else if negb (gate_passes_b GSignature r) then gate_err r 400
  else h_sign_out d slug p q o an r (Some (the_form r)).
Proof.
  unfold serve_route, with_methods, method_ok. cbn [rt_sign_out nth all_routes rt_methods rt_gates rt_handler wrap fold_right run_handler].
  destruct (mem_str (B.rq_method r) [B.m_get; B.m_post]); [|reflexivity]. cbn [negb].
  rewrite gate_step by apply BP.init_state_ok. rewrite init_pending. destruct (init_err r); [reflexivity|].
  cbn [gate_codes fst snd]. destruct (gate_passes_b GRedirectURI r); [|reflexivity]. cbn [negb].
  rewrite gate_step by apply fs_ok_some. rewrite pending_some. destruct (gate_passes_b GSignature r); reflexivity.
Qed.

(* /start, /callback: withMethods(GET) only *)
Lemma start_flat r :
  serve_route lower d slug p q o an now_ns rt_start r (B.init_state (d_pre d) r) =
  if negb (method_ok [B.m_get] r) then gate_err r 405
  else h_start d o an now_ns r (B.init_state (d_pre d) r).
Proof.
  unfold serve_route, with_methods, method_ok. cbn [rt_start nth all_routes rt_methods rt_gates rt_handler wrap fold_right run_handler].
  destruct (mem_str (B.rq_method r) [B.m_get]); reflexivity.
Qed.

Lemma callback_flat r :
  serve_route lower d slug p q o an now_ns rt_callback r (B.init_state (d_pre d) r) =
  if negb (method_ok [B.m_get] r) then gate_err r 405
  else h_callback lower d slug p q an now_s r (B.init_state (d_pre d) r).
Proof.
  unfold serve_route, with_methods, method_ok. cbn [rt_callback nth all_routes rt_methods rt_gates rt_handler wrap fold_right run_handler].
  destruct (mem_str (B.rq_method r) [B.m_get]); reflexivity.
Qed.

(* the four back-channel routes: withMethods > validateClientID > validateClientSecret > handler *)
Lemma back_flat h r :
  serve_route lower d slug p q o an now_ns (rt_back h) r (B.init_state (d_pre d) r) =
  if negb (method_ok (rt_methods (rt_back h)) r) then gate_err r 405
  else if init_err r then gate_err r 500
  else if negb (gate_passes_b GClientID r) then gate_err r 401
  else if negb (gate_passes_b GClientSecret r) then gate_err r 401
  else h_back d p o an now_s h r (Some (the_form r)).
Proof.
  unfold serve_route, with_methods, method_ok. cbn [rt_back rt_methods rt_gates rt_handler wrap fold_right run_handler].
  destruct (mem_str (B.rq_method r) _); [|reflexivity]. cbn [negb].
  rewrite gate_step by apply BP.init_state_ok. rewrite init_pending. destruct (init_err r); [reflexivity|].
  cbn [gate_codes fst snd]. destruct (gate_passes_b GClientID r); [|reflexivity]. cbn [negb].
  rewrite gate_step by apply fs_ok_some. rewrite pending_some. destruct (gate_passes_b GClientSecret r); reflexivity.
Qed.

End Gates.

(* ------------------------------------------------------------------------------------------ *)
(* ADAPTERS: the integration model seen through each per-property model, proved faithful       *)

Section Adapters.
Variable lower : str -> str.
Variables (d : deployment) (o : oracles) (now_ns : Z) (slug : str) (p : akind) (q : request) (an : answers).
Let now_s := (now_ns / ns)%Z.
Let e := benv d p o an now_s.
Let ck := cookie_of d o (lookup slug (q_sess q)).
Let pre := d_pre d.
Notation route_resp rt r := (serve_route lower d slug p q o an now_ns rt r (B.init_state pre r)).

(* ---- C08: AuthBack's route table view ---- *)
Definition b_route (h : B.handler) : B.route :=
  {| B.r_path := rt_path (rt_back h); B.r_methods := rt_methods (rt_back h);
     B.r_gates := [B.GClientID; B.GClientSecret]; B.r_handler := h |}.

Lemma b_route_found h : B.find_route (rt_path (rt_back h)) B.routes = Some (b_route h).
Proof. destruct h; reflexivity. Qed.

(* an AuthBack response as an integrated response: a refusal by the route (no handler ran) is the
   error page / JSON of ErrorResponse; a handler's answer keeps status, calls and JSON fields *)
Definition of_back (r : B.request) (rs : B.response) : response :=
  match B.rs_ran rs with
  | None => gate_err r (B.rs_status rs)
  | Some h => of_back_handler r h (match h with B.HRedeem => redeem_clears d e r (Some (the_form r)) | _ => false end) rs
  end.

Theorem back_adapter h r :
  route_resp (rt_back h) r = of_back r (B.serve_route (bcfg d) e (b_route h) r (B.init_state pre r)).
Proof.
  rewrite back_flat. unfold B.serve_route, B.with_methods, method_ok.
  change (B.r_methods (b_route h)) with (rt_methods (rt_back h)).
  destruct (mem_str (B.rq_method r) (rt_methods (rt_back h))); [|reflexivity]. cbn [negb].
  change (B.r_gates (b_route h)) with [B.GClientID; B.GClientSecret]. cbn [B.wrap fold_right].
  rewrite BP.gate_step by apply BP.init_state_ok.
  change (BP.pending_err r (B.init_state pre r)) with (pending_err r (B.init_state (d_pre d) r)).
  rewrite init_pending. destruct (init_err d r); [reflexivity|].
  change (BP.gate_passes_b (bcfg d) B.GClientID r) with (gate_passes_b d o now_ns GClientID r).
  destruct (gate_passes_b d o now_ns GClientID r); [|reflexivity]. cbn [negb].
  rewrite BP.gate_step by (right; reflexivity). cbn [BP.pending_err].
  change (BP.gate_passes_b (bcfg d) B.GClientSecret r) with (gate_passes_b d o now_ns GClientSecret r).
  destruct (gate_passes_b d o now_ns GClientSecret r); [|reflexivity]. cbn [negb].
  unfold of_back. change (B.r_handler (b_route h)) with h. rewrite BP.run_handler_ran. reflexivity.
Qed.

(* ... and at the level of AuthBack.serve (its whole table) *)
Theorem back_adapter_serve h :
  serve_auth lower d slug p q (rt_path (rt_back h)) o an now_ns =
  of_back (inner q (rt_path (rt_back h))) (B.serve (bcfg d) e pre (inner q (rt_path (rt_back h)))).
Proof.
  unfold serve_auth.
  assert (Hc : ReqUri.clean_path (rt_path (rt_back h)) = rt_path (rt_back h)) by (destruct h; vm_compute; reflexivity).
  rewrite Hc, str_eqb_refl. cbn [negb]. rewrite find_route_back.
  unfold B.serve, B.serve_table. change (B.rq_path (inner q (rt_path (rt_back h)))) with (rt_path (rt_back h)).
  rewrite b_route_found. apply back_adapter.
Qed.

(* ---- C09: AuthFlow's /sign_in with its oracle booleans REPLACED by the concrete gates ---- *)
Definition si_request_of (r : B.request) : F.si_request :=
  F.mkSI (method_ok [B.m_get] r) (gate_passes_b d o now_ns GClientID r) (gate_passes_b d o now_ns GRedirectURI r)
         (gate_passes_b d o now_ns GSignature r) (B.form_get k_state (the_form r)).

Definition gates_all (r : B.request) : bool :=
  method_ok [B.m_get] r && gate_passes_b d o now_ns GClientID r && gate_passes_b d o now_ns GRedirectURI r &&
  gate_passes_b d o now_ns GSignature r.

Lemma sign_in_only_state cfg pk now rq c rr vr :
  F.sign_in lower cfg pk now rq c rr vr =
  F.sign_in lower cfg pk now (F.mkSI true true true true (F.si_state rq)) c rr vr.
Proof. reflexivity. Qed.

Theorem sign_in_adapter r :
  route_resp rt_sign_in r =
  if method_ok [B.m_get] r && init_err d r then gate_err r 500
  else of_flow_sign_in r (o_query_ok o (redirect_value r)) (redirect_value r)
         (if gates_all r then Some HSignIn else None)
         (F.sign_in_route lower (fcfg d) (fkind p) now_s (si_request_of r) ck (an_refresh an) (an_validate an)).
Proof.
  rewrite sign_in_flat. unfold F.sign_in_route, gates_all, si_request_of.
  cbn [F.si_get F.si_client_ok F.si_redirect_ok F.si_sig_ok].
  destruct (method_ok [B.m_get] r); cbn [negb andb]; [|reflexivity].
  destruct (init_err d r); [reflexivity|].
  destruct (gate_passes_b d o now_ns GClientID r); cbn [negb andb]; [|reflexivity].
  destruct (gate_passes_b d o now_ns GRedirectURI r); cbn [negb andb]; [|reflexivity].
  destruct (gate_passes_b d o now_ns GSignature r); cbn [negb andb]; [|reflexivity].
  rewrite sign_in_only_state. reflexivity.
Qed.

(* ---- C09: /start and /callback ---- *)
Theorem start_adapter r :
  route_resp rt_start r =
  of_flow_start r (if method_ok [B.m_get] r then Some HStart else None)
    (F.oauth_start (an_nonce an)
       (let sr := start_request_of d o now_ns r in
        F.mkST (method_ok [B.m_get] r) (F.st_outer_ok sr) (F.st_inner_ok sr) (F.st_sig_ok sr) (F.st_redirect sr))).
Proof.
  rewrite start_flat. unfold F.oauth_start. cbn [F.st_get F.st_outer_ok F.st_inner_ok F.st_sig_ok F.st_redirect].
  destruct (method_ok [B.m_get] r); cbn [negb]; [|reflexivity].
  unfold h_start, F.oauth_start.
  assert (Hg : F.st_get (start_request_of d o now_ns r) = true).
  { unfold start_request_of. destruct (o_parse_string o _); [|reflexivity].
    destruct (o_nested o _) as [[? ?] ?]. destruct (o_parse_string o _); reflexivity. }
  rewrite Hg. reflexivity.
Qed.

Definition cb_request_full (r : B.request) : F.cb_request :=
  let rq := cb_request_of d slug q (the_form r) in
  F.mkCB (method_ok [B.m_get] r) (F.cb_error rq) (F.cb_code rq) (F.cb_state rq) (F.cb_csrf rq) (F.cb_redirect_ok rq).

Theorem callback_adapter r :
  route_resp rt_callback r =
  if method_ok [B.m_get] r && init_err d r then err_with r 500 [] [] [] (Some HCallback)
  else of_flow_callback r (if method_ok [B.m_get] r then Some HCallback else None)
         (F.oauth_callback lower (fcfg d) now_s (cb_request_full r)
            (rd_of p an (B.form_get B.k_code (the_form r)))).
Proof.
  rewrite callback_flat. unfold cb_request_full.
  destruct (method_ok [B.m_get] r) eqn:Em; cbn [negb andb]; [|reflexivity].
  unfold h_callback. rewrite (BP.parse_form_ok r _ (BP.init_state_ok (d_pre d) r)).
  change (BP.pending_err r (B.init_state (d_pre d) r)) with (pending_err r (B.init_state (d_pre d) r)).
  rewrite init_pending. destruct (init_err d r); [reflexivity|].
  reflexivity.
Qed.

End Adapters.

(* ------------------------------------------------------------------------------------------ *)
(* routing *)

Lemma strip_prefix_spec p : forall s r, strip_prefix p s = Some r <-> s = p ++ r.
Proof.
  induction p as [|c p IH]; intros s r; cbn [strip_prefix app].
  - split; [intros H; inversion H; reflexivity | intros ->; reflexivity].
  - destruct s as [|c' s]; [split; [discriminate | intros H; discriminate]|].
    destruct (N.eqb c c') eqn:E.
    + apply N.eqb_eq in E. subst c'. rewrite IH. split; [intros ->; reflexivity | intros H; inversion H; reflexivity].
    + apply N.eqb_neq in E. split; [discriminate | intros H; inversion H; congruence].
Qed.

Lemma find_slug_spec path l slug k rest : find_slug path l = Some (slug, k, rest) ->
  In (slug, k) l /\ path = c_slash :: slug ++ rest.
Proof.
  induction l as [|[s0 k0] l IH]; cbn [find_slug]; [discriminate|].
  destruct (strip_prefix (c_slash :: s0) path) as [r0|] eqn:E.
  - intros H. inversion H; subst. apply strip_prefix_spec in E. split; [left; reflexivity | exact E].
  - intros H. destruct (IH H) as [Hin Hp]. split; [right; exact Hin | exact Hp].
Qed.

(* the request is handed to the service mux of the authenticator registered under [slug] *)
Definition routed (d : deployment) (q : request) (slug : str) (k : akind) (rest : str) : Prop :=
  q_path q <> p_ping /\ q_host q = d_host d /\ ReqUri.clean_path (q_path q) = q_path q /\
  find_slug (q_path q) (d_slugs d) = Some (slug, k, rest).

Definition no_effect (r : response) : Prop :=
  r_ran r = None /\ r_sess_ops r = [] /\ r_csrf_ops r = [] /\ r_calls r = [] /\
  (r_loc r = LNone \/ exists p, r_loc r = LClean p) /\
  match r_body r with BJson _ | BSignInPage | BSignOutPage _ _ _ _ _ | BRedirect => False | _ => True end.

Section EndToEnd.
Variable lower : str -> str.

Lemma outside_no_effect st l b : (l = LNone \/ exists p, l = LClean p) ->
  match b with BJson _ | BSignInPage | BSignOutPage _ _ _ _ _ | BRedirect => False | _ => True end ->
  no_effect (outside st l b).
Proof. intros Hl Hb. unfold no_effect, outside. cbn. auto 10. Qed.

Lemma serve_inv d q o an now_ns :
  (r_secured (serve lower d q o an now_ns) = false /\ no_effect (serve lower d q o an now_ns) /\
   (q_host q <> d_host d -> q_path q <> p_ping -> r_status (serve lower d q o an now_ns) = 421)) \/
  exists slug k rest, routed d q slug k rest /\
    serve lower d q o an now_ns = serve_auth lower d slug k q rest o an now_ns.
Proof.
  unfold serve.
  destruct (str_eqb (q_path q) p_ping) eqn:Ep.
  { left. split; [reflexivity|]. split; [apply outside_no_effect; auto; exact I|].
    apply str_eqb_eq in Ep. intros _ H. congruence. }
  apply str_eqb_neq in Ep.
  destruct (str_eqb (q_host q) (d_host d)) eqn:Eh; cbn [negb].
  2:{ left. split; [reflexivity|]. split; [apply outside_no_effect; auto; exact I | reflexivity]. }
  apply str_eqb_eq in Eh.
  destruct (str_eqb (ReqUri.clean_path (q_path q)) (q_path q)) eqn:Ec; cbn [negb].
  2:{ left. split; [reflexivity|]. split; [apply outside_no_effect; [right; eexists; reflexivity | exact I]|]. congruence. }
  apply str_eqb_eq in Ec.
  destruct (find_slug (q_path q) (d_slugs d)) as [[[slug k] rest]|] eqn:Ef.
  - right. exists slug, k, rest. split; [repeat split; assumption | reflexivity].
  - left. destruct (has_prefix (q_path q) p_static); [|destruct (str_eqb (q_path q) p_robots)];
      (split; [reflexivity|]; split; [apply outside_no_effect; auto; exact I | congruence]).
Qed.

(* ---- every response from inside an authenticator went through setHeaders ---- *)
Lemma wrap_secured d o now_ns (h : hfun) : (forall r fs, r_secured (h r fs) = true) ->
  forall gs r fs, r_secured (wrap d o now_ns gs h r fs) = true.
Proof.
  intros Hh. induction gs as [|g gs IH]; intros r fs; cbn [wrap fold_right]; [apply Hh|].
  fold (wrap d o now_ns gs h).
  destruct g; cbn [apply_gate]; unfold gate_client_id, gate_client_secret, gate_redirect_uri, gate_signature;
    destruct (B.parse_form r fs) as [fs' e]; destruct e; try reflexivity;
    match goal with |- context [if ?b then _ else _] => destruct b end; try reflexivity; apply IH.
Qed.

Lemma handler_secured d slug p q o an now_ns h r fs :
  r_secured (run_handler lower d slug p q o an now_ns h r fs) = true.
Proof.
  destruct h; cbn [run_handler].
  - unfold h_start, of_flow_start. destruct (F.sr_state _); reflexivity.
  - unfold h_sign_in, of_flow_sign_in. destruct (F.r_code _); [destruct (o_query_ok _ _); reflexivity|].
    destruct (F.r_body _); reflexivity.
  - unfold h_sign_out. destruct (str_eqb _ _); destruct (acookie_of _); try reflexivity.
    destruct (S.revoke_ok _ _); reflexivity.
  - unfold h_callback. destruct (B.parse_form r fs) as [fs' e]. destruct e; [reflexivity|].
    unfold of_flow_callback. destruct (F.cr_saved _); [destruct (F.cr_location _)|]; reflexivity.
  - reflexivity.
Qed.

Lemma serve_auth_secured d slug p q rest o an now_ns :
  r_secured (serve_auth lower d slug p q rest o an now_ns) = true.
Proof.
  unfold serve_auth. destruct (negb _); [reflexivity|]. destruct (find_route rest all_routes) as [rt|]; [|reflexivity].
  unfold serve_route, with_methods. destruct (mem_str _ _); [|reflexivity].
  apply wrap_secured. intros. apply handler_secured.
Qed.

Theorem secured_iff_routed d q o an now_ns :
  r_secured (serve lower d q o an now_ns) = true <-> exists slug k rest, routed d q slug k rest.
Proof.
  split.
  - intros H. destruct (serve_inv d q o an now_ns) as [[Hf _]|[slug [k [rest [Hr _]]]]]; [congruence|].
    exists slug, k, rest. exact Hr.
  - intros [slug [k [rest Hr]]]. destruct (serve_inv d q o an now_ns) as [[Hf _]|[slug' [k' [rest' [Hr' He]]]]].
    + exfalso. destruct Hr as [Hp [Hh [Hc Hf']]]. unfold serve in Hf.
      apply str_eqb_neq in Hp. rewrite Hp in Hf. apply str_eqb_eq in Hh. rewrite Hh in Hf. cbn [negb] in Hf.
      rewrite Hc, str_eqb_refl in Hf. cbn [negb] in Hf. rewrite Hf' in Hf. rewrite serve_auth_secured in Hf. discriminate.
    + rewrite He. apply serve_auth_secured.
Qed.

(* ---- inside one authenticator: which route ---- *)
Lemma serve_auth_cases d slug p q rest o an now_ns :
  let resp := serve_auth lower d slug p q rest o an now_ns in
  let rr rt := serve_route lower d slug p q o an now_ns rt (inner q rest) (B.init_state (d_pre d) (inner q rest)) in
  (no_effect resp /\ ((r_status resp = 301 /\ r_body resp = BEmpty) \/
                      (r_status resp = 404 /\ r_body resp = BPlain /\ r_loc resp = LNone))) \/
  (rest = p_start /\ resp = rr rt_start) \/ (rest = p_sign_in /\ resp = rr rt_sign_in) \/
  (rest = p_sign_out /\ resp = rr rt_sign_out) \/ (rest = p_callback /\ resp = rr rt_callback) \/
  (exists h, rest = rt_path (rt_back h) /\ resp = rr (rt_back h)).
Proof.
  cbv zeta. unfold serve_auth. destruct (negb _).
  { left. split; [|left; split; reflexivity]. unfold no_effect, mk. cbn. repeat split; auto. right. eexists. reflexivity. }
  destruct (find_route rest all_routes) as [rt|] eqn:Ef.
  2:{ left. split; [|right; split; [|split]; reflexivity]. unfold no_effect, mk. cbn. repeat split; auto. }
  right. destruct (find_route_cases rest rt Ef) as [[-> ->]|[[-> ->]|[[-> ->]|[[-> ->]|[h [-> ->]]]]]]; auto 10.
  right; right; right; right. exists h. split; reflexivity.
Qed.

End EndToEnd.

(* ------------------------------------------------------------------------------------------ *)
(* /sign_in end to end: C08's client-id gate, C07's concrete redirect and signature gates, C09's
   authenticate ladder, C08's redeem *)

Lemma key_of_cookie d k : key_of d k = F.KCookie -> k = d_cookie_key d.
Proof.
  unfold key_of. destruct (N.eqb k (d_cookie_key d)) eqn:E; [intros _; apply N.eqb_eq; exact E|].
  destruct (N.eqb k (d_code_key d)); discriminate.
Qed.

Lemma to_flow_back s : to_flow (to_back s) = s. Proof. destruct s; reflexivity. Qed.
Lemma to_back_flow s : to_back (to_flow s) = s. Proof. destruct s; reflexivity. Qed.

Lemma cookie_of_sealed d o v s0 : cookie_of d o v = F.CkSealed F.KCookie s0 ->
  exists c, v = Some c /\ o_open o c = Some (d_cookie_key d, to_back s0).
Proof.
  unfold cookie_of. destruct v as [c|]; [|discriminate].
  destruct (o_open o c) as [[k bs]|] eqn:E; [|discriminate].
  intros H. inversion H as [[Hk Hs]]. apply key_of_cookie in Hk. subst k.
  exists c. split; [reflexivity|]. rewrite to_back_flow. exact E.
Qed.

Section SignIn.
Variable lower : str -> str.
Variables (d : deployment) (o : oracles) (now_ns : Z) (slug : str) (p : akind) (q : request) (an : answers).
Let now_s := (now_ns / ns)%Z.
Let ck := cookie_of d o (lookup slug (q_sess q)).
Let r := inner q p_sign_in.
Let resp := serve_route lower d slug p q o an now_ns rt_sign_in r (B.init_state (d_pre d) r).
Let fr := F.sign_in lower (fcfg d) (fkind p) now_s (F.mkSI true true true true (B.form_get k_state (the_form r))) ck
                    (an_refresh an) (an_validate an).

Definition sign_in_gates_pass : Prop :=
  B.rq_method r = B.m_get /\ init_err d r = false /\
  B.presented_id r = d_client_id d /\
  G.valid_redirect_uri (redirect_value r) (root_domains d) = true /\
  G.valid_signature now_ns (redirect_value r) (sigval_of o (sig_value r)) (ts_value r) (d_client_secret d) = true.

Lemma method_get_only m : mem_str m [B.m_get] = true -> m = B.m_get.
Proof. intros H. apply mem_str_In in H. destruct H as [H|[]]. symmetry. exact H. Qed.

(* the handler is entered exactly behind the whole chain, in its real order *)
Lemma sign_in_entered :
  r_ran resp = Some HSignIn ->
  sign_in_gates_pass /\
  resp = of_flow_sign_in r (o_query_ok o (redirect_value r)) (redirect_value r) (Some HSignIn) fr.
Proof.
  unfold resp. rewrite sign_in_flat. unfold method_ok.
  destruct (mem_str (B.rq_method r) [B.m_get]) eqn:Em; cbn [negb]; [|discriminate].
  destruct (init_err d r) eqn:Ei; [discriminate|].
  destruct (gate_passes_b d o now_ns GClientID r) eqn:E1; cbn [negb]; [|discriminate].
  destruct (gate_passes_b d o now_ns GRedirectURI r) eqn:E2; cbn [negb]; [|discriminate].
  destruct (gate_passes_b d o now_ns GSignature r) eqn:E3; cbn [negb]; [|discriminate].
  intros _. split; [|reflexivity].
  cbn [gate_passes_b] in E1, E2, E3. apply str_eqb_eq in E1.
  repeat split; try assumption. apply method_get_only. exact Em.
Qed.

Lemma sign_in_refused :
  r_ran resp = None ->
  exists code, resp = gate_err r code /\ (code = 405 \/ code = 500 \/ code = 401 \/ code = 400).
Proof.
  unfold resp. rewrite sign_in_flat.
  destruct (negb (method_ok [B.m_get] r)); [intros _; eexists; split; [reflexivity | auto]|].
  destruct (init_err d r); [intros _; eexists; split; [reflexivity | auto]|].
  destruct (negb (gate_passes_b d o now_ns GClientID r)); [intros _; eexists; split; [reflexivity | auto]|].
  destruct (negb (gate_passes_b d o now_ns GRedirectURI r)); [intros _; eexists; split; [reflexivity | auto 6]|].
  destruct (negb (gate_passes_b d o now_ns GSignature r)); [intros _; eexists; split; [reflexivity | auto 6]|].
  unfold h_sign_in, of_flow_sign_in. destruct (F.r_code _); [destruct (o_query_ok _ _); discriminate|].
  destruct (F.r_body _); discriminate.
Qed.

Lemma sign_in_ran_cases : r_ran resp = Some HSignIn \/ r_ran resp = None.
Proof.
  unfold resp. rewrite sign_in_flat.
  repeat match goal with |- context [if ?b then gate_err _ _ else _] => destruct b; [right; reflexivity|] end.
  left. unfold h_sign_in, of_flow_sign_in. destruct (F.r_code _); [destruct (o_query_ok _ _); reflexivity|].
  destruct (F.r_body _); reflexivity.
Qed.

Lemma sign_in_loc_code src s : r_loc resp = LCode src s ->
  sign_in_gates_pass /\ src = redirect_value r /\ o_query_ok o src = true /\ F.r_code fr = Some s /\
  resp = mk 302 (LCode src s) (F.r_ops fr) [] (calls_of_flow (F.r_calls fr)) BRedirect (Some HSignIn).
Proof.
  intros Hl. destruct sign_in_ran_cases as [Hr|Hr].
  - destruct (sign_in_entered Hr) as [Hg He]. rewrite He in Hl |- *. unfold of_flow_sign_in in *.
    destruct (F.r_code fr) as [s'|] eqn:Ec.
    + destruct (o_query_ok o (redirect_value r)) eqn:Eq; [|discriminate Hl].
      cbn in Hl. inversion Hl; subst. split; [exact Hg|]. split; [reflexivity|]. split; [exact Eq|]. split; reflexivity.
    + destruct (F.r_body fr); discriminate Hl.
  - destruct (sign_in_refused Hr) as [code [He _]]. rewrite He in Hl. discriminate Hl.
Qed.

(* INT_code_end_to_end, first half: everything that must have been true of THIS request *)
Theorem code_sound_int src s : r_loc resp = LCode src s ->
  (* route and gates, in the order of newMux *)
  sign_in_gates_pass /\ src = redirect_value r /\ B.form_get k_state (the_form r) <> [] /\
  (* C07: the redirect host, under every RFC 3986 reading, is in a configured root domain *)
  (forall sch ui h port rest, Url.rfc_split src sch ui h port rest ->
     G.in_domain (Url.rfc_hostname h) (d_proxy_domains d)) /\
  (* C07: signed by the holder of the client secret over src ++ decimal(t), fresh *)
  (exists t, G.parse_int (ts_value r) = Some t /\
             sigval_of o (sig_value r) = G.SigTag (G.Mac (d_client_secret d) (src ++ G.dec t)) /\
             (now_ns - t * ns <= G.ttl_ns)%Z) /\
  (* C09: the cookie opens under the COOKIE key, within lifetime, IdP confirmed now, rule passes *)
  (exists c s0, lookup slug (q_sess q) = Some c /\ o_open o c = Some (d_cookie_key d, to_back s0) /\
     (now_s <= F.s_lifetime s0)%Z /\ F.rule_passes lower (fcfg d) (F.s_email s0) = true /\
     F.s_email s = F.s_email s0 /\ F.s_lifetime s = F.s_lifetime s0 /\ F.s_rtok s = F.s_rtok s0 /\
     r_sess_ops resp = [F.OpSet s] /\
     (FP.refreshed_ok now_s s0 (an_refresh an) s (F.r_calls fr) \/
      FP.validated_ok (fkind p) now_s s0 (an_validate an) s (F.r_calls fr)) /\
     r_calls resp = map CIdp (F.r_calls fr)) /\
  r_status resp = 302 /\ r_ran resp = Some HSignIn.
Proof.
  intros Hl. destruct (sign_in_loc_code src s Hl) as [Hg [Hs [Hq [Hc He]]]].
  pose proof (FP.code_sound lower (fcfg d) (fkind p) now_s (F.mkSI true true true true (B.form_get k_state (the_form r))) ck
                (an_refresh an) (an_validate an) s Hc) as [[_ [_ [_ [_ Hst]]]] [s0 [Hck [Hlt [Hru [Hem [Hli [Hrt [Hops Hor]]]]]]]]].
  destruct Hg as [Hm [Hi [Hid [Hru' Hsg]]]].
  split; [repeat split; assumption|]. split; [exact Hs|]. split; [exact Hst|].
  split. { intros sch ui h port rest Hsp. rewrite Hs in Hsp. exact (GP.host_in_domain _ _ _ _ _ _ _ Hru' Hsp). }
  split. { destruct (GP.valid_signature_sound _ _ _ _ _ Hsg) as [_ [_ [_ [_ [t [Ht [Hm' Ha]]]]]]].
           exists t. rewrite Hs. repeat split; assumption. }
  split. { destruct (cookie_of_sealed d o _ s0 Hck) as [c [Hlk Hop]].
           exists c, s0. rewrite He. cbn [r_sess_ops r_calls mk].
           repeat split; try assumption. }
  rewrite He. split; reflexivity.
Qed.

End SignIn.

(* ------------------------------------------------------------------------------------------ *)
(* back channel: C08 through the adapter *)

Section Back.
Variable lower : str -> str.
Variables (d : deployment) (o : oracles) (now_ns : Z) (slug : str) (p : akind) (q : request) (an : answers).
Let now_s := (now_ns / ns)%Z.
Let e := benv d p o an now_s.
Variable h : B.handler.
Let r := inner q (rt_path (rt_back h)).
Let resp := serve_route lower d slug p q o an now_ns (rt_back h) r (B.init_state (d_pre d) r).
Let rs := B.serve_route (bcfg d) e (b_route h) r (B.init_state (d_pre d) r).

Lemma b_route_both : BP.both_gates (b_route h).
Proof. split; cbn; auto. Qed.

Lemma resp_of_back : resp = of_back d o now_ns p an r rs.
Proof. apply back_adapter. Qed.

Lemma of_back_ran rq rs0 : r_ran (of_back d o now_ns p an rq rs0) = option_map HBack (B.rs_ran rs0).
Proof. unfold of_back. destruct (B.rs_ran rs0); reflexivity. Qed.
Lemma of_back_status rq rs0 : r_status (of_back d o now_ns p an rq rs0) = B.rs_status rs0.
Proof. unfold of_back. destruct (B.rs_ran rs0); reflexivity. Qed.

(* C08_gate_sound for the integrated response: a back-channel handler runs only for a caller who
   presented the configured client id AND secret (as the gates read them) with the allowed method;
   otherwise 405 / 500 (bare mux only) / 401, no IdP call, no cookie effect, an error body *)
Theorem back_gate_sound_int :
  (forall h', r_ran resp = Some h' ->
     h' = HBack h /\ mem_str (B.rq_method r) (rt_methods (rt_back h)) = true /\
     B.presented_id r = d_client_id d /\ B.presented_secret r = d_client_secret d) /\
  (r_ran resp = None ->
     r_calls resp = [] /\ r_sess_ops resp = [] /\ r_csrf_ops resp = [] /\ r_loc resp = LNone /\
     r_body resp = err_body r (r_status resp) /\
     ((r_status resp = 405 /\ mem_str (B.rq_method r) (rt_methods (rt_back h)) = false) \/
      (r_status resp = 500 /\ d_pre d = false /\ snd (B.compute_form r) = true) \/
      (r_status resp = 401 /\ (B.presented_id r <> d_client_id d \/ B.presented_secret r <> d_client_secret d)))).
Proof.
  destruct (BP.gate_sound (bcfg d) e (b_route h) r (d_pre d) b_route_both) as [H1 H2].
  fold rs in H1, H2. rewrite resp_of_back. rewrite of_back_ran. split.
  - intros h' Hr. destruct (B.rs_ran rs) as [h0|] eqn:Er; [|discriminate]. cbn in Hr. inversion Hr; subst.
    destruct (H1 h0 eq_refl) as [-> [Hm [Hi Hs]]]. auto.
  - intros Hr. destruct (B.rs_ran rs) as [h0|] eqn:Er; [discriminate|].
    destruct (H2 eq_refl) as [_ [_ Hst]]. unfold of_back. rewrite Er. cbn.
    repeat split; try reflexivity. exact Hst.
Qed.

(* ... hence the configured values occur among what the caller sent, wherever it put them *)
Theorem back_knowledge_int h' :
  d_client_id d <> [] -> d_client_secret d <> [] -> r_ran resp = Some h' ->
  In (d_client_id d) (B.id_values r) /\ In (d_client_secret d) (B.secret_values r).
Proof.
  intros Hi Hs Hr. rewrite resp_of_back, of_back_ran in Hr.
  destruct (B.rs_ran rs) as [h0|] eqn:Er; [|discriminate].
  exact (BP.gate_sound_knowledge (bcfg d) e (b_route h) r (d_pre d) h0 b_route_both Hi Hs Er).
Qed.

(* effects need the handler *)
Lemma back_effects_need_handler :
  r_ran resp = None -> r_calls resp = [] /\ (forall b, r_body resp <> BJson b).
Proof.
  intros Hr. destruct back_gate_sound_int as [_ H2]. destruct (H2 Hr) as [Hc [_ [_ [_ [Hb _]]]]].
  split; [exact Hc|]. intros b. rewrite Hb. unfold err_body. destruct (accept_json r); discriminate.
Qed.

End Back.

(* ---- /redeem: only genuine codes redeem (C08_redeem_genuine), and an issued code does redeem ---- *)
Section Redeem.
Variable lower : str -> str.
Variables (d : deployment) (o : oracles) (now_ns : Z) (slug : str) (p : akind) (q : request) (an : answers).
Let now_s := (now_ns / ns)%Z.
Let e := benv d p o an now_s.
Let r := inner q B.p_redeem.
Let resp := serve_route lower d slug p q o an now_ns (rt_back B.HRedeem) r (B.init_state (d_pre d) r).

Definition session_json (s : B.session) (now : Z) : B.body :=
  {| B.b_access := Some (B.s_access s); B.b_refresh := Some (B.s_refresh_tok s);
     B.b_email := Some (B.s_email s); B.b_expires := Some (B.s_refresh_dl s - now)%Z; B.b_groups := None |}.

Theorem redeem_genuine_int :
  r_status resp = 200 ->
  exists s, o_open o (B.presented_code r) = Some (d_code_key d, s) /\
    (now_s <= B.s_refresh_dl s)%Z /\ (now_s <= B.s_lifetime_dl s)%Z /\
    r_body resp = BJson (session_json s now_s) /\ r_calls resp = [] /\ r_sess_ops resp = [] /\
    B.presented_id r = d_client_id d /\ B.presented_secret r = d_client_secret d /\ B.rq_method r = B.m_post.
Proof.
  intros Hst.
  pose (rs := B.serve_route (bcfg d) e (b_route B.HRedeem) r (B.init_state (d_pre d) r)).
  assert (Ha : resp = of_back d o now_ns p an r rs) by apply back_adapter.
  assert (Hs : B.serve (bcfg d) e (d_pre d) r = rs) by reflexivity.
  rewrite Ha, of_back_status in Hst.
  destruct (BP.redeem_genuine (bcfg d) e (d_pre d) r eq_refl) as [s [Ho [Hr [Hl [Hb [Hc [Hi [Hsec Hm]]]]]]]].
  { rewrite Hs. exact Hst. }
  rewrite Hs in Hb, Hc. exists s. split; [exact Ho|]. split; [exact Hr|]. split; [exact Hl|].
  destruct (BP.gate_sound (bcfg d) e (b_route B.HRedeem) r (d_pre d) (b_route_both B.HRedeem)) as [G1 G2].
  change (B.serve_route (bcfg d) e (b_route B.HRedeem) r (B.init_state (d_pre d) r)) with rs in G1, G2.
  destruct (B.rs_ran rs) as [h0|] eqn:Er.
  2:{ exfalso. destruct (G2 eq_refl) as [_ [_ [[X _]|[[X _]|[X _]]]]]; rewrite Hst in X; discriminate. }
  destruct (G1 h0 eq_refl) as [-> _]. rewrite Ha. unfold of_back. rewrite Er. unfold of_back_handler, mk. cbn [r_body r_calls r_sess_ops].
  unfold back_body. rewrite Hb, Hc. cbn [has_field B.b_access]. cbn [flat_map].
  split; [reflexivity|]. split; [reflexivity|].
  split; [|auto].
  (* not expired, so nothing is cleared *)
  unfold redeem_clears. cbn [B.parse_form]. cbn [negb andb B.form_of].
  change (B.form_get B.k_code (the_form r)) with (B.presented_code r).
  change (AuthBack.r_handler (b_route B.HRedeem)) with B.HRedeem. cbv iota.
  change (benv d p o an (now_ns / ns)) with e.
  unfold B.unseal. rewrite Ho. change (AuthBack.cfg_code_key (bcfg d)) with (d_code_key d). rewrite N.eqb_refl.
  assert (X1 : (B.s_refresh_dl s <? B.e_now e)%Z = false) by (apply Z.ltb_ge; exact Hr).
  assert (X2 : (B.s_lifetime_dl s <? B.e_now e)%Z = false) by (apply Z.ltb_ge; exact Hl).
  rewrite X1, X2. reflexivity.
Qed.

(* the converse, which closes the loop with /sign_in: a string that opens under the auth-code key
   to a live session, presented by a caller with the client credentials, redeems to exactly that
   session's e-mail and tokens *)
Theorem code_redeems_int s :
  B.rq_method r = B.m_post -> init_err d r = false ->
  B.presented_id r = d_client_id d -> B.presented_secret r = d_client_secret d ->
  o_open o (B.presented_code r) = Some (d_code_key d, s) ->
  (now_s <= B.s_refresh_dl s)%Z -> (now_s <= B.s_lifetime_dl s)%Z ->
  r_status resp = 200 /\ r_body resp = BJson (session_json s now_s) /\ r_calls resp = [] /\
  r_sess_ops resp = [] /\ r_ran resp = Some (HBack B.HRedeem).
Proof.
  intros Hm Hi Hid Hsec Ho Hr Hl. unfold resp. rewrite back_flat. unfold method_ok.
  cbn [rt_back rt_methods]. rewrite Hm. cbn [mem_str]. rewrite str_eqb_refl. cbn [orb negb].
  rewrite Hi. cbn [gate_passes_b]. rewrite Hid, Hsec, !str_eqb_refl. cbn [negb].
  unfold h_back, of_back_handler, redeem_clears. cbn [B.run_handler B.redeem B.parse_form B.form_of negb andb].
  change (B.form_get B.k_code (the_form r)) with (B.presented_code r).
  unfold B.unseal. cbn [B.e_open benv B.cfg_code_key bcfg]. rewrite Ho, N.eqb_refl.
  change (B.e_now (benv d p o an (now_ns / ns))) with now_s.
  assert (X1 : (B.s_refresh_dl s <? now_s)%Z = false) by (apply Z.ltb_ge; exact Hr).
  assert (X2 : (B.s_lifetime_dl s <? now_s)%Z = false) by (apply Z.ltb_ge; exact Hl).
  rewrite X1, X2. cbn. repeat split; reflexivity.
Qed.

End Redeem.

(* ------------------------------------------------------------------------------------------ *)
(* /callback end to end: C09's CSRF binding with the state decoded by a concrete base64 reader,
   C07's concrete re-validation of the redirect, C10's provider Redeem *)

(* what C10_session_email says the IdP vouched for (token endpoint 200 + JSON carrying the
   session's tokens; the e-mail is the verified e-mail of the id_token payload / userinfo) *)
Definition idp_vouched (p : akind) (an : answers) (code : str) (ts : T.session) : Prop :=
  code <> [] /\ T.s_email ts <> [] /\
  exists tf, an_tok an = T.Resp 200 (T.Json tf) /\
    T.as_string (T.f_access tf) = Some (T.s_access ts) /\ T.as_string (T.f_refresh tf) = Some (T.s_refresh ts) /\
    match p with
    | AGoogle =>
        exists idt seg bytes pf,
          T.as_string (T.f_idtoken tf) = Some idt /\
          nth_error (split_on T.dot idt) 1 = Some seg /\
          T.b64url_decode (T.pad4 seg) = Some bytes /\
          an_payload an bytes = T.Json pf /\
          T.f_email pf = T.JStr (T.s_email ts) /\ T.f_verified pf = T.JBool true
    | AOkta =>
        exists uf, an_ui an = T.Resp 200 (T.Json uf) /\ T.f_email uf = T.JStr (T.s_email ts) /\
                   T.f_verified uf = T.JBool true
    end.

Lemma rd_of_tokens p an code email access rtok dur :
  rd_of p an code = F.RdTokens email access rtok dur ->
  exists ts, T.redeem true (tprov p) (an_payload an) code (an_tok an) (an_ui an) = T.Session ts /\
    T.s_email ts = email /\ T.s_access ts = access /\ T.s_refresh ts = rtok /\ T.s_expires_in ts = dur /\
    idp_vouched p an code ts.
Proof.
  unfold rd_of. destruct (T.redeem true (tprov p) (an_payload an) code (an_tok an) (an_ui an)) as [ts| |] eqn:E; try discriminate.
  intros H. inversion H; subst. exists ts. do 5 (split; [reflexivity|]).
  pose proof (TP.redeem_session_email true (tprov p) (an_payload an) code (an_tok an) (an_ui an) ts E) as [H1 [H2 [tf [H3 [H4 [H5 H6]]]]]].
  unfold idp_vouched. split; [exact H1|]. split; [exact H2|]. exists tf. split; [exact H3|]. split; [exact H4|]. split; [exact H5|].
  destruct p; exact H6.
Qed.

(* a panic of the provider's Redeem cannot happen with today's len(jwt) check (C10_no_panic) *)
Lemma rd_of_total p an code :
  T.redeem true (tprov p) (an_payload an) code (an_tok an) (an_ui an) <> T.Panic.
Proof. exact (proj1 (TP.no_panic_fixed (tprov p) (an_payload an) false code (an_tok an) (an_ui an) None)). Qed.

Section Callback.
Variable lower : str -> str.
Variables (d : deployment) (o : oracles) (now_ns : Z) (slug : str) (p : akind) (q : request) (an : answers).
Let now_s := (now_ns / ns)%Z.
Let r := inner q p_callback.
Let resp := serve_route lower d slug p q o an now_ns rt_callback r (B.init_state (d_pre d) r).
Let rq := cb_request_of d slug q (the_form r).
Let code := B.form_get B.k_code (the_form r).
Let cr := F.oauth_callback lower (fcfg d) now_s rq (rd_of p an code).

Lemma callback_cases :
  (exists c, resp = gate_err r c /\ c = 405) \/
  resp = err_with r 500 [] [] [] (Some HCallback) \/
  (B.rq_method r = B.m_get /\ init_err d r = false /\ resp = of_flow_callback r (Some HCallback) cr).
Proof.
  unfold resp. rewrite callback_flat. unfold method_ok.
  destruct (mem_str (B.rq_method r) [B.m_get]) eqn:Em; cbn [negb]; [|left; eexists; split; reflexivity].
  right. unfold h_callback. rewrite (BP.parse_form_ok r _ (BP.init_state_ok (d_pre d) r)).
  change (BP.pending_err r (B.init_state (d_pre d) r)) with (pending_err r (B.init_state (d_pre d) r)).
  rewrite init_pending. destruct (init_err d r); [left; reflexivity|].
  right. split; [apply method_get_only; exact Em|]. split; reflexivity.
Qed.

(* INT_login_end_to_end *)
Theorem login_sound_int s : In (F.OpSet s) (r_sess_ops resp) ->
  B.rq_method r = B.m_get /\
  exists nonce redirect ts,
    (* C09: the state decodes (concretely) to nonce ":" redirect and the browser holds that nonce *)
    S.b64_decode (B.form_get k_state (the_form r)) = Some (nonce ++ F.colon :: redirect) /\
    ~ In F.colon nonce /\ lookup slug (q_csrf q) = Some nonce /\
    (* C07: the redirect is re-validated, concretely *)
    G.valid_redirect_uri redirect (root_domains d) = true /\
    (forall sch ui h port rest, Url.rfc_split redirect sch ui h port rest ->
       G.in_domain (Url.rfc_hostname h) (d_proxy_domains d)) /\
    (* C10: the provider vouched for the e-mail *)
    B.form_get k_error (the_form r) = [] /\
    T.redeem true (tprov p) (an_payload an) code (an_tok an) (an_ui an) = T.Session ts /\
    idp_vouched p an code ts /\
    (* C09: rule, lifetime fixed at login *)
    F.rule_passes lower (fcfg d) (T.s_email ts) = true /\
    s = F.redeemed_session (fcfg d) now_s (T.s_email ts) (T.s_access ts) (T.s_refresh ts) (T.s_expires_in ts) /\
    r_loc resp = LVerbatim redirect /\ r_status resp = 302 /\
    r_sess_ops resp = [F.OpSet s] /\ r_csrf_ops resp = [F.mkSC [] true] /\
    r_calls resp = [CIdp (F.CallRedeem code)].
Proof.
  intros Hin. destruct callback_cases as [[c [He _]]|[He|[Hm [Hi He]]]]; rewrite He in Hin |- *;
    try (cbn in Hin; contradiction).
  unfold of_flow_callback in Hin |- *.
  destruct (F.cr_saved cr) as [s'|] eqn:Es.
  2:{ cbn in Hin. contradiction. }
  pose proof (FP.callback_csrf lower (fcfg d) now_s rq (rd_of p an code) s' Es) as
    [nonce [redirect [email [access [rtok [dur [_ [He' [Hc [Hst [Hnc [Hcs [Hro [Hrd [Hne [Hru [Hs' [Hlo [Hstt Hca]]]]]]]]]]]]]]]]]]].
  fold cr in Hlo, Hstt, Hca. rewrite Hlo in Hin |- *. cbn in Hin. destruct Hin as [Hin|[]].
  assert (Hss : s' = s) by (inversion Hin; reflexivity). clear Hin. destruct Hss.
  destruct (rd_of_tokens p an code email access rtok dur Hrd) as [ts [Hred [E1 [E2 [E3 [E4 Hv]]]]]].
  split; [exact Hm|]. exists nonce, redirect, ts.
  split; [exact Hst|]. split; [exact Hnc|]. split; [exact Hcs|]. split; [exact Hro|].
  split. { intros sch ui h port rest Hsp. exact (GP.host_in_domain _ _ _ _ _ _ _ Hro Hsp). }
  split; [exact He'|]. split; [exact Hred|]. split; [exact Hv|].
  split; [rewrite E1; exact Hru|]. split; [rewrite E1, E2, E3, E4; exact Hs'|].
  cbn [r_loc r_status r_sess_ops r_csrf_ops r_calls mk].
  split; [reflexivity|]. split; [reflexivity|]. split; [reflexivity|].
  split. { unfold F.callback_set_cookies. pose proof (FP.callback_saved_cleared lower _ _ _ _ _ Es) as Hcl.
           fold cr in Hcl. rewrite Hcl. reflexivity. }
  rewrite Hca. reflexivity.
Qed.

(* no session saved: no redirect, an error response (C09_callback_no_session_no_redirect) *)
Lemma callback_no_session_int : r_sess_ops resp = [] -> r_loc resp = LNone /\ (400 <= r_status resp).
Proof.
  destruct callback_cases as [[c [He Hc]]|[He|[Hm [Hi He]]]]; rewrite He.
  - intros _. subst c. split; [reflexivity|]. cbn. lia.
  - intros _. split; [reflexivity|]. cbn. lia.
  - unfold of_flow_callback. destruct (F.cr_saved cr) as [s'|] eqn:Es.
    + pose proof (FP.callback_csrf lower (fcfg d) now_s rq (rd_of p an code) s' Es) as X.
      destruct X as [? [? [? [? [? [? [_ [_ [_ [_ [_ [_ [_ [_ [_ [_ [_ [X _]]]]]]]]]]]]]]]]]].
      fold cr in X. rewrite X. cbn. discriminate.
    + intros _. split; [destruct (F.cr_location cr); reflexivity|].
      destruct (FP.callback_no_session lower (fcfg d) now_s rq (rd_of p an code) Es) as [_ X].
      fold cr in X. destruct (F.cr_location cr); cbn; exact X.
Qed.

End Callback.

(* ------------------------------------------------------------------------------------------ *)
(* C18: every response from inside an authenticator carries the security table;
   C20: every error body is inert HTML / well-formed JSON *)

Lemma hops_ok (r : response) : forallb HP.aop_ok (hops r) = true.
Proof.
  unfold hops. rewrite !forallb_app.
  assert (Hc : forall A (l : list A), forallb HP.aop_ok (map (fun _ => H.AAddCookie []) l) = true)
    by (induction l; [reflexivity | exact IHl]).
  rewrite !Hc. cbn [andb].
  destruct (r_loc r); destruct (r_body r); vm_compute; reflexivity.
Qed.

Theorem security_headers_int (r : response) k v :
  r_secured r = true -> H.tbl_lookup k HP.AT = Some v -> H.hget k (headers_of r) = [H.VStr v].
Proof.
  intros Hs Hk. unfold headers_of. rewrite Hs. apply HP.auth_headers_gen; [apply hops_ok | exact Hk].
Qed.

(* the error page of ErrorResponse, as data for the generated template *)
Definition error_page_data (code : N) (title msg : str) : list (str * Html.value) :=
  Html_pages_proofs.err_data code title msg.

Theorem error_bodies_inert :
  (forall code t1 m1 t2 m2,
     match Html.render_page Gen_Templates.auth_templates Html_pages_proofs.n_error (error_page_data code t1 m1),
           Html.render_page Gen_Templates.auth_templates Html_pages_proofs.n_error (error_page_data code t2 m2) with
     | Some r1, Some r2 => Html.skeleton r1 = Html.skeleton r2 /\ Html.final_state r1 = Html.SData /\ Html.final_state r2 = Html.SData
     | None, None => True
     | _, _ => False
     end) /\
  (forall msg, Json.json_error_doc_ok (Json.auth_error_json msg) = true).
Proof.
  split.
  - intros code t1 m1 t2 m2. destruct Html_pages_proofs.served_pages_inert as [_ [Hi _]].
    apply Hi. apply Html_pages_proofs.err_data_agree.
  - exact Json_proofs.auth_error_json_ok.
Qed.

(* ------------------------------------------------------------------------------------------ *)
(* /sign_out end to end: C19's clauses behind C07's concrete gates, in the order of newMux *)

Section SignOutRoute.
Variable lower : str -> str.
Variables (d : deployment) (o : oracles) (now_ns : Z) (slug : str) (p : akind) (q : request) (an : answers).
Let r := inner q p_sign_out.
Let resp := serve_route lower d slug p q o an now_ns rt_sign_out r (B.init_state (d_pre d) r).
Let ack := acookie_of (cookie_of d o (lookup slug (q_sess q))).
Let uri := redirect_value r.

Definition sign_out_gates_pass : Prop :=
  (B.rq_method r = B.m_get \/ B.rq_method r = B.m_post) /\ init_err d r = false /\
  G.valid_redirect_uri uri (root_domains d) = true /\
  G.valid_signature now_ns uri (sigval_of o (sig_value r)) (ts_value r) (d_client_secret d) = true.

Lemma method_get_post m : mem_str m [B.m_get; B.m_post] = true -> m = B.m_get \/ m = B.m_post.
Proof. intros H. apply mem_str_In in H. destruct H as [H|[H|[]]]; auto. Qed.

Lemma sign_out_cases :
  (exists c, resp = gate_err r c /\ (c = 405 \/ c = 400) /\ ~ sign_out_gates_pass) \/
  (sign_out_gates_pass /\ resp = h_sign_out d slug p q o an r (Some (the_form r))).
Proof.
  unfold resp. rewrite sign_out_flat. unfold method_ok, sign_out_gates_pass.
  destruct (mem_str (B.rq_method r) [B.m_get; B.m_post]) eqn:Em; cbn [negb].
  2:{ left. eexists. split; [reflexivity|]. split; [auto|]. intros [[Hm|Hm] _]; rewrite Hm in Em; discriminate Em. }
  destruct (init_err d r) eqn:Ei.
  { left. eexists. split; [reflexivity|]. split; [auto|]. intros [_ [X _]]. discriminate. }
  destruct (gate_passes_b d o now_ns GRedirectURI r) eqn:E2; cbn [negb].
  2:{ left. eexists. split; [reflexivity|]. split; [auto|]. intros [_ [_ [X _]]]. cbn [gate_passes_b] in E2. fold uri in E2. congruence. }
  destruct (gate_passes_b d o now_ns GSignature r) eqn:E3; cbn [negb].
  2:{ left. eexists. split; [reflexivity|]. split; [auto|]. intros [_ [_ [_ X]]]. cbn [gate_passes_b] in E3. fold uri in E3. congruence. }
  right. split; [|reflexivity]. cbn [gate_passes_b] in E2, E3.
  split; [apply method_get_post; exact Em|]. split; [reflexivity|]. split; assumption.
Qed.

(* C19_needs_valid_request *)
Theorem signout_needs_valid_int : ~ sign_out_gates_pass ->
  exists c, resp = gate_err r c /\ r_sess_ops resp = [] /\ r_calls resp = [] /\ r_loc resp = LNone.
Proof.
  intros Hn. destruct sign_out_cases as [[c [He _]]|[Hg _]]; [|contradiction].
  exists c. rewrite He. repeat split; reflexivity.
Qed.

Definition has_clear (ops : list F.cookie_op) : Prop := In F.OpClear ops.

(* the form values SignOut reads are the ones the gates validated (Form is set by then) *)
Lemma h_sign_out_reads : B.form_get k_redirect_uri (B.form_of (Some (the_form r))) = uri.
Proof. reflexivity. Qed.

(* C19_revoke_then_clear / C19_get_is_passive / C19_revoked_is_own_token, on the real chain *)
Theorem signout_sound_int :
  (* cleared => valid confirmed POST; redirect; nothing to revoke, or revoked first *)
  (has_clear (r_sess_ops resp) ->
     B.rq_method r = B.m_post /\ sign_out_gates_pass /\ r_loc resp = LVerbatim uri /\ r_status resp = 302 /\
     ((ack = S.ACJunk /\ r_calls resp = []) \/
      exists s, ack = S.ACSealed s /\ r_calls resp = [CRevoke (S.revoke_token (sprov p) s)] /\
                S.revoke_ok (sprov p) (an_revoke an) = true)) /\
  (* a token reaches the IdP only as the presented session's own, on a valid POST *)
  (forall tok, In (CRevoke tok) (r_calls resp) ->
     exists s, ack = S.ACSealed s /\ tok = S.revoke_token (sprov p) s /\ B.rq_method r = B.m_post /\ sign_out_gates_pass) /\
  (* GET never clears or revokes *)
  (B.rq_method r = B.m_get -> r_sess_ops resp = [] /\ r_calls resp = []) /\
  (* a loadable session on a valid POST: Revoke is always attempted; failure keeps the cookie *)
  (forall s, ack = S.ACSealed s -> B.rq_method r = B.m_post -> sign_out_gates_pass ->
     r_calls resp = [CRevoke (S.revoke_token (sprov p) s)] /\
     (S.revoke_ok (sprov p) (an_revoke an) = false -> r_status resp = 500 /\ r_sess_ops resp = [] /\ r_loc resp = LNone) /\
     (S.revoke_ok (sprov p) (an_revoke an) = true -> r_loc resp = LVerbatim uri /\ r_sess_ops resp = [F.OpClear])) /\
  (* a redirect only behind both gates, to the validated URI; nothing but sign-out is ever called *)
  (forall src, r_loc resp = LVerbatim src -> src = uri /\ sign_out_gates_pass) /\
  (forall c, In c (r_calls resp) -> exists tok, c = CRevoke tok) /\
  (forall s, ~ In (F.OpSet s) (r_sess_ops resp)).
Proof.
  assert (Hpost : B.m_post <> B.m_get) by discriminate.
  destruct sign_out_cases as [[c [He [_ Hn]]]|[Hg He]]; rewrite He.
  { cbn [gate_err err_with mk r_sess_ops r_calls r_loc r_status].
    split; [intros []|]. split; [intros tok []|]. split; [auto|].
    split; [intros s _ _ X; contradiction|]. split; [intros src X; discriminate X|].
    split; [intros c0 []|]. intros s []. }
  unfold h_sign_out. rewrite h_sign_out_reads. fold ack.
  destruct (str_eqb (B.rq_method r) B.m_get) eqn:Em.
  - apply str_eqb_eq in Em.
    destruct ack as [| |s0] eqn:Ea; cbn [r_sess_ops r_calls r_loc r_status mk];
      (split; [intros []|]; split; [intros tok []|]; split; [auto|];
       split; [intros s _ Hm'; rewrite Em in Hm'; discriminate Hm'|];
       split; [intros src X; first [discriminate X | inversion X; split; [reflexivity | exact Hg]]|];
       split; [intros c0 []|]; intros s []).
  - apply str_eqb_neq in Em.
    assert (Hm : B.rq_method r = B.m_post) by (destruct Hg as [[X|X] _]; [contradiction | exact X]).
    destruct ack as [| |s0] eqn:Ea.
    + cbn [r_sess_ops r_calls r_loc r_status mk].
      split; [intros []|]. split; [intros tok []|]. split; [intros X; contradiction|].
      split; [intros s X; discriminate X|]. split; [intros src X; inversion X; auto|].
      split; [intros c []|]. intros s [].
    + cbn [r_sess_ops r_calls r_loc r_status mk].
      split. { intros _. split; [exact Hm|]. split; [exact Hg|]. split; [reflexivity|]. split; [reflexivity|]. left. split; reflexivity. }
      split; [intros tok []|]. split; [intros X; contradiction|].
      split; [intros s X; discriminate X|]. split; [intros src X; inversion X; auto|].
      split; [intros c []|]. intros s [X|[]]. discriminate X.
    + destruct (S.revoke_ok (sprov p) (an_revoke an)) eqn:Er; cbn [r_sess_ops r_calls r_loc r_status mk].
      * split. { intros _. split; [exact Hm|]. split; [exact Hg|]. split; [reflexivity|]. split; [reflexivity|]. right. exists s0. auto. }
        split. { intros tok [X|[]]. inversion X. exists s0. auto. }
        split; [intros X; contradiction|].
        split. { intros s X _ _. inversion X; subst. split; [reflexivity|]. split; [intros; discriminate | auto]. }
        split; [intros src X; inversion X; auto|].
        split. { intros c [X|[]]. eexists. symmetry. exact X. }
        intros s [X|[]]. discriminate X.
      * split; [intros []|].
        split. { intros tok [X|[]]. inversion X. exists s0. auto. }
        split; [intros X; contradiction|].
        split. { intros s X _ _. inversion X; subst. split; [reflexivity|]. split; [auto | intros; discriminate]. }
        split; [intros src X; discriminate X|].
        split. { intros c [X|[]]. eexists. symmetry. exact X. }
        intros s [].
Qed.

(* C07 on the redirect that is followed: host in a root domain under every RFC reading, signed fresh *)
Theorem signout_redirect_int src : r_loc resp = LVerbatim src ->
  (forall sch ui h port rest, Url.rfc_split src sch ui h port rest ->
     G.in_domain (Url.rfc_hostname h) (d_proxy_domains d)) /\
  exists t, G.parse_int (ts_value r) = Some t /\
            sigval_of o (sig_value r) = G.SigTag (G.Mac (d_client_secret d) (src ++ G.dec t)) /\
            (now_ns - t * ns <= G.ttl_ns)%Z.
Proof.
  intros Hl. destruct signout_sound_int as [_ [_ [_ [_ [H5 _]]]]]. destruct (H5 src Hl) as [-> [_ [_ [Hu Hs]]]].
  split. { intros sch ui h port rest Hsp. exact (GP.host_in_domain _ _ _ _ _ _ _ Hu Hsp). }
  destruct (GP.valid_signature_sound _ _ _ _ _ Hs) as [_ [_ [_ [_ [t [Ht [Hm Ha]]]]]]].
  exists t. auto.
Qed.

End SignOutRoute.

(* ------------------------------------------------------------------------------------------ *)
(* /start: a login is started at the provider only for validated outer and nested URIs, the nested
   one signed and fresh (C07_idp_start_gated with the concrete gates; C09's CSRF cookie) *)

Section StartRoute.
Variable lower : str -> str.
Variables (d : deployment) (o : oracles) (now_ns : Z) (slug : str) (p : akind) (q : request) (an : answers).
Let r := inner q p_start.
Let resp := serve_route lower d slug p q o an now_ns rt_start r (B.init_state (d_pre d) r).
Let raw := B.form_get k_redirect_uri (B.url_query r).

Theorem start_sound_int st : r_loc resp = LIdP st ->
  B.rq_method r = B.m_get /\
  exists a b nraw nsig nts,
    o_parse_string o raw = Some a /\ o_nested o raw = (nraw, nsig, nts) /\ o_parse_string o nraw = Some b /\
    G.valid_redirect_uri a (root_domains d) = true /\ G.valid_redirect_uri b (root_domains d) = true /\
    G.valid_signature now_ns b (sigval_of o nsig) nts (d_client_secret d) = true /\
    st = an_nonce an ++ F.colon :: a /\
    r_csrf_ops resp = [F.mkSC (an_nonce an) false] /\ r_status resp = 302 /\ r_sess_ops resp = [] /\ r_calls resp = [].
Proof.
  unfold resp. rewrite start_flat. unfold method_ok.
  destruct (mem_str (B.rq_method r) [B.m_get]) eqn:Em; cbn [negb]; [|discriminate].
  unfold h_start, start_request_of. fold raw.
  destruct (o_parse_string o raw) as [a|] eqn:Ea; [|discriminate].
  destruct (o_nested o raw) as [[nraw nsig] nts] eqn:En.
  destruct (o_parse_string o nraw) as [b|] eqn:Eb.
  2:{ unfold F.oauth_start. cbn. destruct (G.valid_redirect_uri a (root_domains d)); discriminate. }
  unfold F.oauth_start. cbn [F.st_get F.st_outer_ok F.st_inner_ok F.st_sig_ok F.st_redirect negb].
  destruct (G.valid_redirect_uri a (root_domains d)) eqn:E1; cbn [negb]; [|discriminate].
  destruct (G.valid_redirect_uri b (root_domains d)) eqn:E2; cbn [negb]; [|discriminate].
  destruct (G.valid_signature now_ns b (sigval_of o nsig) nts (d_client_secret d)) eqn:E3; cbn [negb]; [|discriminate].
  unfold of_flow_start. cbn. intros H. inversion H; subst.
  split; [apply method_get_only; exact Em|]. exists a, b, nraw, nsig, nts. repeat split; auto.
Qed.

(* the CSRF cookie is set before anything is validated (authenticator.go:462-463) *)
Lemma start_sets_csrf : B.rq_method r = B.m_get -> r_csrf_ops resp = [F.mkSC (an_nonce an) false].
Proof.
  intros Hm. unfold resp. rewrite start_flat. unfold method_ok. rewrite Hm. cbn [mem_str]. rewrite str_eqb_refl. cbn [orb negb].
  assert (Hg : F.st_get (start_request_of d o now_ns r) = true).
  { unfold start_request_of. destruct (o_parse_string o _); [|reflexivity].
    destruct (o_nested o _) as [[? ?] ?]. destruct (o_parse_string o _); reflexivity. }
  unfold h_start, F.oauth_start. rewrite Hg. cbn [negb].
  destruct (F.st_outer_ok _); [destruct (F.st_inner_ok _); [destruct (F.st_sig_ok _)|]|]; reflexivity.
Qed.

End StartRoute.

(* ------------------------------------------------------------------------------------------ *)
(* ADAPTER to C19's model: behind its gates, SignOut.auth_sign_out IS the integrated handler, for
   every MAC function — so C19's history theorems speak about this handler *)

Definition aresp_of (r : response) : S.aresp :=
  {| S.r_body := match r_loc r, r_body r with
                 | LVerbatim u, _ => S.BRedirect u
                 | _, BSignOutPage em u sg ts _ => S.BPage (Z.of_N (r_status r)) em u sg ts
                 | _, _ => S.BGate (Z.of_N (r_status r))
                 end;
     S.r_clears := existsb (fun op => match op with F.OpClear => true | _ => false end) (r_sess_ops r);
     S.r_revoked := flat_map (fun c => match c with CRevoke t => [t] | _ => [] end) (r_calls r) |}.

Definition smethod (m : str) : S.method :=
  if str_eqb m B.m_get then S.MGet else if str_eqb m B.m_post then S.MPost else S.MOther.

Theorem signout_handler_is_C19 (mac : str -> str -> str) secret now' d slug p q o an (r : B.request) parses dom :
  let qa := {| S.q_method := smethod (B.rq_method r); S.q_uri := redirect_value r; S.q_sig := sig_value r;
               S.q_ts := ts_value r; S.q_parses := parses; S.q_in_domain := dom;
               S.q_cookie := acookie_of (cookie_of d o (lookup slug (q_sess q))); S.q_idp := an_revoke an |} in
  SP.gates_pass mac secret now' qa = true -> smethod (B.rq_method r) <> S.MOther ->
  S.auth_sign_out mac secret (sprov p) now' qa = aresp_of (h_sign_out d slug p q o an r (Some (the_form r))).
Proof.
  cbv zeta. unfold SP.gates_pass. cbn [S.q_in_domain S.q_uri S.q_sig S.q_ts S.q_parses].
  intros Hg Hm. apply andb_true_iff in Hg as [Hd Hs].
  unfold S.auth_sign_out. cbn [S.q_method S.q_in_domain S.q_uri S.q_sig S.q_ts S.q_parses S.q_cookie S.q_idp].
  rewrite Hd, Hs. cbn [negb]. unfold h_sign_out.
  change (B.form_get k_redirect_uri (B.form_of (Some (the_form r)))) with (redirect_value r).
  change (B.form_get k_sig (B.form_of (Some (the_form r)))) with (sig_value r).
  change (B.form_get k_ts (B.form_of (Some (the_form r)))) with (ts_value r).
  unfold smethod in *. destruct (str_eqb (B.rq_method r) B.m_get).
  - destruct (acookie_of _); reflexivity.
  - destruct (str_eqb (B.rq_method r) B.m_post); [|contradiction].
    destruct (acookie_of _); try reflexivity. destruct (S.revoke_ok _ _); reflexivity.
Qed.

(* ------------------------------------------------------------------------------------------ *)
(* ADAPTER to C07's route view (AuthGates.serve): the request as AuthGates sees it is COMPUTED
   from the concrete request (its oracle fields q_form_ok, q_client_id, q_uri, q_sig, q_session,
   q_cb_state ... become functions of bytes, cookies and provider answers), and AuthGates.serve
   then agrees with the integration model on where the browser is sent *)

Definition loc_agrees (oc : G.outcome) (resp : response) : Prop :=
  match oc with
  | G.ORedirect src G.WithCode => exists s, r_loc resp = LCode src s
  | G.ORedirect src G.Verbatim => r_loc resp = LVerbatim src
  | G.OIdP a => exists n, r_loc resp = LIdP (n ++ F.colon :: a)
  | G.OErr st => r_loc resp = LNone /\ (r_ran resp = None -> r_status resp = st)
  | G.OPage _ => r_loc resp = LNone
  end.

Lemma valid_redirect_nonempty u ds : G.valid_redirect_uri u ds = true -> u <> [] /\ Url.go_parse u <> None.
Proof.
  unfold G.valid_redirect_uri. destruct (Url.go_parse u); [|discriminate].
  intros H. apply andb_true_iff in H as [H _]. apply andb_true_iff in H as [H _].
  split; [|discriminate]. destruct u; [discriminate | discriminate].
Qed.

Section GatesView.
Variable lower : str -> str.
Variables (d : deployment) (o : oracles) (now_ns : Z) (slug : str) (p : akind) (q : request) (an : answers).
Let now_s := (now_ns / ns)%Z.
Let ck := cookie_of d o (lookup slug (q_sess q)).
Notation route_resp rt r := (serve_route lower d slug p q o an now_ns rt r (B.init_state (d_pre d) r)).

Definition gmeth (m : str) : G.meth :=
  if str_eqb m B.m_get then G.GET else if str_eqb m B.m_post then G.POST else G.MOther.

Definition gview (r : B.request) (sess : G.session) : G.request :=
  {| G.q_meth := gmeth (B.rq_method r); G.q_form_ok := negb (init_err d r);
     G.q_client_id := B.presented_id r; G.q_uri := redirect_value r;
     G.q_sig := sigval_of o (sig_value r); G.q_ts := ts_value r;
     G.q_state := B.form_get k_state (the_form r); G.q_session := sess; G.q_provider_valid := true;
     G.q_revoke_ok := S.revoke_ok (sprov p) (an_revoke an);
     G.q_query_ok := o_query_ok o (redirect_value r);
     G.q_outer := None; G.q_nested := None; G.q_cb_error := false; G.q_cb_code_empty := false;
     G.q_cb_redeem_ok := false; G.q_cb_state := G.StBad; G.q_cb_csrf := None; G.q_cb_user_ok := false |}.

(* authenticate(), reduced to AuthGates' three situations *)
Definition gsess_sign_in : G.session :=
  match F.ao_res (F.auth_authenticate lower (fcfg d) (fkind p) now_s ck (an_refresh an) (an_validate an)) with
  | inr _ => G.SessGood
  | inl F.ENoCookie => G.SessNone
  | inl _ => G.SessBad
  end.
Definition gsess_sign_out : G.session :=
  match acookie_of ck with S.ACNone => G.SessNone | S.ACJunk => G.SessBad | S.ACSealed _ => G.SessGood end.

Lemma gate_methods_get (rq : G.request) k :
  G.gate_methods [G.GET] rq k = match G.q_meth rq with G.GET => k | _ => G.OErr 405 end.
Proof. unfold G.gate_methods. cbn. destruct (G.q_meth rq); reflexivity. Qed.

Lemma gmeth_get m : (gmeth m = G.GET) <-> mem_str m [B.m_get] = true.
Proof.
  unfold gmeth. cbn [mem_str]. destruct (str_eqb m B.m_get); cbn; [tauto|].
  destruct (str_eqb m B.m_post); split; discriminate.
Qed.

Theorem gates_view_sign_in r :
  loc_agrees (G.serve (gcfg d) now_ns G.EpSignIn (gview r gsess_sign_in)) (route_resp rt_sign_in r).
Proof.
  rewrite sign_in_flat. cbn [G.serve]. rewrite gate_methods_get. cbn [G.q_meth gview]. unfold method_ok.
  destruct (mem_str (B.rq_method r) [B.m_get]) eqn:Em; cbn [negb].
  2:{ destruct (gmeth (B.rq_method r)) eqn:Eg; [apply gmeth_get in Eg; congruence| |]; split; reflexivity. }
  apply gmeth_get in Em. rewrite Em.
  unfold G.gate_client_id, G.gate_redirect_uri, G.gate_signature. cbn [G.q_form_ok G.q_client_id G.q_uri G.q_sig G.q_ts gview G.c_client_id G.c_secret gcfg].
  destruct (init_err d r) eqn:Ei; cbn [negb]; [split; reflexivity|].
  cbn [gate_passes_b]. destruct (str_eqb (B.presented_id r) (d_client_id d)); cbn [negb]; [|split; reflexivity].
  change (G.root_domains (gcfg d)) with (root_domains d).
  destruct (G.valid_redirect_uri (redirect_value r) (root_domains d)) eqn:E2; cbn [negb]; [|split; reflexivity].
  destruct (G.valid_signature now_ns (redirect_value r) (sigval_of o (sig_value r)) (ts_value r) (d_client_secret d)); cbn [negb]; [|split; reflexivity].
  destruct (valid_redirect_nonempty _ _ E2) as [Hne Hp].
  unfold G.sign_in_handler, gsess_sign_in. cbn [G.q_session G.q_provider_valid gview].
  unfold h_sign_in, of_flow_sign_in, F.sign_in. cbn [B.parse_form fst B.form_of].
  change (B.form_get k_redirect_uri (the_form r)) with (redirect_value r). fold ck now_s.
  destruct (F.ao_res (F.auth_authenticate lower (fcfg d) (fkind p) now_s ck (an_refresh an) (an_validate an))) as [[]|s0];
    try (cbn; reflexivity).
  unfold G.proxy_oauth_redirect, F.proxy_oauth_redirect. cbn [G.q_form_ok G.q_state G.q_uri G.q_query_ok gview F.si_state].
  rewrite Ei. cbn [negb].
  destruct (B.form_get k_state (the_form r)) as [|c0 st]; [cbn; split; [reflexivity | discriminate]|].
  cbn [Url.is_nil F.is_nil].
  assert (Hn : Url.is_nil (redirect_value r) = false) by (destruct (redirect_value r); [congruence | reflexivity]).
  rewrite Hn. destruct (Url.go_parse (redirect_value r)) eqn:Egp; [|congruence].
  cbn [F.r_code]. destruct (o_query_ok o (redirect_value r)); cbn [negb].
  - exists s0. reflexivity.
  - split; [reflexivity | discriminate].
Qed.

Lemma gate_methods_get_post (rq : G.request) k :
  G.gate_methods [G.GET; G.POST] rq k = match G.q_meth rq with G.MOther => G.OErr 405 | _ => k end.
Proof. unfold G.gate_methods. cbn. destruct (G.q_meth rq); reflexivity. Qed.

Theorem gates_view_sign_out r :
  loc_agrees (G.serve (gcfg d) now_ns G.EpSignOut (gview r gsess_sign_out)) (route_resp rt_sign_out r).
Proof.
  rewrite sign_out_flat. cbn [G.serve]. rewrite gate_methods_get_post. cbn [G.q_meth gview]. unfold method_ok, gmeth. cbn [mem_str].
  destruct (str_eqb (B.rq_method r) B.m_get) eqn:Eg; cbn [orb negb];
    [|destruct (str_eqb (B.rq_method r) B.m_post) eqn:Ep; cbn [orb negb]; [|split; reflexivity]].
  all: unfold G.gate_redirect_uri, G.gate_signature; cbn [G.q_form_ok G.q_uri G.q_sig G.q_ts gview G.c_secret gcfg];
    (destruct (init_err d r); cbn [negb]; [split; reflexivity|]);
    cbn [gate_passes_b]; change (G.root_domains (gcfg d)) with (root_domains d);
    (destruct (G.valid_redirect_uri (redirect_value r) (root_domains d)); cbn [negb]; [|split; reflexivity]);
    (destruct (G.valid_signature now_ns (redirect_value r) (sigval_of o (sig_value r)) (ts_value r) (d_client_secret d)); cbn [negb]; [|split; reflexivity]);
    unfold G.sign_out_handler, gsess_sign_out, h_sign_out; cbn [G.q_meth G.q_session G.q_revoke_ok G.q_uri gview];
    unfold gmeth; rewrite Eg; try rewrite Ep; fold ck;
    change (B.form_get k_redirect_uri (B.form_of (Some (the_form r)))) with (redirect_value r).
  - destruct (acookie_of ck); reflexivity.
  - destruct (acookie_of ck); try reflexivity. destruct (S.revoke_ok (sprov p) (an_revoke an)); reflexivity.
Qed.

(* /start *)
Definition gview_start (r : B.request) : G.request :=
  let raw := B.form_get k_redirect_uri (B.url_query r) in
  let '(nraw, nsig, nts) := o_nested o raw in
  {| G.q_meth := gmeth (B.rq_method r); G.q_form_ok := true; G.q_client_id := []; G.q_uri := [];
     G.q_sig := sigval_of o nsig; G.q_ts := nts; G.q_state := []; G.q_session := G.SessNone;
     G.q_provider_valid := false; G.q_revoke_ok := false; G.q_query_ok := true;
     G.q_outer := o_parse_string o raw;
     G.q_nested := match o_parse_string o raw with Some _ => o_parse_string o nraw | None => None end;
     G.q_cb_error := false; G.q_cb_code_empty := false; G.q_cb_redeem_ok := false; G.q_cb_state := G.StBad;
     G.q_cb_csrf := None; G.q_cb_user_ok := false |}.

Theorem gates_view_start r :
  loc_agrees (G.serve (gcfg d) now_ns G.EpStart (gview_start r)) (route_resp rt_start r).
Proof.
  rewrite start_flat. cbn [G.serve]. rewrite gate_methods_get. unfold gview_start, method_ok.
  destruct (o_nested o (B.form_get k_redirect_uri (B.url_query r))) as [[nraw nsig] nts] eqn:En.
  cbn [G.q_meth].
  destruct (mem_str (B.rq_method r) [B.m_get]) eqn:Em; cbn [negb].
  2:{ destruct (gmeth (B.rq_method r)) eqn:Eg; [apply gmeth_get in Eg; congruence| |]; split; reflexivity. }
  apply gmeth_get in Em. rewrite Em.
  unfold G.oauth_start, h_start, start_request_of. rewrite En. cbn [G.q_outer G.q_nested G.q_sig G.q_ts G.c_secret gcfg].
  change (G.root_domains (gcfg d)) with (root_domains d).
  destruct (o_parse_string o (B.form_get k_redirect_uri (B.url_query r))) as [a|]; [|split; reflexivity].
  destruct (o_parse_string o nraw) as [b|].
  2:{ unfold F.oauth_start, of_flow_start. cbn. destruct (G.valid_redirect_uri a (root_domains d)); cbn; split; reflexivity. }
  unfold F.oauth_start, of_flow_start. cbn [F.st_get F.st_outer_ok F.st_inner_ok F.st_sig_ok F.st_redirect negb].
  destruct (G.valid_redirect_uri a (root_domains d)); cbn [negb]; [|split; reflexivity].
  destruct (G.valid_redirect_uri b (root_domains d)); cbn [negb]; [|split; reflexivity].
  destruct (G.valid_signature now_ns b (sigval_of o nsig) nts (d_client_secret d)); cbn [negb]; [|split; reflexivity].
  cbn. exists (an_nonce an). reflexivity.
Qed.

(* /callback *)
Definition gview_cb (r : B.request) : G.request :=
  let fm := the_form r in
  let rd := rd_of p an (B.form_get B.k_code fm) in
  {| G.q_meth := gmeth (B.rq_method r); G.q_form_ok := negb (init_err d r); G.q_client_id := []; G.q_uri := [];
     G.q_sig := G.SigAbsent; G.q_ts := []; G.q_state := []; G.q_session := G.SessNone;
     G.q_provider_valid := false; G.q_revoke_ok := false; G.q_query_ok := true; G.q_outer := None; G.q_nested := None;
     G.q_cb_error := negb (F.is_nil (B.form_get k_error fm));
     G.q_cb_code_empty := F.is_nil (B.form_get B.k_code fm);
     G.q_cb_redeem_ok := match rd with F.RdTokens email _ _ _ => negb (F.is_nil email) | F.RdErr => false end;
     G.q_cb_state := match S.b64_decode (B.form_get k_state fm) with
                     | None => G.StBad
                     | Some plain => match F.split_first_colon plain with
                                     | None => G.StNoColon
                                     | Some (n, rdr) => G.StPair n rdr
                                     end
                     end;
     G.q_cb_csrf := lookup slug (q_csrf q);
     G.q_cb_user_ok := match rd with F.RdTokens email _ _ _ => F.rule_passes lower (fcfg d) email | F.RdErr => false end |}.

Theorem gates_view_callback r :
  loc_agrees (G.serve (gcfg d) now_ns G.EpCallback (gview_cb r)) (route_resp rt_callback r).
Proof.
  rewrite callback_flat. cbn [G.serve]. rewrite gate_methods_get. unfold method_ok. cbn [G.q_meth gview_cb].
  destruct (mem_str (B.rq_method r) [B.m_get]) eqn:Em; cbn [negb].
  2:{ destruct (gmeth (B.rq_method r)) eqn:Eg; [apply gmeth_get in Eg; congruence| |]; split; reflexivity. }
  apply gmeth_get in Em. rewrite Em.
  unfold h_callback. rewrite (BP.parse_form_ok r _ (BP.init_state_ok (d_pre d) r)).
  change (BP.pending_err r (B.init_state (d_pre d) r)) with (pending_err r (B.init_state (d_pre d) r)).
  rewrite init_pending. unfold G.oauth_callback. cbn [G.q_form_ok gview_cb].
  destruct (init_err d r); cbn [negb]; [split; [reflexivity | discriminate]|].
  unfold of_flow_callback, F.oauth_callback, cb_request_of.
  cbn [F.cb_get F.cb_error F.cb_code F.cb_state F.cb_csrf F.cb_redirect_ok negb B.form_of
       G.q_cb_error G.q_cb_code_empty G.q_cb_redeem_ok G.q_cb_state G.q_cb_csrf G.q_cb_user_ok gview_cb].
  change (BP.the_form r) with (the_form r).
  destruct (F.is_nil (B.form_get k_error (the_form r))); cbn [negb]; [|split; [reflexivity | discriminate]].
  destruct (F.is_nil (B.form_get B.k_code (the_form r))); [split; [reflexivity | discriminate]|].
  destruct (rd_of p an (B.form_get B.k_code (the_form r))) as [|email access rtok dur]; [split; [reflexivity | discriminate]|].
  destruct (F.is_nil email); cbn [negb]; [split; [reflexivity | discriminate]|].
  destruct (S.b64_decode (B.form_get k_state (the_form r))) as [plain|]; [|split; [reflexivity | discriminate]].
  destruct (F.split_first_colon plain) as [[n rdr]|]; [|split; [reflexivity | discriminate]].
  destruct (lookup slug (q_csrf q)) as [cv|]; [|split; [reflexivity | discriminate]].
  destruct (str_eqb cv n); cbn [negb]; [|split; [reflexivity | discriminate]].
  change (G.root_domains (gcfg d)) with (root_domains d).
  destruct (G.valid_redirect_uri rdr (root_domains d)); cbn [negb]; [|split; [reflexivity | discriminate]].
  destruct (F.rule_passes lower (fcfg d) email); cbn [negb]; [|split; [reflexivity | discriminate]].
  reflexivity.
Qed.

End GatesView.

(* ------------------------------------------------------------------------------------------ *)
(* lifting to [serve]: which route can produce which effect, over ALL requests *)

Section Whole.
Variable lower : str -> str.
Variables (d : deployment) (q : request) (o : oracles) (an : answers) (now_ns : Z).
Let resp := serve lower d q o an now_ns.
Notation route_at slug k rt rest :=
  (serve_route lower d slug k q o an now_ns rt (inner q rest) (B.init_state (d_pre d) (inner q rest))).

Lemma serve_routed slug k rest : routed d q slug k rest -> resp = serve_auth lower d slug k q rest o an now_ns.
Proof.
  intros [Hp [Hh [Hc Hf]]]. unfold resp, serve.
  apply str_eqb_neq in Hp. rewrite Hp. apply str_eqb_eq in Hh. rewrite Hh. cbn [negb].
  rewrite Hc, str_eqb_refl. cbn [negb]. rewrite Hf. reflexivity.
Qed.

Lemma serve_auth_at slug k rest rt : ReqUri.clean_path rest = rest -> find_route rest all_routes = Some rt ->
  serve_auth lower d slug k q rest o an now_ns = route_at slug k rt rest.
Proof. intros Hc Hf. unfold serve_auth. rewrite Hc, str_eqb_refl. cbn [negb]. rewrite Hf. reflexivity. Qed.

(* the response classes of each route *)
Inductive shape := ShNone | ShStart | ShSignIn | ShSignOut | ShCallback | ShBack (h : B.handler).

Definition shape_ok (sh : shape) (r : response) : Prop :=
  match sh with
  | ShNone => no_effect r
  | ShStart => (r_loc r = LNone \/ exists st, r_loc r = LIdP st) /\ r_sess_ops r = [] /\ r_calls r = []
  | ShSignIn => (r_loc r = LNone \/ exists src s, r_loc r = LCode src s) /\ r_csrf_ops r = [] /\
                (forall c, In c (r_calls r) -> exists x, c = CIdp x)
  | ShSignOut => (r_loc r = LNone \/ exists src, r_loc r = LVerbatim src) /\ r_csrf_ops r = [] /\
                 (forall c, In c (r_calls r) -> exists t, c = CRevoke t) /\ (forall s, ~ In (F.OpSet s) (r_sess_ops r))
  | ShCallback => (r_loc r = LNone \/ exists src, r_loc r = LVerbatim src) /\
                  (forall c, In c (r_calls r) -> exists x, c = CIdp x) /\ ~ In F.OpClear (r_sess_ops r)
  | ShBack h => r_loc r = LNone /\ r_csrf_ops r = [] /\ (forall s, ~ In (F.OpSet s) (r_sess_ops r)) /\
                (forall c, In c (r_calls r) -> exists x, c = CIdp x)
  end.

Lemma gate_err_shapes r c sh : sh <> ShNone -> shape_ok sh (gate_err r c).
Proof.
  intros Hn. destruct sh; try contradiction; cbn; repeat split; auto; try (intros ? []); try (intros ? ? ; contradiction).
Qed.

Lemma calls_of_flow_idp l c : In c (calls_of_flow l) -> exists x, c = CIdp x.
Proof. unfold calls_of_flow. intros H. apply in_map_iff in H as [x [<- _]]. eexists. reflexivity. Qed.

Lemma start_shape slug k : shape_ok ShStart (route_at slug k rt_start p_start).
Proof.
  rewrite start_flat. destruct (negb _); [apply gate_err_shapes; discriminate|].
  unfold h_start, of_flow_start. destruct (F.sr_state _); cbn; repeat split; auto. right. eexists. reflexivity.
Qed.

Lemma sign_in_shape slug k : shape_ok ShSignIn (route_at slug k rt_sign_in p_sign_in).
Proof.
  rewrite sign_in_flat.
  repeat match goal with |- context [if ?b then gate_err _ _ else _] => destruct b; [apply gate_err_shapes; discriminate|] end.
  unfold h_sign_in, of_flow_sign_in.
  destruct (F.r_code _); [destruct (o_query_ok _ _)|destruct (F.r_body _)]; cbn;
    (split; [first [left; reflexivity | right; eexists; eexists; reflexivity]|]; split; [reflexivity|]; apply calls_of_flow_idp).
Qed.

Lemma sign_out_shape slug k : shape_ok ShSignOut (route_at slug k rt_sign_out p_sign_out).
Proof.
  destruct (signout_sound_int lower d o now_ns slug k q an) as [_ [_ [_ [_ [_ [H6 H7]]]]]].
  cbn [shape_ok]. split; [|split; [|split; [exact H6 | exact H7]]].
  - destruct (sign_out_cases lower d o now_ns slug k q an) as [[c [-> _]]|[_ ->]]; [left; reflexivity|].
    unfold h_sign_out. destruct (str_eqb _ _); destruct (acookie_of _); cbn; auto; try (right; eexists; reflexivity).
    destruct (S.revoke_ok _ _); cbn; auto. right. eexists. reflexivity.
  - destruct (sign_out_cases lower d o now_ns slug k q an) as [[c [-> _]]|[_ ->]]; [reflexivity|].
    unfold h_sign_out. destruct (str_eqb _ _); destruct (acookie_of _); cbn; auto.
    destruct (S.revoke_ok _ _); reflexivity.
Qed.

Lemma callback_shape slug k : shape_ok ShCallback (route_at slug k rt_callback p_callback).
Proof.
  destruct (callback_cases lower d o now_ns slug k q an) as [[c [-> _]]|[->|[_ [_ ->]]]];
    try (cbn; repeat split; auto; try (intros ? []); intros []).
  unfold of_flow_callback. destruct (F.cr_saved _); [destruct (F.cr_location _)|]; cbn;
    (split; [first [left; reflexivity | right; eexists; reflexivity]|]; split; [apply calls_of_flow_idp|]).
  - intros [X|[]]. discriminate X.
  - intros [].
  - intros [].
Qed.

Lemma back_shape slug k h : shape_ok (ShBack h) (route_at slug k (rt_back h) (rt_path (rt_back h))).
Proof.
  rewrite back_flat.
  repeat match goal with |- context [if ?b then gate_err _ _ else _] => destruct b; [apply gate_err_shapes; discriminate|] end.
  unfold h_back, of_back_handler. cbn. split; [reflexivity|]. split; [reflexivity|]. split.
  - intros s. destruct (match h with B.HRedeem => _ | _ => false end); [intros [X|[]]; discriminate X | intros []].
  - intros c Hin. apply in_flat_map in Hin as [x [_ Hx]]. destruct x; cbn in Hx; try contradiction;
      destruct Hx as [<-|[]]; eexists; reflexivity.
Qed.

(* every response has the shape of the route it was served by *)
Theorem serve_shape :
  shape_ok ShNone resp \/
  exists slug k rest, routed d q slug k rest /\
    ((rest = p_start /\ resp = route_at slug k rt_start p_start /\ shape_ok ShStart resp) \/
     (rest = p_sign_in /\ resp = route_at slug k rt_sign_in p_sign_in /\ shape_ok ShSignIn resp) \/
     (rest = p_sign_out /\ resp = route_at slug k rt_sign_out p_sign_out /\ shape_ok ShSignOut resp) \/
     (rest = p_callback /\ resp = route_at slug k rt_callback p_callback /\ shape_ok ShCallback resp) \/
     (exists h, rest = rt_path (rt_back h) /\ resp = route_at slug k (rt_back h) (rt_path (rt_back h)) /\
                shape_ok (ShBack h) resp)).
Proof.
  destruct (serve_inv lower d q o an now_ns) as [[_ [Hn _]]|[slug [k [rest [Hr He]]]]]; [left; exact Hn|].
  fold resp in He.
  pose proof (serve_auth_cases lower d slug k q rest o an now_ns) as Hc. cbv zeta in Hc. rewrite <- He in Hc.
  destruct Hc as [[Hn _]|Hc]; [left; exact Hn|]. right. exists slug, k, rest. split; [exact Hr|].
  destruct Hc as [[-> E]|[[-> E]|[[-> E]|[[-> E]|[h [-> E]]]]]].
  - left. split; [reflexivity|]. split; [exact E|]. rewrite E. apply start_shape.
  - right; left. split; [reflexivity|]. split; [exact E|]. rewrite E. apply sign_in_shape.
  - right; right; left. split; [reflexivity|]. split; [exact E|]. rewrite E. apply sign_out_shape.
  - right; right; right; left. split; [reflexivity|]. split; [exact E|]. rewrite E. apply callback_shape.
  - right; right; right; right. exists h. split; [reflexivity|]. split; [exact E|]. rewrite E. apply back_shape.
Qed.

(* a Location that carries a code comes from /sign_in and from nowhere else *)
Lemma code_only_sign_in src s : r_loc resp = LCode src s ->
  exists slug k, routed d q slug k p_sign_in /\ resp = route_at slug k rt_sign_in p_sign_in.
Proof.
  intros Hl. destruct serve_shape as [[_ [_ [_ [_ [[X|[? X]] _]]]]]|[slug [k [rest [Hr Hc]]]]];
    try (rewrite Hl in X; discriminate X).
  destruct Hc as [[-> [E [[X|[? X]] _]]]|[[-> [E _]]|[[-> [E [[X|[? X]] _]]]|[[-> [E [[X|[? X]] _]]]|[h [-> [E [X _]]]]]]]];
    try (rewrite Hl in X; discriminate X).
  exists slug, k. split; assumption.
Qed.

(* a session cookie is SET by /callback or (as a re-save) by /sign_in, and by nothing else *)
Lemma set_only_callback_or_sign_in s : In (F.OpSet s) (r_sess_ops resp) ->
  exists slug k, (routed d q slug k p_callback /\ resp = route_at slug k rt_callback p_callback) \/
                 (routed d q slug k p_sign_in /\ resp = route_at slug k rt_sign_in p_sign_in).
Proof.
  intros Hin. destruct serve_shape as [[_ [X _]]|[slug [k [rest [Hr Hc]]]]].
  { rewrite X in Hin. contradiction. }
  destruct Hc as [[-> [E [_ [X _]]]]|[[-> [E _]]|[[-> [E [_ [_ [_ X]]]]]|[[-> [E _]]|[h [-> [E [_ [_ [X _]]]]]]]]]].
  - rewrite X in Hin. contradiction.
  - exists slug, k. right. split; assumption.
  - exfalso. exact (X s Hin).
  - exists slug, k. left. split; assumption.
  - exfalso. exact (X s Hin).
Qed.

(* a token is revoked at the IdP by /sign_out only; a login is started at the IdP by /start only *)
Lemma revoke_only_sign_out tok : In (CRevoke tok) (r_calls resp) ->
  exists slug k, routed d q slug k p_sign_out /\ resp = route_at slug k rt_sign_out p_sign_out.
Proof.
  intros Hin. destruct serve_shape as [[_ [_ [_ [X _]]]]|[slug [k [rest [Hr Hc]]]]].
  { rewrite X in Hin. contradiction. }
  destruct Hc as [[-> [E [_ [_ X]]]]|[[-> [E [_ [_ X]]]]|[[-> [E _]]|[[-> [E [_ [X _]]]]|[h [-> [E [_ [_ [_ X]]]]]]]]]].
  - rewrite X in Hin. contradiction.
  - destruct (X _ Hin) as [x Hx]. discriminate Hx.
  - exists slug, k. split; assumption.
  - destruct (X _ Hin) as [x Hx]. discriminate Hx.
  - destruct (X _ Hin) as [x Hx]. discriminate Hx.
Qed.

Lemma idp_only_start st : r_loc resp = LIdP st ->
  exists slug k, routed d q slug k p_start /\ resp = route_at slug k rt_start p_start.
Proof.
  intros Hl. destruct serve_shape as [[_ [_ [_ [_ [[X|[? X]] _]]]]]|[slug [k [rest [Hr Hc]]]]];
    try (rewrite Hl in X; discriminate X).
  destruct Hc as [[-> [E _]]|[[-> [E [[X|[? [? X]]] _]]]|[[-> [E [[X|[? X]] _]]]|[[-> [E [[X|[? X]] _]]]|[h [-> [E [X _]]]]]]]];
    try (rewrite Hl in X; discriminate X).
  exists slug, k. split; assumption.
Qed.

(* a verbatim redirect to a caller-supplied URI: /sign_out or /callback *)
Lemma verbatim_only_sign_out_or_callback src : r_loc resp = LVerbatim src ->
  exists slug k, (routed d q slug k p_sign_out /\ resp = route_at slug k rt_sign_out p_sign_out) \/
                 (routed d q slug k p_callback /\ resp = route_at slug k rt_callback p_callback).
Proof.
  intros Hl. destruct serve_shape as [[_ [_ [_ [_ [[X|[? X]] _]]]]]|[slug [k [rest [Hr Hc]]]]];
    try (rewrite Hl in X; discriminate X).
  destruct Hc as [[-> [E [[X|[? X]] _]]]|[[-> [E [[X|[? [? X]]] _]]]|[[-> [E _]]|[[-> [E _]]|[h [-> [E [X _]]]]]]]];
    try (rewrite Hl in X; discriminate X).
  - exists slug, k. left. split; assumption.
  - exists slug, k. right. split; assumption.
Qed.

(* back-channel data (a JSON document) comes from a back-channel handler that ran *)
Lemma json_only_back b : r_body resp = BJson b ->
  exists slug k h, routed d q slug k (rt_path (rt_back h)) /\
                   resp = route_at slug k (rt_back h) (rt_path (rt_back h)) /\ r_ran resp = Some (HBack h).
Proof.
  intros Hb. destruct serve_shape as [[_ [_ [_ [_ [_ X]]]]]|[slug [k [rest [Hr Hc]]]]].
  { rewrite Hb in X. contradiction. }
  assert (Hg : forall r c, r_body (gate_err r c) <> BJson b) by (intros r c; cbn; unfold err_body; destruct (accept_json r); discriminate).
  destruct Hc as [[-> [E _]]|[[-> [E _]]|[[-> [E _]]|[[-> [E _]]|[h [-> [E _]]]]]]].
  - exfalso. rewrite E, start_flat in Hb. destruct (negb _); [exact (Hg _ _ Hb)|].
    unfold h_start, of_flow_start in Hb. destruct (F.sr_state _); cbn in Hb; [discriminate|]. unfold err_body in Hb. destruct (accept_json _); discriminate.
  - exfalso. rewrite E, sign_in_flat in Hb.
    repeat match type of Hb with context [if ?c then gate_err _ _ else _] => destruct c; [exact (Hg _ _ Hb)|] end.
    unfold h_sign_in, of_flow_sign_in in Hb. destruct (F.r_code _); [destruct (o_query_ok _ _)|destruct (F.r_body _)]; cbn in Hb;
      try discriminate; unfold err_body in Hb; destruct (accept_json _); discriminate.
  - exfalso. rewrite E in Hb. destruct (sign_out_cases lower d o now_ns slug k q an) as [[c [X _]]|[_ X]]; rewrite X in Hb; [exact (Hg _ _ Hb)|].
    unfold h_sign_out in Hb. destruct (str_eqb _ _); destruct (acookie_of _); cbn in Hb; try discriminate.
    destruct (S.revoke_ok _ _); discriminate.
  - exfalso. rewrite E in Hb. destruct (callback_cases lower d o now_ns slug k q an) as [[c [X _]]|[X|[_ [_ X]]]]; rewrite X in Hb.
    + exact (Hg _ _ Hb).
    + cbn in Hb. unfold err_body in Hb. destruct (accept_json _); discriminate.
    + unfold of_flow_callback in Hb. destruct (F.cr_saved _); [destruct (F.cr_location _)|]; cbn in Hb; try discriminate;
        unfold err_body in Hb; destruct (accept_json _); discriminate.
  - exists slug, k, h. split; [exact Hr|]. split; [exact E|].
    destruct (back_gate_sound_int lower d o now_ns slug k q an h) as [_ H2].
    rewrite E. destruct (r_ran (route_at slug k (rt_back h) (rt_path (rt_back h)))) as [h'|] eqn:Er.
    + destruct (back_gate_sound_int lower d o now_ns slug k q an h) as [H1 _]. destruct (H1 h' Er) as [-> _]. reflexivity.
    + exfalso. destruct (back_effects_need_handler lower d o now_ns slug k q an h Er) as [_ X]. apply (X b). rewrite <- E. exact Hb.
Qed.

End Whole.

(* ------------------------------------------------------------------------------------------ *)
(* the composite end-to-end theorems, over ALL requests, cookies, provider answers and times    *)

Lemma sign_in_page_200 (lower : str -> str) cfg p now rq c rr vr :
  F.r_body (F.sign_in lower cfg p now rq c rr vr) = F.BodySignInPage ->
  F.r_status (F.sign_in lower cfg p now rq c rr vr) = 200.
Proof.
  unfold F.sign_in. destruct (F.ao_res _) as [[]|s]; cbn; try discriminate; try reflexivity.
  unfold F.proxy_oauth_redirect. destruct (F.is_nil _); discriminate.
Qed.

Section Final.
Variable lower : str -> str.

(* from the integrated response back to AuthGates' route view, through the adapter *)
Lemma code_gives_gates_outcome d o now_ns slug k q an src s :
  let r := inner q p_sign_in in
  r_loc (serve_route lower d slug k q o an now_ns rt_sign_in r (B.init_state (d_pre d) r)) = LCode src s ->
  G.serve (gcfg d) now_ns G.EpSignIn (gview d o k an r (gsess_sign_in lower d o now_ns slug k q an)) =
  G.ORedirect src G.WithCode.
Proof.
  cbv zeta. intros Hl. pose proof (gates_view_sign_in lower d o now_ns slug k q an (inner q p_sign_in)) as Ha.
  destruct (G.serve _ _ _ _) as [st|st|src' [|]|a]; cbn [loc_agrees] in Ha.
  - destruct Ha as [X _]. rewrite Hl in X. discriminate X.
  - rewrite Hl in Ha. discriminate Ha.
  - rewrite Hl in Ha. discriminate Ha.
  - destruct Ha as [s' X]. rewrite Hl in X. inversion X. reflexivity.
  - destruct Ha as [n X]. rewrite Hl in X. discriminate X.
Qed.

Definition redeem_request_ok (d : deployment) (q' : request) : Prop :=
  let r' := inner q' B.p_redeem in
  B.rq_method r' = B.m_post /\ init_err d r' = false /\
  B.presented_id r' = d_client_id d /\ B.presented_secret r' = d_client_secret d.

(* INT_code_end_to_end *)
Theorem code_end_to_end d q o an now_ns src s :
  r_loc (serve lower d q o an now_ns) = LCode src s ->
  let resp := serve lower d q o an now_ns in
  let r := inner q p_sign_in in
  let now_s := (now_ns / ns)%Z in
  exists slug k,
    (* the route: this deployment's host, clean path, a registered provider slug, /sign_in, GET,
       and the gates of newMux in their order *)
    routed d q slug k p_sign_in /\
    sign_in_gates_pass d o now_ns q /\ src = redirect_value r /\ B.form_get k_state (the_form r) <> [] /\
    (* C07: redirect_uri's host, under EVERY RFC 3986 reading, is in a configured root domain *)
    (forall sch ui h port rest, Url.rfc_split src sch ui h port rest ->
       G.in_domain (Url.rfc_hostname h) (d_proxy_domains d)) /\
    (* C07: the Location actually written: its authority is all ASCII and, whatever path / query
       (with the code) follows, every RFC reading of the text names an in-domain host *)
    (forallb Url.byte_ok src = true -> (d_scheme d = [] \/ Url.scheme_ok (d_scheme d)) ->
       exists u, Url.go_parse src = Some u /\
         forall tail s' ui' h' p' r', Url.rest_ok tail ->
           Url.rfc_split (Url.authority_string (d_scheme d) u ++ tail) s' ui' h' p' r' ->
           G.in_domain (Url.rfc_hostname h') (d_proxy_domains d)) /\
    (* C07: signature valid and fresh; under the ideal-MAC hypothesis it was issued by the proxy *)
    (exists t, G.parse_int (ts_value r) = Some t /\
               sigval_of o (sig_value r) = G.SigTag (G.Mac (d_client_secret d) (src ++ G.dec t)) /\
               (now_ns - t * ns <= G.ttl_ns)%Z) /\
    (forall issued, G.issued_only (d_client_secret d) issued (sigval_of o (sig_value r)) ->
       G.signed_fresh now_ns issued src (ts_value r)) /\
    (* C09: the cookie opens under the COOKIE key, is within its lifetime, the IdP confirmed it in
       THIS request, its e-mail passes the rule; the code seals that session (same owner, refresh
       token and lifetime) and exactly it is re-saved *)
    (exists c s0, lookup slug (q_sess q) = Some c /\ o_open o c = Some (d_cookie_key d, to_back s0) /\
       (now_s <= F.s_lifetime s0)%Z /\ F.rule_passes lower (fcfg d) (F.s_email s0) = true /\
       F.s_email s = F.s_email s0 /\ F.s_lifetime s = F.s_lifetime s0 /\ F.s_rtok s = F.s_rtok s0 /\
       r_sess_ops resp = [F.OpSet s] /\
       exists calls, r_calls resp = map CIdp calls /\
         (FP.refreshed_ok now_s s0 (an_refresh an) s calls \/ FP.validated_ok (fkind k) now_s s0 (an_validate an) s calls)) /\
    r_status resp = 302 /\
    (* C08: the code is a seal under the AUTH-CODE key of exactly that session: whoever presents a
       string that opens under that key to s, with the client credentials, within its deadlines,
       at /redeem of any registered provider, at any later time, gets s's e-mail and tokens back *)
    (forall q' o' an' now_ns' slug' k' c,
       routed d q' slug' k' B.p_redeem -> redeem_request_ok d q' ->
       B.presented_code (inner q' B.p_redeem) = c -> o_open o' c = Some (d_code_key d, to_back s) ->
       ((now_ns' / ns) <= F.s_refresh s)%Z -> ((now_ns' / ns) <= F.s_lifetime s)%Z ->
       let resp' := serve lower d q' o' an' now_ns' in
       r_status resp' = 200 /\ r_body resp' = BJson (session_json (to_back s) (now_ns' / ns)) /\ r_calls resp' = []).
Proof.
  intros Hl. cbv zeta.
  destruct (code_only_sign_in lower d q o an now_ns src s Hl) as [slug [k [Hr He]]].
  exists slug, k. split; [exact Hr|]. rewrite He in Hl |- *.
  destruct (code_sound_int lower d o now_ns slug k q an src s Hl) as [Hg [Hs [Hst [Hdom [Hsig [Hck [H302 _]]]]]]].
  pose proof (code_gives_gates_outcome d o now_ns slug k q an src s Hl) as Hgo.
  split; [exact Hg|]. split; [exact Hs|]. split; [exact Hst|]. split; [exact Hdom|].
  split. { intros Hb Hsch. exact (GP.code_location_in_domain (gcfg d) now_ns G.EpSignIn _ src Hgo Hb Hsch). }
  split; [exact Hsig|].
  split. { intros issued Hi. destruct (GP.code_needs_signature (gcfg d) now_ns G.EpSignIn (gview d o k an (inner q p_sign_in) (gsess_sign_in lower d o now_ns slug k q an)) issued Hi) as [H1 _].
           exact (proj2 (H1 src Hgo)). }
  split. { destruct Hck as [c [s0 [A1 [A2 [A3 [A4 [A5 [A6 [A7 [A8 [A9 A10]]]]]]]]]]].
           exists c, s0. repeat (split; [assumption|]). eexists. split; [exact A10 | exact A9]. }
  split; [exact H302|].
  intros q' o' an' now_ns' slug' k' c Hr' [Hm [Hi [Hid Hsec]]] Hc Ho Hrf Hlt.
  rewrite (serve_routed lower d q' o' an' now_ns' slug' k' B.p_redeem Hr').
  rewrite (serve_auth_at lower d q' o' an' now_ns' slug' k' B.p_redeem (rt_back B.HRedeem)) by (vm_compute; reflexivity).
  subst c.
  destruct (code_redeems_int lower d o' now_ns' slug' k' q' an' (to_back s) Hm Hi Hid Hsec Ho Hrf Hlt) as [R1 [R2 [R3 _]]].
  auto.
Qed.

(* INT_login_end_to_end *)
Theorem login_end_to_end d q o an now_ns s :
  let resp := serve lower d q o an now_ns in
  In (F.OpSet s) (r_sess_ops resp) ->
  exists slug k,
    (* set by /callback: CSRF nonce matched, provider vouched, redirect re-validated *)
    (routed d q slug k p_callback /\
     let r := inner q p_callback in
     let code := B.form_get B.k_code (the_form r) in
     B.rq_method r = B.m_get /\
     exists nonce redirect ts,
       S.b64_decode (B.form_get k_state (the_form r)) = Some (nonce ++ F.colon :: redirect) /\
       ~ In F.colon nonce /\ lookup slug (q_csrf q) = Some nonce /\
       G.valid_redirect_uri redirect (root_domains d) = true /\
       (forall sch ui h port rest, Url.rfc_split redirect sch ui h port rest ->
          G.in_domain (Url.rfc_hostname h) (d_proxy_domains d)) /\
       B.form_get k_error (the_form r) = [] /\
       T.redeem true (tprov k) (an_payload an) code (an_tok an) (an_ui an) = T.Session ts /\
       idp_vouched k an code ts /\
       F.rule_passes lower (fcfg d) (T.s_email ts) = true /\
       s = F.redeemed_session (fcfg d) (now_ns / ns) (T.s_email ts) (T.s_access ts) (T.s_refresh ts) (T.s_expires_in ts) /\
       r_loc resp = LVerbatim redirect /\ r_status resp = 302 /\
       r_sess_ops resp = [F.OpSet s] /\ r_csrf_ops resp = [F.mkSC [] true] /\
       r_calls resp = [CIdp (F.CallRedeem code)]) \/
    (* ... or a re-save by /sign_in of the session the browser presented: same owner, same
       refresh token, same lifetime (C09_resave_keeps_lifetime) *)
    (routed d q slug k p_sign_in /\
     exists c s0, lookup slug (q_sess q) = Some c /\ o_open o c = Some (d_cookie_key d, to_back s0) /\
       ((now_ns / ns) <= F.s_lifetime s0)%Z /\
       F.s_email s = F.s_email s0 /\ F.s_rtok s = F.s_rtok s0 /\ F.s_lifetime s = F.s_lifetime s0 /\
       ((now_ns / ns) <= F.s_refresh s0 -> s = s0)%Z).
Proof.
  cbv zeta. intros Hin.
  destruct (set_only_callback_or_sign_in lower d q o an now_ns s Hin) as [slug [k [[Hr He]|[Hr He]]]]; exists slug, k.
  - left. split; [exact Hr|]. rewrite He in Hin |- *.
    exact (login_sound_int lower d o now_ns slug k q an s Hin).
  - right. split; [exact Hr|]. rewrite He in Hin.
    destruct (sign_in_ran_cases lower d o now_ns slug k q an) as [Hran|Hran].
    + destruct (sign_in_entered lower d o now_ns slug k q an Hran) as [_ Hx]. rewrite Hx in Hin.
      assert (Hops : In (F.OpSet s) (F.r_ops (F.sign_in lower (fcfg d) (fkind k) (now_ns / ns)
                 (F.mkSI true true true true (B.form_get k_state (the_form (inner q p_sign_in))))
                 (cookie_of d o (lookup slug (q_sess q))) (an_refresh an) (an_validate an)))).
      { unfold of_flow_sign_in in Hin. destruct (F.r_code _); [destruct (o_query_ok _ _)|destruct (F.r_body _)]; exact Hin. }
      destruct (FP.sign_in_route_sets lower (fcfg d) (fkind k) (now_ns / ns) (F.mkSI true true true true _) _ _ _ s Hops)
        as [s0 [Hck [Hl [E1 [E2 [E3 E4]]]]]].
      destruct (cookie_of_sealed d o _ s0 Hck) as [c [Hlk Hop]].
      exists c, s0. repeat (split; [assumption|]). exact E4.
    + destruct (sign_in_refused lower d o now_ns slug k q an Hran) as [code [Hx _]]. rewrite Hx in Hin. cbn in Hin. contradiction.
Qed.

(* INT_backchannel *)
Theorem backchannel_end_to_end d q o an now_ns :
  let resp := serve lower d q o an now_ns in
  (* (a) the token endpoints act only with the client credentials (C08) *)
  (forall h, r_ran resp = Some (HBack h) ->
     exists slug k, routed d q slug k (rt_path (rt_back h)) /\
       let r := inner q (rt_path (rt_back h)) in
       mem_str (B.rq_method r) (rt_methods (rt_back h)) = true /\
       B.presented_id r = d_client_id d /\ B.presented_secret r = d_client_secret d /\
       (d_client_id d <> [] -> d_client_secret d <> [] ->
        In (d_client_id d) (B.id_values r) /\ In (d_client_secret d) (B.secret_values r))) /\
  (forall b, r_body resp = BJson b -> exists h, r_ran resp = Some (HBack h)) /\
  (forall slug k h, routed d q slug k (rt_path (rt_back h)) -> r_ran resp = None ->
     r_calls resp = [] /\ r_sess_ops resp = [] /\ r_body resp = err_body (inner q (rt_path (rt_back h))) (r_status resp) /\
     (r_status resp = 405 \/ (r_status resp = 500 /\ d_pre d = false) \/
      (r_status resp = 401 /\ (B.presented_id (inner q (rt_path (rt_back h))) <> d_client_id d \/
                               B.presented_secret (inner q (rt_path (rt_back h))) <> d_client_secret d)))) /\
  (* /redeem answers 200 only for a string that opens under the auth-code key to a live session *)
  (forall slug k, routed d q slug k B.p_redeem -> r_status resp = 200 ->
     exists s, o_open o (B.presented_code (inner q B.p_redeem)) = Some (d_code_key d, s) /\
       ((now_ns / ns) <= B.s_refresh_dl s)%Z /\ ((now_ns / ns) <= B.s_lifetime_dl s)%Z /\
       r_body resp = BJson (session_json s (now_ns / ns)) /\ r_calls resp = []) /\
  (* (b) every response from inside an authenticator carries the whole security table (C18) *)
  (forall slug k rest, routed d q slug k rest ->
     forall key v, H.tbl_lookup key HP.AT = Some v -> H.hget key (headers_of resp) = [H.VStr v]) /\
  (* (c) error bodies are the error.html page or the JSON error document, nothing else; both are
     inert for EVERY message text (C20) *)
  (r_secured resp = true -> 400 <= r_status resp ->
     r_body resp = BErrPage (r_status resp) \/ r_body resp = BErrJson (r_status resp) \/ r_body resp = BPlain \/
     r_body resp = BEmpty \/ exists e u sg t, r_body resp = BSignOutPage e u sg t true).
Proof.
  cbv zeta. split; [|split; [|split; [|split; [|split]]]].
  - intros h Hran. destruct (serve_shape lower d q o an now_ns) as [[X _]|[slug [k [rest [Hr Hc]]]]]; [rewrite X in Hran; discriminate|].
    assert (Hg : forall r c, r_ran (gate_err r c) <> Some (HBack h)) by (intros; discriminate).
    destruct Hc as [[-> [E _]]|[[-> [E _]]|[[-> [E _]]|[[-> [E _]]|[h' [-> [E _]]]]]]].
    + exfalso. rewrite E, start_flat in Hran. destruct (negb _); [discriminate|].
      unfold h_start, of_flow_start in Hran. destruct (F.sr_state _); discriminate.
    + exfalso. rewrite E in Hran. destruct (sign_in_ran_cases lower d o now_ns slug k q an) as [X|X]; rewrite X in Hran; discriminate.
    + exfalso. rewrite E in Hran. destruct (sign_out_cases lower d o now_ns slug k q an) as [[c [X _]]|[_ X]]; rewrite X in Hran; [discriminate|].
      unfold h_sign_out in Hran. destruct (str_eqb _ _); destruct (acookie_of _); try discriminate. destruct (S.revoke_ok _ _); discriminate.
    + exfalso. rewrite E in Hran. destruct (callback_cases lower d o now_ns slug k q an) as [[c [X _]]|[X|[_ [_ X]]]]; rewrite X in Hran; try discriminate.
      unfold of_flow_callback in Hran. destruct (F.cr_saved _); [destruct (F.cr_location _)|]; discriminate.
    + rewrite E in Hran. destruct (back_gate_sound_int lower d o now_ns slug k q an h') as [H1 _].
      destruct (H1 _ Hran) as [Hh [Hm [Hi Hs]]]. inversion Hh; subst h'.
      exists slug, k. split; [exact Hr|]. cbv zeta. split; [exact Hm|]. split; [exact Hi|]. split; [exact Hs|].
      intros N1 N2. exact (back_knowledge_int lower d o now_ns slug k q an h _ N1 N2 Hran).
  - intros b Hb. destruct (json_only_back lower d q o an now_ns b Hb) as [slug [k [h [_ [_ Hran]]]]]. exists h. exact Hran.
  - intros slug k h Hr Hran. rewrite (serve_routed lower d q o an now_ns slug k _ Hr) in Hran |- *.
    rewrite (serve_auth_at lower d q o an now_ns slug k _ (rt_back h)) in Hran |- * by (destruct h; vm_compute; reflexivity).
    destruct (back_gate_sound_int lower d o now_ns slug k q an h) as [_ H2].
    destruct (H2 Hran) as [A1 [A2 [_ [_ [A5 A6]]]]]. split; [exact A1|]. split; [exact A2|]. split; [exact A5|].
    destruct A6 as [[X _]|[[X [Y _]]|[X Y]]]; auto.
  - intros slug k Hr H200. rewrite (serve_routed lower d q o an now_ns slug k _ Hr) in H200 |- *.
    rewrite (serve_auth_at lower d q o an now_ns slug k _ (rt_back B.HRedeem)) in H200 |- * by (vm_compute; reflexivity).
    destruct (redeem_genuine_int lower d o now_ns slug k q an H200) as [s [A1 [A2 [A3 [A4 [A5 _]]]]]].
    exists s. auto.
  - intros slug k rest Hr key v Hk. apply security_headers_int; [|exact Hk].
    apply (secured_iff_routed lower). exists slug, k, rest. exact Hr.
  - intros Hsec H400.
    assert (Hge : forall r c, r_body (gate_err r c) = BErrPage (r_status (gate_err r c)) \/ r_body (gate_err r c) = BErrJson (r_status (gate_err r c))).
    { intros r c. cbn. unfold err_body. destruct (accept_json r); auto. }
    assert (Hew : forall r c a b cs rn, r_body (err_with r c a b cs rn) = BErrPage (r_status (err_with r c a b cs rn)) \/
                                         r_body (err_with r c a b cs rn) = BErrJson (r_status (err_with r c a b cs rn))).
    { intros r c a b cs rn. cbn. unfold err_body. destruct (accept_json r); auto. }
    apply (secured_iff_routed lower) in Hsec. destruct Hsec as [slug [k [rest Hr]]].
    rewrite (serve_routed lower d q o an now_ns slug k rest Hr) in *.
    pose proof (serve_auth_cases lower d slug k q rest o an now_ns) as Hc. cbv zeta in Hc.
    destruct Hc as [[_ [[_ X]|[_ [X _]]]]|Hc]; [rewrite X; auto | rewrite X; auto |].
    destruct Hc as [[-> E]|[[-> E]|[[-> E]|[[-> E]|[h [-> E]]]]]]; rewrite E in H400 |- *.
    + rewrite start_flat in *. destruct (negb _); [destruct (Hge (inner q p_start) 405); auto|].
      unfold h_start, of_flow_start in *. destruct (F.sr_state _); [cbn in H400; lia|]. destruct (Hew (inner q p_start) (F.sr_status (F.oauth_start (an_nonce an) (start_request_of d o now_ns (inner q p_start)))) [] (F.start_set_cookies (F.oauth_start (an_nonce an) (start_request_of d o now_ns (inner q p_start)))) [] (Some HStart)); auto.
    + rewrite sign_in_flat in *.
      repeat match goal with |- context [if ?c then gate_err ?r ?x else _] => destruct c; [destruct (Hge r x); auto|] end.
      unfold h_sign_in, of_flow_sign_in in *.
      destruct (F.r_code _); [destruct (o_query_ok _ _); [cbn in H400; lia|]|destruct (F.r_body _) eqn:Eb].
      * match goal with |- context [err_with ?r ?c ?a ?b ?cs ?rn] => destruct (Hew r c a b cs rn); auto end.
      * exfalso. cbn [r_status mk] in H400. rewrite (sign_in_page_200 lower _ _ _ _ _ _ _ Eb) in H400. lia.
      * match goal with |- context [err_with ?r ?c ?a ?b ?cs ?rn] => destruct (Hew r c a b cs rn); auto end.
      * match goal with |- context [err_with ?r ?c ?a ?b ?cs ?rn] => destruct (Hew r c a b cs rn); auto end.
    + destruct (sign_out_cases lower d o now_ns slug k q an) as [[c [X _]]|[_ X]]; rewrite X in *; [destruct (Hge (inner q p_sign_out) c); auto|].
      unfold h_sign_out in *. destruct (str_eqb _ _); destruct (acookie_of _); cbn in H400 |- *; try lia.
      destruct (S.revoke_ok _ _); cbn in H400 |- *; [lia|]. right; right; right; right. eexists _, _, _, _. reflexivity.
    + destruct (callback_cases lower d o now_ns slug k q an) as [[c [X _]]|[X|[_ [_ X]]]]; rewrite X in *.
      * destruct (Hge (inner q p_callback) c); auto.
      * destruct (Hew (inner q p_callback) 500 [] [] [] (Some HCallback)); auto.
      * unfold of_flow_callback in *. destruct (F.cr_saved _); [destruct (F.cr_location _); [cbn in H400; lia|]|];
          match goal with |- context [err_with ?r ?c ?a ?b ?cs ?rn] => destruct (Hew r c a b cs rn); auto end.
    + rewrite back_flat in *.
      repeat match goal with |- context [if ?c then gate_err ?r ?x else _] => destruct c; [destruct (Hge r x); auto|] end.
      unfold h_back, of_back_handler, back_body in *. cbn [r_body r_status mk] in *.
      set (rs := B.run_handler (bcfg d) (benv d k o an (now_ns / ns)) h (inner q (rt_path (rt_back h))) (Some (the_form (inner q (rt_path (rt_back h)))))) in *.
      destruct (has_field (B.rs_body rs)) eqn:Ehf.
      2:{ destruct h; auto; destruct (B.rs_calls rs); auto; unfold err_body; destruct (accept_json _); auto. }
      exfalso.
      (* a JSON document is only written with 200 / 201 *)
      assert (Hf : has_field (B.rs_body rs) = true -> B.rs_status rs < 400).
      { subst rs. destruct h; cbn [B.run_handler].
        - unfold B.get_profile. destruct (B.is_nil _); [discriminate|]. destruct (B.e_groups _); cbn; [lia | discriminate].
        - unfold B.validate_token. destruct (B.is_nil _); [discriminate|]. destruct (B.e_valid _); discriminate.
        - unfold B.redeem. destruct (B.parse_form _ _) as [f e0]. destruct e0; [discriminate|].
          destruct (B.unseal _ _ _); [|discriminate]. destruct (_ || _)%bool; [discriminate|]. cbn. lia.
        - unfold B.refresh. destruct (B.parse_form _ _) as [f e0]. destruct e0; [discriminate|].
          destruct (B.is_nil _); [discriminate|]. destruct (B.e_refresh _); cbn; [lia | discriminate]. }
      specialize (Hf Ehf). lia.
Qed.

End Final.

Section Final2.
Variable lower : str -> str.

(* INT_signout: C19's clauses through the real gate order, over all requests *)
Theorem signout_end_to_end d q o an now_ns :
  let resp := serve lower d q o an now_ns in
  (* a token is revoked at the IdP only by /sign_out *)
  (forall tok, In (CRevoke tok) (r_calls resp) -> exists slug k, routed d q slug k p_sign_out) /\
  (forall slug k, routed d q slug k p_sign_out ->
     let r := inner q p_sign_out in
     let ack := acookie_of (cookie_of d o (lookup slug (q_sess q))) in
     let uri := redirect_value r in
     (has_clear (r_sess_ops resp) ->
        B.rq_method r = B.m_post /\ sign_out_gates_pass d o now_ns q /\ r_loc resp = LVerbatim uri /\ r_status resp = 302 /\
        ((ack = S.ACJunk /\ r_calls resp = []) \/
         exists s, ack = S.ACSealed s /\ r_calls resp = [CRevoke (S.revoke_token (sprov k) s)] /\
                   S.revoke_ok (sprov k) (an_revoke an) = true)) /\
     (forall tok, In (CRevoke tok) (r_calls resp) ->
        exists s, ack = S.ACSealed s /\ tok = S.revoke_token (sprov k) s /\ B.rq_method r = B.m_post /\
                  sign_out_gates_pass d o now_ns q) /\
     (B.rq_method r = B.m_get -> r_sess_ops resp = [] /\ r_calls resp = []) /\
     (forall s, ack = S.ACSealed s -> B.rq_method r = B.m_post -> sign_out_gates_pass d o now_ns q ->
        r_calls resp = [CRevoke (S.revoke_token (sprov k) s)] /\
        (S.revoke_ok (sprov k) (an_revoke an) = false -> r_status resp = 500 /\ r_sess_ops resp = [] /\ r_loc resp = LNone) /\
        (S.revoke_ok (sprov k) (an_revoke an) = true -> r_loc resp = LVerbatim uri /\ r_sess_ops resp = [F.OpClear])) /\
     (~ sign_out_gates_pass d o now_ns q ->
        r_sess_ops resp = [] /\ r_calls resp = [] /\ r_loc resp = LNone /\ r_ran resp = None) /\
     (forall src, r_loc resp = LVerbatim src ->
        src = uri /\ sign_out_gates_pass d o now_ns q /\
        (forall sch ui h port rest, Url.rfc_split src sch ui h port rest ->
           G.in_domain (Url.rfc_hostname h) (d_proxy_domains d)) /\
        exists t, G.parse_int (ts_value r) = Some t /\
                  sigval_of o (sig_value r) = G.SigTag (G.Mac (d_client_secret d) (src ++ G.dec t)) /\
                  (now_ns - t * ns <= G.ttl_ns)%Z)).
Proof.
  cbv zeta. split.
  - intros tok Hin. destruct (revoke_only_sign_out lower d q o an now_ns tok Hin) as [slug [k [Hr _]]]. exists slug, k. exact Hr.
  - intros slug k Hr. rewrite (serve_routed lower d q o an now_ns slug k _ Hr).
    rewrite (serve_auth_at lower d q o an now_ns slug k _ rt_sign_out) by (vm_compute; reflexivity).
    destruct (signout_sound_int lower d o now_ns slug k q an) as [H1 [H2 [H3 [H4 [H5 _]]]]].
    split; [exact H1|]. split; [exact H2|]. split; [exact H3|]. split; [exact H4|]. split.
    + intros Hn. destruct (signout_needs_valid_int lower d o now_ns slug k q an Hn) as [c [He [A [B C]]]].
      repeat split; try assumption. rewrite He. reflexivity.
    + intros src Hl. destruct (H5 src Hl) as [Hs Hg]. split; [exact Hs|]. split; [exact Hg|].
      exact (signout_redirect_int lower d o now_ns slug k q an src Hl).
Qed.

(* INT_start: a login is started at the provider only by GET /start for validated, signed URIs *)
Theorem start_end_to_end d q o an now_ns st :
  let resp := serve lower d q o an now_ns in
  r_loc resp = LIdP st ->
  exists slug k, routed d q slug k p_start /\
    let r := inner q p_start in
    let raw := B.form_get k_redirect_uri (B.url_query r) in
    B.rq_method r = B.m_get /\
    exists a b nraw nsig nts,
      o_parse_string o raw = Some a /\ o_nested o raw = (nraw, nsig, nts) /\ o_parse_string o nraw = Some b /\
      G.valid_redirect_uri a (root_domains d) = true /\ G.valid_redirect_uri b (root_domains d) = true /\
      (forall sch ui h port rest, Url.rfc_split a sch ui h port rest -> G.in_domain (Url.rfc_hostname h) (d_proxy_domains d)) /\
      (forall sch ui h port rest, Url.rfc_split b sch ui h port rest -> G.in_domain (Url.rfc_hostname h) (d_proxy_domains d)) /\
      (exists t, G.parse_int nts = Some t /\
                 sigval_of o nsig = G.SigTag (G.Mac (d_client_secret d) (b ++ G.dec t)) /\
                 (now_ns - t * ns <= G.ttl_ns)%Z) /\
      (* C09: the state handed to the IdP is nonce ":" a, and that nonce is the CSRF cookie set *)
      st = an_nonce an ++ F.colon :: a /\ r_csrf_ops resp = [F.mkSC (an_nonce an) false] /\
      r_status resp = 302 /\ r_sess_ops resp = [] /\ r_calls resp = [].
Proof.
  cbv zeta. intros Hl. destruct (idp_only_start lower d q o an now_ns st Hl) as [slug [k [Hr He]]].
  exists slug, k. split; [exact Hr|]. rewrite He in Hl |- *.
  destruct (start_sound_int lower d o now_ns slug k q an st Hl) as [Hm [a [b [nraw [nsig [nts [A1 [A2 [A3 [A4 [A5 [A6 [A7 [A8 [A9 [A10 A11]]]]]]]]]]]]]]]].
  split; [exact Hm|]. exists a, b, nraw, nsig, nts.
  split; [exact A1|]. split; [exact A2|]. split; [exact A3|]. split; [exact A4|]. split; [exact A5|].
  split. { intros sch ui h port rest Hsp. exact (GP.host_in_domain _ _ _ _ _ _ _ A4 Hsp). }
  split. { intros sch ui h port rest Hsp. exact (GP.host_in_domain _ _ _ _ _ _ _ A5 Hsp). }
  split. { destruct (GP.valid_signature_sound _ _ _ _ _ A6) as [_ [_ [_ [_ [t [Ht [Hmm Ha]]]]]]]. exists t. auto. }
  auto 10.
Qed.

(* every 3xx to a caller-supplied URI, at any endpoint, goes to a host in a configured root domain *)
Theorem redirects_in_domain d q o an now_ns src :
  let resp := serve lower d q o an now_ns in
  (r_loc resp = LVerbatim src \/ exists s, r_loc resp = LCode src s) ->
  G.valid_redirect_uri src (root_domains d) = true /\
  forall sch ui h port rest, Url.rfc_split src sch ui h port rest -> G.in_domain (Url.rfc_hostname h) (d_proxy_domains d).
Proof.
  cbv zeta. intros Hl.
  assert (Hv : G.valid_redirect_uri src (root_domains d) = true).
  { destruct Hl as [Hl|[s Hl]].
    - destruct (verbatim_only_sign_out_or_callback lower d q o an now_ns src Hl) as [slug [k [[Hr He]|[Hr He]]]]; rewrite He in Hl.
      + destruct (signout_sound_int lower d o now_ns slug k q an) as [_ [_ [_ [_ [H5 _]]]]].
        destruct (H5 src Hl) as [-> [_ [_ [Hu _]]]]. exact Hu.
      + destruct (callback_shape lower d q o an now_ns slug k) as [_ _].
        destruct (callback_cases lower d o now_ns slug k q an) as [[c [X _]]|[X|[_ [_ X]]]]; rewrite X in Hl; try discriminate Hl.
        unfold of_flow_callback in Hl. destruct (F.cr_saved _) as [s'|] eqn:Es; [|discriminate Hl].
        pose proof (FP.callback_csrf lower _ _ _ _ s' Es) as
          [nonce [redirect [email [access [rtok [dur [_ [_ [_ [_ [_ [_ [Hro [_ [_ [_ [_ [Hlo _]]]]]]]]]]]]]]]]]].
        rewrite Hlo in Hl. inversion Hl; subst. exact Hro.
    - destruct (code_end_to_end lower d q o an now_ns src s Hl) as [slug [k [_ [[_ [_ [_ [Hu _]]]] [Hs _]]]]].
      rewrite Hs. exact Hu. }
  split; [exact Hv|]. intros sch ui h port rest Hsp. exact (GP.host_in_domain _ _ _ _ _ _ _ Hv Hsp).
Qed.

(* INT_routing *)
Theorem routing_end_to_end d q o an now_ns :
  let resp := serve lower d q o an now_ns in
  (r_secured resp = true <-> exists slug k rest, routed d q slug k rest) /\
  (r_secured resp = false -> no_effect resp) /\
  (q_path q <> p_ping -> q_host q <> d_host d -> r_status resp = 421 /\ no_effect resp) /\
  (forall slug k rest, routed d q slug k rest ->
     ~ In rest (map rt_path all_routes) -> no_effect resp /\ (r_status resp = 301 \/ r_status resp = 404)).
Proof.
  cbv zeta. split; [apply secured_iff_routed|]. split; [|split].
  - intros Hs. destruct (serve_inv lower d q o an now_ns) as [[_ [Hn _]]|[slug [k [rest [Hr He]]]]]; [exact Hn|].
    rewrite He, serve_auth_secured in Hs. discriminate.
  - intros Hp Hh. destruct (serve_inv lower d q o an now_ns) as [[_ [Hn H421]]|[slug [k [rest [[_ [Hh' _]] _]]]]]; [|contradiction].
    split; [apply H421; assumption | exact Hn].
  - intros slug k rest Hr Hnin. rewrite (serve_routed lower d q o an now_ns slug k rest Hr).
    pose proof (serve_auth_cases lower d slug k q rest o an now_ns) as Hc. cbv zeta in Hc.
    destruct Hc as [[Hn [[X _]|[X _]]]|Hc]; [auto | auto |].
    exfalso. apply Hnin.
    destruct Hc as [[-> _]|[[-> _]|[[-> _]|[[-> _]|[h [-> _]]]]]]; try (vm_compute; tauto).
    destruct h; vm_compute; tauto.
Qed.

End Final2.

(* ------------------------------------------------------------------------------------------ *)
(* the hypotheses are satisfiable: a concrete deployment, a signed fresh in-domain /sign_in
   request with a live cookie gets a code; the back channel redeems that code; another Host gets 421 *)
Require Coq.Strings.String.
Module Ex.
Import Coq.Strings.String.StringSyntax.
Notation bs := H.bs.
Definition d : deployment :=
  {| d_host := bs "a"; d_slugs := [(bs "g", AGoogle)]; d_pre := false; d_proxy_domains := [bs "ex.com"];
     d_client_id := bs "i"; d_client_secret := bs "s"; d_scheme := bs "https"; d_addresses := [];
     d_email_domains := [bs "ex.com"]; d_lifetime := 3600%Z; d_code_key := 2; d_cookie_key := 1 |}.
Definition uri := bs "https://a.ex.com/".
Definition sess : B.session := B.Build_session (bs "a@ex.com") (bs "t") (bs "r") 2000%Z 5000%Z.
Definition o : oracles :=
  {| o_open := fun c => if str_eqb c (bs "C") then Some (1, sess) else if str_eqb c (bs "K") then Some (2, sess) else None;
     o_tag := fun b => if str_eqb b [65] then G.Mac (bs "s") (uri ++ G.dec 1000) else G.Raw b;
     o_parse_string := fun _ => None; o_nested := fun _ => ([], [], []); o_query_ok := fun _ => true |}.
Definition an : answers :=
  {| an_refresh := F.RReset; an_validate := F.VStatus 200 true true; an_tok := T.TransportErr; an_ui := T.TransportErr;
     an_payload := fun _ => T.NotJSON; an_revoke := S.IdpSt 200%Z S.BNotJSON; an_groups := B.GrpOk []; an_nonce := bs "n"; an_static := 200 |}.
Definition q_sign_in : request :=
  {| q_host := bs "a"; q_path := bs "/g/sign_in"; q_method := bs "GET";
     q_query := bs "client_id=i&redirect_uri=https%3A%2F%2Fa.ex.com%2F&sig=QQ%3D%3D&ts=1000&state=x";
     q_ctype := B.Build_ctype false false; q_body := []; q_headers := []; q_sess := [(bs "g", bs "C")]; q_csrf := [] |}.
Definition q_redeem : request :=
  {| q_host := bs "a"; q_path := bs "/g/redeem"; q_method := bs "POST"; q_query := [];
     q_ctype := B.Build_ctype true false; q_body := bs "client_id=i&client_secret=s&code=K"; q_headers := [];
     q_sess := []; q_csrf := [] |}.
Definition q_sign_out : request :=
  {| q_host := bs "a"; q_path := bs "/g/sign_out"; q_method := bs "POST"; q_query := [];
     q_ctype := B.Build_ctype true false; q_body := bs "redirect_uri=https%3A%2F%2Fa.ex.com%2F&sig=QQ%3D%3D&ts=1000"; q_headers := [];
     q_sess := [(bs "g", bs "C")]; q_csrf := [] |}.
Definition q_other_host : request :=
  {| q_host := bs "evil"; q_path := bs "/g/sign_in"; q_method := bs "GET"; q_query := q_query q_sign_in;
     q_ctype := B.Build_ctype false false; q_body := []; q_headers := []; q_sess := [(bs "g", bs "C")]; q_csrf := [] |}.
End Ex.

Example nonvacuous :
  (let r := serve lower_ascii Ex.d Ex.q_sign_in Ex.o Ex.an (1100 * ns)%Z in
   r_status r = 302 /\ r_loc r = LCode Ex.uri (to_flow Ex.sess) /\ r_sess_ops r = [F.OpSet (to_flow Ex.sess)] /\
   r_calls r = [CIdp (F.CallValidate [116])]) /\
  (let r := serve lower_ascii Ex.d Ex.q_redeem Ex.o Ex.an (1200 * ns)%Z in
   r_status r = 200 /\ r_body r = BJson (session_json Ex.sess 1200)) /\
  (let r := serve lower_ascii Ex.d Ex.q_sign_out Ex.o Ex.an (1100 * ns)%Z in
   r_status r = 302 /\ r_loc r = LVerbatim Ex.uri /\ r_sess_ops r = [F.OpClear] /\ r_calls r = [CRevoke [116]]) /\
  (let r := serve lower_ascii Ex.d Ex.q_other_host Ex.o Ex.an (1100 * ns)%Z in
   r_status r = 421 /\ r_secured r = false /\ r_loc r = LNone) /\
  routed Ex.d Ex.q_sign_in [103] AGoogle p_sign_in.
Proof.
  repeat split; try (vm_compute; reflexivity). vm_compute. discriminate.
Qed.
