From V Require Import Base Base_proofs Validators.

(* ---------- the part of a string after its last '@' ---------- *)
Fixpoint after_last_at (s : str) : option str :=
  match s with
  | [] => None
  | c :: s' =>
      match after_last_at s' with
      | Some r => Some r
      | None => if N.eqb c at_sign then Some s' else None
      end
  end.

Lemma after_last_at_none s : after_last_at s = None <-> ~ In at_sign s.
Proof.
  induction s as [|c s IH]; simpl; [tauto|].
  destruct (after_last_at s) as [r|] eqn:E.
  - split; [discriminate|]. intros H. exfalso. apply H. right.
    destruct (in_dec N.eq_dec at_sign s) as [i|n]; [exact i|]. apply IH in n. discriminate.
  - destruct (N.eqb_spec c at_sign) as [->|Hne].
    + split; [discriminate | intros H; exfalso; apply H; left; reflexivity].
    + split; [|reflexivity]. intros _ [H|H]; [congruence|]. apply (proj1 IH); auto.
Qed.

Lemma after_last_at_app p d : ~ In at_sign d -> after_last_at (p ++ at_sign :: d) = Some d.
Proof.
  intros Hd. induction p as [|c p IH]; simpl.
  - apply after_last_at_none in Hd. rewrite Hd. reflexivity.
  - rewrite IH. reflexivity.
Qed.

Lemma after_last_at_some s d : after_last_at s = Some d -> exists p, s = p ++ at_sign :: d.
Proof.
  revert d; induction s as [|c s IH]; simpl; intros d H; [discriminate|].
  destruct (after_last_at s) as [r|] eqn:E.
  - inversion H; subst. destruct (IH d eq_refl) as [p ->]. exists (c :: p). reflexivity.
  - destruct (N.eqb_spec c at_sign) as [->|]; [|discriminate]. inversion H; subst. exists []. reflexivity.
Qed.

(* The '@' is part of the tested suffix, so a suffix match is a whole-domain match. *)
Lemma suffix_at_is_whole_domain e d :
  ~ In at_sign d -> (has_suffix e (at_sign :: d) = true <-> after_last_at e = Some d).
Proof.
  intros Hd. rewrite has_suffix_spec. split.
  - intros [r ->]. apply after_last_at_app; assumption.
  - intros H. apply after_last_at_some in H. exact H.
Qed.

Section P.
Variable lower : str -> str.

Lemma mem_one x y : mem_str x [y] = true <-> x = y.
Proof. simpl. rewrite orb_false_r. apply str_eqb_eq. Qed.

(* ---------- C11_address_exact ---------- *)
Lemma address_exact rules email :
  address_validate lower (new_address_validator lower rules) email = true <->
  email <> [] /\ ((exists x, rules = [x] /\ lower x = star) \/ In (lower email) (map lower rules)).
Proof.
  unfold address_validate, new_address_validator.
  destruct email as [|c e]; [split; [discriminate | intros [H _]; congruence]|].
  set (em := c :: e).
  destruct rules as [|x [|y rs]].
  - simpl. split; [discriminate|]. intros [_ [[x [H _]]|[]]]; discriminate.
  - cbn [map]. destruct (str_eqb (lower x) star) eqn:E.
    + apply str_eqb_eq in E. split; [|reflexivity]. intros _. split; [discriminate|]. left; eauto.
    + rewrite mem_str_In. apply str_eqb_neq in E. split.
      * intros H; split; [discriminate | right; exact H].
      * intros [_ [[x' [Hx Hs]]|H]]; [inversion Hx; subst; contradiction | exact H].
  - cbn [map]. rewrite mem_str_In. split.
    + intros H; split; [discriminate | right; exact H].
    + intros [_ [[x' [Hx _]]|H]]; [discriminate | exact H].
Qed.

(* ---------- C11_domain_whole ---------- *)
Definition dom_rule_matches (email : str) (d : str) : Prop :=
  (d = star /\ has_suffix (lower email) star = true) \/
  (d <> star /\ after_last_at (lower email) = Some (lower d)).

Lemma existsb_domain rules email :
  (forall d, In d rules -> d <> star -> ~ In at_sign (lower d)) ->
  existsb (has_suffix (lower email)) (new_domain_validator lower rules) = true <->
  exists d, In d rules /\ dom_rule_matches email d.
Proof.
  intros G. unfold new_domain_validator. rewrite existsb_exists. split.
  - intros [x [Hin Hs]]. apply in_map_iff in Hin as [d [Hx Hd]]. exists d; split; [exact Hd|].
    destruct (str_eqb d star) eqn:E.
    + apply str_eqb_eq in E. subst. left; auto.
    + apply str_eqb_neq in E. right; split; [exact E|]. subst x.
      apply suffix_at_is_whole_domain; auto.
  - intros [d [Hd [[-> Hs]|[Hne Ha]]]].
    + exists star. split; [|exact Hs]. apply in_map_iff. exists star. rewrite str_eqb_refl. auto.
    + exists (at_sign :: lower d). split.
      * apply in_map_iff. exists d. apply str_eqb_neq in Hne. rewrite Hne. auto.
      * apply suffix_at_is_whole_domain; auto.
Qed.

Lemma domain_whole rules email :
  (forall d, In d rules -> d <> star -> ~ In at_sign (lower d)) ->
  domain_validate lower (new_domain_validator lower rules) email = true <->
  email <> [] /\ (rules = [star] \/ exists d, In d rules /\ dom_rule_matches email d).
Proof.
  intros G. unfold domain_validate.
  destruct email as [|c e]; [split; [discriminate | intros [H _]; congruence]|].
  set (em := c :: e).
  destruct rules as [|x [|y rs]].
  - simpl. split; [discriminate|]. intros [_ [H|[d [[] _]]]]. discriminate.
  - destruct (str_eqb x star) eqn:E.
    + apply str_eqb_eq in E; subst x. cbn. split; [|reflexivity]. intros _. split; [discriminate | left; reflexivity].
    + assert (Hx: new_domain_validator lower [x] = [at_sign :: lower x]) by (cbn; rewrite E; reflexivity).
      rewrite Hx. assert (Hs: str_eqb (at_sign :: lower x) star = false).
      { apply str_eqb_neq. intros H. inversion H. }
      rewrite Hs, <- Hx, existsb_domain by exact G. apply str_eqb_neq in E.
      split; [intros H; split; [discriminate | right; exact H]|].
      intros [_ [H|H]]; [inversion H; congruence | exact H].
  - assert (Hl: exists a b t, new_domain_validator lower (x :: y :: rs) = a :: b :: t) by (cbn; eauto).
    destruct Hl as [a [b [t Hl]]].
    rewrite <- existsb_domain by exact G. rewrite Hl. cbv iota.
    split; [intros H; split; [discriminate | right; exact H]|].
    intros [_ [H|H]]; [discriminate | exact H].
Qed.

(* look-alike domains fail: corollary for a single plain rule *)
Corollary domain_lookalike_rejected d email :
  d <> star -> ~ In at_sign (lower d) ->
  after_last_at (lower email) <> Some (lower d) ->
  domain_validate lower (new_domain_validator lower [d]) email = false.
Proof.
  intros Hd Hat Hne. destruct (domain_validate lower (new_domain_validator lower [d]) email) eqn:E; [|reflexivity].
  apply domain_whole in E.
  - destruct E as [_ [H|[d' [[<-|[]] [[-> _]|[_ H]]]]]]; [inversion H|..]; congruence.
  - intros d' [<-|[]] _. exact Hat.
Qed.

(* ---------- empty e-mail / empty rule set ---------- *)
Lemma empty_email_address v : address_validate lower v [] = false.
Proof. reflexivity. Qed.
Lemma empty_email_domain v : domain_validate lower v [] = false.
Proof. reflexivity. Qed.
Lemma empty_rules_deny email ans :
  login_gate lower {| p_addresses := []; p_domains := []; p_groups := [] |} email ans = false.
Proof. reflexivity. Qed.

(* ---------- C11_login_any_of ---------- *)
Lemma filter_len_le {A} (f : A -> bool) l : (length (filter f l) <= length l)%nat.
Proof. induction l as [|a l IH]; simpl; [lia|]. destruct (f a); simpl; lia. Qed.

Lemma filter_length_eq {A} (f : A -> bool) l :
  length (filter f l) = length l <-> forall x, In x l -> f x = true.
Proof.
  induction l as [|a l IH]; simpl; [tauto|].
  pose proof (filter_len_le f l) as Hle.
  destruct (f a) eqn:E; simpl.
  - split.
    + intros H. injection H as H. intros x [<-|Hx]; [exact E | apply IH; auto].
    + intros H. f_equal. apply IH. intros; apply H; auto.
  - split; [intros H; lia | intros H; specialize (H a (or_introl eq_refl)); congruence].
Qed.

Lemma login_any_of p email ans :
  login_gate lower p email ans = true <->
  exists v, In v (validators_of lower p) /\ run_validator lower email ans v = true.
Proof.
  unfold login_gate. set (vs := validators_of lower p).
  rewrite negb_true_iff, Nat.eqb_neq, filter_length_eq. split.
  - intros H. destruct (existsb (run_validator lower email ans) vs) eqn:E.
    + apply existsb_exists in E. exact E.
    + exfalso. apply H. intros x Hx. apply negb_true_iff.
      destruct (run_validator lower email ans x) eqn:Ex; [|reflexivity].
      assert (existsb (run_validator lower email ans) vs = true) by (apply existsb_exists; eauto). congruence.
  - intros [v [Hin Hv]] H. specialize (H v Hin). rewrite Hv in H. discriminate.
Qed.

(* ---------- same verdict for single-kind policies ---------- *)
Lemma same_verdict_addresses_only a email ans :
  a <> [] ->
  let p := {| p_addresses := a; p_domains := []; p_groups := [] |} in
  login_gate lower p email ans = request_gate lower p email /\ revalidation_gate p ans = true.
Proof.
  intros Ha p. split; [|reflexivity].
  unfold login_gate, request_gate, validators_of, p; cbn [p_addresses p_domains p_groups].
  destruct a as [|x a]; [congruence|]. cbn [app filter forallb length is_group run_validator].
  destruct (address_validate lower (new_address_validator lower (x :: a)) email); reflexivity.
Qed.

Lemma same_verdict_domains_only d email ans :
  d <> [] ->
  let p := {| p_addresses := []; p_domains := d; p_groups := [] |} in
  login_gate lower p email ans = request_gate lower p email /\ revalidation_gate p ans = true.
Proof.
  intros Hd p. split; [|reflexivity].
  unfold login_gate, request_gate, validators_of, p; cbn [p_addresses p_domains p_groups].
  destruct d as [|x d]; [congruence|]. cbn [app filter forallb length is_group run_validator].
  destruct (domain_validate lower (new_domain_validator lower (x :: d)) email); reflexivity.
Qed.

Lemma same_verdict_groups_only g email ans :
  g <> [] ->
  let p := {| p_addresses := []; p_domains := []; p_groups := g |} in
  login_gate lower p email ans = revalidation_gate p ans /\ request_gate lower p email = true.
Proof.
  intros Hg p. split.
  - unfold login_gate, revalidation_gate, validators_of, p; cbn [p_addresses p_domains p_groups].
    destruct g as [|x g]; [congruence|]. cbn [app filter length run_validator]. unfold group_validate.
    destruct (negb (gr_err (validate_group (x :: g) ans)) && gr_valid (validate_group (x :: g) ans)); reflexivity.
  - unfold request_gate, validators_of, p; cbn [p_addresses p_domains p_groups].
    destruct g as [|x g]; [congruence|]. reflexivity.
Qed.

(* ---------- the later gates together are ALL-OF; every divergence from login fails closed ---------- *)
Lemma revalidation_is_group_validate p ans : revalidation_gate p ans = group_validate (p_groups p) ans.
Proof. reflexivity. Qed.

Lemma later_is_all_of p email ans :
  request_gate lower p email && revalidation_gate p ans =
  forallb (run_validator lower email ans) (validators_of lower p).
Proof.
  unfold request_gate, validators_of. rewrite revalidation_is_group_validate.
  destruct (p_addresses p) as [|a la]; destruct (p_domains p) as [|d ld]; destruct (p_groups p) as [|g lg];
    cbn [app forallb is_group run_validator];
    rewrite ?andb_true_r, ?andb_true_l; try reflexivity;
    try (rewrite <- !andb_assoc; reflexivity).
Qed.

Lemma all_of_nonempty_any_of {A} (f : A -> bool) l : l <> [] -> forallb f l = true -> existsb f l = true.
Proof.
  destruct l as [|a l]; [congruence|]. intros _ H. cbn [forallb] in H. apply andb_true_iff in H.
  cbn [existsb]. rewrite (proj1 H). reflexivity.
Qed.

Lemma later_implies_login p email ans :
  validators_of lower p <> [] ->
  request_gate lower p email = true -> revalidation_gate p ans = true ->
  login_gate lower p email ans = true.
Proof.
  intros Hne Hr Hv. apply login_any_of. apply existsb_exists.
  apply all_of_nonempty_any_of; [exact Hne|]. rewrite <- later_is_all_of, Hr, Hv. reflexivity.
Qed.

Lemma validators_nonempty_iff p :
  validators_of lower p <> [] <-> (p_addresses p <> [] \/ p_domains p <> [] \/ p_groups p <> []).
Proof.
  unfold validators_of.
  destruct (p_addresses p) as [|a la]; destruct (p_domains p) as [|d ld]; destruct (p_groups p) as [|g lg];
    cbn [app]; split; intros H; try congruence; try (left; congruence); try (right; left; congruence);
    try (right; right; congruence); try (destruct H as [H|[H|H]]; congruence).
Qed.

(* exact characterisation: the two verdicts coincide iff the configured validators are unanimous *)
Lemma login_is_existsb p email ans :
  login_gate lower p email ans = existsb (run_validator lower email ans) (validators_of lower p).
Proof.
  destruct (existsb (run_validator lower email ans) (validators_of lower p)) eqn:E.
  - apply login_any_of. apply existsb_exists. exact E.
  - destruct (login_gate lower p email ans) eqn:L; [|reflexivity].
    apply login_any_of in L. apply existsb_exists in L. congruence.
Qed.

Lemma same_verdict_iff_unanimous p email ans :
  validators_of lower p <> [] ->
  (login_gate lower p email ans = request_gate lower p email && revalidation_gate p ans <->
   (forall v w, In v (validators_of lower p) -> In w (validators_of lower p) ->
      run_validator lower email ans v = run_validator lower email ans w)).
Proof.
  intros Hne. rewrite later_is_all_of, login_is_existsb.
  set (f := run_validator lower email ans). set (vs := validators_of lower p) in *. split.
  - intros H v w Hv Hw. destruct (forallb f vs) eqn:Ea.
    + rewrite forallb_forall in Ea. rewrite (Ea v Hv), (Ea w Hw). reflexivity.
    + destruct (f v) eqn:Ev.
      * assert (existsb f vs = true) by (apply existsb_exists; eauto). congruence.
      * destruct (f w) eqn:Ew; [|reflexivity].
        assert (existsb f vs = true) by (apply existsb_exists; eauto). congruence.
  - intros H. destruct (existsb f vs) eqn:Ee.
    + apply existsb_exists in Ee. destruct Ee as [v [Hv Ev]]. symmetry. apply forallb_forall.
      intros w Hw. rewrite <- (H v w Hv Hw). exact Ev.
    + destruct (forallb f vs) eqn:Ea; [|reflexivity].
      apply all_of_nonempty_any_of in Ea; [congruence | exact Hne].
Qed.

End P.

(* ---------- the full "same verdict" clause is false of the faithful model ---------- *)
Definition s_ (l : list N) : str := l.
Definition bob_b : str := [98;111;98;64;98;46;99;111;109].   (* bob@b.com *)
Definition a_com : str := [97;46;99;111;109].                (* a.com *)
Definition g1 : str := [103].                                 (* g *)

Lemma same_verdict_refuted_addr_dom :
  let p := {| p_addresses := [bob_b]; p_domains := [a_com]; p_groups := [] |} in
  login_gate lower_ascii p bob_b (GroupsOk []) = true /\ request_gate lower_ascii p bob_b = false.
Proof. vm_compute. split; reflexivity. Qed.

Lemma same_verdict_refuted_addr_group :
  let p := {| p_addresses := [bob_b]; p_domains := []; p_groups := [g1] |} in
  login_gate lower_ascii p bob_b (GroupsOk []) = true /\ revalidation_gate p (GroupsOk []) = false.
Proof. vm_compute. split; reflexivity. Qed.

(* non-vacuity *)
Example nv_domain_accept :
  domain_validate lower_ascii (new_domain_validator lower_ascii [a_com]) [120;64;65;46;67;79;77] = true.
Proof. reflexivity. Qed.
Example nv_domain_reject_lookalike :   (* x@evila.com vs a.com *)
  domain_validate lower_ascii (new_domain_validator lower_ascii [a_com]) [120;64;101;118;105;108;97;46;99;111;109] = false.
Proof. reflexivity. Qed.
Example nv_address_accept :
  address_validate lower_ascii (new_address_validator lower_ascii [bob_b]) [66;79;66;64;98;46;99;111;109] = true.
Proof. reflexivity. Qed.
