(* Hostmux_proofs.v — lemmas about the host router, the per-upstream handler and the history
   machine of Hostmux.v (C13). *)
From V Require Import Base Base_proofs Validators Hostmux.

(* ---------- generic list facts ---------- *)
Lemma find_app {A} (f : A -> bool) l1 l2 :
  find f (l1 ++ l2) = match find f l1 with Some x => Some x | None => find f l2 end.
Proof. induction l1 as [|a l1 IH]; simpl; [reflexivity|]. destruct (f a); [reflexivity | exact IH]. Qed.

Lemma find_none_iff {A} (f : A -> bool) l : find f l = None <-> forall x, In x l -> f x = false.
Proof.
  induction l as [|a l IH]; simpl; [split; [intros _ x [] | reflexivity]|].
  destruct (f a) eqn:E.
  - split; [discriminate|]. intros H. rewrite (H a (or_introl eq_refl)) in E. discriminate.
  - rewrite IH. split; [intros H x [<-|Hx]; auto | intros H x Hx; apply H; right; exact Hx].
Qed.

(* the first element satisfying f *)
Lemma find_first {A} (f : A -> bool) l1 x l2 :
  f x = true -> (forall y, In y l1 -> f y = false) -> find f (l1 ++ x :: l2) = Some x.
Proof.
  intros Hx Hl. rewrite find_app. apply find_none_iff in Hl. rewrite Hl. simpl. rewrite Hx. reflexivity.
Qed.

Lemma find_some_split {A} (f : A -> bool) l x :
  find f l = Some x -> exists l1 l2, l = l1 ++ x :: l2 /\ f x = true /\ forall y, In y l1 -> f y = false.
Proof.
  induction l as [|a l IH]; simpl; [discriminate|]. destruct (f a) eqn:E.
  - intros H; inversion H; subst. exists [], l. split; [reflexivity | split; [exact E | intros y []]].
  - intros H. destruct (IH H) as [l1 [l2 [-> [Hx Hl]]]]. exists (a :: l1), l2.
    split; [reflexivity | split; [exact Hx|]]. intros y [<-|Hy]; [exact E | apply Hl; exact Hy].
Qed.

(* the last element satisfying f = the first of the reversed list *)
Lemma find_rev_last {A} (f : A -> bool) l1 x l2 :
  f x = true -> (forall y, In y l2 -> f y = false) -> find f (rev (l1 ++ x :: l2)) = Some x.
Proof.
  intros Hx Hl. rewrite rev_app_distr. simpl. rewrite <- app_assoc. simpl.
  apply find_first; [exact Hx|]. intros y Hy. apply Hl. apply in_rev. exact Hy.
Qed.

Lemma find_rev_some_split {A} (f : A -> bool) l x :
  find f (rev l) = Some x -> exists l1 l2, l = l1 ++ x :: l2 /\ f x = true /\ forall y, In y l2 -> f y = false.
Proof.
  intros H. destruct (find_some_split _ _ _ H) as [m1 [m2 [E [Hx Hl]]]].
  exists (rev m2), (rev m1). split.
  - rewrite <- (rev_involutive l), E, rev_app_distr. simpl. rewrite <- app_assoc. reflexivity.
  - split; [exact Hx|]. intros y Hy. apply Hl. apply in_rev. exact Hy.
Qed.

Lemma find_rev_none {A} (f : A -> bool) l : find f (rev l) = None <-> forall x, In x l -> f x = false.
Proof. rewrite find_none_iff. split; intros H x Hx; apply H; [apply in_rev in Hx | apply in_rev]; exact Hx. Qed.

(* ---------- the static map: a later registration replaces ---------- *)
Lemma static_get_set h k v l :
  static_get h (static_set k v l) = if str_eqb h k then Some v else static_get h l.
Proof.
  induction l as [|[k' v'] l IH]; simpl; [reflexivity|].
  destruct (str_eqb k k') eqn:Ekk; simpl.
  - apply str_eqb_eq in Ekk. subst k'. destruct (str_eqb h k); reflexivity.
  - destruct (str_eqb h k') eqn:Ehk'.
    + apply str_eqb_eq in Ehk'. subst k'. destruct (str_eqb h k) eqn:Ehk; [|reflexivity].
      apply str_eqb_eq in Ehk. subst k. rewrite str_eqb_refl in Ekk. discriminate.
    + exact IH.
Qed.

Definition rewrites (cfg : list upstream) : list (str * upstream) :=
  flat_map (fun u => match u_route u with Rewrite f _ => [(f, u)] | Simple _ _ => [] end) cfg.

(* what proxy.New's registration loop leaves in the router *)
Lemma fold_register_static h cfg : forall r,
  static_get h (static (fold_left register cfg r)) =
  match find (is_simple_for h) (rev cfg) with Some u => Some u | None => static_get h (static r) end.
Proof.
  induction cfg as [|u cfg IH]; intros r; simpl; [reflexivity|].
  rewrite IH, find_app. destruct (find (is_simple_for h) (rev cfg)); [reflexivity|].
  simpl. unfold register, is_simple_for. destruct (u_route u) as [f t|f t]; simpl; [|reflexivity].
  rewrite static_get_set. rewrite (eq_true_iff_eq (str_eqb h (url_host f)) (str_eqb (url_host f) h)).
  - destruct (str_eqb (url_host f) h); reflexivity.
  - rewrite !str_eqb_eq. split; congruence.
Qed.

Lemma fold_register_regexps cfg : forall r,
  regexps (fold_left register cfg r) = regexps r ++ rewrites cfg.
Proof.
  induction cfg as [|u cfg IH]; intros r; simpl; [rewrite app_nil_r; reflexivity|].
  rewrite IH. unfold register, rewrites. simpl. destruct (u_route u) as [f t|f t]; simpl; [reflexivity|].
  rewrite <- app_assoc. reflexivity.
Qed.

Section P.
Variable re_match : str -> str -> bool.
Variable re_replace : str -> str -> str -> str.
Variable lower : str -> str.

Lemma find_rewrites h cfg :
  find (fun pu => re_match (fst pu) h) (rewrites cfg) =
  match find (is_rw_match re_match h) cfg with Some u => Some (match u_route u with Rewrite f _ => f | Simple f _ => f end, u) | None => None end.
Proof.
  induction cfg as [|u cfg IH]; simpl; [reflexivity|]. unfold rewrites in *. simpl.
  unfold is_rw_match at 1. destruct (u_route u) as [f t|f t] eqn:E; simpl; [exact IH|].
  destruct (re_match f h); [rewrite E; reflexivity | exact IH].
Qed.

(* routing as a function of the configuration list, without the router *)
Lemma route_of_spec cfg h :
  route_of re_match cfg h =
  match find (is_simple_for h) (rev cfg) with
  | Some u => RUp u
  | None => match find (is_rw_match re_match h) cfg with Some u => RUp u | None => RDefault end
  end.
Proof.
  unfold route_of, route_in, new_router. rewrite fold_register_static, fold_register_regexps. simpl.
  destruct (find (is_simple_for h) (rev cfg)); [reflexivity|].
  rewrite find_rewrites. destruct (find (is_rw_match re_match h) cfg); reflexivity.
Qed.

(* ---------- C13_route ---------- *)
Lemma route_static_last cfg h l1 u l2 :
  cfg = l1 ++ u :: l2 -> is_simple_for h u = true ->
  (forall u', In u' l2 -> is_simple_for h u' = false) -> route_of re_match cfg h = RUp u.
Proof. intros -> Hu Hl. rewrite route_of_spec, (find_rev_last _ _ _ _ Hu Hl). reflexivity. Qed.

Lemma route_rewrite_first cfg h l1 u l2 :
  (forall u', In u' cfg -> is_simple_for h u' = false) ->
  cfg = l1 ++ u :: l2 -> is_rw_match re_match h u = true ->
  (forall u', In u' l1 -> is_rw_match re_match h u' = false) -> route_of re_match cfg h = RUp u.
Proof.
  intros Hs -> Hu Hl. rewrite route_of_spec. apply find_rev_none in Hs. rewrite Hs.
  rewrite (find_first _ _ _ _ Hu Hl). reflexivity.
Qed.

Lemma route_default cfg h :
  (forall u', In u' cfg -> is_simple_for h u' = false /\ is_rw_match re_match h u' = false) ->
  route_of re_match cfg h = RDefault.
Proof.
  intros H. rewrite route_of_spec.
  assert (H1: find (is_simple_for h) (rev cfg) = None) by (apply find_rev_none; intros x Hx; apply H; exact Hx).
  assert (H2: find (is_rw_match re_match h) cfg = None) by (apply find_none_iff; intros x Hx; apply H; exact Hx).
  rewrite H1, H2. reflexivity.
Qed.

Lemma route_cases cfg h :
  (exists l1 u l2, cfg = l1 ++ u :: l2 /\ is_simple_for h u = true /\
                   forall u', In u' l2 -> is_simple_for h u' = false) \/
  ((forall u', In u' cfg -> is_simple_for h u' = false) /\
   exists l1 u l2, cfg = l1 ++ u :: l2 /\ is_rw_match re_match h u = true /\
                   forall u', In u' l1 -> is_rw_match re_match h u' = false) \/
  (forall u', In u' cfg -> is_simple_for h u' = false /\ is_rw_match re_match h u' = false).
Proof.
  destruct (find (is_simple_for h) (rev cfg)) as [u|] eqn:E1.
  - left. destruct (find_rev_some_split _ _ _ E1) as [l1 [l2 [-> [Hu Hl]]]]. exists l1, u, l2. auto.
  - right. assert (E1' := proj1 (find_rev_none _ _) E1). clear E1. rename E1' into E1. destruct (find (is_rw_match re_match h) cfg) as [u|] eqn:E2.
    + left. split; [exact E1|]. destruct (find_some_split _ _ _ E2) as [l1 [l2 [-> [Hu Hl]]]]. exists l1, u, l2. auto.
    + right. intros u' Hu'. split; [apply E1; exact Hu' | exact (proj1 (find_none_iff _ _) E2 u' Hu')].
Qed.

(* the routed upstream, when there is one, is one of the configured upstreams and matches *)
Lemma route_up_sound cfg h u :
  route_of re_match cfg h = RUp u ->
  In u cfg /\ (is_simple_for h u = true \/
               ((forall u', In u' cfg -> is_simple_for h u' = false) /\ is_rw_match re_match h u = true)).
Proof.
  rewrite route_of_spec. destruct (find (is_simple_for h) (rev cfg)) as [v|] eqn:E1.
  - intros H; inversion H; subst. destruct (find_rev_some_split _ _ _ E1) as [l1 [l2 [-> [Hu _]]]].
    split; [apply in_or_app; right; left; reflexivity | left; exact Hu].
  - destruct (find (is_rw_match re_match h) cfg) as [v|] eqn:E2; [|discriminate].
    intros H; inversion H; subst. destruct (find_some_split _ _ _ E2) as [l1 [l2 [-> [Hu _]]]].
    split; [apply in_or_app; right; left; reflexivity|]. right. split; [|exact Hu].
    apply find_rev_none. exact E1.
Qed.

(* ---------- C13_static_precedence ---------- *)
Lemma static_precedence cfg h :
  (exists u0, In u0 cfg /\ is_simple_for h u0 = true) ->
  exists u, route_of re_match cfg h = RUp u /\ is_simple_for h u = true /\ In u cfg.
Proof.
  intros [u0 [Hin Hu0]]. rewrite route_of_spec.
  destruct (find (is_simple_for h) (rev cfg)) as [u|] eqn:E.
  - exists u. destruct (find_rev_some_split _ _ _ E) as [l1 [l2 [-> [Hu _]]]].
    split; [reflexivity | split; [exact Hu | apply in_or_app; right; left; reflexivity]].
  - rewrite (proj1 (find_rev_none _ _) E u0 Hin) in Hu0. discriminate.
Qed.

(* ---------- configuration order ---------- *)
Lemma resolve_order svcs :
  resolve svcs = map sv_up svcs ++ flat_map (fun s => map (with_route (sv_up s)) (sv_extra s)) svcs.
Proof. reflexivity. Qed.

(* a service's own rewrite route that matches beats every extra route, whichever service declares it *)
Lemma main_before_extra svcs h s :
  In s svcs -> is_rw_match re_match h (sv_up s) = true ->
  (forall u, In u (resolve svcs) -> is_simple_for h u = false) ->
  exists s', In s' svcs /\ route_of re_match (resolve svcs) h = RUp (sv_up s').
Proof.
  intros Hs Hm Hno. rewrite route_of_spec. apply find_rev_none in Hno. rewrite Hno.
  unfold resolve. rewrite find_app.
  destruct (find (is_rw_match re_match h) (map sv_up svcs)) as [u|] eqn:E.
  - destruct (find_some_split _ _ _ E) as [l1 [l2 [El _]]].
    assert (Hin: In u (map sv_up svcs)) by (rewrite El; apply in_or_app; right; left; reflexivity).
    apply in_map_iff in Hin as [s' [<- Hs']]. exists s'. split; [exact Hs' | reflexivity].
  - exfalso. assert (H := proj1 (find_none_iff _ _) E (sv_up s) (in_map sv_up _ _ Hs)). congruence.
Qed.

Section Q.
Variable fixed : bool.
Variable dflt : str.

Notation handle := (handle re_match re_replace lower fixed dflt).
Notation callback := (callback re_match lower fixed dflt).
Notation proxy_request := (proxy_request re_match re_replace lower fixed dflt).
Notation authenticate := (authenticate lower fixed dflt).
Notation pslug := (provider_slug fixed dflt).
Notation step := (step re_match re_replace lower fixed dflt).
Notation run := (run re_match re_replace lower fixed dflt).

(* unrouted host: 421, no backend, no cookie, no login *)
Lemma unrouted_421 cfg q :
  route_of re_match cfg (q_host q) = RDefault -> q_path q <> ping_path ->
  handle cfg q = plain KMisdirected CkNone None.
Proof.
  intros Hr Hp. unfold Hostmux.handle. apply str_eqb_neq in Hp. rewrite Hp, Hr. reflexivity.
Qed.

Lemma unrouted_login cfg l :
  route_of re_match cfg (l_host l) = RDefault -> callback cfg l = (plain KMisdirected CkNone None, None).
Proof. intros Hr. unfold Hostmux.callback. rewrite Hr. reflexivity. Qed.

Lemma handle_routed cfg q u :
  route_of re_match cfg (q_host q) = RUp u -> q_path q <> ping_path -> handle cfg q = proxy_request u q.
Proof. intros Hr Hp. unfold Hostmux.handle. apply str_eqb_neq in Hp. rewrite Hp, Hr. reflexivity. Qed.

(* ---------- C13_backend ---------- *)
Lemma backend_of_upstream cfg q u :
  route_of re_match cfg (q_host q) = RUp u -> r_kind (handle cfg q) = KForward ->
  let t := match u_route u with
           | Simple _ to => url_host to
           | Rewrite from to => url_host (re_replace from (q_host q) to)
           end in
  r_target (handle cfg q) = Some t /\
  r_fwd_host (handle cfg q) = Some (if u_preserve u then preserved_host (q_host q) t else t).
Proof.
  intros Hr. unfold Hostmux.handle. destruct (str_eqb (q_path q) ping_path); [discriminate|]. rewrite Hr.
  unfold Hostmux.proxy_request. destruct (whitelisted re_match u q).
  - intros _. split; reflexivity.
  - destruct (authenticate u q); simpl; try discriminate. intros _. split; reflexivity.
Qed.

(* only the routed upstream's target is ever dialled *)
Lemma no_backend_unless_forward cfg q : r_kind (handle cfg q) <> KForward -> r_target (handle cfg q) = None.
Proof.
  unfold Hostmux.handle. destruct (str_eqb (q_path q) ping_path); [reflexivity|].
  destruct (route_of re_match cfg (q_host q)) as [u|]; [|reflexivity].
  unfold Hostmux.proxy_request. destruct (whitelisted re_match u q); [simpl; congruence|].
  destruct (authenticate u q); simpl; congruence.
Qed.

(* ---------- C13_policy_of_upstream ---------- *)
Lemma authenticate_ok u q e :
  authenticate u q = AuthOk e <->
  exists s, q_cookie q = Some s /\ s_slug s = pslug u /\ s_upstream s = q_host q /\
            request_gate lower (u_policy u) (s_email s) = true /\ e = s_email s.
Proof.
  unfold Hostmux.authenticate. destruct (q_cookie q) as [s|].
  - destruct (str_eqb (s_slug s) (pslug u)) eqn:E1; simpl.
    + destruct (str_eqb (q_host q) (s_upstream s)) eqn:E2; simpl.
      * destruct (request_gate lower (u_policy u) (s_email s)) eqn:E3.
        -- apply str_eqb_eq in E1, E2. split.
           ++ intros H; inversion H; subst. exists s. auto.
           ++ intros [s' [Hs [_ [_ [_ ->]]]]]. inversion Hs; subst. reflexivity.
        -- split; [discriminate|]. intros [s' [Hs [_ [_ [Hg _]]]]]. inversion Hs; subst. congruence.
      * split; [discriminate|]. intros [s' [Hs [_ [Hu _]]]]. inversion Hs; subst.
        rewrite Hu, str_eqb_refl in E2. discriminate.
    + split; [discriminate|]. intros [s' [Hs [Hsl _]]]. inversion Hs; subst.
      rewrite Hsl, str_eqb_refl in E1. discriminate.
  - split; [discriminate|]. intros [s [Hs _]]. discriminate.
Qed.

Lemma authenticate_denied u q :
  authenticate u q = AuthDenied <->
  exists s, q_cookie q = Some s /\ s_slug s = pslug u /\ s_upstream s = q_host q /\
            request_gate lower (u_policy u) (s_email s) = false.
Proof.
  unfold Hostmux.authenticate. destruct (q_cookie q) as [s|].
  - destruct (str_eqb (s_slug s) (pslug u)) eqn:E1; simpl.
    + destruct (str_eqb (q_host q) (s_upstream s)) eqn:E2; simpl.
      * destruct (request_gate lower (u_policy u) (s_email s)) eqn:E3.
        -- split; [discriminate|]. intros [s' [Hs [_ [_ Hg]]]]. inversion Hs; subst. congruence.
        -- apply str_eqb_eq in E1, E2. split; [|reflexivity]. intros _. exists s. auto.
      * split; [discriminate|]. intros [s' [Hs [_ [Hu _]]]]. inversion Hs; subst.
        rewrite Hu, str_eqb_refl in E2. discriminate.
    + split; [discriminate|]. intros [s' [Hs [Hsl _]]]. inversion Hs; subst.
      rewrite Hsl, str_eqb_refl in E1. discriminate.
  - split; [discriminate|]. intros [s [Hs _]]. discriminate.
Qed.

Lemma policy_of_upstream cfg q u :
  route_of re_match cfg (q_host q) = RUp u -> q_path q <> ping_path ->
  let r := handle cfg q in
  (* skip-auth list of the routed upstream *)
  (existsb (fun p => re_match p (q_path q)) (u_skip u) = true ->
     r_kind r = KForward /\ r_user r = None /\ r_cookie r = CkNone) /\
  (existsb (fun p => re_match p (q_path q)) (u_skip u) = false ->
     (* accepted exactly when the cookie is bound to this Host, carries the slug of the routed
        upstream's provider and passes the routed upstream's validators *)
     (forall e, (r_kind r = KForward /\ r_user r = Some e) <->
        exists s, q_cookie q = Some s /\ s_slug s = pslug u /\ s_upstream s = q_host q /\
                  request_gate lower (u_policy u) (s_email s) = true /\ e = s_email s) /\
     (r_kind r = KForbidden <->
        exists s, q_cookie q = Some s /\ s_slug s = pslug u /\ s_upstream s = q_host q /\
                  request_gate lower (u_policy u) (s_email s) = false) /\
     (* everything else restarts the flow at the routed upstream's provider *)
     (r_kind r = KForward \/ r_kind r = KForbidden \/
      (r_kind r = KSignIn /\ r_slug r = Some (pslug u))) /\
     (r_kind r <> KForward -> r_target r = None /\ r_cookie r = CkCleared)).
Proof.
  intros Hr Hp r. subst r. rewrite (handle_routed _ _ _ Hr Hp). unfold Hostmux.proxy_request, whitelisted.
  split; intros Hw; rewrite Hw.
  - repeat split.
  - split; [|split; [|split]].
    + intros e. rewrite <- authenticate_ok. destruct (authenticate u q) as [e'| | | |]; simpl;
        (split; [intros [H1 H2]; try discriminate; congruence | intros H; try discriminate; inversion H; auto]).
    + rewrite <- authenticate_denied. destruct (authenticate u q); simpl; split; intros H; try discriminate; reflexivity.
    + destruct (authenticate u q); simpl; auto.
    + destruct (authenticate u q); simpl; intros H; try congruence; split; reflexivity.
Qed.

Lemma flow_started_spec cfg l :
  flow_started re_match cfg l = true <-> r_kind (handle cfg (start_request l)) = KSignIn.
Proof.
  unfold flow_started, Hostmux.handle, start_request at 2 3. cbn [q_path q_host].
  destruct (str_eqb (l_spath l) ping_path); cbn [negb andb]; [split; discriminate|].
  destruct (route_of re_match cfg (l_start l)) as [u|]; [|split; discriminate].
  unfold Hostmux.proxy_request. destruct (whitelisted re_match u (start_request l)); cbn [negb];
    [split; discriminate|]. unfold Hostmux.authenticate, start_request. cbn [q_cookie]. split; reflexivity.
Qed.

Lemma login_of_upstream cfg l u :
  route_of re_match cfg (l_host l) = RUp u ->
  (forall s, snd (callback cfg l) = Some s <->
     flow_started re_match cfg l = true /\
     login_admit lower (u_policy u) (l_email l) (l_groups l) = true /\
     s = {| s_slug := pslug u; s_upstream := l_host l; s_email := l_email l |}) /\
  (forall s, snd (callback cfg l) = Some s -> r_cookie (fst (callback cfg l)) = CkSet s) /\
  (snd (callback cfg l) = None -> r_cookie (fst (callback cfg l)) = CkNone) /\
  r_slug (fst (callback cfg l)) = Some (pslug u).
Proof.
  intros Hr. unfold Hostmux.callback. rewrite Hr. destruct (flow_started re_match cfg l).
  - unfold callback_on. destruct (login_admit lower (u_policy u) (l_email l) (l_groups l)); simpl.
    + split; [|split; [|split]]; try reflexivity.
      * intros s. split; [intros H; inversion H; auto | intros [_ [_ ->]]; reflexivity].
      * intros s H. inversion H; reflexivity.
      * discriminate.
    + split; [|split; [|split]]; try reflexivity.
      * intros s. split; [discriminate | intros [_ [H _]]; discriminate].
      * discriminate.
  - simpl. split; [|split; [|split]]; try reflexivity.
    + intros s. split; [discriminate | intros [H _]; discriminate].
    + discriminate.
Qed.

(* the cookie effect of a callback is exactly the session it issued *)
Lemma callback_cookie cfg l :
  r_cookie (fst (callback cfg l)) = match snd (callback cfg l) with Some s => CkSet s | None => CkNone end.
Proof.
  unfold Hostmux.callback. destruct (route_of re_match cfg (l_host l)) as [u|]; [|reflexivity].
  destruct (flow_started re_match cfg l); [|reflexivity].
  unfold callback_on. destruct (login_admit lower (u_policy u) (l_email l) (l_groups l)); reflexivity.
Qed.

(* ---------- C13_isolation ---------- *)
(* every session the machine has issued is bound to the Host its callback ran on *)
Definition bound (st : hstate) : Prop :=
  forall h s, In (Some (h, s)) (logins st) -> s_upstream s = h.

Lemma callback_stamps cfg l s : snd (callback cfg l) = Some s -> s_upstream s = l_host l.
Proof.
  unfold Hostmux.callback. destruct (route_of re_match cfg (l_host l)) as [u|]; [|discriminate].
  destruct (flow_started re_match cfg l); [|discriminate].
  unfold callback_on. destruct (login_admit lower (u_policy u) (l_email l) (l_groups l)); [|discriminate].
  simpl. intros H; inversion H; reflexivity.
Qed.

Lemma step_bound cfg st e : bound st -> bound (fst (step cfg st e)).
Proof.
  intros Hb. destruct e as [l|q]; simpl; [|exact Hb].
  destruct (callback cfg l) as [r os] eqn:E. simpl. intros h s Hin. apply in_app_or in Hin as [Hin|[Hin|[]]].
  - apply Hb; exact Hin.
  - destruct os as [s'|]; [|discriminate]. inversion Hin; subst.
    apply (callback_stamps cfg l). rewrite E. reflexivity.
Qed.

Lemma step_logins_mono cfg st e x : In x (logins st) -> In x (logins (fst (step cfg st e))).
Proof.
  destruct e as [l|q]; simpl; [|auto]. destruct (callback cfg l). simpl. intros H. apply in_or_app; left; exact H.
Qed.

Lemma init_bound : bound init.
Proof. intros h s []. Qed.

Lemma run_bound cfg : forall evs st, bound st -> bound (fst (run cfg st evs)).
Proof.
  induction evs as [|e evs IH]; intros st Hb; simpl; [exact Hb|].
  pose proof (step_bound cfg st e Hb) as Hb1. destruct (step cfg st e) as [st1 r]. simpl in Hb1.
  specialize (IH st1 Hb1). destruct (run cfg st1 evs) as [st2 tr]. exact IH.
Qed.

(* a session bound to another host is not accepted, whatever the route *)
Lemma handle_other_host cfg q s :
  q_cookie q = Some s -> s_upstream s <> q_host q -> accepted (handle cfg q) = false.
Proof.
  intros Hc Hne. unfold Hostmux.handle. destruct (str_eqb (q_path q) ping_path); [reflexivity|].
  destruct (route_of re_match cfg (q_host q)) as [u|]; [|reflexivity].
  unfold Hostmux.proxy_request. destruct (whitelisted re_match u q); [reflexivity|].
  unfold Hostmux.authenticate. rewrite Hc. destruct (negb (str_eqb (s_slug s) (pslug u))); [reflexivity|].
  assert (E: str_eqb (q_host q) (s_upstream s) = false) by (apply str_eqb_neq; congruence).
  rewrite E. reflexivity.
Qed.

(* a session carrying another provider's slug is not accepted *)
Lemma handle_other_provider cfg q s u :
  q_cookie q = Some s -> route_of re_match cfg (q_host q) = RUp u -> s_slug s <> pslug u ->
  accepted (handle cfg q) = false.
Proof.
  intros Hc Hr Hne. unfold Hostmux.handle. destruct (str_eqb (q_path q) ping_path); [reflexivity|]. rewrite Hr.
  unfold Hostmux.proxy_request. destruct (whitelisted re_match u q); [reflexivity|].
  unfold Hostmux.authenticate. rewrite Hc.
  assert (E: str_eqb (s_slug s) (pslug u) = false) by (apply str_eqb_neq; exact Hne).
  rewrite E. reflexivity.
Qed.

(* a sign-in opened on one host and closed by a callback on another: the session belongs to the
   callback's host — it is judged by that host's upstream and accepted nowhere else, in particular
   not on the host the flow was opened on *)
Lemma cross_host_flow cfg l s q :
  snd (callback cfg l) = Some s -> q_cookie q = Some s -> q_host q <> l_host l ->
  accepted (handle cfg q) = false.
Proof.
  intros Hs Hc Hne. apply handle_other_host with (s := s); [exact Hc|].
  rewrite (callback_stamps cfg l s Hs). congruence.
Qed.

(* the identity header is asserted only when the session was accepted *)
Lemma user_only_when_accepted cfg q : accepted (handle cfg q) = false -> r_user (handle cfg q) = None.
Proof.
  unfold Hostmux.handle. destruct (str_eqb (q_path q) ping_path); [reflexivity|].
  destruct (route_of re_match cfg (q_host q)) as [u|]; [|reflexivity].
  unfold Hostmux.proxy_request. destruct (whitelisted re_match u q); [reflexivity|].
  destruct (authenticate u q); simpl; try reflexivity. discriminate.
Qed.

(* invariant form: from any bound state, along any history *)
Lemma isolation_from cfg : forall evs st st' tr,
  bound st -> run cfg st evs = (st', tr) ->
  forall q resp, In (ERequest q, resp) tr ->
  forall s h1, q_cookie q = Some s -> In (Some (h1, s)) (logins st') -> h1 <> q_host q ->
  accepted resp = false.
Proof.
  induction evs as [|e evs IH]; intros st st' tr Hb Hrun q resp Hin s h1 Hc Hiss Hne; simpl in Hrun.
  - inversion Hrun; subst. destruct Hin.
  - pose proof (step_bound cfg st e Hb) as Hb1.
    destruct (step cfg st e) as [st1 r] eqn:Es. destruct (run cfg st1 evs) as [st2 tr2] eqn:Er.
    inversion Hrun; subst. simpl in Hb1. destruct Hin as [Hin|Hin].
    + inversion Hin; subst. simpl in Es. inversion Es; subst.
      pose proof (run_bound cfg evs st1 Hb1) as Hb2. rewrite Er in Hb2. simpl in Hb2.
      apply handle_other_host with (s := s); [exact Hc|]. rewrite (Hb2 h1 s Hiss). exact Hne.
    + exact (IH st1 st' tr2 Hb1 Er q resp Hin s h1 Hc Hiss Hne).
Qed.

Lemma isolation cfg evs st' tr :
  run cfg init evs = (st', tr) ->
  forall q resp, In (ERequest q, resp) tr ->
  forall s h1, q_cookie q = Some s -> In (Some (h1, s)) (logins st') -> h1 <> q_host q ->
  accepted resp = false.
Proof. intros Hrun. exact (isolation_from cfg evs init st' tr init_bound Hrun). Qed.

(* every issued session carries the slug of the provider of the upstream its callback was routed to *)
Definition slugged (cfg : list upstream) (st : hstate) : Prop :=
  forall h s, In (Some (h, s)) (logins st) ->
  exists u, route_of re_match cfg h = RUp u /\ s_slug s = pslug u /\ s_upstream s = h.

Lemma step_slugged cfg st e : slugged cfg st -> slugged cfg (fst (step cfg st e)).
Proof.
  intros Hb. destruct e as [l|q]; simpl; [|exact Hb].
  destruct (callback cfg l) as [r os] eqn:E. simpl. intros h s Hin. apply in_app_or in Hin as [Hin|[Hin|[]]].
  - apply Hb; exact Hin.
  - destruct os as [s'|]; [|discriminate]. inversion Hin; subst. clear Hin.
    unfold Hostmux.callback in E. destruct (route_of re_match cfg (l_host l)) as [u|] eqn:Er; [|discriminate].
    exists u. split; [reflexivity|]. destruct (flow_started re_match cfg l); [|discriminate]. unfold callback_on in E.
    destruct (login_admit lower (u_policy u) (l_email l) (l_groups l)); [|discriminate].
    inversion E; subst. split; reflexivity.
Qed.

Lemma run_slugged cfg : forall evs st, slugged cfg st -> slugged cfg (fst (run cfg st evs)).
Proof.
  induction evs as [|e evs IH]; intros st Hb; simpl; [exact Hb|].
  pose proof (step_slugged cfg st e Hb) as Hb1. destruct (step cfg st e) as [st1 r]. simpl in Hb1.
  specialize (IH st1 Hb1). destruct (run cfg st1 evs) as [st2 tr]. exact IH.
Qed.

Lemma run_trace_handle cfg : forall evs st q resp,
  In (ERequest q, resp) (snd (run cfg st evs)) -> resp = handle cfg q.
Proof.
  induction evs as [|e evs IH]; intros st q resp; simpl; [intros []|].
  destruct (step cfg st e) as [st1 r] eqn:Es. destruct (run cfg st1 evs) as [st2 tr] eqn:Er. simpl.
  intros [H|H].
  - inversion H; subst. simpl in Es. inversion Es; reflexivity.
  - apply (IH st1). rewrite Er. exact H.
Qed.

(* a session issued under one provider is never accepted by an upstream of another provider *)
Lemma provider_isolation cfg evs st' tr :
  run cfg init evs = (st', tr) ->
  forall q resp, In (ERequest q, resp) tr ->
  forall s h1 u1 u2, q_cookie q = Some s -> In (Some (h1, s)) (logins st') ->
  route_of re_match cfg h1 = RUp u1 -> route_of re_match cfg (q_host q) = RUp u2 ->
  pslug u1 <> pslug u2 -> accepted resp = false.
Proof.
  intros Hrun q resp Hin s h1 u1 u2 Hc Hiss Hr1 Hr2 Hne.
  assert (Hs: slugged cfg st').
  { pose proof (run_slugged cfg evs init) as H. rewrite Hrun in H. apply H. intros h x []. }
  destruct (Hs h1 s Hiss) as [u [Hru [Hsl _]]]. rewrite Hr1 in Hru. inversion Hru; subst u.
  assert (resp = handle cfg q) as -> by (apply (run_trace_handle cfg evs init); rewrite Hrun; exact Hin).
  apply handle_other_provider with (s := s) (u := u2); [exact Hc | exact Hr2 | congruence].
Qed.

(* whatever slug the upstream's provider object was built with is the one its sign-in redirect,
   its session check and its callback use *)
Lemma provider_general cfg u :
  (forall q, route_of re_match cfg (q_host q) = RUp u -> q_path q <> ping_path ->
     let r := handle cfg q in
     (r_kind r = KSignIn -> r_slug r = Some (pslug u)) /\
     (forall s, q_cookie q = Some s -> accepted r = true -> s_slug s = pslug u)) /\
  (forall l, route_of re_match cfg (l_host l) = RUp u ->
     let '(r, os) := callback cfg l in
     r_slug r = Some (pslug u) /\ forall s, os = Some s -> s_slug s = pslug u).
Proof.
  split.
  - intros q Hr Hp r. subst r. rewrite (handle_routed _ _ _ Hr Hp).
    unfold Hostmux.proxy_request. destruct (whitelisted re_match u q).
    + split; [discriminate|]. intros s _ H. discriminate.
    + destruct (authenticate u q) as [e| | | |] eqn:E.
      * split; [discriminate|]. intros s Hs _. apply authenticate_ok in E as [s' [Hs' [Hsl _]]]. congruence.
      * split; [reflexivity|]. intros s _ H. discriminate.
      * split; [reflexivity|]. intros s _ H. discriminate.
      * split; [reflexivity|]. intros s _ H. discriminate.
      * split; [discriminate|]. intros s _ H. discriminate.
  - intros l Hr. unfold Hostmux.callback. rewrite Hr.
    destruct (flow_started re_match cfg l); [|split; [reflexivity|]; intros s H; discriminate].
    unfold callback_on. destruct (login_admit lower (u_policy u) (l_email l) (l_groups l)).
    + split; [reflexivity|]. intros s H. inversion H; reflexivity.
    + split; [reflexivity|]. intros s H. discriminate.
Qed.

End Q.

(* ---------- C13_provider_of_upstream ---------- *)
Lemma provider_slug_fixed dflt u : provider_slug true dflt u = own_slug dflt u.
Proof. reflexivity. Qed.
Lemma provider_slug_today dflt u : provider_slug false dflt u = dflt.
Proof. reflexivity. Qed.

(* repaired variant: sign-in redirect, session check and callback all use the upstream's own provider *)
Lemma provider_of_upstream_fixed dflt cfg u :
  (forall q, route_of re_match cfg (q_host q) = RUp u -> q_path q <> ping_path ->
     let r := handle re_match re_replace lower true dflt cfg q in
     (r_kind r = KSignIn -> r_slug r = Some (own_slug dflt u)) /\
     (forall s, q_cookie q = Some s -> accepted r = true -> s_slug s = own_slug dflt u)) /\
  (forall l, route_of re_match cfg (l_host l) = RUp u ->
     let '(r, os) := callback re_match lower true dflt cfg l in
     r_slug r = Some (own_slug dflt u) /\ forall s, os = Some s -> s_slug s = own_slug dflt u).
Proof. exact (provider_general true dflt cfg u). Qed.

(* today's code: the same statement holds exactly for upstreams that do not choose a provider
   other than the default *)
Lemma provider_of_upstream_today_partial dflt cfg u :
  own_slug dflt u = dflt ->
  (forall q, route_of re_match cfg (q_host q) = RUp u -> q_path q <> ping_path ->
     let r := handle re_match re_replace lower false dflt cfg q in
     (r_kind r = KSignIn -> r_slug r = Some (own_slug dflt u)) /\
     (forall s, q_cookie q = Some s -> accepted r = true -> s_slug s = own_slug dflt u)) /\
  (forall l, route_of re_match cfg (l_host l) = RUp u ->
     let '(r, os) := callback re_match lower false dflt cfg l in
     r_slug r = Some (own_slug dflt u) /\ forall s, os = Some s -> s_slug s = own_slug dflt u).
Proof. intros Hown. rewrite Hown. exact (provider_general false dflt cfg u). Qed.

End P.

(* ---------- concrete witnesses (non-vacuity, refutation) ---------- *)
(* a stand-in regexp oracle for the examples: "pattern p matches s" = s ends with p;
   replacement = the template (constant) *)
Definition ex_match (p s : str) : bool := has_suffix s p.
Definition ex_replace (p s tmpl : str) : str := tmpl.

Definition google : str := [103;111;111;103;108;101].
Definition okta : str := [111;107;116;97].
Definition h_okta : str := [111;107;116;97;46;116;101;115;116].            (* okta.test *)
Definition h_x : str := [120;46;114;119;46;116;101;115;116].               (* x.rw.test *)
Definition h_y : str := [121;46;114;119;46;116;101;115;116].               (* y.rw.test *)
Definition h_z : str := [122;46;114;119;46;116;101;115;116].               (* z.rw.test *)
Definition h_none : str := [110;111;46;101;120;97;109;112;108;101].        (* no.example *)
Definition pat_rw : str := [46;114;119;46;116;101;115;116].                (* .rw.test *)
Definition pat_test : str := [116;101;115;116].                            (* test *)
Definition b0 : str := [49;50;55;46;48;46;48;46;49;58;57;48;48;48].        (* 127.0.0.1:9000 *)
Definition b1 : str := [49;50;55;46;48;46;48;46;49;58;57;48;48;49].
Definition b2 : str := [49;50;55;46;48;46;48;46;49;58;57;48;48;50].
Definition a_com : str := [97;46;99;111;109].
Definition bob : str := [98;111;98;64;97;46;99;111;109].                   (* bob@a.com *)
Definition page : str := [47;112;97;103;101].                              (* /page *)

Definition pol_a : policy := {| p_addresses := []; p_domains := [a_com]; p_groups := [] |}.
Definition mk (r : route) (slug : str) : upstream :=
  {| u_route := r; u_policy := pol_a; u_slug := slug; u_skip := []; u_preserve := false |}.

(* one static route and two overlapping rewrite routes; the static host also matches both patterns *)
Definition ex_cfg : list upstream :=
  [mk (Rewrite pat_rw b0) []; mk (Simple h_x b1) []; mk (Rewrite pat_test b2) []; mk (Simple h_okta b1) okta].

Lemma ex_static_wins : route_of ex_match ex_cfg h_x = RUp (mk (Simple h_x b1) []).
Proof. vm_compute. reflexivity. Qed.
Lemma ex_first_rewrite : route_of ex_match ex_cfg h_y = RUp (mk (Rewrite pat_rw b0) []).
Proof. vm_compute. reflexivity. Qed.
Lemma ex_default : route_of ex_match ex_cfg h_none = RDefault.
Proof. vm_compute. reflexivity. Qed.

(* a history: login on y.rw.test, the issued cookie is accepted on y.rw.test and refused on
   z.rw.test although both hosts match the same rewrite route *)
Definition ex_login : login := {| l_start := h_y; l_spath := page; l_host := h_y; l_email := bob; l_groups := GroupsOk [] |}.
Definition ex_sess : session := {| s_slug := google; s_upstream := h_y; s_email := bob |}.
Definition ex_hist : list event :=
  [ELogin ex_login;
   ERequest {| q_host := h_y; q_path := page; q_cookie := Some ex_sess |};
   ERequest {| q_host := h_z; q_path := page; q_cookie := Some ex_sess |}].

Lemma ex_isolation_nonvacuous :
  let '(st, tr) := run ex_match ex_replace lower_ascii true google ex_cfg init ex_hist in
  logins st = [Some (h_y, ex_sess)] /\
  map (fun er => accepted (snd er)) tr = [false; true; false] /\
  route_of ex_match ex_cfg h_y = route_of ex_match ex_cfg h_z.
Proof. vm_compute. repeat split. Qed.

(* sign-in opened on x.rw.test (static route, another upstream), callback delivered to y.rw.test:
   the session is y.rw.test's — accepted there, refused on the host the flow was opened on *)
Definition ex_cross : login := {| l_start := h_x; l_spath := page; l_host := h_y; l_email := bob; l_groups := GroupsOk [] |}.
Lemma ex_cross_host_nonvacuous :
  let '(st, tr) := run ex_match ex_replace lower_ascii true google ex_cfg init
      [ELogin ex_cross;
       ERequest {| q_host := h_y; q_path := page; q_cookie := Some ex_sess |};
       ERequest {| q_host := h_x; q_path := page; q_cookie := Some ex_sess |}] in
  flow_started ex_match ex_cfg ex_cross = true /\
  route_of ex_match ex_cfg h_x <> route_of ex_match ex_cfg h_y /\
  logins st = [Some (h_y, ex_sess)] /\
  map (fun er => accepted (snd er)) tr = [false; true; false].
Proof. vm_compute. repeat split. discriminate. Qed.

(* today's code sends an upstream configured for okta to the default provider *)
Lemma provider_of_upstream_refuted :
  exists cfg u q,
    route_of ex_match cfg (q_host q) = RUp u /\ q_path q <> ping_path /\ u_slug u = okta /\
    let r := handle ex_match ex_replace lower_ascii false google cfg q in
    r_kind r = KSignIn /\ r_slug r = Some google /\ r_slug r <> Some (own_slug google u).
Proof.
  exists ex_cfg, (mk (Simple h_okta b1) okta), {| q_host := h_okta; q_path := page; q_cookie := None |}.
  vm_compute. repeat split; discriminate.
Qed.

(* ... and accepts on that upstream a session minted by the default provider *)
Lemma provider_check_refuted :
  exists cfg u q s,
    route_of ex_match cfg (q_host q) = RUp u /\ q_cookie q = Some s /\
    accepted (handle ex_match ex_replace lower_ascii false google cfg q) = true /\
    s_slug s <> own_slug google u.
Proof.
  exists ex_cfg, (mk (Simple h_okta b1) okta),
    {| q_host := h_okta; q_path := page; q_cookie := Some {| s_slug := google; s_upstream := h_okta; s_email := bob |} |},
    {| s_slug := google; s_upstream := h_okta; s_email := bob |}.
  vm_compute. repeat split; discriminate.
Qed.
