(* Corr_C17_proofs.v — the monitor of Corr_C17 accepts the model's own behaviour on EVERY schedule:
   the boolean specification applied to implementation observations is implied by the theorems of
   Caches_proofs (provenance, key soundness, update semantics, fall-back, single fill, single loop). *)
From Coq Require Import Permutation.
From V Require Import Base Base_proofs CorrBase Caches Caches_proofs Corr_C17.

(* ---------- what the model itself would show to the monitor ---------- *)

Definition predict_obs (e : event) (o : output) (w1 : world) : obs :=
  Ob (Seen o)
     (match e, o with
      | UpdateBegin _ g, OBool true => N.of_nat (length (fillers_of g (fc_fillers (w_fc w1))))
      | _, _ => 0
      end)
     (fc_cache (w_fc w1)) (fc_inflight (w_fc w1)) (fc_loops (w_fc w1)).

Definition predict_from (w : world) (evs : list event) : list (event * obs) :=
  map (fun x => let '(e, o, w1) := x in (e, predict_obs e o w1)) (snd (run w evs)).
Definition predict (evs : list event) := predict_from w_init evs.

(* ---------- reflection lemmas ---------- *)

Lemma strs_eqb_refl a : strs_eqb a a = true.
Proof. apply strs_eqb_eq. reflexivity. Qed.

Lemma opt_strs_eqb_refl a : opt_strs_eqb a a = true.
Proof. destruct a; simpl; [apply strs_eqb_refl | reflexivity]. Qed.

Lemma opt_strs_eqb_eq a b : a = b -> opt_strs_eqb a b = true.
Proof. intros ->. apply opt_strs_eqb_refl. Qed.

Lemma bool_eqb_refl b : bool_eqb b b = true.
Proof. destruct b; reflexivity. Qed.

Lemma output_eqb_refl o : output_eqb o o = true.
Proof.
  destruct o; simpl; try reflexivity.
  - apply bool_eqb_refl.
  - apply opt_strs_eqb_refl.
  - rewrite opt_strs_eqb_refl, bool_eqb_refl, strs_eqb_refl. reflexivity.
Qed.

Lemma justified_b_complete dir u g : justified dir u g -> justified_b dir u g = true.
Proof.
  unfold justified_b. intros [(ms & A & B)|(asked & r & A & B)]; apply existsb_exists.
  - exists (DFill g (FOk ms)). split; [exact A|]. rewrite str_eqb_refl. apply mem_str_In. exact B.
  - exists (DDirect u asked (DOk r)). split; [exact A|]. rewrite str_eqb_refl. apply mem_str_In. exact B.
Qed.

Lemma fill_said_complete dir g ms : In (DFill g (FOk ms)) dir -> fill_said dir g ms = true.
Proof.
  intros H. apply existsb_exists. exists (DFill g (FOk ms)). split; [exact H|].
  rewrite str_eqb_refl, strs_eqb_refl. reflexivity.
Qed.

Lemma count_str_perm x l1 l2 : Permutation l1 l2 -> count_str x l1 = count_str x l2.
Proof.
  induction 1; simpl; try congruence.
  - rewrite IHPermutation. reflexivity.
  - destruct (str_eqb x y), (str_eqb x x0); reflexivity.
Qed.

Lemma perm_b_complete a b : Permutation a b -> perm_b a b = true.
Proof.
  intros P. unfold perm_b. rewrite (Permutation_length P), Nat.eqb_refl. simpl.
  apply forallb_forall. intros x _. rewrite (count_str_perm x _ _ P). apply Nat.eqb_refl.
Qed.

Lemma no_comma_spec g : no_comma g = true -> ~ In comma g.
Proof.
  unfold no_comma. rewrite negb_true_iff. intros H Hin.
  assert (existsb (N.eqb comma) g = true); [|congruence].
  apply existsb_exists. exists comma. split; [exact Hin | apply N.eqb_refl].
Qed.

Lemma names_ok_b_spec gs : names_ok_b gs = true -> names_ok gs.
Proof.
  unfold names_ok_b. rewrite andb_true_iff, negb_true_iff. intros [A B]. split.
  - rewrite forallb_forall in A. apply Forall_forall. intros g Hg. apply no_comma_spec. apply A. exact Hg.
  - intros E. subst gs. discriminate.
Qed.

Lemma tokens_ok_b_spec evs : tokens_ok_b evs = true -> Forall token_consistent evs.
Proof.
  unfold tokens_ok_b. rewrite forallb_forall. intros H. apply Forall_forall. intros e He.
  specialize (H e He). destruct e; simpl; try exact I. apply str_eqb_eq. exact H.
Qed.

Lemma asks_ok_b_spec evs : asks_ok_b evs = true -> Forall asks_ok evs.
Proof.
  unfold asks_ok_b. rewrite forallb_forall. intros H. apply Forall_forall. intros e He.
  specialize (H e He). destruct e; simpl; try exact I. apply names_ok_b_spec. exact H.
Qed.

Lemma mem_str_app x a b : mem_str x (a ++ b) = mem_str x a || mem_str x b.
Proof. induction a as [|y a IH]; simpl; [reflexivity|]. rewrite IH. apply orb_assoc. Qed.

(* the loops a scan starts were not registered before, are pairwise distinct, and are registered after *)
Lemma scan_started u gs : forall s s' m d st, scan u gs s = (s', m, d, st) ->
  (forall g, In g st -> mem_str g (fc_loops s) = false) /\
  nodup_b st = true /\
  (forall g, mem_str g (fc_loops s') = mem_str g (st ++ fc_loops s)).
Proof.
  induction gs as [|g gs IH]; intros s s' m d st H; simpl in H.
  - inversion H; subst. split; [intros g []|]. split; reflexivity.
  - destruct (lookup g (fc_cache s)) as [ms|].
    + destruct (scan u gs s) as [[[s2 m2] d2] st2] eqn:Es. inversion H; subst. eapply IH; exact Es.
    + unfold loop_start in H. destruct (mem_str g (fc_loops s)) eqn:Em.
      * destruct (scan u gs s) as [[[s2 m2] d2] st2] eqn:Es. inversion H; subst. eapply IH; exact Es.
      * match type of H with context [scan u gs ?s1] => destruct (scan u gs s1) as [[[s2 m2] d2] st2] eqn:Es end.
        inversion H; subst. destruct (IH _ _ _ _ _ Es) as (A & B & C). simpl in A, C.
        assert (Hg: mem_str g st2 = false).
        { destruct (mem_str g st2) eqn:E; [|reflexivity]. apply mem_str_In in E. apply A in E.
          rewrite str_eqb_refl in E. discriminate. }
        split; [|split].
        -- intros g' [<-|Hin]; [exact Em|]. apply A in Hin. apply orb_false_iff in Hin as [_ Hin]. exact Hin.
        -- simpl. rewrite Hg. exact B.
        -- intros g'. rewrite C. simpl. rewrite !mem_str_app. simpl.
           destruct (str_eqb g' g), (mem_str g' st2), (mem_str g' (fc_loops s)); reflexivity.
Qed.

(* ---------- the simulation relation between the model world and the monitor state ---------- *)

Definition events_of (h : hist) : list event := map (fun x => fst (fst x)) h.

Record R (tok nam : bool) (h : hist) (w : world) (m : mon) : Prop := {
  r_inv : Inv h w;
  r_dir : m_dir m = w_dir w;
  r_cache : m_cache m = fc_cache (w_fc w);
  r_open : m_open m = fc_inflight (w_fc w);
  r_live : forall g, mem_str g (m_live m) = mem_str g (fc_loops (w_fc w));
  r_miss : forall u tu gs r w0, In (GCAsk u tu gs (DOk r), OAns (Some r) true [], w0) h -> In (u, gs, r) (m_misses m);
  r_tok : tok = true -> Forall token_consistent (events_of h);
  r_nam : nam = true -> Forall asks_ok (events_of h)
}.

Lemma R_init tok nam : R tok nam [] w_init mon_init.
Proof.
  constructor.
  - apply inv_init.
  - reflexivity.
  - reflexivity.
  - reflexivity.
  - intros g. reflexivity.
  - intros u tu gs r w0 [].
  - intros _. constructor.
  - intros _. constructor.
Qed.

Lemma R_next tok nam h w m e o w1 m' :
  R tok nam h w m -> step w e = (w1, o) ->
  (tok = true -> token_consistent e) -> (nam = true -> asks_ok e) ->
  m_dir m' = w_dir w1 -> m_cache m' = fc_cache (w_fc w1) -> m_open m' = fc_inflight (w_fc w1) ->
  (forall g, mem_str g (m_live m') = mem_str g (fc_loops (w_fc w1))) ->
  (forall u tu gs r w0, In (GCAsk u tu gs (DOk r), OAns (Some r) true [], w0) (h ++ [(e, o, w1)]) ->
                        In (u, gs, r) (m_misses m')) ->
  R tok nam (h ++ [(e, o, w1)]) w1 m'.
Proof.
  intros [I D C O L M T Nm] Hs Ht Hn Hd Hc Ho Hl Hm. constructor; try assumption.
  - eapply inv_step; eassumption.
  - intros E. unfold events_of. rewrite map_app. apply Forall_app. split; [apply T; exact E|].
    constructor; [apply Ht; exact E | constructor].
  - intros E. unfold events_of. rewrite map_app. apply Forall_app. split; [apply Nm; exact E|].
    constructor; [apply Hn; exact E | constructor].
Qed.

Lemma miss_keep (h : hist) (ms ms' : list (str * list str * list str)) e o w1 :
  (forall u tu gs r w0, In (GCAsk u tu gs (DOk r), OAns (Some r) true [], w0) h -> In (u, gs, r) ms) ->
  ms' = ms ->
  (forall u tu gs r, (e, o) <> (GCAsk u tu gs (DOk r), OAns (Some r) true [])) ->
  forall u tu gs r w0, In (GCAsk u tu gs (DOk r), OAns (Some r) true [], w0) (h ++ [(e, o, w1)]) -> In (u, gs, r) ms'.
Proof.
  intros H -> Hne u tu gs r w0 Hin. apply in_app_or in Hin as [Hin|[Hin|[]]]; [eapply H; exact Hin|].
  exfalso. inversion Hin; subst. eapply Hne. reflexivity.
Qed.

Ltac not_miss := intros ? ? ? ?; intros Heq; inversion Heq.

Lemma mon_step_ok tok nam groups h w m e w1 o :
  R tok nam h w m -> (tok = true -> token_consistent e) -> (nam = true -> asks_ok e) ->
  step w e = (w1, o) ->
  exists m', mon_step tok nam groups m e (predict_obs e o w1) = (true, m') /\ R tok nam (h ++ [(e, o, w1)]) w1 m'.
Proof.
  intros Rr Ht Hn Hs. pose proof Rr as [I D C O L M T Nm].
  destruct e as [t g|t g a|g|g| |g|u gs a|prof gs a|u tu gs a|k|k|k].
  - (* UpdateBegin *)
    pose proof Hs as Hs'. simpl in Hs. unfold update_begin in Hs.
    destruct (busy t (fc_fillers (w_fc w))) eqn:Eb.
    { inversion Hs; subst. eexists. split; [reflexivity|].
      eapply R_next; try eassumption; try (simpl; assumption); try (simpl; reflexivity). eapply miss_keep; [exact M | reflexivity | not_miss]. }
    destruct (mem_str g (fc_inflight (w_fc w))) eqn:Em.
    { inversion Hs; subst. eexists. split; [reflexivity|].
      eapply R_next; try eassumption; try (simpl; assumption); try (simpl; reflexivity). eapply miss_keep; [exact M | reflexivity | not_miss]. }
    inversion Hs; subst; clear Hs.
    assert (I1: Inv (h ++ [(UpdateBegin t g, OBool true,
                  with_fc w {| fc_cache := fc_cache (w_fc w); fc_inflight := g :: fc_inflight (w_fc w);
                               fc_loops := fc_loops (w_fc w); fc_stopped := fc_stopped (w_fc w);
                               fc_fillers := (t, g) :: fc_fillers (w_fc w);
                               fc_loopthreads := fc_loopthreads (w_fc w) |})]) _) by (eapply inv_step; eassumption).
    destruct (inv_fill _ _ I1) as [_ Hc]. specialize (Hc g). cbn [with_fc w_fc fc_fillers fc_inflight mem_str] in Hc.
    rewrite str_eqb_refl in Hc. cbn [orb] in Hc.
    eexists. split.
    + unfold mon_step, predict_obs. cbn [o_out o_conc o_cache].
      cbn [with_fc w_fc fc_fillers]. rewrite Hc. rewrite O, Em. reflexivity.
    + eapply R_next; try eassumption; simpl; try assumption; try reflexivity.
      eapply miss_keep; [exact M | reflexivity | not_miss].
  - (* UpdateEnd *)
    pose proof Hs as Hs'. rewrite step_update_end in Hs.
    destruct (filling t g (fc_fillers (w_fc w))) eqn:Ef.
    2:{ inversion Hs; subst. eexists. split; [reflexivity|].
        eapply R_next; try eassumption; try (simpl; assumption); try (simpl; reflexivity). eapply miss_keep; [exact M | reflexivity | not_miss]. }
    inversion Hs; subst; clear Hs.
    destruct (update_end_step _ _ _ _ _ _ Hs') as (_ & Hd & Hg & Hother); [discriminate|].
    eexists. split.
    + unfold mon_step, predict_obs. cbn [o_out o_cache accepted].
      rewrite Hg, C. rewrite opt_strs_eqb_refl, bool_eqb_refl. rewrite andb_true_r. cbn [andb].
      assert (forallb (fun g' => str_eqb g' g ||
                opt_strs_eqb (lookup g' (fc_cache (w_fc (with_fc_dir w (fst (update_end (w_fc w) t g a)) (DFill g a)))))
                             (lookup g' (fc_cache (w_fc w)))) groups = true) as ->; [|reflexivity].
      apply forallb_forall. intros g' _. destruct (str_eqb g' g) eqn:E; [reflexivity|].
      apply str_eqb_neq in E. rewrite (Hother g' E). apply opt_strs_eqb_refl.
    + eapply R_next; try eassumption; cbn [m_dir m_cache m_open m_live m_misses].
      * rewrite Hd, D. reflexivity.
      * reflexivity.
      * rewrite O. unfold update_end. rewrite Ef. reflexivity.
      * unfold update_end. rewrite Ef. exact L.
      * eapply miss_keep; [exact M | reflexivity | not_miss].
  - (* LoopStart *)
    simpl in Hs. unfold loop_start in Hs. destruct (mem_str g (fc_loops (w_fc w))) eqn:Em; inversion Hs; subst; clear Hs.
    + eexists. split; [reflexivity|].
      eapply R_next; try eassumption; try (simpl; assumption); try (simpl; reflexivity).
      * simpl. unfold loop_start. rewrite Em. reflexivity.
      * eapply miss_keep; [exact M | reflexivity | not_miss].
    + eexists. split.
      * unfold mon_step, predict_obs. cbn [o_out]. rewrite L, Em. reflexivity.
      * eapply R_next; try eassumption; try (simpl; assumption); try (simpl; reflexivity).
        -- simpl. unfold loop_start. rewrite Em. reflexivity.
        -- intros g'. simpl. rewrite L. reflexivity.
        -- eapply miss_keep; [exact M | reflexivity | not_miss].
  - (* LoopExit *)
    pose proof Hs as Hs'. simpl in Hs. unfold loop_exit in Hs.
    destruct (fc_stopped (w_fc w) && mem_str g (fc_loopthreads (w_fc w))) eqn:Ec; inversion Hs; subst; clear Hs.
    + eexists. split; [reflexivity|].
      eapply R_next; try eassumption; try (simpl; assumption); try (simpl; reflexivity).
      * intros g'. simpl. destruct (str_eqb g' g) eqn:E.
        -- apply str_eqb_eq in E. subst g'. rewrite !mem_remove_str_same. reflexivity.
        -- apply str_eqb_neq in E. rewrite !mem_remove_str_other by exact E. apply L.
      * eapply miss_keep; [exact M | reflexivity | not_miss].
    + eexists. split; [reflexivity|].
      eapply R_next; try eassumption; try (simpl; assumption); try (simpl; reflexivity). eapply miss_keep; [exact M | reflexivity | not_miss].
  - (* Stop *)
    pose proof Hs as Hs'. simpl in Hs. unfold stop in Hs.
    destruct (fc_stopped (w_fc w)); inversion Hs; subst; clear Hs; eexists; (split; [reflexivity|]);
      (eapply R_next; try eassumption; try (simpl; assumption); try (simpl; reflexivity); eapply miss_keep; [exact M | reflexivity | not_miss]).
  - (* Get *)
    pose proof Hs as Hs'. simpl in Hs. inversion Hs; subst; clear Hs.
    destruct (lookup g (fc_cache (w_fc w1))) as [ms|] eqn:El.
    + eexists. split.
      * unfold mon_step, predict_obs. cbn [o_out]. rewrite D.
        rewrite (fill_said_complete _ _ _ (inv_prov _ _ I _ _ El)). reflexivity.
      * eapply R_next; try eassumption; try (simpl; assumption); try (simpl; reflexivity).
        eapply miss_keep; [exact M | reflexivity | not_miss].
    + eexists. split; [reflexivity|].
      eapply R_next; try eassumption; try (simpl; assumption); try (simpl; reflexivity).
      eapply miss_keep; [exact M | reflexivity | not_miss].
  - (* GoogleAsk *)
    pose proof Hs as Hs'. simpl in Hs. destruct (is_nil gs) eqn:En.
    { inversion Hs; subst; clear Hs. destruct gs; [|discriminate]. eexists. split; [reflexivity|].
      eapply R_next; try eassumption; try (simpl; assumption); try (simpl; reflexivity).
      eapply miss_keep; [exact M | reflexivity | not_miss]. }
    destruct (scan u gs (w_fc w)) as [[[s mm] d] st] eqn:Es.
    pose proof (scan_frame _ _ _ _ _ _ _ Es) as (F1 & F2 & F3 & F4).
    pose proof (scan_started _ _ _ _ _ _ _ Es) as (S1 & S2 & S3).
    pose proof (scan_spec _ _ _ _ _ _ _ Es) as (_ & Sd).
    assert (Hst: started_ok (m_live m) st = true).
    { unfold started_ok. rewrite S2, andb_true_r. apply forallb_forall. intros g Hg. rewrite L, (S1 g Hg). reflexivity. }
    assert (Hunc: some_uncached (m_cache m) gs = d) by (rewrite C, Sd; reflexivity).
    assert (Hlive: forall g, mem_str g (st ++ m_live m) = mem_str g (fc_loops s)).
    { intros g. rewrite S3, !mem_str_app, L. reflexivity. }
    destruct d.
    + inversion Hs; subst; clear Hs.
      assert (P: ans_prov (DDirect u gs a :: m_dir m) u (match a with DOk r => Some r | DErr => None end) = true).
      { unfold ans_prov. destruct a as [r|]; [|reflexivity].
        apply forallb_forall. intros g Hg. apply justified_b_complete. right. exists gs, r.
        split; [left; reflexivity | exact Hg]. }
      eexists. split.
      * unfold mon_step, predict_obs. cbn [o_out]. rewrite Hunc, Hst, P. reflexivity.
      * eapply R_next; try eassumption; cbn [m_dir m_cache m_open m_live m_misses with_fc_dir w_dir w_fc];
          try (rewrite D; reflexivity); try exact D; try reflexivity; try (rewrite O, F2; reflexivity); try exact Hlive;
          try (eapply miss_keep; [exact M | reflexivity | not_miss]).
    + inversion Hs; subst; clear Hs.
      assert (P: ans_prov (m_dir m) u (Some mm) = true).
      { unfold ans_prov. apply forallb_forall. intros g Hg. apply justified_b_complete. rewrite D.
        eapply scan_matches_justified; [apply (inv_prov _ _ I) | exact Es | exact Hg]. }
      eexists. split.
      * unfold mon_step, predict_obs. cbn [o_out]. rewrite Hunc, Hst, P. reflexivity.
      * eapply R_next; try eassumption; cbn [m_dir m_cache m_open m_live m_misses with_fc w_dir w_fc];
          try (rewrite D; reflexivity); try exact D; try reflexivity; try (rewrite O, F2; reflexivity); try exact Hlive;
          try (eapply miss_keep; [exact M | reflexivity | not_miss]).
  - (* CognitoAsk *)
    pose proof Hs as Hs'. simpl in Hs. destruct (is_nil gs) eqn:En.
    { inversion Hs; subst; clear Hs. destruct gs; [|discriminate].
      destruct prof as [u|]; (eexists; split; [reflexivity|]);
      (eapply R_next; try eassumption; try (simpl; assumption); try (simpl; reflexivity);
       eapply miss_keep; [exact M | reflexivity | not_miss]). }
    destruct prof as [u|].
    2:{ inversion Hs; subst; clear Hs. eexists. split; [reflexivity|].
        eapply R_next; try eassumption; try (simpl; assumption); try (simpl; reflexivity).
        eapply miss_keep; [exact M | reflexivity | not_miss]. }
    destruct (is_nil u) eqn:Eu.
    { inversion Hs; subst; clear Hs. eexists. split.
      - unfold mon_step, predict_obs. cbn [o_out]. rewrite Eu. unfold ans_prov, started_ok. simpl.
        rewrite orb_true_r. reflexivity.
      - eapply R_next; try eassumption; try (simpl; assumption); try (simpl; reflexivity).
        eapply miss_keep; [exact M | reflexivity | not_miss]. }
    destruct (scan u gs (w_fc w)) as [[[s mm] d] st] eqn:Es.
    pose proof (scan_frame _ _ _ _ _ _ _ Es) as (F1 & F2 & F3 & F4).
    pose proof (scan_started _ _ _ _ _ _ _ Es) as (S1 & S2 & S3).
    pose proof (scan_spec _ _ _ _ _ _ _ Es) as (_ & Sd).
    assert (Hst: started_ok (m_live m) st = true).
    { unfold started_ok. rewrite S2, andb_true_r. apply forallb_forall. intros g Hg. rewrite L, (S1 g Hg). reflexivity. }
    assert (Hunc: some_uncached (m_cache m) gs = d) by (rewrite C, Sd; reflexivity).
    assert (Hlive: forall g, mem_str g (st ++ m_live m) = mem_str g (fc_loops s)).
    { intros g. rewrite S3, !mem_str_app, L. reflexivity. }
    destruct d.
    + inversion Hs; subst; clear Hs.
      assert (P: ans_prov (DDirect u gs a :: m_dir m) u
                   (match a with DOk r => Some (mm ++ filter (fun g => mem_str g r) gs) | DErr => None end) = true).
      { unfold ans_prov. destruct a as [r|]; [|reflexivity].
        apply forallb_forall. intros g Hg. apply justified_b_complete. apply in_app_or in Hg as [Hg|Hg].
        - apply justified_mono. rewrite D. eapply scan_matches_justified; [apply (inv_prov _ _ I) | exact Es | exact Hg].
        - apply filter_In in Hg as [_ Hg]. right. exists gs, r. split; [left; reflexivity | apply mem_str_In; exact Hg]. }
      eexists. split.
      * unfold mon_step, predict_obs. cbn [o_out]. rewrite Hunc, Hst, Eu, P. reflexivity.
      * eapply R_next; try eassumption; cbn [m_dir m_cache m_open m_live m_misses with_fc_dir w_dir w_fc];
          try (rewrite D; reflexivity); try exact D; try reflexivity; try (rewrite O, F2; reflexivity); try exact Hlive;
          try (eapply miss_keep; [exact M | reflexivity | not_miss]).
    + inversion Hs; subst; clear Hs.
      assert (P: ans_prov (m_dir m) u (Some mm) = true).
      { unfold ans_prov. apply forallb_forall. intros g Hg. apply justified_b_complete. rewrite D.
        eapply scan_matches_justified; [apply (inv_prov _ _ I) | exact Es | exact Hg]. }
      eexists. split.
      * unfold mon_step, predict_obs. cbn [o_out]. rewrite Hunc, Hst, P. reflexivity.
      * eapply R_next; try eassumption; cbn [m_dir m_cache m_open m_live m_misses with_fc w_dir w_fc];
          try (rewrite D; reflexivity); try exact D; try reflexivity; try (rewrite O, F2; reflexivity); try exact Hlive;
          try (eapply miss_keep; [exact M | reflexivity | not_miss]).
  - (* GCAsk *)
    pose proof Hs as Hs'. simpl in Hs. destruct (klookup (gc_key u gs) (w_lc w)) as [r0|] eqn:Ek.
    + (* hit *)
      inversion Hs; subst; clear Hs.
      destruct (inv_lc _ _ I _ _ Ek) as (tu' & gs' & w0 & A & B & Cd). simpl in A.
      eexists. split.
      * unfold mon_step, predict_obs. cbn [o_out]. cbn [orb].
        assert (P1: negb tok || ans_prov (m_dir m) u (Some r0) = true).
        { destruct tok; [|reflexivity]. cbn [negb orb]. unfold ans_prov. apply forallb_forall. intros g Hg.
          apply justified_b_complete. rewrite D.
          specialize (T eq_refl). rewrite Forall_forall in T.
          assert (Tc: token_consistent (GCAsk u tu' gs' (DOk r0))).
          { apply T. unfold events_of. apply in_map_iff. eexists. split; [|exact A]. reflexivity. }
          simpl in Tc. subst tu'. right. exists (sort_strs gs'), r0. split; [exact Cd | exact Hg]. }
        rewrite P1. cbn [andb].
        assert (P2: negb nam || existsb (fun x => let '(u', gs'0, r') := x in
                       str_eqb u u' && perm_b gs'0 gs && strs_eqb r0 r') (m_misses m) = true).
        { destruct nam; [|reflexivity]. cbn [negb orb]. apply existsb_exists. exists (u, gs', r0).
          split; [eapply M; exact A|]. rewrite str_eqb_refl, strs_eqb_refl, andb_true_r. cbn [andb].
          apply perm_b_complete. apply (gc_key_perm u); [apply (Hn eq_refl) | | exact B].
          specialize (Nm eq_refl). rewrite Forall_forall in Nm.
          apply (Nm (GCAsk u tu' gs' (DOk r0))). unfold events_of. apply in_map_iff. eexists. split; [|exact A]. reflexivity. }
        rewrite orb_false_r, P2. reflexivity.
      * eapply R_next; try eassumption; try (simpl; assumption); try (simpl; reflexivity).
        eapply miss_keep; [exact M | reflexivity | not_miss].
    + (* miss *)
      destruct a as [r|]; inversion Hs; subst; clear Hs.
      * assert (P: negb tok || ans_prov (DDirect tu (sort_strs gs) (DOk r) :: m_dir m) u (Some r) = true).
        { destruct tok; [|reflexivity]. cbn [negb orb]. unfold ans_prov. apply forallb_forall. intros g Hg.
          apply justified_b_complete. specialize (Ht eq_refl). simpl in Ht. subst tu.
          right. exists (sort_strs gs), r. split; [left; reflexivity | exact Hg]. }
        eexists. split.
        -- unfold mon_step, predict_obs. cbn [o_out]. rewrite P, orb_true_r. reflexivity.
        -- eapply R_next; try eassumption; cbn [m_dir m_cache m_open m_live m_misses w_dir w_fc]; try assumption.
           ++ rewrite D. reflexivity.
           ++ intros u' tu' gs' r' w0 Hin. apply in_app_or in Hin as [Hin|[Hin|[]]].
              ** right. eapply M. exact Hin.
              ** inversion Hin; subst. left. reflexivity.
      * eexists. split.
        -- unfold mon_step, predict_obs. cbn [o_out]. unfold ans_prov. rewrite !orb_true_r. reflexivity.
        -- eapply R_next; try eassumption; cbn [m_dir m_cache m_open m_live m_misses w_dir w_fc]; try assumption.
           ++ rewrite D. reflexivity.
           ++ eapply miss_keep; [exact M | reflexivity | not_miss].
  - (* LCGet *)
    pose proof Hs as Hs'. simpl in Hs. inversion Hs; subst; clear Hs. eexists. split; [reflexivity|].
    eapply R_next; try eassumption; try (simpl; assumption); try (simpl; reflexivity). eapply miss_keep; [exact M | reflexivity | not_miss].
  - (* LCPurge *)
    pose proof Hs as Hs'. simpl in Hs. inversion Hs; subst; clear Hs. eexists. split; [reflexivity|].
    eapply R_next; try eassumption; try (simpl; assumption); try (simpl; reflexivity). eapply miss_keep; [exact M | reflexivity | not_miss].
  - (* LCTimer *)
    pose proof Hs as Hs'. simpl in Hs. destruct (kmem k (w_timers w)); inversion Hs; subst; clear Hs;
      eexists; (split; [reflexivity|]);
      (eapply R_next; try eassumption; try (simpl; assumption); try (simpl; reflexivity); eapply miss_keep; [exact M | reflexivity | not_miss]).
Qed.

Lemma mon_run_ok tok nam groups evs : forall h w m,
  R tok nam h w m -> (tok = true -> Forall token_consistent evs) -> (nam = true -> Forall asks_ok evs) ->
  mon_run tok nam groups m (predict_from w evs) = true.
Proof.
  induction evs as [|e evs IH]; intros h w m Rr Ht Hn; [reflexivity|].
  unfold predict_from. simpl. destruct (step w e) as [w1 o] eqn:Es.
  destruct (run w1 evs) as [w2 log] eqn:Er. simpl.
  destruct (mon_step_ok tok nam groups h w m e w1 o Rr) as (m' & Hm & Rr'); try exact Es.
  - intros E. specialize (Ht E). inversion Ht; assumption.
  - intros E. specialize (Hn E). inversion Hn; assumption.
  - rewrite Hm. simpl. specialize (IH _ w1 m' Rr'). unfold predict_from in IH. rewrite Er in IH. simpl in IH.
    apply IH; intros E; [specialize (Ht E); inversion Ht | specialize (Hn E); inversion Hn]; assumption.
Qed.

Lemma predict_events w evs : map fst (predict_from w evs) = evs.
Proof.
  unfold predict_from. rewrite map_map. rewrite <- (run_events w evs) at 2.
  apply map_ext. intros [[e o] w1]. reflexivity.
Qed.

(* The monitor accepts the model on every schedule, every universe of groups, every kind. *)
Theorem monitor_accepts_model kind groups evs :
  holds (Case kind groups false (predict evs) []) = true.
Proof.
  unfold holds. cbn [c_steps c_groups c_storm forallb]. rewrite andb_true_r. unfold predict. rewrite predict_events.
  eapply mon_run_ok; [apply R_init | apply tokens_ok_b_spec | apply asks_ok_b_spec].
Qed.

(* ... and the model never disagrees with itself on the compared projections *)
Lemma snapshot_matches_self groups w1 e o :
  snapshot_matches groups (w_fc w1) (predict_obs e o w1) = true.
Proof.
  apply forallb_forall. intros g _. cbn [predict_obs o_cache o_infl o_loops].
  rewrite opt_strs_eqb_refl, !bool_eqb_refl. reflexivity.
Qed.

Theorem model_agrees_with_itself groups evs : forall w, mismatches groups w (predict_from w evs) = false.
Proof.
  induction evs as [|e evs IH]; intros w; [reflexivity|].
  unfold predict_from. simpl. destruct (step w e) as [w1 o] eqn:Es.
  destruct (run w1 evs) as [w2 log] eqn:Er. simpl. rewrite Es.
  rewrite output_eqb_refl, snapshot_matches_self. simpl.
  specialize (IH w1). unfold predict_from in IH. rewrite Er in IH. exact IH.
Qed.

Theorem judge_model_zero kind groups evs : judge (Case kind groups false (predict evs) []) = 0.
Proof.
  unfold judge. cbn [c_hung c_groups c_steps]. unfold predict at 1.
  rewrite model_agrees_with_itself, monitor_accepts_model. reflexivity.
Qed.
