(* Corr_IntSystem_proofs.v — the monitor of the whole-system correspondence accepts the model's own prediction. *)
From V Require Import Base Base_proofs Validators SystemAll SystemAll_proofs CorrBase Corr_IntSystem.
Local Open Scope Z_scope.
