(* Corr_IntSystem_proofs.v — the monitor of the whole-system correspondence accepts the model's own prediction,
   for EVERY deployment and history: it demands no more than what props/IntegrationSystem.v proves. *)
From V Require Import Base Base_proofs Validators SystemAll SystemAll_proofs CorrBase Corr_IntSystem.
From V Require ProxyCore ProxyCore_proofs ProxyAll ProxyAll_proofs AuthAll AuthAll_proofs AuthBack AuthBack_proofs AuthFlow AuthFlow_proofs.
From V Require ReqHeaders Hostmux Url Corr_C07 Corr_C07_proofs RespHeaders.
From Coq Require Import ZifyBool ZifyN ZifyNat.
Local Open Scope Z_scope.

(* ---- small facts ---- *)
Lemma close_refl z : close z z = true.
Proof. unfold close. lia. Qed.

(* C11: a login gate that passes e under SOME group answer passes it under the most favourable one *)
Section Gate.
Variable lower : str -> str.

Lemma group_validate_self g : g <> [] -> group_validate g (GroupsOk g) = true.
Proof.
  intros Hg. unfold group_validate, validate_group.
  assert (Hm : forall x r, negb (match flat_map (fun u => filter (str_eqb u) (x :: r)) (x :: r) with [] => true | _ => false end) = true).
  { intros x r. cbn [flat_map filter]. rewrite str_eqb_refl. reflexivity. }
  destruct g as [|x [|y r]]; [contradiction| |].
  - destruct (str_eqb x star); [reflexivity|]. cbn [gr_err gr_valid negb andb]. apply Hm.
  - cbn [gr_err gr_valid negb andb]. apply Hm.
Qed.

Lemma run_validator_best pol e ans v :
  In v (validators_of lower pol) -> run_validator lower e ans v = true ->
  run_validator lower e (GroupsOk (p_groups pol)) v = true.
Proof.
  unfold validators_of. intros Hin Hr.
  apply in_app_or in Hin as [Hin|Hin]; [destruct (p_addresses pol); [destruct Hin | destruct Hin as [<-|[]]; exact Hr]|].
  apply in_app_or in Hin as [Hin|Hin]; [destruct (p_domains pol); [destruct Hin | destruct Hin as [<-|[]]; exact Hr]|].
  destruct (p_groups pol) as [|g0 gs] eqn:Eg; [destruct Hin|]. destruct Hin as [<-|[]].
  cbn [run_validator]. apply group_validate_self. discriminate.
Qed.

Lemma filter_len_le {X} (f : X -> bool) l : (length (filter f l) <= length l)%nat.
Proof. induction l as [|y l IH]; cbn; [lia|]. destruct (f y); cbn; lia. Qed.

Lemma filter_length_lt {X} (f : X -> bool) l : (exists x, In x l /\ f x = false) <-> length (filter f l) <> length l.
Proof.
  induction l as [|y l IH]; cbn [filter length In]; [split; [intros [x [[] _]] | intros H; contradiction]|].
  pose proof (filter_len_le f l) as Hle.
  destruct (f y) eqn:Ey; cbn [length].
  - split.
    + intros [x [[->|Hin] Hx]]; [congruence|]. assert (length (filter f l) <> length l) by (apply IH; eauto). lia.
    + intros H. assert (H' : length (filter f l) <> length l) by lia. apply IH in H' as [x [Hin Hx]]. eauto.
  - split; [intros _; lia|]. intros _. exists y. auto.
Qed.

Lemma login_gate_best pol e ans :
  login_gate lower pol e ans = true -> login_gate lower pol e (GroupsOk (p_groups pol)) = true.
Proof.
  unfold login_gate. intros H. apply negb_true_iff in H. apply Nat.eqb_neq in H.
  apply negb_true_iff. apply Nat.eqb_neq.
  apply (filter_length_lt (fun v => negb (run_validator lower e ans v))) in H as [v [Hin Hv]].
  apply negb_false_iff in Hv.
  apply (filter_length_lt (fun v => negb (run_validator lower e (GroupsOk (p_groups pol)) v))).
  exists v. split; [exact Hin|]. apply negb_false_iff. eapply run_validator_best; eauto.
Qed.

End Gate.

Section Accept.
Variable re_match : str -> str -> bool.
Variable re_replace : str -> str -> str -> str.
Variable lower : str -> str.
Variable sd : sysdep.
Hypothesis Hwf : wf sd.
Hypothesis Hwired : wired re_match sd.
Hypothesis HV : 0 <= P.dp_V (sd_p sd).

Notation INV := (Inv re_match lower sd).
Notation poutc := (proxy_outcome re_match re_replace lower sd).
Notation pstep := (proxy_step re_match re_replace lower sd).

Lemma served_headers st q bk lk sc bv :
  P.oc_backend (poutc st q bk lk sc) = Some bv ->
  exists u, P.route_ext re_match (P.dp_ups (sd_p sd)) (P.rq_host q) = Some u /\
    (P.skip_hit re_match u q = true -> PP.identity_absent (P.bk_handler bv)) /\
    (P.skip_hit re_match u q = false -> exists e, ReqHeaders.h_get ReqHeaders.k_xfe (P.bk_handler bv) = [e]).
Proof.
  intros Hb. unfold proxy_outcome in Hb.
  destruct (PP.backend_reached_only_if re_match re_replace lower _ _ _ _ _ _ Hb)
    as (u & Hr & _ & _ & _ & _ & _ & _ & _ & _ & _ & _ & Hmed & _).
  exists u. split; [exact Hr|]. split.
  - intros Hsk. destruct Hmed as [[_ [_ Habs]]|[s [s' [_ [_ [_ [_ Habs]]]]]]]; [exact Habs | exact (Habs Hsk)].
  - intros Hsk. destruct Hmed as [[_ [Hs _]]|[s [s' [_ [_ [_ [Hid _]]]]]]]; [congruence|].
    destruct (Hid Hsk) as [_ [Hx _]]. eauto.
Qed.

Lemma visible_saved cn r eff sv : P.visible_session cn r eff = PC.CSaved sv -> eff = PC.CSaved sv.
Proof.
  unfold P.visible_session. destruct r; try discriminate.
  destruct (rev _) as [|v l]; try discriminate. destruct v as [c0|c0]; try discriminate.
  destruct (RespHeaders.ck_empty c0); try discriminate; auto.
Qed.

Lemma first_rev_in i g t : first_rev i (Some g) = Some t -> In (g, t) (i_rev i).
Proof.
  unfold first_rev. destruct (find _ (i_rev i)) as [[g' t']|] eqn:E; [|discriminate].
  intros H; inversion H; subst. apply find_some in E as [Hin Hg]. cbn in Hg. apply Nat.eqb_eq in Hg. subst. exact Hin.
Qed.

Lemma first_rev_none i g : is_revoked i g = false -> first_rev i g = None.
Proof.
  unfold first_rev, is_revoked. destruct g as [n|]; [|reflexivity]. intros H.
  destruct (find _ (i_rev i)) as [r|] eqn:E; [|reflexivity]. exfalso.
  apply find_some in E as [Hin Hg]. assert (existsb (fun r => Nat.eqb n (fst r)) (i_rev i) = true) by (apply existsb_exists; eauto).
  congruence.
Qed.

Lemma callback_path_route path : str_eqb path P.p_callback = true -> P.route_of_path path = P.RtCallback.
Proof. intros H. apply str_eqb_eq in H. subst. reflexivity. Qed.

(* the lineage the model reports for a cookie it issued *)
Lemma model_chain_of st p c g v :
  Names st -> In c (st_c st) -> pr_code p = Some (cr_val c) -> cr_grant c = Some g -> nth_error (st_v st) g = Some v ->
  model_chain st p =
  Some {| ch_login_now := pr_login p; ch_login_host := pr_host p; ch_login_email := PC.s_email (pr_s p); ch_login_redeem := true;
          ch_code_now := cr_at c; ch_code_email := B.s_email (cr_s c); ch_code_uri := cr_uri c;
          ch_sig_ok := match cr_sig c with Some _ => true | None => false end;
          ch_vouch_now := vr_at v; ch_vouch_email := vr_email v; ch_vouch_called := true;
          ch_revoked := first_rev (st_idp st) (pr_grant p) |}.
Proof.
  intros Hn Hin Hc Hg Hv. unfold model_chain. rewrite Hc, (find_c_named st c Hn Hin), Hg, Hv. reflexivity.
Qed.

Lemma proxy_accepted st q bk lk sc :
  INV st -> Rev st -> Names st ->
  proxy_ok re_match re_replace lower sd false (st_now st) (P.rq_host q) (P.rq_path q)
    (model_pobs sd st (fst (pstep st q bk lk sc)) q (snd (pstep st q bk lk sc))) = true.
Proof.
  intros HI HR HN. pose proof HI as HI0.
  set (st' := fst (pstep st q bk lk sc)). set (po := snd (pstep st q bk lk sc)).
  assert (Hpo : po_out po = poutc st q bk lk sc) by reflexivity.
  set (o := model_pobs sd st st' q po).
  assert (Hseen : op_seen o = match P.oc_backend (poutc st q bk lk sc) with
                              | Some bv => [{| b_target := P.bk_target bv;
                                               b_email := ReqHeaders.h_get ReqHeaders.k_xfe (P.bk_handler bv);
                                               b_user := ReqHeaders.h_get ReqHeaders.k_xfu (P.bk_handler bv);
                                               b_groups := ReqHeaders.h_get ReqHeaders.k_xfg (P.bk_handler bv);
                                               b_sess_cookie := false |}]
                              | None => [] end).
  { unfold o, model_pobs. cbn [op_seen]. rewrite Hpo. reflexivity. }
  assert (Hpres : op_pres o = pres_session sd st q) by reflexivity.
  assert (Hchain : op_chain o = match presented_p sd st q with Some p => model_chain st p | None => None end) by reflexivity.
  assert (Houts : op_outs o = st_out st') by reflexivity.
  assert (Heff : op_eff o = P.visible_session (P.dp_cookie_name (sd_p sd)) (P.oc_client (poutc st q bk lk sc)) (P.oc_session (poutc st q bk lk sc))).
  { unfold o, model_pobs. cbn [op_eff]. rewrite Hpo. reflexivity. }
  clearbody o. unfold proxy_ok. apply andb_true_iff. split.
  - (* backend receipts *)
    rewrite Hseen.
    destruct (P.oc_backend (poutc st q bk lk sc)) as [bv|] eqn:Eb; [|reflexivity].
    cbn [forallb]. rewrite andb_true_r. unfold identity_ok.
    destruct (served_identity re_match re_replace lower sd st q bk lk sc bv HI Eb) as (u & Hr & Ht & Hsk & Hid).
    destruct (served_headers st q bk lk sc bv Eb) as (u' & Hr' & Habs & Hone).
    rewrite Hr in Hr'. inversion Hr'; subst u'. clear Hr'.
    unfold route_of, d_p. rewrite Hr. cbn [b_target b_sess_cookie b_email b_user b_groups].
    rewrite Ht, str_eqb_refl. cbn [negb andb].
    assert (Hskip : skip_path re_match sd (P.rq_host q) (P.rq_path q) = P.skip_hit re_match u q).
    { unfold skip_path, route_of, d_p. rewrite Hr. reflexivity. }
    rewrite Hskip. destruct (P.skip_hit re_match u q) eqn:Esk.
    { pose proof (Habs eq_refl) as Ha. unfold PP.identity_absent in Ha.
      rewrite (Ha ReqHeaders.k_xfe), (Ha ReqHeaders.k_xfu), (Ha ReqHeaders.k_xfg); try reflexivity;
        unfold ReqHeaders.identity_keys; cbn; tauto. }
    destruct (Hone eq_refl) as [e He]. rewrite He.
    destruct (Hid e ltac:(rewrite He; left; reflexivity)) as (_ & Hch & s & Hck & Hok).
    destruct Hch as (p & c & g & v & K).
    destruct K as (K1 & K2 & K3 & K4 & K5 & K6 & K7 & K8 & K9 & K10 & K11 & K12 & K13 & K14 & K15 & K16 & K17 & K18 & K19 & K20 & K21 & K22).
    destruct (session_cookie_presented sd st q s Hck) as [p' [Hp' [Hps Hpin]]].
    rewrite K1 in Hp'. inversion Hp'; subst p'. clear Hp'.
    rewrite Hpres, Hchain, Houts. unfold pres_session. rewrite K1.
    rewrite (model_chain_of st p c g v HN K8 K9 K18 K19).
    cbn [ch_login_now ch_login_host ch_login_email ch_login_redeem ch_code_now ch_code_email ch_code_uri ch_sig_ok
         ch_vouch_now ch_vouch_email ch_vouch_called ch_revoked].
    destruct Hok as (_ & Hup & Hlife & _).
    destruct HI as (_ & _ & HC & HP & _). rewrite Forall_forall in HP, HC.
    destruct (HP p K2) as (c0 & u0 & code0 & Q). destruct Q as (_ & _ & _ & _ & Q5 & _).
    rewrite Hps in *.
    destruct K17 as (m & t0 & S1 & S2 & S3 & S4 & S5). destruct K7 as [ans Hg].
    assert (L1 : str_eqb (PC.s_email s) e = true) by (rewrite K3; apply str_eqb_refl).
    assert (L2 : str_eqb (PC.s_upstream s) (P.rq_host q) = true) by (rewrite Hup; apply str_eqb_refl).
    assert (L3 : (st_now st <=? PC.s_lifetime_dl s + slack) = true) by (unfold slack; clear - Hlife; lia).
    assert (L4 : close (pr_login p + P.dp_L (sd_p sd)) (PC.s_lifetime_dl s) = true) by (rewrite Q5; apply close_refl).
    assert (L5 : str_eqb (pr_host p) (P.rq_host q) = true) by (rewrite K4; apply str_eqb_refl).
    assert (L6 : str_eqb (PC.s_email s) e = true) by exact L1.
    assert (L7 : (pr_login p <=? st_now st) = true) by (clear - K5; lia).
    assert (L8 : creds_agree sd = true) by (unfold creds_agree, d_a; rewrite S3; apply str_eqb_refl).
    assert (L9 : login_gate lower (Hostmux.u_policy (P.up_hm u)) e (GroupsOk (p_groups (Hostmux.u_policy (P.up_hm u)))) = true)
      by (eapply login_gate_best; exact Hg).
    assert (L10 : str_eqb (B.s_email (cr_s c)) e = true) by (rewrite K11; apply str_eqb_refl).
    assert (L11 : (cr_at c <=? pr_login p + slack) = true) by (unfold slack; clear - K13; lia).
    assert (L12 : in_domain_uri sd (cr_uri c) = true) by (unfold in_domain_uri, d_a; apply Corr_C07_proofs.redir_monitor_ok; exact K15).
    assert (L13 : match cr_sig c with Some _ => true | None => false end = true) by (rewrite S1; reflexivity).
    assert (L14 : str_eqb (vr_email v) e = true) by (rewrite K20; apply str_eqb_refl).
    assert (L15 : (vr_at v <=? cr_at c + slack) = true) by (unfold slack; clear - K21; lia).
    cbn [ch_login_now ch_login_host ch_login_email ch_login_redeem ch_code_now ch_code_email ch_code_uri ch_sig_ok
         ch_vouch_now ch_vouch_email ch_vouch_called].
    rewrite L1, L2, L3, L4, L5, L7, L8, L9, L10, L11, L12, L13, L14, L15. cbn [andb orb negb].
    unfold revocation_ok. cbn [ch_revoked ch_login_now]. rewrite K10.
      destruct (first_rev (st_idp st) (Some g)) as [t|] eqn:Erv; [|reflexivity].
      apply first_rev_in in Erv.
      destruct (revoked_served re_match re_replace lower sd Hwired st q bk lk sc bv e p g t HV HI0 HR Eb
                  ltac:(rewrite He; left; reflexivity) K1 K10 Erv) as [H1|[[H1 H2]|[t' [H1 [H2 [H3 H4]]]]]].
      + replace (st_now st <=? t + P.dp_V (sd_p sd) + slack) with true by (unfold slack; clear - H1; lia). reflexivity.
      + apply orb_true_iff. left. apply orb_true_iff. right. cbn [negb andb].
        apply andb_true_iff. split; [unfold slack; clear - H1; lia | unfold slack; clear - H2; lia].
      + apply orb_true_iff. right. apply existsb_exists. exists t'. split; [exact H1|]. unfold slack. clear - H2 H3 H4. lia.
  - (* a session handed out *)
    rewrite Heff.
    destruct (P.visible_session _ _ _) as [| |sv] eqn:Ev; try reflexivity.
    apply visible_saved in Ev.
    destruct (str_eqb (P.rq_path q) P.p_callback) eqn:Ep; [|reflexivity]. cbn [negb orb].
    apply callback_path_route in Ep. unfold proxy_outcome in Ev.
    destruct (serve_saved_cases re_match re_replace lower _ _ _ _ _ _ Ev) as [u [Hr [_ Hc]]].
    destruct Hc as [[_ [Hs' [_ [_ [e [acc [rt [ex [Hb _]]]]]]]]]|[Hrt _]]; [|contradiction].
    cbn [P.an_redeem_body bc_answers] in Hb. pose proof Hb as Hb0.
    apply (redeem_doc_genuine lower) in Hb as (_ & _ & slug & k & s & _ & Ho & _).
    cbn [A.o_open a_oracles] in Ho. apply a_open_cases in Ho as [[Hk _]|[_ [_ [c [Hfc _]]]]]; [exfalso; apply Hwf; symmetry; exact Hk|].
    apply find_c_in in Hfc as [Hcin _].
    destruct HI as (_ & _ & HC & _). rewrite Forall_forall in HC.
    destruct (HC c Hcin) as (g & v & _ & _ & _ & _ & _ & _ & _ & _ & _ & (m & t0 & _ & _ & S3 & _)).
    unfold creds_agree, d_a. rewrite S3, str_eqb_refl. cbn [andb].
    subst sv. unfold P.mint_session. cbn [P.an_redeem_body bc_answers]. rewrite Hb0. cbn [PC.s_upstream]. apply str_eqb_refl.
Qed.

End Accept.

Section AcceptAuth.
Variable lower : str -> str.
Variable sd : sysdep.
Hypothesis Hwf : wf sd.

Notation aresp := (auth_resp lower sd).

Lemma presented_rest st q slug k rest :
  AP.routed (sd_a sd) q slug k rest ->
  exists rec, presented_a sd st q = Some (slug, k, rest, rec).
Proof. intros Hr. eexists. apply (routed_presented sd st q slug k rest Hr). Qed.

Lemma auth_accepted st q x sc :
  auth_ok sd (st_now st) (model_aobs sd st q (snd (auth_step lower sd st q x sc))) = true.
Proof.
  set (r := aresp st q x sc).
  assert (Hr : ao_resp (snd (auth_step lower sd st q x sc)) = r) by reflexivity.
  unfold auth_ok, model_aobs. rewrite Hr.
  cbn [oa_loc oa_route oa_uri oa_pres oa_calls oa_revoked oa_sess oa_json oa_creds oa_sig_ok].
  apply andb_true_iff. split; [apply andb_true_iff; split|].
  - (* a code *)
    destruct (A.r_loc r) as [| |src s| |] eqn:El; cbn [model_aloc]; try reflexivity.
    unfold r, auth_resp in El.
    destruct (AP.code_end_to_end lower (sd_a sd) q (a_oracles sd st x) (auth_answers sd st q sc) (now_ns st) src s El)
      as (slug & k & Hrt & Hg & Hsrc & _ & _ & _ & _ & _ & Hck & _).
    destruct Hck as (c0 & s0 & _ & _ & _ & _ & _ & _ & _ & _ & calls & Hcalls & Hconf).
    destruct (auth_code_cases lower sd st q x sc src s Hwf El) as (a & Hp & Hia & He & Hl & Hlt & _ & Hvr & _ & (m0 & t0 & Hpm & _) & Hup & Hnr).
    destruct (presented_rest st q slug k _ Hrt) as [rec Hpa]. rewrite Hpa.
    replace (route_no A.p_sign_in) with 2%N by reflexivity. cbn [N.eqb Pos.eqb andb].
    assert (Huri : B.form_get A.k_redirect_uri (fst (B.compute_form (A.inner q A.p_sign_in))) = src) by (symmetry; exact Hsrc).
    rewrite Huri. unfold in_domain_uri, d_a. rewrite (Corr_C07_proofs.redir_monitor_ok _ _ Hvr). rewrite Hpm. cbn [andb].
    rewrite Hp. cbn [F.s_email A.to_flow F.s_lifetime].
    assert (E1 : str_eqb (F.s_email s) (B.s_email (ar_s a)) = true) by (rewrite He; apply str_eqb_refl).
    rewrite E1. replace (st_now st <=? B.s_lifetime_dl (ar_s a) + slack) with true by (unfold slack; clear - Hlt; lia).
    assert (E2 : nilb (A.r_calls r) = false).
    { unfold r, auth_resp. rewrite Hcalls.
      destruct Hconf as [[_ [_ [j [tk [du [_ [_ Hc]]]]]]]|[_ [_ [_ [_ Hc]]]]]; rewrite Hc; reflexivity. }
    rewrite E2. cbn [negb andb].
    unfold auth_grant. rewrite Hp. rewrite (first_rev_none _ _ Hnr). reflexivity.
  - (* session cookies *)
    apply forallb_forall. intros op Hop. destruct op as [|s].
    { (* C19: a clearing Set-Cookie on /sign_out for a live session comes after the revoke call *)
      unfold r, auth_resp in Hop.
      destruct (AP.serve_inv lower (sd_a sd) q (a_oracles sd st x) (auth_answers sd st q sc) (now_ns st))
        as [[_ [[_ [Hn _]] _]]|[slug [k [rest [Hrt _]]]]]; [rewrite Hn in Hop; destruct Hop|].
      rewrite (routed_presented sd st q slug k rest Hrt).
      destruct (N.eqb (route_no rest) 3) eqn:E3; [|reflexivity]. cbn [negb orb].
      assert (Hrest : rest = A.p_sign_out).
      { unfold route_no in E3. destruct (str_eqb rest A.p_start); [discriminate|]. destruct (str_eqb rest A.p_sign_in); [discriminate|].
        destruct (str_eqb rest A.p_sign_out) eqn:Es; [apply str_eqb_eq in Es; exact Es|].
        destruct (str_eqb rest A.p_callback); [discriminate|]. destruct (mem_str rest _); discriminate. }
      subst rest. unfold auth_pres. rewrite (routed_presented sd st q slug k _ Hrt).
      destruct (A.lookup slug (A.q_sess q)) as [v|] eqn:Elk; [|reflexivity].
      destruct (find_a st v) as [a|] eqn:Efa; [|reflexivity].
      destruct (AP.signout_end_to_end lower (sd_a sd) q (a_oracles sd st x) (auth_answers sd st q sc) (now_ns st)) as [_ H2].
      cbv zeta in H2. destruct (H2 slug k Hrt) as [Hc _].
      destruct (Hc Hop) as (_ & _ & _ & _ & [[Hj _]|[s0 [_ [Hcalls _]]]]).
      - exfalso. rewrite Elk in Hj. unfold A.cookie_of in Hj. cbn [A.o_open a_oracles] in Hj. unfold a_open in Hj.
        rewrite Efa in Hj. unfold A.key_of in Hj. rewrite N.eqb_refl in Hj. cbn in Hj. discriminate.
      - unfold r, auth_resp. rewrite Hcalls. reflexivity. }
    unfold r, auth_resp in Hop.
    destruct (AP.login_end_to_end lower (sd_a sd) q (a_oracles sd st x) (auth_answers sd st q sc) (now_ns st) s Hop)
      as [slug [k [[Hrt H]|[Hrt H]]]].
    + cbv zeta in H. destruct H as [_ H].
      destruct H as (nonce & redirect & ts & _ & _ & _ & _ & _ & _ & _ & _ & _ & Hs & _ & _ & _ & _ & Hcalls).
      rewrite now_s_of in Hs.
      destruct (presented_rest st q slug k _ Hrt) as [rec Hpa]. rewrite Hpa.
      replace (route_no A.p_callback) with 4%N by reflexivity. cbn [N.eqb Pos.eqb andb].
      apply orb_true_iff. left. unfold r, auth_resp. rewrite Hcalls. cbn [existsb is_redeem_call orb andb].
      subst s. cbn [F.redeemed_session F.s_lifetime]. unfold d_a. apply close_refl.
    + destruct H as [c [s0 [Hl [Ho [Hlt [He [_ [Hlf _]]]]]]]].
      destruct (loaded_cookie sd st q x slug k _ c s0 Hwf Hrt Hl Ho) as [a [Hp [Hia [Hs _]]]].
      destruct (presented_rest st q slug k _ Hrt) as [rec Hpa]. rewrite Hpa.
      replace (route_no A.p_sign_in) with 2%N by reflexivity. cbn [N.eqb Pos.eqb andb orb].
      rewrite Hp, Hs. destruct s0; cbn in *. rewrite He, Hlf, str_eqb_refl, close_refl. reflexivity.
  - (* a token document *)
    destruct (A.r_body r) as [| | | | |b| | | |] eqn:Eb; try reflexivity.
    unfold r, auth_resp in Eb.
    destruct (AP.backchannel_end_to_end lower (sd_a sd) q (a_oracles sd st x) (auth_answers sd st q sc) (now_ns st)) as (H1 & H2 & _).
    destruct (H2 b Eb) as [h Hran]. destruct (H1 h Hran) as (slug & k & Hrt & _ & Hid & Hsec & _).
    destruct (presented_rest st q slug k _ Hrt) as [rec Hpa]. rewrite Hpa.
    rewrite Hid, Hsec, !str_eqb_refl. destruct h; reflexivity.
Qed.

End AcceptAuth.

(* The monitor Corr_IntSystem.judge applies to the real services' observations — every clause that is PROVED of
   the model: identity only for an IdP-vouched, code-redeemed, gate-passed, host-bound, live session; revocation
   and sign-out bounded by V (with the in-flight-code and outage exceptions); codes only for live, IdP-confirmed,
   unrevoked sessions and in-domain redirects; token documents only for callers with the client credentials —
   accepts the observation the MODEL ITSELF predicts, for every deployment, history, IdP script and oracle. *)
Theorem monitor_accepts_model re_match re_replace lower sd t0 evs :
  wf sd -> wired re_match sd -> 0 <= P.dp_V (sd_p sd) ->
  holds_gen re_match re_replace lower sd false (model_msteps re_match re_replace lower sd t0 evs) = true.
Proof.
  intros Hwf Hw HV. unfold holds_gen, model_msteps.
  destruct (SystemAll.run re_match re_replace lower sd (init t0) evs) as [st' tr] eqn:Er. cbn [snd].
  destruct (run_inv_rev re_match re_replace lower sd Hwf Hw evs (init t0) st' tr Er (inv_init re_match lower sd t0) (rev_init t0))
    as [_ [_ Htr]].
  destruct (run_names re_match re_replace lower sd evs (init t0) st' tr Er (names_init t0)) as [_ Hnm].
  apply forallb_forall. intros m Hm. apply in_flat_map in Hm as [[[st e] o] [Hin Hm]].
  destruct (Htr st e o Hin) as [HI [HR Ho]]. pose proof (Hnm st e o Hin) as HN.
  unfold model_mstep in Hm.
  destruct e as [dt|c|q bk lk sc|q x sc]; cbn [SystemAll.step] in Ho.
  - subst o. destruct Hm.
  - subst o. destruct Hm as [<-|[]]. reflexivity.
  - destruct (proxy_step re_match re_replace lower sd st q bk lk sc) as [st1 po] eqn:Ep. cbn [snd] in Ho. subst o.
    destruct Hm as [<-|[]]. unfold mstep_ok. cbn [ms_kind ms_obs ms_now].
    pose proof (proxy_accepted re_match re_replace lower sd Hwf Hw HV st q bk lk sc HI HR HN) as Hacc.
    cbn [SystemAll.step]. rewrite Ep in Hacc |- *. cbn [fst snd] in Hacc |- *. exact Hacc.
  - destruct (auth_step lower sd st q x sc) as [st1 ao] eqn:Ea. cbn [snd] in Ho. subst o.
    destruct Hm as [<-|[]]. unfold mstep_ok. cbn [ms_kind ms_obs ms_now].
    pose proof (auth_accepted lower sd Hwf st q x sc) as Hacc. rewrite Ea in Hacc. exact Hacc.
Qed.

(* the monitor is not vacuous: at full strength it accepts the model's ordinary histories (login, revocation,
   sign-out) and rejects exactly the two histories that witness the refuted clauses *)
Example monitor_discriminates :
  let ms evs := model_msteps SysEx.ex_match SysEx.ex_replace lower_ascii SysEx.sd 1000 evs in
  let h strict evs := holds_gen SysEx.ex_match SysEx.ex_replace lower_ascii SysEx.sd strict (ms evs) in
  h true SysEx.evs_served = true /\ h true SysEx.evs_revoked = true /\ h true SysEx.evs_signout = true /\
  h true SysEx.evs_cross = false /\ h false SysEx.evs_cross = true /\
  h true SysEx.evs_inflight = false /\ h false SysEx.evs_inflight = true /\
  existsb (fun m => match ms_obs m with OP o => negb (nilb (op_seen o)) | _ => false end) (ms SysEx.evs_served) = true.
Proof. cbv zeta. repeat split; vm_compute; reflexivity. Qed.
