(* The monitor of Corr_C18 accepts the model's own predictions: this ties the boolean
   specification used on implementation observations to the theorems of RespHeaders_proofs. *)
From V Require Import Base Base_proofs CorrBase RespHeaders RespHeaders_proofs Gen_Headers RespHeaders_gen_proofs Corr_C18.
From Coq Require Import ZifyN ZifyNat ZifyBool.
Require Coq.Strings.String.
Import Coq.Strings.String.StringSyntax.

(* the observation the client would make of a model response *)
Definition proj_hdr (h : hdr hval) : hdr str := map (fun kvs => (fst kvs, map hval_str (snd kvs))) h.

Lemma hget_proj k h : hget k (proj_hdr h) = map hval_str (hget k h).
Proof.
  induction h as [|[k2 vs] h IH]; [reflexivity|]. cbn [proj_hdr map hget fst snd].
  destruct (str_eqb k k2); [reflexivity | exact IH].
Qed.

(* ---- location ---- *)
Lemma strip_prefix_app p r : strip_prefix p (p ++ r) = Some r.
Proof. induction p as [|c p IH]; [destruct r; reflexivity|]. cbn [app strip_prefix]. rewrite N.eqb_refl. exact IH. Qed.

Lemma span_until_app stop a b :
  Forall (fun x => mem_byte x stop = false) a ->
  (b = [] \/ exists c b', b = c :: b' /\ mem_byte c stop = true) ->
  span_until stop (a ++ b) = (a, b).
Proof.
  intros Ha Hb. induction Ha as [|x a Hx Ha IH].
  - cbn [app]. destruct Hb as [->|[c [b' [-> Hc]]]]; [reflexivity|]. cbn [span_until]. rewrite Hc. reflexivity.
  - cbn [app span_until]. rewrite Hx, IH. reflexivity.
Qed.

Lemma delims_weaken (l1 l2 : list N) s :
  (forall x, mem_byte x l2 = true -> mem_byte x l1 = true) ->
  Forall (fun x => mem_byte x l1 = false) s -> Forall (fun x => mem_byte x l2 = false) s.
Proof.
  intros Hsub Hs. eapply Forall_impl; [|exact Hs]. intros x Hx. cbv beta in Hx.
  destruct (mem_byte x l2) eqn:E; [|reflexivity]. rewrite (Hsub x E) in Hx. discriminate.
Qed.

Lemma mem_byte_in c l : In c l -> mem_byte c l = true.
Proof. intros H. unfold mem_byte. apply existsb_exists. exists c. split; [exact H | apply N.eqb_refl]. Qed.

Lemma location_ok_model q :
  q_host q <> [] -> Forall (fun c => c < 256) (q_host q) -> Forall (fun c => c < 256) (q_path q) ->
  location_ok q (location_of q) = true.
Proof.
  intros Hne Hh Hp. destruct (redirect_location q Hne Hh Hp) as [Hs [S [P [Q [EL [UH [DH [UP [DP [HS HQ]]]]]]]]]].
  unfold location_ok. rewrite EL, strip_prefix_app.
  assert (SPQ : S ++ P ++ Q = [] \/ exists c b', S ++ P ++ Q = c :: b' /\ mem_byte c [47; 63; 35] = true).
  { destruct HS as [[-> [->|[P' ->]]]| ->].
    - cbn [app]. rewrite HQ. destruct (is_nil (q_rawquery q)); [left; reflexivity|].
      right. eexists _, _. split; reflexivity.
    - right. eexists _, _. split; reflexivity.
    - right. eexists _, _. split; reflexivity. }
  rewrite (span_until_app [47; 63; 35] Hs (S ++ P ++ Q)); [| |exact SPQ].
  2: { eapply delims_weaken; [|exact DH]. intros x Hx. apply mem_byte_cases in Hx. apply mem_byte_in.
       cbn in Hx |- *. intuition. }
  assert (DSP : Forall (fun x => mem_byte x [63; 35] = false) (S ++ P)).
  { apply Forall_app. split; [|exact DP]. destruct HS as [[-> _]| ->]; repeat constructor. }
  assert (QQ : Q = [] \/ exists c b', Q = c :: b' /\ mem_byte c [63; 35] = true).
  { rewrite HQ. destruct (is_nil (q_rawquery q)); [left; reflexivity | right; eexists _, _; split; reflexivity]. }
  rewrite app_assoc, (span_until_app [63; 35] (S ++ P) Q DSP QQ).
  rewrite UH. cbn [option_eqb]. rewrite str_eqb_refl. cbn [andb].
  assert (NA : existsb (fun c => mem_byte c [64; 92]) Hs = false).
  { destruct (existsb _ Hs) eqn:E; [|reflexivity]. apply existsb_exists in E as [x [Hx Hm]].
    rewrite Forall_forall in DH. specialize (DH x Hx). apply mem_byte_cases in Hm.
    assert (mem_byte x authority_delims = true) by (apply mem_byte_in; cbn in Hm |- *; intuition). congruence. }
  rewrite NA. cbn [negb andb].
  assert (UP' : match unescape (S ++ P) with
                | Some p => str_eqb p (q_path q) || str_eqb p (47 :: q_path q)
                | None => false end = true).
  { destruct HS as [[-> _]| ->].
    - cbn [app]. rewrite UP, str_eqb_refl. reflexivity.
    - cbn [app unescape]. change (47 =? 37) with false. cbv iota. rewrite UP, str_eqb_refl. apply orb_true_r. }
  rewrite UP'. cbn [andb]. rewrite HQ. destruct (is_nil (q_rawquery q)) eqn:En; [reflexivity|].
  rewrite N.eqb_refl, str_eqb_refl. reflexivity.
Qed.

(* ---- cookie domain ---- *)
Lemma split_last_spec c s a b : split_last c s = Some (a, b) -> s = a ++ c :: b.
Proof.
  revert a b. induction s as [|x s IH]; intros a b; [discriminate|]. cbn [split_last].
  destruct (split_last c s) as [[a' b']|] eqn:E.
  - intros Hq; inversion Hq; subst. rewrite (IH a' b eq_refl). reflexivity.
  - destruct (x =? c) eqn:Ex; [|discriminate]. apply N.eqb_eq in Ex. intros Hq; inversion Hq; subst. reflexivity.
Qed.
Lemma split_first_spec c s a b : split_first c s = Some (a, b) -> s = a ++ c :: b.
Proof.
  revert a b. induction s as [|x s IH]; intros a b; [discriminate|]. cbn [split_first].
  destruct (x =? c) eqn:Ex.
  - apply N.eqb_eq in Ex. intros Hq; inversion Hq; subst. reflexivity.
  - destruct (split_first c s) as [[a' b']|] eqn:E; [|discriminate].
    intros Hq; inversion Hq; subst. rewrite (IH a' b eq_refl). reflexivity.
Qed.

(* what SplitHostPort returns sits in the host string either at the front, followed by ':',
   or in brackets followed by "]:" *)
Lemma split_host_port_shape hp h : split_host_port hp = Some h ->
  (exists port, hp = h ++ 58 :: port) \/ (exists rest, hp = 91 :: h ++ 93 :: 58 :: rest).
Proof.
  unfold split_host_port. destruct (split_last 58 hp) as [[before port]|] eqn:E; [|discriminate].
  apply split_last_spec in E. destruct hp as [|c0 rest0]; [destruct before; discriminate|].
  destruct (c0 =? 91) eqn:Eb.
  - apply N.eqb_eq in Eb. subst c0.
    destruct (split_first 93 rest0) as [[host after]|] eqn:Ef; [|discriminate].
    apply split_first_spec in Ef. destruct after as [|c1 p]; [discriminate|].
    destruct (c1 =? 58) eqn:E1.
    + apply N.eqb_eq in E1. subst c1.
      destruct (mem_byte 58 p); [discriminate|]. destruct (mem_byte 91 rest0); [discriminate|].
      destruct (mem_byte 93 (58 :: p)); [discriminate|]. intros Hq; inversion Hq; subst.
      right. exists p. reflexivity.
    + assert (Hn : match c1 with 58 => false | _ => true end = true).
      { destruct c1 as [|pp]; [reflexivity|]. do 6 (destruct pp as [pp|pp|]; try reflexivity). discriminate. }
      intros Hq. exfalso. revert Hq.
      destruct c1 as [|pp]; [discriminate|]. do 6 (destruct pp as [pp|pp|]; try discriminate).
  - intros Hq. left. exists port.
    assert (Hb : Some before = Some h).
    { revert Hq. destruct c0 as [|pp].
      - destruct (mem_byte 58 before); [discriminate|]. destruct (mem_byte 91 _); [discriminate|].
        destruct (mem_byte 93 _); [discriminate|]. auto.
      - do 7 (destruct pp as [pp|pp|];
              try (destruct (mem_byte 58 before); [discriminate|]; destruct (mem_byte 91 _); [discriminate|];
                   destruct (mem_byte 93 _); [discriminate|]; auto)).
        discriminate. }
    inversion Hb; subst. exact E.
Qed.

Lemma has_prefix_app s r : has_prefix (s ++ r) s = true.
Proof. apply has_prefix_spec. exists r. reflexivity. Qed.

Lemma skipn_app_len {A} (a b : list A) : skipn (length a) (a ++ b) = b.
Proof. induction a as [|x a IH]; [reflexivity | exact IH]. Qed.

Lemma host_names_intro host pre d t :
  In pre [[]; [46]; [91]; [91; 46]] -> host = pre ++ d ++ t -> tail_ok t = true -> host_names host d = true.
Proof.
  intros Hin -> Ht. unfold host_names. apply existsb_exists. exists pre. split; [exact Hin|].
  rewrite app_assoc, has_prefix_app, <- app_length, skipn_app_len. exact Ht.
Qed.

Lemma domain_attr_shape d d' : domain_attr d = Some d' -> d = d' \/ d = 46 :: d'.
Proof.
  unfold domain_attr. destruct d as [|c t]; [discriminate|]. destruct (valid_cookie_domain (c :: t)); [|discriminate].
  destruct (c =? 46) eqn:E; intros Hq; inversion Hq; subst; [|left; reflexivity].
  apply N.eqb_eq in E. subst. right; reflexivity.
Qed.

(* the monitor's reading of "the request host or configured domain" accepts what makeCookie +
   Cookie.String produce *)
Lemma domain_ok_model cfg host : domain_ok cfg host (domain_attr (cookie_domain cfg host)) = true.
Proof.
  unfold domain_ok, cookie_domain. destruct (c_cookie_domain cfg) as [|c0 cd] eqn:Ec.
  - destruct (domain_attr _) as [d'|] eqn:Ed.
    2: { unfold domain_attr in Ed. destruct (match split_host_port host with Some h => h | None => host end) as [|c0 t0] eqn:E0;
         [reflexivity|]. destruct (valid_cookie_domain (c0 :: t0)); [discriminate | reflexivity]. }
    apply domain_attr_shape in Ed.
    destruct (split_host_port host) as [h|] eqn:Es.
    + apply split_host_port_shape in Es as [[port ->]|[rest ->]].
      * destruct Ed as [->| ->].
        -- apply (host_names_intro _ [] d' (58 :: port)); [cbn; auto | reflexivity | reflexivity].
        -- apply (host_names_intro _ [46] d' (58 :: port)); [cbn; auto | reflexivity | reflexivity].
      * destruct Ed as [->| ->].
        -- apply (host_names_intro _ [91] d' (93 :: 58 :: rest)); [cbn; auto | reflexivity | reflexivity].
        -- apply (host_names_intro _ [91; 46] d' (93 :: 58 :: rest)); [cbn; auto | reflexivity | reflexivity].
    + destruct Ed as [->| ->].
      * apply (host_names_intro _ [] d' []); [cbn; auto | rewrite app_nil_r; reflexivity | reflexivity].
      * apply (host_names_intro _ [46] d' []); [cbn; auto | rewrite app_nil_r; reflexivity | reflexivity].
  - unfold domain_attr. destruct (valid_cookie_domain (c0 :: cd)); [|reflexivity].
    cbn [strip_dot]. destruct (c0 =? 46); apply str_eqb_refl.
Qed.

Lemma cookie_good_ok cfg host c : cookie_good cfg host (VCookie c) -> cookie_ok cfg host c = true.
Proof.
  intros [Hp [Hs [Hh [Hd [He Hn]]]]]. unfold cookie_ok.
  rewrite Hp, Hs, Hh, Hd, He, domain_ok_model. cbn [str_eqb list_eqb]. rewrite N.eqb_refl.
  unfold bool_eqb. rewrite !Bool.eqb_reflx. cbn [andb].
  destruct Hn as [->| ->]; rewrite str_eqb_refl; [reflexivity | apply orb_true_r].
Qed.

(* ---- the whole monitor ---- *)

(* whether the upstream is called, in the model: never on the https redirect *)
Definition forwarded_call (cfg : config) (q : request) (o : outcome) : bool :=
  negb (c_secure cfg && needs_redirect q) && match o with OForward _ _ _ => true | OLocal _ _ _ _ => false end.

(* the hypotheses of the theorems, as booleans over the scenario *)
Definition monitor_guard (cfg : config) (q : request) (o : outcome) : bool :=
  (negb (c_secure cfg && needs_redirect q) ||
   (bytes_ok (q_host q) && bytes_ok (q_path q) && negb (is_nil (q_host q)))) &&
  match o with
  | OLocal _ _ _ _ => true
  | OForward _ _ u =>
      (c_replace cfg || Nat.eqb (u_n1xx u) 0) &&
      (negb (c_replace cfg) ||
       forallb (fun k => mem_str k (map canon TD) || negb (line_hits k (u_trailers u))) (hsts_k :: three)) &&
      (negb (c_secure cfg) || mem_str hsts_k (map canon D) || negb (line_hits hsts_k (u_lines u)))
  end.

Lemma bytes_ok_spec s : bytes_ok s = true -> Forall (fun c => c < 256) s.
Proof. unfold bytes_ok. rewrite forallb_forall, Forall_forall. intros Hs x Hx. specialize (Hs x Hx). lia. Qed.

Lemma guard_benign cfg o k : In k (hsts_k :: three) ->
  match o with
  | OLocal _ _ _ _ => true
  | OForward _ _ u =>
      (c_replace cfg || Nat.eqb (u_n1xx u) 0) &&
      (negb (c_replace cfg) ||
       forallb (fun k => mem_str k (map canon TD) || negb (line_hits k (u_trailers u))) (hsts_k :: three)) &&
      (negb (c_secure cfg) || mem_str hsts_k (map canon D) || negb (line_hits hsts_k (u_lines u)))
  end = true -> today_benign cfg k o.
Proof.
  intros Hk Hg. destruct o as [|cs us u]; [exact I|].
  apply andb_true_iff in Hg as [Hg _]. apply andb_true_iff in Hg as [G1 G2]. split.
  - intros Hr. rewrite Hr in G1. cbn [orb] in G1. apply Nat.eqb_eq in G1. exact G1.
  - intros Hr. rewrite Hr in G2. cbn [negb orb] in G2. rewrite forallb_forall in G2. specialize (G2 k Hk).
    apply orb_true_iff in G2 as [G|G]; [left; exact G | right; apply negb_true_iff; exact G].
Qed.

Theorem monitor_accepts_model cfg q o :
  monitor_guard cfg q o = true ->
  match model cfg q o with
  | NoResponse => True
  | Resp s h => holds_proxy cfg q true s (forwarded_call cfg q o) (proj_hdr h) (hget k_set_cookie h) = true
  end.
Proof.
  intros G. unfold monitor_guard in G. apply andb_true_iff in G as [Gr Go].
  unfold model. fold T H D TD.
  pose proof (fun k Hk => three_headers_today cfg q o k Hk (guard_benign cfg o k (or_intror Hk) Go)) as P3.
  pose proof (cookie_flags T H D TD cfg q o) as PC.
  assert (PH : c_secure cfg = true ->
               match proxy_handle T H D TD cfg q o with NoResponse => True | Resp _ h => hget hsts_k h = [VStr (snd H)] end).
  { intros Hs. apply hsts_today_partial; [exact Hs|]. destruct o as [|cs us u]; [exact I|].
    pose proof (guard_benign cfg (OForward cs us u) hsts_k (or_introl eq_refl) Go) as [B1 B2].
    apply andb_true_iff in Go as [_ G3]. rewrite Hs in G3. cbn [negb orb] in G3.
    split; [|split; assumption]. apply orb_true_iff in G3 as [G|G]; [left; exact G | right; apply negb_true_iff; exact G]. }
  assert (PR : (c_secure cfg && needs_redirect q) = true ->
               exists h, proxy_handle T H D TD cfg q o = Resp 301 h /\ hget k_location h = [VStr (location_of q)]).
  { intros Hr. apply andb_true_iff in Hr as [Hs Hn]. destruct (https_redirect_gen cfg q Hs Hn o) as [h [E1 [_ [E2 _]]]]. eauto. }
  destruct (proxy_handle T H D TD cfg q o) as [s h|] eqn:Em; [|exact I].
  unfold holds_proxy. cbn [negb orb]. apply andb_true_iff. split; [apply andb_true_iff; split; [apply andb_true_iff; split|]|].
  - (* three *)
    unfold three_ok. apply forallb_forall. intros k Hk. unfold one_protected. rewrite hget_proj.
    destruct (P3 k Hk) as [tv [Ht [Hn Ho]]]. fold T. rewrite Ht.
    destruct (tbl_lookup k (c_overrides cfg)) as [ov|] eqn:Eo.
    + destruct (Ho ov eq_refl) as [E|[_ [Ek [E Es]]]]; rewrite E; cbn [map hval_str option_eqb].
      * rewrite str_eqb_refl. reflexivity.
      * subst k s. rewrite !str_eqb_refl. cbn [N.eqb Pos.eqb andb]. apply orb_true_r.
    + rewrite (Hn eq_refl). cbn [map hval_str option_eqb]. rewrite str_eqb_refl, (three_protective k tv Hk Ht). reflexivity.
  - (* hsts *)
    unfold hsts_ok. destruct (c_secure cfg) eqn:Es; [|reflexivity]. cbn [negb orb].
    rewrite hget_proj. change hsts_key with hsts_k. rewrite (PH eq_refl). cbn [map hval_str].
    fold H. rewrite str_eqb_refl, hsts_protective. reflexivity.
  - (* redirect *)
    unfold redirect_ok, forwarded_call. destruct (c_secure cfg && needs_redirect q) eqn:Er; [|reflexivity].
    cbn [negb orb andb]. cbn [negb orb] in Gr. rewrite Gr. cbn [negb orb].
    destruct (PR eq_refl) as [h' [E1 E2]]. inversion E1; subst s h'. rewrite N.eqb_refl, hget_proj, E2.
    cbn [map hval_str andb]. apply andb_true_iff in Gr as [Gr Gn]. apply andb_true_iff in Gr as [Gh Gp].
    apply location_ok_model; [|apply bytes_ok_spec, Gh | apply bytes_ok_spec, Gp].
    intros E. rewrite E in Gn. discriminate.
  - (* cookies *)
    unfold cookies_ok. apply forallb_forall. intros v Hv.
    pose proof (hall_hget (cookie_good cfg (q_host q)) k_set_cookie h PC) as F.
    rewrite Forall_forall in F. specialize (F v Hv). destruct v as [x|c]; [reflexivity|].
    apply cookie_good_ok. exact F.
Qed.

(* ---- sso-auth ---- *)
Lemma holds_auth_intro (h : hdr hval) :
  (forall k v, tbl_lookup k AT = Some v -> hget k h = [VStr v]) -> holds_auth (proj_hdr h) = true.
Proof.
  intros Hh. pose proof auth_table_protective_true as P. unfold auth_table_protective in P.
  apply andb_true_iff in P as [P _]. apply andb_true_iff in P as [P1 P2].
  unfold holds_auth. apply andb_true_iff. split; apply forallb_forall.
  - intros kv Hin. rewrite forallb_forall in P1. specialize (P1 kv Hin). fold AT in *.
    destruct (tbl_lookup (canon (fst kv)) AT) as [v|] eqn:E; [|discriminate]. cbn [option_eqb] in P1.
    apply str_eqb_eq in P1. subst v. rewrite hget_proj, (Hh _ _ E). cbn [map hval_str list_eqb].
    rewrite str_eqb_refl. reflexivity.
  - intros k Hin. rewrite forallb_forall in P2. specialize (P2 k Hin). fold AT in *.
    destruct (tbl_lookup k AT) as [v|] eqn:E; [|discriminate]. rewrite hget_proj, (Hh _ _ E). exact P2.
Qed.

Theorem auth_monitor_accepts_model fired ops :
  forallb aop_ok ops = true ->
  holds_auth (proj_hdr (auth_handle AT ops)) = true /\ holds_auth (proj_hdr (auth_process AT fired ops)) = true.
Proof.
  intros Hops. split; apply holds_auth_intro; intros k v Hk.
  - apply auth_headers_gen; assumption.
  - apply auth_process_headers; assumption.
Qed.
