(* Corr_C07_proofs.v — the monitor of Corr_C07 accepts the model's own predictions: the boolean
   specifications applied to implementation observations follow from the theorems about the
   model (so a falsified monitor on an observation the model predicts would contradict them). *)
From V Require Import Base Base_proofs CorrBase Url Url_proofs AuthGates AuthGates_proofs Corr_C07.
From Coq Require Import ZifyN ZifyBool.

Lemma in_domain_b_true h cfg : in_domain h cfg -> in_domain_b h cfg = true.
Proof.
  intros [c [Hc Hd]]. unfold in_domain_b. apply existsb_exists. exists c. split; [exact Hc|].
  cbv zeta. apply orb_true_iff. destruct Hd as [->|[p ->]].
  - left. apply str_eqb_refl.
  - right. apply has_suffix_spec. exists p. reflexivity.
Qed.

Lemma in_domain_b_sound h cfg : in_domain_b h cfg = true -> in_domain h cfg.
Proof.
  unfold in_domain_b. rewrite existsb_exists. intros [c [Hc H]]. exists c. split; [exact Hc|].
  cbv zeta in H. apply orb_true_iff in H as [H|H].
  - left. apply str_eqb_eq. exact H.
  - right. apply has_suffix_spec in H. exact H.
Qed.

(* validRedirectURI accepted  ==>  the monitor's clause "every RFC reading is in-domain" *)
Theorem redir_monitor_ok uri cfgd :
  valid_redirect_uri uri (norm_domains cfgd) = true -> rfc_in_domain uri cfgd = true.
Proof.
  intros H. unfold rfc_in_domain. destruct (rfc_read uri) as [p|] eqn:E; [|reflexivity].
  apply in_domain_b_true. apply rfc_read_sound in E.
  exact (host_in_domain uri cfgd _ _ _ _ _ H E).
Qed.

(* the monitor's decimal reader agrees with the model of strconv.ParseInt wherever that succeeds *)
Lemma pow10_eq n : pow10 n = (10 ^ Z.of_nat n)%Z.
Proof.
  induction n as [|n IH]; [reflexivity|]. cbn [pow10]. rewrite IH, Nat2Z.inj_succ, Z.pow_succ_r by lia. reflexivity.
Qed.

Lemma read_digits_val s : forallb is_digit s = true -> read_digits s = Some (digits_val s).
Proof.
  induction s as [|c s IH]; intros H; [reflexivity|]. cbn [forallb] in H. apply andb_true_iff in H as [Hc Hs].
  cbn [read_digits]. rewrite Hc, (IH Hs), digits_val_cons, pow10_eq. reflexivity.
Qed.

Lemma parse_int_body_read neg digs t : parse_int_body neg digs = Some t ->
  digs <> [] /\ read_digits digs = Some (if neg then (- t)%Z else t).
Proof.
  unfold parse_int_body. destruct (is_nil digs || negb (forallb is_digit digs)) eqn:E; [intros G; discriminate G|].
  apply orb_false_iff in E as [E1 E2]. apply negb_false_iff in E2. cbv zeta.
  rewrite (read_digits_val digs E2). split; [destruct digs; [discriminate E1 | discriminate]|].
  destruct neg.
  - destruct (digits_val digs <=? two63)%Z; [|discriminate]. inversion H. f_equal. lia.
  - destruct (digits_val digs <? two63)%Z; [|discriminate]. inversion H. reflexivity.
Qed.

Lemma read_int_parse_int s t : parse_int s = Some t -> read_int s = Some t.
Proof.
  rewrite parse_int_unfold. destruct s as [|c r]; [intros G; discriminate G|]. unfold read_int.
  destruct (N.eqb_spec c 43) as [->|H43].
  - intros H. apply parse_int_body_read in H as [Hne Hr]. simpl.
    destruct r; [congruence|]. exact Hr.
  - destruct (N.eqb_spec c 45) as [->|H45].
    + intros H. apply parse_int_body_read in H as [Hne Hr].
      destruct r; [congruence|]. cbn [is_nil]. rewrite Hr. simpl. f_equal. lia.
    + intros H. apply parse_int_body_read in H as [_ Hr]. exact Hr.
Qed.

(* validSignature accepted  ==>  the monitor's clause "signed with the secret and fresh" *)
Theorem sig_monitor_ok now uri sg ts secret :
  valid_signature now uri sg ts secret = true -> sig_spec now uri sg ts secret = true.
Proof.
  intros H. destruct (valid_signature_sound _ _ _ _ _ H) as [_ [_ [Hs [_ [t [Ht [-> Ha]]]]]]].
  unfold sig_spec. rewrite (read_int_parse_int ts t Ht), !str_eqb_refl.
  destruct secret; [congruence|]. simpl. apply Z.leb_le. exact Ha.
Qed.

(* the served request: whenever the model answers with a redirect, the monitor's clauses about
   the source URI (in-domain under every RFC reading; signed and fresh where required) hold *)
Theorem serve_monitor_redirect c now ep q src hw :
  serve c now ep q = ORedirect src hw ->
  rfc_in_domain src (c_domains c) = true /\
  (hw = WithCode -> ep = EpSignIn) /\
  ((ep = EpSignIn \/ ep = EpSignOut) ->
     src = q_uri q /\ sig_spec now (q_uri q) (q_sig q) (q_ts q) (c_secret c) = true) /\
  (ep = EpCallback -> exists n, q_cb_state q = StPair n src) /\
  ep <> EpStart.
Proof.
  intros H. split; [apply redir_monitor_ok; exact (redirect_validated _ _ _ _ _ _ H)|].
  split; [intros ->; exact (proj1 (code_gated _ _ _ _ _ H))|].
  split; [|split].
  - intros [->| ->].
    + destruct hw.
      * exfalso. unfold serve, gate_methods, gate_client_id, gate_redirect_uri, gate_signature,
          sign_in_handler, proxy_oauth_redirect in H. repeat gate_step H; inversion H.
      * destruct (code_gated _ _ _ _ _ H) as [_ [-> [_ [_ [_ Hs]]]]]. split; [reflexivity | apply sig_monitor_ok; exact Hs].
    + destruct (sign_out_gated _ _ _ _ _ H) as [-> [_ [_ Hs]]]. split; [reflexivity | apply sig_monitor_ok; exact Hs].
  - intros ->. destruct (callback_gated _ _ _ _ _ H) as [_ [[n [Hn _]] _]]. exists n. exact Hn.
  - intros ->. unfold serve, gate_methods, oauth_start in H. repeat gate_step H; inversion H.
Qed.

Theorem serve_monitor_idp c now ep q a :
  serve c now ep q = OIdP a ->
  rfc_in_domain a (c_domains c) = true /\
  exists b, q_nested q = Some b /\ rfc_in_domain b (c_domains c) = true /\
            sig_spec now b (q_sig q) (q_ts q) (c_secret c) = true.
Proof.
  intros H. destruct (idp_start_gated _ _ _ _ _ H) as [_ [_ [Ha [b [Hb [Hvb Hs]]]]]].
  split; [apply redir_monitor_ok; exact Ha|]. exists b. split; [exact Hb|].
  split; [apply redir_monitor_ok; exact Hvb | apply sig_monitor_ok; exact Hs].
Qed.

(* ---- the monitor on wire requests accepts the model's own predictions ---- *)
Lemma existsb_in {A} (f : A -> bool) (l : list A) x : In x l -> f x = true -> existsb f l = true.
Proof. intros Hin Hf. apply existsb_exists. exists x. auto. Qed.

Lemma signed_among_ok c now w u s t :
  In s (presented w k_sig) -> In t (presented w k_ts) ->
  valid_signature now u (sig_lookup (w_sigtab w) s) t (c_secret c) = true ->
  signed_among c now w u = true.
Proof.
  intros Hs Ht Hv. unfold signed_among. apply (existsb_in _ _ s Hs). apply (existsb_in _ _ t Ht).
  apply sig_monitor_ok. exact Hv.
Qed.

(* verbatim redirect of an all-ASCII URI (Location = the URI) at /sign_out *)
Theorem serve_holds_wire_sign_out c now w src hw :
  serve_wire c now EpSignOut w = ORedirect src hw -> forallb (fun b => b <? 128) src = true ->
  serve_holds c now EpSignOut w 302 (Some (hex_escape_non_ascii src)) None = true.
Proof.
  intros H Hascii.
  destruct (wire_redirect_reads_form _ _ _ _ _ _ H (or_intror eq_refl)) as [_ [Hv _]].
  destruct (wire_redirect_presented _ _ _ _ _ _ H (or_intror eq_refl)) as [Hin [s [t [Hs [Ht Hsig]]]]].
  pose proof (redir_monitor_ok _ _ Hv) as Hd.
  unfold serve_holds. change (is_3xx 302) with true. cbn [negb].
  rewrite (hex_escape_ascii src Hascii), Hd. cbn [andb].
  apply (existsb_in _ _ src Hin).
  rewrite (hex_escape_ascii src Hascii), str_eqb_refl, Hd, (signed_among_ok c now w src s t Hs Ht Hsig). reflexivity.
Qed.

(* ... and at /callback *)
Theorem serve_holds_wire_callback c now w src hw :
  serve_wire c now EpCallback w = ORedirect src hw -> forallb (fun b => b <? 128) src = true ->
  serve_holds c now EpCallback w 302 (Some (hex_escape_non_ascii src)) None = true.
Proof.
  intros H Hascii. destruct (wire_callback_presented _ _ _ _ _ H) as [_ [Hv [st [n [Hin Hst]]]]].
  pose proof (redir_monitor_ok _ _ Hv) as Hd.
  unfold serve_holds. change (is_3xx 302) with true. cbn [negb].
  rewrite (hex_escape_ascii src Hascii), Hd. cbn [andb].
  apply (existsb_in _ _ st Hin). rewrite Hst, (hex_escape_ascii src Hascii), str_eqb_refl, Hd. reflexivity.
Qed.

(* a login started at the provider *)
Theorem serve_holds_wire_idp c now ep w a loc :
  serve_wire c now ep w = OIdP a -> serve_holds c now ep w 302 loc (Some a) = true.
Proof.
  intros H. destruct (wire_idp_presented _ _ _ _ _ H) as [-> [x [Hin Hx]]]. cbv zeta in Hx.
  destruct Hx as [Ho [Hv [b [Hb [Hvb Hs]]]]].
  unfold serve_holds. change (is_3xx 302) with true. cbn [negb andb].
  apply (existsb_in _ _ x Hin). cbv zeta. rewrite Ho, Hb. cbn [opt_str_eqb0].
  rewrite str_eqb_refl, (redir_monitor_ok _ _ Hv), (redir_monitor_ok _ _ Hvb), (sig_monitor_ok _ _ _ _ _ Hs). reflexivity.
Qed.

(* the code redirect: the clauses about the presented URI hold (the Location text itself is
   covered by AuthGates_proofs.code_location_in_domain and compared by the driver) *)
Theorem serve_wire_code_clauses c now ep w src :
  serve_wire c now ep w = ORedirect src WithCode ->
  ep = EpSignIn /\ In src (presented w k_redirect_uri) /\
  rfc_in_domain src (c_domains c) = true /\ signed_among c now w src = true.
Proof.
  intros H. assert (Hep : ep = EpSignIn) by (exact (proj1 (code_gated _ _ _ _ _ H))). subst ep.
  destruct (wire_redirect_reads_form _ _ _ _ _ _ H (or_introl eq_refl)) as [_ [Hv _]].
  destruct (wire_redirect_presented _ _ _ _ _ _ H (or_introl eq_refl)) as [Hin [s [t [Hs [Ht Hsig]]]]].
  split; [reflexivity|]. split; [exact Hin|]. split; [exact (redir_monitor_ok _ _ Hv)|].
  exact (signed_among_ok c now w src s t Hs Ht Hsig).
Qed.

(* a non-redirect answer is always accepted by the monitor *)
Theorem serve_holds_model_other c now ep w s loc car :
  is_3xx s = false -> serve_holds c now ep w s loc car = true.
Proof. intros H. unfold serve_holds. rewrite H. reflexivity. Qed.

(* the outermost handler: outside the authenticator's routes the model never answers 3xx, so the
   monitor accepts its prediction; on a route the monitor is the route's monitor *)
Theorem outer_holds_model_unrouted c sh rh p now w :
  outer_routed sh rh p = None ->
  outer_holds c sh rh p now w (status_of (outer_serve c sh rh p now w)) None = true.
Proof.
  intros H. unfold outer_holds. unfold outer_routed in H. unfold outer_serve.
  destruct p as [| |ep]; try (destruct (str_eqb rh sh); reflexivity); try reflexivity.
  destruct (str_eqb rh sh); [discriminate H | reflexivity].
Qed.

Theorem outer_holds_routed c sh rh p now w ep s loc :
  outer_routed sh rh p = Some ep ->
  outer_holds c sh rh p now w s loc = true <-> serve_holds c now ep w s loc None = true.
Proof.
  intros H. unfold outer_holds. rewrite H. unfold serve_holds. destruct (negb (is_3xx s)); tauto.
Qed.
