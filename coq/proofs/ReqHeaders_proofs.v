(* ReqHeaders_proofs.v — lemmas about the C03 model (coq/theories/ReqHeaders.v). *)
From Coq Require Import ZifyN ZifyBool.
From V Require Import Base Base_proofs ReqHeaders.

(* ------------------------------------------------------------------------------------------ *)
(* bytes *)

Ltac b2p :=
  repeat match goal with
         | H : _ && _ = true |- _ => apply andb_true_iff in H; destruct H
         | H : _ || _ = true |- _ => apply orb_true_iff in H; destruct H
         | H : negb _ = true |- _ => apply negb_true_iff in H
         | H : N.eqb _ _ = true |- _ => apply N.eqb_eq in H
         | H : N.eqb _ _ = false |- _ => apply N.eqb_neq in H
         | H : N.leb _ _ = true |- _ => apply N.leb_le in H
         | H : N.ltb _ _ = true |- _ => apply N.ltb_lt in H
         | H : false = true |- _ => discriminate H
         end.

Lemma token_byte_facts c : is_token_byte c = true ->
  is_space c = false /\ c <> 61 /\ c <> 59 /\ c <> 34 /\ c <> 44.
Proof.
  unfold is_token_byte, token_punct. cbn [existsb]. intros H.
  assert (Hs: is_space c = true -> False).
  { unfold is_space. intros Hs. b2p; subst; lia. }
  repeat split; [destruct (is_space c); [exfalso; auto | reflexivity] | | | |]; intros ->; b2p; lia.
Qed.

Lemma value_byte_facts c : valid_value_byte c = true ->
  c <> 59 /\ c <> 34 /\ (is_space c = true -> c = 32).
Proof.
  unfold valid_value_byte. intros H. b2p. repeat split; try assumption.
  unfold is_space. intros Hs. b2p; subst; try reflexivity; lia.
Qed.

(* ------------------------------------------------------------------------------------------ *)
(* trim, cut, split_on, join *)

Definition head_ok (s : str) : bool := match s with [] => true | c :: _ => negb (is_space c) end.

Lemma trim_left_id s : head_ok s = true -> trim_left s = s.
Proof. destruct s as [|c s]; [reflexivity|]. simpl. intros H. apply negb_true_iff in H. rewrite H. reflexivity. Qed.

Lemma trim_id s : head_ok s = true -> head_ok (rev s) = true -> trim s = s.
Proof. intros H1 H2. unfold trim. rewrite (trim_left_id s H1), (trim_left_id _ H2). apply rev_involutive. Qed.

Lemma head_ok_app a b : a <> [] -> head_ok (a ++ b) = head_ok a.
Proof. destruct a; [congruence | reflexivity]. Qed.

(* no white space at either end, and not empty *)
Definition clean (s : str) : Prop := s <> [] /\ head_ok s = true /\ head_ok (rev s) = true.

Lemma clean_trim s : clean s -> trim s = s.
Proof. intros [_ [H1 H2]]. apply trim_id; assumption. Qed.

Lemma clean_app_sep a b sep : clean a -> clean b -> clean (a ++ sep :: b).
Proof.
  intros [Ha [Ha1 Ha2]] [Hb [Hb1 Hb2]]. split; [|split].
  - destruct a; discriminate.
  - rewrite head_ok_app by assumption. assumption.
  - rewrite rev_app_distr. cbn [rev]. rewrite <- app_assoc. rewrite head_ok_app; [assumption|].
    intros E. apply (f_equal (@rev N)) in E. rewrite rev_involutive in E. simpl in E. congruence.
Qed.

Lemma join_clean sep l : l <> [] -> Forall clean l -> clean (join [sep] l).
Proof.
  induction l as [|x l IH]; [congruence|]. intros _ HF. inversion HF as [|? ? Hx Hl]; subst.
  destruct l as [|y l]; [exact Hx|].
  change (join [sep] (x :: y :: l)) with (x ++ [sep] ++ join [sep] (y :: l)).
  cbn [app]. apply clean_app_sep; [exact Hx | apply IH; [discriminate | exact Hl]].
Qed.

Lemma cut_app sep a b : ~ In sep a -> cut sep (a ++ sep :: b) = (a, b).
Proof.
  induction a as [|c a IH]; intros H; cbn [app cut].
  - rewrite N.eqb_refl. reflexivity.
  - destruct (N.eqb c sep) eqn:E; [apply N.eqb_eq in E; subst; exfalso; apply H; left; reflexivity|].
    rewrite IH; [reflexivity | intros Hin; apply H; right; exact Hin].
Qed.

Lemma split_on_nosep sep x : ~ In sep x -> split_on sep x = [x].
Proof.
  induction x as [|c x IH]; intros H; [reflexivity|]. cbn [split_on].
  destruct (N.eqb c sep) eqn:E; [apply N.eqb_eq in E; subst; exfalso; apply H; left; reflexivity|].
  rewrite IH; [reflexivity | intros Hin; apply H; right; exact Hin].
Qed.

Lemma split_on_app_sep sep x r : ~ In sep x -> split_on sep (x ++ sep :: r) = x :: split_on sep r.
Proof.
  induction x as [|c x IH]; intros H; cbn [app split_on].
  - rewrite N.eqb_refl. reflexivity.
  - destruct (N.eqb c sep) eqn:E; [apply N.eqb_eq in E; subst; exfalso; apply H; left; reflexivity|].
    rewrite IH; [reflexivity | intros Hin; apply H; right; exact Hin].
Qed.

Lemma split_on_join sep l : l <> [] -> Forall (fun x => ~ In sep x) l -> split_on sep (join [sep] l) = l.
Proof.
  induction l as [|x l IH]; [congruence|]. intros _ HF. inversion HF as [|? ? Hx Hl]; subst.
  destruct l as [|y l]; [apply split_on_nosep; exact Hx|].
  change (join [sep] (x :: y :: l)) with (x ++ [sep] ++ join [sep] (y :: l)). cbn [app].
  rewrite split_on_app_sep by exact Hx. rewrite IH; [reflexivity | discriminate | exact Hl].
Qed.

(* ------------------------------------------------------------------------------------------ *)
(* header maps *)

Lemma h_get_app k a b : h_get k (a ++ b) = h_get k a ++ h_get k b.
Proof. unfold h_get. rewrite filter_app, map_app. reflexivity. Qed.

Lemma h_get_del_same k h : h_get k (h_del k h) = [].
Proof.
  unfold h_get, h_del. induction h as [|e h IH]; [reflexivity|]. cbn [filter].
  destruct (str_eqb (fst e) k) eqn:E; cbn [negb]; [exact IH|]. cbn [filter]. rewrite E. exact IH.
Qed.

Lemma h_get_del_other k k' h : k <> k' -> h_get k (h_del k' h) = h_get k h.
Proof.
  intros Hne. unfold h_get, h_del. induction h as [|e h IH]; [reflexivity|]. cbn [filter].
  destruct (str_eqb (fst e) k') eqn:E'; cbn [negb].
  - apply str_eqb_eq in E'. assert (str_eqb (fst e) k = false) as -> by (apply str_eqb_neq; congruence). exact IH.
  - cbn [filter]. destruct (str_eqb (fst e) k); cbn [map]; [f_equal|]; exact IH.
Qed.

Lemma h_get_del k k' h : h_get k (h_del k' h) = if str_eqb k k' then [] else h_get k h.
Proof.
  destruct (str_eqb k k') eqn:E.
  - apply str_eqb_eq in E. subst. apply h_get_del_same.
  - apply str_eqb_neq in E. apply h_get_del_other; exact E.
Qed.

Lemma h_get_set_same k v h : h_get k (h_set k v h) = [v].
Proof.
  unfold h_set. rewrite h_get_app, h_get_del_same. unfold h_get. cbn [filter fst]. rewrite str_eqb_refl. reflexivity.
Qed.

Lemma h_get_set_other k k' v h : k <> k' -> h_get k (h_set k' v h) = h_get k h.
Proof.
  intros Hne. unfold h_set. rewrite h_get_app, h_get_del_other by exact Hne.
  unfold h_get at 2. cbn [filter fst]. assert (str_eqb k' k = false) as -> by (apply str_eqb_neq; congruence).
  apply app_nil_r.
Qed.

Lemma h_get_set k k' v h : h_get k (h_set k' v h) = if str_eqb k k' then [v] else h_get k h.
Proof.
  destruct (str_eqb k k') eqn:E.
  - apply str_eqb_eq in E. subst. apply h_get_set_same.
  - apply str_eqb_neq in E. apply h_get_set_other; exact E.
Qed.

Lemma h_get_fold_del k ks h :
  h_get k (fold_left (fun h k' => h_del k' h) ks h) = if mem_str k ks then [] else h_get k h.
Proof.
  revert h. induction ks as [|k' ks IH]; intros h; [reflexivity|]. cbn [fold_left mem_str].
  rewrite IH, h_get_del. destruct (str_eqb k k'), (mem_str k ks); reflexivity.
Qed.

Lemma h_get_fold_hdr_del k ks h :
  h_get k (fold_left (fun h sf => hdr_del sf h) ks h) = if mem_str k (map canon_key ks) then [] else h_get k h.
Proof.
  revert h. induction ks as [|k' ks IH]; intros h; [reflexivity|]. cbn [fold_left map mem_str].
  rewrite IH. unfold hdr_del. rewrite h_get_del. destruct (str_eqb k (canon_key k')), (mem_str k (map canon_key ks)); reflexivity.
Qed.


Lemma h_get_fold_inject k inj h :
  h_get k (fold_left (fun h e => hdr_set (fst e) (snd e) h) inj h) =
  match last_injected k inj with Some v => [v] | None => h_get k h end.
Proof.
  revert h. induction inj as [|e inj IH]; intros h; [reflexivity|]. cbn [fold_left].
  rewrite IH. unfold last_injected. cbn [filter].
  destruct (str_eqb (canon_key (fst e)) k) eqn:E.
  - cbn [rev]. destruct (rev (filter (fun e0 => str_eqb (canon_key (fst e0)) k) inj)) as [|e1 r]; cbn [app].
    + unfold hdr_set. apply str_eqb_eq in E. rewrite E. apply h_get_set_same.
    + reflexivity.
  - destruct (rev (filter (fun e0 => str_eqb (canon_key (fst e0)) k) inj)) as [|e1 r]; [|reflexivity].
    unfold hdr_set. apply h_get_set_other. apply str_eqb_neq in E. congruence.
Qed.

(* ------------------------------------------------------------------------------------------ *)
(* identity headers after Proxy / Authenticate *)

Lemma keys_distinct :
  k_xfu <> k_xfe /\ k_xfu <> k_xfg /\ k_xfu <> k_xfat /\ k_xfe <> k_xfg /\ k_xfe <> k_xfat /\ k_xfg <> k_xfat /\
  k_cookie <> k_xfu /\ k_cookie <> k_xfe /\ k_cookie <> k_xfg /\ k_cookie <> k_xfat.
Proof. repeat split; discriminate. Qed.

Lemma auth_user cfg s h : h_get k_xfu (authenticate_headers cfg s h) = want_user s.
Proof.
  unfold authenticate_headers, want_user.
  rewrite h_get_set_other by discriminate. rewrite h_get_set_other by discriminate.
  destruct (pass_access_token cfg && negb (is_nil (s_token s))).
  - rewrite h_get_set_other by discriminate. apply h_get_set_same.
  - apply h_get_set_same.
Qed.

Lemma auth_email cfg s h : h_get k_xfe (authenticate_headers cfg s h) = want_email s.
Proof. unfold authenticate_headers, want_email. rewrite h_get_set_other by discriminate. apply h_get_set_same. Qed.

Lemma auth_groups cfg s h : h_get k_xfg (authenticate_headers cfg s h) = want_groups s.
Proof. unfold authenticate_headers, want_groups. apply h_get_set_same. Qed.

Lemma auth_token cfg s h :
  h_get k_xfat (authenticate_headers cfg s h) =
  if token_enabled cfg s then [s_token s]
  else match last_injected k_xfat (inject cfg) with Some v => [v] | None => h_get k_xfat h end.
Proof.
  unfold authenticate_headers, token_enabled.
  rewrite h_get_set_other by discriminate. rewrite h_get_set_other by discriminate.
  destruct (pass_access_token cfg && negb (is_nil (s_token s))).
  - apply h_get_set_same.
  - rewrite h_get_set_other by discriminate. apply h_get_fold_inject.
Qed.

Lemma auth_other k cfg s h : ~ In k identity_keys ->
  h_get k (authenticate_headers cfg s h) = match last_injected k (inject cfg) with Some v => [v] | None => h_get k h end.
Proof.
  intros Hk. unfold identity_keys in Hk. cbn [In] in Hk.
  assert (k <> k_xfu /\ k <> k_xfe /\ k <> k_xfg /\ k <> k_xfat) as (N1 & N2 & N3 & N4)
    by (repeat split; intros ->; apply Hk; auto 6).
  unfold authenticate_headers.
  rewrite h_get_set_other by assumption. rewrite h_get_set_other by assumption.
  destruct (pass_access_token cfg && negb (is_nil (s_token s)));
    [rewrite h_get_set_other by assumption|]; rewrite h_get_set_other by assumption; apply h_get_fold_inject.
Qed.

Lemma scrub_get k h : h_get k (scrub_identity h) = if mem_str k identity_keys then [] else h_get k h.
Proof. apply h_get_fold_del. Qed.

(* ------------------------------------------------------------------------------------------ *)
(* cookies *)

Definition valid_cookie (c : cookie) : Prop :=
  cookie_name_valid (c_name c) = true /\ forallb valid_value_byte (c_value c) = true.

Lemma strip_quotes_shape raw v q : strip_quotes raw = (v, q) ->
  (q = false /\ v = raw) \/ (q = true /\ raw = 34 :: v ++ [34]).
Proof.
  unfold strip_quotes. destruct raw as [|c r]; [intros H; inversion H; auto|].
  destruct (N.eqb c 34) eqn:E; [|intros H; inversion H; auto].
  destruct (rev r) as [|d m] eqn:Er; [intros H; inversion H; auto|].
  destruct (N.eqb d 34) eqn:Ed; [|intros H; inversion H; auto].
  intros H; inversion H; subst. right. split; [reflexivity|].
  apply N.eqb_eq in E. apply N.eqb_eq in Ed. subst.
  f_equal. rewrite <- (rev_involutive r), Er. reflexivity.
Qed.

Lemma parse_part_valid p c : parse_part p = Some c -> valid_cookie c.
Proof.
  unfold parse_part. destruct (is_nil (trim p)); [discriminate|].
  destruct (cut 61 (trim p)) as [name val].
  destruct (cookie_name_valid (trim name)) eqn:En; cbn [negb]; [|discriminate].
  unfold parse_cookie_value. destruct (strip_quotes val) as [v q].
  destruct (forallb valid_value_byte v) eqn:Ev; [|discriminate].
  intros H; inversion H; subst. split; assumption.
Qed.

Lemma read_cookie_line_valid line : Forall valid_cookie (read_cookie_line line).
Proof.
  unfold read_cookie_line. induction (split_on 59 (trim line)) as [|p ps IH]; [constructor|].
  cbn [flat_map]. apply Forall_app. split; [|exact IH].
  destruct (parse_part p) eqn:E; cbn [opt_list]; [|constructor].
  constructor; [eapply parse_part_valid; exact E | constructor].
Qed.

Lemma read_cookies_valid lines : Forall valid_cookie (read_cookies lines).
Proof.
  unfold read_cookies. induction lines as [|l ls IH]; [constructor|].
  cbn [flat_map]. apply Forall_app. split; [apply read_cookie_line_valid | exact IH].
Qed.

(* what Cookie.String writes for a cookie the parser produced *)
Definition needs_quotes (c : cookie) : bool :=
  existsb (fun b => N.eqb b 32 || N.eqb b 44) (c_value c) || c_quoted c.

Definition rendered_value (c : cookie) : str :=
  if is_nil (c_value c) then [] else if needs_quotes c then 34 :: c_value c ++ [34] else c_value c.

Lemma filter_all {A} (f : A -> bool) l : forallb f l = true -> filter f l = l.
Proof.
  induction l as [|x l IH]; [reflexivity|]. cbn [forallb filter]. intros H.
  apply andb_true_iff in H as [H1 H2]. rewrite H1, IH by exact H2. reflexivity.
Qed.

Lemma cookie_string_form c : valid_cookie c -> cookie_string c = c_name c ++ 61 :: rendered_value c.
Proof.
  intros [Hn Hv]. unfold cookie_string, sanitize_cookie_value, rendered_value, needs_quotes.
  rewrite Hn, (filter_all _ _ Hv). reflexivity.
Qed.

Lemma forallb_In {A} (f : A -> bool) l x : forallb f l = true -> In x l -> f x = true.
Proof. intros H Hin. rewrite forallb_forall in H. apply H; exact Hin. Qed.

Lemma name_facts n : cookie_name_valid n = true ->
  n <> [] /\ head_ok n = true /\ head_ok (rev n) = true /\ ~ In 61 n /\ ~ In 59 n.
Proof.
  unfold cookie_name_valid. intros H. apply andb_true_iff in H as [H1 H2].
  assert (Hne: n <> []) by (destruct n; [discriminate | discriminate]).
  assert (Hall: forall c, In c n -> is_space c = false /\ c <> 61 /\ c <> 59).
  { intros c Hc. pose proof (token_byte_facts c (forallb_In _ _ _ H2 Hc)) as F. tauto. }
  split; [exact Hne|]. split; [|split; [|split]].
  - destruct n as [|c n]; [congruence|]. cbn. destruct (Hall c (or_introl eq_refl)) as [-> _]. reflexivity.
  - destruct (rev n) as [|c m] eqn:Er.
    + reflexivity.
    + cbn. assert (Hc: In c n) by (apply in_rev; rewrite Er; left; reflexivity).
      destruct (Hall c Hc) as [-> _]. reflexivity.
  - intros Hin. apply Hall in Hin. tauto.
  - intros Hin. apply Hall in Hin. tauto.
Qed.

Lemma existsb_false_In {A} (f : A -> bool) l x : existsb f l = false -> In x l -> f x = false.
Proof.
  intros H Hin. destruct (f x) eqn:E; [|reflexivity].
  assert (existsb f l = true) by (apply existsb_exists; exists x; split; assumption). congruence.
Qed.

Lemma rendered_facts c : valid_cookie c ->
  head_ok (rev (rendered_value c)) = true /\ ~ In 59 (rendered_value c) /\
  parse_cookie_value (rendered_value c) = Some (c_value c, negb (is_nil (c_value c)) && needs_quotes c).
Proof.
  intros [_ Hv]. unfold rendered_value.
  destruct (c_value c) as [|b v] eqn:Ev; cbn [is_nil negb andb].
  - split; [reflexivity|]. split; [intros []|]. reflexivity.
  - rewrite <- Ev in *. assert (Hne: c_value c <> []) by (rewrite Ev; discriminate).
    assert (Hno59: ~ In 59 (c_value c)).
    { intros Hin. pose proof (value_byte_facts _ (forallb_In _ _ _ Hv Hin)) as F. tauto. }
    destruct (needs_quotes c) eqn:Eq.
    + split; [|split].
      * cbn [rev]. rewrite rev_app_distr. reflexivity.
      * intros [E|Hin]; [discriminate|]. apply in_app_or in Hin as [Hin|[E|[]]]; [tauto | discriminate].
      * unfold parse_cookie_value, strip_quotes. rewrite N.eqb_refl, rev_app_distr. cbn [rev app].
        rewrite N.eqb_refl, rev_involutive, Hv. reflexivity.
    + unfold needs_quotes in Eq. apply orb_false_iff in Eq as [Eq1 Eq2].
      assert (Hnsp: forall x, In x (c_value c) -> is_space x = false).
      { intros x Hx. destruct (is_space x) eqn:Es; [|reflexivity].
        pose proof (value_byte_facts _ (forallb_In _ _ _ Hv Hx)) as [_ [_ F]]. specialize (F Es). subst x.
        pose proof (existsb_false_In _ _ _ Eq1 Hx) as G. discriminate G. }
      split; [|split].
      * destruct (rev (c_value c)) as [|x m] eqn:Er; [reflexivity|]. cbn.
        rewrite (Hnsp x); [reflexivity|]. apply in_rev. rewrite Er. left; reflexivity.
      * exact Hno59.
      * unfold parse_cookie_value.
        assert (Hs: strip_quotes (c_value c) = (c_value c, false)).
        { destruct (strip_quotes (c_value c)) as [v' q'] eqn:Es.
          destruct (strip_quotes_shape _ _ _ Es) as [[-> ->]|[-> Hraw]]; [reflexivity|].
          exfalso. assert (Hin: In 34 (c_value c)) by (rewrite Hraw; left; reflexivity).
          pose proof (value_byte_facts _ (forallb_In _ _ _ Hv Hin)). tauto. }
        rewrite Hs, Hv. reflexivity.
Qed.

Lemma cookie_string_facts c : valid_cookie c ->
  clean (cookie_string c) /\ ~ In 59 (cookie_string c) /\
  parse_part (cookie_string c) =
    Some {| c_name := c_name c; c_value := c_value c; c_quoted := negb (is_nil (c_value c)) && needs_quotes c |}.
Proof.
  intros Hc. pose proof Hc as [Hn _]. rewrite (cookie_string_form c Hc).
  destruct (name_facts _ Hn) as [Hne [Hh [Hr [H61 H59]]]].
  destruct (rendered_facts c Hc) as [Rr [R59 Rp]].
  assert (Hclean: clean (c_name c ++ 61 :: rendered_value c)).
  { split; [destruct (c_name c); [congruence | discriminate]|]. split.
    - rewrite head_ok_app by exact Hne. exact Hh.
    - rewrite rev_app_distr. cbn [rev]. rewrite <- app_assoc.
      destruct (rev (rendered_value c)) as [|x m] eqn:Er; [reflexivity|]. cbn. cbn in Rr. exact Rr. }
  split; [exact Hclean|]. split.
  - intros Hin. apply in_app_or in Hin as [Hin|[E|Hin]]; [tauto | discriminate | tauto].
  - unfold parse_part. rewrite (clean_trim _ Hclean).
    assert (is_nil (c_name c ++ 61 :: rendered_value c) = false) as -> by (destruct (c_name c); reflexivity).
    rewrite (cut_app 61 _ _ H61).
    rewrite (trim_id _ Hh Hr), Hn. cbn [negb]. rewrite Rp. reflexivity.
Qed.

Definition normalise (c : cookie) : cookie :=
  {| c_name := c_name c; c_value := c_value c; c_quoted := negb (is_nil (c_value c)) && needs_quotes c |}.

(* writing a non-empty list of parsed cookies with Cookie.String and ";" and reading the line
   back gives the same cookies (only the quoted flag is normalised) *)
Lemma read_written cs : cs <> [] -> Forall valid_cookie cs ->
  read_cookies [join [59] (map cookie_string cs)] = map normalise cs.
Proof.
  intros Hne HF. unfold read_cookies. cbn [flat_map]. rewrite app_nil_r. unfold read_cookie_line.
  assert (Hcl: Forall clean (map cookie_string cs)).
  { apply Forall_map. eapply Forall_impl; [|exact HF]. intros c Hc. apply (cookie_string_facts c Hc). }
  assert (H59: Forall (fun x => ~ In 59 x) (map cookie_string cs)).
  { apply Forall_map. eapply Forall_impl; [|exact HF]. intros c Hc. apply (cookie_string_facts c Hc). }
  assert (Hm: map cookie_string cs <> []) by (destruct cs; [congruence | discriminate]).
  rewrite (clean_trim _ (join_clean 59 _ Hm Hcl)), (split_on_join 59 _ Hm H59).
  clear Hne Hcl H59 Hm. induction HF as [|c cs Hc HF IH]; [reflexivity|].
  cbn [map flat_map]. destruct (cookie_string_facts c Hc) as [_ [_ ->]]. cbn [opt_list app]. rewrite IH. reflexivity.
Qed.

Lemma map_nv_normalise cs : map name_value (map normalise cs) = map name_value cs.
Proof. rewrite map_map. apply map_ext. intros c. reflexivity. Qed.

Lemma Forall_filter {A} (P : A -> Prop) f l : Forall P l -> Forall P (filter f l).
Proof.
  induction 1 as [|x l Hx Hl IH]; [constructor|]. cbn [filter]. destruct (f x); [constructor; assumption | assumption].
Qed.

Definition kept (cn : str) (lines : list str) : list cookie :=
  filter (fun c => negb (str_eqb (c_name c) cn)) (read_cookies lines).

(* the Cookie header lines after deleteCookie *)
Lemma delete_cookie_lines cn h :
  h_get k_cookie (delete_cookie cn h) =
  match kept cn (h_get k_cookie h) with [] => [] | cs => [join [59] (map cookie_string cs)] end.
Proof.
  unfold delete_cookie. fold (kept cn (h_get k_cookie h)).
  destruct (kept cn (h_get k_cookie h)) as [|c cs]; cbn [map].
  - apply h_get_del_same.
  - apply h_get_set_same.
Qed.

Lemma delete_cookie_other cn k h : k <> k_cookie -> h_get k (delete_cookie cn h) = h_get k h.
Proof.
  intros Hk. unfold delete_cookie.
  destruct (map cookie_string _); [apply h_get_del_other | apply h_get_set_other]; exact Hk.
Qed.

Lemma delete_cookie_roundtrip cn h :
  map name_value (read_cookies (h_get k_cookie (delete_cookie cn h))) = map name_value (kept cn (h_get k_cookie h)).
Proof.
  rewrite delete_cookie_lines.
  assert (HF: Forall valid_cookie (kept cn (h_get k_cookie h))) by (apply Forall_filter, read_cookies_valid).
  destruct (kept cn (h_get k_cookie h)) as [|c cs] eqn:E; [reflexivity|].
  rewrite read_written by (try discriminate; exact HF). apply map_nv_normalise.
Qed.

Lemma kept_names cn lines c : In c (kept cn lines) -> c_name c <> cn.
Proof. unfold kept. intros H. apply filter_In in H as [_ H]. apply negb_true_iff, str_eqb_neq in H. exact H. Qed.

(* ------------------------------------------------------------------------------------------ *)
(* hop-by-hop removal only deletes *)

Definition hop_named (h : headers) (k : str) : bool :=
  mem_str k (map canon_key (connection_named h)) || mem_str k hop_headers.

Lemma hop_get k h : h_get k (remove_hop_by_hop h) = if hop_named h k then [] else h_get k h.
Proof.
  unfold remove_hop_by_hop, hop_named. rewrite h_get_fold_del, h_get_fold_hdr_del.
  destruct (mem_str k hop_headers), (mem_str k (map canon_key (connection_named h))); reflexivity.
Qed.

(* ------------------------------------------------------------------------------------------ *)
(* the chain *)

Lemma mk_headers_get k client :
  h_get k (mk_headers client) = map snd (filter (fun e => str_eqb (canon_key (fst e)) k) client).
Proof.
  unfold h_get, mk_headers. induction client as [|e cl IH]; [reflexivity|]. cbn [map filter fst].
  destruct (str_eqb (canon_key (fst e)) k); cbn [map snd]; [f_equal|]; exact IH.
Qed.


Lemma mk_headers_absent k client : client_sent client k = false -> h_get k (mk_headers client) = [].
Proof.
  rewrite mk_headers_get. unfold client_sent. induction client as [|e cl IH]; [reflexivity|]. cbn [existsb filter].
  intros H. apply orb_false_iff in H as [H1 H2]. rewrite H1. apply IH; exact H2.
Qed.

Lemma mem_identity_false k : ~ In k identity_keys -> mem_str k identity_keys = false.
Proof. intros H. destruct (mem_str k identity_keys) eqn:E; [apply mem_str_In in E; contradiction | reflexivity]. Qed.

Lemma mem_identity_true k : In k identity_keys -> mem_str k identity_keys = true.
Proof. apply mem_str_In. Qed.

Lemma proxy_get_other scrub cfg m h k : ~ In k identity_keys ->
  h_get k (proxy_headers scrub cfg m h) =
  match m with
  | SkipAuth => h_get k h
  | Authenticated _ => match last_injected k (inject cfg) with Some v => [v] | None => h_get k h end
  end.
Proof.
  intros Hk. unfold proxy_headers.
  assert (Hs: h_get k (if scrub then scrub_identity h else h) = h_get k h).
  { destruct scrub; [|reflexivity]. rewrite scrub_get, (mem_identity_false k Hk). reflexivity. }
  destruct m as [s|]; [|exact Hs]. rewrite (auth_other k cfg s _ Hk), Hs. reflexivity.
Qed.

Lemma proxy_get_skip scrub cfg h k : In k identity_keys ->
  h_get k (proxy_headers scrub cfg SkipAuth h) = if scrub then [] else h_get k h.
Proof.
  intros Hk. unfold proxy_headers. destruct scrub; [|reflexivity].
  rewrite scrub_get, (mem_identity_true k Hk). reflexivity.
Qed.

Lemma cookie_not_identity : ~ In k_cookie identity_keys.
Proof. cbn. intros [H|[H|[H|[H|[]]]]]; discriminate H. Qed.

Lemma connection_not_identity : ~ In k_connection identity_keys.
Proof. cbn. intros [H|[H|[H|[H|[]]]]]; discriminate H. Qed.

Lemma identity_not_cookie k : In k identity_keys -> k <> k_cookie.
Proof. cbn. intros [H|[H|[H|[H|[]]]]]; subst; discriminate. Qed.

(* --- identity headers handed to ReverseProxy on the authenticated path --- *)
Lemma trp_auth_headers scrub cfg s client :
  let h := to_reverse_proxy scrub cfg (Authenticated s) client in
  h_get k_xfu h = [s_user s] /\ h_get k_xfe h = [s_email s] /\ h_get k_xfg h = [join [44] (s_groups s)].
Proof.
  cbn zeta. unfold to_reverse_proxy. rewrite !delete_cookie_other by discriminate.
  unfold proxy_headers. rewrite auth_user, auth_email, auth_groups. repeat split.
Qed.

Lemma trp_token scrub cfg s client :
  h_get k_xfat (to_reverse_proxy scrub cfg (Authenticated s) client) =
  if token_enabled cfg s then [s_token s]
  else match last_injected k_xfat (inject cfg) with
       | Some v => [v]
       | None => if scrub then [] else h_get k_xfat (mk_headers client)
       end.
Proof.
  unfold to_reverse_proxy. rewrite delete_cookie_other by discriminate. unfold proxy_headers.
  rewrite auth_token. destruct (token_enabled cfg s); [reflexivity|].
  destruct (last_injected k_xfat (inject cfg)); [reflexivity|].
  destruct scrub; [|reflexivity]. rewrite scrub_get. reflexivity.
Qed.

Lemma trp_skip scrub cfg client k : In k identity_keys ->
  h_get k (to_reverse_proxy scrub cfg SkipAuth client) = if scrub then [] else h_get k (mk_headers client).
Proof.
  intros Hk. unfold to_reverse_proxy. rewrite delete_cookie_other by (apply identity_not_cookie; exact Hk).
  apply proxy_get_skip; exact Hk.
Qed.

(* the Connection lines ReverseProxy sees are the client's unless the operator injects one *)
Definition operator_clean (cfg : config) (k : str) : Prop := last_injected k (inject cfg) = None.

Lemma trp_connection scrub cfg m client :
  (m = SkipAuth \/ operator_clean cfg k_connection) ->
  h_get k_connection (to_reverse_proxy scrub cfg m client) = h_get k_connection (mk_headers client).
Proof.
  intros G. unfold to_reverse_proxy. rewrite delete_cookie_other by discriminate.
  rewrite (proxy_get_other scrub cfg m _ k_connection connection_not_identity).
  destruct m as [s|]; [|reflexivity]. destruct G as [G|G]; [discriminate|]. unfold operator_clean in G. rewrite G. reflexivity.
Qed.

Lemma connection_named_ext h h' : h_get k_connection h = h_get k_connection h' -> connection_named h = connection_named h'.
Proof. unfold connection_named. intros ->. reflexivity. Qed.


Lemma upstream_get scrub cfg m client k :
  (m = SkipAuth \/ operator_clean cfg k_connection) ->
  h_get k (upstream scrub cfg m client) =
  if client_conn_names client k || mem_str k hop_headers then [] else h_get k (to_reverse_proxy scrub cfg m client).
Proof.
  intros G. unfold upstream. rewrite hop_get. unfold hop_named, client_conn_names.
  rewrite (connection_named_ext _ _ (trp_connection scrub cfg m client G)). reflexivity.
Qed.

(* without any guard: hop-by-hop removal only deletes *)
Lemma upstream_get_weak scrub cfg m client k :
  h_get k (upstream scrub cfg m client) = [] \/
  h_get k (upstream scrub cfg m client) = h_get k (to_reverse_proxy scrub cfg m client).
Proof. unfold upstream. rewrite hop_get. destruct (hop_named _ k); [left | right]; reflexivity. Qed.

Lemma trp_cookie_lines scrub cfg m client :
  (m = SkipAuth \/ operator_clean cfg k_cookie) ->
  h_get k_cookie (proxy_headers scrub cfg m (mk_headers client)) = h_get k_cookie (mk_headers client).
Proof.
  intros G. rewrite (proxy_get_other scrub cfg m _ k_cookie cookie_not_identity).
  destruct m as [s|]; [|reflexivity]. destruct G as [G|G]; [discriminate|]. unfold operator_clean in G. rewrite G. reflexivity.
Qed.

Lemma map_nv_filter cn l :
  map name_value (filter (fun c => negb (str_eqb (c_name c) cn)) l) =
  filter (fun nv => negb (str_eqb (fst nv) cn)) (map name_value l).
Proof.
  induction l as [|c l IH]; [reflexivity|]. cbn [filter map]. unfold name_value at 2. cbn [fst].
  destruct (negb (str_eqb (c_name c) cn)); cbn [map]; [f_equal|]; exact IH.
Qed.


Lemma trp_cookies_kept scrub cfg m client :
  (m = SkipAuth \/ operator_clean cfg k_cookie) ->
  map name_value (read_cookies (h_get k_cookie (to_reverse_proxy scrub cfg m client))) =
  want_cookies (cookie_name cfg) client.
Proof.
  intros G. unfold to_reverse_proxy, want_cookies. rewrite delete_cookie_roundtrip. unfold kept.
  rewrite (trp_cookie_lines scrub cfg m client G). apply map_nv_filter.
Qed.

Lemma upstream_cookies_kept scrub cfg m client :
  (m = SkipAuth \/ (operator_clean cfg k_cookie /\ operator_clean cfg k_connection)) ->
  client_conn_names client k_cookie = false ->
  map name_value (read_cookies (h_get k_cookie (upstream scrub cfg m client))) = want_cookies (cookie_name cfg) client.
Proof.
  intros G Hn. rewrite upstream_get by tauto. rewrite Hn.
  assert (mem_str k_cookie hop_headers = false) as -> by reflexivity. cbn [orb].
  apply trp_cookies_kept. tauto.
Qed.

(* the Cookie header handed on has a fixed shape, whatever parser the upstream uses *)
Lemma trp_cookie_shape scrub cfg m client :
  exists cs, Forall (fun c => valid_cookie c /\ c_name c <> cookie_name cfg) cs /\
    h_get k_cookie (to_reverse_proxy scrub cfg m client) =
    match cs with [] => [] | _ => [join [59] (map (fun c => c_name c ++ 61 :: rendered_value c) cs)] end.
Proof.
  unfold to_reverse_proxy. set (h := proxy_headers scrub cfg m (mk_headers client)).
  exists (kept (cookie_name cfg) (h_get k_cookie h)).
  assert (HF: Forall valid_cookie (kept (cookie_name cfg) (h_get k_cookie h))) by (apply Forall_filter, read_cookies_valid).
  split.
  - apply Forall_forall. intros c Hc. split; [rewrite Forall_forall in HF; apply HF; exact Hc | eapply kept_names; exact Hc].
  - rewrite delete_cookie_lines. destruct (kept (cookie_name cfg) (h_get k_cookie h)) as [|c cs] eqn:E; [reflexivity|].
    f_equal. f_equal. apply map_ext_in. intros x Hx. apply cookie_string_form. rewrite Forall_forall in HF. apply HF; exact Hx.
Qed.

Lemma trp_cookie_stripped scrub cfg m client c :
  In c (read_cookies (h_get k_cookie (to_reverse_proxy scrub cfg m client))) -> c_name c <> cookie_name cfg.
Proof.
  intros Hin. unfold to_reverse_proxy in Hin.
  set (h := proxy_headers scrub cfg m (mk_headers client)) in *.
  pose proof (delete_cookie_roundtrip (cookie_name cfg) h) as R.
  assert (Hn: In (name_value c) (map name_value (kept (cookie_name cfg) (h_get k_cookie h)))).
  { rewrite <- R. apply in_map. exact Hin. }
  apply in_map_iff in Hn as [c' [Heq Hc']]. pose proof (kept_names _ _ _ Hc') as Hne.
  unfold name_value in Heq. assert (E1: c_name c' = c_name c) by congruence. congruence.
Qed.

Lemma upstream_cookie_stripped scrub cfg m client c :
  In c (read_cookies (h_get k_cookie (upstream scrub cfg m client))) -> c_name c <> cookie_name cfg.
Proof.
  destruct (upstream_get_weak scrub cfg m client k_cookie) as [E|E]; rewrite E.
  - intros [].
  - apply trp_cookie_stripped.
Qed.

(* --- identity headers at the upstream --- *)
Lemma upstream_auth_headers scrub cfg s client :
  operator_clean cfg k_connection ->
  let out := upstream scrub cfg (Authenticated s) client in
  (client_conn_names client k_xfu = false -> h_get k_xfu out = [s_user s]) /\
  (client_conn_names client k_xfe = false -> h_get k_xfe out = [s_email s]) /\
  (client_conn_names client k_xfg = false -> h_get k_xfg out = [join [44] (s_groups s)]).
Proof.
  intros G. cbn zeta. destruct (trp_auth_headers scrub cfg s client) as [Hu [He Hg]].
  repeat split; intros Hn; rewrite upstream_get by (right; exact G); rewrite Hn;
    [assert (mem_str k_xfu hop_headers = false) as -> by reflexivity
    |assert (mem_str k_xfe hop_headers = false) as -> by reflexivity
    |assert (mem_str k_xfg hop_headers = false) as -> by reflexivity]; cbn [orb]; assumption.
Qed.

Lemma upstream_skip_absent cfg client k : In k identity_keys -> h_get k (upstream true cfg SkipAuth client) = [].
Proof.
  intros Hk. destruct (upstream_get_weak true cfg SkipAuth client k) as [E|E]; [exact E|].
  rewrite E. apply (trp_skip true cfg client k Hk).
Qed.

Lemma upstream_skip_today cfg client k : In k identity_keys -> client_sent client k = false ->
  h_get k (upstream false cfg SkipAuth client) = [].
Proof.
  intros Hk Hs. destruct (upstream_get_weak false cfg SkipAuth client k) as [E|E]; [exact E|].
  rewrite E, (trp_skip false cfg client k Hk). apply mk_headers_absent; exact Hs.
Qed.


Lemma upstream_token_scrubbed cfg s client :
  h_get k_xfat (to_reverse_proxy true cfg (Authenticated s) client) = allowed_token cfg s /\
  (h_get k_xfat (upstream true cfg (Authenticated s) client) = allowed_token cfg s \/
   h_get k_xfat (upstream true cfg (Authenticated s) client) = []).
Proof.
  assert (H: h_get k_xfat (to_reverse_proxy true cfg (Authenticated s) client) = allowed_token cfg s).
  { rewrite trp_token. unfold allowed_token. reflexivity. }
  split; [exact H|]. destruct (upstream_get_weak true cfg (Authenticated s) client k_xfat) as [E|E]; [right; exact E|].
  left. rewrite E. exact H.
Qed.

Lemma upstream_token_today cfg s client : client_sent client k_xfat = false ->
  h_get k_xfat (to_reverse_proxy false cfg (Authenticated s) client) = allowed_token cfg s /\
  (h_get k_xfat (upstream false cfg (Authenticated s) client) = allowed_token cfg s \/
   h_get k_xfat (upstream false cfg (Authenticated s) client) = []).
Proof.
  intros Hs.
  assert (H: h_get k_xfat (to_reverse_proxy false cfg (Authenticated s) client) = allowed_token cfg s).
  { rewrite trp_token. unfold allowed_token. rewrite (mk_headers_absent _ _ Hs). reflexivity. }
  split; [exact H|]. destruct (upstream_get_weak false cfg (Authenticated s) client k_xfat) as [E|E]; [right; exact E|].
  left. rewrite E. exact H.
Qed.

(* --- the clauses that are false of the code that exists --- *)
Definition w_cfg : config := {| cookie_name := [95;115]; pass_access_token := false; inject := [] |}.
Definition w_sess : session := {| s_user := [98;111;98]; s_email := [98;64;99]; s_groups := [[103]]; s_token := [116] |}.
Definition w_evil : str := [101;118;105;108].

Lemma skipauth_refuted :
  exists cfg client, forall k, In k identity_keys -> h_get k (upstream false cfg SkipAuth client) = [w_evil].
Proof.
  exists w_cfg. exists [(lower_ascii k_xfu, w_evil); (k_xfe, w_evil); (map upper_byte k_xfg, w_evil); (k_xfat, w_evil)].
  intros k Hk. cbn in Hk. destruct Hk as [<-|[<-|[<-|[<-|[]]]]]; vm_compute; reflexivity.
Qed.

Lemma token_refuted :
  exists cfg s client, pass_access_token cfg = false /\ inject cfg = [] /\
    h_get k_xfat (upstream false cfg (Authenticated s) client) = [w_evil].
Proof.
  exists w_cfg, w_sess, [(lower_ascii k_xfat, w_evil)]. repeat split.
Qed.

Lemma hop_by_hop_refuted : forall scrub,
  exists cfg s client,
    let out := upstream scrub cfg (Authenticated s) client in
    h_get k_xfu out = [] /\ h_get k_xfe out = [] /\ h_get k_xfg out = want_groups s.
Proof.
  intros scrub. exists w_cfg, w_sess, [(k_connection, k_xfe ++ [44;32] ++ lower_ascii k_xfu)].
  destruct scrub; vm_compute; repeat split.
Qed.

(* one ';'-separated part of a line is parsed independently of the others: this is what makes
   [parse_part p = Some c] the definition of a well-formed pair *)
Lemma read_line_parts ps : ps <> [] -> Forall (fun p => ~ In 59 p) ps -> trim (join [59] ps) = join [59] ps ->
  read_cookies [join [59] ps] = flat_map (fun p => opt_list (parse_part p)) ps.
Proof.
  intros Hne H59 Ht. unfold read_cookies. cbn [flat_map]. rewrite app_nil_r. unfold read_cookie_line.
  rewrite Ht, (split_on_join 59 ps Hne H59). reflexivity.
Qed.

(* ------------------------------------------------------------------------------------------ *)
(* the hypotheses of the theorems are satisfiable by non-trivial states *)

(* Cookie: a=b; _s=SECRET; q="x y"; sp=a b; e=""; bad name=1; _sx=2   with session cookie "_s" *)
Definition ex_cookie_line : str :=
  [97;61;98;59;32;95;115;61;83;69;67;82;69;84;59;32;113;61;34;120;32;121;34;59;32;115;112;61;97;32;98;59;32;101;61;34;34;
   59;32;98;97;100;32;110;97;109;101;61;49;59;32;95;115;120;61;50].
Definition ex_client : list (str * str) :=
  [ ([120;45;102;111;114;119;97;114;100;101;100;45;85;83;69;82], w_evil);   (* x-forwarded-USER: evil *)
    (lower_ascii k_cookie, ex_cookie_line);
    (k_xfe, w_evil); (k_xfe, []) ].

Example ex_cookies_kept :
  h_get k_cookie (upstream scrub_today w_cfg (Authenticated w_sess) ex_client) =
    [[97;61;98;59;113;61;34;120;32;121;34;59;115;112;61;34;97;32;98;34;59;101;61;59;95;115;120;61;50]]
    (* a=b;q="x y";sp="a b";e=;_sx=2 *) /\
  want_cookies (cookie_name w_cfg) ex_client =
    [([97],[98]); ([113],[120;32;121]); ([115;112],[97;32;98]); ([101],[]); ([95;115;120],[50])] /\
  client_conn_names ex_client k_cookie = false /\ operator_clean w_cfg k_cookie /\ operator_clean w_cfg k_connection.
Proof. repeat split. Qed.

Example ex_auth_overwrites :
  let out := upstream scrub_today w_cfg (Authenticated w_sess) ex_client in
  h_get k_xfu (mk_headers ex_client) = [w_evil] /\ h_get k_xfe (mk_headers ex_client) = [w_evil; []] /\
  h_get k_xfu out = [s_user w_sess] /\ h_get k_xfe out = [s_email w_sess] /\
  client_conn_names ex_client k_xfu = false.
Proof. repeat split. Qed.

(* a client whose Connection header names things: the guards of the partial theorems are decidable
   and fail exactly here *)
Example ex_conn_names :
  let client := [(k_connection, [88;45;70;111;114;119;97;114;100;101;100;45;69;109;97;105;108;32;44;32;99;111;111;107;105;101])] in
  client_conn_names client k_xfe = true /\ client_conn_names client k_cookie = true /\ client_conn_names client k_xfu = false.
Proof. repeat split. Qed.

Example ex_no_identity_sent : forall k, In k identity_keys -> client_sent [(k_cookie, ex_cookie_line)] k = false.
Proof. intros k Hk. cbn in Hk. destruct Hk as [<-|[<-|[<-|[<-|[]]]]]; reflexivity. Qed.

(* ------------------------------------------------------------------------------------------ *)
(* refresh / revalidation due: the asserted session is the re-saved one *)

Definition saved_or_presented (allowed : list str) (s : session) (d : due) : session :=
  match resaved_session allowed s d with Some s' => s' | None => s end.

Lemma asserted_is_resaved allowed s d : asserted_session allowed s d = saved_or_presented allowed s d.
Proof. destruct d; reflexivity. Qed.

Lemma due_auth_headers scrub cfg allowed s d client :
  let s' := saved_or_presented allowed s d in
  let h := to_reverse_proxy scrub cfg (Authenticated (asserted_session allowed s d)) client in
  h_get k_xfu h = [s_user s'] /\ h_get k_xfe h = [s_email s'] /\ h_get k_xfg h = [join [44] (s_groups s')] /\
  (scrub = true -> h_get k_xfat h = allowed_token cfg s').
Proof.
  cbn zeta. rewrite <- asserted_is_resaved.
  destruct (trp_auth_headers scrub cfg (asserted_session allowed s d) client) as [Hu [He Hg]].
  repeat split; try assumption. intros ->.
  apply (upstream_token_scrubbed cfg (asserted_session allowed s d) client).
Qed.

(* spelled out for a refresh: groups are the provider's fresh answer filtered by the allowed
   groups, the token is the rotated one; nothing of the presented session's groups / token is left *)
Lemma refresh_headers cfg allowed s tok ug client :
  let h := to_reverse_proxy true cfg (Authenticated (asserted_session allowed s (RefreshDue tok ug))) client in
  h_get k_xfu h = [s_user s] /\ h_get k_xfe h = [s_email s] /\
  h_get k_xfg h = [join [44] (matched_groups allowed ug)] /\
  (pass_access_token cfg = true -> tok <> [] -> h_get k_xfat h = [tok]).
Proof.
  cbn zeta. destruct (due_auth_headers true cfg allowed s (RefreshDue tok ug) client) as [Hu [He [Hg Ht]]].
  repeat split; try assumption. intros Hp Hne. rewrite (Ht eq_refl). unfold allowed_token, token_enabled.
  cbn. rewrite Hp. destruct tok; [congruence | reflexivity].
Qed.

Example ex_refresh_changes_groups :
  let allowed := [[101]; [111]; [116]] in                      (* e, o, t *)
  let s := {| s_user := [98]; s_email := [98;64;99]; s_groups := [[116]; [101]]; s_token := [49] |} in
  let d := RefreshDue [50] [[116]; [111]; [120]] in            (* rotated token "2"; profile says t, o, x *)
  due_succeeds allowed d = true /\
  s_groups (asserted_session allowed s d) = [[116]; [111]] /\ s_token (asserted_session allowed s d) = [50] /\
  h_get k_xfg (upstream true {| cookie_name := [95;115]; pass_access_token := true; inject := [] |}
                        (Authenticated (asserted_session allowed s d)) []) = [[116;44;111]].
Proof. repeat split. Qed.

(* ------------------------------------------------------------------------------------------ *)
(* routes: PathPrefix("/") -> Proxy and /favicon.ico -> Favicon = Authenticate; Proxy.
   Statements for the repaired code (scrub = true), which is the code that exists since 87f9230. *)

Lemma to_reverse_proxy_r_proxy scrub cfg m client :
  to_reverse_proxy_r scrub cfg RProxy m client = to_reverse_proxy scrub cfg m client.
Proof. reflexivity. Qed.

Lemma upstream_r_proxy scrub cfg m client : upstream_r scrub cfg RProxy m client = upstream scrub cfg m client.
Proof. reflexivity. Qed.

(* generic in the header map Proxy starts from *)
Lemma chain_auth_headers scrub cfg s h :
  let x := delete_cookie (cookie_name cfg) (proxy_headers scrub cfg (Authenticated s) h) in
  h_get k_xfu x = [s_user s] /\ h_get k_xfe x = [s_email s] /\ h_get k_xfg x = [join [44] (s_groups s)].
Proof.
  cbn zeta. rewrite !delete_cookie_other by discriminate.
  unfold proxy_headers. rewrite auth_user, auth_email, auth_groups. repeat split.
Qed.

Lemma chain_token cfg s h :
  h_get k_xfat (delete_cookie (cookie_name cfg) (proxy_headers true cfg (Authenticated s) h)) = allowed_token cfg s.
Proof.
  rewrite delete_cookie_other by discriminate. unfold proxy_headers. rewrite auth_token. unfold allowed_token.
  destruct (token_enabled cfg s); [reflexivity|]. destruct (last_injected k_xfat (inject cfg)); [reflexivity|].
  rewrite scrub_get. reflexivity.
Qed.

Lemma chain_skip cfg h k : In k identity_keys ->
  h_get k (delete_cookie (cookie_name cfg) (proxy_headers true cfg SkipAuth h)) = [].
Proof.
  intros Hk. rewrite delete_cookie_other by (apply identity_not_cookie; exact Hk).
  apply (proxy_get_skip true cfg h k Hk).
Qed.

Lemma route_pre_other cfg r h k : ~ In k identity_keys ->
  h_get k (route_pre cfg r h) =
  match r with
  | RProxy => h_get k h
  | RFavicon _ => match last_injected k (inject cfg) with Some v => [v] | None => h_get k h end
  end.
Proof. intros Hk. destruct r as [|s1]; [reflexivity|]. cbn [route_pre]. apply auth_other; exact Hk. Qed.

(* did any Authenticate run, i.e. were the operator's injected headers applied? *)
Definition inject_ran (r : route) (m : mode) : bool :=
  match r, m with RProxy, SkipAuth => false | _, _ => true end.

Lemma route_other scrub cfg r m client k : ~ In k identity_keys -> k <> k_cookie ->
  (inject_ran r m = false \/ operator_clean cfg k) ->
  h_get k (to_reverse_proxy_r scrub cfg r m client) = h_get k (mk_headers client).
Proof.
  intros Hk Hc G. unfold to_reverse_proxy_r. rewrite delete_cookie_other by exact Hc.
  rewrite (proxy_get_other scrub cfg m _ k Hk), (route_pre_other cfg r _ k Hk).
  destruct G as [G|G].
  - destruct r, m; try discriminate. reflexivity.
  - unfold operator_clean in G. rewrite G. destruct r, m; reflexivity.
Qed.

Lemma route_cookie_lines scrub cfg r m client :
  (inject_ran r m = false \/ operator_clean cfg k_cookie) ->
  h_get k_cookie (proxy_headers scrub cfg m (route_pre cfg r (mk_headers client))) = h_get k_cookie (mk_headers client).
Proof.
  intros G. rewrite (proxy_get_other scrub cfg m _ k_cookie cookie_not_identity),
                    (route_pre_other cfg r _ k_cookie cookie_not_identity).
  destruct G as [G|G].
  - destruct r, m; try discriminate. reflexivity.
  - unfold operator_clean in G. rewrite G. destruct r, m; reflexivity.
Qed.

Lemma upstream_r_get scrub cfg r m client k :
  (inject_ran r m = false \/ operator_clean cfg k_connection) ->
  h_get k (upstream_r scrub cfg r m client) =
  if client_conn_names client k || mem_str k hop_headers then [] else h_get k (to_reverse_proxy_r scrub cfg r m client).
Proof.
  intros G. unfold upstream_r. rewrite hop_get. unfold hop_named, client_conn_names.
  rewrite (connection_named_ext _ (mk_headers client)); [reflexivity|].
  apply route_other; [exact connection_not_identity | discriminate | exact G].
Qed.

Lemma upstream_r_get_weak scrub cfg r m client k :
  h_get k (upstream_r scrub cfg r m client) = [] \/
  h_get k (upstream_r scrub cfg r m client) = h_get k (to_reverse_proxy_r scrub cfg r m client).
Proof. unfold upstream_r. rewrite hop_get. destruct (hop_named _ k); [left | right]; reflexivity. Qed.

Lemma delete_cookie_stripped cn h c : In c (read_cookies (h_get k_cookie (delete_cookie cn h))) -> c_name c <> cn.
Proof.
  intros Hin. pose proof (delete_cookie_roundtrip cn h) as R.
  assert (Hn: In (name_value c) (map name_value (kept cn (h_get k_cookie h)))) by (rewrite <- R; apply in_map; exact Hin).
  apply in_map_iff in Hn as [c' [Heq Hc']]. pose proof (kept_names _ _ _ Hc') as Hne.
  unfold name_value in Heq. assert (E1: c_name c' = c_name c) by congruence. congruence.
Qed.

(* the session cookie never reaches the upstream, on every route that ends in the reverse proxy *)
Lemma upstream_r_cookie_stripped scrub cfg r m client c :
  In c (read_cookies (h_get k_cookie (upstream_r scrub cfg r m client))) -> c_name c <> cookie_name cfg.
Proof.
  destruct (upstream_r_get_weak scrub cfg r m client k_cookie) as [E|E]; rewrite E; [intros [] | apply delete_cookie_stripped].
Qed.

Lemma upstream_r_cookies_kept scrub cfg r m client :
  (inject_ran r m = false \/ (operator_clean cfg k_cookie /\ operator_clean cfg k_connection)) ->
  client_conn_names client k_cookie = false ->
  map name_value (read_cookies (h_get k_cookie (upstream_r scrub cfg r m client))) = want_cookies (cookie_name cfg) client.
Proof.
  intros G Hn. rewrite upstream_r_get by tauto. rewrite Hn.
  assert (mem_str k_cookie hop_headers = false) as -> by reflexivity. cbn [orb].
  unfold to_reverse_proxy_r, want_cookies. rewrite delete_cookie_roundtrip. unfold kept.
  rewrite route_cookie_lines by tauto. apply map_nv_filter.
Qed.

(* /favicon.ico, authenticated and not whitelisted: same assertions as on any other path *)
Lemma favicon_auth_headers cfg s1 s client :
  let h := to_reverse_proxy_r true cfg (RFavicon s1) (Authenticated s) client in
  h_get k_xfu h = [s_user s] /\ h_get k_xfe h = [s_email s] /\ h_get k_xfg h = [join [44] (s_groups s)] /\
  h_get k_xfat h = allowed_token cfg s.
Proof.
  cbn zeta. unfold to_reverse_proxy_r.
  destruct (chain_auth_headers true cfg s (route_pre cfg (RFavicon s1) (mk_headers client))) as [Hu [He Hg]].
  repeat split; try assumption. apply chain_token.
Qed.

(* /favicon.ico matched by a skip pattern: Proxy's scrub removes what Favicon's own Authenticate
   asserted; no identity header reaches the upstream *)
Lemma favicon_skip_absent cfg s1 client k : In k identity_keys ->
  h_get k (upstream_r true cfg (RFavicon s1) SkipAuth client) = [].
Proof.
  intros Hk. destruct (upstream_r_get_weak true cfg (RFavicon s1) SkipAuth client k) as [E|E]; [exact E|].
  rewrite E. apply chain_skip; exact Hk.
Qed.

(* what the seeded shortcut (Favicon calling the upstream handler directly, without Proxy) does:
   the scrub is skipped and a client-supplied access token survives when the option is off *)
Example ex_favicon_without_proxy_leaks :
  h_get k_xfat (delete_cookie (cookie_name w_cfg) (route_pre w_cfg (RFavicon w_sess) (mk_headers [(lower_ascii k_xfat, w_evil)])))
    = [w_evil] /\
  h_get k_xfat (upstream_r true w_cfg (RFavicon w_sess) (Authenticated w_sess) [(lower_ascii k_xfat, w_evil)]) = [].
Proof. split; reflexivity. Qed.

(* an upstream whose own options say pass_access_token: false never receives the session's token,
   on any route, whatever the deployment default and whatever the client sent *)
Lemma optout_respected cfg dd r s client v :
  pass_access_token cfg = resolve_pass_access_token dd (Some false) ->
  In v (h_get k_xfat (upstream_r true cfg r (Authenticated s) client)) -> last_injected k_xfat (inject cfg) = Some v.
Proof.
  intros Hp Hin. destruct (upstream_r_get_weak true cfg r (Authenticated s) client k_xfat) as [E|E]; rewrite E in Hin; [destruct Hin|].
  unfold to_reverse_proxy_r in Hin. rewrite chain_token in Hin. unfold allowed_token, token_enabled in Hin.
  rewrite Hp in Hin. cbn in Hin. destruct (last_injected k_xfat (inject cfg)); [destruct Hin as [<-|[]]; reflexivity | destruct Hin].
Qed.
