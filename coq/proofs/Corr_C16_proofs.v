(* Corr_C16_proofs.v — the monitor of Corr_C16 accepts the model's own predictions, for every
   accepted event list: the singleflight LTS refines the abstract coalescing specification. *)
From V Require Import Base Base_proofs GoQuote GoQuote_proofs CorrBase Singleflight Singleflight_proofs Corr_C16.
From Coq Require Import Lia.

Lemma arun_snoc {R} (tr : list (event R)) e : arun (tr ++ [e]) = astep (arun tr) e.
Proof. unfold arun. rewrite fold_left_app. reflexivity. Qed.

Lemma alookup_none_keys {B} k (l : list (str * B)) : alookup str_eqb k l = None -> ~ In k (map fst l).
Proof.
  induction l as [|[a b] l IH]; simpl; intros H; [tauto|].
  streq k a; [discriminate|]. intros [Hin|Hin]; [congruence | apply IH; assumption].
Qed.
Lemma keys_none_alookup {B} k (l : list (str * B)) : ~ In k (map fst l) -> alookup str_eqb k l = None.
Proof.
  induction l as [|[a b] l IH]; simpl; intros H; [reflexivity|].
  streq k a; [exfalso; apply H; left; reflexivity | apply IH; tauto].
Qed.

Lemma alookup_filter {B} (f : str * B -> bool) k (l : list (str * B)) :
  NoDup (map fst l) ->
  alookup str_eqb k (filter f l) =
  match alookup str_eqb k l with Some v => if f (k, v) then Some v else None | None => None end.
Proof.
  induction l as [|[a b] l IH]; intros ND; simpl; [reflexivity|]. inversion ND; subst.
  destruct (f (a, b)) eqn:Ef; simpl.
  - streq k a; [rewrite Ef; reflexivity | apply IH; assumption].
  - streq k a.
    + rewrite Ef. rewrite IH by assumption. rewrite (keys_none_alookup a l) by assumption. reflexivity.
    + apply IH; assumption.
Qed.

Lemma nodup_filter_keys {B} (f : str * B -> bool) (l : list (str * B)) :
  NoDup (map fst l) -> NoDup (map fst (filter f l)).
Proof.
  induction l as [|[a b] l IH]; intros ND; simpl; [constructor|]. inversion ND; subst.
  destruct (f (a, b)); simpl; [|apply IH; assumption].
  constructor; [|apply IH; assumption]. intros Hin. apply H1.
  apply in_map_iff in Hin as [[x y] [Hx Hin]]. apply filter_In in Hin as [Hin _]. simpl in Hx. subst.
  apply in_map_iff. exists (a, y). auto.
Qed.

Definition lead_of {R} (s : state R) (t : tid) : option tid :=
  match thread s t with
  | Some Leading | Some LedDone => Some t
  | Some (Following c) | Some (Returned c _ _) => Some c
  | None => None
  end.

Record Sim {R} (s : state R) (a : astate) : Prop := mkSim {
  sim_open : forall k, inflight s k = alookup str_eqb k (a_open a);
  sim_lead : forall t, alookup Nat.eqb t (a_lead a) = lead_of s t;
  sim_joined : forall c cl, callof s c = Some cl -> map fst (filter (is_joiner c) (a_lead a)) = c_joined cl;
  sim_live : forall p, In p (a_lead a) -> thread s (snd p) <> None;
  sim_nodup : NoDup (map fst (a_open a))
}.

Lemma filter_nil {A} (f : A -> bool) l : (forall x, In x l -> f x = false) -> filter f l = [].
Proof.
  induction l as [|x l IH]; intros H; simpl; [reflexivity|].
  rewrite (H x) by (left; reflexivity). apply IH. intros y Hy. apply H. right. exact Hy.
Qed.

Lemma sim_step {R} (s s' : state R) a e : Inv s -> Sim s a -> step s e = Some s' -> Sim s' (astep a e).
Proof.
  intros I [SO SL SJ SV SN] H. apply step_cases in H. destruct H.
  - (* lead *)
    unfold astep. rewrite <- SO, H0. constructor; cbn [a_open a_lead].
    + intros k0. unfold inflight. cbn [gmap alookup]. streq k0 k; [reflexivity | apply SO].
    + intros t0. unfold lead_of, thread. cbn [threads alookup]. nateq t0 t; [reflexivity | apply SL].
    + intros c0 cl0 Hc. unfold callof in Hc. cbn [calls alookup] in Hc. cbn [filter].
      assert (is_joiner c0 (t, t) = false) as ->.
      { unfold is_joiner. cbn [fst snd]. nateq t c0; reflexivity. }
      nateq c0 t.
      * inversion Hc; subst. cbn. rewrite filter_nil; [reflexivity|].
        intros p Hp. unfold is_joiner. destruct (Nat.eqb (snd p) t) eqn:E; [|reflexivity].
        apply Nat.eqb_eq in E. exfalso. apply (SV _ Hp). rewrite E. exact H.
      * apply SJ. exact Hc.
    + intros p [<-|Hp]; unfold thread; cbn [threads alookup snd].
      * rewrite Nat.eqb_refl. discriminate.
      * nateq (snd p) t; [discriminate | apply (SV _ Hp)].
    + simpl. constructor; [|exact SN]. apply alookup_none_keys. rewrite <- SO. exact H0.
  - (* join *)
    unfold astep. rewrite <- SO, H0.
    assert (Hct : c <> t).
    { intros E; subst. apply (inv_call s I) in H1 as [Hi _]. apply in_call_some in Hi. contradiction. }
    constructor; cbn [a_open a_lead].
    + intros k0. apply SO.
    + intros t0. unfold lead_of, thread. cbn [threads alookup]. nateq t0 t; [reflexivity | apply SL].
    + intros c0 cl0 Hc. unfold callof in Hc. cbn [calls alookup] in Hc. cbn [filter].
      unfold is_joiner at 1. cbn [fst snd]. nateq c0 c.
      * inversion Hc; subst. rewrite Nat.eqb_refl. apply not_eq_sym in Hct. apply Nat.eqb_neq in Hct. rewrite Hct. cbn.
        f_equal. apply SJ. exact H1.
      * apply not_eq_sym in E. apply Nat.eqb_neq in E. rewrite E. cbn. apply SJ. exact Hc.
    + intros p [<-|Hp]; unfold thread; cbn [threads alookup snd].
      * apply Nat.eqb_neq in Hct. rewrite Hct. apply leads_some. destruct (inv_map s I _ _ H0) as [cl' [_ [_ HL]]]. exact HL.
      * nateq (snd p) t; [discriminate | apply (SV _ Hp)].
    + exact SN.
  - (* fn returns *)
    unfold astep. constructor.
    + intros k0. apply SO.
    + intros t0. rewrite SL. unfold lead_of, thread. cbn [threads alookup]. nateq t0 t; [|reflexivity].
      unfold thread in H. rewrite H. reflexivity.
    + intros c0 cl0 Hc. unfold callof in Hc. cbn [calls alookup] in Hc. nateq c0 t.
      * inversion Hc; subst. cbn. apply SJ. exact H0.
      * apply SJ. exact Hc.
    + intros p Hp. unfold thread; cbn [threads alookup]. nateq (snd p) t; [discriminate | apply (SV _ Hp)].
    + exact SN.
  - (* cleanup *)
    unfold astep. destruct (inv_leddone s I _ H) as [cl' [r' [G1 [G2 G3]]]].
    rewrite H0 in G1. inversion G1; subst cl'. clear G1.
    constructor; cbn [a_open a_lead].
    + intros k0. unfold inflight. cbn [gmap]. rewrite alookup_filter by exact SN. cbn [snd].
      streq k0 (c_key cl).
      * rewrite str_remove_eq. rewrite <- SO, G3. rewrite Nat.eqb_refl. reflexivity.
      * rewrite str_remove_neq by assumption. fold (inflight s k0). rewrite <- SO.
        destruct (inflight s k0) as [l|] eqn:El; [|reflexivity].
        nateq l t; [|reflexivity]. exfalso.
        destruct (inv_map s I _ _ El) as [cl0 [F1 [F2 _]]]. rewrite H0 in F1. inversion F1; subst. contradiction.
    + intros t0. rewrite SL. unfold lead_of, thread. cbn [threads alookup]. nateq t0 t; [|reflexivity].
      unfold thread in H. rewrite H. reflexivity.
    + intros c0 cl0 Hc. apply SJ. exact Hc.
    + intros p Hp. unfold thread; cbn [threads alookup]. nateq (snd p) t; [discriminate | apply (SV _ Hp)].
    + apply nodup_filter_keys. exact SN.
  - (* wake *)
    unfold astep. constructor.
    + intros k0. apply SO.
    + intros t0. rewrite SL. unfold lead_of, thread. cbn [threads alookup]. nateq t0 t; [|reflexivity].
      unfold thread in H. rewrite H. reflexivity.
    + intros c0 cl0 Hc. apply SJ. exact Hc.
    + intros p Hp. unfold thread; cbn [threads alookup]. nateq (snd p) t; [discriminate | apply (SV _ Hp)].
    + exact SN.
Qed.

Lemma reach_sim {R} (tr : list (event R)) s : reach tr s -> Sim s (arun tr).
Proof.
  intros H. apply (reach_ind (fun tr s => Sim s (arun tr))); [ | | exact H].
  - constructor; simpl; intros; try discriminate; try reflexivity; try contradiction. constructor.
  - intros tr0 s0 e s' Hr S Hs. rewrite arun_snoc. eapply sim_step; eauto. eapply reach_inv; eauto.
Qed.

Lemma fn_result_in {R} (tr : list (event R)) l r :
  In (FnReturn l r) tr -> (forall r', In (FnReturn l r') tr -> r' = r) -> fn_result tr l = Some r.
Proof.
  induction tr as [|e tr IH]; intros Hin Hu; [destruct Hin|].
  destruct e as [t k|t r0|t|t]; simpl.
  - apply IH; [destruct Hin as [Hin|Hin]; [discriminate | exact Hin] | intros r' Hr'; apply Hu; right; exact Hr'].
  - nateq t l.
    + f_equal. apply Hu. left. reflexivity.
    + apply IH; [destruct Hin as [Hin|Hin]; [inversion Hin; congruence | exact Hin] | intros r' Hr'; apply Hu; right; exact Hr'].
  - apply IH; [destruct Hin as [Hin|Hin]; [discriminate | exact Hin] | intros r' Hr'; apply Hu; right; exact Hr'].
  - apply IH; [destruct Hin as [Hin|Hin]; [discriminate | exact Hin] | intros r' Hr'; apply Hu; right; exact Hr'].
Qed.

(* REFINEMENT: for every event list the LTS accepts, what the model says a returned caller got
   (whether its fn ran, which result, which count) is what the abstract specification demands. *)
Theorem model_refines_spec {R} (tr : list (event R)) s t :
  reach tr s -> model_outcome s t <> None -> spec_outcome tr t = model_outcome s t.
Proof.
  intros Hr Hm. unfold model_outcome in *.
  destruct (thread s t) as [[| |c|c r n]|] eqn:Ht; try contradiction. clear Hm.
  pose proof (reach_inv _ _ Hr) as I. pose proof (reach_tinv _ _ Hr) as T. pose proof (reach_sim _ _ Hr) as S.
  destruct (inv_returned s I _ _ _ _ Ht) as [cl [H1 [H2 [H3 H4]]]].
  unfold spec_outcome, spec_leader. rewrite (sim_lead _ _ S). unfold lead_of. rewrite Ht.
  rewrite (fn_result_in tr c r).
  - nateq c t.
    + unfold spec_count. rewrite <- (map_length fst). rewrite (sim_joined _ _ S _ _ H1).
      destruct (inv_call s I _ _ H1) as [_ [H5 _]]. rewrite (H3 eq_refl), H5. reflexivity.
    + destruct (H4 E) as [-> _]. reflexivity.
  - apply (ti_result _ _ T _ _ _ H1 H2).
  - intros r' Hin. eapply fnreturn_unique; eauto. apply (ti_result _ _ T _ _ _ H1 H2).
Qed.

Lemma gres_eqb_refl a : gres_eqb a a = true.
Proof. unfold gres_eqb. rewrite !N.eqb_refl. reflexivity. Qed.

Lemma outcome_eqb_refl {R} (eqb : R -> R -> bool) (Hrefl : forall x, eqb x x = true) o b :
  o <> None -> outcome_eqb eqb o o b = true.
Proof.
  destruct o as [[[x r] n]|]; [|contradiction]. intros _. simpl.
  rewrite Hrefl, Nat.eqb_refl. destruct x, b; reflexivity.
Qed.

(* the generic monitor accepts the model: whenever the model's prediction equals the observation
   (no mismatch), the property monitor holds on that observation *)
Theorem monitor_accepts_model_gen tr s o :
  reach tr s ->
  outcome_eqb gres_eqb (model_outcome s (go_tid o)) (Some (go_ran o, (go_val o, go_err o), go_cnt o)) true = true ->
  outcome_eqb gres_eqb (spec_outcome tr (go_tid o)) (Some (go_ran o, (go_val o, go_err o), go_cnt o)) true = true.
Proof.
  intros Hr H. rewrite (model_refines_spec tr s); [exact H | exact Hr|].
  intros E. rewrite E in H. discriminate.
Qed.

(* wrapper level: the generic clause of the monitor accepts the wrapper model *)
Theorem monitor_accepts_model_wrap tr w t :
  wreach tr w -> model_outcome (w_g w) t <> None ->
  spec_outcome (map erase tr) t = model_outcome (w_g w) t.
Proof. intros Hr H. apply model_refines_spec; [apply wreach_erase; exact Hr | exact H]. Qed.

(* non-vacuity: a 9-step schedule with two followers, one late joiner in the FnReturn–Cleanup
   window, and a fresh call after cleanup *)
Definition kx : str := [120].
Definition nv_trace : list (event gres) :=
  [Enter 1%nat kx; Enter 2%nat kx; Enter 3%nat kx; FnReturn 1%nat (7, 0); Wake 2%nat; Enter 4%nat kx; Wake 4%nat;
   Cleanup 1%nat; Wake 3%nat; Enter 5%nat kx].
Example nv_accepted :
  exists s, reach nv_trace s /\
    thread s 1%nat = Some (Returned 1%nat (7, 0) 3%nat) /\
    thread s 2%nat = Some (Returned 1%nat (7, 0) 0%nat) /\
    thread s 3%nat = Some (Returned 1%nat (7, 0) 0%nat) /\
    thread s 4%nat = Some (Returned 1%nat (7, 0) 0%nat) /\
    thread s 5%nat = Some Leading /\
    spec_outcome nv_trace 1%nat = Some (true, (7, 0), 3%nat) /\
    spec_outcome nv_trace 4%nat = Some (false, (7, 0), 0%nat).
Proof. eexists. split; [vm_compute; reflexivity|]. repeat split; vm_compute; reflexivity. Qed.

(* ---------- wrapper level: the subject and session clauses of the monitor ---------- *)
Lemma question_of_in tr t q : question_of tr t = Some q -> In (WEnter t q) tr.
Proof.
  induction tr as [|e tr IH]; simpl; [discriminate|]. destruct e; try (intros H; right; apply IH; exact H).
  nateq t0 t; intros H; [inversion H; subst; left; reflexivity | right; apply IH; exact H].
Qed.
Lemma in_question_of tr t q : In (WEnter t q) tr -> question_of tr t <> None.
Proof.
  induction tr as [|e tr IH]; simpl; [tauto|]. intros [->|Hin].
  - rewrite Nat.eqb_refl. discriminate.
  - destruct e; try (apply IH; exact Hin). nateq t0 t; [discriminate | apply IH; exact Hin].
Qed.
Lemma update_of_in tr t u : update_of tr t = Some u -> exists r, In (WFnReturn t r u) tr.
Proof.
  induction tr as [|e tr IH]; simpl; [discriminate|].
  destruct e; try (intros H; destruct (IH H) as [r0 Hr]; exists r0; right; exact Hr).
  nateq t0 t; intros H.
  - inversion H; subst. exists r. left. reflexivity.
  - destruct (IH H) as [r0 Hr]. exists r0. right. exact Hr.
Qed.
Lemma in_update_of tr t r u : In (WFnReturn t r u) tr -> update_of tr t <> None.
Proof.
  induction tr as [|e tr IH]; simpl; [tauto|]. intros [->|Hin].
  - rewrite Nat.eqb_refl. discriminate.
  - destruct e; try (apply IH; exact Hin). nateq t0 t; [discriminate | apply IH; exact Hin].
Qed.

Lemma wquestion_is_question_of tr w t q : wreach tr w -> In (WEnter t q) tr -> question_of tr t = Some q.
Proof.
  intros Hr Hin. pose proof (wreach_winv _ _ Hr) as W.
  destruct (question_of tr t) as [q'|] eqn:E; [|exfalso; eapply in_question_of; eauto].
  apply question_of_in in E. pose proof (wi_question _ _ W _ _ Hin). pose proof (wi_question _ _ W _ _ E). congruence.
Qed.

Lemma in_questions tr t q : In (WEnter t q) tr -> In q (questions tr).
Proof.
  induction tr as [|e tr IH]; simpl; [tauto|]. intros [->|Hin]; [left; reflexivity|].
  destruct e; try (apply IH; exact Hin). right. apply IH. exact Hin.
Qed.

Lemma subject_eqb_refl a : subject_eqb a a = true.
Proof. destruct a; simpl; rewrite ?str_eqb_refl; try reflexivity. simpl. apply strs_eqb_eq. reflexivity. Qed.

Lemma bytes_b_spec s : bytes_b s = true -> bytes s.
Proof.
  unfold bytes_b, bytes. rewrite forallb_forall, Forall_forall. intros H x Hx. apply N.ltb_lt. apply H. exact Hx.
Qed.
Lemma q_bytes_b_spec q : q_bytes_b q = true -> q_bytes q.
Proof.
  assert (forall l, forallb bytes_b l = true -> all_bytes l) as HL.
  { intros l H. unfold all_bytes. rewrite forallb_forall in H. apply Forall_forall. intros x Hx. apply bytes_b_spec. apply H. exact Hx. }
  destruct q as [e s al|e m g|e k]; simpl; rewrite ?andb_true_iff.
  - intros [[H1 H2] H3]. repeat split; auto using bytes_b_spec.
  - intros [H1 H2]. split; auto using bytes_b_spec.
  - apply bytes_b_spec.
Qed.

Lemma session_eqb_eq a b : session_eqb a b = true <-> a = b.
Proof.
  unfold session_eqb. rewrite !andb_true_iff, !str_eqb_eq, !Z.eqb_eq, !strs_eqb_eq.
  destruct a, b; simpl. split.
  - intros [[[[[[[? ?] ?] ?] ?] ?] ?] ?]. congruence.
  - intros H. inversion H; subst. repeat split; reflexivity.
Qed.

Lemma wf_question_b_spec q : wf_question_b q = wf_question q.
Proof. destruct q as [e s al|e m g|e k]; destruct e; reflexivity. Qed.

(* the session clause on the model's own prediction: it is true for the caller whose call ran,
   and for a merged caller it says exactly "the execution's update is a no-op on my record" *)
Theorem monitor_session_on_model tr w t c r n q s0 :
  wreach tr w -> thread (w_g w) t = Some (Returned c r n) ->
  In (WEnter t q) tr -> q_session q = Some s0 ->
  exists u, update_of tr c = Some u /\
    wsession w t = Some (if Nat.eqb c t then apply_update u s0 else s0) /\
    session_clause tr t (wsession w t) = session_eqb (if Nat.eqb c t then apply_update u s0 else s0) (apply_update u s0).
Proof.
  intros Hr Ht Hin Hs. pose proof (wreach_erase _ _ Hr) as Hg.
  pose proof (reach_inv _ _ Hg) as I. pose proof (reach_tinv _ _ Hg) as T. pose proof (reach_sim _ _ Hg) as S.
  destruct (inv_returned _ I _ _ _ _ Ht) as [cl [H1 [H2 _]]].
  pose proof (ti_result _ _ T _ _ _ H1 H2) as Hfn. apply in_erase_fn in Hfn as [u0 Hu0].
  destruct (update_of tr c) as [u|] eqn:Eu; [|exfalso; eapply in_update_of; eauto].
  exists u. split; [reflexivity|]. destruct (update_of_in _ _ _ Eu) as [r' Hu].
  assert (wsession w t = Some (if Nat.eqb c t then apply_update u s0 else s0)) as Hw.
  { nateq c t.
    - eapply leader_session_updated; eauto.
    - eapply follower_session_unchanged; eauto. }
  split; [exact Hw|].
  unfold session_clause. rewrite (wquestion_is_question_of _ _ _ _ Hr Hin), Hs.
  unfold spec_leader. rewrite (sim_lead _ _ S). unfold lead_of. rewrite Ht, Eu, Hw. reflexivity.
Qed.

Corollary monitor_session_accepts_leader tr w t r n q s0 :
  wreach tr w -> thread (w_g w) t = Some (Returned t r n) ->
  In (WEnter t q) tr -> q_session q = Some s0 -> session_clause tr t (wsession w t) = true.
Proof.
  intros Hr Ht Hin Hs. destruct (monitor_session_on_model _ _ _ _ _ _ _ _ Hr Ht Hin Hs) as [u [_ [_ H]]].
  rewrite H, Nat.eqb_refl. apply session_eqb_eq. reflexivity.
Qed.

(* ---------- attribution: every failing clause on the model's prediction is explained ---------- *)

(* only callers that asked a session-keyed question own a session record *)
Lemma wsession_only_for_session_questions tr w :
  wreach tr w -> forall t, wsession w t <> None -> exists q s, wquestion w t = Some q /\ q_session q = Some s.
Proof.
  intros H. apply (wreach_ind (fun _ w => forall t, wsession w t <> None ->
                     exists q s, wquestion w t = Some q /\ q_session q = Some s)) with (tr := tr); [ | | exact H].
  - intros t Ht. exfalso. apply Ht. reflexivity.
  - intros tr0 w0 e w' Hr IH Hs t Ht.
    pose proof (wreach_winv _ _ Hr) as W. pose proof (wstep_erase _ _ _ Hs) as Hg. apply step_cases in Hg.
    destruct e as [t1 q|t1 r u|t1|t1]; unfold wstep in Hs; unfold erase in Hg.
    + destruct (step (w_g w0) (Enter t1 (wrapper_key q))) as [g'|]; [|discriminate]. inversion Hs; subst w'. clear Hs.
      assert (Hfresh : thread (w_g w0) t1 = None) by (inversion Hg; assumption).
      unfold wsession, wquestion in *. cbn [w_sess w_q] in *. nateq t t1.
      * rewrite nat_look_eq. destruct (q_session q) as [s|] eqn:Eq; [eauto|].
        exfalso. destruct (IH _ Ht) as [q0 [s0 [Hq0 _]]].
        apply (wi_dom _ _ W t1); [unfold wquestion; congruence | exact Hfresh].
      * rewrite nat_look_neq by assumption. apply IH.
        destruct (q_session q); [rewrite nat_look_neq in Ht by assumption|]; exact Ht.
    + destruct (step (w_g w0) (FnReturn t1 r)) as [g'|]; [|discriminate]. inversion Hs; subst w'. clear Hs.
      unfold wsession, wquestion in *. cbn [w_sess w_q] in *. apply IH.
      destruct (alookup Nat.eqb t1 (w_sess w0)) as [s1|] eqn:E1; [|exact Ht].
      nateq t t1; [rewrite E1; discriminate | rewrite nat_look_neq in Ht by assumption; exact Ht].
    + destruct (step (w_g w0) (Cleanup t1)) as [g'|]; [|discriminate]. inversion Hs; subst w'. apply IH. exact Ht.
    + destruct (step (w_g w0) (Wake t1)) as [g'|]; [|discriminate]. inversion Hs; subst w'. apply IH. exact Ht.
Qed.

(* what the monitor's look-ups resolve to on a run of the wrapper model *)
Lemma clauses_resolve tr w t :
  wreach tr w -> thread (w_g w) t <> None ->
  exists c q qc, in_call (w_g w) t c /\ in_call (w_g w) c c /\
    In (WEnter t q) tr /\ In (WEnter c qc) tr /\
    spec_leader (map erase tr) t = Some c /\ question_of tr t = Some q /\ question_of tr c = Some qc.
Proof.
  intros Hr Ht. pose proof (wreach_erase _ _ Hr) as Hg.
  pose proof (reach_inv _ _ Hg) as I. pose proof (reach_tinv _ _ Hg) as T. pose proof (reach_sim _ _ Hg) as S.
  assert (exists c, in_call (w_g w) t c /\ in_call (w_g w) c c /\ lead_of (w_g w) t = Some c) as [c [Hic [Hcc Hl]]].
  { unfold lead_of, in_call. destruct (thread (w_g w) t) as [[| |x|x y z]|] eqn:E; try contradiction.
    - exists t. rewrite E. auto.
    - exists t. rewrite E. auto.
    - exists x. destruct (inv_following _ I _ _ E) as [_ [cl [Hcl _]]]. split; [reflexivity|]. split; [|reflexivity].
      apply (inv_call _ I _ _ Hcl).
    - exists x. destruct (inv_returned _ I _ _ _ _ E) as [cl [Hcl _]]. split; [reflexivity|]. split; [|reflexivity].
      apply (inv_call _ I _ _ Hcl). }
  destruct (ti_entered _ _ T _ Ht) as [k Hk]. apply in_erase_enter in Hk as [q [Hin _]].
  destruct (ti_entered _ _ T _ (in_call_some _ _ _ Hcc)) as [kc Hkc]. apply in_erase_enter in Hkc as [qc [Hinc _]].
  exists c, q, qc. repeat split; auto.
  - unfold spec_leader. rewrite (sim_lead _ _ S). exact Hl.
  - eapply wquestion_is_question_of; eauto.
  - eapply wquestion_is_question_of; eauto.
Qed.

(* the subject clause holds of every caller in every run of the wrapper model — no guard: callers
   that share an execution asked the same method about the same subject and allowed groups *)
Theorem monitor_subject_accepts_model tr w t svc :
  wreach tr w ->
  (forall q, In q (questions tr) -> wf_question q = true /\ q_bytes q /\ service_of (q_endpoint q) = svc) ->
  thread (w_g w) t <> None -> subject_clause tr t = true.
Proof.
  intros Hr Hwf Ht. destruct (clauses_resolve _ _ _ Hr Ht) as [c [q [qc [Hic [Hcc [Hin [Hinc [Hl [Hq Hqc]]]]]]]]].
  unfold subject_clause. rewrite Hl, Hq, Hqc.
  destruct (Hwf _ (in_questions _ _ _ Hin)) as [W1 [B1 S1]]. destruct (Hwf _ (in_questions _ _ _ Hinc)) as [W2 [B2 S2]].
  destruct (merged_same_subject tr w t c c q qc) as [_ [Hs Ha]]; auto; [congruence|].
  rewrite Hs, Ha, subject_eqb_refl. apply strs_eqb_eq. reflexivity.
Qed.

(* a failing session clause on the model's prediction always carries the C16-K1 signature:
   the caller is a merged follower of a session-keyed call *)
Theorem monitor_session_failure_explained tr w t c r n :
  wreach tr w -> thread (w_g w) t = Some (Returned c r n) ->
  session_clause tr t (wsession w t) = true \/ (is_follower tr t = true /\ has_session_question tr t = true).
Proof.
  intros Hr Ht. assert (Hne : thread (w_g w) t <> None) by (rewrite Ht; discriminate).
  destruct (clauses_resolve _ _ _ Hr Hne) as [c' [q [qc [Hic [Hcc [Hin [Hinc [Hl [Hq Hqc]]]]]]]]].
  unfold in_call in Hic. rewrite Ht in Hic. subst c'.
  destruct (q_session q) as [s0|] eqn:Es.
  - destruct (monitor_session_on_model _ _ _ _ _ _ _ _ Hr Ht Hin Es) as [u [_ [_ Hc]]].
    nateq c t.
    + left. rewrite Hc. apply session_eqb_eq. reflexivity.
    + right. unfold is_follower, has_session_question. rewrite Hl, Hq, Es.
      apply Nat.eqb_neq in E. rewrite E. auto.
  - left. unfold session_clause. rewrite Hq, Es.
    destruct (wsession w t) as [s|] eqn:Ew; [|reflexivity]. exfalso.
    destruct (wsession_only_for_session_questions _ _ Hr t) as [q' [s' [Hq' Hs']]]; [rewrite Ew; discriminate|].
    pose proof (wi_question _ _ (wreach_winv _ _ Hr) _ _ Hin) as Hq2. congruence.
Qed.

(* ATTRIBUTION LEMMA: on every run of the wrapper model, every failing clause of the monitor —
   for every returned caller — is explained by the signature of a listed finding. Hence a case on
   which the implementation's observation equals the model's prediction (no mismatch) and the
   generic clause holds is never left unattributed by Corr_C16.judge. *)
Theorem monitor_failures_explained tr w t c r n svc :
  wreach tr w ->
  (forall q, In q (questions tr) -> wf_question q = true /\ q_bytes q /\ service_of (q_endpoint q) = svc) ->
  thread (w_g w) t = Some (Returned c r n) ->
  clause_failures_explained tr t (wsession w t) = true.
Proof.
  intros Hr Hwf Ht. unfold clause_failures_explained. apply andb_true_iff. split.
  - apply (monitor_subject_accepts_model tr w t svc); auto. rewrite Ht. discriminate.
  - destruct (monitor_session_failure_explained _ _ _ _ _ _ Hr Ht) as [H|[H1 H2]].
    + rewrite H. reflexivity.
    + rewrite H1, H2. apply orb_true_r.
Qed.

(* ---------- one execution of a key at a time, on the execution log ---------- *)
Lemma key_of_in {R} (tr : list (event R)) t k :
  In (Enter t k) tr -> (forall k', In (Enter t k') tr -> k' = k) -> key_of tr t = Some k.
Proof.
  induction tr as [|e tr IH]; intros Hin Hu; [destruct Hin|].
  destruct e as [t0 k0|t0 r0|t0|t0]; simpl.
  - nateq t0 t.
    + f_equal. apply Hu. left. reflexivity.
    + apply IH; [destruct Hin as [Hin|Hin]; [inversion Hin; congruence | exact Hin] | intros k' Hk'; apply Hu; right; exact Hk'].
  - apply IH; [destruct Hin as [Hin|Hin]; [discriminate | exact Hin] | intros k' Hk'; apply Hu; right; exact Hk'].
  - apply IH; [destruct Hin as [Hin|Hin]; [discriminate | exact Hin] | intros k' Hk'; apply Hu; right; exact Hk'].
  - apply IH; [destruct Hin as [Hin|Hin]; [discriminate | exact Hin] | intros k' Hk'; apply Hu; right; exact Hk'].
Qed.

Lemma model_log_invariant {R} (tr : list (event R)) :
  forall s l, run_log init [] tr = Some (s, l) ->
  forall ko, (forall t k, In (Enter t k) tr -> ko t = Some k) ->
  snd (exec_walk ko l) = true /\ (forall t, In t (fst (exec_walk ko l)) <-> thread s t = Some Leading).
Proof.
  induction tr as [|e tr IH] using rev_ind; intros s l H ko Hko.
  - simpl in H. inversion H; subst. simpl. split; [reflexivity|]. intros t. unfold thread. simpl. split; [tauto | discriminate].
  - rewrite run_log_snoc in H. destruct (run_log init [] tr) as [[s1 l1]|] eqn:E1; [|discriminate].
    destruct (step s1 e) as [s'|] eqn:Es; [|discriminate]. inversion H; subst s l. clear H.
    assert (Hko1 : forall t k, In (Enter t k) tr -> ko t = Some k).
    { intros t k Hin. apply Hko. apply in_app_iff. left. exact Hin. }
    destruct (IH _ _ eq_refl ko Hko1) as [Hok Hrun].
    pose proof (run_log_run _ _ _ _ _ E1) as Hr1. fold (reach tr s1) in Hr1.
    pose proof (reach_inv _ _ Hr1) as I. pose proof (reach_tinv _ _ Hr1) as T.
    unfold exec_walk in *. rewrite fold_left_app.
    destruct (fold_left (exec_step ko) l1 ([], true)) as [running ok] eqn:Ew. cbn [fst snd] in Hok, Hrun. subst ok.
    apply step_cases in Es. destruct Es.
    + (* a new execution begins *)
      unfold log_of, thread. cbn [threads alookup]. rewrite Nat.eqb_refl. cbn [fold_left exec_step fst snd].
      split.
      * apply negb_true_iff. destruct (existsb (fun t' => same_key ko t' t) running) eqn:Ex; [|reflexivity]. exfalso.
        apply existsb_exists in Ex as [t' [Hin' Hsk]]. apply Hrun in Hin'.
        destruct (inv_leading s1 I _ Hin') as [cl' [Hc' [_ Hfl]]].
        assert (thread s1 t' <> None) as Hn by (rewrite Hin'; discriminate).
        destruct (ti_entered _ _ T _ Hn) as [k' Hk'].
        destruct (ti_enter _ _ T _ _ Hk') as [c [cl [Hic [Hcl Hkey]]]].
        unfold in_call in Hic. rewrite Hin' in Hic. subst c. rewrite Hc' in Hcl. inversion Hcl; subst cl.
        unfold same_key in Hsk. rewrite (Hko1 _ _ Hk') in Hsk.
        rewrite (Hko t k) in Hsk by (apply in_app_iff; right; left; reflexivity).
        simpl in Hsk. apply str_eqb_eq in Hsk. subst k'. rewrite Hkey in Hfl. rewrite H0 in Hfl. discriminate.
      * intros t0. cbn [In]. nateq t0 t.
        -- split; [reflexivity | auto].
        -- rewrite Hrun. unfold thread. split; [intros [Hx|Hx]; [congruence | exact Hx] | auto].
    + (* a join: no execution *)
      unfold log_of, thread. cbn [threads alookup]. rewrite Nat.eqb_refl. cbn [fold_left].
      split; [reflexivity|]. intros t0. cbn [fst]. rewrite Hrun. unfold thread. nateq t0 t.
      * unfold thread in H. rewrite H. split; discriminate.
      * reflexivity.
    + (* an execution ends *)
      unfold log_of. cbn [fold_left exec_step fst snd]. split; [reflexivity|].
      intros t0. rewrite filter_In, Hrun, negb_true_iff. unfold thread. cbn [threads alookup]. nateq t0 t.
      * split; [intros [_ Hx]; discriminate | discriminate].
      * split; [intros [Hx _]; exact Hx | auto].
    + unfold log_of. cbn [fold_left fst snd]. split; [reflexivity|].
      intros t0. rewrite Hrun. unfold thread. cbn [threads alookup]. nateq t0 t.
      * unfold thread in H. rewrite H. split; discriminate.
      * reflexivity.
    + unfold log_of. cbn [fold_left fst snd]. split; [reflexivity|].
      intros t0. rewrite Hrun. unfold thread. cbn [threads alookup]. nateq t0 t.
      * unfold thread in H. rewrite H. split; discriminate.
      * reflexivity.
Qed.

(* ONE AT A TIME, on the log: on every accepted event list, the executions the model performs
   (begin when a caller creates a call and runs fn, end when fn returns) never overlap for a key.
   This is the monitor's execution clause applied to the model's own prediction. *)
Theorem model_log_one_at_a_time {R} (tr : list (event R)) s l :
  run_log init [] tr = Some (s, l) -> exec_ok (key_of tr) l = true.
Proof.
  intros H. apply (model_log_invariant tr s l H).
  intros t k Hin. apply key_of_in; [exact Hin|].
  intros k' Hin'. eapply entered_once; eauto. eapply run_log_run; eauto.
Qed.

(* the same for every wrapper object of a deployment: executions per (wrapper object, key) *)
Theorem wrapper_log_one_at_a_time tr m a s l :
  mreach tr m -> run_log init [] (map erase (project a tr)) = Some (s, l) ->
  exec_ok (key_of (map erase (project a tr))) l = true.
Proof. intros _ H. eapply model_log_one_at_a_time; eauto. Qed.

(* ... and the log exists for every run *)
Theorem wrapper_log_exists tr m a :
  mreach tr m -> exists l, run_log init [] (map erase (project a tr)) = Some (w_g (component m a), l).
Proof.
  intros H. apply run_run_log. apply wreach_erase. apply mreach_project. exact H.
Qed.
