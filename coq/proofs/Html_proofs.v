(* Html_proofs.v — lemmas about the escapers, the tokenizer, the context walker and the
   template evaluator of Html.v (property C20). *)
From V Require Import Base Base_proofs Html.
Open Scope N_scope.

(* ------------------------------------------------------------------------------------------ *)
(** * Escapers *)

Lemma no_specials_app a b : no_specials (a ++ b) = no_specials a && no_specials b.
Proof. unfold no_specials. apply forallb_app. Qed.

(* what html_repl does, as seven cases *)
Lemma html_repl_cases c :
  (c = 0 /\ html_repl c = Some [239;191;189]) \/
  (c = 34 /\ html_repl c = Some [38;35;51;52;59]) \/
  (c = 38 /\ html_repl c = Some [38;97;109;112;59]) \/
  (c = 39 /\ html_repl c = Some [38;35;51;57;59]) \/
  (c = 43 /\ html_repl c = Some [38;35;52;51;59]) \/
  (c = 60 /\ html_repl c = Some [38;108;116;59]) \/
  (c = 62 /\ html_repl c = Some [38;103;116;59]) \/
  (html_repl c = None /\ c <> 0 /\ c <> 34 /\ c <> 38 /\ c <> 39 /\ c <> 43 /\ c <> 60 /\ c <> 62).
Proof.
  unfold html_repl.
  destruct (N.eqb_spec c 0) as [->|H0]; [left; auto|].
  destruct (N.eqb_spec c 34) as [->|H1]; [right; left; auto|].
  destruct (N.eqb_spec c 38) as [->|H2]; [right; right; left; auto|].
  destruct (N.eqb_spec c 39) as [->|H3]; [right; right; right; left; auto|].
  destruct (N.eqb_spec c 43) as [->|H4]; [right; right; right; right; left; auto|].
  destruct (N.eqb_spec c 60) as [->|H5]; [right; right; right; right; right; left; auto|].
  destruct (N.eqb_spec c 62) as [->|H6]; [right; right; right; right; right; right; left; auto|].
  right; right; right; right; right; right; right. repeat split; assumption.
Qed.

Lemma neq_eqb c k : c <> k -> (c =? k) = false.
Proof. intros H. apply N.eqb_neq. exact H. Qed.

Ltac repl_cases c :=
  destruct (html_repl_cases c) as
    [[-> E]|[[-> E]|[[-> E]|[[-> E]|[[-> E]|[[-> E]|[[-> E]|[E [N0 [N34 [N38 [N39 [N43 [N60 N62]]]]]]]]]]]]]];
  rewrite E.

(* C20_text_inert, first half: none of < > double quote apostrophe NUL in the output *)
Lemma html_replace_no_specials : forall s, no_specials (html_replace s) = true.
Proof.
  induction s as [|c r IH]; [reflexivity|].
  cbn [html_replace]. repl_cases c.
  1-7: rewrite no_specials_app, IH; reflexivity.
  unfold no_specials in *. cbn [forallb]. rewrite IH. unfold is_special.
  rewrite (neq_eqb _ _ N0), (neq_eqb _ _ N34), (neq_eqb _ _ N39), (neq_eqb _ _ N60), (neq_eqb _ _ N62).
  reflexivity.
Qed.

(* second half: every ampersand of the output begins a reference the escaper emits *)
Lemma html_replace_amp_ok : forall s, amp_ok (html_replace s) = true.
Proof.
  induction s as [|c r IH]; [reflexivity|].
  cbn [html_replace]. repl_cases c.
  1-7: cbn; rewrite IH; reflexivity.
  cbn [amp_ok]. rewrite (neq_eqb _ _ N38), IH. reflexivity.
Qed.

(* escaping is lossless: decoding the references gives the payload back (NUL -> U+FFFD) *)
Lemma html_unescape_replace : forall s, html_unescape (html_replace s) = nul_to_fffd s.
Proof.
  induction s as [|c r IH]; [reflexivity|].
  cbn [html_replace]. repl_cases c.
  1-7: cbn; rewrite IH; reflexivity.
  cbn [html_unescape nul_to_fffd]. rewrite (neq_eqb _ _ N38), (neq_eqb _ _ N0), IH. reflexivity.
Qed.

Lemma no_specials_forall s c : no_specials s = true -> In c s -> is_special c = false.
Proof.
  unfold no_specials. rewrite forallb_forall. intros H Hin.
  specialize (H c Hin). apply negb_true_iff in H. exact H.
Qed.

Lemma is_special_false c : is_special c = false -> c <> 0 /\ c <> 34 /\ c <> 39 /\ c <> 60 /\ c <> 62.
Proof.
  unfold is_special. intros H.
  repeat (apply orb_false_iff in H; destruct H as [H ?]).
  repeat split; apply N.eqb_neq; assumption.
Qed.

(* the escaped value, character by character *)
Lemma html_replace_chars s c :
  In c (html_replace s) -> c <> 0 /\ c <> 34 /\ c <> 39 /\ c <> 60 /\ c <> 62.
Proof.
  intros H. apply is_special_false. eapply no_specials_forall; [apply html_replace_no_specials | exact H].
Qed.

(* ------------------------------------------------------------------------------------------ *)
(** * Tokenizer *)

Lemma run_app st a b :
  run st (a ++ b) = let '(st1, e1) := run st a in let '(st2, e2) := run st1 b in (st2, e1 ++ e2).
Proof.
  revert st. induction a as [|c a IH]; intros st.
  - cbn. destruct (run st b). reflexivity.
  - cbn [app run]. destruct (step st c) as [s1 e1]. rewrite IH.
    destruct (run s1 a) as [s2 e2]. destruct (run s2 b) as [s3 e3]. rewrite app_assoc. reflexivity.
Qed.

Lemma run_stay st s : (forall c, In c s -> step st c = (st, [])) -> run st s = (st, []).
Proof.
  induction s as [|c r IH]; intros H; [reflexivity|].
  cbn [run]. rewrite (H c (or_introl eq_refl)). rewrite IH; [reflexivity|].
  intros d Hd. apply H. right. exact Hd.
Qed.

(* text without a less-than sign cannot open a tag *)
Lemma inert_data s : ~ In 60 s -> run SData s = (SData, []).
Proof.
  intros H. apply run_stay. intros c Hc. cbn [step].
  destruct (N.eqb_spec c 60) as [->|]; [contradiction | reflexivity].
Qed.

(* a double-quoted attribute value without a double quote cannot end the attribute *)
Lemma inert_dq cl n a s : ~ In 34 s -> run (SValDq cl n a) s = (SValDq cl n a, []).
Proof.
  intros H. apply run_stay. intros c Hc. cbn [step].
  destruct (N.eqb_spec c 34) as [->|]; [contradiction | reflexivity].
Qed.

(* RCDATA / RAWTEXT content without a less-than sign cannot leave the element *)
Lemma inert_raw k e s : ~ In 60 s -> run (SRaw k e) s = (SRaw k e, []).
Proof.
  intros H. apply run_stay. intros c Hc. cbn [step].
  destruct (N.eqb_spec c 60) as [->|]; [contradiction | reflexivity].
Qed.

(* in every context classified safe, an escaped value moves nothing and produces no event *)
Lemma safe_state_inert st v : safe_state st = true -> run st (html_replace v) = (st, []).
Proof.
  intros Hs.
  assert (N60 : ~ In 60 (html_replace v)) by (intros H; apply html_replace_chars in H; tauto).
  assert (N34 : ~ In 34 (html_replace v)) by (intros H; apply html_replace_chars in H; tauto).
  destruct st; try discriminate Hs.
  - apply inert_data; exact N60.
  - apply inert_dq; exact N34.
  - apply inert_raw; exact N60.
Qed.

(* ------------------------------------------------------------------------------------------ *)
(** * Decidable equalities *)

Lemma rkind_eqb_eq a b : rkind_eqb a b = true -> a = b.
Proof. destruct a, b; simpl; congruence. Qed.

Lemma tstate_eqb_eq a b : tstate_eqb a b = true -> a = b.
Proof.
  destruct a, b; simpl; try discriminate; intros H;
    repeat match goal with
           | H : _ && _ = true |- _ => apply andb_true_iff in H; destruct H
           | H : Bool.eqb _ _ = true |- _ => apply Bool.eqb_prop in H; subst
           | H : str_eqb _ _ = true |- _ => apply str_eqb_eq in H; subst
           | H : (_ =? _) = true |- _ => apply N.eqb_eq in H; subst
           | H : rkind_eqb _ _ = true |- _ => apply rkind_eqb_eq in H; subst
           end; reflexivity.
Qed.

Lemma tstate_eqb_refl a : tstate_eqb a a = true.
Proof.
  destruct a; simpl; repeat rewrite ?Bool.eqb_reflx, ?str_eqb_refl, ?N.eqb_refl; try reflexivity;
    destruct k; reflexivity.
Qed.

Lemma ev_eqb_refl a : ev_eqb a a = true.
Proof. destruct a; simpl; rewrite ?Bool.eqb_reflx, ?N.eqb_refl; reflexivity. Qed.

Lemma evs_eqb_refl l : evs_eqb l l = true.
Proof. unfold evs_eqb. induction l as [|x l IH]; cbn [list_eqb]; [reflexivity|]. rewrite ev_eqb_refl, IH. reflexivity. Qed.

(* ------------------------------------------------------------------------------------------ *)
(** * Expanded pages: same control path => same structure *)

Lemma flat_walk_app st a b :
  flat_walk st (a ++ b) = match flat_walk st a with Some st1 => flat_walk st1 b | None => None end.
Proof.
  revert st. induction a as [|p a IH]; intros st; [reflexivity|].
  destruct p as [s|v]; cbn [app flat_walk].
  - apply IH.
  - destruct (safe_state st); [apply IH | reflexivity].
Qed.

(* the tokenizer's run over a rendered page whose holes are all in safe states depends on the
   static text only *)
Lemma flat_run : forall p1 p2 st st',
  same_shape p1 p2 = true -> flat_walk st p1 = Some st' ->
  run st (render_pieces p1) = run st (render_pieces p2) /\ fst (run st (render_pieces p1)) = st'.
Proof.
  induction p1 as [|[s|v] p1 IH]; intros [|[t|u] p2] st st' Hs Hw; try discriminate Hs.
  - cbn in *. split; congruence.
  - cbn [same_shape] in Hs. apply andb_true_iff in Hs as [Hst Hs]. apply str_eqb_eq in Hst. subst t.
    cbn [flat_walk] in Hw. cbn [render_pieces]. rewrite !run_app.
    destruct (run st s) as [s1 e1] eqn:R. cbn [fst] in Hw.
    destruct (IH p2 s1 st' Hs Hw) as [H1 H2]. rewrite <- H1.
    destruct (run s1 (render_pieces p1)) as [s2 e2]. cbn [fst] in *. split; [reflexivity | exact H2].
  - cbn [same_shape] in Hs. cbn [flat_walk] in Hw. destruct (safe_state st) eqn:Safe; [|discriminate].
    cbn [render_pieces]. rewrite !run_app. rewrite !(safe_state_inert st _ Safe).
    destruct (IH p2 st st' Hs Hw) as [H1 H2]. rewrite <- H1.
    destruct (run st (render_pieces p1)) as [s2 e2]. cbn [fst] in *. split; [reflexivity | exact H2].
Qed.

(* ------------------------------------------------------------------------------------------ *)
(** * The walker on the template AST is sound for every expansion *)

Section NodeInd.
  Variable P : node -> Prop.
  Hypothesis HText : forall s, P (NText s).
  Hypothesis HOut : forall e, P (NOut e).
  Hypothesis HIf : forall c t e, Forall P t -> Forall P e -> P (NIf c t e).
  Hypothesis HRange : forall iv ev e body, Forall P body -> P (NRange iv ev e body).
  Hypothesis HCall : forall name arg, P (NCall name arg).

  Fixpoint node_ind' (n : node) : P n :=
    let list_ind' := fix li (l : list node) : Forall P l :=
      match l with
      | [] => Forall_nil P
      | x :: r => Forall_cons x (node_ind' x) (li r)
      end in
    match n with
    | NText s => HText s
    | NOut e => HOut e
    | NIf c t e => HIf c t e (list_ind' t) (list_ind' e)
    | NRange iv ev e body => HRange iv ev e body (list_ind' body)
    | NCall name arg => HCall name arg
    end.
End NodeInd.

(* unfolding equations: the local list functions are the top-level ones *)
Lemma walk_node_eq call n st :
  walk_node call n st =
  match n with
  | NText s => Some (fst (run st s))
  | NOut _ => if safe_state st then Some st else None
  | NIf _ t e =>
      match walk_list call t st, walk_list call e st with
      | Some a, Some b => if tstate_eqb a b then Some a else None
      | _, _ => None
      end
  | NRange _ _ _ body =>
      match walk_list call body st with
      | Some a => if tstate_eqb a st then Some st else None
      | None => None
      end
  | NCall name _ => call name st
  end.
Proof. destruct n; reflexivity. Qed.

Fixpoint range_loop (call : str -> dotv -> option (list piece)) (iv ev : str) (vars : list (str * value))
         (body : list node) (i : N) (l : list str) : option (list piece) :=
  match l with
  | [] => Some []
  | x :: r =>
      let en' := {| e_dot := DVal (VStr x);
                    e_vars := bind_var ev (VStr x) (bind_var iv (VInt i) vars) |} in
      match expand_list call body en' with
      | Some a => match range_loop call iv ev vars body (i + 1) r with Some b => Some (a ++ b) | None => None end
      | None => None
      end
  end.

Lemma expand_node_eq call n en :
  expand_node call n en =
  match n with
  | NText s => Some [PText s]
  | NOut e => match eval en e with
              | Some v => match to_text v with Some t => Some [PHole t] | None => None end
              | None => None
              end
  | NIf c t e => match eval en c with
                 | Some v => if truth v then expand_list call t en else expand_list call e en
                 | None => None
                 end
  | NRange iv ev e body =>
      match eval en e with
      | Some (VList l) => range_loop call iv ev (e_vars en) body 0 l
      | _ => None
      end
  | NCall name arg =>
      match arg with
      | None => call name DNil
      | Some EDot => call name (e_dot en)
      | Some a => match eval en a with Some v => call name (DVal v) | None => None end
      end
  end.
Proof.
  destruct n; try reflexivity.
  cbn [expand_node]. destruct (eval en e) as [[| | |l]|]; try reflexivity.
  generalize 0. induction l as [|x r IH]; intros i; [reflexivity|].
  cbn [range_loop]. rewrite <- IH. reflexivity.
Qed.

Definition call_sound (wcall : str -> tstate -> option tstate)
                      (ecall : str -> dotv -> option (list piece)) : Prop :=
  forall name st st' d ps, wcall name st = Some st' -> ecall name d = Some ps -> flat_walk st ps = Some st'.

Section Sound.
  Variable wcall : str -> tstate -> option tstate.
  Variable ecall : str -> dotv -> option (list piece).
  Hypothesis Hcall : call_sound wcall ecall.

  Definition node_ok (n : node) : Prop :=
    forall st st' en ps, walk_node wcall n st = Some st' -> expand_node ecall n en = Some ps ->
                         flat_walk st ps = Some st'.

  Lemma list_ok ns : Forall node_ok ns ->
    forall st st' en ps, walk_list wcall ns st = Some st' -> expand_list ecall ns en = Some ps ->
                         flat_walk st ps = Some st'.
  Proof.
    induction 1 as [|x r Hx Hr IH]; intros st st' en ps Hw He.
    - cbn in *. inversion Hw; inversion He; subst. reflexivity.
    - cbn [walk_list] in Hw. cbn [expand_list] in He.
      destruct (walk_node wcall x st) as [s1|] eqn:W; [|discriminate].
      destruct (expand_node ecall x en) as [a|] eqn:E; [|discriminate].
      destruct (expand_list ecall r en) as [b|] eqn:E2; [|discriminate].
      inversion He; subst ps. rewrite flat_walk_app, (Hx _ _ _ _ W E). eapply IH; eauto.
  Qed.

  Lemma node_sound : forall n, node_ok n.
  Proof.
    apply node_ind'; unfold node_ok.
    - intros s st st' en ps Hw He. rewrite walk_node_eq in Hw. rewrite expand_node_eq in He.
      inversion Hw; inversion He; subst. reflexivity.
    - intros e st st' en ps Hw He. rewrite walk_node_eq in Hw. rewrite expand_node_eq in He.
      destruct (safe_state st) eqn:S; [|discriminate]. inversion Hw; subst st'.
      destruct (eval en e) as [v|]; [|discriminate]. destruct (to_text v); [|discriminate].
      inversion He; subst. cbn [flat_walk]. rewrite S. reflexivity.
    - intros c t e Ht Hel st st' en ps Hw He. rewrite walk_node_eq in Hw. rewrite expand_node_eq in He.
      destruct (walk_list wcall t st) as [a|] eqn:Wt; [|discriminate].
      destruct (walk_list wcall e st) as [b|] eqn:We; [|discriminate].
      destruct (tstate_eqb a b) eqn:Eab; [|discriminate]. apply tstate_eqb_eq in Eab. subst b.
      inversion Hw; subst st'.
      destruct (eval en c) as [v|]; [|discriminate].
      destruct (truth v).
      + eapply (list_ok t Ht); eauto.
      + eapply (list_ok e Hel); eauto.
    - intros iv ev e body Hb st st' en ps Hw He. rewrite walk_node_eq in Hw. rewrite expand_node_eq in He.
      destruct (walk_list wcall body st) as [a|] eqn:Wb; [|discriminate].
      destruct (tstate_eqb a st) eqn:Eas; [|discriminate]. apply tstate_eqb_eq in Eas. subst a.
      inversion Hw; subst st'.
      destruct (eval en e) as [[| | |l]|]; try discriminate.
      revert ps He. generalize 0. induction l as [|x r IHl]; intros i ps He.
      + cbn in He. inversion He. reflexivity.
      + cbn [range_loop] in He.
        match type of He with context [expand_list ecall body ?E] =>
          destruct (expand_list ecall body E) as [a|] eqn:Ea; [|discriminate] end.
        destruct (range_loop ecall iv ev (e_vars en) body (i + 1) r) as [b|] eqn:Eb; [|discriminate].
        inversion He; subst ps. rewrite flat_walk_app.
        rewrite (list_ok body Hb _ _ _ _ Wb Ea). eapply IHl. exact Eb.
    - intros name arg st st' en ps Hw He. rewrite walk_node_eq in Hw. rewrite expand_node_eq in He.
      destruct arg as [a|].
      + destruct a; try (eapply Hcall; eassumption);
          (match type of He with context [eval en ?X] => destruct (eval en X) as [vv|]; [|discriminate] end);
          eapply Hcall; eassumption.
      + eapply Hcall; eauto.
  Qed.

  Lemma walk_list_sound ns st st' en ps :
    walk_list wcall ns st = Some st' -> expand_list ecall ns en = Some ps -> flat_walk st ps = Some st'.
  Proof. apply list_ok. apply Forall_forall. intros n _. apply node_sound. Qed.
End Sound.

Lemma call_sound_fuel tpls : forall f1 f2, call_sound (walk_call f1 tpls) (expand_call f2 tpls).
Proof.
  induction f1 as [|f1 IH]; intros f2 name st st' d ps Hw He; [discriminate Hw|].
  destruct f2 as [|f2]; [discriminate He|].
  cbn [walk_call] in Hw. cbn [expand_call] in He.
  destruct (lookup name tpls) as [body|]; [|discriminate].
  eapply walk_list_sound; [apply (IH f2) | exact Hw | exact He].
Qed.

(* page_safe, checked by computation on the template AST, covers every expansion of the page *)
Lemma page_safe_sound tpls name :
  page_safe tpls name = true ->
  forall data ps, expand_page tpls name data = Some ps -> flat_walk SData ps = Some SData.
Proof.
  unfold page_safe, expand_page. intros H data ps He.
  destruct (walk_call (call_fuel tpls) tpls name SData) as [st|] eqn:W; [|discriminate].
  apply tstate_eqb_eq in H. subst st.
  eapply call_sound_fuel; eauto.
Qed.

(* skeleton invariance: whatever strings the fields hold, two renderings of a safe page that took
   the same control path have the same tags, attribute names and delimiters, and the page ends
   in the data state *)
Lemma skeleton_invariant tpls name :
  page_safe tpls name = true ->
  forall d1 d2 p1 p2,
    expand_page tpls name d1 = Some p1 -> expand_page tpls name d2 = Some p2 ->
    same_shape p1 p2 = true ->
    skeleton (render_pieces p1) = skeleton (render_pieces p2) /\
    final_state (render_pieces p1) = SData.
Proof.
  intros Hs d1 d2 p1 p2 E1 E2 Sh.
  pose proof (page_safe_sound tpls name Hs d1 p1 E1) as W.
  destruct (flat_run p1 p2 SData SData Sh W) as [H1 H2].
  unfold skeleton, final_state. rewrite H1. split; [reflexivity|]. rewrite <- H1. exact H2.
Qed.

Lemma same_shape_refl p : same_shape p p = true.
Proof. induction p as [|[s|v] p IH]; cbn; rewrite ?str_eqb_refl; auto. Qed.

(* ------------------------------------------------------------------------------------------ *)
(** * Output-only fields cannot change the control path *)

Definition dot_agree (F : list str) (d1 d2 : dotv) : Prop :=
  d1 = d2 \/ exists r1 r2, d1 = DRec r1 /\ d2 = DRec r2 /\ rec_agree F r1 r2.
Definition env_agree (F : list str) (e1 e2 : env) : Prop :=
  e_vars e1 = e_vars e2 /\ dot_agree F (e_dot e1) (e_dot e2).

Definition shape_rel (a b : option (list piece)) : Prop :=
  match a, b with
  | Some p, Some q => same_shape p q = true
  | None, None => True
  | _, _ => False
  end.

Lemma shape_rel_refl a : shape_rel a a.
Proof. destruct a; cbn; [apply same_shape_refl | exact I]. Qed.

Lemma same_shape_app a a' b b' :
  same_shape a a' = true -> same_shape b b' = true -> same_shape (a ++ b) (a' ++ b') = true.
Proof.
  revert a'. induction a as [|[s|v] a IH]; intros [|[t|u] a'] Ha Hb; try discriminate Ha; cbn in *.
  - exact Hb.
  - apply andb_true_iff in Ha as [H1 H2]. rewrite H1. cbn. apply IH; assumption.
  - apply IH; assumption.
Qed.

Lemma eval_free F e1 e2 : env_agree F e1 e2 ->
  forall e, expr_free F e = true -> eval e1 e = eval e2 e.
Proof.
  intros [Hv Hd]. induction e; cbn [expr_free eval]; intros H; try discriminate H;
    try reflexivity;
    try (apply andb_true_iff in H as [Ha Hb]; rewrite (IHe1 Ha), (IHe2 Hb); reflexivity).
  - (* EField *)
    apply negb_true_iff in H. destruct Hd as [->|[r1 [r2 [-> [-> Hr]]]]]; [reflexivity|].
    specialize (Hr f). rewrite H in Hr. exact Hr.
  - rewrite Hv. reflexivity.
  - rewrite (IHe H). reflexivity.
Qed.

Definition tcall_sound (F : list str) (tcall : str -> bool)
                       (ecall : str -> dotv -> option (list piece)) : Prop :=
  forall name d1 d2, tcall name = true -> dot_agree F d1 d2 -> shape_rel (ecall name d1) (ecall name d2).

Lemma taint_node_eq call F n :
  taint_node call F n =
  match n with
  | NText _ => true
  | NOut (EField _) => true
  | NOut e => expr_free F e
  | NIf c t e => expr_free F c && taint_list call F t && taint_list call F e
  | NRange _ _ e body => expr_free F e && taint_list call F body
  | NCall name None => call name
  | NCall name (Some EDot) => call name
  | NCall _ (Some _) => false
  end.
Proof. destruct n; reflexivity. Qed.

Section TaintSound.
  Variable F : list str.
  Variable tcall : str -> bool.
  Variable ecall : str -> dotv -> option (list piece).
  Hypothesis Hcall : tcall_sound F tcall ecall.

  Definition tnode_ok (n : node) : Prop :=
    forall e1 e2, taint_node tcall F n = true -> env_agree F e1 e2 ->
                  shape_rel (expand_node ecall n e1) (expand_node ecall n e2).

  Lemma tlist_ok ns : Forall tnode_ok ns ->
    forall e1 e2, taint_list tcall F ns = true -> env_agree F e1 e2 ->
                  shape_rel (expand_list ecall ns e1) (expand_list ecall ns e2).
  Proof.
    induction 1 as [|x r Hx Hr IH]; intros e1 e2 Ht Ha.
    - cbn. reflexivity.
    - cbn [taint_list] in Ht. apply andb_true_iff in Ht as [T1 T2].
      cbn [expand_list]. specialize (Hx e1 e2 T1 Ha). specialize (IH e1 e2 T2 Ha).
      unfold shape_rel in *.
      destruct (expand_node ecall x e1) as [a|], (expand_node ecall x e2) as [a'|]; try contradiction; [|exact I].
      destruct (expand_list ecall r e1) as [b|], (expand_list ecall r e2) as [b'|]; try contradiction; [|exact I].
      apply same_shape_app; assumption.
  Qed.

  Lemma tnode_sound : forall n, tnode_ok n.
  Proof.
    apply node_ind'; unfold tnode_ok.
    - intros s e1 e2 _ _. rewrite !expand_node_eq. cbn. rewrite str_eqb_refl. reflexivity.
    - intros e e1 e2 Ht Ha. rewrite taint_node_eq in Ht. rewrite !expand_node_eq.
      assert (G : expr_free F e = true -> shape_rel
                 match eval e1 e with Some v => match to_text v with Some t => Some [PHole t] | None => None end | None => None end
                 match eval e2 e with Some v => match to_text v with Some t => Some [PHole t] | None => None end | None => None end).
      { intros Hf. rewrite (eval_free F e1 e2 Ha e Hf). apply shape_rel_refl. }
      destruct e; try (apply G; exact Ht).
      (* {{.f}} *)
      destruct (mem_str f F) eqn:M.
      + cbn [eval]. destruct Ha as [_ [Hd|[r1 [r2 [D1 [D2 Hr]]]]]].
        * rewrite Hd. apply shape_rel_refl.
        * rewrite D1, D2. specialize (Hr f). rewrite M in Hr. cbn in Hr.
          destruct (lookup f r1) as [[]|], (lookup f r2) as [[]|]; try contradiction; cbn; reflexivity.
      + apply G. cbn. rewrite M. reflexivity.
    - intros c t e Ht He e1 e2 Hta Ha. rewrite taint_node_eq in Hta. rewrite !expand_node_eq.
      apply andb_true_iff in Hta as [Hta T3]. apply andb_true_iff in Hta as [T1 T2].
      rewrite (eval_free F e1 e2 Ha c T1).
      destruct (eval e2 c) as [v|]; [|exact I].
      destruct (truth v); [apply (tlist_ok t Ht) | apply (tlist_ok e He)]; assumption.
    - intros iv ev e body Hb e1 e2 Hta Ha. rewrite taint_node_eq in Hta. rewrite !expand_node_eq.
      apply andb_true_iff in Hta as [T1 T2].
      rewrite (eval_free F e1 e2 Ha e T1).
      destruct (eval e2 e) as [[| | |l]|]; try exact I.
      destruct Ha as [Hv Hd]. rewrite Hv.
      generalize 0. induction l as [|x r IHl]; intros i; [cbn; reflexivity|].
      cbn [range_loop].
      match goal with |- shape_rel (match ?A with _ => _ end) _ => destruct A as [a|] end; [|exact I].
      specialize (IHl (i + 1)). unfold shape_rel in *.
      destruct (range_loop ecall iv ev (e_vars e2) body (i + 1) r) as [b|]; [|exact I].
      apply same_shape_app; [apply same_shape_refl | apply same_shape_refl].
    - intros name arg e1 e2 Hta Ha. rewrite taint_node_eq in Hta. rewrite !expand_node_eq.
      destruct arg as [a|].
      + destruct a; try discriminate Hta. apply Hcall; [exact Hta | exact (proj2 Ha)].
      + apply Hcall; [exact Hta | left; reflexivity].
  Qed.

  Lemma taint_list_sound ns e1 e2 :
    taint_list tcall F ns = true -> env_agree F e1 e2 ->
    shape_rel (expand_list ecall ns e1) (expand_list ecall ns e2).
  Proof. apply tlist_ok. apply Forall_forall. intros n _. apply tnode_sound. Qed.
End TaintSound.

Lemma tcall_sound_fuel tpls F : forall f1 f2, tcall_sound F (taint_call f1 tpls F) (expand_call f2 tpls).
Proof.
  induction f1 as [|f1 IH]; intros f2 name d1 d2 Ht Hd; [discriminate Ht|].
  destruct f2 as [|f2]; [exact I|].
  cbn [taint_call] in Ht. cbn [expand_call].
  destruct (lookup name tpls) as [body|]; [|exact I].
  apply (taint_list_sound F (taint_call f1 tpls F) (expand_call f2 tpls) (IH f2)); [exact Ht|].
  split; [reflexivity | exact Hd].
Qed.

Lemma output_only_shape tpls name F :
  output_only tpls name F = true ->
  forall d1 d2, rec_agree F d1 d2 -> shape_rel (expand_page tpls name d1) (expand_page tpls name d2).
Proof.
  unfold output_only, expand_page. intros H d1 d2 Hr.
  apply (tcall_sound_fuel tpls F _ _ name (DRec d1) (DRec d2) H).
  right. exists d1, d2. auto.
Qed.

(* Pages rendered for two records that differ only in strings held by output-only fields: both
   render (or both fail to), have the same structure, and end in the data state. *)
Lemma request_fields_inert tpls name F :
  page_safe tpls name = true -> output_only tpls name F = true ->
  forall d1 d2, rec_agree F d1 d2 ->
    match render_page tpls name d1, render_page tpls name d2 with
    | Some r1, Some r2 => skeleton r1 = skeleton r2 /\ final_state r1 = SData /\ final_state r2 = SData
    | None, None => True
    | _, _ => False
    end.
Proof.
  intros Hs Ho d1 d2 Hr. pose proof (output_only_shape tpls name F Ho d1 d2 Hr) as Sh.
  unfold render_page. unfold shape_rel in Sh.
  destruct (expand_page tpls name d1) as [p1|] eqn:E1, (expand_page tpls name d2) as [p2|] eqn:E2;
    try contradiction; [|exact I].
  destruct (skeleton_invariant tpls name Hs d1 d2 p1 p2 E1 E2 Sh) as [A B].
  split; [exact A | split; [exact B|]].
  pose proof (page_safe_sound tpls name Hs d2 p2 E2) as W2.
  destruct (flat_run p2 p2 SData SData (same_shape_refl p2) W2) as [_ H2]. exact H2.
Qed.

(* ------------------------------------------------------------------------------------------ *)
(** * The redirect note of net/http *)

Lemma net_escape_chars s c : In c (net_escape s) -> c <> 34 /\ c <> 39 /\ c <> 60 /\ c <> 62.
Proof.
  induction s as [|x r IH]; cbn [net_escape]; [intros []|].
  unfold net_repl.
  destruct (N.eqb_spec x 38) as [->|N1]; [cbn; intros [<-|[<-|[<-|[<-|[<-|H]]]]]; try (repeat split; discriminate); auto|].
  destruct (N.eqb_spec x 60) as [->|N2]; [cbn; intros [<-|[<-|[<-|[<-|H]]]]; try (repeat split; discriminate); auto|].
  destruct (N.eqb_spec x 62) as [->|N3]; [cbn; intros [<-|[<-|[<-|[<-|H]]]]; try (repeat split; discriminate); auto|].
  destruct (N.eqb_spec x 34) as [->|N4]; [cbn; intros [<-|[<-|[<-|[<-|[<-|H]]]]]; try (repeat split; discriminate); auto|].
  destruct (N.eqb_spec x 39) as [->|N5]; [cbn; intros [<-|[<-|[<-|[<-|[<-|H]]]]]; try (repeat split; discriminate); auto|].
  cbn. intros [<-|H]; [repeat split; assumption | auto].
Qed.

(* whatever the URL, the note is one anchor element with one href attribute, and ends in the
   data state: request text in a redirect target cannot add an element or attribute *)
Lemma run_app_proj st a b :
  run st (a ++ b) = (fst (run (fst (run st a)) b), snd (run st a) ++ snd (run (fst (run st a)) b)).
Proof. rewrite run_app. destruct (run st a) as [s1 e1]. cbn [fst snd]. destruct (run s1 b). reflexivity. Qed.

Lemma redirect_note_inert text : ~ In 60 text ->
  forall u1 u2, skeleton (redirect_note u1 text) = skeleton (redirect_note u2 text) /\
                final_state (redirect_note u1 text) = SData.
Proof.
  intros Ht.
  assert (P : run SData note_pre =
      (SValDq false [97] [104;114;101;102],
       [EvOpen false; EvName 97; EvAttr; EvAttrCh 104; EvAttrCh 114; EvAttrCh 101; EvAttrCh 102; EvValOpen 34]))
    by reflexivity.
  assert (M : run (SValDq false [97] [104;114;101;102]) note_mid = (SData, [EvValClose; EvTagEnd])) by reflexivity.
  assert (Q : run SData note_post = (SData, [EvOpen true; EvName 97; EvTagEnd])) by reflexivity.
  assert (G : forall u, run SData (redirect_note u text) =
              (SData, snd (run SData note_pre) ++ [EvValClose; EvTagEnd] ++ snd (run SData note_post))).
  { intros u. unfold redirect_note.
    rewrite run_app_proj, P. cbn [fst snd].
    rewrite run_app_proj, inert_dq by (intros H; apply net_escape_chars in H; tauto). cbn [fst snd].
    rewrite run_app_proj, M. cbn [fst snd].
    rewrite run_app_proj, (inert_data text Ht). cbn [fst snd].
    rewrite Q. cbn [fst snd app]. reflexivity. }
  intros u1 u2. unfold skeleton, final_state. rewrite !G. split; reflexivity.
Qed.

Lemma strip_pre_app p s : strip_pre p (p ++ s) = Some s.
Proof. induction p as [|c p IH]; [reflexivity|]. cbn. rewrite N.eqb_refl. exact IH. Qed.

Lemma strip_suffix_rev_app p s : strip_suffix_rev (p ++ s) p = Some s.
Proof. induction p as [|c p IH]; [reflexivity|]. cbn. rewrite N.eqb_refl. exact IH. Qed.

Lemma note_url_of_note url text : note_url (redirect_note url text) text = Some (net_escape url).
Proof.
  unfold note_url, redirect_note. rewrite strip_pre_app.
  rewrite rev_app_distr. rewrite strip_suffix_rev_app. rewrite rev_involutive. reflexivity.
Qed.

(* decoding the references of the escaped URL gives the URL back *)
Lemma html_unescape_net_escape : forall s, html_unescape (net_escape s) = s.
Proof.
  induction s as [|c r IH]; [reflexivity|]. cbn [net_escape]. unfold net_repl.
  destruct (N.eqb_spec c 38) as [->|N1]; [cbn; rewrite IH; reflexivity|].
  destruct (N.eqb_spec c 60) as [->|N2]; [cbn; rewrite IH; reflexivity|].
  destruct (N.eqb_spec c 62) as [->|N3]; [cbn; rewrite IH; reflexivity|].
  destruct (N.eqb_spec c 34) as [->|N4]; [cbn; rewrite IH; reflexivity|].
  destruct (N.eqb_spec c 39) as [->|N5]; [cbn; rewrite IH; reflexivity|].
  cbn [html_unescape]. rewrite (neq_eqb _ _ N1), IH. reflexivity.
Qed.
