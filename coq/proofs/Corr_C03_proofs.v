(* The monitor of Corr_C03 accepts the model's own prediction: for the repaired model (scrub = true)
   on every input on which the client's Connection header does not name an identity header, and
   for the code that exists (scrub = false) when in addition the client sent no identity header.
   This ties the boolean specification applied to the backend's observations to the theorems of
   ReqHeaders_proofs. *)
From V Require Import Base Base_proofs CorrBase ReqHeaders ReqHeaders_proofs Corr_C03.

Lemma pair_eqb_eq x y : pair_eqb x y = true <-> x = y.
Proof.
  unfold pair_eqb. destruct x as [a b], y as [c d]. cbn [fst snd].
  rewrite andb_true_iff, !str_eqb_eq. split; [intros [-> ->]; reflexivity | intros H; inversion H; auto].
Qed.

Lemma pairs_eqb_refl l : pairs_eqb l l = true.
Proof. unfold pairs_eqb. apply (list_eqb_spec pair_eqb pair_eqb_eq). reflexivity. Qed.

Lemma strs_eqb_refl l : strs_eqb l l = true.
Proof. apply strs_eqb_eq. reflexivity. Qed.

Lemma existsb_false_intro {A} (f : A -> bool) l : (forall x, In x l -> f x = false) -> existsb f l = false.
Proof.
  induction l as [|x l IH]; [reflexivity|]. intros H. cbn [existsb].
  rewrite (H x (or_introl eq_refl)), IH; [reflexivity|]. intros y Hy. apply H. right; exact Hy.
Qed.

Definition model_cookies (scrub : bool) cfg m client : list (str * str) :=
  map name_value (read_cookies (h_get k_cookie (upstream scrub cfg m client))).

(* clause D on the model's output, unconditionally *)
Lemma model_clause_D scrub cfg m client :
  existsb (fun nv => str_eqb (fst nv) (cookie_name cfg)) (model_cookies scrub cfg m client) ||
  existsb (fun c => str_eqb (c_name c) (cookie_name cfg)) (read_cookies (h_get k_cookie (upstream scrub cfg m client))) = false.
Proof.
  apply orb_false_iff. split; apply existsb_false_intro.
  - intros nv Hin. unfold model_cookies in Hin. apply in_map_iff in Hin as [c [<- Hc]].
    apply str_eqb_neq. cbn. apply (upstream_cookie_stripped scrub cfg m client c Hc).
  - intros c Hc. apply str_eqb_neq. apply (upstream_cookie_stripped scrub cfg m client c Hc).
Qed.

Lemma injected_nil cfg k : is_nil (injected cfg k) = true -> operator_clean cfg k.
Proof. unfold injected, operator_clean. destruct (last_injected k (inject cfg)); [discriminate | reflexivity]. Qed.

(* clause E on the model's output *)
Lemma model_clause_E scrub cfg m client :
  (m = SkipAuth \/ operator_clean cfg k_connection) ->
  cookies_guard cfg RProxy m client && negb (pairs_eqb (model_cookies scrub cfg m client) (want_cookies (cookie_name cfg) client)) = false.
Proof.
  intros G. destruct (cookies_guard cfg RProxy m client) eqn:Eg; [|reflexivity]. cbn [andb].
  unfold cookies_guard in Eg. apply andb_true_iff in Eg as [E1 E2]. apply negb_true_iff in E1.
  unfold model_cookies. rewrite upstream_cookies_kept; [rewrite pairs_eqb_refl; reflexivity | | exact E1].
  destruct m as [s|]; [right | left; reflexivity].
  split; [apply injected_nil; exact E2 | destruct G as [G|G]; [discriminate | exact G]].
Qed.

Lemma accept_skip scrub cfg client k :
  (scrub = true \/ forall k, In k identity_keys -> client_sent client k = false) ->
  In k identity_keys -> is_nil (h_get k (upstream scrub cfg SkipAuth client)) = true.
Proof.
  intros G3 Hk. destruct scrub; [rewrite upstream_skip_absent by exact Hk; reflexivity|].
  destruct G3 as [G|G]; [discriminate|].
  rewrite upstream_skip_today; [reflexivity | exact Hk | apply G; exact Hk].
Qed.

Lemma accept_token scrub cfg s client :
  operator_clean cfg k_connection ->
  (forall k, In k identity_keys -> client_conn_names client k = false) ->
  (scrub = true \/ forall k, In k identity_keys -> client_sent client k = false) ->
  h_get k_xfat (upstream scrub cfg (Authenticated s) client) = allowed_token cfg s.
Proof.
  intros G1 G2 G3. rewrite upstream_get by (right; exact G1).
  rewrite (G2 k_xfat) by (cbn; auto 6). assert (mem_str k_xfat hop_headers = false) as -> by reflexivity. cbn [orb].
  rewrite trp_token. unfold allowed_token. destruct (token_enabled cfg s); [reflexivity|].
  destruct (last_injected k_xfat (inject cfg)); [reflexivity|].
  destruct scrub; [reflexivity|]. destruct G3 as [G|G]; [discriminate|].
  apply mk_headers_absent. apply G. cbn; auto 6.
Qed.

Lemma monitor_accepts_model scrub cfg m client :
  (m = SkipAuth \/ operator_clean cfg k_connection) ->
  (forall k, In k identity_keys -> client_conn_names client k = false) ->
  (scrub = true \/ forall k, In k identity_keys -> client_sent client k = false) ->
  let out := upstream scrub cfg m client in
  holds cfg RProxy m client (h_get k_xfu out) (h_get k_xfe out) (h_get k_xfg out) (h_get k_xfat out) (h_get k_cookie out)
        (model_cookies scrub cfg m client) = true.
Proof.
  intros G1 G2 G3. unfold holds, monitor. cbv zeta.
  pose proof (model_clause_D scrub cfg m client) as HD.
  pose proof (model_clause_E scrub cfg m client G1) as HE.
  destruct m as [s|].
  - cbn [v_fail]. rewrite HD, HE.
    assert (Hc: operator_clean cfg k_connection) by (destruct G1 as [G|G]; [discriminate | exact G]).
    destruct (upstream_auth_headers scrub cfg s client Hc) as [Hu [He Hg]].
    rewrite Hu by (apply G2; cbn; auto). rewrite He by (apply G2; cbn; auto). rewrite Hg by (apply G2; cbn; auto).
    rewrite (accept_token scrub cfg s client Hc G2 G3).
    unfold want_user, want_email, want_groups. rewrite !strs_eqb_refl. reflexivity.
  - cbn [v_fail]. rewrite HD, HE.
    rewrite (accept_skip scrub cfg client k_xfu G3) by (cbn; auto). rewrite (accept_skip scrub cfg client k_xfe G3) by (cbn; auto).
    rewrite (accept_skip scrub cfg client k_xfg G3) by (cbn; auto). rewrite (accept_skip scrub cfg client k_xfat G3) by (cbn; auto 6).
    reflexivity.
Qed.

(* the two instances named in the notes *)
Lemma monitor_accepts_repaired_model cfg m client :
  (m = SkipAuth \/ operator_clean cfg k_connection) ->
  (forall k, In k identity_keys -> client_conn_names client k = false) ->
  let out := upstream true cfg m client in
  holds cfg RProxy m client (h_get k_xfu out) (h_get k_xfe out) (h_get k_xfg out) (h_get k_xfat out) (h_get k_cookie out)
        (map name_value (read_cookies (h_get k_cookie out))) = true.
Proof. intros G1 G2. apply (monitor_accepts_model true cfg m client G1 G2). left; reflexivity. Qed.

Lemma monitor_accepts_todays_model cfg m client :
  (m = SkipAuth \/ operator_clean cfg k_connection) ->
  (forall k, In k identity_keys -> client_conn_names client k = false) ->
  (forall k, In k identity_keys -> client_sent client k = false) ->
  let out := upstream false cfg m client in
  holds cfg RProxy m client (h_get k_xfu out) (h_get k_xfe out) (h_get k_xfg out) (h_get k_xfat out) (h_get k_cookie out)
        (map name_value (read_cookies (h_get k_cookie out))) = true.
Proof. intros G1 G2 G3. apply (monitor_accepts_model false cfg m client G1 G2). right; exact G3. Qed.

(* and the monitor does reject the three witnesses (the findings are visible to it) *)
Lemma monitor_rejects_witnesses :
  (let client := [(k_xfu, w_evil)] in let out := upstream false w_cfg SkipAuth client in
   holds w_cfg RProxy SkipAuth client (h_get k_xfu out) (h_get k_xfe out) (h_get k_xfg out) (h_get k_xfat out)
         (h_get k_cookie out) [] = false) /\
  (let client := [(k_xfat, w_evil)] in let out := upstream false w_cfg (Authenticated w_sess) client in
   holds w_cfg RProxy (Authenticated w_sess) client (h_get k_xfu out) (h_get k_xfe out) (h_get k_xfg out) (h_get k_xfat out)
         (h_get k_cookie out) [] = false) /\
  (let client := [(k_connection, k_xfu)] in let out := upstream false w_cfg (Authenticated w_sess) client in
   holds w_cfg RProxy (Authenticated w_sess) client (h_get k_xfu out) (h_get k_xfe out) (h_get k_xfg out) (h_get k_xfat out)
         (h_get k_cookie out) [] = false).
Proof. repeat split; vm_compute; reflexivity. Qed.

(* when a refresh / revalidation is due: on the model's own output the mode the monitor judges by
   (built from the re-saved session) is the mode the model computed with *)
Lemma observed_mode_of_model allowed d m :
  observed_mode (model_saved allowed d RProxy m) m = model_mode allowed d m.
Proof. destruct m as [s|]; [|reflexivity]. destruct d; reflexivity. Qed.

Lemma monitor_accepts_model_due scrub cfg m allowed d client :
  (m = SkipAuth \/ operator_clean cfg k_connection) ->
  (forall k, In k identity_keys -> client_conn_names client k = false) ->
  (scrub = true \/ forall k, In k identity_keys -> client_sent client k = false) ->
  let out := upstream scrub cfg (model_mode allowed d m) client in
  holds cfg RProxy (observed_mode (model_saved allowed d RProxy m) m) client
        (h_get k_xfu out) (h_get k_xfe out) (h_get k_xfg out) (h_get k_xfat out) (h_get k_cookie out)
        (map name_value (read_cookies (h_get k_cookie out))) = true.
Proof.
  intros G1 G2 G3. rewrite observed_mode_of_model.
  apply (monitor_accepts_model scrub cfg (model_mode allowed d m) client); try assumption.
  destruct G1 as [->|G1]; [left; reflexivity | right; exact G1].
Qed.

(* the monitor sees a proxy that re-saves the refreshed session but asserts the presented one *)
Lemma monitor_rejects_stale_assertion :
  let allowed := [[101]; [111]; [116]] in
  let s := {| s_user := [98]; s_email := [98;64;99]; s_groups := [[116]; [101]]; s_token := [49] |} in
  let d := RefreshDue [50] [[116]; [111]; [120]] in
  let stale := upstream true w_cfg (Authenticated s) [] in
  holds w_cfg RProxy (observed_mode (resaved_session allowed s d) (Authenticated s)) []
        (h_get k_xfu stale) (h_get k_xfe stale) (h_get k_xfg stale) (h_get k_xfat stale) (h_get k_cookie stale) [] = false.
Proof. vm_compute. reflexivity. Qed.

(* ---- every route that ends in the reverse proxy, for the code with the scrub step ---- *)

Lemma inject_applied_ran r m : inject_applied r m = inject_ran r m.
Proof. destruct r, m; reflexivity. Qed.

Lemma model_clause_D_r cfg r m client :
  existsb (fun nv => str_eqb (fst nv) (cookie_name cfg))
          (map name_value (read_cookies (h_get k_cookie (upstream_r true cfg r m client)))) ||
  existsb (fun c => str_eqb (c_name c) (cookie_name cfg)) (read_cookies (h_get k_cookie (upstream_r true cfg r m client))) = false.
Proof.
  apply orb_false_iff. split; apply existsb_false_intro.
  - intros nv Hin. apply in_map_iff in Hin as [c [<- Hc]].
    apply str_eqb_neq. cbn. apply (upstream_r_cookie_stripped true cfg r m client c Hc).
  - intros c Hc. apply str_eqb_neq. apply (upstream_r_cookie_stripped true cfg r m client c Hc).
Qed.

Lemma model_clause_E_r cfg r m client :
  (inject_ran r m = false \/ operator_clean cfg k_connection) ->
  cookies_guard cfg r m client &&
  negb (pairs_eqb (map name_value (read_cookies (h_get k_cookie (upstream_r true cfg r m client))))
                  (want_cookies (cookie_name cfg) client)) = false.
Proof.
  intros G. destruct (cookies_guard cfg r m client) eqn:Eg; [|reflexivity]. cbn [andb].
  unfold cookies_guard in Eg. apply andb_true_iff in Eg as [E1 E2]. apply negb_true_iff in E1.
  rewrite upstream_r_cookies_kept; [rewrite pairs_eqb_refl; reflexivity | | exact E1].
  rewrite inject_applied_ran in E2. destruct (inject_ran r m) eqn:Er; [right | left; reflexivity].
  cbn [negb orb] in E2. split; [apply injected_nil; exact E2 | destruct G as [G|G]; [discriminate | exact G]].
Qed.

Lemma monitor_accepts_model_routes cfg r m client :
  (inject_ran r m = false \/ operator_clean cfg k_connection) ->
  (forall k, In k identity_keys -> client_conn_names client k = false) ->
  let out := upstream_r true cfg r m client in
  holds cfg r m client (h_get k_xfu out) (h_get k_xfe out) (h_get k_xfg out) (h_get k_xfat out) (h_get k_cookie out)
        (map name_value (read_cookies (h_get k_cookie out))) = true.
Proof.
  intros G1 G2. unfold holds, monitor. cbv zeta.
  pose proof (model_clause_D_r cfg r m client) as HD.
  pose proof (model_clause_E_r cfg r m client G1) as HE.
  assert (Hget: forall k, In k identity_keys ->
            h_get k (upstream_r true cfg r m client) = h_get k (to_reverse_proxy_r true cfg r m client)).
  { intros k Hk. rewrite upstream_r_get by exact G1. rewrite (G2 k Hk).
    assert (mem_str k hop_headers = false) as ->; [|reflexivity].
    cbn in Hk. destruct Hk as [<-|[<-|[<-|[<-|[]]]]]; reflexivity. }
  destruct m as [s|].
  - cbn [v_fail]. rewrite HD, HE.
    rewrite (Hget k_xfu) by (cbn; auto). rewrite (Hget k_xfe) by (cbn; auto).
    rewrite (Hget k_xfg) by (cbn; auto). rewrite (Hget k_xfat) by (cbn; auto 6).
    unfold to_reverse_proxy_r.
    destruct (chain_auth_headers true cfg s (route_pre cfg r (mk_headers client))) as [Hu [He Hg]].
    rewrite Hu, He, Hg, chain_token.
    unfold want_user, want_email, want_groups. rewrite !strs_eqb_refl. reflexivity.
  - cbn [v_fail]. rewrite HD, HE.
    rewrite (Hget k_xfu) by (cbn; auto). rewrite (Hget k_xfe) by (cbn; auto).
    rewrite (Hget k_xfg) by (cbn; auto). rewrite (Hget k_xfat) by (cbn; auto 6).
    unfold to_reverse_proxy_r. rewrite !chain_skip by (cbn; auto 6). reflexivity.
Qed.

Lemma observed_mode_of_model_r allowed d r m :
  observed_mode (model_saved allowed d r m) m = model_mode allowed d m.
Proof. destruct m as [s|]; [|reflexivity]. destruct d; reflexivity. Qed.

Lemma inject_ran_model allowed d r m : inject_ran (model_route allowed d r) (model_mode allowed d m) = inject_ran r m.
Proof. destruct r, m; reflexivity. Qed.

(* the form [judge] uses: routes, due refresh / revalidation, monitor judging by the re-saved session *)
Lemma monitor_accepts_model_routes_due cfg r m allowed d client :
  (inject_ran r m = false \/ operator_clean cfg k_connection) ->
  (forall k, In k identity_keys -> client_conn_names client k = false) ->
  let out := upstream_r true cfg (model_route allowed d r) (model_mode allowed d m) client in
  holds cfg (model_route allowed d r) (observed_mode (model_saved allowed d r m) m) client
        (h_get k_xfu out) (h_get k_xfe out) (h_get k_xfg out) (h_get k_xfat out) (h_get k_cookie out)
        (map name_value (read_cookies (h_get k_cookie out))) = true.
Proof.
  intros G1 G2. rewrite observed_mode_of_model_r.
  apply monitor_accepts_model_routes; [rewrite inject_ran_model; exact G1 | exact G2].
Qed.

(* the monitor's route argument only matters through [inject_applied]: the presented and the
   asserted favicon session give the same verdict *)
Lemma holds_route_irrelevant cfg allowed d r m client ou oe og ot ol oc :
  holds cfg (model_route allowed d r) m client ou oe og ot ol oc = holds cfg r m client ou oe og ot ol oc.
Proof. destruct r; reflexivity. Qed.

(* the monitor sees a Favicon that hands the request to the upstream without going through Proxy *)
Lemma monitor_rejects_favicon_shortcut :
  let client := [(lower_ascii k_xfat, w_evil)] in
  let leaked := delete_cookie (cookie_name w_cfg) (route_pre w_cfg (RFavicon w_sess) (mk_headers client)) in
  holds w_cfg (RFavicon w_sess) (Authenticated w_sess) client
        (h_get k_xfu leaked) (h_get k_xfe leaked) (h_get k_xfg leaked) (h_get k_xfat leaked) (h_get k_cookie leaked) [] = false.
Proof. vm_compute. reflexivity. Qed.

(* clause F accepts the model: what the model re-saves is the presented or the freshly vouched session *)
Lemma session_eqb_refl s : session_eqb s s = true.
Proof. unfold session_eqb. rewrite !str_eqb_refl, strs_eqb_refl. reflexivity. Qed.

Lemma saved_legit_model allowed d r m : saved_legit allowed d m (model_saved allowed d r m) = true.
Proof.
  destruct m as [s|]; [|destruct r; reflexivity]. unfold saved_legit, model_saved.
  destruct d; cbn [resaved_session asserted_session fresh_session]; rewrite ?session_eqb_refl, ?orb_true_r; reflexivity.
Qed.

(* and it rejects an emptied session re-saved by a request that joined a coalesced refresh *)
Lemma saved_legit_rejects_emptied :
  let s := {| s_user := [98]; s_email := [98;64;99]; s_groups := [[116]; [101]]; s_token := [49] |} in
  saved_legit [[101]; [111]; [116]] (JoinedRefresh [50] [[116]]) (Authenticated s)
              (Some {| s_user := [98]; s_email := [98;64;99]; s_groups := []; s_token := [] |}) = false.
Proof. reflexivity. Qed.
