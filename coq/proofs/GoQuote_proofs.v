(* GoQuote_proofs.v — %q is self-delimiting and injective, for every IsPrint table:
   go_quote a ++ x = go_quote b ++ y -> a = b /\ x = y   (byte strings), and the same for the
   rendering of a []string. Proved through a left inverse (unq). *)
From V Require Import Base Base_proofs GoQuote.
From Coq Require Import Lia ZifyN ZifyNat ZifyBool.
Ltac Zify.zify_post_hook ::= Z.div_mod_to_equations.

Definition bytes (s : str) : Prop := Forall (fun b => b < 256) s.

Lemma unhex_hexd n : n < 16 -> unhex (hexd n) = n.
Proof.
  intros H. unfold hexd, unhex. destruct (N.ltb_spec n 10).
  - destruct (N.ltb_spec (48 + n) 58); lia.
  - destruct (N.ltb_spec (87 + n) 58); lia.
Qed.

Lemma hex2_round b : b < 256 -> unhex (hexd (b / 16)) * 16 + unhex (hexd (b mod 16)) = b.
Proof. intros H. rewrite !unhex_hexd by lia. lia. Qed.

Lemma hex4_round c : c < 65536 ->
  unhex4 (hexd (c / 4096)) (hexd ((c / 256) mod 16)) (hexd ((c / 16) mod 16)) (hexd (c mod 16)) = c.
Proof. intros H. unfold unhex4. rewrite !unhex_hexd by lia. lia. Qed.

Lemma pre_pre p q o : pre p (pre q o) = pre (p ++ q) o.
Proof. destruct o as [[x r]|]; simpl; [rewrite app_assoc; reflexivity | reflexivity]. Qed.

(* bytes >= 0x80 are copied through *)
Lemma unq_raw p rest f : Forall (fun b => 128 <= b) p -> unq (length p + f) (p ++ rest) = pre p (unq f rest).
Proof.
  induction p as [|c p IH]; intros H.
  - simpl. destruct (unq f rest) as [[x r]|]; reflexivity.
  - inversion H; subst. cbn [length Nat.add app unq].
    assert (c =? dquote = false) as -> by (apply N.eqb_neq; unfold dquote; lia).
    assert (c =? bslash = false) as -> by (apply N.eqb_neq; unfold bslash; lia).
    rewrite IH by assumption. rewrite pre_pre. reflexivity.
Qed.

Lemma unq_x b f rest : b < 256 -> unq (S f) ((bslash :: 120 :: hex2 b) ++ rest) = pre [b] (unq f rest).
Proof. intros H. cbn [app hex2 unq]. cbn. rewrite hex2_round by exact H. reflexivity. Qed.

Lemma unq_ascii b f rest : b < 128 -> unq (S f) (esc_ascii b ++ rest) = pre [b] (unq f rest).
Proof.
  intros H. unfold esc_ascii.
  destruct (b =? dquote) eqn:E1; [apply N.eqb_eq in E1; subst; reflexivity|].
  destruct (b =? bslash) eqn:E2; [apply N.eqb_eq in E2; subst; reflexivity|].
  destruct ((32 <=? b) && (b <=? 126)) eqn:E3; [cbn [app unq]; rewrite E1, E2; reflexivity|].
  destruct (b =? 7) eqn:E4; [apply N.eqb_eq in E4; subst; reflexivity|].
  destruct (b =? 8) eqn:E5; [apply N.eqb_eq in E5; subst; reflexivity|].
  destruct (b =? 12) eqn:E6; [apply N.eqb_eq in E6; subst; reflexivity|].
  destruct (b =? 10) eqn:E7; [apply N.eqb_eq in E7; subst; reflexivity|].
  destruct (b =? 13) eqn:E8; [apply N.eqb_eq in E8; subst; reflexivity|].
  destruct (b =? 9) eqn:E9; [apply N.eqb_eq in E9; subst; reflexivity|].
  destruct (b =? 11) eqn:E10; [apply N.eqb_eq in E10; subst; reflexivity|].
  apply unq_x. lia.
Qed.

Lemma unq_u cp f rest : cp < 65536 -> unq (S f) ((bslash :: 117 :: hex4 cp) ++ rest) = pre (utf8_encode cp) (unq f rest).
Proof. intros H. cbn [app hex4 unq]. cbn. rewrite hex4_round by exact H. reflexivity. Qed.

Lemma unq_U cp f rest : cp < 4294967296 -> unq (S f) ((bslash :: 85 :: hex8 cp) ++ rest) = pre (utf8_encode cp) (unq f rest).
Proof.
  intros H. unfold hex8. cbn [app hex4 unq]. cbn.
  rewrite !hex4_round by lia. replace (cp / 65536 * 65536 + cp mod 65536) with cp by lia. reflexivity.
Qed.

(* what utf8.DecodeRune accepts: the consumed bytes are all >= 0x80 and are the encoding of the rune *)
Lemma decode_multi_spec s cp w :
  bytes s -> decode_multi s = Some (cp, w) ->
  exists p rest, s = p ++ rest /\ length p = w /\ Forall (fun b => 128 <= b) p /\ utf8_encode cp = p /\
                 cp < 1114112 /\ (1 <= w)%nat.
Proof.
  intros Hb H. destruct s as [|b0 r]; [discriminate|]. unfold decode_multi in H.
  destruct ((194 <=? b0) && (b0 <=? 223)) eqn:E2.
  { destruct r as [|b1 r]; [discriminate|]. destruct (is_cont b1) eqn:C1; [|discriminate]. inversion H; subst. clear H.
    exists [b0; b1], r. unfold is_cont in C1. unfold utf8_encode.
    repeat split; try reflexivity; try lia.
    - repeat constructor; lia.
    - destruct (N.ltb_spec ((b0 - 192) * 64 + (b1 - 128)) 128); [lia|].
      destruct (N.ltb_spec ((b0 - 192) * 64 + (b1 - 128)) 2048); [|lia].
      f_equal; [lia|]. f_equal. lia. }
  destruct ((224 <=? b0) && (b0 <=? 239)) eqn:E3.
  { destruct r as [|b1 [|b2 r]]; try discriminate.
    destruct (((if b0 =? 224 then 160 else 128) <=? b1) && (b1 <=? (if b0 =? 237 then 159 else 191)) && is_cont b2) eqn:C; [|discriminate].
    inversion H; subst. clear H. exists [b0; b1; b2], r. unfold is_cont in C. unfold utf8_encode.
    destruct (N.eqb_spec b0 224), (N.eqb_spec b0 237); try lia;
      (repeat split; try reflexivity; try lia; [repeat constructor; lia|];
       match goal with |- context [?c <? 128] => destruct (N.ltb_spec c 128); [lia|] end;
       match goal with |- context [?c <? 2048] => destruct (N.ltb_spec c 2048); [lia|] end;
       match goal with |- context [?c <? 65536] => destruct (N.ltb_spec c 65536); [|lia] end;
       f_equal; [lia|]; f_equal; [lia|]; f_equal; lia). }
  destruct ((240 <=? b0) && (b0 <=? 244)) eqn:E4; [|discriminate].
  destruct r as [|b1 [|b2 [|b3 r]]]; try discriminate.
  destruct (((if b0 =? 240 then 144 else 128) <=? b1) && (b1 <=? (if b0 =? 244 then 143 else 191)) && is_cont b2 && is_cont b3) eqn:C; [|discriminate].
  inversion H; subst. clear H. exists [b0; b1; b2; b3], r. unfold is_cont in C. unfold utf8_encode.
  destruct (N.eqb_spec b0 240), (N.eqb_spec b0 244); try lia;
    (repeat split; try reflexivity; try lia; [repeat constructor; lia|];
     match goal with |- context [?c <? 128] => destruct (N.ltb_spec c 128); [lia|] end;
     match goal with |- context [?c <? 2048] => destruct (N.ltb_spec c 2048); [lia|] end;
     match goal with |- context [?c <? 65536] => destruct (N.ltb_spec c 65536); [lia|] end;
     f_equal; [lia|]; f_equal; [lia|]; f_equal; [lia|]; f_equal; lia).
Qed.

Lemma bytes_app a b : bytes (a ++ b) <-> bytes a /\ bytes b.
Proof. unfold bytes. apply Forall_app. Qed.

(* the left inverse reads back exactly what Quote wrote, whatever follows *)
Lemma unq_qbody isprint : forall n s x fuel,
  (length s <= n)%nat -> bytes s -> (length (qbody isprint n s) < fuel)%nat ->
  unq fuel (qbody isprint n s ++ dquote :: x) = Some (s, x).
Proof.
  induction n as [|n IH]; intros s x fuel Hn Hb Hf.
  - destruct s; [|simpl in Hn; lia]. simpl in *. destruct fuel; [lia|]. reflexivity.
  - destruct s as [|b0 r].
    + simpl in *. destruct fuel; [lia|]. reflexivity.
    + cbn [qbody] in *. inversion Hb as [|? ? Hb0 Hbr]; subst. simpl in Hn.
      destruct (N.ltb_spec b0 128).
      * rewrite app_length in Hf. destruct fuel as [|f]; [lia|].
        rewrite <- app_assoc, unq_ascii by assumption.
        assert (1 <= length (esc_ascii b0))%nat.
        { unfold esc_ascii. repeat match goal with |- context [if ?c then _ else _] => destruct c end; simpl; lia. }
        rewrite IH; [reflexivity | lia | exact Hbr | lia].
      * destruct (decode_multi (b0 :: r)) as [[cp w]|] eqn:D.
        -- destruct (decode_multi_spec _ _ _ Hb D) as [p [rest [Hs [Hl [Hp [He [Hcp Hw]]]]]]].
           assert (firstn w (b0 :: r) = p) as Hfn by (rewrite Hs, <- Hl; apply firstn_app_length || (rewrite firstn_app, Nat.sub_diag, firstn_all; simpl; apply app_nil_r)).
           assert (skipn w (b0 :: r) = rest) as Hsk by (rewrite Hs, <- Hl, skipn_app, Nat.sub_diag, skipn_all; reflexivity).
           rewrite Hfn, Hsk in *.
           assert (bytes rest /\ (length rest <= n)%nat) as [Hbrest Hlrest].
           { split.
             - assert (bytes (p ++ rest)) as Hpr by (rewrite <- Hs; exact Hb). apply bytes_app in Hpr. tauto.
             - assert (length (b0 :: r) = length (p ++ rest)) as Hlen by (rewrite Hs; reflexivity).
               rewrite app_length in Hlen. simpl in Hlen. lia. }
           rewrite app_length in Hf. rewrite <- app_assoc.
           destruct (isprint cp).
           ++ replace fuel with (length p + (fuel - length p))%nat by lia.
              rewrite unq_raw by exact Hp. rewrite IH; [|exact Hlrest | exact Hbrest | lia].
              simpl. rewrite Hs. reflexivity.
           ++ destruct (N.ltb_spec cp 65536).
              ** destruct fuel as [|f]; [lia|]. rewrite unq_u by assumption. simpl in Hf.
                 rewrite IH; [|exact Hlrest | exact Hbrest | lia]. simpl. rewrite He, Hs. reflexivity.
              ** destruct fuel as [|f]; [lia|]. rewrite unq_U by lia. simpl in Hf.
                 rewrite IH; [|exact Hlrest | exact Hbrest | lia]. simpl. rewrite He, Hs. reflexivity.
        -- rewrite app_length in Hf. destruct fuel as [|f]; [lia|]. rewrite <- app_assoc, unq_x by exact Hb0.
           simpl in Hf. rewrite IH; [reflexivity | lia | exact Hbr | lia].
Qed.

(* %q of a string is self-delimiting and injective *)
Theorem go_quote_cut isprint a b x y :
  bytes a -> bytes b -> go_quote isprint a ++ x = go_quote isprint b ++ y -> a = b /\ x = y.
Proof.
  intros Ha Hb H. unfold go_quote in H. simpl in H. inversion H as [H1]. clear H.
  rewrite <- !app_assoc in H1. simpl in H1.
  pose proof (unq_qbody isprint (length a) a x (S (length (qbody isprint (length a) a) + length (qbody isprint (length b) b)))
                        (le_n _) Ha ltac:(lia)) as Ua.
  pose proof (unq_qbody isprint (length b) b y (S (length (qbody isprint (length a) a) + length (qbody isprint (length b) b)))
                        (le_n _) Hb ltac:(lia)) as Ub.
  rewrite H1 in Ua. rewrite Ua in Ub. inversion Ub. auto.
Qed.

Corollary go_quote_injective isprint a b : bytes a -> bytes b -> go_quote isprint a = go_quote isprint b -> a = b.
Proof.
  intros Ha Hb H. apply (go_quote_cut isprint a b [] []); auto. rewrite !app_nil_r. exact H.
Qed.

Definition all_bytes (l : list str) : Prop := Forall bytes l.

Lemma go_quote_head isprint g : exists t, go_quote isprint g = dquote :: t.
Proof. unfold go_quote. eauto. Qed.

Lemma cons_eq {A} (a b : A) x y : a :: x = b :: y -> a = b /\ x = y.
Proof. intros H. inversion H. auto. Qed.

Lemma qlist_rest_cut isprint : forall l1 l2 x y,
  all_bytes l1 -> all_bytes l2 ->
  qlist_rest isprint l1 ++ x = qlist_rest isprint l2 ++ y -> l1 = l2 /\ x = y.
Proof.
  induction l1 as [|g1 l1 IH]; intros [|g2 l2] x y H1 H2 H; cbn [qlist_rest app] in H.
  - apply cons_eq in H as [_ H]. auto.
  - apply cons_eq in H as [H _]. discriminate.
  - apply cons_eq in H as [H _]. discriminate.
  - apply cons_eq in H as [_ H']. inversion H1; inversion H2; subst. rewrite <- !app_assoc in H'.
    apply go_quote_cut in H' as [-> H']; auto. apply IH in H' as [-> ->]; auto.
Qed.

(* %q of a []string is self-delimiting and injective *)
Theorem go_qlist_cut isprint l1 l2 x y :
  all_bytes l1 -> all_bytes l2 -> go_qlist isprint l1 ++ x = go_qlist isprint l2 ++ y -> l1 = l2 /\ x = y.
Proof.
  intros H1 H2 H. destruct l1 as [|g1 l1], l2 as [|g2 l2]; cbn [go_qlist app] in H.
  - apply cons_eq in H as [_ H]. apply cons_eq in H as [_ H]. auto.
  - apply cons_eq in H as [_ H]. destruct (go_quote_head isprint g2) as [t Ht]. rewrite Ht in H.
    cbn [app] in H. apply cons_eq in H as [H _]. discriminate.
  - apply cons_eq in H as [_ H]. destruct (go_quote_head isprint g1) as [t Ht]. rewrite Ht in H.
    cbn [app] in H. apply cons_eq in H as [H _]. discriminate.
  - apply cons_eq in H as [_ H']. inversion H1; inversion H2; subst. rewrite <- !app_assoc in H'.
    apply go_quote_cut in H' as [-> H']; auto. apply qlist_rest_cut in H' as [-> ->]; auto.
Qed.

(* the two-component keys: %q:%q of (string, string) and of (string, []string) *)
Theorem key_pair_injective isprint a1 b1 a2 b2 :
  bytes a1 -> bytes b1 -> bytes a2 -> bytes b2 ->
  go_quote isprint a1 ++ 58 :: go_quote isprint b1 = go_quote isprint a2 ++ 58 :: go_quote isprint b2 ->
  a1 = a2 /\ b1 = b2.
Proof.
  intros A1 B1 A2 B2 H. apply go_quote_cut in H as [-> H]; auto. apply cons_eq in H as [_ H'].
  split; [reflexivity|]. eapply go_quote_injective; eauto.
Qed.

Theorem key_list_injective isprint a1 l1 a2 l2 :
  bytes a1 -> all_bytes l1 -> bytes a2 -> all_bytes l2 ->
  go_quote isprint a1 ++ 58 :: go_qlist isprint l1 = go_quote isprint a2 ++ 58 :: go_qlist isprint l2 ->
  a1 = a2 /\ l1 = l2.
Proof.
  intros A1 L1 A2 L2 H. apply go_quote_cut in H as [-> H]; auto. apply cons_eq in H as [_ H'].
  split; [reflexivity|]. apply (go_qlist_cut isprint l1 l2 [] []); auto. rewrite !app_nil_r. exact H'.
Qed.
