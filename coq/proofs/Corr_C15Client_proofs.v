(* The client monitor of Corr_C15Client (the property on observations of the real
   GoogleAdminService) accepts the projected trace of the model for EVERY event list, script and
   parameter choice. Two ingredients: the breaker monitor's acceptance (Corr_C15_proofs) and the
   agreement between the programs of BreakerClient.v (continuation style) and the direct-style
   reading [replay] of listMemberships / CheckMemberships on an operation's own exchanges. *)
From V Require Import Base Base_proofs CorrBase Breaker Breaker_proofs BreakerClient BreakerClient_proofs
     Corr_C15 Corr_C15_proofs Corr_C15Client.
From Coq Require Import ZifyBool ZifyNat Lia.
Open Scope Z_scope.

(* ---------- small facts ---------- *)
Lemma request_eqb_refl q : request_eqb q q = true.
Proof. destruct q; simpl; rewrite !str_eqb_refl; reflexivity. Qed.

Lemma request_eqb_eq a b : request_eqb a b = true -> a = b.
Proof.
  destruct a, b; simpl; try discriminate; intros H; apply andb_true_iff in H as [H1 H2];
    apply str_eqb_eq in H1, H2; congruence.
Qed.

Lemma result_eqb_refl r : result_eqb r r = true.
Proof.
  destruct r as [l|l|e]; simpl; [apply strs_eqb_eq; reflexivity| |].
  - assert (H : forallb (fun x => mem_str x l) l = true).
    { apply forallb_forall. intros x Hx. apply mem_str_In. exact Hx. }
    rewrite H. reflexivity.
  - destruct e; simpl; try reflexivity. apply Z.eqb_refl.
Qed.

Lemma vis_app a b : vis (a ++ b) = vis a ++ vis b.
Proof. apply filter_app. Qed.

Lemma vis_idem l : vis (vis l) = vis l.
Proof.
  unfold vis. induction l as [|h l IH]; simpl; [reflexivity|].
  destruct (negb (is_rule h)) eqn:E; simpl; [rewrite E, IH; reflexivity | exact IH].
Qed.

Lemma mon_start_vis p m o :
  mon_start p m o = mon_start p m (mkobs (o_adm o) (o_ran o) (vis (o_hooks o))).
Proof. unfold mon_start. simpl. rewrite vis_idem. reflexivity. Qed.

Lemma Forall2_nth_error {A B} (R : A -> B -> Prop) l l' i y :
  Forall2 R l l' -> nth_error l' i = Some y -> exists x, nth_error l i = Some x /\ R x y.
Proof.
  intros H; revert i; induction H as [|a b l l' Hab _ IH]; intros [|i] E; simpl in *; try discriminate.
  - injection E as <-. eauto.
  - apply IH, E.
Qed.

Lemma Forall2_nth_none {A B} (R : A -> B -> Prop) l l' i :
  Forall2 R l l' -> nth_error l' i = None -> nth_error l i = None.
Proof.
  intros H; revert i; induction H as [|a b l l' Hab _ IH]; intros [|i] E; simpl in *; try discriminate; auto.
Qed.

Lemma Forall2_remove_nth {A B} (R : A -> B -> Prop) l l' i :
  Forall2 R l l' -> Forall2 R (remove_nth i l) (remove_nth i l').
Proof.
  intros H; revert i; induction H as [|a b l l' Hab H IH]; intros [|i]; simpl; auto.
Qed.

Lemma Forall2_len {A B} (R : A -> B -> Prop) l l' : Forall2 R l l' -> length l = length l'.
Proof. induction 1; simpl; congruence. Qed.

(* ---------- programs vs. the direct-style reading ---------- *)
Definition fed_of (k : list str -> prog) (r : rout * list xchg) : fed :=
  match r with
  | (RAcc l, xs1) => feed (k l) xs1
  | (RDone r, xs1) => feed (Ret r) xs1
  | (RPend, _) => FPending (RErr EOpen)
  | (RWrong, _) => FWrong
  end.

Definition nested_rel (n : option (str -> (list str -> prog) -> prog))
           (n' : option (str -> list xchg -> rout * list xchg)) : Prop :=
  match n, n' with
  | None, None => True
  | Some f, Some f' => forall e k xs, feed (f e k) xs = fed_of k (f' e xs)
  | _, _ => False
  end.

Lemma feed_members n n' ms : nested_rel n n' -> forall acc k xs,
  feed (members_p n ms acc k) xs = fed_of k (rp_members n' ms acc xs).
Proof.
  intros Hn. induction ms as [|m ms IH]; intros acc k xs; simpl; [reflexivity|].
  destruct (mb_type m); try apply IH.
  destruct n as [f|], n' as [f'|]; simpl in Hn; try contradiction; [|apply IH].
  rewrite Hn. destruct (f' (mb_email m) xs) as [[l|r| |] xs1]; simpl; try reflexivity. apply IH.
Qed.

Lemma feed_pages n n' g fuel : nested_rel n n' -> forall tok acc k xs,
  feed (pages_p n g fuel tok acc k) xs = fed_of k (rp_pages n' g fuel tok acc xs).
Proof.
  intros Hn. induction fuel as [|fuel IH]; intros tok acc k xs; [reflexivity|].
  cbn [pages_p rp_pages feed].
  destruct xs as [|[q a] xs']; [reflexivity|].
  destruct (request_eqb (RList g tok) q); [|reflexivity].
  destruct a as [ms next|b|c|]; try reflexivity.
  rewrite (feed_members n n' ms Hn).
  destruct (rp_members n' ms acc xs') as [[l|r| |] xs1]; simpl; try reflexivity.
  destruct (is_nil_str next); [reflexivity | apply IH].
Qed.

Lemma feed_list_group F d : forall g k xs,
  feed (list_group F d g k) xs = fed_of k (rp_group F d g xs).
Proof.
  induction d as [|d IH]; intros g k xs; simpl; apply feed_pages; simpl; auto.
Qed.

Lemma feed_check gs email : forall acc xs,
  feed (check_prog gs email acc) xs = fed_of (fun l => Ret (ROk l)) (rp_check gs email acc xs).
Proof.
  induction gs as [|g gs IH]; intros acc xs; [reflexivity|].
  cbn [check_prog rp_check feed].
  destruct xs as [|[q a] xs']; [reflexivity|].
  destruct (request_eqb (RHas g email) q); [|reflexivity].
  destruct a as [ms next|b|c|]; try apply IH; [|reflexivity].
  destruct (c =? 404); [apply IH | reflexivity].
Qed.

Definition fed_top (r : rout * list xchg) : fed :=
  match r with
  | (RDone r, xs1) => feed (Ret r) xs1
  | (RPend, _) => FPending (RErr EOpen)
  | _ => FWrong
  end.

Lemma rp_check_no_acc gs email : forall acc xs l xs1, rp_check gs email acc xs <> (RAcc l, xs1).
Proof.
  induction gs as [|g gs IH]; intros acc xs l xs1; [discriminate|].
  cbn [rp_check].
  destruct xs as [|[q a] xs']; [discriminate|].
  destruct (request_eqb (RHas g email) q); [|discriminate].
  destruct a as [ms next|b|c|]; try apply IH; [|discriminate].
  destruct (c =? 404); [apply IH | discriminate].
Qed.

(* feeding an operation's program its exchanges = reading the code on them *)
Lemma feed_replay F o xs : feed (prog_of F o) xs = fed_top (replay F o xs).
Proof.
  assert (Hc : forall gs email, feed (check_prog gs email []) xs = fed_top (rp_check gs email [] xs)).
  { intros gs email. rewrite feed_check. pose proof (rp_check_no_acc gs email [] xs) as Hn.
    destruct (rp_check gs email [] xs) as [[l|r| |] xs1]; try reflexivity. exfalso. eapply Hn. reflexivity. }
  destruct o as [g d|gs email|looks email|g]; cbn [prog_of replay].
  - unfold list_prog. rewrite feed_list_group.
    destruct (rp_group F d g xs) as [[l|r| |] xs1]; reflexivity.
  - apply Hc.
  - unfold validate_prog. destruct looks as [|x looks]; [reflexivity|].
    destruct (looks_uncached (x :: looks)); [apply Hc | reflexivity].
  - unfold populate_prog. rewrite feed_list_group.
    destruct (rp_group F 4 g xs) as [[l|r| |] xs1]; reflexivity.
Qed.

Lemma result_ok_done F o xs r : feed (prog_of F o) xs = FDone r -> r <> RErr EOpen -> result_ok F o xs r = true.
Proof.
  rewrite feed_replay. unfold result_ok. intros H Hr.
  destruct (replay F o xs) as [[l|r'| |] xs1]; simpl in H; try discriminate.
  destruct xs1; [|discriminate]. injection H as ->.
  rewrite result_eqb_refl. destruct r as [l|l|[]]; try reflexivity. contradiction.
Qed.

Lemma result_ok_rejected F o xs rej : feed (prog_of F o) xs = FPending rej -> result_ok F o xs (RErr EOpen) = true.
Proof.
  rewrite feed_replay. unfold result_ok. intros H.
  destruct (replay F o xs) as [[l|r'| |] xs1]; simpl in H; try discriminate; [|reflexivity].
  destruct xs1; discriminate.
Qed.

Lemma resid_feed xs : forall p p', resid p xs = Some p' -> feed p xs = feed p' [].
Proof.
  induction xs as [|[q a] xs IH]; intros p p' H; simpl in H.
  - injection H as ->. reflexivity.
  - destruct p as [r|q0 rej k]; [discriminate|]. simpl.
    destruct (request_eqb q0 q); [|discriminate]. apply IH, H.
Qed.

Lemma resid_snoc xs : forall p q rej k a, resid p xs = Some (Req q rej k) -> resid p (xs ++ [(q, a)]) = Some (k a).
Proof.
  induction xs as [|[q1 a1] xs IH]; intros p q rej k a H; simpl in *.
  - injection H as ->. rewrite request_eqb_refl. reflexivity.
  - destruct p as [r|q0 rej0 k0]; [discriminate|].
    destruct (request_eqb q0 q1); [|discriminate]. eapply IH, H.
Qed.

(* ---------- simulation between the client monitor and the model ---------- *)
Section P.
Variable p : params.
Variable sc : script.
Notation F := page_budget.
Notation dir := (dir_of sc).
Notation bstep := (step (trip_of p) (reset_of p) (backoff_of p) (p_hom p)).
Notation issue := (issue (trip_of p) (reset_of p) (backoff_of p) (p_hom p)).
Notation sstep := (sstep (trip_of p) (reset_of p) (backoff_of p) (p_hom p) F dir).
Notation sstep_st := (sstep_st (trip_of p) (reset_of p) (backoff_of p) (p_hom p) F dir).
Notation SInv := (SInv (trip_of p) (reset_of p) (backoff_of p) (p_hom p)).

Definition ESim (en : entry) (pd : pending) : Prop :=
  e_op en = p_op pd /\ e_idx en = p_idx pd /\ e_req en = p_req pd /\
  resid (prog_of F (e_o en)) (e_hist en) = Some (p_k pd (dir (p_idx pd) (p_req pd))).

Record CSim (cm : cmon) (s : sys) : Prop := mkCSim {
  cs_mon : Sim (cm_mon cm) (br s);
  cs_nreq : cm_nreq cm = nreq s;
  cs_nops : cm_nops cm = nops s;
  cs_pend : Forall2 ESim (cm_pend cm) (pend s)
}.

(* the part of a step after the report: the operation runs on to its next Call or returns *)
Lemma cmon_after_accepts m1 pendm s0 opid o xs P hooks0 :
  Sim m1 (br s0) -> Inv (p_hom p) (br s0) -> Forall2 ESim pendm (pend s0) ->
  rej_open P -> resid (prog_of F o) xs = Some P ->
  let '(s', ost, orq, odn) := issue s0 opid P in
  exists cm', cmon_after p sc m1 (vis (opt_hooks ost)) pendm (nreq s0) (nops s0) opid o xs (mkcobs hooks0 orq odn) = Some cm' /\
              CSim cm' s'.
Proof.
  intros HS HI HP HR Hres. unfold cmon_after.
  pose proof (resid_feed xs _ _ Hres) as Hfeed.
  pose proof (issue_spec (trip_of p) (reset_of p) (backoff_of p) (p_hom p) s0 opid P) as Hsp.
  destruct (issue s0 opid P) as [[[s' ost] orq] odn].
  destruct P as [r|q rej k].
  - destruct Hsp as (-> & -> & -> & ->). cbn [co_req co_done opt_hooks vis filter is_nil].
    inversion HR as [r0 Hr|]; subst. rewrite Nat.eqb_refl. cbn [feed] in Hfeed.
    rewrite (result_ok_done F o xs r Hfeed Hr). cbn [andb].
    assert (Eo : is_open_err r = false) by (destruct r as [l|l|[]]; try reflexivity; contradiction).
    rewrite Eo. eexists; split; [reflexivity|]. constructor; simpl; auto.
  - inversion HR as [|q0 k0 Hk]; subst.
    destruct Hsp as (ob & -> & Hb & Hno & Hc).
    destruct (mon_start_accepts p m1 (br s0) HS HI) as [m2 [E2 S2]].
    rewrite <- Hb in E2, S2. cbn [fst snd] in E2, S2. rewrite mon_start_vis in E2.
    cbn [co_req co_done opt_hooks].
    destruct Hc as [(Ea & Er & -> & -> & Ep & En)|(Ea & Er & -> & -> & Ep & En)].
    + rewrite Ea, Er in E2. rewrite !Nat.eqb_refl. cbn [andb]. rewrite E2.
      eexists; split; [reflexivity|]. constructor; cbn [cm_mon cm_pend cm_nreq cm_nops]; auto.
      rewrite Ep. apply Forall2_app; [exact HP|]. constructor; [|constructor].
      repeat split; simpl; auto. eapply resid_snoc. exact Hres.
    + rewrite Ea, Er in E2. rewrite Nat.eqb_refl. cbn [feed] in Hfeed.
      rewrite (result_ok_rejected F o xs _ Hfeed). cbn [andb is_open_err]. rewrite E2.
      eexists; split; [reflexivity|]. constructor; cbn [cm_mon cm_pend cm_nreq cm_nops]; auto.
      rewrite Ep. exact HP.
Qed.

Lemma cmon_step_accepts cm s e : CSim cm s -> SInv s ->
  exists cm', cmon_step p sc cm e (project (snd (sstep s e))) = Some cm' /\ CSim cm' (sstep_st s e).
Proof.
  intros [CS Cn Co CP] HI. unfold BreakerClient.sstep_st, BreakerClient.sstep, cmon_step.
  destruct e as [o|i|dt].
  - pose proof (cmon_after_accepts (cm_mon cm) (cm_pend cm) (mksys (br s) (pend s) (nreq s) (S (nops s))) (nops s) o []
                  (prog_of F o) [] CS (si_inv _ _ _ _ _ HI) CP (rej_open_prog_of F o) eq_refl) as H.
    destruct (issue _ _ _) as [[[s' ost] orq] odn]. simpl in *.
    destruct H as [cm' [E S']]. exists cm'. split; [|exact S'].
    rewrite Cn, Co. unfold cmon_after in *. simpl in *. exact E.
  - destruct (nth_error (pend s) i) as [pd|] eqn:En.
    2:{ rewrite (Forall2_nth_none _ _ _ _ CP En). simpl. exists cm. split; [reflexivity | constructor; auto]. }
    destruct (Forall2_nth_error _ _ _ _ _ CP En) as [en [Een (E1 & E2 & E3 & E4)]]. rewrite Een.
    rewrite E2, E3.
    set (a := dir (p_idx pd) (p_req pd)) in *.
    assert (Eg : nth_error (inflight (br s)) i = Some (p_gen pd)).
    { rewrite <- (si_align _ _ _ _ _ HI). rewrite nth_error_map, En. reflexivity. }
    assert (Hk : rej_open (p_k pd a)).
    { pose proof (si_rej _ _ _ _ _ HI) as Hj. rewrite Forall_forall in Hj. apply Hj. eapply nth_error_In; eauto. }
    pose proof (step_Inv (trip_of p) (reset_of p) (backoff_of p) (p_hom p) (br s) (Finish i (ans_ok a)) (si_inv _ _ _ _ _ HI)) as Hi1.
    unfold step_st in Hi1.
    destruct (bstep (br s) (Finish i (ans_ok a))) as [b1 o1] eqn:Eb.
    pose proof (cmon_after_accepts) as HA.
    destruct (issue (mksys b1 (remove_nth i (pend s)) (nreq s) (nops s)) (p_op pd) (p_k pd a)) as [[[s' ost] orq] odn] eqn:Ei.
    unfold project. simpl.
    destruct (mon_finish_k_accepts p (cm_mon cm) (br s) i (ans_ok a) (p_gen pd) (vis (opt_hooks ost)) CS (si_inv _ _ _ _ _ HI) Eg)
      as [m1 [Ef S1]].
    rewrite Eb in Ef, S1. simpl in Ef, S1. rewrite vis_app, Ef.
    specialize (HA m1 (remove_nth i (cm_pend cm)) (mksys b1 (remove_nth i (pend s)) (nreq s) (nops s)) (p_op pd) (e_o en) (e_hist en)
                   (p_k pd a) (o_hooks o1 ++ opt_hooks ost) S1 Hi1 (Forall2_remove_nth _ _ _ i CP) Hk E4).
    rewrite Ei in HA. destruct HA as [cm' [E S']]. exists cm'. split; [|exact S'].
    rewrite E1, Cn, Co. unfold cmon_after in *. simpl in *. exact E.
  - simpl. destruct (mon_step_accepts p (cm_mon cm) (br s) (Tick dt) CS (si_inv _ _ _ _ _ HI)) as [m' [E S']].
    simpl in E, S'. unfold mon_tick in E. simpl in E. injection E as <-.
    eexists; split; [reflexivity|]. constructor; simpl; auto.
Qed.

Lemma cmon_run_accepts evs : forall cm s, CSim cm s -> SInv s ->
  exists cm', cmon_run p sc cm evs
                (map project (strace_from (trip_of p) (reset_of p) (backoff_of p) (p_hom p) F dir s evs)) = Some cm' /\
              CSim cm' (sexec_from (trip_of p) (reset_of p) (backoff_of p) (p_hom p) F dir s evs).
Proof.
  induction evs as [|e evs IH]; intros cm s HS HI.
  - exists cm. split; [reflexivity | exact HS].
  - destruct (cmon_step_accepts cm s e HS HI) as [cm1 [E1 S1]].
    pose proof (sstep_SInv (trip_of p) (reset_of p) (backoff_of p) (p_hom p) F dir s e HI) as HI1.
    unfold BreakerClient.sstep_st in *. unfold sexec_from. simpl.
    destruct (sstep s e) as [s1 o] eqn:Es. simpl in *. rewrite E1.
    assert (Eb : BreakerClient.sstep_st (trip_of p) (reset_of p) (backoff_of p) (p_hom p) F dir s e = s1)
      by (unfold BreakerClient.sstep_st; rewrite Es; reflexivity).
    rewrite Eb. exact (IH cm1 s1 S1 HI1).
Qed.

Theorem client_monitor_accepts_model evs :
  cholds p sc evs (cmodel_trace p sc evs) (length (pend (cmodel_final p sc evs))) = true.
Proof.
  unfold cholds, cmodel_trace, cmodel_final, strace, sexec.
  assert (H0 : CSim cmon_init sys_init).
  { constructor; simpl; auto. destruct (Sim_init (p_hom p)) as [H _]. exact H. }
  destruct (cmon_run_accepts evs cmon_init sys_init H0 (SInv_init _ _ _ _)) as [cm [E S]].
  rewrite E. rewrite (Forall2_len _ _ _ (cs_pend _ _ S)). apply Nat.eqb_refl.
Qed.

End P.
