(* The route table in the Go source IS the model's table (re-checked whenever the source changes). *)
From V Require Import Base Base_proofs AuthBack AuthBack_proofs Gen_AuthBackRoutes AuthBackRoutes.

Lemma nodup_b_sound l : nodup_b l = true -> NoDup l.
Proof.
  induction l as [|x l IH]; simpl; [constructor|].
  intros H. apply andb_true_iff in H as [H1 H2]. constructor; [|apply IH; exact H2].
  intros Hin. apply mem_str_In in Hin. rewrite Hin in H1. discriminate H1.
Qed.

(* every route of newMux whose handler is GetProfile / ValidateToken / Redeem / Refresh is, with its
   path, methods and gate chain, exactly a row of the model's table, and there is no other *)
Theorem source_table_is_model_table : translate auth_routes_src = Some routes.
Proof. vm_compute. reflexivity. Qed.

(* route paths are pairwise distinct, so "first match" in the model is "the match" in the mux *)
Theorem source_paths_distinct : NoDup (map src_path auth_routes_src).
Proof. apply nodup_b_sound. vm_compute. reflexivity. Qed.

Theorem source_back_channel_gated : forall x, In x auth_routes_src ->
  handler_of_name (src_handler x) <> None ->
  In n_validateClientID (src_wrappers x) /\ In n_validateClientSecret (src_wrappers x).
Proof.
  assert (H : forallb src_back_channel_gated auth_routes_src = true) by (vm_compute; reflexivity).
  rewrite forallb_forall in H. intros x Hin Hh. specialize (H x Hin).
  unfold src_back_channel_gated in H. destruct (handler_of_name (src_handler x)); [|congruence].
  apply andb_true_iff in H as [H1 H2]. apply mem_str_In in H1, H2. auto.
Qed.
