(* Callback_proofs.v — lemmas about the OAuthStart/OAuthCallback model (theories/Callback.v). *)
From Coq Require Import ZifyN ZifyBool.
From V Require Import Base Base_proofs Callback ReqUri ReqUri_proofs.

(* ---- decidable equalities ---- *)
Lemma flow_eqb_eq a b : flow_eqb a b = true <-> a = b.
Proof.
  destruct a as [i u], b as [j v]; unfold flow_eqb; cbn [f_sid f_redirect].
  rewrite andb_true_iff, N.eqb_eq, str_eqb_eq. split; [intros [-> ->]; reflexivity | intros H; inversion H; auto].
Qed.
Lemma session_eqb_eq a b : session_eqb a b = true <-> a = b.
Proof.
  destruct a as [e u], b as [e' u']; unfold session_eqb; cbn [s_email s_upstream].
  rewrite andb_true_iff, !str_eqb_eq. split; [intros [-> ->]; reflexivity | intros H; inversion H; auto].
Qed.
Lemma payload_eqb_eq a b : payload_eqb a b = true <-> a = b.
Proof.
  destruct a as [x|x], b as [y|y]; cbn [payload_eqb]; try (split; [discriminate | intros H; inversion H]).
  - rewrite flow_eqb_eq. split; [intros ->; reflexivity | intros H; inversion H; auto].
  - rewrite session_eqb_eq. split; [intros ->; reflexivity | intros H; inversion H; auto].
Qed.
Lemma sealed_eqb_eq a b : sealed_eqb a b = true <-> a = b.
Proof.
  destruct a as [k n p], b as [k' n' p']; cbn [sealed_eqb].
  rewrite !andb_true_iff, !N.eqb_eq, payload_eqb_eq.
  split; [intros [[-> ->] ->]; reflexivity | intros H; inversion H; auto].
Qed.
Lemma wire_eqb_eq a b : wire_eqb a b = true <-> a = b.
Proof.
  destruct a as [v c|i], b as [v' c'|j]; cbn [wire_eqb]; try (split; [discriminate | intros H; inversion H]).
  - rewrite andb_true_iff, N.eqb_eq, sealed_eqb_eq. split; [intros [-> ->]; reflexivity | intros H; inversion H; auto].
  - rewrite N.eqb_eq. split; [intros ->; reflexivity | intros H; inversion H; auto].
Qed.
Lemma wire_eqb_neq a b : wire_eqb a b = false <-> a <> b.
Proof.
  split; intros H.
  - intros E. apply wire_eqb_eq in E. congruence.
  - destruct (wire_eqb a b) eqn:E; [apply wire_eqb_eq in E; contradiction | reflexivity].
Qed.
Lemma sealed_in_In c l : sealed_in c l = true <-> In c l.
Proof.
  unfold sealed_in. rewrite existsb_exists. split.
  - intros [x [Hx E]]. apply sealed_eqb_eq in E. subst. exact Hx.
  - intros H. exists c. split; [exact H | apply sealed_eqb_eq; reflexivity].
Qed.
Lemma nil_str_true s : nil_str s = true <-> s = [].
Proof. destruct s; cbn; split; congruence. Qed.
Lemma nil_str_false s : nil_str s = false <-> s <> [].
Proof. destruct s; cbn; split; congruence. Qed.

(* ---- unsealing ---- *)
(* a string opens as a state record only if it spells a ciphertext made under the proxy key *)
Lemma unmarshal_state_inv canon key w f :
  unmarshal_state canon key w = Some f ->
  exists v n p, w = WEnc v (Seal key n p) /\ f = json_into_state p /\ (canon = true -> v = 0).
Proof.
  unfold unmarshal_state, b64_decode. destruct w as [v [k n p]|i]; [|discriminate].
  destruct (N.eqb v 0) eqn:Ev.
  - apply N.eqb_eq in Ev. subst v. cbn [aead_open]. destruct (N.eqb k key) eqn:Ek; [|discriminate].
    apply N.eqb_eq in Ek. subst k. intros H. inversion H. exists 0, n, p. auto.
  - destruct canon; [discriminate|]. cbn [aead_open]. destruct (N.eqb k key) eqn:Ek; [|discriminate].
    apply N.eqb_eq in Ek. subst k. intros H. inversion H. exists v, n, p. split; [reflexivity|]. split; [reflexivity|discriminate].
Qed.
Lemma unmarshal_state_intro canon key v n p :
  (canon = true -> v = 0) -> unmarshal_state canon key (WEnc v (Seal key n p)) = Some (json_into_state p).
Proof.
  intros Hc. unfold unmarshal_state, b64_decode. destruct (N.eqb v 0) eqn:Ev.
  - cbn [aead_open]. rewrite N.eqb_refl. reflexivity.
  - destruct canon.
    + rewrite (Hc eq_refl) in Ev. discriminate.
    + cbn [aead_open]. rewrite N.eqb_refl. reflexivity.
Qed.

(* ---- the callback decision, characterised ---- *)
(* [accepts]: the declarative reading of "sets a session" on one request *)
Definition accepts (canon strict : bool) (key : N) (r : cb_req) (s : session) (loc : str) : Prop :=
  exists v1 n1 p1 v2 n2 p2 email,
    cb_state r = WEnc v1 (Seal key n1 p1) /\
    cb_cookie r = Some (WEnc v2 (Seal key n2 p2)) /\
    (canon = true -> v1 = 0 /\ v2 = 0) /\
    WEnc v1 (Seal key n1 p1) <> WEnc v2 (Seal key n2 p2) /\
    json_into_state p1 = json_into_state p2 /\
    (strict = true -> f_sid (json_into_state p1) <> 0) /\
    cb_form_ok r = true /\ cb_error r = [] /\ cb_code r <> [] /\
    cb_redeem r = RedeemOk email /\ email <> [] /\
    cb_valid r = true /\
    s = {| s_email := email; s_upstream := cb_host r |} /\
    loc = f_redirect (json_into_state p1).

Lemma callback_ok_iff canon strict key r s loc :
  oauth_callback canon strict key r = CbOk s loc <-> accepts canon strict key r s loc.
Proof.
  unfold oauth_callback, accepts. split.
  - destruct (cb_form_ok r) eqn:Ef; cbn [negb]; [|discriminate].
    destruct (nil_str (cb_error r)) eqn:Ee; cbn [negb]; [|discriminate].
    unfold redeem_code. destruct (nil_str (cb_code r)) eqn:Ec; [discriminate|].
    destruct (cb_redeem r) as [|email] eqn:Er; [discriminate|].
    destruct (nil_str email) eqn:Em; [discriminate|].
    destruct (unmarshal_state canon key (cb_state r)) as [st|] eqn:Us; [|discriminate].
    destruct (strict && N.eqb (f_sid st) 0) eqn:Estrict; [discriminate|].
    destruct (cb_cookie r) as [cw|] eqn:Ck; [|discriminate].
    destruct (unmarshal_state canon key cw) as [cs|] eqn:Uc; [|discriminate].
    destruct (wire_eqb (cb_state r) cw) eqn:Ew; [discriminate|].
    destruct (flow_eqb st cs) eqn:Efl; cbn [negb]; [|discriminate].
    destruct (cb_valid r) eqn:Ev; cbn [negb]; [|discriminate].
    intros H. inversion H; subst s loc. clear H.
    apply unmarshal_state_inv in Us as [v1 [n1 [p1 [Hs [Hst Hc1]]]]].
    apply unmarshal_state_inv in Uc as [v2 [n2 [p2 [Hcw [Hcs Hc2]]]]].
    apply flow_eqb_eq in Efl. apply wire_eqb_neq in Ew.
    exists v1, n1, p1, v2, n2, p2, email. subst cw st cs. rewrite Hs in Ew.
    repeat split; auto.
    + intros ->. cbn [andb] in Estrict. apply N.eqb_neq in Estrict. exact Estrict.
    + apply nil_str_true; exact Ee.
    + apply nil_str_false; exact Ec.
    + apply nil_str_false; exact Em.
  - intros (v1 & n1 & p1 & v2 & n2 & p2 & email & Hs & Hc & Hcan & Hne & Hj & Hstr & Hf & He & Hcode & Hr & Hem & Hv & -> & ->).
    rewrite Hf. cbn [negb]. rewrite He. cbn [nil_str negb]. unfold redeem_code.
    apply nil_str_false in Hcode. rewrite Hcode, Hr. apply nil_str_false in Hem. rewrite Hem.
    rewrite Hs, Hc.
    rewrite (unmarshal_state_intro canon key v1 n1 p1) by (intros E; apply Hcan; exact E).
    rewrite (unmarshal_state_intro canon key v2 n2 p2) by (intros E; apply Hcan; exact E).
    assert (strict && N.eqb (f_sid (json_into_state p1)) 0 = false) as ->.
    { destruct strict; [|reflexivity]. cbn [andb]. apply N.eqb_neq. apply Hstr. reflexivity. }
    apply wire_eqb_neq in Hne. rewrite Hne.
    assert (flow_eqb (json_into_state p1) (json_into_state p2) = true) as -> by (apply flow_eqb_eq; exact Hj).
    cbn [negb]. rewrite Hv. reflexivity.
Qed.

(* every other request gets an error page: by the type of [cb_result] a page carries no session *)
Lemma callback_page_otherwise canon strict key r :
  (forall s loc, ~ accepts canon strict key r s loc) -> exists st, oauth_callback canon strict key r = CbPage st.
Proof.
  intros H. destruct (oauth_callback canon strict key r) as [st|s loc] eqn:E; [exists st; reflexivity|].
  apply callback_ok_iff in E. destruct (H _ _ E).
Qed.

(* two different records never pass: A's state with B's cookie *)
Lemma cross_rejected canon strict key r v1 n1 fa v2 n2 fb :
  cb_state r = WEnc v1 (Seal key n1 (PFlow fa)) ->
  cb_cookie r = Some (WEnc v2 (Seal key n2 (PFlow fb))) ->
  fa <> fb -> forall s loc, oauth_callback canon strict key r <> CbOk s loc.
Proof.
  intros Hs Hc Hne s loc E. apply callback_ok_iff in E.
  destruct E as [v1' [n1' [p1 [v2' [n2' [p2 [email [Hs' [Hc' [_ [_ [Hj _]]]]]]]]]]]].
  rewrite Hs in Hs'. rewrite Hc in Hc'. inversion Hs'; inversion Hc'; subst. cbn in Hj. contradiction.
Qed.

(* with canonical decoding, different strings are different ciphertexts *)
Lemma distinct_ciphertexts strict key r s loc :
  oauth_callback true strict key r = CbOk s loc ->
  exists c1 c2, cb_state r = WEnc 0 c1 /\ cb_cookie r = Some (WEnc 0 c2) /\ c1 <> c2.
Proof.
  intros E. apply callback_ok_iff in E.
  destruct E as [v1 [n1 [p1 [v2 [n2 [p2 [email [Hs [Hc [Hcan [Hne _]]]]]]]]]]].
  destruct (Hcan eq_refl) as [-> ->].
  exists (Seal key n1 p1), (Seal key n2 p2). repeat split; auto. intros E. apply Hne. rewrite E. reflexivity.
Qed.

(* without it the string test proves nothing about the ciphertexts *)
Definition ex_flow : flow := {| f_sid := 1; f_redirect := [47] |}.
Definition ex_req (state : wire) (cookie : option wire) : cb_req :=
  {| cb_form_ok := true; cb_error := []; cb_code := [99]; cb_state := state; cb_cookie := cookie;
     cb_host := [104]; cb_redeem := RedeemOk [117; 64; 120]; cb_valid := true |}.
Lemma distinct_ciphertexts_refuted :
  exists key c r s loc,
    oauth_callback false false key r = CbOk s loc /\ cb_state r = WEnc 1 c /\ cb_cookie r = Some (WEnc 0 c).
Proof.
  exists 7, (Seal 7 2 (PFlow ex_flow)),
    (ex_req (WEnc 1 (Seal 7 2 (PFlow ex_flow))) (Some (WEnc 0 (Seal 7 2 (PFlow ex_flow))))).
  do 2 eexists. split; [vm_compute; reflexivity | split; reflexivity].
Qed.

(* ---- histories ---- *)
Definition nonce_of (c : sealed) : N := let 'Seal _ n _ := c in n.

Record inv (key : N) (w : world) : Prop := {
  inv_key : forall k n p, In (Seal k n p) (w_issued w) -> k = key /\ 0 < n <= w_ctr w;
  inv_flow : forall k n f, In (Seal k n (PFlow f)) (w_issued w) -> In f (w_flows w);
  inv_sid : forall f, In f (w_flows w) -> 0 < f_sid f <= w_ctr w;
  inv_sid_nodup : NoDup (map f_sid (w_flows w));
  inv_nonce_nodup : NoDup (map nonce_of (w_issued w));
  (* a flow value carries the nonce of the start event that drew its id: cookie = id, state = id + 1 *)
  inv_pair : forall k n f, In (Seal k n (PFlow f)) (w_issued w) -> n = f_sid f \/ n = f_sid f + 1
}.

Lemma inv_init key : inv key init_world.
Proof. constructor; cbn; try (intros; contradiction); constructor. Qed.

Lemma inv_push_session key w s :
  inv key w ->
  inv key {| w_ctr := w_ctr w + 1; w_flows := w_flows w; w_issued := Seal key (w_ctr w + 1) (PSession s) :: w_issued w |}.
Proof.
  intros [Hk Hf Hs Hn Hnn Hp]. constructor; cbn [w_ctr w_flows w_issued].
  6: { intros k n f [E|H]; [inversion E | eapply Hp; exact H]. }
  - intros k n p [E|H]; [inversion E; subst; split; [reflexivity | lia]|].
    destruct (Hk _ _ _ H). split; [assumption | lia].
  - intros k n f [E|H]; [inversion E | eapply Hf; exact H].
  - intros f H. specialize (Hs f H). lia.
  - exact Hn.
  - cbn [map nonce_of]. constructor; [|exact Hnn]. intros Hin. apply in_map_iff in Hin as [[k n p] [E Hin]].
    cbn in E. destruct (Hk _ _ _ Hin). lia.
Qed.

Lemma inv_step canon strict key w e : inv key w -> inv key (fst (step canon strict key w e)).
Proof.
  intros I. destruct e as [u|s|r]; cbn [step].
  - destruct I as [Hk Hf Hs Hn Hnn Hp]. cbn [fst oauth_start st_flow st_cookie st_state]. constructor; cbn [w_ctr w_flows w_issued].
    6: { intros k n f [E|[E|H]]; [inversion E; subst; cbn; left; reflexivity | inversion E; subst; cbn; right; lia | eapply Hp; exact H]. }
    + intros k n p [E|[E|H]]; [inversion E; subst; split; [reflexivity | lia] | inversion E; subst; split; [reflexivity | lia] |].
      destruct (Hk _ _ _ H). split; [assumption | lia].
    + intros k n f [E|[E|H]]; [inversion E; left; reflexivity | inversion E; left; reflexivity | right; eapply Hf; exact H].
    + intros f [E|H]; [subst f; cbn; lia | specialize (Hs f H); lia].
    + cbn [map f_sid]. constructor; [|exact Hn]. intros Hin. apply in_map_iff in Hin as [f [E Hin]].
      specialize (Hs f Hin). lia.
    + cbn [map nonce_of]. constructor; [|constructor; [|exact Hnn]].
      * intros [E|Hin]; [lia|]. apply in_map_iff in Hin as [[k n p] [E Hin]]. cbn in E. destruct (Hk _ _ _ Hin). lia.
      * intros Hin. apply in_map_iff in Hin as [[k n p] [E Hin]]. cbn in E. destruct (Hk _ _ _ Hin). lia.
  - cbn [fst]. apply inv_push_session. exact I.
  - destruct (oauth_callback canon strict key r) as [st|s loc]; cbn [fst]; [exact I | apply inv_push_session; exact I].
Qed.

Lemma inv_run canon strict key evs : forall w, inv key w -> inv key (run canon strict key w evs).
Proof.
  induction evs as [|e evs IH]; intros w I; cbn [run]; [exact I|]. apply IH. apply inv_step. exact I.
Qed.

Lemma run_app canon strict key evs1 evs2 w :
  run canon strict key w (evs1 ++ evs2) = run canon strict key (run canon strict key w evs1) evs2.
Proof. revert w. induction evs1 as [|e evs1 IH]; intros w; cbn [run app]; [reflexivity | apply IH]. Qed.

Lemma admissible_app canon strict key evs1 evs2 : forall w,
  admissible canon strict key w (evs1 ++ evs2) =
  admissible canon strict key w evs1 && admissible canon strict key (run canon strict key w evs1) evs2.
Proof.
  induction evs1 as [|e evs1 IH]; intros w; cbn [admissible app run]; [reflexivity|].
  rewrite IH. rewrite andb_assoc. reflexivity.
Qed.

(* what the last callback of an admissible history may carry *)
Lemma admissible_last canon strict key evs r :
  admissible canon strict key init_world (evs ++ [ECallback r]) = true ->
  req_derivable key (w_issued (run canon strict key init_world evs)) r = true.
Proof.
  rewrite admissible_app. intros H. apply andb_true_iff in H as [_ H]. cbn [admissible] in H.
  apply andb_true_iff in H as [H _]. exact H.
Qed.

Lemma wire_derivable_In key issued v n p :
  wire_derivable key issued (WEnc v (Seal key n p)) = true -> In (Seal key n p) issued.
Proof. cbn [wire_derivable]. rewrite N.eqb_refl. cbn [negb orb]. apply sealed_in_In. Qed.

(* ---- the property on histories ---- *)
(* A callback that ends an admissible history sets a session only if state and cookie are two
   different strings spelling ciphertexts that THIS proxy issued, which open to the same record,
   redeem succeeded with a non-empty e-mail, a validator passed, the session is bound to the
   request's Host — and either the record is a flow this proxy started and Location is that flow's
   recorded URI, or (the type confusion of the faithful model) both values are sealed SESSIONS,
   which open as the empty record, and Location is the empty string. *)
Definition own_flow (w : world) (p1 p2 : payload) (loc : str) : Prop :=
  exists f, In f (w_flows w) /\ p1 = PFlow f /\ p2 = PFlow f /\ loc = f_redirect f.
Definition own_flow_or_confusion (strict : bool) (w : world) (p1 p2 : payload) (loc : str) : Prop :=
  own_flow w p1 p2 loc \/
  (strict = false /\ exists s1 s2, p1 = PSession s1 /\ p2 = PSession s2 /\ loc = []).

Lemma session_only_for_own_flow_partial canon strict key evs r s loc :
  admissible canon strict key init_world (evs ++ [ECallback r]) = true ->
  oauth_callback canon strict key r = CbOk s loc ->
  let w := run canon strict key init_world evs in
  exists v1 n1 p1 v2 n2 p2 email,
    cb_state r = WEnc v1 (Seal key n1 p1) /\ cb_cookie r = Some (WEnc v2 (Seal key n2 p2)) /\
    In (Seal key n1 p1) (w_issued w) /\ In (Seal key n2 p2) (w_issued w) /\
    WEnc v1 (Seal key n1 p1) <> WEnc v2 (Seal key n2 p2) /\
    (canon = true -> v1 = 0 /\ v2 = 0 /\ n1 <> n2) /\
    cb_code r <> [] /\ cb_redeem r = RedeemOk email /\ email <> [] /\ cb_valid r = true /\
    s = {| s_email := email; s_upstream := cb_host r |} /\
    own_flow_or_confusion strict w p1 p2 loc.
Proof.
  intros Ha E w. pose proof (admissible_last _ _ _ _ _ Ha) as Hd. fold w in Hd.
  assert (I : inv key w) by (apply inv_run, inv_init).
  apply callback_ok_iff in E.
  destruct E as (v1 & n1 & p1 & v2 & n2 & p2 & email & Hs & Hc & Hcan & Hne & Hj & Hstr & Hf & He & Hcode & Hr & Hem & Hv & Hsess & Hloc).
  unfold req_derivable in Hd. rewrite Hs, Hc in Hd. apply andb_true_iff in Hd as [Hd1 Hd2].
  apply wire_derivable_In in Hd1. apply wire_derivable_In in Hd2.
  exists v1, n1, p1, v2, n2, p2, email. repeat split; auto.
  - destruct (Hcan H); assumption.
  - destruct (Hcan H); assumption.
  - destruct (Hcan H) as [-> ->]. intros ->. apply Hne.
    (* same nonce in an issued list with distinct nonces: same ciphertext *)
    assert (Seal key n2 p1 = Seal key n2 p2); [|congruence].
    destruct I as [_ _ _ _ Hnn]. clear -Hd1 Hd2 Hnn.
    induction (w_issued w) as [|c l IH]; [destruct Hd1|]. cbn [map] in Hnn. inversion Hnn as [|? ? Hnotin Hnn']; subst.
    destruct Hd1 as [E1|H1], Hd2 as [E2|H2].
    + congruence.
    + exfalso. apply Hnotin. subst c. cbn [nonce_of]. apply in_map_iff. exists (Seal key n2 p2). split; [reflexivity | exact H2].
    + exfalso. apply Hnotin. subst c. cbn [nonce_of]. apply in_map_iff. exists (Seal key n2 p1). split; [reflexivity | exact H1].
    + apply IH; assumption.
  - unfold own_flow_or_confusion, own_flow. destruct p1 as [f1|s1], p2 as [f2|s2]; cbn [json_into_state] in Hj, Hloc, Hstr.
    + left. subst f2. exists f1. split; [eapply (inv_flow _ _ I); exact Hd1 | auto].
    + exfalso. subst f1. pose proof (inv_sid _ _ I empty_flow (inv_flow _ _ I _ _ _ Hd1)) as H. cbn in H. lia.
    + exfalso. subst f2. pose proof (inv_sid _ _ I empty_flow (inv_flow _ _ I _ _ _ Hd2)) as H. cbn in H. lia.
    + right. split; [|exists s1, s2; auto].
      destruct strict; [|reflexivity]. exfalso. apply Hstr; reflexivity.
Qed.

(* the full statement of DESIGN §6 — provable exactly when the callback refuses the empty record *)
Lemma session_only_for_own_flow canon key evs r s loc :
  admissible canon true key init_world (evs ++ [ECallback r]) = true ->
  oauth_callback canon true key r = CbOk s loc ->
  let w := run canon true key init_world evs in
  exists v1 n1 f v2 n2 email,
    In f (w_flows w) /\
    cb_state r = WEnc v1 (Seal key n1 (PFlow f)) /\ cb_cookie r = Some (WEnc v2 (Seal key n2 (PFlow f))) /\
    In (Seal key n1 (PFlow f)) (w_issued w) /\ In (Seal key n2 (PFlow f)) (w_issued w) /\
    WEnc v1 (Seal key n1 (PFlow f)) <> WEnc v2 (Seal key n2 (PFlow f)) /\
    (canon = true -> v1 = 0 /\ v2 = 0 /\ n1 <> n2) /\
    cb_code r <> [] /\ cb_redeem r = RedeemOk email /\ email <> [] /\ cb_valid r = true /\
    s = {| s_email := email; s_upstream := cb_host r |} /\ loc = f_redirect f.
Proof.
  intros Ha E w.
  destruct (session_only_for_own_flow_partial _ _ _ _ _ _ _ Ha E)
    as (v1 & n1 & p1 & v2 & n2 & p2 & email & Hs & Hc & Hi1 & Hi2 & Hne & Hcan & Hcode & Hr & Hem & Hv & Hsess & Hown).
  fold w in Hi1, Hi2, Hown.
  destruct Hown as [[f [Hin [-> [-> ->]]]]|[Hf _]]; [|discriminate].
  exists v1, n1, f, v2, n2, email. repeat split; auto; destruct (Hcan H) as [? [? ?]]; assumption.
Qed.

(* ... and the two values come from ONE OAuthStart run — the one that drew f's id: in the model the
   CSRF cookie of a start carries nonce = id and its state nonce = id + 1, and ids are fresh.  This is
   "the browser's own flow": never the state of one start with the cookie of another. *)
Lemma state_and_cookie_from_one_start canon key evs r s loc :
  admissible canon true key init_world (evs ++ [ECallback r]) = true ->
  oauth_callback canon true key r = CbOk s loc ->
  exists f v1 n1 v2 n2,
    In f (w_flows (run canon true key init_world evs)) /\
    cb_state r = WEnc v1 (Seal key n1 (PFlow f)) /\ cb_cookie r = Some (WEnc v2 (Seal key n2 (PFlow f))) /\
    (n1 = f_sid f \/ n1 = f_sid f + 1) /\ (n2 = f_sid f \/ n2 = f_sid f + 1) /\
    (canon = true -> n1 <> n2).
Proof.
  intros Ha E.
  destruct (session_only_for_own_flow _ _ _ _ _ _ Ha E)
    as (v1 & n1 & f & v2 & n2 & email & Hin & Hs & Hc & Hi1 & Hi2 & _ & Hcan & _).
  assert (I : inv key (run canon true key init_world evs)) by (apply inv_run, inv_init).
  exists f, v1, n1, v2, n2. repeat split; auto.
  - eapply (inv_pair _ _ I); exact Hi1.
  - eapply (inv_pair _ _ I); exact Hi2.
  - intros H. destruct (Hcan H) as [_ [_ Hn]]. exact Hn.
Qed.

(* the full statement (always a started flow) is false of the faithful model: two sealed sessions,
   obtained by two ordinary logins, pass as state and CSRF cookie *)
Definition ex_key : N := 7.
Definition ex_login (n : N) : list event :=   (* a complete own-flow login; uses nonces n+1, n+2, n+3 *)
  [EStart [47];
   ECallback (ex_req (WEnc 0 (Seal ex_key (n + 2) (PFlow {| f_sid := n + 1; f_redirect := [47] |})))
                     (Some (WEnc 0 (Seal ex_key (n + 1) (PFlow {| f_sid := n + 1; f_redirect := [47] |})))))].
Definition ex_sess : session := {| s_email := [117; 64; 120]; s_upstream := [104] |}.
Definition ex_confused : cb_req :=
  ex_req (WEnc 0 (Seal ex_key 3 (PSession ex_sess))) (Some (WEnc 0 (Seal ex_key 6 (PSession ex_sess)))).

Lemma session_only_for_own_flow_refuted :
  exists canon key evs r s loc,
    admissible canon false key init_world (evs ++ [ECallback r]) = true /\
    oauth_callback canon false key r = CbOk s loc /\
    ~ exists f v n, In f (w_flows (run canon false key init_world evs)) /\ cb_state r = WEnc v (Seal key n (PFlow f)).
Proof.
  exists true, ex_key, (ex_login 0 ++ ex_login 3), ex_confused. do 2 eexists.
  split; [vm_compute; reflexivity|]. split; [vm_compute; reflexivity|].
  intros [f [v [n [_ H]]]]. vm_compute in H. discriminate.
Qed.

(* non-vacuity: an ordinary login through the model is admissible and accepted, Location = recorded *)
Example own_flow_accepted :
  let evs := [EStart [47; 97]] in
  let f := {| f_sid := 1; f_redirect := [47; 97] |} in
  let r := ex_req (WEnc 0 (Seal ex_key 2 (PFlow f))) (Some (WEnc 0 (Seal ex_key 1 (PFlow f)))) in
  admissible false false ex_key init_world (evs ++ [ECallback r]) = true /\
  oauth_callback false false ex_key r = CbOk {| s_email := [117; 64; 120]; s_upstream := [104] |} [47; 97].
Proof. split; vm_compute; reflexivity. Qed.

(* ... also under the empty-id guard (the hypotheses of the full theorem are satisfiable), while the
   two-sessions request of the refutation is then answered 400 *)
Example own_flow_accepted_strict :
  let evs := [EStart [47; 97]] in
  let f := {| f_sid := 1; f_redirect := [47; 97] |} in
  let r := ex_req (WEnc 0 (Seal ex_key 2 (PFlow f))) (Some (WEnc 0 (Seal ex_key 1 (PFlow f)))) in
  admissible true true ex_key init_world (evs ++ [ECallback r]) = true /\
  oauth_callback true true ex_key r = CbOk {| s_email := [117; 64; 120]; s_upstream := [104] |} [47; 97] /\
  oauth_callback true true ex_key ex_confused = CbPage 400.
Proof. repeat split; vm_compute; reflexivity. Qed.

(* flows started by different requests are different records, even for the same URL *)
Lemma started_flows_distinct canon strict key evs :
  NoDup (map f_sid (w_flows (run canon strict key init_world evs))).
Proof. apply (inv_sid_nodup key). apply inv_run, inv_init. Qed.

Lemma NoDup_map_nth {A B} (g : A -> B) (l : list A) i j a b :
  NoDup (map g l) -> nth_error l i = Some a -> nth_error l j = Some b -> i <> j -> g a <> g b.
Proof.
  revert i j. induction l as [|x l IH]; intros i j Hn Hi Hj Hij; [destruct i; discriminate|].
  cbn [map] in Hn. inversion Hn as [|? ? Hnotin Hn']; subst.
  destruct i as [|i], j as [|j]; cbn [nth_error] in Hi, Hj.
  - congruence.
  - inversion Hi; subst. intros E. apply Hnotin. rewrite E. apply in_map. eapply nth_error_In; exact Hj.
  - inversion Hj; subst. intros E. apply Hnotin. rewrite <- E. apply in_map. eapply nth_error_In; exact Hi.
  - eapply IH; eauto.
Qed.

Lemma cross_flow_rejected canon strict key evs i j fa fb r v1 n1 v2 n2 :
  let w := run canon strict key init_world evs in
  nth_error (w_flows w) i = Some fa -> nth_error (w_flows w) j = Some fb -> i <> j ->
  cb_state r = WEnc v1 (Seal key n1 (PFlow fa)) ->
  cb_cookie r = Some (WEnc v2 (Seal key n2 (PFlow fb))) ->
  exists st, oauth_callback canon strict key r = CbPage st.
Proof.
  intros w Hi Hj Hij Hs Hc.
  assert (fa <> fb) as Hne.
  { intros E. eapply (NoDup_map_nth f_sid _ i j fa fb (started_flows_distinct canon strict key evs)); eauto. congruence. }
  destruct (oauth_callback canon strict key r) as [st|s loc] eqn:E; [exists st; reflexivity|].
  exfalso. eapply cross_rejected; eauto.
Qed.

(* where the recorded URIs of started flows come from *)
Lemma flows_from_starts canon strict key evs : forall w f,
  In f (w_flows (run canon strict key w evs)) -> In f (w_flows w) \/ In (EStart (f_redirect f)) evs.
Proof.
  induction evs as [|e evs IH]; intros w f H; cbn [run] in H; [left; exact H|].
  apply IH in H as [H|H]; [|right; right; exact H].
  destruct e as [u|s|r]; cbn [step fst] in H.
  - cbn [w_flows oauth_start st_flow] in H. destruct H as [E|H]; [right; left; subst f; reflexivity | left; exact H].
  - left. exact H.
  - destruct (oauth_callback canon strict key r); cbn [fst w_flows] in H; left; exact H.
Qed.

(* ---- composition with ReqUri: where the browser is sent after a login ----
   If every flow was started by an origin-form request that the router passed to Proxy, the
   Location of any accepted callback is a same-site relative URI — or the empty string in the
   type-confusion case (net/http.Redirect turns "" into "/oauth2/"). *)
Lemma returns_same_site hosts hh canon strict key evs r s loc :
  (forall u, In (EStart u) evs -> exists t h, has_prefix t [47] = true /\ route hosts hh t = RProxy h u) ->
  admissible canon strict key init_world (evs ++ [ECallback r]) = true ->
  oauth_callback canon strict key r = CbOk s loc ->
  same_site_rel loc = true \/ loc = [].
Proof.
  intros Hst Ha E.
  destruct (session_only_for_own_flow_partial _ _ _ _ _ _ _ Ha E)
    as (v1 & n1 & p1 & v2 & n2 & p2 & email & _ & _ & _ & _ & _ & _ & _ & _ & _ & _ & _ & Hown).
  destruct Hown as [[f [Hin [_ [_ ->]]]]|[_ [s1 [s2 [_ [_ ->]]]]]]; [left | right; reflexivity].
  apply flows_from_starts in Hin as [Hin|Hin]; [destruct Hin|].
  destruct (Hst _ Hin) as [t [h [Hp Hr]]]. destruct (route_same_site _ _ _ _ _ Hp Hr) as [_ [_ H]]. exact H.
Qed.
