(* Json_proofs.v — the encoding/json string encoder (with HTML escaping) always produces a JSON
   string accepted by the recogniser, for every byte string (property C20, JSON clause). *)
From V Require Import Base Base_proofs Json.
From Coq Require Import ZifyN ZifyNat ZifyBool.
Open Scope N_scope.

(* the automaton run over a chunk that neither ends nor breaks the string *)
Fixpoint jmid (st : jst) (s : str) : option jst :=
  match s with
  | [] => Some st
  | b :: r => match jstep st b with
              | JEnd => None
              | JRej => None
              | st' => jmid st' r
              end
  end.

Lemma scan_mid : forall chunk st st' rest,
  jmid st chunk = Some st' -> scan st (chunk ++ rest) = scan st' rest.
Proof.
  induction chunk as [|b r IH]; intros st st' rest H.
  - cbn in H. inversion H. reflexivity.
  - cbn [jmid] in H. cbn [app scan].
    destruct (jstep st b); try discriminate H; apply IH; exact H.
Qed.

Ltac nbool :=
  repeat match goal with
         | |- context [N.eqb ?a ?b] => destruct (N.eqb_spec a b); try lia
         | |- context [N.leb ?a ?b] => destruct (N.leb_spec a b); try lia
         | |- context [N.ltb ?a ?b] => destruct (N.ltb_spec a b); try lia
         end.

Lemma is_hex_hexd n : n < 16 -> is_hex (hexd n) = true.
Proof. intros H. unfold hexd. destruct (N.ltb_spec n 10); unfold is_hex; nbool; reflexivity. Qed.

(* -- escapes -- *)

Lemma mid_fffd : jmid JBody [92;117;102;102;102;100] = Some JBody.
Proof. reflexivity. Qed.

(* every byte below 0x80: a finite sweep, lifted with forallb_forall *)
Definition jst_is_body (o : option jst) : bool := match o with Some JBody => true | _ => false end.

Lemma ascii_sweep :
  forallb (fun k => jst_is_body (jmid JBody (json_ascii (N.of_nat k)))) (seq 0 128) = true.
Proof. vm_compute. reflexivity. Qed.

Lemma mid_ascii b : b < 128 -> jmid JBody (json_ascii b) = Some JBody.
Proof.
  intros H. pose proof ascii_sweep as S. rewrite forallb_forall in S.
  specialize (S (N.to_nat b)). rewrite N2Nat.id in S.
  assert (I : In (N.to_nat b) (seq 0 128)) by (apply in_seq; lia).
  specialize (S I). unfold jst_is_body in S.
  destruct (jmid JBody (json_ascii b)) as [[]|]; try discriminate S. reflexivity.
Qed.

Lemma mid_lsps h : h = 56 \/ h = 57 -> jmid JBody [92;117;50;48;50;h] = Some JBody.
Proof. intros [->| ->]; reflexivity. Qed.

(* -- well-formed multi-byte sequences -- *)

Lemma cont_range b : cont b = true -> 128 <= b /\ b <= 191.
Proof. unfold cont. intros H. apply andb_true_iff in H as [H1 H2]. lia. Qed.

Lemma jstep_cont lo hi k b :
  lo <= b -> b <= hi ->
  jstep (JCont lo hi k) b = match k with O => JBody | S k' => JCont 128 191 k' end.
Proof. intros H1 H2. cbn [jstep]. nbool. reflexivity. Qed.

Lemma jstep_lead2 b : 194 <= b -> b <= 223 -> jstep JBody b = JCont 128 191 0.
Proof. intros H1 H2. cbn [jstep]. nbool. reflexivity. Qed.

Lemma jstep_lead3 b : 224 <= b -> b <= 239 -> jstep JBody b = JCont (lo3 b) (hi3 b) 1.
Proof. intros H1 H2. unfold lo3, hi3. cbn [jstep]. nbool; reflexivity. Qed.

Lemma jstep_lead4 b : 240 <= b -> b <= 244 -> jstep JBody b = JCont (lo4 b) (hi4 b) 2.
Proof. intros H1 H2. unfold lo4, hi4. cbn [jstep]. nbool; reflexivity. Qed.

Lemma utf8_len_le4 s : (utf8_len s <= 4)%nat.
Proof.
  destruct s as [|b0 r]; cbn [utf8_len]; [lia|].
  repeat match goal with
         | |- context [if ?c then _ else _] => destruct c
         | |- context [match ?l with [] => _ | _ :: _ => _ end] => destruct l
         end; lia.
Qed.

Lemma utf8_len_1 b0 r : utf8_len (b0 :: r) = 1%nat -> b0 < 128.
Proof.
  cbn [utf8_len]. destruct (N.ltb_spec b0 128); [auto|].
  repeat match goal with
         | |- context [if ?c then _ else _] => destruct c
         | |- context [match ?l with [] => _ | _ :: _ => _ end] => destruct l
         end; discriminate.
Qed.

Lemma utf8_len_length s : (utf8_len s <= length s)%nat.
Proof.
  destruct s as [|b0 r]; cbn [utf8_len]; [lia|].
  repeat match goal with
         | |- context [if ?c then _ else _] => destruct c
         | |- context [match ?l with [] => _ | _ :: _ => _ end] => destruct l
         end; cbn [length]; lia.
Qed.

(* a well-formed sequence of width n >= 2 is consumed by the automaton and leaves it in JBody *)
Lemma utf8_mid s n : utf8_len s = S (S n) -> jmid JBody (firstn (S (S n)) s) = Some JBody.
Proof.
  destruct s as [|b0 r]; [discriminate|]. cbn [utf8_len].
  destruct (N.ltb_spec b0 128) as [|G128]; [discriminate|].
  destruct ((194 <=? b0) && (b0 <=? 223)) eqn:R2.
  { apply andb_true_iff in R2 as [A B]. destruct r as [|b1 r]; [discriminate|].
    destruct (cont b1) eqn:C1; [|discriminate]. intros E; inversion E; subst n.
    apply cont_range in C1. cbn [firstn jmid].
    rewrite jstep_lead2 by lia. rewrite jstep_cont by lia. reflexivity. }
  destruct ((224 <=? b0) && (b0 <=? 239)) eqn:R3.
  { apply andb_true_iff in R3 as [A B]. destruct r as [|b1 [|b2 r]]; try discriminate.
    destruct ((lo3 b0 <=? b1) && (b1 <=? hi3 b0) && cont b2) eqn:C; [|discriminate].
    intros E; inversion E; subst n.
    apply andb_true_iff in C as [C C2]. apply andb_true_iff in C as [C0 C1]. apply cont_range in C2.
    cbn [firstn jmid]. rewrite jstep_lead3 by lia. rewrite jstep_cont by lia.
    rewrite jstep_cont by lia. reflexivity. }
  destruct ((240 <=? b0) && (b0 <=? 244)) eqn:R4.
  { apply andb_true_iff in R4 as [A B]. destruct r as [|b1 [|b2 [|b3 r]]]; try discriminate.
    destruct ((lo4 b0 <=? b1) && (b1 <=? hi4 b0) && cont b2 && cont b3) eqn:C; [|discriminate].
    intros E; inversion E; subst n.
    apply andb_true_iff in C as [C C3]. apply andb_true_iff in C as [C C2].
    apply andb_true_iff in C as [C0 C1]. apply cont_range in C2. apply cont_range in C3.
    cbn [firstn jmid]. rewrite jstep_lead4 by lia. rewrite jstep_cont by lia.
    rewrite jstep_cont by lia. rewrite jstep_cont by lia. reflexivity. }
  discriminate.
Qed.

Lemma ls_ps_hex s h : ls_ps s = Some h -> (h = 56 \/ h = 57) /\ (3 <= length s)%nat.
Proof.
  destruct s as [|b0 [|b1 [|b2 r]]]; try discriminate. cbn [ls_ps].
  destruct ((b0 =? 226) && (b1 =? 128) && ((b2 =? 168) || (b2 =? 169))) eqn:C; [|discriminate].
  intros E; inversion E; subst h.
  apply andb_true_iff in C as [_ C]. apply orb_true_iff in C as [C|C]; apply N.eqb_eq in C; subst b2;
    (split; [|cbn [length]; lia]); [left|right]; reflexivity.
Qed.

(* -- the loop of appendString keeps the automaton inside the string -- *)

Lemma scan_body : forall fuel s rest,
  (length s <= fuel)%nat -> scan JBody (json_body fuel s ++ rest) = scan JBody rest.
Proof.
  induction fuel as [|f IH]; intros s rest Hl.
  - destruct s; [reflexivity | cbn [length] in Hl; lia].
  - destruct s as [|b0 r]; [reflexivity|].
    cbn [json_body].
    destruct (utf8_len (b0 :: r)) as [|[|n]] eqn:U.
    + rewrite <- app_assoc. rewrite (scan_mid _ _ _ _ mid_fffd).
      apply IH. cbn [length] in Hl. lia.
    + apply utf8_len_1 in U. rewrite <- app_assoc. rewrite (scan_mid _ _ _ _ (mid_ascii b0 U)).
      apply IH. cbn [length] in Hl. lia.
    + destruct (ls_ps (b0 :: r)) as [h|] eqn:L.
      * apply ls_ps_hex in L as [Hh H3]. rewrite <- app_assoc.
        rewrite (scan_mid _ _ _ _ (mid_lsps h Hh)).
        apply IH. rewrite skipn_length. lia.
      * rewrite <- app_assoc. rewrite (scan_mid _ _ _ _ (utf8_mid _ _ U)).
        apply IH. rewrite skipn_length. lia.
Qed.

(* C20_json_wellformed *)
Lemma json_string_ok_encode : forall s, json_string_ok (json_string s) = true.
Proof.
  intros s. unfold json_string_ok, json_string. cbn [scan jstep N.eqb].
  change (scan JStart (34 :: json_body (length s) s ++ [34])) with
         (scan JBody (json_body (length s) s ++ [34])).
  rewrite scan_body by lia. reflexivity.
Qed.

Lemma strip_prefix_app p s : strip_prefix p (p ++ s) = Some s.
Proof. induction p as [|c p IH]; [reflexivity|]. cbn. rewrite N.eqb_refl. exact IH. Qed.

Lemma auth_error_json_ok : forall msg, json_error_doc_ok (auth_error_json msg) = true.
Proof.
  intros msg. unfold json_error_doc_ok, auth_error_json. rewrite strip_prefix_app.
  unfold json_string. cbn [app strip_prefix N.eqb Pos.eqb].
  change (scan JStart (34 :: (json_body (length msg) msg ++ [34]) ++ [125; 10])) with
         (scan JBody ((json_body (length msg) msg ++ [34]) ++ [125; 10])).
  rewrite <- app_assoc. rewrite scan_body by lia. reflexivity.
Qed.

Lemma proxy_xhr_json_ok : forall msg, json_error_doc_ok (proxy_xhr_json msg) = true.
Proof. intros msg. reflexivity. Qed.

(* the recogniser is not trivially true *)
Example json_rejects_raw_quote : json_string_ok [34; 97; 34; 98; 34] = false.
Proof. reflexivity. Qed.
Example json_rejects_control : json_string_ok [34; 10; 34] = false.
Proof. reflexivity. Qed.
Example json_rejects_bad_utf8 : json_string_ok [34; 192; 188; 34] = false.
Proof. reflexivity. Qed.
Example json_rejects_lone_backslash : json_string_ok [34; 92; 34] = false.
Proof. reflexivity. Qed.
Example json_doc_rejects_injection :
  (* {"error":"a","x":"b"} — a message that broke out of the string *)
  json_error_doc_ok (error_key ++ [34;97;34;44;34;120;34;58;34;98;34;125]) = false.
Proof. reflexivity. Qed.

(* ------------------------------------------------------------------------------------------ *)
(** * The general recogniser accepts both error bodies *)

Lemma jmid_app : forall a st b,
  jmid st (a ++ b) = match jmid st a with Some st' => jmid st' b | None => None end.
Proof.
  induction a as [|x a IH]; intros st b; [reflexivity|].
  cbn [app jmid]. destruct (jstep st x); try reflexivity; apply IH.
Qed.

Lemma jmid_body : forall fuel s, (length s <= fuel)%nat -> jmid JBody (json_body fuel s) = Some JBody.
Proof.
  induction fuel as [|f IH]; intros s Hl.
  - destruct s; [reflexivity | cbn [length] in Hl; lia].
  - destruct s as [|b0 r]; [reflexivity|].
    cbn [json_body].
    destruct (utf8_len (b0 :: r)) as [|[|n]] eqn:U.
    + rewrite jmid_app, mid_fffd. apply IH. cbn [length] in Hl. lia.
    + apply utf8_len_1 in U. rewrite jmid_app, (mid_ascii b0 U). apply IH. cbn [length] in Hl. lia.
    + destruct (ls_ps (b0 :: r)) as [h|] eqn:L.
      * apply ls_ps_hex in L as [Hh H3]. rewrite jmid_app, (mid_lsps h Hh).
        apply IH. rewrite skipn_length. lia.
      * rewrite jmid_app, (utf8_mid _ _ U). apply IH. rewrite skipn_length. lia.
Qed.

(* a chunk that keeps the string automaton inside the string keeps the document automaton inside it *)
Lemma prun_str_mid : forall chunk j j' key stk rest,
  jmid j chunk = Some j' -> prun (PStr j key, stk) (chunk ++ rest) = prun (PStr j' key, stk) rest.
Proof.
  induction chunk as [|b r IH]; intros j j' key stk rest H.
  - cbn in H. inversion H. reflexivity.
  - cbn [jmid] in H. cbn [app prun pstep].
    destruct (jstep j b) eqn:E; try discriminate H; apply IH; exact H.
Qed.

Lemma json_doc_ok_auth : forall msg, json_doc_ok (auth_error_json msg) = true.
Proof.
  intros msg. unfold json_doc_ok, auth_error_json, json_string, error_key.
  change (prun (PValue, []) ([123;34;101;114;114;111;114;34;58] ++ (34 :: json_body (length msg) msg ++ [34]) ++ [125;10]))
    with (prun (PStr JBody false, [true]) ((json_body (length msg) msg ++ [34]) ++ [125;10])).
  rewrite <- app_assoc.
  rewrite (prun_str_mid _ JBody JBody false [true] _ (jmid_body _ msg (le_n _))).
  reflexivity.
Qed.

Lemma json_doc_ok_proxy : forall msg, json_doc_ok (proxy_xhr_json msg) = true.
Proof. intros msg. reflexivity. Qed.

Example json_doc_accepts_nested :
  (* {"a":[1,-2.5e+3,true,null,{"b":"x"}],"c":{}}  *)
  json_doc_ok [123;34;97;34;58;91;49;44;45;50;46;53;101;43;51;44;116;114;117;101;44;110;117;108;108;44;123;34;98;34;58;34;120;34;125;93;44;34;99;34;58;123;125;125] = true.
Proof. reflexivity. Qed.
Example json_doc_rejects_js_apostrophe_escape :   (* {"l":"O\'B"} *)
  json_doc_ok [123;34;108;34;58;34;79;92;39;66;34;125] = false.
Proof. reflexivity. Qed.
Example json_doc_rejects_two_documents : json_doc_ok [123;125;10;123;125] = false.
Proof. reflexivity. Qed.
Example json_doc_rejects_trailing_text : json_doc_ok [123;125;32;120] = false.
Proof. reflexivity. Qed.
Example json_doc_rejects_leading_zero : json_doc_ok [48;49] = false.
Proof. reflexivity. Qed.
Example json_doc_rejects_go_error_text : json_doc_ok [106;115;111;110;58;32;101;114;114] = false.
Proof. reflexivity. Qed.
