(* ReqUri_proofs.v — lemmas about the request-target -> recorded-redirect model (theories/ReqUri.v). *)
From Coq Require Import ZifyN ZifyBool.
From V Require Import Base Base_proofs ReqUri.

(* ---------------------------------------------------------------- bytes *)
Lemma memb_In c l : memb c l = true <-> In c l.
Proof.
  unfold memb. rewrite existsb_exists. split.
  - intros [x [Hx E]]. apply N.eqb_eq in E. subst. exact Hx.
  - intros H. exists c. split; [exact H | apply N.eqb_refl].
Qed.

Lemma not_escaped_props c :
  should_escape_path c = false -> c <> 92 /\ is_ctl c = false /\ c <> 63 /\ c <> 37.
Proof.
  unfold should_escape_path, is_alnum, is_alpha, is_lower, is_upper, is_digit, in_range, memb, existsb, is_ctl.
  lia.
Qed.

Lemma valid_byte_props c :
  valid_encoded_byte c = true -> c <> 92 /\ is_ctl c = false /\ c <> 63.
Proof.
  unfold valid_encoded_byte, should_escape_path, is_alnum, is_alpha, is_lower, is_upper, is_digit, in_range,
    memb, existsb, is_ctl.
  lia.
Qed.

Lemma upperhex_range n : let h := upperhex n in (48 <= h <= 57 \/ 65 <= h <= 70).
Proof.
  unfold upperhex. cbv zeta. pose proof (N.mod_upper_bound n 16 ltac:(lia)) as H.
  destruct (n mod 16 <? 10) eqn:E; lia.
Qed.

(* every byte escape writes is '%', an upper-case hex digit, or an input byte that needs no escaping *)
Lemma escape_byte_out c b :
  In b (escape_byte c) -> b = 37 \/ (48 <= b <= 57 \/ 65 <= b <= 70) \/ (b = c /\ should_escape_path c = false).
Proof.
  unfold escape_byte. destruct (should_escape_path c) eqn:E; cbn [In].
  - intros [H|[H|[H|[]]]]; subst.
    + left; reflexivity.
    + right; left. apply upperhex_range.
    + right; left. apply upperhex_range.
  - intros [H|[]]. subst. right; right. auto.
Qed.

Lemma escape_out s b :
  In b (escape s) -> b = 37 \/ (48 <= b <= 57 \/ 65 <= b <= 70) \/ (In b s /\ should_escape_path b = false).
Proof.
  unfold escape. rewrite in_flat_map. intros [c [Hc Hb]].
  apply escape_byte_out in Hb as [H|[H|[-> H]]]; auto.
Qed.

Lemma escape_no_backslash s : ~ In 92 (escape s).
Proof.
  intros H. apply escape_out in H as [H|[H|[_ H]]]; [lia | lia |].
  apply not_escaped_props in H. destruct H as [H _]. congruence.
Qed.

Lemma escape_no_qmark s : ~ In 63 (escape s).
Proof.
  intros H. apply escape_out in H as [H|[H|[_ H]]]; [lia | lia |].
  apply not_escaped_props in H. destruct H as [_ [_ [H _]]]. congruence.
Qed.

Lemma existsb_false_iff {A} (f : A -> bool) l : existsb f l = false <-> forall x, In x l -> f x = false.
Proof.
  split.
  - intros H x Hx. destruct (f x) eqn:E; [|reflexivity].
    assert (existsb f l = true) by (apply existsb_exists; exists x; auto). congruence.
  - intros H. destruct (existsb f l) eqn:E; [|reflexivity].
    apply existsb_exists in E as [x [Hx Hf]]. rewrite (H x Hx) in Hf. discriminate.
Qed.

Lemma escape_no_ctl s : existsb is_ctl (escape s) = false.
Proof.
  apply existsb_false_iff. intros b H. apply escape_out in H as [H|[H|[_ H]]].
  - subst; reflexivity.
  - unfold is_ctl. lia.
  - apply not_escaped_props in H. tauto.
Qed.

Lemma valid_encoded_props s : valid_encoded s = true -> ~ In 92 s /\ ~ In 63 s /\ existsb is_ctl s = false.
Proof.
  unfold valid_encoded. rewrite forallb_forall. intros H. repeat split.
  - intros Hin. apply H, valid_byte_props in Hin. tauto.
  - intros Hin. apply H, valid_byte_props in Hin. tauto.
  - apply existsb_false_iff. intros b Hb. apply H, valid_byte_props in Hb. tauto.
Qed.

Lemma no_ctl_incl a b : incl a b -> existsb is_ctl b = false -> existsb is_ctl a = false.
Proof. rewrite !existsb_false_iff. intros Hi H x Hx. apply H, Hi, Hx. Qed.

(* ASCII-only strings *)
Definition ascii (s : str) : Prop := Forall (fun b => b < 128) s.

Lemma not_escaped_ascii c : should_escape_path c = false -> c < 128.
Proof.
  unfold should_escape_path, is_alnum, is_alpha, is_lower, is_upper, is_digit, in_range, memb, existsb. lia.
Qed.
Lemma valid_byte_ascii c : valid_encoded_byte c = true -> c < 128.
Proof.
  unfold valid_encoded_byte, should_escape_path, is_alnum, is_alpha, is_lower, is_upper, is_digit, in_range,
    memb, existsb. lia.
Qed.
Lemma escape_ascii s : ascii (escape s).
Proof.
  unfold ascii. apply Forall_forall. intros b H. apply escape_out in H as [H|[H|[_ H]]]; [lia | lia |].
  apply not_escaped_ascii. exact H.
Qed.
Lemma valid_encoded_ascii s : valid_encoded s = true -> ascii s.
Proof.
  unfold valid_encoded, ascii. rewrite forallb_forall, Forall_forall. intros H b Hb. apply valid_byte_ascii, H, Hb.
Qed.

(* ---------------------------------------------------------------- escape / unescape heads *)
Lemma escape_cons_slash s : escape (47 :: s) = 47 :: escape s.
Proof. reflexivity. Qed.

Lemma unescape_slash r p : unescape (47 :: r) = Some p -> exists p', p = 47 :: p' /\ unescape r = Some p'.
Proof.
  cbn [unescape]. change (N.eqb 47 37) with false. cbv iota.
  destruct (unescape r) as [t|]; [|discriminate]. intros H. inversion H. exists t. auto.
Qed.

(* the first byte escape writes for a byte other than '/' is not '/' *)
Lemma escape_head_not_slash c s : c <> 47 -> exists d r, escape (c :: s) = d :: r /\ d <> 47.
Proof.
  intros H. unfold escape. cbn [flat_map]. unfold escape_byte. destruct (should_escape_path c).
  - do 2 eexists. split; [reflexivity | lia].
  - do 2 eexists. split; [reflexivity | exact H].
Qed.

(* ---------------------------------------------------------------- cut / sublists *)
Lemma cut_at_incl sep s a b : cut_at sep s = (a, b) -> incl a s /\ (forall q, b = Some q -> incl q s).
Proof.
  revert a b. induction s as [|c s IH]; intros a b; cbn [cut_at].
  - intros H. inversion H. split; [apply incl_refl | discriminate].
  - destruct (N.eqb c sep).
    + intros H. inversion H. split; [apply incl_nil_l|]. intros q Hq. inversion Hq. subst. apply incl_tl, incl_refl.
    + destruct (cut_at sep s) as [a' b'] eqn:E. intros H. injection H as <- <-.
      destruct (IH a' b' eq_refl) as [H1 H2]. split.
      * apply incl_cons; [left; reflexivity | apply incl_tl; exact H1].
      * intros q Hq. apply incl_tl. apply H2. exact Hq.
Qed.

Lemma cut_at_app_nosep sep a b : ~ In sep a -> cut_at sep (a ++ sep :: b) = (a, Some b).
Proof.
  induction a as [|c a IH]; intros H; cbn [app cut_at].
  - rewrite N.eqb_refl. reflexivity.
  - destruct (N.eqb c sep) eqn:E; [apply N.eqb_eq in E; subst; exfalso; apply H; left; reflexivity|].
    rewrite IH; [reflexivity|]. intros Hin. apply H. right. exact Hin.
Qed.

Lemma cut_at_nosep sep a : ~ In sep a -> cut_at sep a = (a, None).
Proof.
  induction a as [|c a IH]; intros H; cbn [cut_at]; [reflexivity|].
  destruct (N.eqb c sep) eqn:E; [apply N.eqb_eq in E; subst; exfalso; apply H; left; reflexivity|].
  rewrite IH; [reflexivity|]. intros Hin. apply H. right. exact Hin.
Qed.

Lemma cut_at_spec sep s a b : cut_at sep s = (a, b) ->
  ~ In sep a /\ match b with Some q => s = a ++ sep :: q | None => s = a end.
Proof.
  revert a b. induction s as [|c s IH]; intros a b; cbn [cut_at].
  - intros H. inversion H. split; [intros [] | reflexivity].
  - destruct (N.eqb c sep) eqn:E.
    + apply N.eqb_eq in E. subst. intros H. inversion H. split; [intros [] | reflexivity].
    + destruct (cut_at sep s) as [a' b'] eqn:E'. intros H. injection H as <- <-.
      destruct (IH a' b' eq_refl) as [H1 H2]. apply N.eqb_neq in E. split.
      * intros [Hc|Hin]; [congruence | contradiction].
      * destruct b'; cbn [app]; congruence.
Qed.

Lemma removelast_incl {A} (l : list A) : incl (removelast l) l.
Proof.
  induction l as [|x l IH]; [apply incl_refl|]. cbn [removelast]. destruct l as [|y l]; [apply incl_nil_l|].
  apply incl_cons; [left; reflexivity | apply incl_tl; exact IH].
Qed.

Lemma has_prefix_slash s : has_prefix s [47] = true <-> exists r, s = 47 :: r.
Proof.
  destruct s as [|c s]; cbn [has_prefix]; [split; [discriminate | intros [r H]; discriminate]|].
  rewrite andb_true_r, N.eqb_eq. split; [intros <-; exists s; reflexivity | intros [r H]; inversion H; reflexivity].
Qed.

(* ---------------------------------------------------------------- path.Clean / cleanPath *)
Definition good_seg (s : str) : Prop := s <> [] /\ ~ In 47 s.

Lemma split_on_no_sep sep p : Forall (fun s => ~ In sep s) (split_on sep p).
Proof.
  induction p as [|c p IH]; cbn [split_on]; [constructor; [intros []|constructor]|].
  destruct (N.eqb c sep) eqn:E; [constructor; [intros []|exact IH]|].
  destruct (split_on sep p) as [|x r]; [constructor; [|constructor]|].
  - intros [H|[]]. apply N.eqb_neq in E. congruence.
  - inversion IH; subst. constructor; [|assumption]. intros [H|H]; [apply N.eqb_neq in E; congruence | contradiction].
Qed.

Lemma nilb_false {A} (l : list A) : nilb l = false <-> l <> [].
Proof. destruct l; cbn; split; congruence. Qed.
Lemma nilb_true {A} (l : list A) : nilb l = true <-> l = [].
Proof. destruct l; cbn; split; congruence. Qed.

Lemma clean_stack_good rooted ss : forall acc,
  Forall good_seg acc -> Forall (fun s => ~ In 47 s) ss -> Forall good_seg (clean_stack rooted acc ss).
Proof.
  induction ss as [|s ss IH]; intros acc Ha Hs; cbn [clean_stack].
  - apply Forall_rev. exact Ha.
  - inversion Hs as [|? ? Hs1 Hs2]; subst.
    destruct (nilb s) eqn:En; cbn [orb]; [apply IH; assumption|].
    destruct (str_eqb s DOT) eqn:Ed; [apply IH; assumption|].
    assert (Hg : good_seg s) by (split; [apply nilb_false; exact En | exact Hs1]).
    destruct (str_eqb s DOTDOT) eqn:Edd.
    + destruct acc as [|a acc'].
      * destruct rooted; apply IH; auto.
      * inversion Ha; subst. destruct (negb rooted && str_eqb a DOTDOT); apply IH; auto.
    + apply IH; auto.
Qed.

(* no two adjacent slashes *)
Fixpoint nds (s : str) : bool :=
  match s with
  | a :: r => match r with b :: _ => negb (N.eqb a 47 && N.eqb b 47) | [] => true end && nds r
  | [] => true
  end.

Lemma nds_no47_app s rest : ~ In 47 s -> nds (s ++ rest) = nds rest.
Proof.
  induction s as [|c s IH]; intros H; [reflexivity|]. cbn [app nds].
  assert (Hc : N.eqb c 47 = false) by (apply N.eqb_neq; intros E; apply H; left; auto).
  rewrite Hc. cbn [andb negb]. rewrite IH by (intros Hin; apply H; right; exact Hin).
  destruct (s ++ rest); reflexivity.
Qed.

Definition slashed (st : list str) : str := flat_map (fun s => 47 :: s) st.

Lemma slashed_join st : st <> [] -> 47 :: join [47] st = slashed st.
Proof.
  induction st as [|s st IH]; intros H; [congruence|]. cbn [slashed flat_map join].
  destruct st as [|s' st'].
  - cbn [flat_map]. rewrite app_nil_r. reflexivity.
  - cbn [app]. f_equal. f_equal. change (47 :: join [47] (s' :: st') = slashed (s' :: st')).
    apply IH. discriminate.
Qed.

Lemma nds_slashed st tail :
  Forall good_seg st -> (tail = [] \/ tail = [47]) -> nds (slashed st ++ tail) = true.
Proof.
  intros Hst Ht. induction Hst as [|s st [Hne Hno] _ IH]; cbn [slashed flat_map app].
  - destruct Ht as [->| ->]; reflexivity.
  - fold (slashed st). rewrite <- app_assoc. cbn [nds].
    destruct s as [|c s]; [congruence|]. cbn [app].
    assert (Hc : N.eqb c 47 = false) by (apply N.eqb_neq; intros E; apply Hno; left; auto).
    rewrite Hc, andb_false_r. cbn [negb andb].
    change (c :: s ++ slashed st ++ tail) with ((c :: s) ++ slashed st ++ tail).
    rewrite nds_no47_app by exact Hno. exact IH.
Qed.

(* shape of gorilla's cleanPath: "/" + good segments joined by single "/" (+ one trailing "/") *)
Lemma clean_path_shape_rooted r :
  exists st tail, Forall good_seg st /\ (tail = [] \/ (tail = [47] /\ st <> [])) /\
    (if last_is 47 (47 :: r) && negb (str_eqb (path_clean (47 :: r)) [47])
     then path_clean (47 :: r) ++ [47] else path_clean (47 :: r)) = (if nilb st then [47] else slashed st) ++ tail.
Proof.
  unfold path_clean. change (N.eqb 47 47) with true. cbv iota zeta.
  set (st := clean_stack true [] (split_on 47 (47 :: r))).
  assert (Hst : Forall good_seg st) by (apply clean_stack_good; [constructor | apply split_on_no_sep]).
  assert (Hnp : (if nilb (47 :: join [47] st) then DOT else 47 :: join [47] st) = if nilb st then [47] else slashed st).
  { cbn [nilb]. destruct st as [|s st'] eqn:Est; [reflexivity|]. cbn [nilb]. apply slashed_join. discriminate. }
  rewrite Hnp. exists st.
  destruct (last_is 47 (47 :: r) && negb (str_eqb (if nilb st then [47] else slashed st) [47])) eqn:Et.
  - exists [47]. split; [exact Hst|]. split; [|reflexivity]. right. split; [reflexivity|].
    intros E. rewrite E in Et. cbn [nilb] in Et. rewrite str_eqb_refl, andb_false_r in Et. discriminate.
  - exists []. split; [exact Hst|]. split; [left; reflexivity | rewrite app_nil_r; reflexivity].
Qed.

(* shape of gorilla's cleanPath: "/" + good segments joined by single "/" (+ one trailing "/") *)
Lemma clean_path_shape p :
  exists st tail, Forall good_seg st /\ (tail = [] \/ (tail = [47] /\ st <> [])) /\
                  clean_path p = (if nilb st then [47] else slashed st) ++ tail.
Proof.
  unfold clean_path. destruct p as [|c p0]; [exists [], []; split; [constructor | split; [left|]; reflexivity]|].
  cbv zeta. destruct (N.eqb c 47) eqn:E; [apply N.eqb_eq in E; subst c|]; apply clean_path_shape_rooted.
Qed.

Lemma clean_path_no_double_slash p : nds (clean_path p) = true.
Proof.
  destruct (clean_path_shape p) as [st [tail [Hst [Ht ->]]]].
  destruct st as [|s st'].
  - cbn [nilb]. destruct Ht as [->|[-> H]]; [reflexivity | congruence].
  - cbn [nilb]. apply nds_slashed; [exact Hst | tauto].
Qed.

(* first and second byte of a cleaned path *)
Lemma clean_path_head p :
  clean_path p = [47] \/ exists c r, clean_path p = 47 :: c :: r /\ c <> 47.
Proof.
  destruct (clean_path_shape p) as [st [tail [Hst [Ht ->]]]].
  destruct st as [|s st'].
  - cbn [nilb]. destruct Ht as [->|[-> H]]; [left; reflexivity | congruence].
  - right. cbn [nilb slashed flat_map]. inversion Hst as [|? ? [Hne Hno] _]; subst.
    destruct s as [|c s]; [congruence|]. exists c. eexists. split; [cbn [app]; reflexivity|].
    intros ->. apply Hno. left; reflexivity.
Qed.

(* ---------------------------------------------------------------- parse, origin-form *)
Lemma get_scheme_slash r : get_scheme (47 :: r) = Some ([], 47 :: r).
Proof. reflexivity. Qed.

Lemma count_byte_app c l1 l2 : count_byte c (l1 ++ l2) = count_byte c l1 + count_byte c l2.
Proof. induction l1 as [|y l1 IH]; cbn [app count_byte]; [lia | rewrite IH; lia]. Qed.

Lemma count_byte_absent c l : ~ In c l -> count_byte c l = 0.
Proof.
  induction l as [|y l IH]; intros H; [reflexivity|]. cbn [count_byte].
  destruct (N.eqb y c) eqn:E; [apply N.eqb_eq in E; subst; exfalso; apply H; left; reflexivity|].
  rewrite IH; [lia|]. intros Hin. apply H. right. exact Hin.
Qed.

Lemma last_is_app_single c l : last_is c (l ++ [c]) = true.
Proof. unfold last_is. rewrite rev_app_distr. cbn. apply N.eqb_refl. Qed.

(* url.go:530-535: ForceQuery iff the only '?' is the last byte, i.e. iff the cut leaves an empty query *)
Lemma force_query_iff t a b : cut_at 63 t = (a, b) ->
  (last_is 63 t && N.eqb (count_byte 63 t) 1 = true <-> b = Some []) /\
  (b = Some [] -> removelast t = a).
Proof.
  intros Ecut. destruct (cut_at_spec _ _ _ _ Ecut) as [Hna Hsp]. split; [split|].
  - intros H. apply andb_true_iff in H as [Hl Hc]. apply N.eqb_eq in Hc. destruct b as [q|].
    + subst t. f_equal. destruct q as [|x q] using rev_ind; [reflexivity|]. exfalso.
      rewrite app_comm_cons, app_assoc in Hl. unfold last_is in Hl. rewrite rev_app_distr in Hl. cbn [rev app] in Hl.
      apply N.eqb_eq in Hl. subst x.
      rewrite count_byte_app in Hc. cbn [count_byte] in Hc. rewrite N.eqb_refl in Hc.
      rewrite count_byte_app in Hc. cbn [count_byte] in Hc. rewrite N.eqb_refl in Hc. lia.
    + exfalso. subst a. unfold last_is in Hl. destruct (rev t) as [|d l] eqn:Er; [discriminate|].
      apply N.eqb_eq in Hl. subst d. apply Hna. apply in_rev. rewrite Er. left; reflexivity.
  - intros ->. subst t. rewrite last_is_app_single. rewrite count_byte_app, (count_byte_absent _ _ Hna).
    reflexivity.
  - intros ->. subst t. rewrite removelast_app by discriminate. cbn [removelast]. apply app_nil_r.
Qed.

Lemma parse_origin t u :
  has_prefix t [47] = true -> parse_request_uri t = PUrl u ->
  existsb is_ctl t = false /\ u_scheme u = [] /\ u_host u = [] /\
  exists rest, has_prefix rest [47] = true /\ set_path rest = Some (u_path u, u_rawpath u) /\
               incl rest t /\ incl (u_rawquery u) t /\
               (* how the target splits at its first '?' *)
               (let '(a, b) := cut_at 63 t in
                rest = a /\ match b with
                            | None => u_force_query u = false /\ u_rawquery u = []
                            | Some [] => u_force_query u = true /\ u_rawquery u = []
                            | Some q => u_force_query u = false /\ u_rawquery u = q
                            end).
Proof.
  intros Hp. apply has_prefix_slash in Hp as [r Hr]. unfold parse_request_uri.
  destruct (existsb is_ctl t) eqn:Ectl; [discriminate|].
  assert (nilb t = false) as -> by (subst t; reflexivity).
  assert (str_eqb t [42] = false) as -> by (subst t; reflexivity).
  assert (get_scheme t = Some ([], t)) as -> by (subst t; reflexivity).
  cbn [lower_ascii map nilb negb].
  destruct (cut_at 63 t) as [a b] eqn:Ecut.
  destruct (cut_at_incl _ _ _ _ Ecut) as [Hia Hib].
  destruct (force_query_iff _ _ _ Ecut) as [Hfq Hrl].
  destruct (last_is 63 t && N.eqb (count_byte 63 t) 1) eqn:Eforce.
  - assert (b = Some []) as Hb by (apply Hfq; reflexivity). rewrite (Hrl Hb). subst b.
    destruct (has_prefix a [47]) eqn:Hpa; cbn [negb]; [|discriminate].
    destruct (set_path a) as [[p rp]|] eqn:Esp; [|discriminate].
    intros H. inversion H; subst u; cbn [u_scheme u_host u_path u_rawpath u_force_query u_rawquery].
    repeat split; auto. exists a. repeat split; auto using incl_nil_l.
  - destruct (has_prefix a [47]) eqn:Hpa; cbn [negb]; [|discriminate].
    destruct (set_path a) as [[p rp]|] eqn:Esp; [|discriminate].
    intros H. inversion H; subst u; cbn [u_scheme u_host u_path u_rawpath u_force_query u_rawquery].
    repeat split; auto. exists a. repeat split; auto.
    + destruct b as [q|]; [apply Hib; reflexivity | apply incl_nil_l].
    + destruct b as [[|x q]|]; auto.
      exfalso. assert (false = true); [apply Hfq; reflexivity | discriminate].
Qed.

(* ---------------------------------------------------------------- EscapedPath *)
(* for a path that came through setPath with a leading '/': *)
Lemma escaped_path_props u rest :
  has_prefix rest [47] = true -> set_path rest = Some (u_path u, u_rawpath u) ->
  existsb is_ctl rest = false ->
  let ep := escaped_path u in
  (exists r, ep = 47 :: r) /\ ~ In 92 ep /\ ~ In 63 ep /\ existsb is_ctl ep = false /\
  (* it is an encoding of the same decoded path *)
  (ep = rest \/ ep = escape (u_path u)) /\ unescape rest = Some (u_path u) /\ ascii ep.
Proof.
  intros Hp Hs Hctl. apply has_prefix_slash in Hp as [r ->]. unfold set_path in Hs.
  destruct (unescape (47 :: r)) as [p|] eqn:Eu; [|discriminate].
  destruct (unescape_slash _ _ Eu) as [p' [-> Hu']]. inversion Hs as [[Hpath Hraw]]. clear Hs.
  unfold escaped_path. rewrite <- Hpath.
  destruct (negb (nilb (u_rawpath u)) && valid_encoded (u_rawpath u) &&
            match unescape (u_rawpath u) with Some p => str_eqb p (47 :: p') | None => false end) eqn:E.
  - apply andb_true_iff in E as [E _]. apply andb_true_iff in E as [En Ev].
    assert (Hr : u_rawpath u = 47 :: r).
    { rewrite <- Hraw in En |- *. destruct (str_eqb (47 :: r) _); [discriminate | reflexivity]. }
    rewrite Hr in *. pose proof (valid_encoded_ascii _ Ev) as Hasc.
    apply valid_encoded_props in Ev as [H1 [H2 H3]]. repeat split; eauto.
  - assert (str_eqb (47 :: p') [42] = false) as -> by reflexivity.
    rewrite escape_cons_slash. repeat split; eauto.
    + rewrite <- escape_cons_slash. apply escape_no_backslash.
    + rewrite <- escape_cons_slash. apply escape_no_qmark.
    + rewrite <- escape_cons_slash. apply escape_no_ctl.
    + rewrite <- escape_cons_slash. apply escape_ascii.
Qed.

(* ---------------------------------------------------------------- the recorded URI, origin-form *)
Lemma url_string_origin u ep :
  u_scheme u = [] -> u_host u = [] -> escaped_path u = 47 :: ep ->
  url_string u = (47 :: ep) ++ (if u_force_query u || negb (nilb (u_rawquery u)) then 63 :: u_rawquery u else []).
Proof.
  intros Hs Hh He. unfold url_string. rewrite Hs, Hh, He. cbn [nilb negb orb andb app has_prefix].
  change (N.eqb 47 47) with true. cbn [andb negb nilb app cut_at fst memb existsb]. reflexivity.
Qed.

Lemma same_site_rel_intro ep q :
  (ep = [] \/ exists c r, ep = c :: r /\ c <> 47 /\ c <> 92) ->
  existsb is_ctl (47 :: ep) = false -> existsb is_ctl q = false ->
  forall b : bool, same_site_rel ((47 :: ep) ++ (if b then 63 :: q else [])) = true.
Proof.
  intros Hhead Hc1 Hc2 b. unfold same_site_rel. cbn [app]. rewrite N.eqb_refl. cbn [andb].
  assert (Hctl : existsb is_ctl (47 :: ep ++ (if b then 63 :: q else [])) = false).
  { change (47 :: ep ++ (if b then 63 :: q else [])) with ((47 :: ep) ++ (if b then 63 :: q else [])).
    rewrite existsb_app, Hc1. destruct b; [cbn [existsb orb]; exact Hc2 | reflexivity]. }
  rewrite Hctl. cbn [negb]. rewrite andb_true_r.
  destruct Hhead as [->|[c [r [-> [H1 H2]]]]].
  - destruct b; reflexivity.
  - cbn [app]. apply N.eqb_neq in H1, H2. rewrite H1, H2. reflexivity.
Qed.

(* ---------------------------------------------------------------- escape/unescape round trip (bytes) *)
Lemma upperhex_hex n : is_hex (upperhex n) = true /\ unhex (upperhex n) = n mod 16.
Proof.
  unfold upperhex. cbv zeta. pose proof (N.mod_upper_bound n 16 ltac:(lia)) as H.
  unfold is_hex, unhex, is_digit, in_range. destruct (n mod 16 <? 10) eqn:E.
  - assert (48 <=? 48 + n mod 16 = true) as -> by lia. assert (48 + n mod 16 <=? 57 = true) as -> by lia.
    cbn [andb orb]. split; [reflexivity | lia].
  - assert ((48 <=? 55 + n mod 16) && (55 + n mod 16 <=? 57) = false) as -> by lia.
    assert ((97 <=? 55 + n mod 16) && (55 + n mod 16 <=? 102) = false) as -> by lia.
    assert ((65 <=? 55 + n mod 16) && (55 + n mod 16 <=? 70) = true) as -> by lia.
    cbn [orb]. split; [reflexivity | lia].
Qed.

Lemma unhex_le h : unhex h <= 15.
Proof. unfold unhex, is_digit, in_range. destruct ((48 <=? h) && (h <=? 57)) eqn:E1; [lia|].
  destruct ((97 <=? h) && (h <=? 102)) eqn:E2; [lia|]. destruct ((65 <=? h) && (h <=? 70)) eqn:E3; lia. Qed.

Lemma unescape_cons c r :
  unescape (c :: r) =
  if N.eqb c 37 then
    match r with
    | h1 :: h2 :: r' =>
        if is_hex h1 && is_hex h2 then
          match unescape r' with Some t => Some ((16 * unhex h1 + unhex h2) :: t) | None => None end
        else None
    | _ => None
    end
  else match unescape r with Some t => Some (c :: t) | None => None end.
Proof. reflexivity. Qed.

Definition bytes (s : str) : Prop := Forall (fun b => b < 256) s.

Lemma escape_unescape s : bytes s -> unescape (escape s) = Some s.
Proof.
  induction 1 as [|c s Hc _ IH]; [reflexivity|]. unfold escape. cbn [flat_map]. fold (escape s).
  unfold escape_byte. destruct (should_escape_path c) eqn:E.
  - cbn [app unescape]. change (N.eqb 37 37) with true. cbv iota.
    destruct (upperhex_hex (c / 16)) as [H1 U1]. destruct (upperhex_hex c) as [H2 U2].
    rewrite H1, H2, IH, U1, U2. cbn [andb]. f_equal. f_equal.
    assert (c / 16 < 16) by (apply N.div_lt_upper_bound; lia).
    rewrite (N.mod_small (c / 16) 16) by lia. pose proof (N.div_mod c 16 ltac:(lia)). lia.
  - cbn [app unescape]. apply not_escaped_props in E. destruct E as [_ [_ [_ E]]].
    apply N.eqb_neq in E. rewrite E, IH. reflexivity.
Qed.

Lemma unescape_bytes : forall s p, bytes s -> unescape s = Some p -> bytes p.
Proof.
  assert (G : forall n s, (length s <= n)%nat -> forall p, bytes s -> unescape s = Some p -> bytes p).
  { induction n as [|n IH]; intros s Hl p Hs Hu.
    - destruct s; [inversion Hu; constructor | cbn in Hl; lia].
    - destruct s as [|c r]; [inversion Hu; constructor|]. rewrite unescape_cons in Hu. inversion Hs as [|? ? Hc Hr]; subst.
      destruct (N.eqb c 37).
      + destruct r as [|h1 [|h2 r']]; try discriminate.
        destruct (is_hex h1 && is_hex h2); [|discriminate].
        destruct (unescape r') as [t|] eqn:Et; [|discriminate]. injection Hu as <-.
        inversion Hr as [|? ? _ Hr1]; subst. inversion Hr1 as [|? ? _ Hr2]; subst.
        constructor; [pose proof (unhex_le h1); pose proof (unhex_le h2); destruct (unhex h1); lia|].
        apply (IH r'); [cbn [length] in Hl; lia | exact Hr2 | exact Et].
      + destruct (unescape r) as [t|] eqn:Et; [|discriminate]. injection Hu as <-.
        constructor; [exact Hc|]. apply (IH r); [cbn [length] in Hl; lia | exact Hr | exact Et]. }
  intros s p. apply (G (length s)). lia.
Qed.

Lemma bytes_incl a b : incl a b -> bytes b -> bytes a.
Proof. unfold bytes. rewrite !Forall_forall. intros Hi H x Hx. apply H, Hi, Hx. Qed.

(* ---------------------------------------------------------------- utf8_coerce (the JSON codec) *)
Lemma coerce_ascii_cons c r : c < 128 -> utf8_coerce (c :: r) = c :: utf8_coerce r.
Proof. intros H. cbn [utf8_coerce]. assert (c <? 128 = true) as -> by lia. reflexivity. Qed.

Lemma coerce_ascii_app a b : ascii a -> utf8_coerce (a ++ b) = a ++ utf8_coerce b.
Proof.
  induction 1 as [|c a Hc _ IH]; [reflexivity|]. cbn [app]. rewrite coerce_ascii_cons by exact Hc. rewrite IH. reflexivity.
Qed.

(* one unfolding step, for a non-ASCII lead byte *)
Lemma coerce_nonascii c r : 128 <= c ->
  (exists r', utf8_coerce (c :: r) = REPLACEMENT ++ utf8_coerce r' /\ (length r' <= length r)%nat /\ incl r' r) \/
  (exists pre r', (c :: r) = pre ++ r' /\ utf8_coerce (c :: r) = pre ++ utf8_coerce r' /\ (length r' < length r)%nat /\
                  pre <> []).
Proof.
  intros H. cbn [utf8_coerce]. assert (c <? 128 = false) as -> by lia.
  destruct (N.eqb (utf8_seq_len c r) 2).
  { destruct r as [|s1 r1]; [left; exists []; repeat split; auto using incl_refl|].
    right. exists [c; s1], r1. repeat split; [cbn [length]; lia | discriminate]. }
  destruct (N.eqb (utf8_seq_len c r) 3).
  { destruct r as [|s1 [|s2 r2]]; [left; eexists; repeat split; auto using incl_refl .. |].
    right. exists [c; s1; s2], r2. repeat split; [cbn [length]; lia | discriminate]. }
  destruct (N.eqb (utf8_seq_len c r) 4).
  { destruct r as [|s1 [|s2 [|s3 r3]]]; [left; eexists; repeat split; auto using incl_refl .. |].
    right. exists [c; s1; s2; s3], r3. repeat split; [cbn [length]; lia | discriminate]. }
  left. exists r. repeat split; auto using incl_refl.
Qed.

(* every byte of the output is a byte of the input or one of EF BF BD *)
Lemma coerce_out : forall s b, In b (utf8_coerce s) -> In b s \/ b = 239 \/ b = 191 \/ b = 189.
Proof.
  assert (G : forall n s, (length s <= n)%nat -> forall b, In b (utf8_coerce s) -> In b s \/ b = 239 \/ b = 191 \/ b = 189).
  { induction n as [|n IH]; intros s Hl b Hb.
    - destruct s; [destruct Hb | cbn in Hl; lia].
    - destruct s as [|c r]; [destruct Hb|]. cbn [length] in Hl.
      destruct (N.ltb_spec c 128) as [Hc|Hc].
      + rewrite coerce_ascii_cons in Hb by exact Hc. destruct Hb as [->|Hb]; [left; left; reflexivity|].
        destruct (IH r ltac:(lia) b Hb) as [H|H]; [left; right; exact H | right; exact H].
      + destruct (coerce_nonascii c r Hc) as [[r' [E [Hlen Hi]]]|[pre [r' [Es [E [Hlen _]]]]]]; rewrite E in Hb.
        * apply in_app_or in Hb as [Hb|Hb].
          { right. cbn in Hb. destruct Hb as [<-|[<-|[<-|[]]]]; auto. }
          destruct (IH r' ltac:(lia) b Hb) as [H|H]; [left; right; apply Hi; exact H | right; exact H].
        * apply in_app_or in Hb as [Hb|Hb]; [left; rewrite Es; apply in_or_app; left; exact Hb|].
          destruct (IH r' ltac:(lia) b Hb) as [H|H]; [left; rewrite Es; apply in_or_app; right; exact H | right; exact H]. }
  intros s. apply (G (length s)). lia.
Qed.

Lemma coerce_no_ctl s : existsb is_ctl s = false -> existsb is_ctl (utf8_coerce s) = false.
Proof.
  rewrite !existsb_false_iff. intros H b Hb. apply coerce_out in Hb as [Hb|[->|[->| ->]]]; [apply H; exact Hb | reflexivity ..].
Qed.

(* ---------------------------------------------------------------- the theorem, origin-form *)
Definition query_part (force : bool) (q : str) : str := if force || negb (nilb q) then 63 :: q else [].

Lemma coerce_query_part force q : utf8_coerce (query_part force q) = query_part force (utf8_coerce q) \/
                                  (query_part force q = [] /\ q = []).
Proof.
  unfold query_part. destruct force; cbn [orb].
  - left. rewrite coerce_ascii_cons by lia. reflexivity.
  - destruct q as [|c q]; [right; auto|]. left. cbn [nilb negb]. rewrite coerce_ascii_cons by lia.
    destruct (utf8_coerce (c :: q)) eqn:E; [|reflexivity].
    exfalso. destruct (N.ltb_spec c 128) as [Hc|Hc].
    + rewrite coerce_ascii_cons in E by exact Hc. discriminate.
    + destruct (coerce_nonascii c q Hc) as [[r' [E' _]]|[pre [r' [_ [E' [_ Hpre]]]]]]; rewrite E' in E.
      * discriminate.
      * destruct pre; [congruence | discriminate].
Qed.

(* what [route ... = RProxy] means for an origin-form target, unfolded once *)
Lemma route_proxy_origin hosts hh t h rec :
  has_prefix t [47] = true -> route hosts hh t = RProxy h rec ->
  exists u rest ep,
    parse_request_uri t = PUrl u /\ existsb is_ctl t = false /\ u_scheme u = [] /\ u_host u = [] /\
    has_prefix rest [47] = true /\ set_path rest = Some (u_path u, u_rawpath u) /\ incl rest t /\ incl (u_rawquery u) t /\
    (let '(a, b) := cut_at 63 t in
     rest = a /\ match b with
                 | None => u_force_query u = false /\ u_rawquery u = []
                 | Some [] => u_force_query u = true /\ u_rawquery u = []
                 | Some q => u_force_query u = false /\ u_rawquery u = q
                 end) /\
    h = hh /\ mem_str hh hosts = true /\
    escaped_path u = 47 :: ep /\ clean_path (47 :: ep) = 47 :: ep /\
    rec = (47 :: ep) ++ utf8_coerce (query_part (u_force_query u) (u_rawquery u)).
Proof.
  intros Hp Hr. unfold route in Hr. destruct (memb 32 t); [discriminate|].
  destruct (parse_request_uri t) as [| |u] eqn:Epar; try discriminate.
  destruct (parse_origin _ _ Hp Epar) as [Hctl [Hs [Hh [rest [Hpr [Hsp [Hir [Hiq Hcut]]]]]]]].
  destruct (str_eqb (u_path u) PING); [discriminate|]. rewrite Hh in Hr. cbn [nilb] in Hr.
  destruct (mem_str hh hosts) eqn:Em; cbn [negb] in Hr; [|discriminate].
  pose proof (escaped_path_props u rest Hpr Hsp (no_ctl_incl _ _ Hir Hctl)) as Hep. cbv zeta in Hep.
  destruct Hep as [[ep Hep] [_ [_ [_ [_ [_ Hasc]]]]]].
  destruct (str_eqb (clean_path (escaped_path u)) (escaped_path u)) eqn:Ecl; cbn [negb] in Hr; [|discriminate].
  apply str_eqb_eq in Ecl.
  destruct (mem_str (escaped_path u) fixed_routes); [discriminate|]. inversion Hr; subst h rec. clear Hr.
  exists u, rest, ep. rewrite <- Hep at 2 3. rewrite Ecl. repeat split; auto.
  rewrite (url_string_origin u ep Hs Hh Hep). fold (query_part (u_force_query u) (u_rawquery u)).
  rewrite Hep in Hasc. apply coerce_ascii_app. exact Hasc.
Qed.

(* C06_same_site, origin-form: whatever reaches Proxy is routed under the Host header and the URI
   recorded for it is relative and same-site *)
Lemma route_same_site hosts hh t h rec :
  has_prefix t [47] = true -> route hosts hh t = RProxy h rec ->
  h = hh /\ mem_str hh hosts = true /\ same_site_rel rec = true.
Proof.
  intros Hp Hr.
  destruct (route_proxy_origin _ _ _ _ _ Hp Hr) as
    (u & rest & ep & Epar & Hctl & Hs & Hh & Hpr & Hsp & Hir & Hiq & Hcut & -> & Hm & Hep & Hcl & ->).
  split; [reflexivity|]. split; [exact Hm|].
  pose proof (escaped_path_props u rest Hpr Hsp (no_ctl_incl _ _ Hir Hctl)) as P. cbv zeta in P.
  destruct P as [_ [Hbs [_ [Hc _]]]]. rewrite Hep in Hbs, Hc.
  assert (Hhead : ep = [] \/ exists c r, ep = c :: r /\ c <> 47 /\ c <> 92).
  { destruct (clean_path_head (47 :: ep)) as [H|[c [r [H Hc47]]]]; rewrite Hcl in H.
    - left. inversion H. reflexivity.
    - right. inversion H. exists c, r. split; [reflexivity|]. split; [exact Hc47|].
      intros ->. apply Hbs. rewrite H. right; left; reflexivity. }
  pose proof (coerce_no_ctl _ (no_ctl_incl _ _ Hiq Hctl)) as Hqc.
  destruct (coerce_query_part (u_force_query u) (u_rawquery u)) as [->|[-> _]].
  - unfold query_part. apply same_site_rel_intro; assumption.
  - change (utf8_coerce []) with (if false then 63 :: @nil N else []). apply same_site_rel_intro; auto.
Qed.

(* ... with the same query (up to the JSON codec's replacement of invalid UTF-8) and the same path
   after %-decoding *)
Lemma route_same_path_query hosts hh t h rec :
  has_prefix t [47] = true -> bytes t -> route hosts hh t = RProxy h rec ->
  let '(tp, tq) := cut_at 63 t in let '(rp, rq) := cut_at 63 rec in
  rq = option_map utf8_coerce tq /\ unescape rp = unescape tp /\ unescape tp <> None.
Proof.
  intros Hp Hb Hr.
  destruct (route_proxy_origin _ _ _ _ _ Hp Hr) as
    (u & rest & ep & Epar & Hctl & Hs & Hh & Hpr & Hsp & Hir & Hiq & Hcut & -> & Hm & Hep & Hcl & ->).
  pose proof (escaped_path_props u rest Hpr Hsp (no_ctl_incl _ _ Hir Hctl)) as P. cbv zeta in P.
  destruct P as [_ [_ [Hq [_ [Henc [Hun _]]]]]]. rewrite Hep in Hq, Henc.
  assert (Hue : unescape (47 :: ep) = Some (u_path u)).
  { destruct Henc as [->| ->]; [exact Hun|]. apply escape_unescape.
    eapply unescape_bytes; [|exact Hun]. eapply bytes_incl; eassumption. }
  destruct (cut_at 63 t) as [tp tq] eqn:Ect. destruct Hcut as [-> Hq'].
  destruct tq as [[|x q]|]; destruct Hq' as [Hf Hrq]; rewrite Hf, Hrq; unfold query_part; cbn [orb nilb negb option_map].
  - rewrite coerce_ascii_cons by lia. rewrite (cut_at_app_nosep 63 (47 :: ep) _ Hq). rewrite Hue, Hun. repeat split; congruence.
  - rewrite coerce_ascii_cons by lia. rewrite (cut_at_app_nosep 63 (47 :: ep) _ Hq). rewrite Hue, Hun. repeat split; congruence.
  - change (utf8_coerce []) with (@nil N). rewrite app_nil_r, (cut_at_nosep 63 (47 :: ep) Hq). rewrite Hue, Hun. repeat split; congruence.
Qed.

(* ---------------------------------------------------------------- absolute-form targets *)
Lemma get_scheme_aux_incl orig : forall s first acc a b,
  incl s orig -> get_scheme_aux first acc s orig = Some (a, b) -> incl b orig.
Proof.
  induction s as [|c s IH]; intros first acc a b Hi; cbn [get_scheme_aux].
  - intros H. inversion H. apply incl_refl.
  - assert (Hs : incl s orig) by (intros x Hx; apply Hi; right; exact Hx).
    destruct (is_alpha c); [apply IH; exact Hs|].
    destruct (is_digit c || N.eqb c 43 || N.eqb c 45 || N.eqb c 46).
    + destruct first; [intros H; inversion H; apply incl_refl | apply IH; exact Hs].
    + destruct (N.eqb c 58); [|intros H; inversion H; apply incl_refl].
      destruct first; [discriminate|]. intros H. inversion H. subst. exact Hs.
Qed.

Lemma split_authority_spec s a r : split_authority s = (a, r) ->
  incl r s /\ (r = [] \/ exists r', r = 47 :: r').
Proof.
  revert a r. induction s as [|c s IH]; intros a r; cbn [split_authority].
  - intros H. inversion H. split; [apply incl_refl | left; reflexivity].
  - destruct (N.eqb c 47) eqn:E.
    + apply N.eqb_eq in E. subst c. intros H. inversion H. split; [apply incl_refl | right; eauto].
    + destruct (split_authority s) as [a' r'] eqn:Es. intros H. injection H as <- <-.
      destruct (IH a' r' eq_refl) as [H1 H2]. split; [apply incl_tl; exact H1 | exact H2].
Qed.

Lemma skipn_incl {A} n (l : list A) : incl (skipn n l) l.
Proof.
  revert l. induction n as [|n IH]; intros l; [apply incl_refl|]. destruct l as [|x l]; [apply incl_refl|].
  cbn [skipn]. apply incl_tl, IH.
Qed.

Lemma parse_absolute t u :
  parse_request_uri t = PUrl u -> u_scheme u <> [] ->
  existsb is_ctl t = false /\ simple_authority (u_host u) = true /\
  exists rest, (rest = [] \/ has_prefix rest [47] = true) /\ set_path rest = Some (u_path u, u_rawpath u) /\
               incl rest t /\ incl (u_rawquery u) t.
Proof.
  unfold parse_request_uri. destruct (existsb is_ctl t) eqn:Ectl; [discriminate|].
  destruct (nilb t); [discriminate|]. destruct (str_eqb t [42]); [discriminate|].
  destruct (get_scheme t) as [[sch0 rest0]|] eqn:Eg; [|discriminate].
  assert (Hr0 : incl rest0 t) by (eapply get_scheme_aux_incl; [apply incl_refl | exact Eg]).
  set (sch := lower_ascii sch0).
  destruct (cut_at 63 rest0) as [a b] eqn:Ecut. destruct (cut_at_incl _ _ _ _ Ecut) as [Hia Hib].
  assert (Hgen : forall rest force rawq, incl rest rest0 -> incl rawq rest0 ->
    (if negb (has_prefix rest [47]) then (if nilb sch then PBad else PUnmodelled)
     else if negb (nilb sch) then
       if has_prefix rest [47; 47] then
         let '(authority, rest') := split_authority (skipn 2 rest) in
         if simple_authority authority then
           match set_path rest' with
           | None => PBad
           | Some (p, rp) => PUrl {| u_scheme := sch; u_host := authority; u_path := p; u_rawpath := rp;
                                     u_force_query := force; u_rawquery := rawq |}
           end
         else PUnmodelled
       else PUnmodelled
     else match set_path rest with
          | None => PBad
          | Some (p, rp) => PUrl {| u_scheme := []; u_host := []; u_path := p; u_rawpath := rp;
                                    u_force_query := force; u_rawquery := rawq |}
          end) = PUrl u -> u_scheme u <> [] ->
    false = false /\ simple_authority (u_host u) = true /\
    exists rest1, (rest1 = [] \/ has_prefix rest1 [47] = true) /\ set_path rest1 = Some (u_path u, u_rawpath u) /\
                  incl rest1 t /\ incl (u_rawquery u) t).
  { intros rest force rawq Hir Hiq. destruct (has_prefix rest [47]); cbn [negb]; [|destruct (nilb sch); discriminate].
    destruct (nilb sch) eqn:En; cbn [negb].
    - destruct (set_path rest) as [[p rp]|]; [|discriminate]. intros H. inversion H. cbn. congruence.
    - destruct (has_prefix rest [47; 47]); [|discriminate].
      destruct (split_authority (skipn 2 rest)) as [authority rest'] eqn:Esa.
      destruct (split_authority_spec _ _ _ Esa) as [Hi' Hshape].
      destruct (simple_authority authority) eqn:Esimple; [|discriminate].
      destruct (set_path rest') as [[p rp]|] eqn:Esp; [|discriminate].
      intros H _. inversion H; subst u; cbn [u_scheme u_host u_path u_rawpath u_force_query u_rawquery].
      split; [reflexivity|]. split; [exact Esimple|]. exists rest'. repeat split.
      + destruct Hshape as [->|[r' ->]]; [left; reflexivity | right; reflexivity].
      + exact Esp.
      + intros x Hx. apply Hr0, Hir. apply (skipn_incl 2). apply Hi'. exact Hx.
      + intros x Hx. apply Hr0, Hiq, Hx. }
  destruct (last_is 63 rest0 && N.eqb (count_byte 63 rest0) 1).
  - apply Hgen; [apply removelast_incl | apply incl_nil_l].
  - apply Hgen; [exact Hia|]. destruct b as [q|]; [apply Hib; reflexivity | apply incl_nil_l].
Qed.

Lemma simple_authority_nonempty a : simple_authority a = true -> a <> [].
Proof.
  unfold simple_authority. destruct (cut_at 58 a) as [h port] eqn:E. intros H ->. cbn in E. inversion E; subst.
  cbn in H. discriminate.
Qed.

(* a configured host written in a simple authority is exactly what a browser reads back from
   scheme://host/...: it contains none of the bytes that end or split an authority *)
Lemma simple_authority_bytes a c :
  simple_authority a = true -> In c a -> c <> 47 /\ c <> 92 /\ c <> 63 /\ c <> 35 /\ c <> 64.
Proof.
  unfold simple_authority. destruct (cut_at 58 a) as [h port] eqn:E. intros H Hin.
  destruct (cut_at_spec _ _ _ _ E) as [_ Hs].
  apply andb_true_iff in H as [H Hp]. apply andb_true_iff in H as [_ Hh]. rewrite forallb_forall in Hh.
  assert (Hhb : forall x, host_byte x = true -> x <> 47 /\ x <> 92 /\ x <> 63 /\ x <> 35 /\ x <> 64).
  { intros x. unfold host_byte, is_alnum, is_alpha, is_lower, is_upper, is_digit, in_range. lia. }
  assert (Hdb : forall x, is_digit x = true -> x <> 47 /\ x <> 92 /\ x <> 63 /\ x <> 35 /\ x <> 64).
  { intros x. unfold is_digit, in_range. lia. }
  destruct port as [p|].
  - subst a. rewrite forallb_forall in Hp. apply in_app_or in Hin as [Hin|[Hin|Hin]].
    + apply Hhb, Hh, Hin.
    + subst c. lia.
    + apply Hdb, Hp, Hin.
  - subst a. apply Hhb, Hh, Hin.
Qed.

(* ---------------------------------------------------------------- the scheme *)
Definition scheme_ok (c : N) : bool := is_alnum c || N.eqb c 43 || N.eqb c 45 || N.eqb c 46.

Lemma get_scheme_aux_ok orig : forall s first acc a b,
  Forall (fun c => scheme_ok c = true) acc ->
  get_scheme_aux first acc s orig = Some (a, b) -> Forall (fun c => scheme_ok c = true) a.
Proof.
  induction s as [|c s IH]; intros first acc a b Ha; cbn [get_scheme_aux].
  - intros H. inversion H. constructor.
  - destruct (is_alpha c) eqn:E1.
    { apply IH. constructor; [|exact Ha]. unfold scheme_ok, is_alnum. rewrite E1. reflexivity. }
    destruct (is_digit c || N.eqb c 43 || N.eqb c 45 || N.eqb c 46) eqn:E2.
    { destruct first; [intros H; inversion H; constructor|]. apply IH. constructor; [|exact Ha].
      unfold scheme_ok, is_alnum. rewrite E1. cbn [orb]. exact E2. }
    destruct (N.eqb c 58); [|intros H; inversion H; constructor].
    destruct first; [discriminate|]. intros H. inversion H. subst. apply Forall_rev. exact Ha.
Qed.

Lemma get_scheme_aux_none orig : forall s first acc b,
  (first = true \/ acc <> []) -> get_scheme_aux first acc s orig = Some ([], b) -> b = orig.
Proof.
  induction s as [|c s IH]; intros first acc b Hf; cbn [get_scheme_aux].
  - intros H. inversion H. reflexivity.
  - destruct (is_alpha c); [apply IH; right; discriminate|].
    destruct (is_digit c || N.eqb c 43 || N.eqb c 45 || N.eqb c 46).
    { destruct first; [intros H; inversion H; reflexivity | apply IH; right; discriminate]. }
    destruct (N.eqb c 58); [|intros H; inversion H; reflexivity].
    destruct first; [discriminate|]. intros H. inversion H as [[Hr Hb]]. exfalso.
    destruct Hf as [Hf|Hf]; [discriminate|]. apply Hf. destruct acc; [reflexivity|].
    cbn [rev] in Hr. destruct (rev acc); discriminate.
Qed.

Lemma lower_scheme_ok c : scheme_ok c = true ->
  scheme_ok (lower_byte c) = true /\ lower_byte c <> 58 /\ is_ctl (lower_byte c) = false /\ lower_byte c < 128.
Proof.
  unfold scheme_ok, lower_byte, is_alnum, is_alpha, is_lower, is_upper, is_digit, in_range, is_ctl.
  destruct ((65 <=? c) && (c <=? 90)) eqn:E; lia.
Qed.

(* common skeleton: whatever parse returns as a URL has a scheme made of scheme bytes, and no
   scheme only for origin-form targets *)
Lemma parse_scheme t u :
  parse_request_uri t = PUrl u ->
  Forall (fun c => scheme_ok c = true /\ c <> 58 /\ is_ctl c = false /\ c < 128) (u_scheme u) /\
  (u_scheme u = [] -> has_prefix t [47] = true).
Proof.
  unfold parse_request_uri. destruct (existsb is_ctl t); [discriminate|].
  destruct (nilb t); [discriminate|]. destruct (str_eqb t [42]); [discriminate|].
  destruct (get_scheme t) as [[sch0 rest0]|] eqn:Eg; [|discriminate].
  assert (Hok : Forall (fun c => scheme_ok c = true) sch0) by (eapply get_scheme_aux_ok; [constructor | exact Eg]).
  assert (Hlow : Forall (fun c => scheme_ok c = true /\ c <> 58 /\ is_ctl c = false /\ c < 128) (lower_ascii sch0)).
  { clear Eg. unfold lower_ascii. induction Hok as [|c l Hc _ IH]; cbn [map]; [constructor | constructor; [apply lower_scheme_ok; exact Hc | exact IH]]. }
  assert (Hnone : lower_ascii sch0 = [] -> rest0 = t).
  { intros E. destruct sch0; [|discriminate]. eapply get_scheme_aux_none; [left; reflexivity | exact Eg]. }
  destruct (cut_at 63 rest0) as [a b] eqn:Ecut.
  assert (Hgen : forall rest force rawq, (has_prefix rest [47] = true -> has_prefix rest0 [47] = true) ->
    (if negb (has_prefix rest [47]) then (if nilb (lower_ascii sch0) then PBad else PUnmodelled)
     else if negb (nilb (lower_ascii sch0)) then
       if has_prefix rest [47; 47] then
         let '(authority, rest') := split_authority (skipn 2 rest) in
         if simple_authority authority then
           match set_path rest' with
           | None => PBad
           | Some (p, rp) => PUrl {| u_scheme := lower_ascii sch0; u_host := authority; u_path := p; u_rawpath := rp;
                                     u_force_query := force; u_rawquery := rawq |}
           end
         else PUnmodelled
       else PUnmodelled
     else match set_path rest with
          | None => PBad
          | Some (p, rp) => PUrl {| u_scheme := []; u_host := []; u_path := p; u_rawpath := rp;
                                    u_force_query := force; u_rawquery := rawq |}
          end) = PUrl u ->
    Forall (fun c => scheme_ok c = true /\ c <> 58 /\ is_ctl c = false /\ c < 128) (u_scheme u) /\
    (u_scheme u = [] -> has_prefix t [47] = true)).
  { intros rest force rawq Hpre. destruct (has_prefix rest [47]) eqn:Hp; cbn [negb]; [|destruct (nilb (lower_ascii sch0)); discriminate].
    destruct (nilb (lower_ascii sch0)) eqn:En; cbn [negb].
    - destruct (set_path rest) as [[p rp]|]; [|discriminate]. intros H. inversion H. cbn [u_scheme].
      split; [constructor|]. intros _. apply nilb_true in En. rewrite <- (Hnone En). apply Hpre. reflexivity.
    - destruct (has_prefix rest [47; 47]); [|discriminate].
      destruct (split_authority (skipn 2 rest)) as [authority rest'].
      destruct (simple_authority authority); [|discriminate].
      destruct (set_path rest') as [[p rp]|]; [|discriminate].
      intros H. inversion H. cbn [u_scheme]. split; [exact Hlow|]. intros E. apply nilb_false in En. contradiction. }
  destruct (last_is 63 rest0 && N.eqb (count_byte 63 rest0) 1).
  - apply Hgen. intros H. destruct rest0 as [|x [|y l]]; [discriminate | discriminate |].
    cbn [removelast] in H. cbn [has_prefix] in *. exact H.
  - apply Hgen. intros H. destruct rest0 as [|x l]; [cbn in Ecut; inversion Ecut; subst; discriminate|].
    cbn [cut_at] in Ecut. destruct (N.eqb x 63); [inversion Ecut; subst; discriminate|].
    destruct (cut_at 63 l) as [a' b']. inversion Ecut; subst. cbn [has_prefix] in *. exact H.
Qed.

Lemma simple_authority_ascii a : simple_authority a = true -> ascii a.
Proof.
  unfold simple_authority, ascii. destruct (cut_at 58 a) as [h port] eqn:E. intros H.
  destruct (cut_at_spec _ _ _ _ E) as [_ Hs].
  apply andb_true_iff in H as [H Hp]. apply andb_true_iff in H as [_ Hh]. rewrite forallb_forall in Hh.
  assert (Hhb : forall x, host_byte x = true -> x < 128).
  { intros x. unfold host_byte, is_alnum, is_alpha, is_lower, is_upper, is_digit, in_range. lia. }
  assert (Hdb : forall x, is_digit x = true -> x < 128).
  { intros x. unfold is_digit, in_range. lia. }
  apply Forall_forall. intros x Hx. destruct port as [p|].
  - subst a. rewrite forallb_forall in Hp. apply in_app_or in Hx as [Hx|[Hx|Hx]].
    + apply Hhb, Hh, Hx.
    + subst x. lia.
    + apply Hdb, Hp, Hx.
  - subst a. apply Hhb, Hh, Hx.
Qed.

(* an absolute-form target that reaches Proxy is routed under the host it names, that host is a
   configured upstream host, and the recorded URI is  scheme://that-host  followed by a same-site
   relative part *)
Lemma route_same_site_absolute hosts hh t u h rec :
  parse_request_uri t = PUrl u -> u_scheme u <> [] -> route hosts hh t = RProxy h rec ->
  h = u_host u /\ mem_str h hosts = true /\ simple_authority h = true /\
  exists tail, rec = u_scheme u ++ [58; 47; 47] ++ h ++ tail /\ same_site_rel tail = true.
Proof.
  intros Epar Hsch Hr. destruct (parse_absolute _ _ Epar Hsch) as [Hctl [Hsimple [rest [Hshape [Hsp [Hir Hiq]]]]]].
  destruct (parse_scheme _ _ Epar) as [Hschok _].
  pose proof (simple_authority_nonempty _ Hsimple) as Hhne.
  unfold route in Hr. destruct (memb 32 t); [discriminate|].
  rewrite Epar in Hr. destruct (str_eqb (u_path u) PING); [discriminate|].
  assert (nilb (u_host u) = false) as Hn by (apply nilb_false; exact Hhne). rewrite Hn in Hr.
  destruct (mem_str (u_host u) hosts) eqn:Em; cbn [negb] in Hr; [|discriminate].
  destruct (str_eqb (clean_path (escaped_path u)) (escaped_path u)) eqn:Ecl; cbn [negb] in Hr; [|discriminate].
  apply str_eqb_eq in Ecl.
  destruct (mem_str (escaped_path u) fixed_routes); [discriminate|]. inversion Hr; subst h rec. clear Hr.
  split; [reflexivity|]. split; [exact Em|]. split; [exact Hsimple|].
  destruct Hshape as [->|Hpr].
  { (* empty path: cleanPath("") = "/" differs, so this is a 301, not Proxy *)
    exfalso. cbn in Hsp. inversion Hsp as [[Hp Hrp]]. unfold escaped_path in Ecl. rewrite <- Hp, <- Hrp in Ecl.
    cbn in Ecl. discriminate. }
  pose proof (escaped_path_props u rest Hpr Hsp (no_ctl_incl _ _ Hir Hctl)) as P. cbv zeta in P.
  destruct P as [[ep Hep] [Hbs [_ [Hc [_ [_ Hasc]]]]]].
  exists ((47 :: ep) ++ utf8_coerce (query_part (u_force_query u) (u_rawquery u))).
  split.
  - assert (Hus : url_string u = (u_scheme u ++ [58; 47; 47] ++ u_host u ++ 47 :: ep) ++
                                 query_part (u_force_query u) (u_rawquery u)).
    { unfold url_string, query_part. rewrite Hep. assert (nilb (u_scheme u) = false) as -> by (apply nilb_false; exact Hsch).
      rewrite Hn. cbn [negb orb andb has_prefix nilb]. change (N.eqb 47 47) with true. cbn [andb negb app].
      assert (nilb ((u_scheme u ++ [58]) ++ 47 :: 47 :: u_host u) = false) as Hnb.
      { apply nilb_false. destruct (u_scheme u); discriminate. }
      rewrite app_nil_r, Hnb. cbn [andb app]. repeat (rewrite <- app_assoc; cbn [app]). reflexivity. }
    rewrite Hus. rewrite coerce_ascii_app.
    + rewrite <- !app_assoc. reflexivity.
    + unfold ascii. apply Forall_app. split.
      * apply Forall_forall. intros x Hx. rewrite Forall_forall in Hschok. apply Hschok in Hx. tauto.
      * apply Forall_app. split; [repeat constructor; lia|]. apply Forall_app. split.
        -- apply simple_authority_ascii. exact Hsimple.
        -- rewrite <- Hep. exact Hasc.
  - rewrite Hep in Hbs, Hc.
    assert (Hhead : ep = [] \/ exists c r, ep = c :: r /\ c <> 47 /\ c <> 92).
    { destruct (clean_path_head (47 :: ep)) as [H|[c [r [H Hc47]]]]; rewrite <- Hep, Ecl, Hep in H.
      - left. inversion H. reflexivity.
      - right. inversion H. exists c, r. split; [reflexivity|]. split; [exact Hc47|].
        intros ->. apply Hbs. rewrite H. right; left; reflexivity. }
    pose proof (coerce_no_ctl _ (no_ctl_incl _ _ Hiq Hctl)) as Hqc.
    destruct (coerce_query_part (u_force_query u) (u_rawquery u)) as [->|[-> _]].
    + unfold query_part. apply same_site_rel_intro; assumption.
    + change (utf8_coerce []) with (if false then 63 :: @nil N else []). apply same_site_rel_intro; auto.
Qed.

(* ---------------------------------------------------------------- non-vacuity *)
(* targets that reach Proxy (hypotheses of C06_same_site / _absolute are satisfiable), are
   redirected by path cleaning, or are refused.  Host "a" configured. *)
Example route_examples :
  (* /a/b?x=1 *)      route [[97]] [97] [47;97;47;98;63;120;61;49] = RProxy [97] [47;97;47;98;63;120;61;49] /\
  (* /\evil *)        route [[97]] [97] [47;92;101;118;105;108] = RProxy [97] [47;37;53;67;101;118;105;108] /\
  (* /%2f%2fevil *)   route [[97]] [97] [47;37;50;102;37;50;102;101] = RProxy [97] [47;37;50;102;37;50;102;101] /\
  (* //evil *)        route [[97]] [97] [47;47;101;118;105;108] = RCleanRedirect [47;101;118;105;108] /\
  (* /a/../b *)       route [[97]] [97] [47;97;47;46;46;47;98] = RCleanRedirect [47;98] /\
  (* /?<80> *)        route [[97]] [97] [47;63;128] = RProxy [97] [47;63;239;191;189] /\
  (* /%zz *)          route [[97]] [97] [47;37;122;122] = RBadRequest /\
  (* h://a/x?y *)     route [[97]] [98] [104;58;47;47;97;47;120;63;121] = RProxy [97] [104;58;47;47;97;47;120;63;121] /\
  (* h://b/x *)       route [[97]] [97] [104;58;47;47;98;47;120] = RMisdirected /\
  (* h://u@a/x *)     route [[97]] [97] [104;58;47;47;117;64;97;47;120] = RUnmodelled.
Proof. repeat split; vm_compute; reflexivity. Qed.

(* ---------------------------------------------------------------- the 301 of path cleaning (origin-form) *)
(* gorilla's redirect target is same-site too: "/" first, then neither "/" nor "\", no CTL *)
Lemma clean_redirect_same_site hosts hh t loc :
  has_prefix t [47] = true -> route hosts hh t = RCleanRedirect loc -> same_site_rel loc = true.
Proof.
  intros Hp Hr. unfold route in Hr. destruct (memb 32 t); [discriminate|].
  destruct (parse_request_uri t) as [| |u] eqn:Epar; try discriminate.
  destruct (parse_origin _ _ Hp Epar) as [Hctl [Hs [Hh [rest [Hpr [Hsp [Hir [Hiq _]]]]]]]].
  destruct (str_eqb (u_path u) PING); [discriminate|]. rewrite Hh in Hr. cbn [nilb] in Hr.
  destruct (mem_str hh hosts); cbn [negb] in Hr; [|discriminate].
  destruct (str_eqb (clean_path (escaped_path u)) (escaped_path u)); cbn [negb] in Hr;
    [destruct (mem_str (escaped_path u) fixed_routes); discriminate|].
  inversion Hr; subst loc. clear Hr.
  set (cp := clean_path (escaped_path u)).
  (* the escaped path of the URL whose Path was overwritten with the cleaned path *)
  assert (Hep : exists ep, escaped_path (with_path u cp) = 47 :: ep /\
                           (ep = [] \/ exists c r, ep = c :: r /\ c <> 47 /\ c <> 92) /\
                           existsb is_ctl (47 :: ep) = false).
  { unfold escaped_path. cbn [with_path u_rawpath u_path].
    destruct (negb (nilb (u_rawpath u)) && valid_encoded (u_rawpath u) &&
              match unescape (u_rawpath u) with Some p => str_eqb p cp | None => false end) eqn:E.
    - (* RawPath is kept: it decodes to the cleaned path *)
      apply andb_true_iff in E as [E Eun]. apply andb_true_iff in E as [En Ev].
      unfold set_path in Hsp. destruct (unescape rest) as [p|] eqn:Eu; [|discriminate]. injection Hsp as Hpath Hraw.
      assert (Hr : u_rawpath u = rest).
      { rewrite <- Hraw in En |- *. destruct (str_eqb rest _); [discriminate | reflexivity]. }
      rewrite Hr in *. rewrite Eu in Eun. apply str_eqb_eq in Eun. subst p.
      apply has_prefix_slash in Hpr as [r ->]. exists r. split; [reflexivity|].
      apply valid_encoded_props in Ev as [Hbs [_ Hc]]. split; [|exact Hc].
      destruct r as [|c r']; [left; reflexivity|]. right. exists c, r'. split; [reflexivity|]. split.
      + intros ->. rewrite !unescape_cons in Eu. change (N.eqb 47 37) with false in Eu. cbv iota in Eu.
        destruct (unescape r') as [t'|]; [|discriminate]. inversion Eu as [Hcp]. rewrite Eun in Hcp.
        destruct (clean_path_head (escaped_path u)) as [H|[c [r0 [H Hc47]]]]; fold cp in H; rewrite H in Hcp.
        * discriminate.
        * inversion Hcp. congruence.
      + intros ->. apply Hbs. right; left; reflexivity.
    - destruct (clean_path_head (escaped_path u)) as [H|[c [r0 [H Hc47]]]]; fold cp in H; rewrite H.
      + exists []. split; [reflexivity|]. split; [left; reflexivity | reflexivity].
      + assert (str_eqb (47 :: c :: r0) [42] = false) as -> by reflexivity.
        rewrite escape_cons_slash. destruct (escape_head_not_slash c r0 Hc47) as [d [r1 [Hd Hd47]]].
        exists (escape (c :: r0)). split; [reflexivity|]. split.
        * right. rewrite Hd. exists d, r1. split; [reflexivity|]. split; [exact Hd47|].
          intros ->. apply (escape_no_backslash (c :: r0)). rewrite Hd. left; reflexivity.
        * rewrite <- escape_cons_slash. apply escape_no_ctl. }
  destruct Hep as [ep [Hep [Hhead Hc]]].
  assert (Hus : url_string (with_path u cp) = (47 :: ep) ++ query_part (u_force_query u) (u_rawquery u)).
  { apply (url_string_origin (with_path u cp) ep); [exact Hs | exact Hh | exact Hep]. }
  rewrite Hus. unfold query_part. apply same_site_rel_intro; [exact Hhead | exact Hc | exact (no_ctl_incl _ _ Hiq Hctl)].
Qed.
