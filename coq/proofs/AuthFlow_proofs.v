(* AuthFlow_proofs.v — lemmas about the authenticator flows (C09). *)
From V Require Import Base Base_proofs Validators Validators_proofs AuthFlow.
From Coq Require Import ZifyN ZifyNat ZifyBool.
Local Open Scope Z_scope.

(* ---------- small facts ---------- *)
Lemma is_nil_true {A} (l : list A) : is_nil l = true <-> l = [].
Proof. destruct l; simpl; split; congruence. Qed.
Lemma is_nil_false {A} (l : list A) : is_nil l = false <-> l <> [].
Proof. destruct l; simpl; split; congruence. Qed.

(* sub-second instants: deadlines are whole seconds (ExtendDeadline truncates; RefreshSessionIfNeeded
   truncates), requests happen at arbitrary instants. In milliseconds: for a whole-second deadline
   t and an instant strictly inside the second k (k*1000 + ms, 0 < ms < 1000), "t is before the
   instant" is exactly "t < k + 1", i.e. t <= k: the model evaluated at now = k + 1 decides every
   deadline comparison of such a request. *)
Lemma subsecond_instant t k ms :
  0 < ms < 1000 -> (t * 1000 <? k * 1000 + ms) = is_expired (k + 1) t.
Proof.
  intros H. unfold is_expired. destruct (Z.ltb_spec t (k + 1)); [apply Z.ltb_lt | apply Z.ltb_ge]; lia.
Qed.

Lemma load_session_inr c s : load_session c = inr s <-> c = CkSealed KCookie s.
Proof.
  destruct c as [| |k s']; simpl; try (split; discriminate).
  destruct k; simpl; split; intros H; try discriminate; congruence.
Qed.

Lemma open_sealed_some k c s : open_sealed k c = Some s <-> c = CkSealed k s.
Proof.
  destruct c as [| |k' s']; simpl; try (split; discriminate).
  destruct k, k'; simpl; split; intros H; try discriminate; congruence.
Qed.

Lemma idp_status_error_none p st jerr : idp_status_error p st jerr = None <-> st = 200%N.
Proof.
  unfold idp_status_error. destruct (N.eqb_spec st 200) as [->|Hne]; [tauto|].
  split; [|contradiction].
  destruct (N.eqb st 400); [destruct jerr as [d|]; [destruct (revoked_text p d)|]; discriminate|].
  destruct (N.eqb st 429); discriminate.
Qed.

Lemma refresh_access_token_ok p rr tok dur :
  refresh_access_token p rr = inr (tok, dur) <-> exists jerr, rr = RStatus 200 jerr (Some (tok, dur)).
Proof.
  split.
  - destruct rr as [|st jerr jtok]; simpl; [discriminate|].
    destruct (idp_status_error p st jerr) eqn:E; [discriminate|].
    apply idp_status_error_none in E. subst st.
    destruct jtok as [[t d]|]; [|discriminate]. intros H; inversion H; subst. eauto.
  - intros [jerr ->]. reflexivity.
Qed.

Lemma idp_validates_true p vr :
  idp_validates p vr = true <->
  exists j a, vr = VStatus 200 j a /\ (p <> Google -> j = true) /\ (p = Okta -> a = true).
Proof.
  split.
  - destruct vr as [|st j a]; simpl; [discriminate|]. rewrite andb_true_iff, N.eqb_eq.
    intros [-> H]. exists j, a. split; [reflexivity|].
    destruct p; [split; [congruence | discriminate] | apply andb_true_iff in H; destruct H; split; auto
                | split; [auto | discriminate]].
  - intros [j [a [-> [H1 H2]]]]. simpl. destruct p; [reflexivity | |].
    + rewrite H1 by discriminate. rewrite (H2 eq_refl). reflexivity.
    + apply H1. discriminate.
Qed.

(* ---------- SplitN(_, ":", 2) ---------- *)
Lemma split_first_colon_spec s a b :
  split_first_colon s = Some (a, b) <-> s = a ++ colon :: b /\ ~ In colon a.
Proof.
  revert a b; induction s as [|c s IH]; intros a b; simpl.
  - split; [discriminate|]. intros [H _]. destruct a; discriminate.
  - destruct (N.eqb_spec c colon) as [->|Hne].
    + split.
      * intros H; inversion H; subst. split; [reflexivity | intros []].
      * intros [H Hn]. destruct a as [|x a]; [inversion H; reflexivity|].
        inversion H; subst. exfalso. apply Hn. left; reflexivity.
    + destruct (split_first_colon s) as [[a' b']|] eqn:E.
      * split.
        -- intros H; inversion H; subst. destruct (proj1 (IH a' b) eq_refl) as [-> Hn].
           split; [reflexivity|]. intros [H1|H1]; [congruence | contradiction].
        -- intros [H Hn]. destruct a as [|x a]; [inversion H; congruence|].
           inversion H; subst. assert (Hs : Some (a', b') = Some (a, b)).
           { apply IH. split; [reflexivity|]. intros Hi. apply Hn. right; exact Hi. }
           inversion Hs; reflexivity.
      * split; [discriminate|]. intros [H Hn]. destruct a as [|x a]; [inversion H; congruence|].
        inversion H; subst. assert (Hs : None = Some (a, b)).
        { apply IH. split; [reflexivity|]. intros Hi. apply Hn. right; exact Hi. }
        discriminate.
Qed.

Section P.
Variable lower : str -> str.

(* ---------- the e-mail rule: one validator, chosen as mux.go does ---------- *)
Lemma rule_passes_eq cfg email :
  rule_passes lower cfg email =
  match c_addresses cfg with
  | [] => domain_validate lower (new_domain_validator lower (c_domains cfg)) email
  | a => address_validate lower (new_address_validator lower a) email
  end.
Proof.
  unfold rule_passes, auth_validators. destruct (c_addresses cfg) as [|x a]; cbn [filter run_validator length].
  - destruct (domain_validate lower (new_domain_validator lower (c_domains cfg)) email); reflexivity.
  - destruct (address_validate lower (new_address_validator lower (x :: a)) email); reflexivity.
Qed.

Lemma rule_rejects_empty_email cfg : rule_passes lower cfg [] = false.
Proof.
  rewrite rule_passes_eq. destruct (c_addresses cfg); [apply empty_email_domain | apply empty_email_address].
Qed.

(* ---------- authenticate ---------- *)
Definition refreshed_ok (now : Z) (s0 : session) (rr : refresh_reply) (s : session) (calls : list idp_call) : Prop :=
  s_refresh s0 < now /\ s_rtok s0 <> [] /\
  exists jerr tok dur, rr = RStatus 200 jerr (Some (tok, dur)) /\
    s = mkS (s_email s0) tok (s_rtok s0) (now + dur) (s_lifetime s0) /\
    calls = [CallRefresh (s_rtok s0)].

Definition validated_ok (p : pkind) (now : Z) (s0 : session) (vr : validate_reply) (s : session)
    (calls : list idp_call) : Prop :=
  now <= s_refresh s0 /\ s = s0 /\ s_access s0 <> [] /\
  (exists j a, vr = VStatus 200 j a /\ (p <> Google -> j = true) /\ (p = Okta -> a = true)) /\
  calls = [CallValidate (s_access s0)].

Lemma auth_authenticate_ok cfg p now c rr vr s :
  ao_res (auth_authenticate lower cfg p now c rr vr) = inr s ->
  exists s0, c = CkSealed KCookie s0 /\ now <= s_lifetime s0 /\
    rule_passes lower cfg (s_email s0) = true /\ s_email s = s_email s0 /\
    s_lifetime s = s_lifetime s0 /\ s_rtok s = s_rtok s0 /\
    ao_ops (auth_authenticate lower cfg p now c rr vr) = [OpSet s] /\
    (refreshed_ok now s0 rr s (ao_calls (auth_authenticate lower cfg p now c rr vr)) \/
     validated_ok p now s0 vr s (ao_calls (auth_authenticate lower cfg p now c rr vr))).
Proof.
  unfold auth_authenticate.
  destruct (load_session c) as [e|s0] eqn:L; [discriminate|].
  apply load_session_inr in L. subst c.
  destruct (lifetime_expired now s0) eqn:LE; [discriminate|].
  unfold lifetime_expired, is_expired in LE. apply Z.ltb_ge in LE.
  destruct (refresh_expired now s0) eqn:RE.
  - unfold refresh_session_if_needed. rewrite RE. cbn [negb orb].
    destruct (is_nil (s_rtok s0)) eqn:RT; [discriminate|]. apply is_nil_false in RT.
    destruct (refresh_access_token p rr) as [e|[tok dur]] eqn:RA; [discriminate|].
    apply refresh_access_token_ok in RA. destruct RA as [jerr ->].
    cbn [s_email]. destruct (rule_passes lower cfg (s_email s0)) eqn:RP; cbn [ao_res ao_ops ao_calls]; [|discriminate].
    intros H; inversion H; subst s. exists s0. cbn [s_email s_lifetime s_rtok].
    repeat split; try reflexivity; try assumption.
    left. unfold refreshed_ok. unfold refresh_expired, is_expired in RE. apply Z.ltb_lt in RE.
    repeat split; try assumption. exists jerr, tok, dur. repeat split; reflexivity.
  - unfold validate_session_state.
    destruct (is_nil (s_access s0)) eqn:AT; [discriminate|]. apply is_nil_false in AT.
    destruct (idp_validates p vr) eqn:IV; [|discriminate].
    destruct (rule_passes lower cfg (s_email s0)) eqn:RP; cbn [ao_res ao_ops ao_calls]; [|discriminate].
    intros H; inversion H; subst s. exists s0.
    repeat split; try reflexivity; try assumption.
    right. unfold validated_ok. unfold refresh_expired, is_expired in RE. apply Z.ltb_ge in RE.
    apply idp_validates_true in IV. repeat split; try assumption; reflexivity.
Qed.

(* every session cookie that authenticate sets is the loaded one with, at most, a new access
   token and refresh deadline: same owner, same refresh token, SAME lifetime *)
Lemma auth_authenticate_sets cfg p now c rr vr s' :
  In (OpSet s') (ao_ops (auth_authenticate lower cfg p now c rr vr)) ->
  exists s0, c = CkSealed KCookie s0 /\ now <= s_lifetime s0 /\
    s_email s' = s_email s0 /\ s_rtok s' = s_rtok s0 /\ s_lifetime s' = s_lifetime s0 /\
    (now <= s_refresh s0 -> s' = s0).
Proof.
  unfold auth_authenticate.
  destruct (load_session c) as [e|s0] eqn:L; [intros [H|[]]; discriminate|].
  apply load_session_inr in L. subst c.
  destruct (lifetime_expired now s0) eqn:LE; [intros [H|[]]; discriminate|].
  unfold lifetime_expired, is_expired in LE. apply Z.ltb_ge in LE.
  destruct (refresh_expired now s0) eqn:RE.
  - unfold refresh_expired, is_expired in RE. apply Z.ltb_lt in RE.
    destruct (refresh_session_if_needed p now s0 rr) as [calls [e| |s1]] eqn:RS;
      try (intros [H|[]]; discriminate).
    unfold refresh_session_if_needed in RS.
    destruct (negb (refresh_expired now s0) || is_nil (s_rtok s0)); [discriminate|].
    destruct (refresh_access_token p rr) as [e|[tok dur]]; [discriminate|].
    inversion RS; subst. cbn [s_email].
    destruct (rule_passes lower cfg (s_email s0)); intros [H|[]]; inversion H; subst s';
      exists s0; cbn [s_email s_lifetime s_rtok]; repeat split; try reflexivity; try assumption; lia.
  - destruct (validate_session_state p s0 vr) as [calls [|]];
      [|intros [H|[]]; discriminate].
    destruct (rule_passes lower cfg (s_email s0)); intros [H|[]]; inversion H; subst s';
      exists s0; repeat split; try reflexivity; try assumption.
Qed.

(* ---------- /sign_in ---------- *)
Lemma sign_in_code cfg p now rq c rr vr s :
  r_code (sign_in lower cfg p now rq c rr vr) = Some s ->
  ao_res (auth_authenticate lower cfg p now c rr vr) = inr s /\ si_state rq <> [] /\
  r_status (sign_in lower cfg p now rq c rr vr) = 302%N /\
  r_body (sign_in lower cfg p now rq c rr vr) = BodyRedirect /\
  r_ops (sign_in lower cfg p now rq c rr vr) = ao_ops (auth_authenticate lower cfg p now c rr vr) /\
  r_calls (sign_in lower cfg p now rq c rr vr) = ao_calls (auth_authenticate lower cfg p now c rr vr).
Proof.
  unfold sign_in. destruct (ao_res (auth_authenticate lower cfg p now c rr vr)) as [e|s1] eqn:A.
  - destruct e; cbn; discriminate.
  - unfold proxy_oauth_redirect. destruct (is_nil (si_state rq)) eqn:S; cbn; [discriminate|].
    intros H; inversion H; subst. apply is_nil_false in S. repeat split; try reflexivity; assumption.
Qed.

Lemma sign_in_route_code cfg p now rq c rr vr s :
  r_code (sign_in_route lower cfg p now rq c rr vr) = Some s ->
  si_get rq = true /\ si_client_ok rq = true /\ si_redirect_ok rq = true /\ si_sig_ok rq = true /\
  sign_in_route lower cfg p now rq c rr vr = sign_in lower cfg p now rq c rr vr.
Proof.
  unfold sign_in_route.
  destruct (si_get rq); cbn [negb]; [|discriminate].
  destruct (si_client_ok rq); cbn [negb]; [|discriminate].
  destruct (si_redirect_ok rq); cbn [negb]; [|discriminate].
  destruct (si_sig_ok rq); cbn [negb]; [|discriminate].
  intros _. repeat split; reflexivity.
Qed.

(* C09_code_sound *)
Lemma code_sound cfg p now rq c rr vr s :
  r_code (sign_in_route lower cfg p now rq c rr vr) = Some s ->
  (si_get rq = true /\ si_client_ok rq = true /\ si_redirect_ok rq = true /\ si_sig_ok rq = true /\
   si_state rq <> []) /\
  exists s0, c = CkSealed KCookie s0 /\ now <= s_lifetime s0 /\
    rule_passes lower cfg (s_email s0) = true /\
    s_email s = s_email s0 /\ s_lifetime s = s_lifetime s0 /\ s_rtok s = s_rtok s0 /\
    r_ops (sign_in_route lower cfg p now rq c rr vr) = [OpSet s] /\
    (refreshed_ok now s0 rr s (r_calls (sign_in_route lower cfg p now rq c rr vr)) \/
     validated_ok p now s0 vr s (r_calls (sign_in_route lower cfg p now rq c rr vr))).
Proof.
  intros H. destruct (sign_in_route_code _ _ _ _ _ _ _ _ H) as [G1 [G2 [G3 [G4 E]]]].
  rewrite E in *. destruct (sign_in_code _ _ _ _ _ _ _ _ H) as [A [S [_ [_ [Ops Calls]]]]].
  split; [repeat split; assumption|].
  destruct (auth_authenticate_ok _ _ _ _ _ _ _ A) as [s0 [-> [L [R [Em [Li [Rt [O D]]]]]]]].
  exists s0. rewrite Ops, Calls. repeat split; assumption.
Qed.

(* the decision, as a closed boolean formula over the inputs *)
Definition refresh_ok (p : pkind) (rr : refresh_reply) : bool :=
  match refresh_access_token p rr with inr _ => true | inl _ => false end.

Definition code_due (cfg : config) (p : pkind) (now : Z) (rq : si_request) (c : cookie)
    (rr : refresh_reply) (vr : validate_reply) : bool :=
  si_get rq && si_client_ok rq && si_redirect_ok rq && si_sig_ok rq && negb (is_nil (si_state rq)) &&
  match open_sealed KCookie c with
  | Some s0 =>
      (now <=? s_lifetime s0) &&
      (if s_refresh s0 <? now then negb (is_nil (s_rtok s0)) && refresh_ok p rr
       else negb (is_nil (s_access s0)) && idp_validates p vr) &&
      rule_passes lower cfg (s_email s0)
  | None => false
  end.

Definition is_some {A} (o : option A) : bool := match o with Some _ => true | None => false end.

Lemma auth_authenticate_decision cfg p now c rr vr :
  (match ao_res (auth_authenticate lower cfg p now c rr vr) with inr _ => true | inl _ => false end) =
  match open_sealed KCookie c with
  | Some s0 =>
      (now <=? s_lifetime s0) &&
      (if s_refresh s0 <? now then negb (is_nil (s_rtok s0)) && refresh_ok p rr
       else negb (is_nil (s_access s0)) && idp_validates p vr) &&
      rule_passes lower cfg (s_email s0)
  | None => false
  end.
Proof.
  unfold auth_authenticate, load_session.
  destruct c as [| |k s0]; cbn [open_sealed]; try reflexivity.
  destruct k; cbn [key_eqb]; try reflexivity.
  unfold lifetime_expired, refresh_expired, is_expired.
  destruct (Z.ltb_spec (s_lifetime s0) now) as [L|L].
  - assert (E : (now <=? s_lifetime s0) = false) by (apply Z.leb_gt; lia). rewrite E. reflexivity.
  - assert (E : (now <=? s_lifetime s0) = true) by (apply Z.leb_le; lia). rewrite E. cbn [andb].
    destruct (s_refresh s0 <? now) eqn:RE.
    + unfold refresh_session_if_needed, refresh_expired, is_expired. rewrite RE. cbn [negb orb].
      destruct (is_nil (s_rtok s0)); cbn [negb andb]; [reflexivity|].
      unfold refresh_ok. destruct (refresh_access_token p rr) as [e|[tok dur]]; cbn; [reflexivity|].
      destruct (rule_passes lower cfg (s_email s0)); reflexivity.
    + unfold validate_session_state. destruct (is_nil (s_access s0)); cbn [negb andb]; [reflexivity|].
      destruct (idp_validates p vr); cbn [andb]; [|reflexivity].
      destruct (rule_passes lower cfg (s_email s0)); reflexivity.
Qed.

Lemma sign_in_code_iff_auth cfg p now rq c rr vr :
  is_some (r_code (sign_in lower cfg p now rq c rr vr)) =
  (match ao_res (auth_authenticate lower cfg p now c rr vr) with inr _ => true | inl _ => false end) &&
  negb (is_nil (si_state rq)).
Proof.
  unfold sign_in. destruct (ao_res (auth_authenticate lower cfg p now c rr vr)) as [e|s1].
  - destruct e; reflexivity.
  - unfold proxy_oauth_redirect. destruct (is_nil (si_state rq)); reflexivity.
Qed.

(* C09_no_code_otherwise, part 1: a code is issued exactly when the conditions hold *)
Lemma code_iff cfg p now rq c rr vr :
  is_some (r_code (sign_in_route lower cfg p now rq c rr vr)) = code_due cfg p now rq c rr vr.
Proof.
  unfold sign_in_route, code_due.
  destruct (si_get rq); cbn [negb andb]; [|reflexivity].
  destruct (si_client_ok rq); cbn [negb andb]; [|reflexivity].
  destruct (si_redirect_ok rq); cbn [negb andb]; [|reflexivity].
  destruct (si_sig_ok rq); cbn [negb andb]; [|reflexivity].
  rewrite sign_in_code_iff_auth, auth_authenticate_decision. apply andb_comm.
Qed.

(* part 2: what every response looks like *)
Lemma response_shape cfg p now rq c rr vr :
  let r := sign_in_route lower cfg p now rq c rr vr in
  match r_code r with
  | Some _ => r_status r = 302%N /\ r_body r = BodyRedirect
  | None => (r_status r = 200%N /\ r_body r = BodySignInPage) \/
            ((400 <= r_status r)%N /\ r_body r = BodyErrorPage)
  end.
Proof.
  cbv zeta. unfold sign_in_route.
  destruct (si_get rq); cbn [negb]; [|right; split; [cbn; lia | reflexivity]].
  destruct (si_client_ok rq); cbn [negb]; [|right; split; [cbn; lia | reflexivity]].
  destruct (si_redirect_ok rq); cbn [negb]; [|right; split; [cbn; lia | reflexivity]].
  destruct (si_sig_ok rq); cbn [negb]; [|right; split; [cbn; lia | reflexivity]].
  unfold sign_in. destruct (ao_res (auth_authenticate lower cfg p now c rr vr)) as [e|s1].
  - destruct e; cbn; try (left; split; reflexivity); right; split; try reflexivity; lia.
  - unfold proxy_oauth_redirect. destruct (is_nil (si_state rq)); cbn.
    + right; split; [lia | reflexivity].
    + split; reflexivity.
Qed.

(* re-saving never touches the lifetime: every Set-Cookie of every /sign_in response *)
Lemma sign_in_route_sets cfg p now rq c rr vr s' :
  In (OpSet s') (r_ops (sign_in_route lower cfg p now rq c rr vr)) ->
  exists s0, c = CkSealed KCookie s0 /\ now <= s_lifetime s0 /\
    s_email s' = s_email s0 /\ s_rtok s' = s_rtok s0 /\ s_lifetime s' = s_lifetime s0 /\
    (now <= s_refresh s0 -> s' = s0).
Proof.
  unfold sign_in_route.
  destruct (si_get rq); cbn [negb]; [|intros []].
  destruct (si_client_ok rq); cbn [negb]; [|intros []].
  destruct (si_redirect_ok rq); cbn [negb]; [|intros []].
  destruct (si_sig_ok rq); cbn [negb]; [|intros []].
  intros H. apply (auth_authenticate_sets cfg p now c rr vr s').
  unfold sign_in in H. destruct (ao_res (auth_authenticate lower cfg p now c rr vr)) as [e|s1].
  - destruct e; cbn [r_ops error_page] in H; try exact H;
      (apply in_app_or in H as [H|[H|[]]]; [exact H | discriminate]).
  - unfold proxy_oauth_redirect in H. destruct (is_nil (si_state rq)); exact H.
Qed.

(* ---------- concurrency: the coalesced refresh follower ---------- *)
Lemma sign_in_is_dispatch cfg p now rq c rr vr :
  sign_in lower cfg p now rq c rr vr = sign_in_dispatch rq (auth_authenticate lower cfg p now c rr vr).
Proof. reflexivity. Qed.

Lemma follower_inv cfg now c a :
  auth_authenticate_follower lower cfg now c = Some a ->
  exists s0, c = CkSealed KCookie s0 /\ now <= s_lifetime s0 /\ s_refresh s0 < now /\ s_rtok s0 <> [] /\
    ao_ops a = [OpSet s0] /\ ao_calls a = [] /\
    (ao_res a = inr s0 /\ rule_passes lower cfg (s_email s0) = true \/
     ao_res a = inl ENotAuthorized /\ rule_passes lower cfg (s_email s0) = false).
Proof.
  unfold auth_authenticate_follower. destruct (load_session c) as [e|s0] eqn:L; [discriminate|].
  apply load_session_inr in L. subst c.
  destruct (lifetime_expired now s0) eqn:LE; cbn [negb andb]; [discriminate|].
  destruct (refresh_expired now s0) eqn:RE; cbn [andb]; [|discriminate].
  destruct (is_nil (s_rtok s0)) eqn:RT; cbn [negb]; [discriminate|].
  unfold lifetime_expired, refresh_expired, is_expired in *. apply Z.ltb_ge in LE. apply Z.ltb_lt in RE.
  apply is_nil_false in RT. intros H. exists s0.
  destruct (rule_passes lower cfg (s_email s0)) eqn:RP; inversion H; subst a; cbn;
    repeat split; auto.
Qed.

(* a coalesced follower's response carries a code only for the UNTOUCHED authentic session,
   within its lifetime, allowed by the rule, whose (non-empty) refresh token was due *)
Lemma follower_code_sound cfg now rq c r s :
  sign_in_route_follower lower cfg now rq c = Some r -> r_code r = Some s ->
  si_get rq = true /\ si_client_ok rq = true /\ si_redirect_ok rq = true /\ si_sig_ok rq = true /\
  c = CkSealed KCookie s /\ now <= s_lifetime s /\ s_refresh s < now /\ s_rtok s <> [] /\
  rule_passes lower cfg (s_email s) = true /\ r_ops r = [OpSet s] /\ r_calls r = [].
Proof.
  unfold sign_in_route_follower.
  destruct (si_get rq); cbn [andb]; [|discriminate].
  destruct (si_client_ok rq); cbn [andb]; [|discriminate].
  destruct (si_redirect_ok rq); cbn [andb]; [|discriminate].
  destruct (si_sig_ok rq); cbn [andb]; [|discriminate].
  destruct (auth_authenticate_follower lower cfg now c) as [a|] eqn:F; [|discriminate].
  cbn [option_map]. intros H; inversion H; subst r; clear H.
  destruct (follower_inv _ _ _ _ F) as [s0 [-> [L [R [T [Ops [Calls [[Res RP]|[Res RP]]]]]]]]];
    unfold sign_in_dispatch; rewrite Res, Ops, Calls.
  - unfold proxy_oauth_redirect. destruct (is_nil (si_state rq)); cbn; [discriminate|].
    intros H; inversion H; subst s0. repeat split; auto.
  - cbn. discriminate.
Qed.

Lemma follower_sets cfg now rq c r s' :
  sign_in_route_follower lower cfg now rq c = Some r -> In (OpSet s') (r_ops r) ->
  c = CkSealed KCookie s' /\ now <= s_lifetime s' /\ s_refresh s' < now.
Proof.
  unfold sign_in_route_follower.
  destruct (si_get rq && si_client_ok rq && si_redirect_ok rq && si_sig_ok rq); [|discriminate].
  destruct (auth_authenticate_follower lower cfg now c) as [a|] eqn:F; [|discriminate].
  cbn [option_map]. intros H; inversion H; subst r; clear H.
  destruct (follower_inv _ _ _ _ F) as [s0 [-> [L [R [T [Ops [Calls [[Res RP]|[Res RP]]]]]]]]];
    unfold sign_in_dispatch; rewrite Res, Ops, Calls.
  - unfold proxy_oauth_redirect. destruct (is_nil (si_state rq)); cbn;
      intros [H|[]]; inversion H; subst; auto.
  - cbn. intros [H|[]]; inversion H; subst; auto.
Qed.

Lemma follower_shape cfg now rq c r :
  sign_in_route_follower lower cfg now rq c = Some r ->
  match r_code r with
  | Some _ => r_status r = 302%N /\ r_body r = BodyRedirect
  | None => (400 <= r_status r)%N /\ r_body r = BodyErrorPage
  end.
Proof.
  unfold sign_in_route_follower.
  destruct (si_get rq && si_client_ok rq && si_redirect_ok rq && si_sig_ok rq); [|discriminate].
  destruct (auth_authenticate_follower lower cfg now c) as [a|] eqn:F; [|discriminate].
  cbn [option_map]. intros H; inversion H; subst r; clear H.
  destruct (follower_inv _ _ _ _ F) as [s0 [-> [L [R [T [Ops [Calls [[Res RP]|[Res RP]]]]]]]]];
    unfold sign_in_dispatch; rewrite Res.
  - unfold proxy_oauth_redirect. destruct (is_nil (si_state rq)); cbn; split; try reflexivity; lia.
  - cbn. split; [lia | reflexivity].
Qed.

(* ---------- /callback ---------- *)
(* C09_callback_csrf *)
Lemma callback_csrf cfg now rq rd s :
  cr_saved (oauth_callback lower cfg now rq rd) = Some s ->
  exists nonce redirect email access rtok dur,
    cb_get rq = true /\ cb_error rq = [] /\ cb_code rq <> [] /\
    cb_state rq = Some (nonce ++ colon :: redirect) /\ ~ In colon nonce /\
    cb_csrf rq = Some nonce /\
    cb_redirect_ok rq redirect = true /\
    rd = RdTokens email access rtok dur /\ email <> [] /\
    rule_passes lower cfg email = true /\
    s = redeemed_session cfg now email access rtok dur /\
    cr_location (oauth_callback lower cfg now rq rd) = Some redirect /\
    cr_status (oauth_callback lower cfg now rq rd) = 302%N /\
    cr_calls (oauth_callback lower cfg now rq rd) = [CallRedeem (cb_code rq)].
Proof.
  unfold oauth_callback.
  destruct (cb_get rq); cbn [negb]; [|discriminate].
  destruct (is_nil (cb_error rq)) eqn:E; cbn [negb]; [|discriminate]. apply is_nil_true in E.
  destruct (is_nil (cb_code rq)) eqn:C; [discriminate|]. apply is_nil_false in C.
  destruct rd as [|email access rtok dur]; [discriminate|].
  destruct (is_nil email) eqn:Em; [discriminate|]. apply is_nil_false in Em.
  destruct (cb_state rq) as [plain|]; [|discriminate].
  destruct (split_first_colon plain) as [[nonce redirect]|] eqn:Sp; [|discriminate].
  apply split_first_colon_spec in Sp. destruct Sp as [-> Hn].
  destruct (cb_csrf rq) as [cv|]; [|discriminate].
  destruct (str_eqb cv nonce) eqn:Eq; cbn [negb]; [|discriminate]. apply str_eqb_eq in Eq. subst cv.
  destruct (cb_redirect_ok rq redirect) eqn:Ro; cbn [negb]; [|discriminate].
  destruct (rule_passes lower cfg email) eqn:Rp; cbn [negb]; [|discriminate].
  cbn. intros H; inversion H; subst.
  exists nonce, redirect, email, access, rtok, dur. repeat split; try reflexivity; assumption.
Qed.

Lemma callback_saved_lifetime cfg now rq rd s :
  cr_saved (oauth_callback lower cfg now rq rd) = Some s -> s_lifetime s = now + c_lifetime_ttl cfg.
Proof.
  intros H. apply callback_csrf in H. destruct H as [n [r [e [a [t [d H]]]]]].
  decompose [and] H. subst s. reflexivity.
Qed.

(* no session, no redirect *)
Lemma callback_no_session cfg now rq rd :
  cr_saved (oauth_callback lower cfg now rq rd) = None ->
  cr_location (oauth_callback lower cfg now rq rd) = None /\
  (400 <= cr_status (oauth_callback lower cfg now rq rd))%N.
Proof.
  unfold oauth_callback.
  destruct (cb_get rq); cbn [negb]; [|cbn; intros _; split; [reflexivity | lia]].
  destruct (is_nil (cb_error rq)); cbn [negb]; [|cbn; intros _; split; [reflexivity | lia]].
  destruct (is_nil (cb_code rq)); [cbn; intros _; split; [reflexivity | lia]|].
  destruct rd as [|email access rtok dur]; [cbn; intros _; split; [reflexivity | lia]|].
  destruct (is_nil email); [cbn; intros _; split; [reflexivity | lia]|].
  destruct (cb_state rq) as [plain|]; [|cbn; intros _; split; [reflexivity | lia]].
  destruct (split_first_colon plain) as [[nonce redirect]|]; [|cbn; intros _; split; [reflexivity | lia]].
  destruct (cb_csrf rq) as [cv|]; [|cbn; intros _; split; [reflexivity | lia]].
  destruct (str_eqb cv nonce); cbn [negb]; [|cbn; intros _; split; [reflexivity | lia]].
  destruct (cb_redirect_ok rq redirect); cbn [negb]; [|cbn; intros _; split; [reflexivity | lia]].
  destruct (rule_passes lower cfg email); cbn [negb]; [|cbn; intros _; split; [reflexivity | lia]].
  cbn. discriminate.
Qed.

(* ---------- AuthWorld: the lifetime is fixed at the IdP login, for ever ---------- *)
Definition issued_ok (cfg : config) (w : world) (s : session) : Prop :=
  exists t0, In t0 (w_logins w) /\ s_lifetime s = t0 + c_lifetime_ttl cfg.

Definition code_ok (cfg : config) (w : world) (ts : Z * session) : Prop :=
  exists t0, In t0 (w_logins w) /\ t0 <= fst ts /\ fst ts <= t0 + c_lifetime_ttl cfg /\
             s_lifetime (snd ts) = t0 + c_lifetime_ttl cfg.

Definition inv (cfg : config) (w : world) : Prop :=
  Forall (fun t => t <= w_now w) (w_logins w) /\
  Forall (issued_ok cfg w) (w_issued w) /\
  Forall (code_ok cfg w) (w_codes w).

Lemma sets_of_In ops s : In s (sets_of ops) <-> In (OpSet s) ops.
Proof.
  induction ops as [|o ops IH]; simpl; [tauto|]. destruct o as [|s1].
  - rewrite IH. split; [auto | intros [H|H]; [discriminate | exact H]].
  - rewrite in_app_iff, IH. simpl. split.
    + intros [H|[H|[]]]; [right; exact H | left; congruence].
    + intros [H|H]; [right; left; congruence | left; exact H].
Qed.

Lemma present_issued w pc s0 : present w pc = CkSealed KCookie s0 -> In s0 (w_issued w).
Proof.
  destruct pc as [i|k s| |]; simpl; try discriminate.
  - destruct (nth_error (w_issued w) i) as [s|] eqn:E; [|discriminate].
    intros H; inversion H; subst. eapply nth_error_In; eassumption.
  - destruct k; discriminate.
Qed.

Lemma inv_init cfg t0 : inv cfg (world0 t0).
Proof. unfold inv, world0; cbn. repeat split; constructor. Qed.

Lemma inv_step cfg w e : inv cfg w -> inv cfg (step lower cfg w e).
Proof.
  intros [Hl [Hi Hc]]. destruct e as [d|rq rd|p rq pc rr vr]; cbn [step].
  - (* time passes *)
    unfold inv; cbn. repeat split; [|exact Hi | exact Hc].
    eapply Forall_impl; [|exact Hl]. cbn. intros t Ht. lia.
  - (* IdP callback *)
    destruct (cr_saved (oauth_callback lower cfg (w_now w) rq rd)) as [s|] eqn:Sv;
      [|repeat split; assumption].
    apply callback_saved_lifetime in Sv.
    unfold inv; cbn [w_now w_logins w_issued w_codes]. repeat split.
    + constructor; [lia | exact Hl].
    + constructor.
      * exists (w_now w). split; [left; reflexivity | exact Sv].
      * eapply Forall_impl; [|exact Hi]. intros s1 [t0 [Hin Hs]]. exists t0. split; [right; exact Hin | exact Hs].
    + eapply Forall_impl; [|exact Hc]. intros ts [t0 [Hin Hs]]. exists t0. split; [right; exact Hin | exact Hs].
  - (* /sign_in presenting any issued or forged cookie *)
    set (r := sign_in_route lower cfg p (w_now w) rq (present w pc) rr vr).
    unfold inv; cbn [w_now w_logins w_issued w_codes]. repeat split; [exact Hl | |].
    + apply Forall_app. split; [|exact Hi].
      apply Forall_forall. intros s' Hs'. apply sets_of_In in Hs'.
      destruct (sign_in_route_sets _ _ _ _ _ _ _ _ Hs') as [s0 [Hc0 [_ [_ [_ [Hlife _]]]]]].
      apply present_issued in Hc0. rewrite Forall_forall in Hi. destruct (Hi s0 Hc0) as [t0 [Hin Hs0]].
      exists t0. split; [exact Hin | congruence].
    + destruct (r_code r) as [s|] eqn:Rc; [|exact Hc]. constructor; [|exact Hc].
      destruct (code_sound _ _ _ _ _ _ _ _ Rc) as [_ [s0 [Hc0 [Hnow [_ [_ [Hlife _]]]]]]].
      apply present_issued in Hc0. rewrite Forall_forall in Hi. destruct (Hi s0 Hc0) as [t0 [Hin Hs0]].
      exists t0. cbn [fst snd]. rewrite Forall_forall in Hl. specialize (Hl t0 Hin).
      repeat split; [exact Hin | exact Hl | lia | congruence].
Qed.

Lemma inv_run cfg evs w : inv cfg w -> inv cfg (run lower cfg w evs).
Proof.
  revert w; induction evs as [|e evs IH]; intros w H; cbn; [exact H|].
  apply IH. apply inv_step. exact H.
Qed.

(* C09_lifetime_never_extended *)
Lemma lifetime_never_extended cfg evs t_start :
  let w := run lower cfg (world0 t_start) evs in
  (forall s, In s (w_issued w) ->
     exists t0, In t0 (w_logins w) /\ t0 <= w_now w /\ s_lifetime s = t0 + c_lifetime_ttl cfg) /\
  (forall t s, In (t, s) (w_codes w) ->
     exists t0, In t0 (w_logins w) /\ t0 <= t /\ t <= t0 + c_lifetime_ttl cfg /\
                s_lifetime s = t0 + c_lifetime_ttl cfg).
Proof.
  cbv zeta. destruct (inv_run cfg evs (world0 t_start) (inv_init cfg t_start)) as [Hl [Hi Hc]].
  rewrite Forall_forall in Hl, Hi, Hc. split.
  - intros s Hs. destruct (Hi s Hs) as [t0 [Hin H]]. exists t0. repeat split; auto.
  - intros t s Hts. destruct (Hc (t, s) Hts) as [t0 [Hin [H1 [H2 H3]]]]. exists t0. cbn in *. auto.
Qed.

(* logins are exactly the successful callbacks: the list only grows by a callback that saved *)
Lemma logins_only_by_callback cfg w e :
  w_logins (step lower cfg w e) = w_logins w \/
  exists rq rd s, e = EvCallback rq rd /\ cr_saved (oauth_callback lower cfg (w_now w) rq rd) = Some s /\
                  w_logins (step lower cfg w e) = w_now w :: w_logins w.
Proof.
  destruct e as [d|rq rd|p rq pc rr vr]; cbn [step]; try (left; reflexivity).
  destruct (cr_saved (oauth_callback lower cfg (w_now w) rq rd)) as [s|] eqn:Sv; [|left; reflexivity].
  right. exists rq, rd, s. repeat split. exact Sv.
Qed.

(* ---------- BrowserWorld: the CSRF cookie in a browser's jar ---------- *)
Lemma callback_saved_cleared cfg now rq rd s :
  cr_saved (oauth_callback lower cfg now rq rd) = Some s ->
  cr_csrf_cleared (oauth_callback lower cfg now rq rd) = true.
Proof.
  unfold oauth_callback.
  repeat match goal with
         | |- context [if ?b then _ else _] => destruct b; cbn [cr_saved cb_error_page cr_csrf_cleared]; try discriminate
         | |- context [match ?x with _ => _ end] => destruct x; cbn [cr_saved cb_error_page cr_csrf_cleared]; try discriminate
         end;
  reflexivity.
Qed.

Lemma jar_after_start jar nonce rq :
  jar_apply_all jar (start_set_cookies (oauth_start nonce rq)) =
  match sr_csrf_set (oauth_start nonce rq) with Some n => Some n | None => jar end.
Proof. unfold start_set_cookies. destruct (sr_csrf_set (oauth_start nonce rq)); reflexivity. Qed.

Lemma jar_after_callback jar r :
  jar_apply_all jar (callback_set_cookies r) = if cr_csrf_cleared r then None else jar.
Proof. unfold callback_set_cookies. destruct (cr_csrf_cleared r); reflexivity. Qed.

Lemma start_sets_own_nonce nonce rq n : sr_csrf_set (oauth_start nonce rq) = Some n -> n = nonce.
Proof.
  unfold oauth_start.
  repeat match goal with |- context [if ?b then _ else _] => destruct b; cbn [sr_csrf_set] end;
  congruence.
Qed.

(* whatever CSRF cookie the jar holds was delivered by a /start response to this browser *)
Definition binv (w : bworld) : Prop := forall n, bw_csrf w = Some n -> In n (bw_starts w).

Lemma binv_step cfg w e : binv w -> binv (bstep lower cfg w e).
Proof.
  intros H. destruct e as [d|nonce rq|rq rd|p rq rr vr]; cbn [bstep]; unfold binv; cbn [bw_csrf bw_starts].
  - exact H.
  - rewrite jar_after_start. destruct (sr_csrf_set (oauth_start nonce rq)) as [m|].
    + intros n E; inversion E; subst. left; reflexivity.
    + exact H.
  - rewrite jar_after_callback.
    destruct (cr_csrf_cleared (oauth_callback lower cfg (bw_now w) (with_csrf rq (bw_csrf w)) rd)); [discriminate | exact H].
  - exact H.
Qed.

Lemma binv_run cfg evs w : binv w -> binv (brun lower cfg w evs).
Proof.
  revert w; induction evs as [|e evs IH]; intros w H; cbn; [exact H|]. apply IH, binv_step, H.
Qed.

(* ... and every such nonce was the server's choice at a /start event of this history *)
Lemma starts_from_events cfg evs w n :
  In n (bw_starts (brun lower cfg w evs)) ->
  In n (bw_starts w) \/ exists rq, In (BvStart n rq) evs.
Proof.
  revert w; induction evs as [|e evs IH]; intros w H; cbn in H; [left; exact H|].
  destruct (IH _ H) as [H1|[rq H1]]; [|right; exists rq; right; exact H1].
  destruct e as [d|nonce rq|rq rd|p rq rr vr]; cbn [bstep bw_starts] in H1; try (left; exact H1).
  destruct (sr_csrf_set (oauth_start nonce rq)) as [m|] eqn:E; [|left; exact H1].
  destruct H1 as [H1|H1]; [|left; exact H1].
  apply start_sets_own_nonce in E. subst. right. exists rq. left; reflexivity.
Qed.

(* C09_browser_csrf_binding *)
Lemma browser_csrf_binding cfg evs t0 rq rd s :
  let w := brun lower cfg (bworld0 t0) evs in
  cr_saved (oauth_callback lower cfg (bw_now w) (with_csrf rq (bw_csrf w)) rd) = Some s ->
  exists nonce redirect srq,
    cb_state rq = Some (nonce ++ colon :: redirect) /\ ~ In colon nonce /\
    bw_csrf w = Some nonce /\ In (BvStart nonce srq) evs /\
    cb_redirect_ok rq redirect = true /\
    bw_csrf (bstep lower cfg w (BvCallback rq rd)) = None /\
    bw_sess (bstep lower cfg w (BvCallback rq rd)) = Some s.
Proof.
  cbv zeta. set (w := brun lower cfg (bworld0 t0) evs). intros Sv.
  pose proof (callback_saved_cleared _ _ _ _ _ Sv) as Cl.
  pose proof (callback_csrf _ _ _ _ _ Sv) as
    [nonce [redirect [email [access [rtok [dur [_ [_ [_ [Hst [Hn [Hc [Hr _]]]]]]]]]]]]].
  cbn [with_csrf cb_state cb_csrf cb_redirect_ok] in Hst, Hc, Hr.
  assert (Hin : In nonce (bw_starts w)).
  { apply (binv_run cfg evs (bworld0 t0)); [intros n E; discriminate | exact Hc]. }
  destruct (starts_from_events _ _ _ _ Hin) as [[]|[srq Hs]].
  exists nonce, redirect, srq. cbn [bstep bw_csrf bw_sess]. rewrite jar_after_callback, Cl, Sv.
  repeat split; assumption.
Qed.

End P.

(* ---------- non-vacuity: a concrete history ---------- *)
Definition ex_cfg : config := mkCfg [] [[101;120;46;99;111;109]%N] 3900.       (* domains: "ex.com" *)
Definition ex_email : str := [97;64;101;120;46;99;111;109]%N.                  (* "a@ex.com" *)
Definition ex_redirect : str := [104;116;116;112;115;58;47;47;112]%N.          (* "https://p" *)
Definition ex_nonce : str := [110;49]%N.                                       (* "n1" *)
Definition ex_cb : cb_request :=
  mkCB true [] [99]%N (Some (ex_nonce ++ colon :: ex_redirect)) (Some ex_nonce) (fun r => str_eqb r ex_redirect).
Definition ex_si : si_request := mkSI true true true true [115]%N.
Definition ex_trace : list event :=
  [ EvCallback ex_cb (RdTokens ex_email [116]%N [114]%N 900);
    EvTick 600;
    EvSignIn Google ex_si (PIssued 0) RReset (VStatus 200 true true);                         (* validated *)
    EvTick 600;
    EvSignIn Okta ex_si (PIssued 0) (RStatus 200 None (Some ([117]%N, 900))) VReset;         (* refreshed *)
    EvTick 3000;
    EvSignIn Google ex_si (PIssued 0) RReset (VStatus 200 true true) ].                       (* lifetime over *)

Example ex_trace_runs :
  let w := run lower_ascii ex_cfg (world0 0) ex_trace in
  w_logins w = [0] /\ map fst (w_codes w) = [1200; 600] /\
  map s_lifetime (w_issued w) = [3900; 3900; 3900] /\ w_now w = 4200.
Proof. vm_compute. repeat split; reflexivity. Qed.

Example ex_expired_shows_sign_in_page :
  let w := run lower_ascii ex_cfg (world0 0) (firstn 6 ex_trace) in
  let r := sign_in_route lower_ascii ex_cfg Google (w_now w) ex_si (present w (PIssued 0)) RReset (VStatus 200 true true) in
  r_status r = 200%N /\ r_body r = BodySignInPage /\ r_code r = None /\ r_ops r = [OpClear; OpClear].
Proof. vm_compute. repeat split; reflexivity. Qed.

Example ex_code_issued :
  exists s, r_code (sign_in_route lower_ascii ex_cfg Google 600 ex_si
                      (CkSealed KCookie (mkS ex_email [116]%N [114]%N 900 3900)) RReset (VStatus 200 true true)) = Some s.
Proof. eexists. vm_compute. reflexivity. Qed.

Example ex_callback_saves :
  exists s, cr_saved (oauth_callback lower_ascii ex_cfg 0 ex_cb (RdTokens ex_email [116]%N [114]%N 900)) = Some s.
Proof. eexists. vm_compute. reflexivity. Qed.

(* a browser: /start, honest callback (session), then a forged empty-nonce callback (refused:
   the jar holds no CSRF cookie any more) *)
Definition ex_start : start_request := mkST true true true true ex_redirect.
Definition ex_bcb (plain : str) : cb_request := mkCB true [] [99]%N (Some plain) None (fun r => str_eqb r ex_redirect).
Example ex_browser_runs :
  let rd := RdTokens ex_email [116]%N [114]%N 900 in
  let w1 := brun lower_ascii ex_cfg (bworld0 0) [BvStart ex_nonce ex_start] in
  let w2 := bstep lower_ascii ex_cfg w1 (BvCallback (ex_bcb (ex_nonce ++ colon :: ex_redirect)) rd) in
  bw_csrf w1 = Some ex_nonce /\ bw_csrf w2 = None /\ (exists s, bw_sess w2 = Some s) /\
  cr_saved (oauth_callback lower_ascii ex_cfg 0 (with_csrf (ex_bcb (colon :: ex_redirect)) (bw_csrf w2)) rd) = None /\
  (* had the callback left a live empty-valued cookie behind, the forged callback would succeed *)
  (exists s, cr_saved (oauth_callback lower_ascii ex_cfg 0 (with_csrf (ex_bcb (colon :: ex_redirect))
                         (jar_apply_all (bw_csrf w1) [mkSC [] false])) rd) = Some s).
Proof. vm_compute. repeat split; try reflexivity; eexists; reflexivity. Qed.
