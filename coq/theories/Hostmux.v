(* Hostmux.v — model of host routing and of the per-upstream handler chosen by it (C13).

   Go code followed (buzzfeed/sso, /repo):
     internal/pkg/hostmux/hostmux.go:78-131   NewRouter, Route, HandleStatic, HandleRegexp
     internal/proxy/proxy_config.go:129-175   loadServiceConfigs: services in order, then every
                                              service's extra_routes appended (resolveExtraRoute:
                                              an extra route inherits the options of its service)
     internal/proxy/proxy_config.go:226-281   rewriteRoute / simpleRoute / urlParse
     internal/proxy/proxy.go:16-90            New: one OAuthProxy per upstream, registered by route type;
                                              setHealthCheck("/ping") in front of the router
     internal/proxy/options.go:162-194        newProvider (reads the DEPLOYMENT DEFAULT slug)
     internal/proxy/providers/sso.go:59-83,106-160  /<slug>/sign_in ..., Redeem stamps ProviderSlug
     internal/proxy/reverse_proxy.go:136-188  DirectorFunc / StaticDirectorFunc / RewriteDirectorFunc
     internal/proxy/oauthproxy.go:272-285     IsWhitelistedRequest (skip_auth_regex)
     internal/proxy/oauthproxy.go:316-389     OAuthStart (flow record = session id + redirect URI; names no host)
     internal/proxy/oauthproxy.go:391-535     OAuthCallback (validators any-of, AuthorizedUpstream := req.Host)
     internal/proxy/oauthproxy.go:538-610     Proxy (error -> OAuthStart / 403)
     internal/proxy/oauthproxy.go:613-651,720-733  Authenticate: slug check, host check, per-request validators

   Library oracles (explicit arguments, never axioms):
     re_match   pat s       = regexp.MustCompile(pat).MatchString(s)
     re_replace pat s tmpl  = regexp.MustCompile(pat).ReplaceAllString(s, tmpl)
     lower                  = strings.ToLower (validators, see Validators.v)

   [fixed : bool] selects the variant of newProvider: false = the code as it is today (provider
   slug = deployment default for every upstream), true = the repaired code (the upstream's own
   provider_slug when set, else the default).

   Outside the model (assumed by the correspondence generator): session deadlines (nothing due:
   C04/C05), request signing, header overrides, skip_auth_preflight, the gorilla mux paths other
   than "/oauth2/callback" and the catch-all, cookie_secure. No proofs in this file. *)
From V Require Import Base Validators.

(* ---- the slice of net/url.Parse that decides the authority of "scheme://" ++ s ----
   urlParse (proxy_config.go:268-278) prefixes the scheme when s has no "://"; the authority
   then ends at the first '/', '?' or '#'. Guard (generator): no "://", no userinfo in s. *)
Definition is_auth_end (c : N) : bool := N.eqb c 47 || N.eqb c 63 || N.eqb c 35.
Fixpoint url_host (s : str) : str :=
  match s with
  | [] => []
  | c :: s' => if is_auth_end c then [] else c :: url_host s'
  end.

(* the Host header net/http sends for a request whose Host field is h and whose URL host is t *)
Definition preserved_host (h t : str) : str := match h with [] => t | _ => h end.

Definition ping_path : str := [47;112;105;110;103].   (* "/ping" *)

Inductive route :=
| Simple (from to : str)       (* type: simple  (or no type) *)
| Rewrite (from to : str).     (* type: rewrite: from is a regexp source, to a template *)

(* one resolved upstream (UpstreamConfig after loadServiceConfigs) *)
Record upstream := {
  u_route : route;
  u_policy : policy;           (* allowed_email_addresses / allowed_email_domains / allowed_groups *)
  u_slug : str;                (* options.provider_slug of the upstream; [] = not set *)
  u_skip : list str;           (* options.skip_auth_regex *)
  u_preserve : bool            (* options.preserve_host *)
}.

(* vocabulary of the property: "u is a simple route whose from names exactly host h",
   "the provider the upstream is configured for" *)
Definition is_simple_for (h : str) (u : upstream) : bool :=
  match u_route u with Simple f _ => str_eqb (url_host f) h | Rewrite _ _ => false end.
Definition own_slug (dflt : str) (u : upstream) : str := match u_slug u with [] => dflt | s => s end.

(* the abstract configuration document: a service with its extra routes *)
Record service := { sv_up : upstream; sv_extra : list route }.

Definition with_route (u : upstream) (r : route) : upstream :=
  {| u_route := r; u_policy := u_policy u; u_slug := u_slug u; u_skip := u_skip u; u_preserve := u_preserve u |}.

(* loadServiceConfigs: configs = services in order ++ extra routes (per service, in order) *)
Definition resolve (svcs : list service) : list upstream :=
  map sv_up svcs ++ flat_map (fun s => map (with_route (sv_up s)) (sv_extra s)) svcs.

(* ---- hostmux.Router ---- *)
Record router := { static : list (str * upstream); regexps : list (str * upstream) }.
Definition empty_router : router := {| static := []; regexps := [] |}.

(* StaticRoutes[host] = ...: a Go map assignment; a later registration replaces *)
Fixpoint static_set (k : str) (v : upstream) (l : list (str * upstream)) : list (str * upstream) :=
  match l with
  | [] => [(k, v)]
  | (k', v') :: l' => if str_eqb k k' then (k, v) :: l' else (k', v') :: static_set k v l'
  end.
Fixpoint static_get (k : str) (l : list (str * upstream)) : option upstream :=
  match l with
  | [] => None
  | (k', v) :: l' => if str_eqb k k' then Some v else static_get k l'
  end.

Definition handle_static (host : str) (u : upstream) (r : router) : router :=
  {| static := static_set host u (static r); regexps := regexps r |}.
Definition handle_regexp (pat : str) (u : upstream) (r : router) : router :=
  {| static := static r; regexps := regexps r ++ [(pat, u)] |}.

(* proxy.New, proxy.go:72-79 *)
Definition register (r : router) (u : upstream) : router :=
  match u_route u with
  | Simple from _ => handle_static (url_host from) u r
  | Rewrite from _ => handle_regexp from u r
  end.
Definition new_router (cfg : list upstream) : router := fold_left register cfg empty_router.

Inductive routed := RUp (u : upstream) | RDefault.

Record session := { s_slug : str; s_upstream : str; s_email : str }.
Definition session_eqb (a b : session) : bool :=
  str_eqb (s_slug a) (s_slug b) && str_eqb (s_upstream a) (s_upstream b) && str_eqb (s_email a) (s_email b).

Inductive cookie_effect := CkNone | CkCleared | CkSet (s : session).

(* q_cookie = None: no session cookie, or one that does not open (both restart the flow) *)
Record request := { q_host : str; q_path : str; q_cookie : option session }.
(* a sign-in: the client asks for l_spath on host l_start without a session (when that request is
   answered by OAuthStart it yields a sealed flow record and the CSRF cookie), authenticates, and
   delivers the callback — with that flow record and CSRF cookie, or with none when there is none —
   to host l_host, which need NOT be l_start: every upstream shares the cookie name and the sealing
   key, so any upstream's callback accepts the flow. The authenticator redeems the code to l_email
   and answers the groups question with l_groups. *)
Record login := { l_start : str; l_spath : str; l_host : str; l_email : str; l_groups : groups_answer }.

Inductive kind :=
| KHealth          (* 200 from the /ping middleware, before routing *)
| KMisdirected     (* 421 *)
| KSignIn          (* 302 to the provider's /<slug>/sign_in *)
| KForbidden       (* 403 *)
| KForward         (* handed to the reverse proxy *)
| KLoginOk         (* callback: session cookie set, 302 back *)
| KLoginRefused.   (* callback: 403 / 500, no cookie *)

Record response := {
  r_kind : kind;
  r_target : option str;     (* authority the reverse proxy dials *)
  r_fwd_host : option str;   (* Host header of the outgoing request *)
  r_user : option str;       (* X-Forwarded-Email set by Authenticate: Some only when the session was accepted *)
  r_cookie : cookie_effect;  (* effect on the session cookie *)
  r_slug : option str        (* provider path segment: of the sign-in redirect, or of the redeem call *)
}.

Definition plain (k : kind) (ck : cookie_effect) (slug : option str) : response :=
  {| r_kind := k; r_target := None; r_fwd_host := None; r_user := None; r_cookie := ck; r_slug := slug |}.

Inductive auth_result := AuthOk (email : str) | AuthNoCookie | AuthWrongProvider | AuthWrongUpstream | AuthDenied.

Section Model.
Variable re_match : str -> str -> bool.
Variable re_replace : str -> str -> str -> str.
Variable lower : str -> str.
Variable fixed : bool.
Variable dflt : str.          (* DefaultConfig.ProviderSlug *)

(* vocabulary: "u is a rewrite route whose pattern matches host h" *)
Definition is_rw_match (h : str) (u : upstream) : bool :=
  match u_route u with Rewrite f _ => re_match f h | Simple _ _ => false end.

(* Router.Route, hostmux.go:94-111 *)
Definition route_in (r : router) (host : str) : routed :=
  match static_get host (static r) with
  | Some u => RUp u
  | None =>
      match find (fun pu => re_match (fst pu) host) (regexps r) with
      | Some pu => RUp (snd pu)
      | None => RDefault
      end
  end.
Definition route_of (cfg : list upstream) (host : str) : routed := route_in (new_router cfg) host.

(* the slug the upstream's provider object is built with: options.go:183 / the repaired variant *)
Definition provider_slug (u : upstream) : str :=
  if fixed then match u_slug u with [] => dflt | s => s end else dflt.

(* StaticDirectorFunc / RewriteDirectorFunc: the authority of the target URL *)
Definition target (host : str) (u : upstream) : str :=
  match u_route u with
  | Simple _ to => url_host to
  | Rewrite from to => url_host (re_replace from host to)
  end.

(* DirectorFunc, reverse_proxy.go:157-160: req.Host is left alone under preserve_host, else set to
   the target's. net/http then writes "Host: req.Host", or the URL's host when req.Host is empty
   (Request.write), which is what a backend sees for an empty Host under preserve_host. *)
Definition forward (u : upstream) (q : request) (user : option str) : response :=
  let t := target (q_host q) u in
  {| r_kind := KForward; r_target := Some t;
     r_fwd_host := Some (if u_preserve u then preserved_host (q_host q) t else t);
     r_user := user; r_cookie := CkNone; r_slug := None |}.

Definition whitelisted (u : upstream) (q : request) : bool :=
  existsb (fun p => re_match p (q_path q)) (u_skip u).

(* Authenticate, oauthproxy.go:613-733, with nothing due *)
Definition authenticate (u : upstream) (q : request) : auth_result :=
  match q_cookie q with
  | None => AuthNoCookie
  | Some s =>
      if negb (str_eqb (s_slug s) (provider_slug u)) then AuthWrongProvider
      else if negb (str_eqb (q_host q) (s_upstream s)) then AuthWrongUpstream
      else if request_gate lower (u_policy u) (s_email s) then AuthOk (s_email s)
      else AuthDenied
  end.

(* OAuthProxy.Proxy, oauthproxy.go:538-610 *)
Definition proxy_request (u : upstream) (q : request) : response :=
  if whitelisted u q then forward u q None
  else match authenticate u q with
       | AuthOk e => forward u q (Some e)
       | AuthDenied => plain KForbidden CkCleared None
       | AuthNoCookie | AuthWrongProvider | AuthWrongUpstream =>
           plain KSignIn CkCleared (Some (provider_slug u))
       end.

(* SSOProxy.ServeHTTP: health check, then the host router, then the upstream's handler *)
Definition handle (cfg : list upstream) (q : request) : response :=
  if str_eqb (q_path q) ping_path then plain KHealth CkNone None
  else match route_of cfg (q_host q) with
       | RDefault => plain KMisdirected CkNone None
       | RUp u => proxy_request u q
       end.

(* OAuthCallback on the routed upstream, oauthproxy.go:391-523 *)
Definition callback_on (u : upstream) (l : login) : response * option session :=
  if login_admit lower (u_policy u) (l_email l) (l_groups l) then
    let s := {| s_slug := provider_slug u; s_upstream := l_host l; s_email := l_email l |} in
    (plain KLoginOk (CkSet s) (Some (provider_slug u)), Some s)
  else (plain KLoginRefused CkNone (Some (provider_slug u)), None).

(* the request that opens the flow, and whether OAuthStart answered it (Proxy: not the health check,
   a routed host, not a skip-auth path, no session -> OAuthStart) *)
Definition start_request (l : login) : request :=
  {| q_host := l_start l; q_path := l_spath l; q_cookie := None |}.
Definition flow_started (cfg : list upstream) (l : login) : bool :=
  negb (str_eqb (l_spath l) ping_path) &&
  match route_of cfg (l_start l) with
  | RUp u => negb (whitelisted u (start_request l))
  | RDefault => false
  end.

(* The callback is handled by the upstream its OWN Host names. Without a flow record the code is
   still redeemed (oauthproxy.go:424) before the state parameter fails to open (500, no cookie). *)
Definition callback (cfg : list upstream) (l : login) : response * option session :=
  match route_of cfg (l_host l) with
  | RDefault => (plain KMisdirected CkNone None, None)
  | RUp u =>
      if flow_started cfg l then callback_on u l
      else (plain KLoginRefused CkNone (Some (provider_slug u)), None)
  end.

(* ---- history machine: logins and requests on any hosts, in any order ----
   The state remembers, per login event, the host the callback ran on and the session it
   issued (None when refused). A request may carry ANY session value; "the adversary presents
   an issued cookie" is the hypothesis [In (Some (h, s)) (logins st)] of the theorems. *)
Inductive event := ELogin (l : login) | ERequest (q : request).
Record hstate := { logins : list (option (str * session)) }.
Definition init : hstate := {| logins := [] |}.

Definition step (cfg : list upstream) (st : hstate) (e : event) : hstate * response :=
  match e with
  | ELogin l =>
      let '(r, os) := callback cfg l in
      ({| logins := logins st ++ [match os with Some s => Some (l_host l, s) | None => None end] |}, r)
  | ERequest q => (st, handle cfg q)
  end.

Fixpoint run (cfg : list upstream) (st : hstate) (evs : list event) : hstate * list (event * response) :=
  match evs with
  | [] => (st, [])
  | e :: evs' =>
      let '(st1, r) := step cfg st e in
      let '(st2, tr) := run cfg st1 evs' in
      (st2, (e, r) :: tr)
  end.

(* the session was accepted: the request went to a backend carrying the session's identity *)
Definition accepted (r : response) : bool :=
  match r_kind r, r_user r with KForward, Some _ => true | _, _ => false end.

End Model.
