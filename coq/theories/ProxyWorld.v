(* ProxyWorld.v — history machines over ProxyCore.

   (1) [world]: the adversarial machine. The proxy issues sealed sessions (at login callbacks and
       whenever Authenticate re-saves); an adversary may present ANY previously issued cookie, no
       cookie, or a string that does not open, on any host, at any time, with any authenticator
       answers. Sealing is symbolic: nothing else opens under the proxy's key.
   (2) [browser]: the linear machine of C05's quantifier: one browser that carries the last
       Set-Cookie, requests arriving one at a time.

   Ghost fields (i_login, i_host, ...) record provenance; they are not visible to the proxy. *)
From V Require Import Base Validators ProxyCore.
Open Scope Z_scope.

Record isess := {
  i_s : session;        (* the sealed session *)
  i_login : Z;          (* ghost: time of the login callback this session descends from *)
  i_host : str;         (* ghost: Host of that callback *)
  i_email : str;        (* ghost: e-mail redeemed at that callback *)
  i_at : Z }.           (* ghost: time this copy was sealed *)

Record world := { w_now : Z; w_issued : list isess }.

Inductive choice := CkNone | CkJunk | CkIssued (k : nat).

Inductive event :=
| Tick (dt : Z)
| Login (host email access rtok : str) (expires_in : Z) (ans : groups_answer)
| Req (host : str) (is_options skip_hit xhr : bool) (ep : which_endpoint) (ck : choice) (a : answers).

Section World.
Variable lower : str -> str.
Variable c : cfg.
Variable pol_of : str -> upolicy.     (* routing: the policy of the upstream a Host names *)

Definition init : world := {| w_now := 0; w_issued := [] |}.

Definition cookie_of (w : world) (ck : choice) : cookie :=
  match ck with
  | CkNone => NoCookie
  | CkJunk => Junk
  | CkIssued k => match nth_error (w_issued w) k with Some i => Sealed (i_s i) | None => Junk end
  end.

Definition parent_of (w : world) (ck : choice) : option isess :=
  match ck with CkIssued k => nth_error (w_issued w) k | _ => None end.

(* SSOProvider.Redeem (sso.go:102-163) + OAuthCallback's gate and stamping (oauthproxy.go:481-506) *)
Definition login_session (now : Z) (host email access rtok : str) (expires_in : Z) (ans : groups_answer) : session :=
  {| s_slug := c_slug c; s_email := email; s_user := []; s_access := access; s_refresh_tok := rtok;
     s_refresh_dl := now + expires_in; s_lifetime_dl := now + c_L c; s_valid_dl := now + c_V c;
     s_grace := None;
     s_groups := (match p_groups (u_rules (pol_of host)) with
                  | [] => []
                  | g => gr_matched (validate_group g ans) end);
     s_upstream := host |}.

Definition mk_request (w : world) (host : str) (is_options skip_hit xhr : bool) (ep : which_endpoint) (ck : choice) : request :=
  {| r_host := host; r_is_options := is_options; r_skip_hit := skip_hit; r_xhr := xhr;
     r_endpoint := ep; r_cookie := cookie_of w ck |}.

Definition respond (w : world) (host : str) (is_options skip_hit xhr : bool) (ep : which_endpoint) (ck : choice) (a : answers) : response :=
  handle lower (w_now w) c (pol_of host) (mk_request w host is_options skip_hit xhr ep ck) a.

Definition step (w : world) (e : event) : world :=
  match e with
  | Tick dt => {| w_now := w_now w + Z.max 0 dt; w_issued := w_issued w |}
  | Login host email access rtok expires_in ans =>
      if login_admit lower (u_rules (pol_of host)) email ans then
        {| w_now := w_now w;
           w_issued := w_issued w ++
             [{| i_s := login_session (w_now w) host email access rtok expires_in ans;
                 i_login := w_now w; i_host := host; i_email := email; i_at := w_now w |}] |}
      else w
  | Req host o sk x ep ck a =>
      match rs_cookie (respond w host o sk x ep ck a), parent_of w ck with
      | CSaved s', Some p =>
          {| w_now := w_now w;
             w_issued := w_issued w ++
               [{| i_s := s'; i_login := i_login p; i_host := i_host p; i_email := i_email p; i_at := w_now w |}] |}
      | _, _ => w
      end
  end.

Definition run (evs : list event) : world := fold_left step evs init.

(* ---------- the linear browser machine (C05) ---------- *)
(* one step: time passes by dt >= 0, then a request with the browser's current cookie *)
Record bstep := { b_dt : Z; b_ans : answers }.

Record bstate := { b_now : Z; b_cookie : option session;
                   b_outage : option Z }.   (* ghost, derived from OBSERVATIONS only: start of the current outage *)

Definition grace_served (rs : response) : bool :=
  served rs && match rs_cookie rs with CSaved s' => match s_grace s' with Some _ => true | None => false end | _ => false end.
Definition full_success (rs : response) : bool :=
  served rs && match rs_cookie rs with CSaved s' => match s_grace s' with Some _ => false | None => true end | _ => false end.

Definition outage_after (prev : option Z) (now : Z) (rs : response) : option Z :=
  if grace_served rs then Some (match prev with Some g => g | None => now end)
  else if full_success rs then None else prev.

Definition bresponse (host : str) (st : bstate) (b : bstep) : response :=
  let now := b_now st + Z.max 0 (b_dt b) in
  handle lower now c (pol_of host)
    {| r_host := host; r_is_options := false; r_skip_hit := false; r_xhr := false; r_endpoint := EProxy;
       r_cookie := match b_cookie st with Some s => Sealed s | None => NoCookie end |} (b_ans b).

Definition bnext (host : str) (st : bstate) (b : bstep) : bstate :=
  let now := b_now st + Z.max 0 (b_dt b) in
  let rs := bresponse host st b in
  {| b_now := now;
     b_cookie := match rs_cookie rs with CSaved s' => Some s' | CCleared => None | CNone => b_cookie st end;
     b_outage := outage_after (b_outage st) now rs |}.

Definition brun (host : str) (st : bstate) (bs : list bstep) : bstate := fold_left (bnext host) bs st.

End World.
