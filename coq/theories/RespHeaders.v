(* RespHeaders.v — C18: every response is hardened (security headers, HTTPS upgrade, cookie flags).

   Executable model, function for function, of
     internal/proxy/middleware.go:11-54        securityHeaders, setHeaders, setSecurityHeaders,
                                               setResponseHeaderOverrides, requireHTTPS
     internal/proxy/oauthproxy.go:139-161      Handler(): setSecurityHeaders > overrides > requireHTTPS > router
     internal/proxy/oauthproxy.go:199-312,526-609   which response-header operations each handler performs
     internal/proxy/reverse_proxy.go:87-127    ReverseProxy{ModifyResponse}, TimeoutHandler iff
                                               FlushInterval == 0 && Timeout != 0
     internal/pkg/sessions/cookie_store.go:82-104   makeCookie
     internal/auth/middleware.go:17-35, internal/auth/authenticator.go:107-121   setHeaders around the mux
   and of the library behaviour the property depends on (toolchain go1.23.5):
     net/textproto CanonicalMIMEHeaderKey / canonicalMIMEHeaderKey   (reader.go:647-666,742-789)
     net/http      Header.Set/Add/Del, Error, Redirect, hexEscapeNonASCII, SetCookie, Cookie.String
                   (domain attribute: validCookieDomain, isCookieDomainName)     (cookie.go:227-290,369-438)
     net/http      timeoutHandler.ServeHTTP: `for k, vv := range tw.h { dst[k] = vv }`   (server.go:3649-3701)
     net/http/httputil ReverseProxy.ServeHTTP: Got1xxResponse hook (copyHeader; WriteHeader; clear(h)),
                   removeHopByHopHeaders, modifyResponse, copyHeader (append), Trailer announcement,
                   copy of trailers into the writer's header map after the body   (reverseproxy.go:281-287,462-478,499-552,577-592)
     net/url       URL.String, EscapedPath, escape/shouldEscape (encodeHost, encodePath)  (url.go:102-177,286-340,718-731,829-890)
     net           SplitHostPort                                                 (ipsock.go:165-216)

   A header map [hdr A] is an association list from map key to value list with unique keys
   (http.Header); [hget k h] is Go's [h[k]].

   The tables (securityHeaders of both services, the HSTS pair, the keys ModifyResponse deletes)
   are PARAMETERS of every function here; props/C18.v and corr/Corr_C18.v instantiate them with
   gen/Gen_Headers.v, which the translator regenerates from the Go source on every run.
   [deleted] / [tdeleted] = keys ModifyResponse deletes from the upstream's header map / from its
   announced trailers: today = keys of securityHeaders / nothing.

   No proofs in this file. *)
From V Require Import Base.
Require Coq.Strings.String Coq.Strings.Ascii.
Import Coq.Strings.String.StringSyntax.

(* ------------------------------------------------------------------------------------------ *)
(* string constants *)

Fixpoint bs (s : String.string) : str :=
  match s with
  | String.EmptyString => []
  | String.String a s' => Ascii.N_of_ascii a :: bs s'
  end.
Arguments bs s%string_scope.

Definition k_xcto : str := bs "X-Content-Type-Options".
Definition k_xfo : str := bs "X-Frame-Options".
Definition k_xxp : str := bs "X-Xss-Protection".          (* canonical form of "X-XSS-Protection" *)
Definition k_hsts : str := bs "Strict-Transport-Security".
Definition k_location : str := bs "Location".
Definition k_content_type : str := bs "Content-Type".
Definition k_content_length : str := bs "Content-Length".
Definition k_set_cookie : str := bs "Set-Cookie".
Definition k_trailer : str := bs "Trailer".
Definition k_connection : str := bs "Connection".
Definition k_user : str := bs "Sso-Authenticated-User".   (* canonical form of loggingUserHeader *)
Definition v_nosniff : str := bs "nosniff".
Definition trailer_prefix : str := bs "Trailer:".          (* http.TrailerPrefix *)

(* ------------------------------------------------------------------------------------------ *)
(* bytes *)

Definition is_digit (c : N) : bool := (48 <=? c) && (c <=? 57).
Definition is_upper (c : N) : bool := (65 <=? c) && (c <=? 90).
Definition is_lower (c : N) : bool := (97 <=? c) && (c <=? 122).
Definition is_alpha (c : N) : bool := is_upper c || is_lower c.
Definition is_alnum (c : N) : bool := is_digit c || is_alpha c.
Definition mem_byte (c : N) (l : list N) : bool := existsb (N.eqb c) l.

(* textproto.validHeaderFieldByte: RFC 7230 tchar *)
Definition token_punct : list N := [33;35;36;37;38;39;42;43;45;46;94;95;96;124;126].
Definition is_token_byte (c : N) : bool := is_alnum c || mem_byte c token_punct.

Definition upper_byte (c : N) : N := if is_lower c then c - 32 else c.
Definition low_byte (c : N) : N := if is_upper c then c + 32 else c.

(* canonicalMIMEHeaderKey's rewriting loop (reader.go:769-781) *)
Fixpoint canon_go (upper : bool) (s : str) : str :=
  match s with
  | [] => []
  | c :: s' => let c' := if upper then upper_byte c else low_byte c in
               c' :: canon_go (N.eqb c' 45) s'
  end.

(* textproto.CanonicalMIMEHeaderKey (used by Header.Set/Add/Del/Get): a key with any non-token
   byte is returned unchanged *)
Definition canon (s : str) : str := if forallb is_token_byte s then canon_go true s else s.

(* canonicalMIMEHeaderKey as used by ReadMIMEHeader on a field name read from the wire
   (reader.go:552-555): empty or containing a byte that is neither tchar nor ' ' -> malformed *)
Definition wire_key (k : str) : option str :=
  match k with
  | [] => None
  | _ => if forallb (fun c => is_token_byte c || N.eqb c 32) k then Some (canon k) else None
  end.

(* textproto.TrimString *)
Definition is_space (c : N) : bool := N.eqb c 32 || N.eqb c 9 || N.eqb c 10 || N.eqb c 13.
Fixpoint trim_left (s : str) : str :=
  match s with c :: s' => if is_space c then trim_left s' else s | [] => [] end.
Definition trim (s : str) : str := rev (trim_left (rev (trim_left s))).

(* ------------------------------------------------------------------------------------------ *)
(* http.Header *)

Definition hdr (A : Type) := list (str * list A).

Fixpoint hget {A} (k : str) (h : hdr A) : list A :=
  match h with
  | [] => []
  | (k', vs) :: h' => if str_eqb k k' then vs else hget k h'
  end.
Fixpoint hhas {A} (k : str) (h : hdr A) : bool :=
  match h with
  | [] => false
  | (k', _) :: h' => str_eqb k k' || hhas k h'
  end.
Fixpoint hdel_raw {A} (k : str) (h : hdr A) : hdr A :=
  match h with
  | [] => []
  | (k', vs) :: h' => if str_eqb k k' then hdel_raw k h' else (k', vs) :: hdel_raw k h'
  end.
Definition hset_raw {A} (k : str) (vs : list A) (h : hdr A) : hdr A := (k, vs) :: hdel_raw k h.   (* h[k] = vs *)
Definition hadd_raw {A} (k : str) (v : A) (h : hdr A) : hdr A := hset_raw k (hget k h ++ [v]) h.  (* h[k] = append(h[k], v) *)

Definition hset {A} (k : str) (v : A) (h : hdr A) : hdr A := hset_raw (canon k) [v] h.   (* Header.Set *)
Definition hadd {A} (k : str) (v : A) (h : hdr A) : hdr A := hadd_raw (canon k) v h.     (* Header.Add *)
Definition hdel {A} (k : str) (h : hdr A) : hdr A := hdel_raw (canon k) h.               (* Header.Del *)

(* middleware.go:22-30 setHeaders: for key, val := range headers { rw.Header().Set(key, val) }.
   Go ranges over the map in random order; the list order here is one of them (the result is
   order-independent when the canonical keys are distinct). *)
Definition set_all {A} (inj : str -> A) (tbl : list (str * str)) (h : hdr A) : hdr A :=
  fold_left (fun h kv => hset (fst kv) (inj (snd kv)) h) tbl h.

(* the value Set by the LAST entry of tbl whose canonical key is k *)
Definition tbl_lookup (k : str) (tbl : list (str * str)) : option str :=
  fold_left (fun acc kv => if str_eqb k (canon (fst kv)) then Some (snd kv) else acc) tbl None.

(* httputil.copyHeader: for k, vv := range src { for _, v := range vv { dst.Add(k, v) } } *)
Definition copy_header {A} (dst src : hdr A) : hdr A :=
  fold_left (fun d kvs => fold_left (fun d v => hadd (fst kvs) v d) (snd kvs) d) src dst.

(* timeoutHandler.ServeHTTP: for k, vv := range tw.h { dst[k] = vv } *)
Definition merge_replace {A} (dst src : hdr A) : hdr A :=
  fold_right (fun kvs d => hset_raw (fst kvs) (snd kvs) d) dst src.

(* textproto.ReadMIMEHeader on already split field lines (name, value): None = malformed *)
Fixpoint read_lines {A} (inj : str -> A) (ls : list (str * str)) (acc : hdr A) : option (hdr A) :=
  match ls with
  | [] => Some acc
  | (k, v) :: ls' =>
      match wire_key k with
      | None => None
      | Some k' => read_lines inj ls' (hadd_raw k' (inj v) acc)
      end
  end.

(* some field line of ls is read into key k *)
Definition line_hits (k : str) (ls : list (str * str)) : bool :=
  existsb (fun l => match wire_key (fst l) with Some k' => str_eqb k k' | None => false end) ls.

(* reverseproxy.go:576-592 removeHopByHopHeaders *)
Definition hop_headers : list str :=
  [bs "Connection"; bs "Proxy-Connection"; bs "Keep-Alive"; bs "Proxy-Authenticate";
   bs "Proxy-Authorization"; bs "Te"; bs "Trailer"; bs "Transfer-Encoding"; bs "Upgrade"].

Definition connection_tokens {A} (proj : A -> str) (h : hdr A) : list str :=
  flat_map (fun f => filter (fun t => match t with [] => false | _ => true end)
                            (map trim (split_on 44 (proj f)))) (hget k_connection h).

Definition remove_hop {A} (proj : A -> str) (h : hdr A) : hdr A :=
  let h1 := fold_left (fun h t => hdel t h) (connection_tokens proj h) h in
  fold_left (fun h k => hdel k h) hop_headers h1.

(* ------------------------------------------------------------------------------------------ *)
(* cookies *)

Record cookie := {
  ck_name : str;
  ck_empty : bool;            (* value = "" (a clearing cookie) *)
  ck_path : str;
  ck_domain : option str;     (* the Domain attribute as serialised; None = attribute absent *)
  ck_httponly : bool;
  ck_secure : bool;
  ck_expires : bool           (* an Expires attribute is present *)
}.

Inductive hval := VStr (s : str) | VCookie (c : cookie).
Definition hval_str (v : hval) : str := match v with VStr s => s | VCookie _ => [] end.

Fixpoint split_last (c : N) (s : str) : option (str * str) :=
  match s with
  | [] => None
  | x :: s' => match split_last c s' with
               | Some (a, b) => Some (x :: a, b)
               | None => if N.eqb x c then Some ([], s') else None
               end
  end.
Fixpoint split_first (c : N) (s : str) : option (str * str) :=
  match s with
  | [] => None
  | x :: s' => if N.eqb x c then Some ([], s')
               else match split_first c s' with Some (a, b) => Some (x :: a, b) | None => None end
  end.

(* net.SplitHostPort: the host part; None = error (missing port, too many colons, brackets) *)
Definition split_host_port (hp : str) : option str :=
  match split_last 58 hp with
  | None => None
  | Some (before, _) =>
      match hp with
      | 91 :: rest =>
          match split_first 93 rest with
          | None => None
          | Some (host, after) =>
              match after with
              | 58 :: p =>
                  if mem_byte 58 p then None
                  else if mem_byte 91 rest then None
                  else if mem_byte 93 after then None
                  else Some host
              | _ => None
              end
          end
      | _ => if mem_byte 58 before then None
             else if mem_byte 91 hp then None
             else if mem_byte 93 hp then None
             else Some before
      end
  end.

(* http.isCookieDomainName (cookie.go:388-438) *)
Fixpoint dn_loop (s : str) (last : N) (ok : bool) (partlen : nat) : bool :=
  match s with
  | [] => negb (N.eqb last 45) && Nat.leb partlen 63 && ok
  | c :: s' =>
      if is_alpha c then dn_loop s' c true (S partlen)
      else if is_digit c then dn_loop s' c ok (S partlen)
      else if N.eqb c 45 then
        if N.eqb last 46 then false else dn_loop s' c ok (S partlen)
      else if N.eqb c 46 then
        if N.eqb last 46 || N.eqb last 45 then false
        else if Nat.ltb 63 partlen || Nat.eqb partlen 0 then false
        else dn_loop s' c ok 0
      else false
  end.
Definition is_cookie_domain_name (s : str) : bool :=
  match s with
  | [] => false
  | c :: t => if Nat.ltb 255 (length s) then false
              else dn_loop (if N.eqb c 46 then t else s) 46 false 0
  end.

(* net.ParseIP restricted to strings without ':' = netip.parseIPv4 *)
Fixpoint dec_value (acc : N) (s : str) : N :=
  match s with [] => acc | c :: s' => dec_value (acc * 10 + (c - 48)) s' end.
Definition dec_field (f : str) : bool :=
  match f with
  | [] => false
  | c :: t => forallb is_digit f && Nat.leb (length f) 3 &&
              (match t with [] => true | _ => negb (N.eqb c 48) end) && (dec_value 0 f <=? 255)
  end.
Definition is_ipv4 (s : str) : bool :=
  match split_on 46 s with
  | [a; b; c; d] => dec_field a && dec_field b && dec_field c && dec_field d
  | _ => false
  end.

(* http.validCookieDomain *)
Definition valid_cookie_domain (d : str) : bool :=
  is_cookie_domain_name d || (is_ipv4 d && negb (mem_byte 58 d)).

(* Cookie.String, the Domain attribute (cookie.go:244-259): dropped when invalid, leading dot stripped *)
Definition domain_attr (d : str) : option str :=
  match d with
  | [] => None
  | c :: t => if valid_cookie_domain d then Some (if N.eqb c 46 then t else d) else None
  end.

Record config := {
  c_overrides : list (str * str);   (* header_overrides of the upstream *)
  c_secure : bool;                  (* cookie_secure: also installs requireHTTPS *)
  c_httponly : bool;
  c_cookie_domain : str;
  c_cookie_name : str;
  c_replace : bool                  (* TimeoutHandler wraps the reverse proxy: FlushInterval == 0 && Timeout != 0 *)
}.

(* cookie_store.go:82-104 makeCookie, seen through Cookie.String *)
Definition cookie_domain (cfg : config) (host : str) : str :=
  let d := match split_host_port host with Some h => h | None => host end in
  match c_cookie_domain cfg with [] => d | cd => cd end.

Definition make_cookie (cfg : config) (host name : str) (empty : bool) : cookie :=
  {| ck_name := name; ck_empty := empty; ck_path := [47];
     ck_domain := domain_attr (cookie_domain cfg host);
     ck_httponly := c_httponly cfg; ck_secure := c_secure cfg; ck_expires := true |}.

Inductive cookie_op :=
| CkSession (empty : bool)     (* SaveSession / ClearSession *)
| CkCsrf (empty : bool).       (* SetCSRF / ClearCSRF *)

Definition csrf_suffix : str := bs "_csrf".
Definition cookie_of_op (cfg : config) (host : str) (op : cookie_op) : cookie :=
  match op with
  | CkSession e => make_cookie cfg host (c_cookie_name cfg) e
  | CkCsrf e => make_cookie cfg host (c_cookie_name cfg ++ csrf_suffix) e
  end.

(* http.isCookieNameValid: Cookie.String returns "" (no header added) otherwise *)
Definition cookie_name_valid (n : str) : bool :=
  match n with [] => false | _ => forallb is_token_byte n end.

(* ------------------------------------------------------------------------------------------ *)
(* response-header operations a handler performs after the middleware chain *)

Inductive hop :=
| OpCookie (op : cookie_op)     (* http.SetCookie: Header().Add("Set-Cookie", c.String()) *)
| OpSet (k v : str)             (* Header().Set(k, v) *)
| OpHttpError.                  (* http.Error: Del Content-Length, Set Content-Type, Set X-Content-Type-Options: nosniff *)

Definition apply_op (cfg : config) (host : str) (h : hdr hval) (o : hop) : hdr hval :=
  match o with
  | OpCookie op =>
      let c := cookie_of_op cfg host op in
      if cookie_name_valid (ck_name c) then hadd k_set_cookie (VCookie c) h else h
  | OpSet k v => hset k (VStr v) h
  | OpHttpError =>
      hset k_xcto (VStr v_nosniff)
        (hset k_content_type (VStr (bs "text/plain; charset=utf-8")) (hdel k_content_length h))
  end.

(* ------------------------------------------------------------------------------------------ *)
(* the request, as far as this property looks at it *)

Record request := {
  q_scheme : str;      (* req.URL.Scheme *)
  q_xfp : str;         (* req.Header.Get("X-Forwarded-Proto") *)
  q_host : str;        (* req.Host *)
  q_path : str;        (* req.URL.Path (decoded) *)
  q_rawquery : str;    (* req.URL.RawQuery *)
  q_get : bool         (* method is GET or HEAD *)
}.

Definition s_https : str := bs "https".

(* middleware.go:42 *)
Definition needs_redirect (q : request) : bool :=
  negb (str_eqb (q_scheme q) s_https) && negb (str_eqb (q_xfp q) s_https).

(* net/url shouldEscape for encodeHost and encodePath *)
Definition unreserved_marks : list N := [45;95;46;126].                      (* - _ . ~ *)
Definition host_extra : list N := [33;36;38;39;40;41;42;43;44;59;61;58;91;93;60;62;34].
Definition path_extra : list N := [36;38;43;44;47;58;59;61;64].             (* $ & + , / : ; = @ *)
Definition should_escape_host (c : N) : bool :=
  negb (is_alnum c || mem_byte c host_extra || mem_byte c unreserved_marks).
Definition should_escape_path (c : N) : bool :=
  negb (is_alnum c || mem_byte c unreserved_marks || mem_byte c path_extra).

Definition hex_digit (upper : bool) (n : N) : N :=
  if n <? 10 then 48 + n else (if upper then 55 else 87) + n.
Definition pct (upper : bool) (c : N) : str := [37; hex_digit upper (c / 16); hex_digit upper (c mod 16)].
Definition escape (should : N -> bool) (s : str) : str :=
  flat_map (fun c => if should c then pct true c else [c]) s.
(* http.hexEscapeNonASCII *)
Definition hex_escape_non_ascii (s : str) : str :=
  flat_map (fun c => if 128 <=? c then pct false c else [c]) s.

(* URL.EscapedPath with RawPath = "" *)
Definition escaped_path (p : str) : str :=
  if str_eqb p [42] then [42] else escape should_escape_path p.

Definition is_nil {A} (l : list A) : bool := match l with [] => true | _ => false end.

(* (&url.URL{Scheme: "https", Host: req.Host, Path: req.URL.Path, RawQuery: req.URL.RawQuery}).String() *)
Definition https_dest (q : request) : str :=
  let p := escaped_path (q_path q) in
  bs "https:" ++
  (if negb (is_nil (q_host q)) || negb (is_nil (q_path q)) then [47;47] else []) ++
  escape should_escape_host (q_host q) ++
  (match p with c :: _ => if negb (N.eqb c 47) && negb (is_nil (q_host q)) then [47] else [] | [] => [] end) ++
  p ++
  (if is_nil (q_rawquery q) then [] else 63 :: q_rawquery q).

(* http.Redirect(rw, req, dest.String(), 301) *)
Definition redirect_ops (q : request) : list hop :=
  OpSet k_location (hex_escape_non_ascii (https_dest q)) ::
  (if q_get q then [OpSet k_content_type (bs "text/html; charset=utf-8")] else []).

(* percent-decoding (specification side: used to state what the redirect target denotes) *)
Definition hex_val (c : N) : option N :=
  if is_digit c then Some (c - 48)
  else if (65 <=? c) && (c <=? 70) then Some (c - 55)
  else if (97 <=? c) && (c <=? 102) then Some (c - 87)
  else None.
Fixpoint unescape (s : str) : option str :=
  match s with
  | [] => Some []
  | c :: s' =>
      if N.eqb c 37 then
        match s' with
        | a :: b :: s'' =>
            match hex_val a, hex_val b, unescape s'' with
            | Some x, Some y, Some r => Some ((16 * x + y) :: r)
            | _, _, _ => None
            end
        | _ => None
        end
      else match unescape s' with Some r => Some (c :: r) | None => None end
  end.

(* ------------------------------------------------------------------------------------------ *)
(* what the upstream answers *)

Record upstream := {
  u_n1xx : nat;                         (* number of 1xx informational responses before the final one *)
  u_status : N;
  u_lines : list (str * str);           (* header field lines of the final response (name, value) *)
  u_announced : list str;               (* field names announced in its Trailer header *)
  u_trailers : list (str * str)         (* trailer field lines after the chunked body *)
}.

Inductive result :=
| Resp (status : N) (h : hdr hval)
| NoResponse.                           (* the handler panics with ErrAbortHandler: connection dropped *)

Definition forbidden_trailers : list str := [bs "Transfer-Encoding"; bs "Trailer"; bs "Content-Length"].

(* reverseproxy.go:532-551: after the body, res.Trailer (announced keys minus those ModifyResponse
   deleted, merged with the received trailer fields) is copied into the writer's header map
   as is when every received key was announced, with http.TrailerPrefix otherwise *)
(* res.Trailer's keys after ModifyResponse: the announced names minus the deleted ones *)
Definition ann_after (tdeleted announced : list str) : list str :=
  filter (fun k => negb (mem_str k (map canon tdeleted))) (map canon announced).

Definition trailers_into {A} (tdeleted announced : list str) (tr h : hdr A) : hdr A :=
  let ann := ann_after tdeleted announced in
  if forallb (fun kvs => mem_str (fst kvs) ann) tr then copy_header h tr
  else fold_left (fun d kvs => fold_left (fun d v => hadd (trailer_prefix ++ fst kvs) v d) (snd kvs) d) tr h.

(* reverseproxy.go:509-516: the Trailer header is rebuilt from res.Trailer's keys (after ModifyResponse) *)
Definition announce (ann : list str) (h : hdr hval) : hdr hval :=
  match ann with
  | [] => h
  | _ => hadd k_trailer (VStr (join [44;32] ann)) h   (* key order is map order in Go; never compared *)
  end.

(* ReverseProxy.ServeHTTP behind (replace = true) or not behind http.TimeoutHandler.
   [outer] is the header map of the real ResponseWriter when the reverse proxy is entered. *)
Definition forward (deleted tdeleted : list str) (replace : bool) (u : upstream) (outer : hdr hval) : result :=
  match read_lines VStr (u_lines u) [] with
  | None => Resp 502 outer                                     (* transport error: default ErrorHandler *)
  | Some uh0 =>
      if existsb (fun k => mem_str (canon k) forbidden_trailers) (u_announced u) then Resp 502 outer
      else
        let uh := fold_left (fun h k => hdel k h) deleted (remove_hop hval_str uh0) in
        match read_lines VStr (u_trailers u) [] with
        | None => NoResponse
        | Some tr =>
            if replace then
              (* the reverse proxy writes into timeoutWriter's private map tw.h (1xx responses are
                 copied into it and cleared again); on completion tw.h is assigned key-wise *)
              let tw := trailers_into tdeleted (u_announced u) tr
                          (announce (ann_after tdeleted (u_announced u)) (copy_header [] uh)) in
              Resp (u_status u) (merge_replace outer tw)
            else
              (* Got1xxResponse: copyHeader(h, 1xx header); rw.WriteHeader(code); clear(h) — on the
                 real writer's map, which already holds what the middleware chain set *)
              let outer1 := match u_n1xx u with O => outer | S _ => [] end in
              (* headers are sent at WriteHeader; trailers copied later do not change them *)
              Resp (u_status u) (announce (ann_after tdeleted (u_announced u)) (copy_header outer1 uh))
        end
  end.

(* What the CLIENT receives in the chunked trailer section for field name k (these are not
   response header fields). net/http server, response.finalTrailers (server.go): every key
   "Trailer:"+k of the handler's header map, then, for names declared in the Trailer header at
   WriteHeader time, the map's values for k when the handler returns.
   Behind TimeoutHandler everything is merged into the real map before WriteHeader; otherwise the
   reverse proxy copies the upstream's trailers into the real map after the body. Assumes the
   upstream's configuration does not itself override "Trailer". *)
Definition trailer_get (declared : list str) (hf : hdr hval) (k : str) : list hval :=
  hget (trailer_prefix ++ k) hf ++ (if mem_str k declared then hget k hf else []).

Definition forward_trailers (deleted tdeleted : list str) (replace : bool) (u : upstream) (outer : hdr hval)
    (k : str) : list hval :=
  match read_lines VStr (u_lines u) [] with
  | None => []
  | Some uh0 =>
      if existsb (fun k => mem_str (canon k) forbidden_trailers) (u_announced u) then []
      else
        let uh := fold_left (fun h k => hdel k h) deleted (remove_hop hval_str uh0) in
        let ann := ann_after tdeleted (u_announced u) in
        match read_lines VStr (u_trailers u) [] with
        | None => []
        | Some tr =>
            if replace then
              trailer_get ann (merge_replace outer
                (trailers_into tdeleted (u_announced u) tr (announce ann (copy_header [] uh)))) k
            else
              let outer1 := match u_n1xx u with O => outer | S _ => [] end in
              trailer_get ann (trailers_into tdeleted (u_announced u) tr (announce ann (copy_header outer1 uh))) k
        end
  end.

(* ------------------------------------------------------------------------------------------ *)
(* outcome classes of the per-upstream handler (oauthproxy.go) *)

Inductive lclass :=
| LSignIn                 (* OAuthStart: 302 to the provider (no / bad / expired / foreign session) *)
| LErrorPage (code : N)   (* ErrorPage: 400 / 401 / 403 / 500 html *)
| LXhr (code : N)         (* XHRError: JSON *)
| LCallbackOk             (* OAuthCallback: session saved, 302 back *)
| LSignOut                (* SignOut: 302 to the provider's sign_out *)
| LCerts | LRobots
| LFavicon404
| LAuthOnly202 | LAuthOnly401     (* /oauth2/auth *)
| LMuxRedirect            (* gorilla/mux clean-path 301 *)
| LBadGateway             (* ReverseProxy ErrorHandler: 502 *)
| LTimeout.               (* TimeoutHandler: 503 *)

Definition lclass_status (c : lclass) : N :=
  match c with
  | LSignIn => 302 | LErrorPage code => code | LXhr code => code | LCallbackOk => 302
  | LSignOut => 302 | LCerts => 200 | LRobots => 200 | LFavicon404 => 404
  | LAuthOnly202 => 202 | LAuthOnly401 => 401 | LMuxRedirect => 301
  | LBadGateway => 502 | LTimeout => 503
  end.

Definition html_ct : str := bs "text/html; charset=utf-8".
Definition lclass_ops (c : lclass) (loc : str) (get : bool) : list hop :=
  let redirect := OpSet k_location loc :: (if get then [OpSet k_content_type html_ct] else []) in
  match c with
  | LSignIn | LCallbackOk | LSignOut => redirect                    (* http.Redirect *)
  | LMuxRedirect => [OpSet k_location loc]                          (* mux.Router.ServeHTTP: Header().Set("Location"); WriteHeader(301) *)
  | LXhr _ => [OpSet k_content_type (bs "application/json")]
  | LAuthOnly401 => [OpHttpError]
  | _ => []
  end.

Inductive outcome :=
| OLocal (c : lclass) (cookies : list cookie_op) (user : option str) (loc : str)
| OForward (cookies : list cookie_op) (user : option str) (u : upstream).

Definition pre_ops (cookies : list cookie_op) (user : option str) : list hop :=
  map OpCookie cookies ++ match user with Some e => [OpSet k_user e] | None => [] end.

(* oauthproxy.go:139-161: what setSecurityHeaders, the overrides and requireHTTPS put into the
   header map before the router runs *)
Definition chain_headers (tbl : list (str * str)) (hsts : str * str) (cfg : config) : hdr hval :=
  let h2 := set_all VStr (c_overrides cfg) (set_all VStr tbl []) in
  if c_secure cfg then hset (fst hsts) (VStr (snd hsts)) h2 else h2.

Definition proxy_handle (tbl : list (str * str)) (hsts : str * str) (deleted tdeleted : list str)
    (cfg : config) (q : request) (o : outcome) : result :=
  let h := chain_headers tbl hsts cfg in
  if c_secure cfg && needs_redirect q then
    Resp 301 (fold_left (apply_op cfg (q_host q)) (redirect_ops q) h)
  else
    match o with
    | OLocal c cookies user loc =>
        Resp (lclass_status c)
             (fold_left (apply_op cfg (q_host q)) (pre_ops cookies user ++ lclass_ops c loc (q_get q)) h)
    | OForward cookies user u =>
        forward deleted tdeleted (c_replace cfg) u (fold_left (apply_op cfg (q_host q)) (pre_ops cookies user) h)
    end.

(* trailer fields the client receives for name k: only a forwarded response has any *)
Definition proxy_trailers (tbl : list (str * str)) (hsts : str * str) (deleted tdeleted : list str)
    (cfg : config) (q : request) (o : outcome) (k : str) : list hval :=
  if c_secure cfg && needs_redirect q then []
  else
    match o with
    | OLocal _ _ _ _ => []
    | OForward cookies user u =>
        forward_trailers deleted tdeleted (c_replace cfg) u
          (fold_left (apply_op cfg (q_host q)) (pre_ops cookies user) (chain_headers tbl hsts cfg)) k
    end.

(* ------------------------------------------------------------------------------------------ *)
(* PROTECTIVENESS of a header value (specification, not code): what "hardened" means for the values
   themselves, so that a weakened table is a violation while strengthening (longer max-age, DENY
   instead of SAMEORIGIN, extra headers) is not. k is the canonical key.
     X-Content-Type-Options     = nosniff                                   (ASCII case-insensitive)
     X-Frame-Options            in {DENY, SAMEORIGIN}                        (case-insensitive)
     X-Xss-Protection           starts with "1"
     Strict-Transport-Security  has a directive max-age=<decimal> with value >= 15768000 (six months);
                                directives separated by ';', optional spaces, names case-insensitive
     Content-Security-Policy    non-empty, has a default-src directive, and contains none of
                                "*", "unsafe-inline", "unsafe-eval"            (sso-auth only)
     Referrer-Policy            non-empty and neither unsafe-url nor no-referrer-when-downgrade (sso-auth only)
     any other header           no requirement *)
Fixpoint contains_sub (s p : str) : bool :=
  has_prefix s p || match s with [] => false | _ :: s' => contains_sub s' p end.

Definition six_months : N := 15768000.
Definition max_age_ok (directive : str) : bool :=
  let d := lower_ascii (trim directive) in
  has_prefix d (bs "max-age=") &&
  (let n := skipn 8 d in negb (is_nil n) && forallb is_digit n && (six_months <=? dec_value 0 n)).

Definition k_csp : str := bs "Content-Security-Policy".
Definition k_referrer : str := bs "Referrer-Policy".

Definition protective (k v : str) : bool :=
  let lv := lower_ascii v in
  if str_eqb k k_xcto then str_eqb lv (bs "nosniff")
  else if str_eqb k k_xfo then str_eqb lv (bs "deny") || str_eqb lv (bs "sameorigin")
  else if str_eqb k k_xxp then match v with c :: _ => N.eqb c 49 | [] => false end
  else if str_eqb k k_hsts then existsb max_age_ok (split_on 59 v)
  else if str_eqb k k_csp then
    negb (is_nil v) && contains_sub lv (bs "default-src") &&
    negb (contains_sub lv [42]) && negb (contains_sub lv (bs "unsafe-inline")) && negb (contains_sub lv (bs "unsafe-eval"))
  else if str_eqb k k_referrer then
    negb (is_nil v) && negb (str_eqb lv (bs "unsafe-url")) && negb (str_eqb lv (bs "no-referrer-when-downgrade"))
  else true.

(* ------------------------------------------------------------------------------------------ *)
(* sso-auth: setHeaders(serviceMux) — the table is Set before any handler of the mux runs; the
   handlers Set other keys, add cookies, or call http.Error *)

Inductive aop :=
| ASet (k v : str)
| AAddCookie (line : str)
| AHttpError.

Definition apply_aop (h : hdr hval) (o : aop) : hdr hval :=
  match o with
  | ASet k v => hset k (VStr v) h
  | AAddCookie l => hadd k_set_cookie (VStr l) h
  | AHttpError =>
      hset k_xcto (VStr v_nosniff)
        (hset k_content_type (VStr (bs "text/plain; charset=utf-8")) (hdel k_content_length h))
  end.

Definition auth_handle (tbl : list (str * str)) (ops : list aop) : hdr hval :=
  fold_left apply_aop ops (set_all VStr tbl []).

(* cmd/sso-auth/main.go:46-60 (after d58c694): the process serves
     NewLoggingHandler( SetSecurityHeaders( http.TimeoutHandler( authMux, server.timeout.request, "" ) ) )
   where authMux's service routes run setHeaders again inside (authenticator.go:107-121).
   SetSecurityHeaders Sets the table on the REAL writer's map; TimeoutHandler runs the mux on a
   private map: when the deadline fires first (fired = true) it writes 503 to the real writer (the
   map holds the table); otherwise the private map is assigned key-wise over the real one.
   The logging handler (internal/auth/logging_handler.go:30-40) deletes GAP-Auth before the header is written. *)
Definition k_gap_auth : str := bs "Gap-Auth".
Definition auth_process (tbl : list (str * str)) (fired : bool) (ops : list aop) : hdr hval :=
  let outer := set_all VStr tbl [] in
  hdel k_gap_auth (if fired then outer else merge_replace outer (auth_handle tbl ops)).
