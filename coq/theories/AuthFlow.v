(* AuthFlow.v — model of the browser-facing flows of sso-auth (C09):

     internal/auth/authenticator.go   authenticate            169-242
                                      SignIn                  246-281
                                      ProxyOAuthRedirect      284-363
                                      OAuthStart              459-495
                                      redeemCode              497-512
                                      getOAuthCallback        514-614
                                      OAuthCallback           616-631
     internal/auth/mux.go             the single validator    22-27
                                      route wrappers          authenticator.go:107-121
     internal/auth/error.go           codeForError            26-40
     internal/auth/providers          RefreshSessionIfNeeded  google.go:392-409, okta.go:372-388
                                      RefreshAccessToken      google.go:412-435, okta.go:391-413
                                      ValidateSessionState    google.go:120-135, okta.go:108-133
                                      googleRequest/oktaRequest status mapping
                                                              google.go:159-236, okta.go:152-241
     internal/pkg/sessions            isExpired (strict Before(now)), LoadSession, SaveSession

   Conventions (DESIGN.md §3). Instants and durations are whole seconds in Z. The AEAD is
   symbolic: a cookie or code is [CkSealed k s]; it opens under key k' iff k = k'. What the
   property does not ask us to verify enters as an explicit argument, never as an axiom:
     - the verdicts of validRedirectURI / validSignature / client-id gate (C07, C08 own their
       internals) are booleans of the request;
     - JSON decoding of IdP bodies: a reply carries the decoded fields or [None];
     - base64 decoding of the callback's [state] parameter: the request carries the decoded bytes;
     - strings.ToLower inside the e-mail validators: the [lower] parameter (as in Validators.v).
   Branches that exist in the Go code but cannot be reached are listed where they are omitted.
   No proofs in this file. *)
From V Require Import Base Validators.
Local Open Scope Z_scope.

(* ------------------------------------------------------------------------------------------ *)
(* sessions, symbolic sealing                                                                 *)

(* the fields of sessions.SessionState the authenticator reads or writes *)
Record session := mkS {
  s_email : str; s_access : str; s_rtok : str;
  s_refresh : Z;      (* RefreshDeadline  *)
  s_lifetime : Z      (* LifetimeDeadline *)
}.

(* KCookie: SESSION_COOKIE_SECRET (options.go:143-156); KCode: SESSION_KEY, the auth-code
   cipher; KOther: any key the authenticator does not hold *)
Inductive key := KCookie | KCode | KOther.
Definition key_eqb (a b : key) : bool :=
  match a, b with KCookie, KCookie | KCode, KCode | KOther, KOther => true | _, _ => false end.

(* what the request carries under the session cookie's name *)
Inductive cookie := CkNone | CkJunk | CkSealed (k : key) (s : session).

Definition open_sealed (k : key) (c : cookie) : option session :=
  match c with CkSealed k' s => if key_eqb k k' then Some s else None | _ => None end.

(* errors that travel from authenticate to SignIn's switch *)
Inductive auth_err :=
| ENoCookie           (* http.ErrNoCookie *)
| EInvalidSession     (* sessions.ErrInvalidSession *)
| ELifetimeExpired    (* sessions.ErrLifetimeExpired *)
| ETokenRevoked       (* providers.ErrTokenRevoked *)
| EBadRequest         (* providers.ErrBadRequest *)
| ERateLimited        (* providers.ErrRateLimitExceeded *)
| EUnavailable        (* providers.ErrServiceUnavailable *)
| ENotAuthorized      (* auth.ErrUserNotAuthorized *)
| EOther.             (* any other error value: transport error, JSON error, ... *)

Definition auth_err_eqb (a b : auth_err) : bool :=
  match a, b with
  | ENoCookie, ENoCookie | EInvalidSession, EInvalidSession | ELifetimeExpired, ELifetimeExpired
  | ETokenRevoked, ETokenRevoked | EBadRequest, EBadRequest | ERateLimited, ERateLimited
  | EUnavailable, EUnavailable | ENotAuthorized, ENotAuthorized | EOther, EOther => true
  | _, _ => false
  end.

(* CookieStore.LoadSession, cookie_store.go:139-153 *)
Definition load_session (c : cookie) : auth_err + session :=
  match c with
  | CkNone => inl ENoCookie
  | _ => match open_sealed KCookie c with Some s => inr s | None => inl EInvalidSession end
  end.

(* session_state.go:34-53: isExpired t = t.Before(now), strict *)
Definition is_expired (now t : Z) : bool := t <? now.
Definition lifetime_expired (now : Z) (s : session) : bool := is_expired now (s_lifetime s).
Definition refresh_expired (now : Z) (s : session) : bool := is_expired now (s_refresh s).

Definition is_nil {A} (l : list A) : bool := match l with [] => true | _ => false end.

(* ------------------------------------------------------------------------------------------ *)
(* identity provider                                                                          *)

Inductive pkind := Google | Okta | Cognito.
(* a request the IdP received, with the credential it was asked about *)
Inductive idp_call :=
| CallRefresh (rtok : str)      (* token endpoint, grant_type=refresh_token, refresh_token=rtok *)
| CallValidate (tok : str)      (* tokeninfo / introspect, for access token tok *)
| CallRedeem (code : str).      (* token endpoint, grant_type=authorization_code *)
Definition idp_call_eqb (a b : idp_call) : bool :=
  match a, b with
  | CallRefresh x, CallRefresh y | CallValidate x, CallValidate y | CallRedeem x, CallRedeem y => str_eqb x y
  | _, _ => false
  end.

(* strings.Contains *)
Fixpoint contains (s sub : str) : bool :=
  has_prefix s sub || match s with [] => false | _ :: s' => contains s' sub end.

(* "Token expired or revoked" *)
Definition google_revoked_text : str :=
  [84;111;107;101;110;32;101;120;112;105;114;101;100;32;111;114;32;114;101;118;111;107;101;100]%N.
(* "token is invalid or expired" *)
Definition okta_revoked_text : str :=
  [116;111;107;101;110;32;105;115;32;105;110;118;97;108;105;100;32;111;114;32;101;120;112;105;114;101;100]%N.

(* google.go:212-219 (exact match), okta.go:216-223 (lower-cased substring; descriptions are
   ASCII in every case the harness sends, so ASCII folding is strings.ToLower) *)
Definition revoked_text (p : pkind) (desc : str) : bool :=
  match p with
  | Google | Cognito => str_eqb desc google_revoked_text       (* amazon_cognito.go:222-229: same text *)
  | Okta => contains (lower_ascii desc) okta_revoked_text
  end.

(* A reply of the token endpoint to a refresh request. [RStatus st jerr jtok]: HTTP status,
   [jerr] = the body's error_description when the body decodes as a JSON object (oracle),
   [jtok] = (access_token, expires_in) when it decodes into the token struct (oracle). *)
Inductive refresh_reply := RReset | RStatus (st : N) (jerr : option str) (jtok : option (str * Z)).

(* googleRequest / oktaRequest: error for a non-200 status *)
Definition idp_status_error (p : pkind) (st : N) (jerr : option str) : option auth_err :=
  if N.eqb st 200 then None
  else if N.eqb st 400 then
    match jerr with
    | Some d => if revoked_text p d then Some ETokenRevoked else Some EBadRequest
    | None => Some EBadRequest
    end
  else if N.eqb st 429 then Some ERateLimited
  else Some EUnavailable.

(* RefreshAccessToken *)
Definition refresh_access_token (p : pkind) (r : refresh_reply) : auth_err + (str * Z) :=
  match r with
  | RReset => inl EOther                                   (* httpClient.Do error *)
  | RStatus st jerr jtok =>
      match idp_status_error p st jerr with
      | Some e => inl e
      | None => match jtok with Some te => inr te | None => inl EOther (* json.Unmarshal error *) end
      end
  end.

Inductive refresh_result := RfErr (e : auth_err) | RfNotRefreshed | RfRefreshed (s : session).

(* RefreshSessionIfNeeded (identical in Google and Okta): returns the IdP calls made too.
   Only AccessToken and RefreshDeadline are assigned. *)
Definition refresh_session_if_needed (p : pkind) (now : Z) (s : session) (r : refresh_reply)
  : list idp_call * refresh_result :=
  if negb (refresh_expired now s) || is_nil (s_rtok s) then ([], RfNotRefreshed)
  else match refresh_access_token p r with
       | inl e => ([CallRefresh (s_rtok s)], RfErr e)
       | inr (tok, dur) =>
           ([CallRefresh (s_rtok s)],
            RfRefreshed (mkS (s_email s) tok (s_rtok s) (now + dur) (s_lifetime s)))
       end.

(* A reply of the validation endpoint. [json_ok]/[active]: the body decodes and its "active"
   field (Okta's introspection); Google's tokeninfo body is not decoded. *)
Inductive validate_reply := VReset | VStatus (st : N) (json_ok active : bool).

Definition idp_validates (p : pkind) (v : validate_reply) : bool :=
  match v with
  | VReset => false
  | VStatus st j a =>
      N.eqb st 200 && match p with
                      | Google => true          (* tokeninfo: body not decoded *)
                      | Okta => j && a          (* introspect: JSON with active:true *)
                      | Cognito => j            (* userInfo (amazon_cognito.go:128-140,403-420): JSON must decode *)
                      end
  end.

(* ValidateSessionState: no call at all for an empty access token *)
Definition validate_session_state (p : pkind) (s : session) (v : validate_reply)
  : list idp_call * bool :=
  if is_nil (s_access s) then ([], false) else ([CallValidate (s_access s)], idp_validates p v).

(* ------------------------------------------------------------------------------------------ *)
(* configuration and the e-mail rule                                                          *)

Record config := mkCfg {
  c_addresses : list str;   (* AUTHORIZE_EMAIL_ADDRESSES *)
  c_domains : list str;     (* AUTHORIZE_EMAIL_DOMAINS *)
  c_lifetime_ttl : Z        (* SESSION_LIFETIME *)
}.

Section Flow.
Variable lower : str -> str.

(* mux.go:22-27: ONE validator: addresses if any are configured, otherwise domains *)
Definition auth_validators (cfg : config) : list vkind :=
  match c_addresses cfg with
  | [] => [VDomain (new_domain_validator lower (c_domains cfg))]
  | a => [VAddress (new_address_validator lower a)]
  end.

(* RunValidators + "len(errors) == len(p.Validators)" (authenticator.go:231-236, 587-601):
   denied iff every validator failed *)
Definition rule_passes (cfg : config) (email : str) : bool :=
  let vs := auth_validators cfg in
  negb (Nat.eqb (length (filter (fun v => negb (run_validator lower email GroupsErr v)) vs))
                (length vs)).

(* ------------------------------------------------------------------------------------------ *)
(* authenticate, authenticator.go:169-242                                                     *)

Inductive cookie_op := OpClear | OpSet (s : session).

Record auth_out := mkAO {
  ao_res : auth_err + session;
  ao_ops : list cookie_op;        (* Set-Cookie headers for the session cookie, in order *)
  ao_calls : list idp_call
}.

(* SaveSession's error branches (212, 227) are omitted: MarshalSession of a SessionState
   cannot fail (JSON of strings and times, then AEAD seal). *)
Definition auth_authenticate (cfg : config) (p : pkind) (now : Z) (c : cookie)
    (rr : refresh_reply) (vr : validate_reply) : auth_out :=
  match load_session c with
  | inl e => mkAO (inl e) [OpClear] []
  | inr s =>
    if lifetime_expired now s then mkAO (inl ELifetimeExpired) [OpClear] []
    else
      let after_save (s' : session) (calls : list idp_call) :=
        if rule_passes cfg (s_email s') then mkAO (inr s') [OpSet s'] calls
        else mkAO (inl ENotAuthorized) [OpSet s'] calls in
      if refresh_expired now s then
        match refresh_session_if_needed p now s rr with
        | (calls, RfErr e) => mkAO (inl e) [OpClear] calls
        | (calls, RfNotRefreshed) => mkAO (inl ENotAuthorized) [OpClear] calls
        | (calls, RfRefreshed s') => after_save s' calls
        end
      else
        match validate_session_state p s vr with
        | (calls, false) => mkAO (inl ENotAuthorized) [OpClear] calls
        | (calls, true) => after_save s calls
        end
  end.

(* error.go:26-40 *)
Definition code_for_error (e : auth_err) : N :=
  match e with
  | EBadRequest => 400
  | ETokenRevoked => 401
  | ERateLimited => 429
  | EUnavailable => 503
  | ENotAuthorized => 401
  | _ => 500
  end%N.

(* ------------------------------------------------------------------------------------------ *)
(* /sign_in: route wrappers, SignIn, ProxyOAuthRedirect                                       *)

(* what a /sign_in request looks like to the flow. The three gate verdicts are computed by
   middleware.go (validateClientID, validateRedirectURI, validateSignature): C07/C08 *)
Record si_request := mkSI {
  si_get : bool;           (* method is GET *)
  si_client_ok : bool;     (* client_id equals the configured proxy client id *)
  si_redirect_ok : bool;   (* validRedirectURI(redirect_uri, ProxyRootDomains) *)
  si_sig_ok : bool;        (* validSignature(redirect_uri, sig, ts, client secret) *)
  si_state : str           (* the state parameter *)
}.

Inductive body := BodySignInPage | BodyErrorPage | BodyRedirect.

Record response := mkR {
  r_status : N;
  r_body : body;
  r_code : option session;     (* Some s: Location carries code= sealing s under KCode *)
  r_ops : list cookie_op;
  r_calls : list idp_call
}.

Definition error_page (st : N) (ops : list cookie_op) (calls : list idp_call) : response :=
  mkR st BodyErrorPage None ops calls.

(* ProxyOAuthRedirect, 284-343. Omitted, unreachable behind validateRedirectURI: empty
   redirect_uri (311-316) and unparsable redirect_uri (318-324); MarshalSession error and
   getAuthCodeRedirectURL error (326-340: re-parsing a URL that url.Parse produced). *)
Definition proxy_oauth_redirect (rq : si_request) (s : session) (ops : list cookie_op)
    (calls : list idp_call) : response :=
  if is_nil (si_state rq) then error_page 403 ops calls
  else mkR 302 BodyRedirect (Some s) ops calls.

(* SignIn, 246-281 *)
Definition sign_in (cfg : config) (p : pkind) (now : Z) (rq : si_request) (c : cookie)
    (rr : refresh_reply) (vr : validate_reply) : response :=
  let a := auth_authenticate cfg p now c rr vr in
  match ao_res a with
  | inr s => proxy_oauth_redirect rq s (ao_ops a) (ao_calls a)
  | inl ENoCookie => mkR 200 BodySignInPage None (ao_ops a) (ao_calls a)
  | inl ETokenRevoked | inl ELifetimeExpired | inl EInvalidSession =>
      mkR 200 BodySignInPage None (ao_ops a ++ [OpClear]) (ao_calls a)
  | inl e => error_page (code_for_error e) (ao_ops a) (ao_calls a)
  end.

(* SignIn's dispatch on its own (the same switch as in [sign_in]) *)
Definition sign_in_dispatch (rq : si_request) (a : auth_out) : response :=
  match ao_res a with
  | inr s => proxy_oauth_redirect rq s (ao_ops a) (ao_calls a)
  | inl ENoCookie => mkR 200 BodySignInPage None (ao_ops a) (ao_calls a)
  | inl ETokenRevoked | inl ELifetimeExpired | inl EInvalidSession =>
      mkR 200 BodySignInPage None (ao_ops a ++ [OpClear]) (ao_calls a)
  | inl e => error_page (code_for_error e) (ao_ops a) (ao_calls a)
  end.

(* Concurrency. SingleFlightProvider (singleflight_middleware.go:76-114) coalesces concurrent
   ValidateSessionState calls for the same ACCESS token (the follower receives the leader's
   verdict: the same outcome as a call of its own, one IdP call fewer) and concurrent
   RefreshSessionIfNeeded calls for the same REFRESH token: the follower receives the leader's
   (true, nil) or error, but the closure refreshed the LEADER's session object, so after a
   successful coalesced refresh the follower continues with its own session UNTOUCHED (old
   access token, old refresh deadline), saves it and passes it to the validators. [None]: the
   request cannot be a refresh follower. *)
Definition auth_authenticate_follower (cfg : config) (now : Z) (c : cookie) : option auth_out :=
  match load_session c with
  | inr s =>
      if negb (lifetime_expired now s) && refresh_expired now s && negb (is_nil (s_rtok s))
      then Some (if rule_passes cfg (s_email s) then mkAO (inr s) [OpSet s] []
                 else mkAO (inl ENotAuthorized) [OpSet s] [])
      else None
  | inl _ => None
  end.

Definition sign_in_route_follower (cfg : config) (now : Z) (rq : si_request) (c : cookie)
  : option response :=
  if si_get rq && si_client_ok rq && si_redirect_ok rq && si_sig_ok rq
  then option_map (sign_in_dispatch rq) (auth_authenticate_follower cfg now c)
  else None.

(* newMux, 112: withMethods(validateClientID(validateRedirectURI(validateSignature(SignIn))), GET).
   ParseForm failures (500/400) are not modelled: the harness sends well-formed queries. *)
Definition sign_in_route (cfg : config) (p : pkind) (now : Z) (rq : si_request) (c : cookie)
    (rr : refresh_reply) (vr : validate_reply) : response :=
  if negb (si_get rq) then error_page 405 [] []
  else if negb (si_client_ok rq) then error_page 401 [] []
  else if negb (si_redirect_ok rq) then error_page 400 [] []
  else if negb (si_sig_ok rq) then error_page 400 [] []
  else sign_in cfg p now rq c rr vr.

(* ------------------------------------------------------------------------------------------ *)
(* /start, 459-495                                                                            *)

Record start_request := mkST {
  st_get : bool;
  st_outer_ok : bool;      (* validRedirectURI(redirect_uri)            (465) *)
  st_inner_ok : bool;      (* validRedirectURI(nested redirect_uri)     (479) *)
  st_sig_ok : bool;        (* validSignature(nested redirect, sig, ts)  (487) *)
  st_redirect : str        (* authRedirectURL.String() *)
}.

Definition colon : N := 58%N.

Record start_response := mkSR {
  sr_status : N;
  sr_csrf_set : option str;      (* value of the CSRF cookie set by this response *)
  sr_state : option str          (* plaintext of the state handed to the IdP (before base64) *)
}.

(* the nonce is set as CSRF cookie BEFORE anything is validated (462-463) *)
Definition oauth_start (nonce : str) (rq : start_request) : start_response :=
  if negb (st_get rq) then mkSR 405%N None None
  else if negb (st_outer_ok rq) then mkSR 400%N (Some nonce) None
  else if negb (st_inner_ok rq) then mkSR 400%N (Some nonce) None
  else if negb (st_sig_ok rq) then mkSR 400%N (Some nonce) None
  else mkSR 302%N (Some nonce) (Some (nonce ++ colon :: st_redirect rq)).

(* ------------------------------------------------------------------------------------------ *)
(* /callback, 497-631                                                                         *)

(* strings.SplitN(s, ":", 2): None when there is no colon (len(s) != 2) *)
Fixpoint split_first_colon (s : str) : option (str * str) :=
  match s with
  | [] => None
  | c :: s' =>
      if N.eqb c colon then Some ([], s')
      else match split_first_colon s' with
           | Some (a, b) => Some (c :: a, b)
           | None => None
           end
  end.

(* what provider.Redeem hands back (its parsers are C10's subject): an error, or the e-mail,
   tokens and expires_in it extracted *)
Inductive redeem_reply := RdErr | RdTokens (email access rtok : str) (expires_in : Z).

Record cb_request := mkCB {
  cb_get : bool;
  cb_error : str;                    (* form value "error" *)
  cb_code : str;                     (* form value "code" *)
  cb_state : option str;             (* base64.URLEncoding.DecodeString(state): oracle *)
  cb_csrf : option str;              (* value of the CSRF cookie, None when absent *)
  cb_redirect_ok : str -> bool       (* validRedirectURI(_, ProxyRootDomains) *)
}.

Record cb_response := mkCR {
  cr_status : N;
  cr_location : option str;          (* redirect target on success *)
  cr_saved : option session;         (* SaveSession *)
  cr_csrf_cleared : bool;
  cr_calls : list idp_call
}.

Definition cb_error_page (st : N) (cleared : bool) (calls : list idp_call) : cb_response :=
  mkCR st None None cleared calls.

(* Redeem (google.go:296-337, okta.go:258-297): deadlines from ExtendDeadline *)
Definition redeemed_session (cfg : config) (now : Z) (email access rtok : str) (dur : Z) : session :=
  mkS email access rtok (now + dur) (now + c_lifetime_ttl cfg).

Definition oauth_callback (cfg : config) (now : Z) (rq : cb_request) (rd : redeem_reply)
  : cb_response :=
  if negb (cb_get rq) then cb_error_page 405 false []
  else if negb (is_nil (cb_error rq)) then cb_error_page 403 false []          (* 530-535 *)
  else if is_nil (cb_code rq) then cb_error_page 400 false []                   (* 537-540 *)
  else
    match rd with                                                               (* 541-548 *)
    | RdErr => cb_error_page 500 false [CallRedeem (cb_code rq)]
    | RdTokens email access rtok dur =>
      if is_nil email then cb_error_page 500 false [CallRedeem (cb_code rq)]                 (* 508-510 *)
      else
        let s := redeemed_session cfg now email access rtok dur in
        match cb_state rq with
        | None => cb_error_page 500 false [CallRedeem (cb_code rq)]                          (* 550-553 *)
        | Some plain =>
          match split_first_colon plain with
          | None => cb_error_page 500 false [CallRedeem (cb_code rq)]                        (* 554-559 *)
          | Some (nonce, redirect) =>
            match cb_csrf rq with
            | None => cb_error_page 403 false [CallRedeem (cb_code rq)]                      (* 562-567 *)
            | Some cv =>
              if negb (str_eqb cv nonce) then cb_error_page 403 true [CallRedeem (cb_code rq)]     (* 568-575 *)
              else if negb (cb_redirect_ok rq redirect) then cb_error_page 403 true [CallRedeem (cb_code rq)]
              else if negb (rule_passes cfg email) then cb_error_page 403 true [CallRedeem (cb_code rq)]
              else mkCR 302 (Some redirect) (Some s) true [CallRedeem (cb_code rq)]          (* 606-613, 630 *)
            end
          end
        end
    end.

(* ------------------------------------------------------------------------------------------ *)
(* AuthWorld: the authenticator over time. The adversary is the network/browser side: it may
   let time pass, run IdP callbacks, and send /sign_in requests presenting ANY cookie issued
   so far (or a forgery, which under the symbolic AEAD is never a seal under KCookie), with
   any IdP behaviour. *)

Record world := mkW {
  w_now : Z;
  w_issued : list session;            (* every session cookie value ever set, newest first *)
  w_logins : list Z;                  (* instants at which a callback created a session *)
  w_codes : list (Z * session)        (* (instant, session) of every code issued *)
}.

Definition world0 (t0 : Z) : world := mkW t0 [] [] [].

Inductive presented :=
| PIssued (i : nat)                   (* the i-th issued cookie, 0 = newest *)
| PForged (k : key) (s : session)     (* sealed by the attacker: never under KCookie *)
| PJunk
| PNone.

Definition present (w : world) (pc : presented) : cookie :=
  match pc with
  | PIssued i => match nth_error (w_issued w) i with Some s => CkSealed KCookie s | None => CkNone end
  | PForged KCookie _ => CkJunk
  | PForged k s => CkSealed k s
  | PJunk => CkJunk
  | PNone => CkNone
  end.

Inductive event :=
| EvTick (d : N)
| EvCallback (rq : cb_request) (rd : redeem_reply)
| EvSignIn (p : pkind) (rq : si_request) (pc : presented) (rr : refresh_reply) (vr : validate_reply).

Fixpoint sets_of (ops : list cookie_op) : list session :=
  match ops with
  | [] => []
  | OpClear :: r => sets_of r
  | OpSet s :: r => sets_of r ++ [s]
  end.

Definition step (cfg : config) (w : world) (e : event) : world :=
  match e with
  | EvTick d => mkW (w_now w + Z.of_N d) (w_issued w) (w_logins w) (w_codes w)
  | EvCallback rq rd =>
      match cr_saved (oauth_callback cfg (w_now w) rq rd) with
      | Some s => mkW (w_now w) (s :: w_issued w) (w_now w :: w_logins w) (w_codes w)
      | None => w
      end
  | EvSignIn p rq pc rr vr =>
      let r := sign_in_route cfg p (w_now w) rq (present w pc) rr vr in
      mkW (w_now w) (sets_of (r_ops r) ++ w_issued w) (w_logins w)
          (match r_code r with Some s => (w_now w, s) :: w_codes w | None => w_codes w end)
  end.

Definition run (cfg : config) (w : world) (evs : list event) : world := fold_left (step cfg) evs w.

(* ------------------------------------------------------------------------------------------ *)
(* BrowserWorld: one browser with a cookie jar talking to the authenticator.

   The jar models BROWSER behaviour (RFC 6265 §5.3, steps 11-12): a Set-Cookie whose expiry
   (Expires in the past, or Max-Age <= 0) has already passed REMOVES the cookie of that name;
   any other Set-Cookie STORES it — also when its value is empty. Every later request carries
   exactly what the jar holds. This is what makes ClearCSRF (cookie_store.go:118-121: empty
   value, Expires one hour ago) a deletion, and what would make SetCSRF("") a live empty cookie. *)

Record set_cookie := mkSC { sc_value : str; sc_expired : bool }.

Definition jar_apply (jar : option str) (sc : set_cookie) : option str :=
  if sc_expired sc then None else Some (sc_value sc).
Definition jar_apply_all (jar : option str) (l : list set_cookie) : option str :=
  fold_left jar_apply l jar.

(* SetCSRF (cookie_store.go:123-126): value = nonce, Expires = now + CookieExpire (7 days) *)
Definition start_set_cookies (r : start_response) : list set_cookie :=
  match sr_csrf_set r with Some n => [mkSC n false] | None => [] end.
(* ClearCSRF: value "", Expires = now - 1h *)
Definition callback_set_cookies (r : cb_response) : list set_cookie :=
  if cr_csrf_cleared r then [mkSC [] true] else [].
(* ClearSession expires the session cookie; SaveSession stores it *)
Definition sess_jar_apply (jar : option session) (op : cookie_op) : option session :=
  match op with OpClear => None | OpSet s => Some s end.

Record bworld := mkBW {
  bw_now : Z;
  bw_csrf : option str;         (* jar: the CSRF cookie *)
  bw_sess : option session;     (* jar: the session cookie (always a seal under KCookie) *)
  bw_starts : list str          (* ghost: nonces this browser received from /start, newest first *)
}.
Definition bworld0 (t0 : Z) : bworld := mkBW t0 None None [].

Inductive bevent :=
| BvTick (d : N)
| BvStart (nonce : str) (rq : start_request)         (* nonce: the server's random choice *)
| BvCallback (rq : cb_request) (rd : redeem_reply)    (* cb_csrf of rq is IGNORED: the jar decides *)
| BvSignIn (p : pkind) (rq : si_request) (rr : refresh_reply) (vr : validate_reply).

Definition with_csrf (rq : cb_request) (v : option str) : cb_request :=
  mkCB (cb_get rq) (cb_error rq) (cb_code rq) (cb_state rq) v (cb_redirect_ok rq).

Definition jar_cookie (j : option session) : cookie :=
  match j with Some s => CkSealed KCookie s | None => CkNone end.

Definition bstep (cfg : config) (w : bworld) (e : bevent) : bworld :=
  match e with
  | BvTick d => mkBW (bw_now w + Z.of_N d) (bw_csrf w) (bw_sess w) (bw_starts w)
  | BvStart nonce rq =>
      let r := oauth_start nonce rq in
      mkBW (bw_now w) (jar_apply_all (bw_csrf w) (start_set_cookies r)) (bw_sess w)
           (match sr_csrf_set r with Some n => n :: bw_starts w | None => bw_starts w end)
  | BvCallback rq rd =>
      let r := oauth_callback cfg (bw_now w) (with_csrf rq (bw_csrf w)) rd in
      mkBW (bw_now w) (jar_apply_all (bw_csrf w) (callback_set_cookies r))
           (match cr_saved r with Some s => Some s | None => bw_sess w end) (bw_starts w)
  | BvSignIn p rq rr vr =>
      let r := sign_in_route cfg p (bw_now w) rq (jar_cookie (bw_sess w)) rr vr in
      mkBW (bw_now w) (bw_csrf w) (fold_left sess_jar_apply (r_ops r) (bw_sess w)) (bw_starts w)
  end.

Definition brun (cfg : config) (w : bworld) (evs : list bevent) : bworld := fold_left (bstep cfg) evs w.

End Flow.
