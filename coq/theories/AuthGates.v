(* AuthGates.v — sso-auth's redirect gates (C07), after the code that exists:
     internal/auth/authenticator.go:74-80    root domains normalised to a leading dot
     internal/auth/middleware.go:126-137     validRedirectURI
     internal/auth/middleware.go:158-188     validSignature, redirectURLSignature
     internal/auth/middleware.go:37-50,104-156  withMethods, validateRedirectURI, validateSignature
     internal/auth/middleware.go:54-78       validateClientID (only its verdict enters here; C08 owns it)
     internal/auth/authenticator.go:107-121  route table
     internal/auth/authenticator.go:246-363  SignIn, ProxyOAuthRedirect, getAuthCodeRedirectURL
     internal/auth/authenticator.go:366-455  SignOut, SignOutPage
     internal/auth/authenticator.go:459-495  OAuthStart
     internal/auth/authenticator.go:514-629  getOAuthCallback, OAuthCallback
   strconv.ParseInt(s, 10, 64), fmt.Sprint(int64), time.Unix / Time.Sub are modelled concretely.
   HMAC-SHA256 is an ideal primitive: [Mac k m] is a free constructor (a definition, not an axiom).
   Library behaviour C07 does not decide enters a request as explicit oracle fields.
   No proofs in this file. *)
From V Require Import Base Url.

(* ---------- root domains ---------- *)
Definition c_dot : N := 46.
(* strings.TrimLeft(d, ".") *)
Fixpoint trim_left_dots (d : str) : str :=
  match d with
  | c :: r => if N.eqb c c_dot then trim_left_dots r else d
  | [] => []
  end.
(* authenticator.go:74-80 *)
Definition norm_domain (d : str) : str := if has_prefix d [c_dot] then d else c_dot :: d.
Definition norm_domains (ds : list str) : list str := map norm_domain ds.

(* ---------- validRedirectURI, middleware.go:126-137 ---------- *)
Definition domain_match (hn d : str) : bool := has_suffix hn d || str_eqb hn (trim_left_dots d).
Definition valid_redirect_uri (uri : str) (ds : list str) : bool :=
  match go_parse uri with
  | None => false
  | Some u => negb (is_nil uri) && negb (is_nil (u_host u)) && existsb (domain_match (hostname u)) ds
  end.

(* ---------- strconv.ParseInt(s, 10, 64) ---------- *)
Definition digit_val (c : N) : Z := (Z.of_N c - 48)%Z.
Definition digits_val (s : str) : Z := fold_left (fun acc c => (acc * 10 + digit_val c)%Z) s 0%Z.
Definition two63 : Z := (2 ^ 63)%Z.
Definition parse_int (s : str) : option Z :=
  match s with
  | [] => None                                             (* ErrSyntax *)
  | c :: r =>
      let '(neg, digs) := if N.eqb c 43 then (false, r)    (* leading + *)
                          else if N.eqb c 45 then (true, r) (* leading - *)
                          else (false, s) in
      if is_nil digs || negb (forallb is_digit digs) then None   (* ErrSyntax; base 10: no underscores *)
      else let v := digits_val digs in
           if neg then (if (v <=? two63)%Z then Some (- v)%Z else None)      (* ErrRange *)
           else (if (v <? two63)%Z then Some v else None)
  end.

(* ---------- fmt.Sprint(int64): canonical decimal ---------- *)
Fixpoint dec_aux (fuel : nat) (n : N) (acc : str) : str :=
  let acc' := (48 + n mod 10) :: acc in
  match fuel with
  | O => acc'
  | S f => if n <? 10 then acc' else dec_aux f (n / 10) acc'
  end.
(* fuel: the number of binary digits bounds the number of decimal digits *)
Definition dec_N (n : N) : str := dec_aux (N.to_nat (N.size n)) n [].
Definition dec (z : Z) : str :=
  match z with
  | Z0 => [48]
  | Zpos p => dec_N (Npos p)
  | Zneg p => 45 :: dec_N (Npos p)
  end.

(* ---------- symbolic HMAC ---------- *)
Inductive tag := Mac (k m : str) | Raw (b : str).
Definition tag_eqb (a b : tag) : bool :=
  match a, b with
  | Mac k m, Mac k' m' => str_eqb k k' && str_eqb m m'
  | Raw x, Raw y => str_eqb x y
  | _, _ => false
  end.
(* the "sig" form value after base64.URLEncoding.DecodeString (a library oracle: the case says
   whether Go's decoder failed, and names the decoded bytes symbolically) *)
Inductive sigval := SigAbsent | SigBad | SigTag (t : tag).

(* ---------- time: time.Unix(i, 0), time.Now().Sub(tm) > 5 min ---------- *)
(* Instants are nanoseconds since the Unix epoch (Z). time.Unix stores i + unixToInternal in an
   int64 (wrap-around); Sub saturates at +-2^63 ns but keeps the sign, and 300 s is far inside
   the range, so "Sub(..) > ttl" is the comparison of the exact difference. *)
Definition unix_to_internal : Z := 62135596800%Z.
Definition wrap64 (z : Z) : Z := ((z + two63) mod (2 ^ 64) - two63)%Z.
Definition tm_internal (t : Z) : Z := wrap64 (t + unix_to_internal).
Definition ns : Z := (10 ^ 9)%Z.
Definition ttl_ns : Z := (300 * ns)%Z.
Definition too_old (now_ns t : Z) : bool :=
  (now_ns + unix_to_internal * ns - tm_internal t * ns >? ttl_ns)%Z.

(* ---------- validSignature, middleware.go:158-181 ---------- *)
(* tm.Unix() in redirectURLSignature undoes the int64 wrap exactly, and whenever the wrap
   happens [too_old] has already rejected, so the signed text is uri ++ dec t. *)
Definition valid_signature (now_ns : Z) (uri : str) (sg : sigval) (ts secret : str) : bool :=
  match sg with
  | SigAbsent => false                                          (* sigVal == "" *)
  | SigBad => false                                             (* base64 error (after the emptiness and url.Parse tests, which also answer false) *)
  | SigTag tg =>
      if is_nil uri || is_nil ts || is_nil secret then false
      else match go_parse uri with
           | None => false
           | Some _ =>
               match parse_int ts with
               | None => false
               | Some t =>
                   if too_old now_ns t then false
                   else tag_eqb tg (Mac secret (uri ++ dec t))  (* hmac.Equal *)
               end
           end
  end.

(* ---------- configuration and requests ---------- *)
Record config := {
  c_domains : list str;         (* authorize.proxy.domains as configured *)
  c_secret : str;               (* client "proxy" secret *)
  c_client_id : str;
  c_scheme : str                (* server.scheme, written into the code redirect *)
}.
Definition root_domains (c : config) : list str := norm_domains (c_domains c).

Inductive meth := GET | POST | MOther.
Inductive session := SessNone | SessBad | SessGood.   (* LoadSession: ErrNoCookie / ErrInvalidSession / ok *)
(* req.Form.Get("state") of /callback after base64 decoding and SplitN(":", 2) *)
Inductive cb_state := StBad | StNoColon | StPair (nonce redirect : str).

Record request := {
  q_meth : meth;
  q_form_ok : bool;             (* req.ParseForm() succeeded *)
  q_client_id : str;            (* what validateClientID reads *)
  q_uri : str;                  (* Form.Get("redirect_uri") *)
  q_sig : sigval;               (* Form.Get("sig"), decoded (for /start: the nested one) *)
  q_ts : str;
  q_state : str;
  q_session : session;
  q_provider_valid : bool;      (* provider.ValidateSessionState *)
  q_revoke_ok : bool;           (* provider.Revoke *)
  q_query_ok : bool;            (* url.ParseQuery of the redirect's RawQuery succeeds *)
  (* /start: url.Parse(x).String() of the outer and of the nested redirect_uri (None = Parse error) *)
  q_outer : option str;
  q_nested : option str;
  (* /callback *)
  q_cb_error : bool;            (* "error" parameter present *)
  q_cb_code_empty : bool;
  q_cb_redeem_ok : bool;        (* provider.Redeem succeeded with a non-empty e-mail *)
  q_cb_state : cb_state;
  q_cb_csrf : option str;       (* value of the CSRF cookie *)
  q_cb_user_ok : bool           (* validators accept the redeemed session *)
}.

Inductive how := Verbatim | WithCode.
Inductive outcome :=
| OErr (status : N)                   (* error page *)
| OPage (status : N)                  (* sign-in / sign-out page *)
| ORedirect (src : str) (h : how)     (* 302, Location derived from the caller-supplied [src] *)
| OIdP (carried : str).               (* 302 to the identity provider; state carries [carried] *)

(* ---------- handlers ---------- *)
(* ProxyOAuthRedirect + getAuthCodeRedirectURL, authenticator.go:284-363 *)
Definition proxy_oauth_redirect (q : request) : outcome :=
  if negb (q_form_ok q) then OErr 500
  else if is_nil (q_state q) then OErr 403
  else if is_nil (q_uri q) then OErr 403
  else match go_parse (q_uri q) with
       | None => OErr 400
       | Some _ => if negb (q_query_ok q) then OErr 500 else ORedirect (q_uri q) WithCode
       end.

(* SignIn, authenticator.go:246-281 (authenticate reduced to the three session situations the
   driver sets up; the full ladder is C09's) *)
Definition sign_in_handler (q : request) : outcome :=
  match q_session q with
  | SessNone | SessBad => OPage 200
  | SessGood => if q_provider_valid q then proxy_oauth_redirect q else OErr 401
  end.

(* SignOut + SignOutPage, authenticator.go:366-455 *)
Definition sign_out_handler (q : request) : outcome :=
  match q_meth q with
  | GET => match q_session q with
           | SessGood => OPage 200
           | _ => ORedirect (q_uri q) Verbatim
           end
  | _ => match q_session q with
         | SessGood => if q_revoke_ok q then ORedirect (q_uri q) Verbatim else OPage 500
         | _ => ORedirect (q_uri q) Verbatim
         end
  end.

(* the two redirect middlewares, middleware.go:104-156 *)
Definition gate_redirect_uri (c : config) (q : request) (k : outcome) : outcome :=
  if negb (q_form_ok q) then OErr 400
  else if negb (valid_redirect_uri (q_uri q) (root_domains c)) then OErr 400
  else k.
Definition gate_signature (c : config) (now_ns : Z) (q : request) (k : outcome) : outcome :=
  if negb (q_form_ok q) then OErr 400
  else if negb (valid_signature now_ns (q_uri q) (q_sig q) (q_ts q) (c_secret c)) then OErr 400
  else k.
Definition gate_client_id (c : config) (q : request) (k : outcome) : outcome :=
  if negb (q_form_ok q) then OErr 500
  else if negb (str_eqb (q_client_id q) (c_client_id c)) then OErr 401
  else k.
Definition gate_methods (allowed : list meth) (q : request) (k : outcome) : outcome :=
  if existsb (fun m => match m, q_meth q with GET, GET | POST, POST => true | _, _ => false end) allowed
  then k else OErr 405.

(* OAuthStart, authenticator.go:459-495 *)
Definition oauth_start (c : config) (now_ns : Z) (q : request) : outcome :=
  match q_outer q with
  | None => OErr 400
  | Some a =>
      if negb (valid_redirect_uri a (root_domains c)) then OErr 400
      else match q_nested q with
           | None => OErr 400
           | Some b =>
               if negb (valid_redirect_uri b (root_domains c)) then OErr 400
               else if negb (valid_signature now_ns b (q_sig q) (q_ts q) (c_secret c)) then OErr 400
               else OIdP a
           end
  end.

(* getOAuthCallback + OAuthCallback, authenticator.go:514-629 *)
Definition oauth_callback (c : config) (q : request) : outcome :=
  if negb (q_form_ok q) then OErr 500
  else if q_cb_error q then OErr 403
  else if q_cb_code_empty q then OErr 400
  else if negb (q_cb_redeem_ok q) then OErr 500
  else match q_cb_state q with
       | StBad | StNoColon => OErr 500
       | StPair nonce redirect =>
           match q_cb_csrf q with
           | None => OErr 403
           | Some v =>
               if negb (str_eqb v nonce) then OErr 403
               else if negb (valid_redirect_uri redirect (root_domains c)) then OErr 403
               else if negb (q_cb_user_ok q) then OErr 403
               else ORedirect redirect Verbatim
           end
       end.

(* ---------- route table, authenticator.go:107-121 (the four browser-facing routes) ---------- *)
Inductive endpoint := EpStart | EpSignIn | EpSignOut | EpCallback.

Definition serve (c : config) (now_ns : Z) (ep : endpoint) (q : request) : outcome :=
  match ep with
  | EpStart => gate_methods [GET] q (oauth_start c now_ns q)
  | EpSignIn =>
      gate_methods [GET] q (gate_client_id c q (gate_redirect_uri c q (gate_signature c now_ns q
        (sign_in_handler q))))
  | EpSignOut =>
      gate_methods [GET; POST] q (gate_redirect_uri c q (gate_signature c now_ns q (sign_out_handler q)))
  | EpCallback => gate_methods [GET] q (oauth_callback c q)
  end.

(* ---------- what is written into the Location header ---------- *)
(* Verbatim: http.Redirect(rw, req, src) -> hexEscapeNonASCII(src) (src has a host, so the
   relative-URL branch of http.Redirect is not taken).
   WithCode: u.String() of the re-parsed redirect with Scheme overwritten; only the part up to
   the end of the authority is predicted (what follows starts with "/" or "?"). *)
Definition location_prefix (c : config) (o : outcome) : option str :=
  match o with
  | ORedirect src Verbatim => Some (hex_escape_non_ascii src)
  | ORedirect src WithCode =>
      match go_parse src with
      | Some u => Some (hex_escape_non_ascii (authority_string (c_scheme c) u))
      | None => None
      end
  | _ => None
  end.

Definition status_of (o : outcome) : N :=
  match o with OErr s | OPage s => s | ORedirect _ _ | OIdP _ => 302 end.

(* ---------- specification vocabulary used by the C07 statements (definitions only) ---------- *)
(* [hn] is a configured root domain or a subdomain of one; leading dots of the configured
   name do not count (authenticator.go:74-80 adds one, middleware.go:132 trims them) *)
Definition in_domain (hn : str) (cfg : list str) : Prop :=
  exists c, In c cfg /\ (hn = trim_left_dots c \/ exists p, hn = p ++ c_dot :: trim_left_dots c).

(* Dolev-Yao reading of "only the proxy can produce MACs under the client secret": a presented
   MAC under [secret] was issued by the proxy for some (URI, time). It is an explicit hypothesis
   about the presented value in the theorems that use it, not an axiom. *)
Definition issued_only (secret : str) (issued : list (str * Z)) (sg : sigval) : Prop :=
  forall m, sg = SigTag (Mac secret m) -> exists u0 t0, In (u0, t0) issued /\ m = u0 ++ dec t0.

(* the last byte of a signed URI is not a decimal digit (true of the two shapes the proxy signs:
   scheme://host/oauth2/callback and scheme://host/ — oauthproxy.go:165-179, 300-312) *)
Definition ends_nondigit (u : str) : Prop := exists p c, u = p ++ [c] /\ is_digit c = false.

(* [uri] presented with timestamp text [ts] carries a MAC that the proxy issued for a pair whose
   signed text (URI followed by decimal time) is the same, and the presented time is fresh *)
Definition signed_fresh (now_ns : Z) (issued : list (str * Z)) (uri ts : str) : Prop :=
  exists u0 t0 t, In (u0, t0) issued /\ parse_int ts = Some t /\
                  u0 ++ dec t0 = uri ++ dec t /\ (now_ns - t * ns <= ttl_ns)%Z.

(* ================= the request on the wire: Request.ParseForm precedence =================
   The record [request] above is the request AS READ by gates and handlers. What the client
   sends is a query string and (possibly) a body; which value a Form.Get returns is decided by
   net/http's Request.ParseForm (request.go: parsePostForm, ParseForm):
     - the body is read only for POST/PUT/PATCH with Content-Type application/x-www-form-urlencoded
       (multipart bodies are read by ParseMultipartForm only, which nothing here calls once
       ParseForm has run; a missing Content-Type counts as application/octet-stream);
     - r.Form = body pairs, then the URL query pairs appended per key, so Form.Get(k) is the first
       body value of k if there is one, else the first query value;
     - req.URL.Query().Get(k) is the first query value.
   Every gate and every handler of the four routes reads through req.Form.Get (middleware.go:113,
   147-149; authenticator.go:305,313,369,426,434-435,538,545,556); validateClientID uses
   req.FormValue after ParseForm (= Form.Get) and falls back to the query when that is empty
   (middleware.go:64-68); OAuthStart reads req.URL.Query() (authenticator.go:464).
   Decoding that is not C07's (base64 of sig, base64+SplitN of state, url.Parse(..).String() and
   URL.Query() of the /start values, url.ParseQuery of the redirect's query) enters as tables keyed
   by the raw parameter value. *)
Inductive ctype := CtUrlencoded | CtMultipart | CtNone | CtOther.

Record start_info := {
  si_outer : option str;        (* url.Parse(x).String(), None = Parse error *)
  si_raw_nested : str;          (* authRedirectURL.Query().Get("redirect_uri") *)
  si_nested : option str;       (* url.Parse(nested).String() *)
  si_sig : sigval;              (* authRedirectURL.Query().Get("sig"), decoded *)
  si_ts : str
}.
Definition no_start : start_info :=
  {| si_outer := None; si_raw_nested := []; si_nested := None; si_sig := SigAbsent; si_ts := [] |}.

Record wire := {
  w_meth : meth;
  w_form_ok : bool;                        (* req.ParseForm() succeeded *)
  w_ctype : ctype;
  w_query : list (str * str);              (* URL query pairs, in order *)
  w_body : list (str * str);               (* urlencoded body pairs, in order *)
  w_sigtab : list (str * sigval);          (* raw sig value -> base64-decoded, symbolic *)
  w_statetab : list (str * cb_state);      (* raw state value -> decoded and split *)
  w_starttab : list (str * start_info);    (* raw /start redirect_uri value -> what OAuthStart derives *)
  w_qoktab : list (str * bool);            (* raw redirect_uri value -> its query passes url.ParseQuery *)
  w_session : session;
  w_provider_valid : bool;
  w_revoke_ok : bool;
  w_cb_redeem_ok : bool;
  w_cb_csrf : option str;
  w_cb_user_ok : bool
}.

Definition k_redirect_uri : str := [114;101;100;105;114;101;99;116;95;117;114;105].
Definition k_sig : str := [115;105;103].
Definition k_ts : str := [116;115].
Definition k_state : str := [115;116;97;116;101].
Definition k_client_id : str := [99;108;105;101;110;116;95;105;100].
Definition k_error : str := [101;114;114;111;114].
Definition k_code : str := [99;111;100;101].

(* url.Values.Get on an ordered pair list: first value of the key, "" when absent *)
Fixpoint get_first (k : str) (pairs : list (str * str)) : str :=
  match pairs with
  | [] => []
  | (a, b) :: r => if str_eqb a k then b else get_first k r
  end.
Fixpoint assoc_tab {A} (k : str) (t : list (str * A)) : option A :=
  match t with [] => None | (a, b) :: t' => if str_eqb a k then Some b else assoc_tab k t' end.

Definition body_read (w : wire) : bool :=
  match w_meth w, w_ctype w with POST, CtUrlencoded => true | _, _ => false end.
Definition form_pairs (w : wire) : list (str * str) :=
  (if body_read w then w_body w else []) ++ w_query w.
Definition form_get (w : wire) (k : str) : str := get_first k (form_pairs w).      (* req.Form.Get *)
Definition query_get (w : wire) (k : str) : str := get_first k (w_query w).        (* req.URL.Query().Get *)

Definition sig_lookup (t : list (str * sigval)) (raw : str) : sigval :=
  if is_nil raw then SigAbsent else match assoc_tab raw t with Some v => v | None => SigBad end.
(* base64 of "" is the empty string, which has no colon *)
Definition state_lookup (t : list (str * cb_state)) (raw : str) : cb_state :=
  if is_nil raw then StNoColon else match assoc_tab raw t with Some v => v | None => StBad end.
(* url.Parse("") succeeds with an empty URL: String() = "", no nested parameters *)
Definition empty_start : start_info :=
  {| si_outer := Some []; si_raw_nested := []; si_nested := Some []; si_sig := SigAbsent; si_ts := [] |}.
Definition start_lookup (t : list (str * start_info)) (raw : str) : start_info :=
  if is_nil raw then empty_start else match assoc_tab raw t with Some i => i | None => no_start end.
Definition qok_lookup (t : list (str * bool)) (raw : str) : bool :=
  match assoc_tab raw t with Some b => b | None => true end.

(* what the gates and handlers of route [ep] read from the wire request *)
Definition request_of_wire (ep : endpoint) (w : wire) : request :=
  let start := start_lookup (w_starttab w) (query_get w k_redirect_uri) in
  let is_start := match ep with EpStart => true | _ => false end in
  let uri := form_get w k_redirect_uri in
  {| q_meth := w_meth w;
     q_form_ok := w_form_ok w;
     q_client_id := (let v := form_get w k_client_id in if is_nil v then query_get w k_client_id else v);
     q_uri := uri;
     q_sig := if is_start then si_sig start else sig_lookup (w_sigtab w) (form_get w k_sig);
     q_ts := if is_start then si_ts start else form_get w k_ts;
     q_state := form_get w k_state;
     q_session := w_session w;
     q_provider_valid := w_provider_valid w;
     q_revoke_ok := w_revoke_ok w;
     q_query_ok := qok_lookup (w_qoktab w) uri;
     q_outer := if is_start then si_outer start else None;
     q_nested := if is_start then si_nested start else None;
     q_cb_error := negb (is_nil (form_get w k_error));
     q_cb_code_empty := is_nil (form_get w k_code);
     q_cb_redeem_ok := w_cb_redeem_ok w;
     q_cb_state := state_lookup (w_statetab w) (form_get w k_state);
     q_cb_csrf := w_cb_csrf w;
     q_cb_user_ok := w_cb_user_ok w |}.

Definition serve_wire (c : config) (now_ns : Z) (ep : endpoint) (w : wire) : outcome :=
  serve c now_ns ep (request_of_wire ep w).

(* every value of key [k] the client put anywhere in the request (query or body, read or not) *)
Definition values_of (k : str) (pairs : list (str * str)) : list str :=
  map snd (filter (fun p => str_eqb (fst p) k) pairs).
Definition presented (w : wire) (k : str) : list str := values_of k (w_body w ++ w_query w).

(* ================= the outermost handler: NewAuthenticatorMux (mux.go:21-100) =================
   cmd/sso-auth serves through AuthenticatorMux: setHealthCheck("/ping") in front of a hostmux router
   whose only static route is the configured server host (anything else: 421 Misdirected Request),
   behind it a path router: /<slug>/... -> the authenticator's ServeMux (prefix stripped),
   /robots.txt, /static/. Only the three kinds of path the C07 driver sends are modelled; request
   headers (X-Forwarded-*, Forwarded, ...) play no role in the code as it is. *)
Inductive outer_path := OpPing | OpRobots | OpRoute (ep : endpoint).

Definition outer_serve (c : config) (server_host req_host : str) (p : outer_path)
           (now_ns : Z) (w : wire) : outcome :=
  match p with
  | OpPing => OPage 200                                   (* before host routing *)
  | OpRobots => if str_eqb req_host server_host then OPage 200 else OErr 421
  | OpRoute ep => if str_eqb req_host server_host then serve_wire c now_ns ep w else OErr 421
  end.
