(* Callback.v — sso-proxy OAuthStart / OAuthCallback (internal/proxy/oauthproxy.go:316-386, 391-523,
   182-196; cookie store internal/pkg/sessions/cookie_store.go; cipher internal/pkg/aead/aead.go).

   Cryptography is symbolic (DESIGN §3): [Seal key nonce payload] is a free constructor; a sealed
   value opens only under its own key.  What travels in the state parameter and in the CSRF cookie
   is a STRING; [wire] describes strings by what base64url-decoding makes of them:

     WEnc 0 c      the canonical spelling (base64.RawURLEncoding.EncodeToString) of ciphertext c
     WEnc k c, k>0 the k-th other string that Go's non-strict decoder maps to the same bytes
                   (unused trailing bits set, CR/LF inserted) — accepted iff [canon = false]
     WJunk i       any other string (does not decode, or decodes to bytes that were never sealed)

   Two wire values are the same string iff they are equal terms.  [canon] says whether decoding is
   canonical (only the canonical spelling opens): false on the unchanged tree (DESIGN §7-D1, owned
   by C02); the driver probes the real cipher and passes what it finds.

   The proxy seals two kinds of JSON documents under the ONE cookie secret (options.go:44-46:
   csrfStore, sessionStore and cookieCipher are the same store and cipher): StateParameter and
   SessionState.  aead.Unmarshal ends in json.Unmarshal, which ignores unknown fields, so a sealed
   SessionState opens "as" a StateParameter with both fields empty: [json_into_state].
   No proofs in this file. *)
From V Require Import Base.

(* StateParameter{SessionID, RedirectURI} (oauthproxy.go:80-84).  The 64-hex-digit SessionID is
   represented by a number: 0 is the empty string, n>0 the id drawn by the n-th draw. *)
Record flow := { f_sid : N; f_redirect : str }.
Definition empty_flow : flow := {| f_sid := 0; f_redirect := [] |}.

(* the two SessionState fields this property observes *)
Record session := { s_email : str; s_upstream : str }.

Inductive payload := PFlow (f : flow) | PSession (s : session).
Inductive sealed := Seal (key nonce : N) (p : payload).
Inductive wire := WEnc (variant : N) (c : sealed) | WJunk (id : N).

Definition flow_eqb (a b : flow) : bool := N.eqb (f_sid a) (f_sid b) && str_eqb (f_redirect a) (f_redirect b).
Definition session_eqb (a b : session) : bool := str_eqb (s_email a) (s_email b) && str_eqb (s_upstream a) (s_upstream b).
Definition payload_eqb (a b : payload) : bool :=
  match a, b with
  | PFlow x, PFlow y => flow_eqb x y
  | PSession x, PSession y => session_eqb x y
  | _, _ => false
  end.
Definition sealed_eqb (a b : sealed) : bool :=
  let 'Seal k n p := a in let 'Seal k' n' p' := b in N.eqb k k' && N.eqb n n' && payload_eqb p p'.
(* Go's string comparison [encryptedState == encryptedCSRF] *)
Definition wire_eqb (a b : wire) : bool :=
  match a, b with
  | WEnc v c, WEnc v' c' => N.eqb v v' && sealed_eqb c c'
  | WJunk i, WJunk j => N.eqb i j
  | _, _ => false
  end.

(* aead.go:126-131 base64.RawURLEncoding.DecodeString *)
Definition b64_decode (canon : bool) (w : wire) : option sealed :=
  match w with
  | WEnc v c => if N.eqb v 0 then Some c else if canon then None else Some c
  | WJunk _ => None
  end.
(* aead.go:74-92 Decrypt *)
Definition aead_open (key : N) (c : sealed) : option payload :=
  let 'Seal k _ p := c in if N.eqb k key then Some p else None.
(* aead.go:139-151 gunzip + json.Unmarshal into *StateParameter: unknown fields are ignored *)
Definition json_into_state (p : payload) : flow :=
  match p with PFlow f => f | PSession _ => empty_flow end.
(* aead.go:124-154 Unmarshal(value, &StateParameter{}) *)
Definition unmarshal_state (canon : bool) (key : N) (w : wire) : option flow :=
  match b64_decode canon w with
  | None => None
  | Some c => match aead_open key c with None => None | Some p => Some (json_into_state p) end
  end.

(* ---- OAuthStart (oauthproxy.go:316-386) ----
   [recorded] is req.URL.String() (ReqUri.v); [sid] the fresh flow id; the SAME record is sealed
   twice, first for the CSRF cookie (nonce n1), then for the state parameter (nonce n2). *)
Record started := { st_flow : flow; st_cookie : sealed; st_state : sealed }.
Definition oauth_start (key sid n1 n2 : N) (recorded : str) : started :=
  let f := {| f_sid := sid; f_redirect := recorded |} in
  {| st_flow := f; st_cookie := Seal key n1 (PFlow f); st_state := Seal key n2 (PFlow f) |}.

(* ---- OAuthCallback (oauthproxy.go:391-523) ---- *)
(* provider.Redeem as an oracle: the authenticator's answer (C08/C09 own what it means) *)
Inductive redeem_answer := RedeemErr | RedeemOk (email : str).

Record cb_req := {
  cb_form_ok : bool;            (* req.ParseForm() returned nil *)
  cb_error : str;               (* req.Form.Get("error") *)
  cb_code : str;                (* req.Form.Get("code") *)
  cb_state : wire;              (* req.Form.Get("state"); an absent parameter is the empty string, a WJunk *)
  cb_cookie : option wire;      (* csrfStore.GetCSRF(req): first cookie named <name>_csrf, if any *)
  cb_host : str;                (* req.Host *)
  cb_redeem : redeem_answer;    (* what the authenticator answers if it is asked *)
  cb_valid : bool               (* len(RunValidators(...)) < len(p.Validators): some validator passed (C11) *)
}.

Definition nil_str (s : str) : bool := match s with [] => true | _ => false end.

(* oauthproxy.go:182-196 redeemCode; the provider is called only for a non-empty code *)
Definition redeem_called (r : cb_req) : bool := cb_form_ok r && nil_str (cb_error r) && negb (nil_str (cb_code r)).
Definition redeem_code (code : str) (ans : redeem_answer) : option str :=
  if nil_str code then None
  else match ans with
       | RedeemErr => None
       | RedeemOk e => if nil_str e then None else Some e
       end.

Inductive cb_result :=
| CbPage (status : N)                       (* ErrorPage: no session cookie, CSRF cookie untouched *)
| CbOk (sess : session) (location : str).   (* SaveSession(sess), ClearCSRF, http.Redirect(location, 302) *)

(* [strict]: does the callback refuse a state record whose SessionID is empty?  false on the
   unchanged tree (there is no such test); true after the three-line repair proposed for finding
   C06-K2 (docs/notes/C06.md), inserted between the unsealing of the state and GetCSRF.  The driver
   probes the real callback once per run and passes what it finds, as for [canon]. *)
Definition oauth_callback (canon strict : bool) (key : N) (r : cb_req) : cb_result :=
  if negb (cb_form_ok r) then CbPage 500                                   (* :401-406 *)
  else if negb (nil_str (cb_error r)) then CbPage 403                      (* :407-413 *)
  else match redeem_code (cb_code r) (cb_redeem r) with                    (* :416-424 *)
  | None => CbPage 500
  | Some email =>
    match unmarshal_state canon key (cb_state r) with                      (* :426-436 *)
    | None => CbPage 500
    | Some st =>
      if strict && N.eqb (f_sid st) 0 then CbPage 400 else                 (* proposed guard; absent today *)
      match cb_cookie r with                                               (* :438-444 *)
      | None => CbPage 400
      | Some cw =>
        match unmarshal_state canon key cw with                            (* :446-456 *)
        | None => CbPage 500
        | Some cs =>
          if wire_eqb (cb_state r) cw then CbPage 400                      (* :458-465 string equality *)
          else if negb (flow_eqb st cs) then CbPage 400                    (* :467-474 reflect.DeepEqual *)
          else if negb (cb_valid r) then CbPage 403                        (* :481-496 *)
          else CbOk {| s_email := email; s_upstream := cb_host r |}        (* :506 AuthorizedUpstream := req.Host *)
                    (f_redirect st)                                        (* :522 *)
        end
      end
    end
  end.

(* ---- the proxy as a history machine ----
   Everything ever sealed under the proxy's key is remembered in [w_issued]; [w_flows] are the flow
   records created by OAuthStart.  Fresh ids and nonces come from one counter (the real code draws
   32 resp. 16 random bytes; freshness is the assumption). *)
Record world := { w_ctr : N; w_flows : list flow; w_issued : list sealed }.
Definition init_world : world := {| w_ctr := 0; w_flows := []; w_issued := [] |}.

Inductive event :=
| EStart (recorded : str)        (* an unauthenticated request reaches OAuthStart; ReqUri.route gives [recorded] *)
| EResave (s : session)          (* any other SaveSession of the proxy (Authenticate after refresh/validate) *)
| ECallback (r : cb_req).        (* any request to /oauth2/callback *)

Definition step (canon strict : bool) (key : N) (w : world) (e : event) : world * option cb_result :=
  match e with
  | EStart u =>
      let n := w_ctr w in
      let s := oauth_start key (n + 1) (n + 1) (n + 2) u in
      ({| w_ctr := n + 2; w_flows := st_flow s :: w_flows w;
          w_issued := st_cookie s :: st_state s :: w_issued w |}, None)
  | EResave s =>
      let n := w_ctr w in
      ({| w_ctr := n + 1; w_flows := w_flows w; w_issued := Seal key (n + 1) (PSession s) :: w_issued w |}, None)
  | ECallback r =>
      let res := oauth_callback canon strict key r in
      match res with
      | CbOk s _ =>
          let n := w_ctr w in
          ({| w_ctr := n + 1; w_flows := w_flows w; w_issued := Seal key (n + 1) (PSession s) :: w_issued w |},
           Some res)
      | CbPage _ => (w, Some res)
      end
  end.

Fixpoint run (canon strict : bool) (key : N) (w : world) (evs : list event) : world :=
  match evs with
  | [] => w
  | e :: evs' => run canon strict key (fst (step canon strict key w e)) evs'
  end.

(* What a client can put on the wire (Dolev-Yao): any string; but a string that decodes to a
   ciphertext under the proxy's key must spell a ciphertext the proxy itself produced (unforgeability
   of the AEAD is C02's subject and part of the trusted base). *)
Definition sealed_in (c : sealed) (l : list sealed) : bool := existsb (sealed_eqb c) l.
Definition wire_derivable (key : N) (issued : list sealed) (w : wire) : bool :=
  match w with
  | WEnc _ (Seal k n p) => negb (N.eqb k key) || sealed_in (Seal k n p) issued
  | WJunk _ => true
  end.
Definition req_derivable (key : N) (issued : list sealed) (r : cb_req) : bool :=
  wire_derivable key issued (cb_state r) &&
  match cb_cookie r with Some cw => wire_derivable key issued cw | None => true end.

(* a history in which every callback request is derivable from what was issued before it *)
Fixpoint admissible (canon strict : bool) (key : N) (w : world) (evs : list event) : bool :=
  match evs with
  | [] => true
  | e :: evs' =>
      (match e with ECallback r => req_derivable key (w_issued w) r | _ => true end) &&
      admissible canon strict key (fst (step canon strict key w e)) evs'
  end.
