(* Validators.v — model of internal/pkg/validators/*.go, the group check of
   internal/proxy/providers/sso.go:168-193 and the three gates that combine them
   (internal/proxy/proxy.go:47-58, oauthproxy.go:481-496, oauthproxy.go:720-733,
   sso.go:264-281,371-394).

   [lower] stands for Go's strings.ToLower (full Unicode case mapping): it is a parameter, so
   every theorem holds for every folding function; the correspondence check instantiates it
   with the table of ToLower results computed by Go for the strings of each case. *)
From V Require Import Base.

Definition star : str := [42].          (* "*" *)
Definition at_sign : N := 64.           (* '@' *)

Section Validators.
Variable lower : str -> str.

(* NewEmailAddressValidator: every entry lower-cased *)
Definition new_address_validator (allowed : list str) : list str := map lower allowed.

(* EmailAddressValidator.Validate, email_address_validator.go:44-73 *)
Definition address_validate (v : list str) (email : str) : bool :=
  match email with
  | [] => false                                   (* ErrInvalidEmailAddress *)
  | _ =>
    match v with
    | [] => false                                 (* ErrEmailAddressDenied *)
    | [x] => if str_eqb x star then true else mem_str (lower email) v
    | _ => mem_str (lower email) v
    end
  end.

(* NewEmailDomainValidator: "*" kept, everything else becomes "@"+lower(domain) *)
Definition new_domain_validator (allowed : list str) : list str :=
  map (fun d => if str_eqb d star then d else at_sign :: lower d) allowed.

(* EmailDomainValidator.Validate, email_domain_validator.go:48-76 *)
Definition domain_validate (v : list str) (email : str) : bool :=
  match email with
  | [] => false
  | _ =>
    match v with
    | [] => false
    | [x] => if str_eqb x star then true else existsb (has_suffix (lower email)) v
    | _ => existsb (has_suffix (lower email)) v
    end
  end.

(* The provider's answer to a /profile question, as seen by ValidateGroup *)
Inductive groups_answer := GroupsOk (gs : list str) | GroupsErr.

(* SSOProvider.ValidateGroup, sso.go:168-193: returns (matched, valid, asked, error) *)
Record group_result := { gr_matched : list str; gr_valid : bool; gr_asked : bool; gr_err : bool }.

Definition validate_group (allowed : list str) (ans : groups_answer) : group_result :=
  match allowed with
  | [] => {| gr_matched := []; gr_valid := true; gr_asked := false; gr_err := false |}
  | [x] =>
      if str_eqb x star then {| gr_matched := []; gr_valid := true; gr_asked := false; gr_err := false |}
      else match ans with
           | GroupsErr => {| gr_matched := []; gr_valid := false; gr_asked := true; gr_err := true |}
           | GroupsOk ug =>
               let m := flat_map (fun u => filter (str_eqb u) allowed) ug in
               {| gr_matched := m; gr_valid := negb (match m with [] => true | _ => false end);
                  gr_asked := true; gr_err := false |}
           end
  | _ => match ans with
         | GroupsErr => {| gr_matched := []; gr_valid := false; gr_asked := true; gr_err := true |}
         | GroupsOk ug =>
             let m := flat_map (fun u => filter (str_eqb u) allowed) ug in
             {| gr_matched := m; gr_valid := negb (match m with [] => true | _ => false end);
                gr_asked := true; gr_err := false |}
         end
  end.

(* EmailGroupValidator.Validate: error and "not member" both fail *)
Definition group_validate (allowed : list str) (ans : groups_answer) : bool :=
  let r := validate_group allowed ans in negb (gr_err r) && gr_valid r.

(* The policy of one upstream, as resolved by configuration *)
Record policy := { p_addresses : list str; p_domains : list str; p_groups : list str }.

Inductive vkind := VAddress (v : list str) | VDomain (v : list str) | VGroup (allowed : list str).

(* proxy.New, proxy.go:47-58: one validator per non-empty list, in this order *)
Definition validators_of (p : policy) : list vkind :=
  (match p_addresses p with [] => [] | a => [VAddress (new_address_validator a)] end) ++
  (match p_domains p with [] => [] | d => [VDomain (new_domain_validator d)] end) ++
  (match p_groups p with [] => [] | g => [VGroup g] end).

Definition run_validator (email : str) (ans : groups_answer) (v : vkind) : bool :=
  match v with
  | VAddress l => address_validate l email
  | VDomain l => domain_validate l email
  | VGroup g => group_validate g ans
  end.

Definition is_group (v : vkind) : bool := match v with VGroup _ => true | _ => false end.

(* OAuthCallback, oauthproxy.go:481-496: denied iff every validator failed
   (len(errors) == len(validators); with no validators at all that is also a denial) *)
Definition login_gate (p : policy) (email : str) (ans : groups_answer) : bool :=
  let vs := validators_of p in
  negb (Nat.eqb (length (filter (fun v => negb (run_validator email ans v)) vs)) (length vs)).

(* Authenticate, oauthproxy.go:720-733: every non-group validator must pass *)
Definition request_gate (p : policy) (email : str) : bool :=
  forallb (fun v => if is_group v then true else run_validator email GroupsErr v) (validators_of p).

(* RefreshSession / ValidateSessionState, sso.go:264-281,371-394: group membership is
   mandatory when groups are configured (and not the lone "*"); an error is a denial here
   (outage grace aside, which is C05's subject). *)
Definition revalidation_gate (p : policy) (ans : groups_answer) : bool :=
  let r := validate_group (p_groups p) ans in negb (gr_err r) && gr_valid r.

End Validators.

(* redeemCode (oauthproxy.go:181-184) rejects an empty e-mail before any validator runs *)
Definition login_admit (lower : str -> str) (p : policy) (email : str) (ans : groups_answer) : bool :=
  match email with [] => false | _ => login_gate lower p email ans end.
