(* Base.v — byte strings and list utilities shared by all models.
   Strings are lists of bytes; a byte is an [N] (values above 255 are never produced by the
   harness; the theorems hold for them too). Keeping strings as plain lists gives us the whole
   List library for proofs. No proofs in this file beyond trivial computation helpers. *)
From Coq Require Export List NArith ZArith Bool Lia.
Export ListNotations.
Open Scope N_scope.

Definition byte := N.
Definition str := list N.

Fixpoint list_eqb {A} (eqb : A -> A -> bool) (a b : list A) : bool :=
  match a, b with
  | [], [] => true
  | x :: a', y :: b' => eqb x y && list_eqb eqb a' b'
  | _, _ => false
  end.

Definition str_eqb (a b : str) : bool := list_eqb N.eqb a b.
Definition strs_eqb (a b : list str) : bool := list_eqb str_eqb a b.

Fixpoint mem_str (x : str) (l : list str) : bool :=
  match l with [] => false | y :: l' => str_eqb x y || mem_str x l' end.

(* strings.HasPrefix *)
Fixpoint has_prefix (s p : str) {struct p} : bool :=
  match p, s with
  | [], _ => true
  | c :: p', d :: s' => N.eqb c d && has_prefix s' p'
  | _ :: _, [] => false
  end.

(* strings.HasSuffix *)
Definition has_suffix (s suf : str) : bool := has_prefix (rev s) (rev suf).

(* ASCII-only lower-casing; full Unicode case folding is a library oracle (see Validators.v) *)
Definition lower_byte (c : N) : N := if (65 <=? c) && (c <=? 90) then c + 32 else c.
Definition lower_ascii (s : str) : str := map lower_byte s.

(* strings.Join *)
Fixpoint join (sep : str) (l : list str) : str :=
  match l with
  | [] => []
  | [x] => x
  | x :: l' => x ++ sep ++ join sep l'
  end.

(* strings.Split on a single byte separator (non-empty separator; never returns []) *)
Fixpoint split_on (sep : N) (s : str) : list str :=
  match s with
  | [] => [[]]
  | c :: s' =>
      if N.eqb c sep then [] :: split_on sep s'
      else match split_on sep s' with
           | [] => [[c]]   (* unreachable *)
           | x :: r => (c :: x) :: r
           end
  end.

(* index helper used by correspondence files: positions of [true] in a list of booleans *)
Fixpoint positions_from (i : nat) (l : list bool) : list nat :=
  match l with
  | [] => []
  | b :: l' => if b then i :: positions_from (Datatypes.S i) l' else positions_from (Datatypes.S i) l'
  end.
Definition positions (l : list bool) : list nat := positions_from 0 l.

Definition bool_eqb (a b : bool) : bool := Bool.eqb a b.

Definition option_eqb {A} (eqb : A -> A -> bool) (a b : option A) : bool :=
  match a, b with
  | None, None => true
  | Some x, Some y => eqb x y
  | _, _ => false
  end.
