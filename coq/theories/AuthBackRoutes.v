(* AuthBackRoutes.v — reads the route table that the translator extracts from the SOURCE of
   Authenticator.newMux (coq/gen/Gen_AuthBackRoutes.v, regenerated on every check) into the
   model's [route] records. No proofs in this file. *)
From V Require Import Base AuthBack Gen_AuthBackRoutes.

Definition n_validateClientID : str := [118;97;108;105;100;97;116;101;67;108;105;101;110;116;73;68]. (* "validateClientID" *)
Definition n_validateClientSecret : str := [118;97;108;105;100;97;116;101;67;108;105;101;110;116;83;101;99;114;101;116]. (* "validateClientSecret" *)
Definition n_GetProfile : str := [71;101;116;80;114;111;102;105;108;101]. (* "GetProfile" *)
Definition n_ValidateToken : str := [86;97;108;105;100;97;116;101;84;111;107;101;110]. (* "ValidateToken" *)
Definition n_Redeem : str := [82;101;100;101;101;109]. (* "Redeem" *)
Definition n_Refresh : str := [82;101;102;114;101;115;104]. (* "Refresh" *)

Definition src_route := (str * list str * list str * str)%type.
Definition src_path (x : src_route) : str := fst (fst (fst x)).
Definition src_methods (x : src_route) : list str := snd (fst (fst x)).
Definition src_wrappers (x : src_route) : list str := snd (fst x).
Definition src_handler (x : src_route) : str := snd x.

(* the four handlers that act on the caller's behalf with tokens / provider calls *)
Definition handler_of_name (n : str) : option handler :=
  if str_eqb n n_GetProfile then Some HProfile
  else if str_eqb n n_ValidateToken then Some HValidate
  else if str_eqb n n_Redeem then Some HRedeem
  else if str_eqb n n_Refresh then Some HRefresh
  else None.

Definition gate_of_name (n : str) : option gate :=
  if str_eqb n n_validateClientID then Some GClientID
  else if str_eqb n n_validateClientSecret then Some GClientSecret
  else None.

(* None: a middleware the back-channel model does not know *)
Fixpoint gates_of (ws : list str) : option (list gate) :=
  match ws with
  | [] => Some []
  | w :: ws' => match gate_of_name w, gates_of ws' with
                | Some g, Some gs => Some (g :: gs)
                | _, _ => None
                end
  end.

(* the source routes that end in a back-channel handler, as model routes, in source order;
   None when one of them is wrapped by something the model does not know *)
Fixpoint translate (l : list src_route) : option (list route) :=
  match l with
  | [] => Some []
  | x :: l' =>
      match handler_of_name (src_handler x) with
      | None => translate l'
      | Some h =>
          match gates_of (src_wrappers x), translate l' with
          | Some gs, Some rs =>
              Some ({| r_path := src_path x; r_methods := src_methods x; r_gates := gs; r_handler := h |} :: rs)
          | _, _ => None
          end
      end
  end.

Fixpoint nodup_b (l : list str) : bool :=
  match l with [] => true | x :: l' => negb (mem_str x l') && nodup_b l' end.

Definition src_back_channel_gated (x : src_route) : bool :=
  match handler_of_name (src_handler x) with
  | None => true
  | Some _ => mem_str n_validateClientID (src_wrappers x) && mem_str n_validateClientSecret (src_wrappers x)
  end.
