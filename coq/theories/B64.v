(* B64.v — Go's base64.RawURLEncoding on byte lists (go1.23.5, encoding/base64/base64.go).

   Encoder: Encoding.Encode (base64.go:145-194) with the URL alphabet (base64.go:133) and
   NoPadding: full 3-byte groups give 4 characters, a 1-byte remainder gives 2 characters, a
   2-byte remainder gives 3 characters, the unused low bits are zero.

   Decoder: Encoding.Decode / decodeQuantum (base64.go:311-398, 511-600), DecodeString (426-430), NoPadding:
     * '\r' and '\n' are skipped wherever they occur (decodeQuantum: `if in == '\n' || in == '\r'
       { j--; continue }`; the 8- and 4-character fast paths fall back to decodeQuantum as soon as one
       character is not in the alphabet);
     * every other character outside the alphabet is an error ('=' included: padChar is NoPadding);
     * 4 sextets give 3 bytes; at the end of input 0 sextets are fine, 1 sextet is an error,
       2 sextets give 1 byte, 3 sextets give 2 bytes;
     * in the default (non-strict) mode the unused low bits of the last sextet are ignored;
       with Encoding.Strict() they must be zero (`enc.strict && dbuf[..] != 0`).
   Strict() does NOT switch off the CR/LF skipping.

   The 3-byte/4-sextet quantum is written arithmetically (x / 4, (x mod 4) * 16 + y / 16, ...)
   instead of with shifts so that lia can reason about it. No proofs in this file. *)
From V Require Import Base.

(* ---- alphabet "ABC...XYZabc...xyz012...789-_" -------------------------------------------- *)
Definition enc_char (v : N) : N :=
  if v <? 26 then 65 + v
  else if v <? 52 then 97 + (v - 26)
  else if v <? 62 then 48 + (v - 52)
  else if v =? 62 then 45      (* '-' *)
  else 95.                     (* '_' ; sextets are < 64 *)

(* decodeMap: Some sextet, or None where the Go table holds 0xff *)
Definition dec_char (c : N) : option N :=
  if (65 <=? c) && (c <=? 90) then Some (c - 65)
  else if (97 <=? c) && (c <=? 122) then Some (c - 97 + 26)
  else if (48 <=? c) && (c <=? 57) then Some (c - 48 + 52)
  else if c =? 45 then Some 62
  else if c =? 95 then Some 63
  else None.

Definition is_crlf (c : N) : bool := (c =? 10) || (c =? 13).

(* ---- encoder ------------------------------------------------------------------------------ *)
Fixpoint to_sextets (b : list N) : list N :=
  match b with
  | [] => []
  | [x] => [x / 4; (x mod 4) * 16]
  | [x; y] => [x / 4; (x mod 4) * 16 + y / 16; (y mod 16) * 4]
  | x :: y :: z :: r =>
      x / 4 :: (x mod 4) * 16 + y / 16 :: (y mod 16) * 4 + z / 64 :: z mod 64 :: to_sextets r
  end.

(* base64.RawURLEncoding.EncodeToString *)
Definition b64url_encode (b : list N) : str := map enc_char (to_sextets b).

(* ---- decoder ------------------------------------------------------------------------------ *)
(* the walk over the input: alphabet lookup, CR/LF skipped, anything else is CorruptInputError *)
Fixpoint sextets (s : str) : option (list N) :=
  match s with
  | [] => Some []
  | c :: s' =>
      if is_crlf c then sextets s'
      else match dec_char c with
           | None => None
           | Some v => match sextets s' with None => None | Some r => Some (v :: r) end
           end
  end.

(* grouping of the sextets into quanta; [strict] = Encoding.Strict() *)
Fixpoint unsext (strict : bool) (q : list N) : option (list N) :=
  match q with
  | [] => Some []
  | [_] => None
  | [a; b] =>
      if strict && negb (b mod 16 =? 0) then None else Some [a * 4 + b / 16]
  | [a; b; c] =>
      if strict && negb (c mod 4 =? 0) then None
      else Some [a * 4 + b / 16; (b mod 16) * 16 + c / 4]
  | a :: b :: c :: d :: r =>
      match unsext strict r with
      | None => None
      | Some t => Some (a * 4 + b / 16 :: (b mod 16) * 16 + c / 4 :: (c mod 4) * 64 + d :: t)
      end
  end.

(* base64.RawURLEncoding.DecodeString (strict = false) / RawURLEncoding.Strict().DecodeString *)
Definition go_b64url_decode (strict : bool) (s : str) : option (list N) :=
  match sextets s with
  | None => None
  | Some q => unsext strict q
  end.

(* ---- normal form of an accepted input (used by statements and by the correspondence monitor) --- *)
(* the sextet list with the bits the lax decoder ignores cleared *)
Fixpoint clear_tail (q : list N) : list N :=
  match q with
  | [a; b] => [a; b / 16 * 16]
  | [a; b; c] => [a; b; c / 4 * 4]
  | a :: b :: c :: d :: r => a :: b :: c :: d :: clear_tail r
  | _ => q
  end.

(* CR/LF dropped, ignored bits of the last character cleared, written back in the alphabet *)
Definition normalize (s : str) : option str :=
  match sextets s with None => None | Some q => Some (map enc_char (clear_tail q)) end.

(* helpers used by statements *)
Definition has_crlf (s : str) : bool := existsb is_crlf s.
Definition strip_crlf (s : str) : str := filter (fun c => negb (is_crlf c)) s.
Definition bytes_ok (b : list N) : Prop := Forall (fun x => x < 256) b.
Definition bytes_okb (b : list N) : bool := forallb (fun x => x <? 256) b.
