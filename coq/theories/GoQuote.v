(* GoQuote.v — Go's %q verb on a string and on a []string, as used by the repaired single-flight
   keys (fmt.Sprintf with the format %q:%q): strconv.Quote (strconv/quote.go, go1.23: quoteWith /
   appendEscapedRune with quote = the double quote, ASCIIonly = false, graphicOnly = false) and fmt's
   rendering of a slice under %q: '[' elements separated by ' ' ']'.

   Quote walks the string rune by rune (utf8.DecodeRuneInString):
     - an invalid UTF-8 byte (width 1, RuneError)          -> \xNN (two lower-case hex digits)
     - the double quote and the backslash                   -> backslash + that character
     - a printable rune (strconv.IsPrint)                   -> its bytes, unchanged
     - \a \b \f \n \r \t \v                                 -> the two-character escape
     - any other rune below ' ' and 0x7f                    -> \xNN
     - any other rune below 0x10000                         -> \uNNNN
     - the rest                                             -> \UNNNNNNNN
   For ASCII, IsPrint is 0x20 <= r <= 0x7e. For runes >= 0x80 IsPrint is a library table; it is a
   parameter [isprint] of the model (every lemma holds for every table). No proofs here. *)
From V Require Import Base.

Definition dquote : N := 34.
Definition bslash : N := 92.

Definition hexd (n : N) : N := if n <? 10 then 48 + n else 87 + n.        (* 0123456789abcdef *)
Definition hex2 (b : N) : str := [hexd (b / 16); hexd (b mod 16)].
Definition hex4 (c : N) : str := [hexd (c / 4096); hexd ((c / 256) mod 16); hexd ((c / 16) mod 16); hexd (c mod 16)].
Definition hex8 (c : N) : str := hex4 (c / 65536) ++ hex4 (c mod 65536).

(* utf8.DecodeRune on a string whose first byte is >= 0x80: Some (code point, width) for a valid
   encoding, None for RuneError/width 1 (unicode/utf8: first[] and acceptRanges[]) *)
Definition is_cont (b : N) : bool := (128 <=? b) && (b <=? 191).
Definition decode_multi (s : str) : option (N * nat) :=
  match s with
  | b0 :: r =>
      if (194 <=? b0) && (b0 <=? 223) then
        match r with
        | b1 :: _ => if is_cont b1 then Some ((b0 - 192) * 64 + (b1 - 128), 2%nat) else None
        | _ => None
        end
      else if (224 <=? b0) && (b0 <=? 239) then
        match r with
        | b1 :: b2 :: _ =>
            if ((if b0 =? 224 then 160 else 128) <=? b1) && (b1 <=? (if b0 =? 237 then 159 else 191)) && is_cont b2
            then Some ((b0 - 224) * 4096 + (b1 - 128) * 64 + (b2 - 128), 3%nat) else None
        | _ => None
        end
      else if (240 <=? b0) && (b0 <=? 244) then
        match r with
        | b1 :: b2 :: b3 :: _ =>
            if ((if b0 =? 240 then 144 else 128) <=? b1) && (b1 <=? (if b0 =? 244 then 143 else 191)) &&
               is_cont b2 && is_cont b3
            then Some ((b0 - 240) * 262144 + (b1 - 128) * 4096 + (b2 - 128) * 64 + (b3 - 128), 4%nat) else None
        | _ => None
        end
      else None
  | [] => None
  end.

(* appendEscapedRune for an ASCII rune *)
Definition esc_ascii (c : N) : str :=
  if c =? dquote then [bslash; dquote]
  else if c =? bslash then [bslash; bslash]
  else if (32 <=? c) && (c <=? 126) then [c]
  else if c =? 7 then [bslash; 97]
  else if c =? 8 then [bslash; 98]
  else if c =? 12 then [bslash; 102]
  else if c =? 10 then [bslash; 110]
  else if c =? 13 then [bslash; 114]
  else if c =? 9 then [bslash; 116]
  else if c =? 11 then [bslash; 118]
  else bslash :: 120 :: hex2 c.

Fixpoint qbody (isprint : N -> bool) (fuel : nat) (s : str) : str :=
  match fuel with
  | O => []
  | S f =>
      match s with
      | [] => []
      | b0 :: r =>
          if b0 <? 128 then esc_ascii b0 ++ qbody isprint f r
          else match decode_multi s with
               | Some (cp, w) =>
                   (if isprint cp then firstn w s
                    else if cp <? 65536 then bslash :: 117 :: hex4 cp
                    else bslash :: 85 :: hex8 cp) ++ qbody isprint f (skipn w s)
               | None => (bslash :: 120 :: hex2 b0) ++ qbody isprint f r
               end
      end
  end.

(* strconv.Quote / %q of a string *)
Definition go_quote (isprint : N -> bool) (s : str) : str :=
  dquote :: qbody isprint (length s) s ++ [dquote].

(* %q of a []string: the quoted elements separated by one space between [ and ]; [] for an
   empty or nil slice (fmt/print.go printValue, Slice) *)
Fixpoint qlist_rest (isprint : N -> bool) (l : list str) : str :=
  match l with
  | [] => [93]
  | g :: l' => 32 :: go_quote isprint g ++ qlist_rest isprint l'
  end.
Definition go_qlist (isprint : N -> bool) (l : list str) : str :=
  match l with
  | [] => [91; 93]
  | g :: l' => 91 :: go_quote isprint g ++ qlist_rest isprint l'
  end.

(* a left inverse used by the proofs (and nothing else): reads one quoted string that follows its
   opening quote and returns the bytes it denotes and what follows the closing quote *)
Definition unhex (c : N) : N := if c <? 58 then c - 48 else c - 87.
Definition utf8_encode (cp : N) : str :=
  if cp <? 128 then [cp]
  else if cp <? 2048 then [192 + cp / 64; 128 + cp mod 64]
  else if cp <? 65536 then [224 + cp / 4096; 128 + (cp / 64) mod 64; 128 + cp mod 64]
  else [240 + cp / 262144; 128 + (cp / 4096) mod 64; 128 + (cp / 64) mod 64; 128 + cp mod 64].
Definition unesc (e : N) : N :=
  if e =? 97 then 7 else if e =? 98 then 8 else if e =? 102 then 12 else if e =? 110 then 10
  else if e =? 114 then 13 else if e =? 116 then 9 else if e =? 118 then 11 else e.
Definition unhex4 (a b c d : N) : N := unhex a * 4096 + unhex b * 256 + unhex c * 16 + unhex d.
Definition pre (p : str) (o : option (str * str)) : option (str * str) :=
  match o with Some (x, r) => Some (p ++ x, r) | None => None end.

Fixpoint unq (fuel : nat) (s : str) : option (str * str) :=
  match fuel with
  | O => None
  | S f =>
      match s with
      | [] => None
      | c :: r =>
          if c =? dquote then Some ([], r)
          else if c =? bslash then
            match r with
            | [] => None
            | e :: r' =>
                if e =? 120 then
                  match r' with h :: l :: r'' => pre [unhex h * 16 + unhex l] (unq f r'') | _ => None end
                else if e =? 117 then
                  match r' with
                  | a :: b :: c' :: d :: r'' => pre (utf8_encode (unhex4 a b c' d)) (unq f r'')
                  | _ => None
                  end
                else if e =? 85 then
                  match r' with
                  | a :: b :: c' :: d :: a2 :: b2 :: c2 :: d2 :: r'' =>
                      pre (utf8_encode (unhex4 a b c' d * 65536 + unhex4 a2 b2 c2 d2)) (unq f r'')
                  | _ => None
                  end
                else pre [unesc e] (unq f r')
            end
          else pre [c] (unq f r)
      end
  end.
