(* Config.v — model of upstream-configuration loading in sso-proxy.

   Go code followed (pinned tree):
     internal/proxy/proxy_config.go:129-231   loadServiceConfigs (the passes, in order)
     internal/proxy/proxy_config.go:233-288   rewriteRoute / simpleRoute / urlParse
     internal/proxy/proxy_config.go:303-314   resolveExtraRoute   (mergo.Merge, no override)
     internal/proxy/proxy_config.go:316-340   resolveUpstreamConfig (mergo.Merge WithOverride)
     internal/proxy/proxy_config.go:342-362   validateUpstreamConfig
     internal/proxy/proxy_config.go:364-371   resolveTemplates
     internal/proxy/proxy_config.go:373-423   parseOptionsConfig
     internal/proxy/proxy_config.go:425-443   cleanWhiteSpace, generateHmacAuth
     internal/proxy/options.go:113-160        SetUpstreamConfigs
     github.com/imdario/mergo@v0.3.7 merge.go deepMerge, mergo.go isEmptyValue

   The document is abstract (YAML parsing is a library oracle: the harness renders the abstract
   document to YAML, the model starts from the abstract document). Oracles are explicit
   arguments: [url_ok] (does urlParse accept the string), [re_ok] (does regexp.Compile accept
   it), [digest_ok] (does hmacauth know the digest name). No proofs in this file. *)
From V Require Import Base.

(* ------------------------------------------------------------------------------------------ *)
(* Go map[string]string as an association list (first binding wins on lookup).                  *)
Definition smap := list (str * str).

Fixpoint map_get (k : str) (m : smap) : option str :=
  match m with
  | [] => None
  | (k', v) :: m' => if str_eqb k k' then Some v else map_get k m'
  end.

Fixpoint map_set (k v : str) (m : smap) : smap :=
  match m with
  | [] => [(k, v)]
  | (k', v') :: m' => if str_eqb k k' then (k, v) :: m' else (k', v') :: map_set k v m'
  end.

Definition is_nil {A} (l : list A) : bool := match l with [] => true | _ => false end.

(* ------------------------------------------------------------------------------------------ *)
(* OptionsConfig, proxy_config.go:94-113. All sixteen exported fields; yaml.v2 maps the
   untagged field CookieName to the key "cookiename", so it is YAML-settable too.             *)
Record opts := MO {
  o_header_overrides : smap;
  o_inject_headers : smap;
  o_skip_auth_regex : list str;
  o_groups : list str;
  o_domains : list str;
  o_addresses : list str;
  o_tls_skip : bool;
  o_skip_preflight : bool;
  o_pass_token : bool;
  o_preserve_host : bool;
  o_timeout : Z;
  o_reset_deadline : Z;
  o_flush_interval : Z;
  o_skip_signing : bool;
  o_provider_slug : str;
  o_cookie_name : str }.

Definition empty_opts : opts := MO [] [] [] [] [] [] false false false false 0%Z 0%Z 0%Z false [] [].

(* RouteConfig, proxy_config.go:75-80 (Options is a pointer: None = nil) *)
Record routecfg := MR { rc_from : str; rc_to : str; rc_type : str; rc_options : option opts }.
Definition empty_route : routecfg := MR [] [] [] None.

(* one cluster block of a service as YAML can state it: inline RouteConfig + extra_routes *)
Record block := MB { b_route : routecfg; b_extra : list routecfg }.
Definition empty_block : block := MB empty_route [].

(* ServiceConfig, proxy_config.go:25-28: the inline map sends every key but `service` to
   ClusterConfigs; a key with a null value is present with a nil pointer ([None]).            *)
Record service := MS { s_name : str; s_clusters : list (str * option block) }.
Definition doc := list service.

(* UpstreamConfig while it is being resolved (the parse-time fields are still zero) *)
Record upstream0 := MU0 { u0_service : str; u0_route : routecfg; u0_extra : list routecfg }.

(* the resolved upstream: the observables of *UpstreamConfig after loading *)
Record upstream := MU {
  u_service : str; u_from : str; u_to : str; u_type : str;
  u_kind : N;                       (* 0 = *SimpleRoute, 1 = *RewriteRoute *)
  u_groups : list str; u_domains : list str; u_addresses : list str;
  u_skip : list str;                (* sources of SkipAuthCompiledRegex *)
  u_timeout : Z; u_reset_deadline : Z; u_flush_interval : Z;
  u_header_overrides : smap; u_inject_headers : smap;
  u_tls_skip : bool; u_preserve_host : bool; u_skip_signing : bool;
  u_skip_preflight : bool; u_pass_token : bool;
  u_provider_slug : str; u_cookie_name : str;
  u_hmac : bool;
  u_route : list str }.             (* simple: [from scheme; from host; to scheme; to host] of the parsed
                                       URLs; rewrite: [""; ""; configured scheme; ""] (ToTemplate) *)

(* ------------------------------------------------------------------------------------------ *)
(* mergo v0.3.7 deepMerge for the shapes that occur.                                            *)

(* isEmptyValue, mergo.go:36-58 *)
Definition emp_list {A} (l : list A) : bool := is_nil l.
Definition emp_bool (b : bool) : bool := negb b.
Definition emp_Z (z : Z) : bool := Z.eqb z 0.

(* merge.go `default:` and `case reflect.Slice:` (AppendSlice off, overwriteWithEmptyValue off):
   dst.Set(src) iff !isEmptyValue(src) && (overwrite || isEmptyValue(dst))                      *)
Definition mg {A} (emp : A -> bool) (ow : bool) (dst src : A) : A :=
  if negb (emp src) && (ow || emp dst) then src else dst.

(* merge.go `case reflect.Map:` for map[string]string: for every key of src the value is set
   when overwrite, or when dst lacks the key or holds "" for it (an empty SOURCE value is not
   skipped). src.MapKeys() order is arbitrary; keys of a Go map are distinct.                   *)
Definition merge_map_step (ow : bool) (d : smap) (kv : str * str) : smap :=
  match map_get (fst kv) d with
  | Some dv => if ow || is_nil dv then map_set (fst kv) (snd kv) d else d
  | None => map_set (fst kv) (snd kv) d
  end.
Definition merge_map (ow : bool) (dst src : smap) : smap := fold_left (merge_map_step ow) src dst.

(* merge.go `case reflect.Struct:` on OptionsConfig: field by field *)
Definition merge_opts (ow : bool) (d s : opts) : opts :=
  MO (merge_map ow (o_header_overrides d) (o_header_overrides s))
     (merge_map ow (o_inject_headers d) (o_inject_headers s))
     (mg emp_list ow (o_skip_auth_regex d) (o_skip_auth_regex s))
     (mg emp_list ow (o_groups d) (o_groups s))
     (mg emp_list ow (o_domains d) (o_domains s))
     (mg emp_list ow (o_addresses d) (o_addresses s))
     (mg emp_bool ow (o_tls_skip d) (o_tls_skip s))
     (mg emp_bool ow (o_skip_preflight d) (o_skip_preflight s))
     (mg emp_bool ow (o_pass_token d) (o_pass_token s))
     (mg emp_bool ow (o_preserve_host d) (o_preserve_host s))
     (mg emp_Z ow (o_timeout d) (o_timeout s))
     (mg emp_Z ow (o_reset_deadline d) (o_reset_deadline s))
     (mg emp_Z ow (o_flush_interval d) (o_flush_interval s))
     (mg emp_bool ow (o_skip_signing d) (o_skip_signing s))
     (mg emp_list ow (o_provider_slug d) (o_provider_slug s))
     (mg emp_list ow (o_cookie_name d) (o_cookie_name s)).

(* merge.go `case reflect.Ptr:` (merge.go:155-178) on *OptionsConfig. A non-nil pointer to a
   struct is never "empty". src nil: nothing. dst nil or overwrite: dst.Set(src) — the
   destination POINTER is replaced, the pointees are not merged. Otherwise deep merge.          *)
Definition merge_optptr (ow : bool) (dst src : option opts) : option opts :=
  match src with
  | None => dst
  | Some s =>
      match dst with
      | None => Some s
      | Some d => if ow then Some s else Some (merge_opts false d s)
      end
  end.

Definition merge_route (ow : bool) (d s : routecfg) : routecfg :=
  MR (mg emp_list ow (rc_from d) (rc_from s))
     (mg emp_list ow (rc_to d) (rc_to s))
     (mg emp_list ow (rc_type d) (rc_type s))
     (merge_optptr ow (rc_options d) (rc_options s)).

(* UpstreamConfig: Service, RouteConfig, ExtraRoutes (a slice: replaced as a whole) *)
Definition merge_up0 (ow : bool) (d s : upstream0) : upstream0 :=
  MU0 (mg emp_list ow (u0_service d) (u0_service s))
      (merge_route ow (u0_route d) (u0_route s))
      (mg emp_list ow (u0_extra d) (u0_extra s)).

(* ------------------------------------------------------------------------------------------ *)
(* cleanWhiteSpace, proxy_config.go:425-428: strings.TrimSpace then `\s+` -> "_".
   ASCII only (TrimSpace also trims \v; RE2's \s does not match \v). Non-ASCII white space
   (U+0085, U+00A0, ...) is outside the model: the harness keeps service names ASCII.          *)
Definition is_ws_trim (c : N) : bool := ((9 <=? c) && (c <=? 13)) || (c =? 32).
Definition is_ws_re (c : N) : bool := is_ws_trim c && negb (c =? 11).
Fixpoint trim_left (s : str) : str :=
  match s with
  | c :: s' => if is_ws_trim c then trim_left s' else s
  | [] => []
  end.
Definition trim_space (s : str) : str := rev (trim_left (rev (trim_left s))).
Fixpoint collapse_ws (inrun : bool) (s : str) : str :=
  match s with
  | [] => []
  | c :: s' => if is_ws_re c then (if inrun then collapse_ws true s' else 95 :: collapse_ws true s')
               else c :: collapse_ws false s'
  end.
Definition clean_ws (s : str) : str := collapse_ws false (trim_space s).

(* ------------------------------------------------------------------------------------------ *)
(* resolveTemplates, proxy_config.go:364-371, at string level: for every (k, v) of the
   variable map, in the map's (arbitrary) iteration order, strings.Replace(s, "{{k}}", v, -1).
   [repl] is strings.Replace with n = -1 for a non-empty pattern: leftmost, non-overlapping.    *)
Definition lbrace : N := 123.
Definition rbrace : N := 125.
Definition placeholder (k : str) : str := lbrace :: lbrace :: k ++ [rbrace; rbrace].

Fixpoint repl (pat rep : str) (skip : nat) (s : str) : str :=
  match s with
  | [] => []
  | c :: s' =>
      match skip with
      | S k => repl pat rep k s'
      | O => if has_prefix s pat then rep ++ repl pat rep (length pat - 1) s'
             else c :: repl pat rep 0 s'
      end
  end.
Definition replace_all (pat rep s : str) : str := repl pat rep 0 s.
Definition subst1 (s : str) (kv : str * str) : str := replace_all (placeholder (fst kv)) (snd kv) s.
Definition subst_all (tv : smap) (s : str) : str := fold_left subst1 tv s.

(* the same on a token view of a text: literal pieces and {{name}} placeholders *)
Inductive token := TLit (s : str) | TVar (name : str).
Definition render_tok (t : token) : str :=
  match t with TLit s => s | TVar n => placeholder n end.
Definition render (ts : list token) : str := flat_map render_tok ts.
Definition tsubst_tok (tv : smap) (t : token) : token :=
  match t with
  | TLit s => TLit s
  | TVar n => match map_get n tv with Some v => TLit v | None => TVar n end
  end.
Definition tsubst (tv : smap) (ts : list token) : list token := map (tsubst_tok tv) ts.

(* substitution acts on the raw YAML text, hence on every string of the abstract document *)
Section Subst.
Variable f : str -> str.
Definition map_smap (m : smap) : smap := map (fun kv => (f (fst kv), f (snd kv))) m.
Definition map_opts (o : opts) : opts :=
  MO (map_smap (o_header_overrides o)) (map_smap (o_inject_headers o))
     (map f (o_skip_auth_regex o)) (map f (o_groups o)) (map f (o_domains o)) (map f (o_addresses o))
     (o_tls_skip o) (o_skip_preflight o) (o_pass_token o) (o_preserve_host o)
     (o_timeout o) (o_reset_deadline o) (o_flush_interval o) (o_skip_signing o)
     (f (o_provider_slug o)) (f (o_cookie_name o)).
Definition map_route (r : routecfg) : routecfg :=
  MR (f (rc_from r)) (f (rc_to r)) (f (rc_type r)) (option_map map_opts (rc_options r)).
Definition map_block (b : block) : block := MB (map_route (b_route b)) (map map_route (b_extra b)).
Definition map_service (s : service) : service :=
  MS (f (s_name s)) (map (fun kb => (f (fst kb), option_map map_block (snd kb))) (s_clusters s)).
Definition map_doc (d : doc) : doc := map map_service d.
End Subst.
Definition subst_doc (tv : smap) (d : doc) : doc := map_doc (subst_all tv) d.

(* ------------------------------------------------------------------------------------------ *)
(* results *)
Inductive result (A : Type) := Ok (a : A) | Err (e : N).
Arguments Ok {A} a.
Arguments Err {A} e.
Definition bind {A B} (r : result A) (f : A -> result B) : result B :=
  match r with Ok a => f a | Err e => Err e end.
Fixpoint mapM {A B} (f : A -> result B) (l : list A) : result (list B) :=
  match l with
  | [] => Ok []
  | x :: l' => bind (f x) (fun y => bind (mapM f l') (fun ys => Ok (y :: ys)))
  end.

(* error classes (never compared with the implementation's error text) *)
Definition E_validate : N := 1.
Definition E_route : N := 2.
Definition E_options : N := 3.
Definition E_hmac : N := 4.
Definition E_norule : N := 5.

(* [url_ok s] / [url_parts s]: does net/url.Parse accept the value completed with the configured
   scheme (prefix "<scheme>://" unless the value contains "://"), and which (scheme, host) does it
   yield; [cfg_scheme]: the configured scheme (uc.Scheme). The harness computes them with
   net/url itself, NOT with the repository's urlParse. *)
Record oracle := MOr { url_ok : str -> bool; re_ok : str -> bool; digest_ok : str -> bool;
                       url_parts : str -> str * str; cfg_scheme : str }.

Record env := ME {
  e_cluster : str;          (* uc.Cluster *)
  e_tvars : smap;           (* parseEnvironment(os.Environ()): SSO_CONFIG_* with lower-cased keys *)
  e_defaults : opts }.      (* defaultUpstreamOptionsConfig, options.go:125-133 *)

Definition lit_default : str := [100;101;102;97;117;108;116].
Definition lit_simple : str := [115;105;109;112;108;101].
Definition lit_rewrite : str := [114;101;119;114;105;116;101].
Definition lit_signing_key : str := [95;115;105;103;110;105;110;103;95;107;101;121].  (* "_signing_key" *)

Fixpoint assoc_block (k : str) (l : list (str * option block)) : option (option block) :=
  match l with
  | [] => None
  | (k', b) :: l' => if str_eqb k k' then Some b else assoc_block k l'
  end.

Definition up0_of_block (b : option block) : upstream0 :=
  match b with
  | Some b => MU0 [] (b_route b) (b_extra b)
  | None => MU0 [] empty_route []                 (* `dst = &UpstreamConfig{}` *)
  end.

(* resolveUpstreamConfig, proxy_config.go:316-340 *)
Definition resolve_upstream (cluster : str) (s : service) : option upstream0 :=
  match assoc_block lit_default (s_clusters s), assoc_block cluster (s_clusters s) with
  | None, None => None
  | d, c =>
      let dst := up0_of_block (match d with Some b => b | None => None end) in
      let src := up0_of_block (match c with Some b => b | None => None end) in
      let m := merge_up0 true dst src in
      Some (MU0 (clean_ws (s_name s)) (u0_route m) (u0_extra m))
  end.

(* resolveExtraRoute, proxy_config.go:303-314 *)
Definition resolve_extra (parent : upstream0) (rc : routecfg) : upstream0 :=
  let m := merge_up0 false (MU0 [] rc []) parent in
  MU0 (u0_service m) (u0_route m) [].

(* loadServiceConfigs:142-153 *)
Fixpoint select (cluster : str) (d : doc) : list upstream0 :=
  match d with
  | [] => []
  | s :: d' => match resolve_upstream cluster s with
               | Some u => u :: select cluster d'
               | None => select cluster d'
               end
  end.

(* loadServiceConfigs:155-172: extra routes are appended after all the main ones *)
Definition expand_extras (cs : list upstream0) : list upstream0 :=
  map (fun p => MU0 (u0_service p) (u0_route p) []) cs ++
  flat_map (fun p => map (resolve_extra p) (u0_extra p)) cs.

Definition routes (cluster : str) (d : doc) : list upstream0 := expand_extras (select cluster d).

(* validateUpstreamConfig *)
Definition validate (u : upstream0) : result upstream0 :=
  if is_nil (u0_service u) then Err E_validate
  else if is_nil (rc_from (u0_route u)) then Err E_validate
  else if is_nil (rc_to (u0_route u)) then Err E_validate
  else Ok u.

(* loadServiceConfigs:183-203 with simpleRoute / rewriteRoute *)
Definition route_kind (O : oracle) (r : routecfg) : result N :=
  if str_eqb (rc_type r) lit_simple || is_nil (rc_type r) then
    if url_ok O (rc_from r) then if url_ok O (rc_to r) then Ok 0 else Err E_route else Err E_route
  else if str_eqb (rc_type r) lit_rewrite then
    if re_ok O (rc_from r) then Ok 1 else Err E_route
  else Err E_route.

(* SimpleRoute{FromURL, ToURL} = urlParse of both ends; RewriteRoute.ToTemplate = {Scheme, Opaque} *)
Definition route_parts (O : oracle) (r : routecfg) (k : N) : list str :=
  if k =? 0 then [fst (url_parts O (rc_from r)); snd (url_parts O (rc_from r));
                  fst (url_parts O (rc_to r)); snd (url_parts O (rc_to r))]
  else [[]; []; cfg_scheme O; []].

(* the OptionsConfig that parseOptionsConfig computes (lines 374-392) *)
Definition effective_opts (defaults : opts) (r : routecfg) : opts :=
  let dst := merge_opts true empty_opts defaults in
  match rc_options r with
  | Some o => merge_opts true dst o
  | None => dst
  end.

(* parseOptionsConfig: every listed pattern must compile; the fields copied at lines 406-418.
   skip_auth_preflight and pass_access_token are NOT copied: they stay false.                  *)
Definition parse_options (O : oracle) (defaults : opts) (uk : upstream0 * N) : result upstream :=
  let u := fst uk in
  let o := effective_opts defaults (u0_route u) in
  if forallb (re_ok O) (o_skip_auth_regex o) then
    Ok (MU (u0_service u) (rc_from (u0_route u)) (rc_to (u0_route u)) (rc_type (u0_route u)) (snd uk)
           (o_groups o) (o_domains o) (o_addresses o) (o_skip_auth_regex o)
           (o_timeout o) (o_reset_deadline o) (o_flush_interval o)
           (o_header_overrides o) (o_inject_headers o)
           (o_tls_skip o) (o_preserve_host o) (o_skip_signing o)
           false false
           (o_provider_slug o) (o_cookie_name o) false
           (route_parts O (u0_route u) (snd uk)))
  else Err E_options.

(* generateHmacAuth: "hash:key", exactly two components, known digest *)
Definition hmac_spec_ok (O : oracle) (spec : str) : bool :=
  match split_on 58 spec with
  | [alg; _] => digest_ok O alg
  | _ => false
  end.

Definition set_hmac (u : upstream) (b : bool) : upstream :=
  MU (u_service u) (u_from u) (u_to u) (u_type u) (u_kind u) (u_groups u) (u_domains u) (u_addresses u)
     (u_skip u) (u_timeout u) (u_reset_deadline u) (u_flush_interval u) (u_header_overrides u)
     (u_inject_headers u) (u_tls_skip u) (u_preserve_host u) (u_skip_signing u) (u_skip_preflight u)
     (u_pass_token u) (u_provider_slug u) (u_cookie_name u) b (u_route u).

(* loadServiceConfigs:213-228 *)
Definition add_hmac (O : oracle) (tv : smap) (u : upstream) : result upstream :=
  match map_get (u_service u ++ lit_signing_key) tv with
  | None => Ok u
  | Some spec => if hmac_spec_ok O spec then Ok (set_hmac u true) else Err E_hmac
  end.

(* loadServiceConfigs after YAML parsing: the passes in the order of the code *)
Definition load_resolved (O : oracle) (E : env) (d : doc) : result (list upstream) :=
  let configs := routes (e_cluster E) d in
  bind (mapM validate configs) (fun configs =>
  bind (mapM (fun u => bind (route_kind O (u0_route u)) (fun k => Ok (u, k))) configs) (fun routed =>
  bind (mapM (parse_options O (e_defaults E)) routed) (fun ups =>
  mapM (add_hmac O (e_tvars E)) ups))).

Definition load_configs (O : oracle) (E : env) (d : doc) : result (list upstream) :=
  load_resolved O E (subst_doc (e_tvars E) d).

(* SetUpstreamConfigs, options.go:141-157 *)
Definition has_allow_rule (u : upstream) : bool :=
  negb (is_nil (u_domains u) && is_nil (u_addresses u) && is_nil (u_groups u)).

Definition check_rules (ups : list upstream) : result (list upstream) :=
  if forallb has_allow_rule ups then Ok ups else Err E_norule.

Definition set_upstream_configs (O : oracle) (E : env) (d : doc) : result (list upstream) :=
  bind (load_configs O E d) check_rules.
