(* BreakerClient.v — the breaker's client: /repo/internal/auth/providers/google_admin.go (C15).

   GoogleAdminService sends every Directory API request through [gs.cb.Call] (google_admin.go:84-86,
   169-171). The model has two layers.

   1. The two exported operations as PROGRAMS over an abstract directory: a program either returns
      a result or makes one request — which is one [Call] of the breaker — and continues on the
      answer; if the breaker rejects the Call nothing is sent and the program ends with [rej].
        listMemberships  (google_admin.go:63-149)  = [list_group] / [list_prog]
        CheckMemberships (google_admin.go:153-214) = [check_prog]
   2. A labelled transition system that runs any number of such operations concurrently against
      ONE breaker (the model of Breaker.v) and a scripted directory [dir : nat -> request -> answer]
      (the answer may depend on the request and on how many requests arrived before it):
        Begin o   an operation starts: first Call = beforeRequest; if admitted the request arrives
        Answer i  the directory answers the i-th outstanding request: req.Do() returns, afterRequest
                  reports success/failure, the operation runs on to its next Call (beforeRequest,
                  arrival) or to its end
        STick dt  the clock advances.
      Every schedulable step of the real system (one goroutine runs from the HTTP answer to its
      next blocking point) is one event; "every interleaving" = every event list.

   What req.Do() of google-api-go-client v0.5.0 returns is an oracle, classified as [answer]:
   2xx with a decodable body = success; any non-2xx = *googleapi.Error with a code; 2xx with an
   undecodable body = another error. No proofs here. *)
From V Require Import Base Breaker.
Open Scope Z_scope.

Inductive member_type := MUser | MGroup | MOther.    (* "USER" / "GROUP" / anything else *)
Record member := mkmember { mb_email : str; mb_type : member_type }.

Inductive request :=
| RList (group token : str)       (* Members.List(group).MaxResults(200)[.PageToken(token)] *)
| RHas (group email : str).       (* Members.HasMember(group, email) *)

Inductive answer :=
| AMembers (ms : list member) (next : str)   (* 2xx, admin.Members with nextPageToken *)
| AHas (is_member : bool)                    (* 2xx, admin.MembersHasMember *)
| AErr (code : Z)                            (* non-2xx: *googleapi.Error{Code: code} *)
| ABad.                                      (* 2xx whose body does not decode: a plain error *)

(* what Call reports to the breaker: success iff req.Do() returned a nil error (breaker.go:221-222).
   EVERY googleapi error is a failure — also 404 "group not found" and 400/403. *)
Definition ans_ok (a : answer) : bool :=
  match a with AMembers _ _ | AHas _ => true | AErr _ | ABad => false end.

(* error classes of the two operations' returned error *)
Inductive cerr :=
| EOpen               (* *circuit.ErrOpenState *)
| EBadRequest         (* providers.ErrBadRequest *)
| EGroupNotFound      (* groups.ErrGroupNotFound *)
| ERateLimit          (* providers.ErrRateLimitExceeded *)
| EUnavailable        (* providers.ErrServiceUnavailable *)
| EApi (code : Z)     (* the *googleapi.Error itself, unmapped *)
| EOther.             (* any other error *)
Inductive result :=
| ROk (l : list str)        (* a list, in order *)
| RSet (l : list str)       (* a member SET (groups.MemberSet); [l] lists its elements in any order, repeats allowed *)
| RErr (e : cerr).

(* google_admin.go:93-106. For 400 the assignment of ErrTokenRevoked is always overwritten. *)
Definition list_err (code : Z) : cerr :=
  if code =? 400 then EBadRequest else if code =? 404 then EGroupNotFound
  else if code =? 429 then ERateLimit else if code =? 503 then EUnavailable else EApi code.
(* google_admin.go:178-191 (404 is handled by [continue], see check_prog) *)
Definition check_err (code : Z) : cerr :=
  if code =? 400 then EBadRequest
  else if code =? 429 then ERateLimit else if code =? 503 then EUnavailable else EApi code.

Inductive prog :=
| Ret (r : result)
| Req (q : request) (rej : result) (k : answer -> prog).

Definition is_nil_str (s : str) : bool := match s with [] => true | _ => false end.

(* ---- listMemberships, google_admin.go:63-149 ----
   [nested] is the recursive call for a GROUP member (None when currentDepth >= maxDepth);
   continuations receive the members collected so far. *)
Fixpoint members_p (nested : option (str -> (list str -> prog) -> prog))
         (ms : list member) (acc : list str) (k : list str -> prog) : prog :=
  match ms with
  | [] => k acc
  | m :: ms' =>
      match mb_type m with
      | MUser => members_p nested ms' (acc ++ [mb_email m]) k                    (* :125-126 *)
      | MGroup =>
          match nested with
          | None => members_p nested ms' acc k                                    (* :129-131 *)
          | Some rec => rec (mb_email m) (fun l => members_p nested ms' (acc ++ l) k)   (* :132-136 *)
          end
      | MOther => members_p nested ms' acc k                                      (* :137-140 *)
      end
  end.

(* the page loop :74-147. [fuel] bounds the number of pages of one group; the Go loop is unbounded
   (a directory that never stops returning nextPageToken keeps it spinning) — see notes. *)
Fixpoint pages_p (nested : option (str -> (list str -> prog) -> prog)) (g : str)
         (fuel : nat) (tok : str) (acc : list str) (k : list str -> prog) : prog :=
  match fuel with
  | O => Ret (RErr EOther)
  | S fuel' =>
      Req (RList g tok) (RErr EOpen) (fun a =>        (* rejected: return nil, err  :107-114 *)
        match a with
        | AErr c => Ret (RErr (list_err c))            (* :88-106, 114 *)
        | ABad => Ret (RErr EOther)                    (* :110-114 *)
        | AHas _ => k acc                              (* decodes as an empty admin.Members *)
        | AMembers ms next =>
            members_p nested ms acc (fun acc' =>
              if is_nil_str next then k acc' else pages_p nested g fuel' next acc' k)   (* :143-146 *)
        end)
  end.

Fixpoint list_group (F : nat) (d : nat) (g : str) (k : list str -> prog) {struct d} : prog :=
  pages_p (match d with O => None | S d' => Some (fun e k' => list_group F d' e k') end) g F [] [] k.

(* ListMemberships(group, maxDepth): d = maxDepth - currentDepth *)
Definition list_prog (F : nat) (g : str) (max_depth : nat) : prog :=
  list_group F max_depth g (fun l => Ret (ROk l)).

(* ---- CheckMemberships, google_admin.go:153-214 ---- *)
Fixpoint check_prog (gs : list str) (email : str) (acc : list str) : prog :=
  match gs with
  | [] => Ret (ROk acc)
  | g :: gs' =>
      Req (RHas g email) (RErr EOpen) (fun a =>
        match a with
        | AHas b => check_prog gs' email (if b then acc ++ [g] else acc)        (* :208-210 *)
        | AMembers _ _ => check_prog gs' email acc         (* decodes with IsMember = false *)
        | AErr c => if c =? 404 then check_prog gs' email acc                     (* :184-186 continue *)
                    else Ret (RErr (check_err c))
        | ABad => Ret (RErr EOther)
        end)
  end.

(* ---- the layer above, internal/auth/providers/google.go: GoogleProvider built by NewGoogleProvider shares ONE
   breaker with its GoogleAdminService (google.go:71-93) and has no other path to the directory ---- *)

(* PopulateMembers, google.go:355-366: the fill function of the group cache = a listing 4 levels deep, as a set *)
Definition populate_prog (F : nat) (g : str) : prog := list_group F 4 g (fun l => Ret (RSet l)).

(* ValidateGroupMembership, google.go:370-404. [looks] = the groups asked about, each with what the group cache
   answered for it (None = no member set cached; the cache is an oracle). If any group is uncached the question goes
   to the directory for ALL groups through CheckMemberships — there is no other exit, in particular none that depends
   on the breaker's state. *)
Definition looks_uncached (looks : list (str * option (list str))) : bool :=
  existsb (fun x => match snd x with None => true | Some _ => false end) looks.
Definition validate_prog (looks : list (str * option (list str))) (email : str) : prog :=
  match looks with
  | [] => Ret (ROk [])                                                    (* :378-380 *)
  | _ =>
      if looks_uncached looks then check_prog (map fst looks) email []    (* :398-400 *)
      else Ret (ROk (map fst (filter (fun x => match snd x with Some set => mem_str email set | None => false end)
                                     looks)))                              (* :392-394, 402 *)
  end.

Inductive op :=
| OList (g : str) (max_depth : nat)                                  (* AdminService.ListMemberships *)
| OCheck (gs : list str) (email : str)                               (* AdminService.CheckMemberships *)
| OValidate (looks : list (str * option (list str))) (email : str)   (* GoogleProvider.ValidateGroupMembership *)
| OPopulate (g : str).                                               (* GoogleProvider.PopulateMembers *)
Definition prog_of (F : nat) (o : op) : prog :=
  match o with
  | OList g d => list_prog F g d
  | OCheck gs email => check_prog gs email []
  | OValidate looks email => validate_prog looks email
  | OPopulate g => populate_prog F g
  end.

(* ---- the concurrent system ---- *)
Record pending := mkpend {
  p_op : nat;                 (* which operation *)
  p_idx : nat;                (* arrival index of the request at the directory *)
  p_req : request;
  p_gen : nat;                (* generation under which its Call was admitted *)
  p_k : answer -> prog        (* what the operation does with the answer *)
}.
Record sys := mksys {
  br : breaker;
  pend : list pending;        (* requests the directory has received and not answered, in arrival order *)
  nreq : nat;                 (* requests received so far *)
  nops : nat                  (* operations begun so far *)
}.
Inductive sevent := Begin (o : op) | Answer (i : nat) | STick (dt : Z).

Record sobs := mksobs {
  so_fin : option (nat * nat * bool * obs);   (* operation, request index, outcome reported, what afterRequest showed *)
  so_start : option obs;                      (* what beforeRequest showed, if a Call was made *)
  so_req : option (nat * nat * request);      (* operation, arrival index, request the directory received *)
  so_done : option (nat * result)             (* operation that returned, with what *)
}.
Definition sobs_none : sobs := mksobs None None None None.

Section Client.
Variable trip reset : counts -> bool.
Variable backoff : counts -> Z.
Variable hom : Z.
Variable F : nat.                              (* page budget per group *)
Variable dir : nat -> request -> answer.       (* the scripted directory *)

Notation bstep := (step trip reset backoff hom).

Definition sys_init : sys := mksys init [] 0 0.

(* run operation [opid] on from program [p] to its next blocking point *)
Definition issue (s : sys) (opid : nat) (p : prog)
  : sys * option obs * option (nat * nat * request) * option (nat * result) :=
  match p with
  | Ret r => (s, None, None, Some (opid, r))
  | Req q rej k =>
      let '(b', o) := bstep (br s) Start in
      match o_adm o with
      | Some true =>
          (mksys b' (pend s ++ [mkpend opid (nreq s) q (gen b') k]) (S (nreq s)) (nops s),
           Some o, Some (opid, nreq s, q), None)
      | _ => (mksys b' (pend s) (nreq s) (nops s), Some o, None, Some (opid, rej))
      end
  end.

Definition sstep (s : sys) (e : sevent) : sys * sobs :=
  match e with
  | Begin o =>
      let '(s', ost, orq, odn) := issue (mksys (br s) (pend s) (nreq s) (S (nops s))) (nops s) (prog_of F o) in
      (s', mksobs None ost orq odn)
  | Answer i =>
      match nth_error (pend s) i with
      | None => (s, sobs_none)
      | Some p =>
          let a := dir (p_idx p) (p_req p) in
          let '(b1, o1) := bstep (br s) (Finish i (ans_ok a)) in
          let '(s', ost, orq, odn) :=
            issue (mksys b1 (remove_nth i (pend s)) (nreq s) (nops s)) (p_op p) (p_k p a) in
          (s', mksobs (Some (p_op p, p_idx p, ans_ok a, o1)) ost orq odn)
      end
  | STick dt =>
      (mksys (fst (bstep (br s) (Tick dt))) (pend s) (nreq s) (nops s), sobs_none)
  end.

Definition sstep_st (s : sys) (e : sevent) : sys := fst (sstep s e).
Definition sexec_from (s : sys) (evs : list sevent) : sys := fold_left sstep_st evs s.
Definition sexec (evs : list sevent) : sys := sexec_from sys_init evs.
Fixpoint strace_from (s : sys) (evs : list sevent) : list sobs :=
  match evs with
  | [] => []
  | e :: evs' => let '(s', o) := sstep s e in o :: strace_from s' evs'
  end.
Definition strace (evs : list sevent) : list sobs := strace_from sys_init evs.

End Client.

(* ---- vocabulary for statements ---- *)
Fixpoint sticks (evs : list sevent) : Z :=
  match evs with [] => 0 | STick dt :: r => dt + sticks r | _ :: r => sticks r end.
Definition stick_nonneg (e : sevent) : Prop := match e with STick dt => 0 <= dt | _ => True end.

(* requests the directory received / outcomes reported / Calls made, over a trace *)
Definition reqs_of (os : list sobs) : list (nat * nat * request) :=
  flat_map (fun o => match so_req o with Some x => [x] | None => [] end) os.
Definition fins_of (os : list sobs) : list (nat * nat * bool * obs) :=
  flat_map (fun o => match so_fin o with Some x => [x] | None => [] end) os.
Definition starts_of (os : list sobs) : list obs :=
  flat_map (fun o => match so_start o with Some x => [x] | None => [] end) os.
Definition was_rejected (o : obs) : bool := match o_adm o with Some true => false | _ => true end.

(* a program all of whose Calls answer a rejection with the breaker's error *)
Inductive rej_open : prog -> Prop :=
| RO_ret r : r <> RErr EOpen -> rej_open (Ret r)   (* ... and which never invents that error itself *)
| RO_req q k : (forall a, rej_open (k a)) -> rej_open (Req q (RErr EOpen) k).

(* ---- sequential reading of an operation, used to say what its result is ----
   An exchange is a request the operation sent together with the answer it got. *)
Definition xchg := (request * answer)%type.

Definition request_eqb (a b : request) : bool :=
  match a, b with
  | RList g t, RList g' t' => str_eqb g g' && str_eqb t t'
  | RHas g e, RHas g' e' => str_eqb g g' && str_eqb e e'
  | _, _ => false
  end.

Inductive fed := FDone (r : result) | FPending (rej : result) | FWrong.
(* feed a program the exchanges in order: it must ask exactly these requests *)
Fixpoint feed (p : prog) (xs : list xchg) : fed :=
  match p, xs with
  | Ret r, [] => FDone r
  | Ret _, _ :: _ => FWrong
  | Req q rej k, [] => FPending rej
  | Req q rej k, (q', a) :: xs' => if request_eqb q q' then feed (k a) xs' else FWrong
  end.

(* the program that remains after the exchanges [xs] *)
Fixpoint resid (p : prog) (xs : list xchg) {struct xs} : option prog :=
  match xs with
  | [] => Some p
  | (q', a) :: xs' =>
      match p with
      | Req q rej k => if request_eqb q q' then resid (k a) xs' else None
      | Ret _ => None
      end
  end.

(* ---- what a listing returns, declaratively, against a directory that answers by content ---- *)
(* an operation running alone, never rejected *)
Fixpoint run_alone (tbl : request -> answer) (p : prog) : result :=
  match p with Ret r => r | Req q _ k => run_alone tbl (k (tbl q)) end.

(* the members on the pages of [g], following nextPageToken from [tok] *)
Fixpoint pages_of (tbl : request -> answer) (g : str) (fuel : nat) (tok : str) : list member :=
  match fuel with
  | O => []
  | S fuel' =>
      match tbl (RList g tok) with
      | AMembers ms next => ms ++ (if is_nil_str next then [] else pages_of tbl g fuel' next)
      | _ => []
      end
  end.

(* users in page order, each nested group replaced in place by its own expansion, [d] levels deep *)
Fixpoint expand (tbl : request -> answer) (F : nat) (d : nat) (g : str) : list str :=
  flat_map (fun m => match mb_type m with
                     | MUser => [mb_email m]
                     | MGroup => match d with O => [] | S d' => expand tbl F d' (mb_email m) end
                     | MOther => []
                     end) (pages_of tbl g F []).
