(* ProxyCore.v — model of the session clock, the SSO provider's refresh / validate procedures
   and sso-proxy's Authenticate ladder and Proxy dispatch.

   Go sources followed (function-for-function, branch-for-branch):
     internal/pkg/sessions/session_state.go:34-62,82-84   (isExpired, IsWithinGracePeriod, ExtendDeadline)
     internal/proxy/providers/sso.go:97-99,168-193,242-401 (isProviderUnavailable, ValidateGroup,
                                                            RefreshSession, redeemRefreshToken, ValidateSessionState)
     internal/proxy/oauthproxy.go:214-221,272-285,526-756  (Favicon, IsWhitelistedRequest, AuthenticateOnly,
                                                            Proxy, Authenticate)
     internal/pkg/sessions/cookie_store.go:141-154         (LoadSession)

   Time is Z seconds (every deadline is truncated to a second and only compared with `now`).
   Cryptography is symbolic: a cookie either opens under the proxy's key to a session or it does not. *)
From V Require Import Base Validators.
Open Scope Z_scope.

Record session := {
  s_slug : str; s_email : str; s_user : str;
  s_access : str; s_refresh_tok : str;
  s_refresh_dl : Z; s_lifetime_dl : Z; s_valid_dl : Z;
  s_grace : option Z;                 (* GracePeriodStart; None = zero time *)
  s_groups : list str; s_upstream : str }.

Definition set_refresh_dl (s : session) (d : Z) : session :=
  {| s_slug := s_slug s; s_email := s_email s; s_user := s_user s; s_access := s_access s;
     s_refresh_tok := s_refresh_tok s; s_refresh_dl := d; s_lifetime_dl := s_lifetime_dl s;
     s_valid_dl := s_valid_dl s; s_grace := s_grace s; s_groups := s_groups s; s_upstream := s_upstream s |}.
Definition set_valid_dl (s : session) (d : Z) : session :=
  {| s_slug := s_slug s; s_email := s_email s; s_user := s_user s; s_access := s_access s;
     s_refresh_tok := s_refresh_tok s; s_refresh_dl := s_refresh_dl s; s_lifetime_dl := s_lifetime_dl s;
     s_valid_dl := d; s_grace := s_grace s; s_groups := s_groups s; s_upstream := s_upstream s |}.
Definition set_grace (s : session) (g : option Z) : session :=
  {| s_slug := s_slug s; s_email := s_email s; s_user := s_user s; s_access := s_access s;
     s_refresh_tok := s_refresh_tok s; s_refresh_dl := s_refresh_dl s; s_lifetime_dl := s_lifetime_dl s;
     s_valid_dl := s_valid_dl s; s_grace := g; s_groups := s_groups s; s_upstream := s_upstream s |}.
Definition set_groups (s : session) (g : list str) : session :=
  {| s_slug := s_slug s; s_email := s_email s; s_user := s_user s; s_access := s_access s;
     s_refresh_tok := s_refresh_tok s; s_refresh_dl := s_refresh_dl s; s_lifetime_dl := s_lifetime_dl s;
     s_valid_dl := s_valid_dl s; s_grace := s_grace s; s_groups := g; s_upstream := s_upstream s |}.
Definition set_access (s : session) (a : str) : session :=
  {| s_slug := s_slug s; s_email := s_email s; s_user := s_user s; s_access := a;
     s_refresh_tok := s_refresh_tok s; s_refresh_dl := s_refresh_dl s; s_lifetime_dl := s_lifetime_dl s;
     s_valid_dl := s_valid_dl s; s_grace := s_grace s; s_groups := s_groups s; s_upstream := s_upstream s |}.

(* isExpired: t.Before(now) — strict *)
Definition expired (t now : Z) : bool := t <? now.

(* deployment-wide settings of the provider *)
Record cfg := { c_slug : str; c_L : Z; c_V : Z; c_G : Z }.

(* IsWithinGracePeriod: stamps the start on first use, then start+G After now (strict) *)
Definition within_grace (now G : Z) (s : session) : bool * session :=
  let g := match s_grace s with Some g => g | None => now end in
  (now <? g + G, set_grace s (Some g)).

(* isProviderUnavailable *)
Definition unavailable (code : Z) : bool := (code =? 429) || (code =? 503).

(* ---- answers of the authenticator's back channel during one request ---- *)
Inductive http_ans := St (code : Z) | Transport.     (* HTTP status, or transport error *)
Record answers := {
  a_refresh : http_ans; a_refresh_body : option (str * Z);   (* (access_token, expires_in); None = malformed JSON *)
  a_validate : http_ans;
  a_profile : http_ans; a_profile_body : option (list str) }. (* groups; None = malformed JSON *)

Inductive endpoint := EpRefresh | EpValidate | EpProfile.

(* UserGroups, sso.go:196-239 *)
Inductive ug_result := UgOk (gs : list str) | UgUnavail | UgErr.
Definition user_groups (a : answers) : ug_result :=
  match a_profile a with
  | Transport => UgErr
  | St c => if c =? 200 then match a_profile_body a with Some g => UgOk g | None => UgErr end
            else if unavailable c then UgUnavail else UgErr
  end.

(* ValidateGroup, sso.go:168-193: (result, asked) *)
Inductive vg_result := VgOk (matched : list str) (valid : bool) | VgUnavail | VgErr.
Definition no_group_check (allowed : list str) : bool :=
  match allowed with [] => true | [x] => str_eqb x star | _ => false end.
Definition validate_group_p (allowed : list str) (a : answers) : vg_result * list endpoint :=
  if no_group_check allowed then (VgOk [] true, [])
  else match user_groups a with
       | UgOk ug => let m := flat_map (fun u => filter (str_eqb u) allowed) ug in
                    (VgOk m (negb (match m with [] => true | _ => false end)), [EpProfile])
       | UgUnavail => (VgUnavail, [EpProfile])
       | UgErr => (VgErr, [EpProfile])
       end.

(* redeemRefreshToken, sso.go:288-333 *)
Inductive rr_result := RrOk (tok : str) (dur : Z) | RrUnavail | RrRevoked | RrErr.
Definition redeem_refresh (a : answers) : rr_result :=
  match a_refresh a with
  | Transport => RrErr
  | St c => if c =? 201 then match a_refresh_body a with Some (t, d) => RrOk t d | None => RrErr end
            else if unavailable c then RrUnavail
            else if c =? 401 then RrRevoked else RrErr
  end.

(* RefreshSession, sso.go:242-286 *)
Inductive refresh_result := RfOk | RfMissingToken | RfUnavail | RfRevoked | RfGroupRevoked | RfErr.
Definition refresh_session (now : Z) (c : cfg) (allowed : list str) (s : session) (a : answers)
  : refresh_result * session * list endpoint :=
  match s_refresh_tok s with
  | [] => (RfMissingToken, s, [])
  | _ =>
    match redeem_refresh a with
    | RrUnavail =>
        let '(ok, s1) := within_grace now (c_G c) s in
        if ok then (RfOk, set_refresh_dl s1 (now + c_V c), [EpRefresh]) else (RfUnavail, s1, [EpRefresh])
    | RrRevoked => (RfRevoked, s, [EpRefresh])
    | RrErr => (RfErr, s, [EpRefresh])
    | RrOk tok dur =>
        let '(vg, calls) := validate_group_p allowed a in
        match vg with
        | VgUnavail =>
            let '(ok, s1) := within_grace now (c_G c) s in
            if ok then (RfOk, set_refresh_dl s1 (now + c_V c), EpRefresh :: calls)
            else (RfUnavail, s1, EpRefresh :: calls)
        | VgErr => (RfErr, s, EpRefresh :: calls)
        | VgOk m false => (RfGroupRevoked, s, EpRefresh :: calls)
        | VgOk m true =>
            (RfOk, set_grace (set_refresh_dl (set_access (set_groups s m) tok) (now + dur)) None, EpRefresh :: calls)
        end
    end
  end.

(* ValidateSessionState, sso.go:336-401 *)
Definition validate_session (now : Z) (c : cfg) (allowed : list str) (s : session) (a : answers)
  : bool * session * list endpoint :=
  match a_validate a with
  | Transport => (false, s, [EpValidate])
  | St code =>
    if code =? 200 then
      let '(vg, calls) := validate_group_p allowed a in
      match vg with
      | VgUnavail =>
          let '(ok, s1) := within_grace now (c_G c) s in
          if ok then (true, set_valid_dl s1 (now + c_V c), EpValidate :: calls) else (false, s1, EpValidate :: calls)
      | VgErr => (false, s, EpValidate :: calls)
      | VgOk m false => (false, s, EpValidate :: calls)
      | VgOk m true => (true, set_grace (set_valid_dl (set_groups s m) (now + c_V c)) None, EpValidate :: calls)
      end
    else if unavailable code then
      let '(ok, s1) := within_grace now (c_G c) s in
      if ok then (true, set_valid_dl s1 (now + c_V c), [EpValidate]) else (false, s1, [EpValidate])
    else (false, s, [EpValidate])
  end.

(* ---- the proxy's view of a request ---- *)
Inductive cookie := NoCookie | Junk | Sealed (s : session).
Inductive which_endpoint := EProxy | EAuthOnly | EFavicon.

Record request := {
  r_host : str; r_is_options : bool; r_skip_hit : bool;   (* some compiled skip-auth regex matches URL.Path (oracle) *)
  r_xhr : bool; r_endpoint : which_endpoint; r_cookie : cookie }.

(* per-upstream policy *)
Record upolicy := { u_rules : policy; u_preflight : bool }.

Inductive auth_err := ENoCookie | EInvalidSession | EWrongProvider | EWrongUpstream | ELifetime
                    | ENotAuthorized | ERevoked | EOther.

Inductive cookie_effect := CNone | CCleared | CSaved (s : session).

Record auth_out := { ao_err : option auth_err; ao_cookie : cookie_effect; ao_calls : list endpoint;
                     ao_session : option session }.   (* the session whose identity is asserted upstream *)

Section Auth.
Variable lower : str -> str.

(* Authenticate, oauthproxy.go:613-756. The deferred ClearSession runs on every error. *)
Definition authenticate (now : Z) (c : cfg) (u : upolicy) (host : str) (ck : cookie) (a : answers) : auth_out :=
  let fail e calls := {| ao_err := Some e; ao_cookie := CCleared; ao_calls := calls; ao_session := None |} in
  match ck with
  | NoCookie => fail ENoCookie []
  | Junk => fail EInvalidSession []
  | Sealed s =>
    if negb (str_eqb (s_slug s) (c_slug c)) then fail EWrongProvider []
    else if negb (str_eqb host (s_upstream s)) then fail EWrongUpstream []
    else if expired (s_lifetime_dl s) now then fail ELifetime []
    else
      let allowed := p_groups (u_rules u) in
      let finish (s' : session) (eff : cookie_effect) (calls : list endpoint) :=
        if request_gate lower (u_rules u) (s_email s')
        then {| ao_err := None; ao_cookie := eff; ao_calls := calls; ao_session := Some s' |}
        else fail ENotAuthorized calls in
      if expired (s_refresh_dl s) now then
        let '(r, s', calls) := refresh_session now c allowed s a in
        match r with
        | RfOk => finish s' (CSaved s') calls
        | RfRevoked => fail ERevoked calls
        | _ => fail EOther calls
        end
      else if expired (s_valid_dl s) now then
        let '(ok, s', calls) := validate_session now c allowed s a in
        if ok then finish s' (CSaved s') calls else fail ENotAuthorized calls
      else finish s CNone []
  end.

(* IsWhitelistedRequest, oauthproxy.go:272-285 *)
Definition whitelisted (u : upolicy) (r : request) : bool :=
  (u_preflight u && r_is_options r) || r_skip_hit r.

Inductive outcome :=
| Forward (identity : option session)   (* handler.ServeHTTP: the upstream is reached *)
| SignIn                                (* OAuthStart: 302 to the provider (401 JSON for XHR) *)
| Status (code : Z).                    (* error page / plain status; upstream not reached *)

Record response := { rs_out : outcome; rs_cookie : cookie_effect; rs_calls : list endpoint }.

(* Proxy, oauthproxy.go:538-609 *)
Definition proxy_handle (now : Z) (c : cfg) (u : upolicy) (r : request) (a : answers) : response :=
  if whitelisted u r then {| rs_out := Forward None; rs_cookie := CNone; rs_calls := [] |}
  else
    let o := authenticate now c u (r_host r) (r_cookie r) a in
    match ao_err o with
    | None => {| rs_out := Forward (ao_session o); rs_cookie := ao_cookie o; rs_calls := ao_calls o |}
    | Some e =>
        let out := match e with
                   | ENoCookie | ELifetime | EWrongProvider | EWrongUpstream | EInvalidSession => SignIn
                   | ENotAuthorized => Status 403
                   | ERevoked => Status 401
                   | EOther => Status 500
                   end in
        {| rs_out := out; rs_cookie := ao_cookie o; rs_calls := ao_calls o |}
    end.

(* the three routes that consult Authenticate *)
Definition handle (now : Z) (c : cfg) (u : upolicy) (r : request) (a : answers) : response :=
  match r_endpoint r with
  | EProxy => proxy_handle now c u r a
  | EAuthOnly =>                                     (* AuthenticateOnly: 401 / 202 *)
      let o := authenticate now c u (r_host r) (r_cookie r) a in
      {| rs_out := match ao_err o with None => Status 202 | Some _ => Status 401 end;
         rs_cookie := ao_cookie o; rs_calls := ao_calls o |}
  | EFavicon =>                                      (* Favicon: Authenticate, then Proxy (which authenticates again) *)
      let o := authenticate now c u (r_host r) (r_cookie r) a in
      match ao_err o with
      | Some _ => {| rs_out := Status 404; rs_cookie := ao_cookie o; rs_calls := ao_calls o |}
      | None =>
          let p := proxy_handle now c u r a in
          {| rs_out := rs_out p;
             rs_cookie := match rs_cookie p with CNone => ao_cookie o | e => e end;
             rs_calls := ao_calls o ++ rs_calls p |}
      end
  end.

Definition served (rs : response) : bool := match rs_out rs with Forward _ => true | _ => false end.

End Auth.
